(** Specification for property C05 (DESIGN.md 5.5), written over the parsed definitions and
    independently of the algorithm of compile.go (no sequential update of a database, no
    lookups in a partially built database):

      [denotes defs db]   the database a list of definitions denotes (a RELATION: the order of
                          nodes, messages, signals and value descriptions is left open);
      [canonical db]      the canonical order;
      [in_class defs]     the compile class of DESIGN.md 4.2, as a boolean;
      [perm42]            the reorderings of DESIGN.md 4.2, [defs_perm] any reordering;
      [spec_warnings]     which definitions must produce which warning;
      [denoted_db]        the denoted database as a FUNCTION, in source order (used to decide
                          [denotes] in the correspondence driver and as the bridge in the proofs).

    "Resolving" a metadata line means: it names a node by name, a message by CAN id
    (extended flag stripped), or a signal by (CAN id, signal name).  The selectors [sel_*]
    say which line contributes which value to which object.  DEFINITIONS ONLY. *)
From Coq Require Import ZArith List Bool Permutation Sorted.
From CanVerif Require Can.Data.
From CanVerif Require Import Base.Sort Dbc.Ast Descriptor.Types Dbc.Compile.
Import ListNotations.
Open Scope Z_scope.

(** * What is declared *)
Definition declared_nodes (defs : list def) : list bytes :=
  flat_map (fun d => match d with DNodes _ ns => ns | _ => [] end) defs.
(** the message definitions that are compiled: all but the pseudo message 0xC0000000 *)
Definition message_defs (defs : list def) : list message_def :=
  flat_map (fun d => match d with
                     | DMessage m => if m_id m =? msgid_independent then [] else [m]
                     | _ => []
                     end) defs.
Definition can_id (md : message_def) : Z := msgid_to_can (m_id md).

(** * Selectors: the value a definition contributes to an object, if it resolves to it *)
Definition sel_version (d : def) : option bytes :=
  match d with DVersion _ v => Some v | _ => None end.

Definition sel_node_comment (name : bytes) (d : def) : option bytes :=
  match d with
  | DComment c =>
      match cm_object c with
      | OtNode => if bytes_eqb (cm_node c) name then Some (cm_comment c) else None
      | _ => None
      end
  | _ => None
  end.

Definition sel_msg_comment (id : Z) (d : def) : option bytes :=
  match d with
  | DComment c =>
      match cm_object c with
      | OtMessage =>
          if negb (cm_message_id c =? msgid_independent) && (msgid_to_can (cm_message_id c) =? id)
          then Some (cm_comment c) else None
      | _ => None
      end
  | _ => None
  end.

Definition sel_sig_comment (id : Z) (name : bytes) (d : def) : option bytes :=
  match d with
  | DComment c =>
      match cm_object c with
      | OtSignal =>
          if negb (cm_message_id c =? msgid_independent) && (msgid_to_can (cm_message_id c) =? id)
             && bytes_eqb (cm_signal c) name
          then Some (cm_comment c) else None
      | _ => None
      end
  | _ => None
  end.

(** SIG_VALTYPE_: 0 = integer, 1 = float32 (only honoured on 32-bit signals), anything else ignored *)
Definition sel_float (id : Z) (name : bytes) (len : Z) (d : def) : option bool :=
  match d with
  | DSignalValueType _ mid sname vt =>
      if (msgid_to_can mid =? id) && bytes_eqb sname name then
        if vt =? 0 then Some false
        else if (vt =? 1) && (len =? 32) then Some true
        else None
      else None
  | _ => None
  end.

Definition sel_values (id : Z) (name : bytes) (d : def) : option (list value_description_def) :=
  match d with
  | DValueDescriptions v =>
      match vs_object v with
      | OtSignal =>
          if negb (vs_message_id v =? msgid_independent) && (msgid_to_can (vs_message_id v) =? id)
             && bytes_eqb (vs_signal v) name
          then Some (vs_values v) else None
      | _ => None
      end
  | _ => None
  end.

Definition sel_msg_attr (attr : bytes) (id : Z) (d : def) : option attribute_value_def :=
  match d with
  | DAttributeValue a =>
      match av_object a with
      | OtMessage =>
          if (msgid_to_can (av_message_id a) =? id) && bytes_eqb (av_name a) attr then Some a else None
      | _ => None
      end
  | _ => None
  end.

Definition sel_sig_attr (attr : bytes) (id : Z) (name : bytes) (d : def) : option attribute_value_def :=
  match d with
  | DAttributeValue a =>
      match av_object a with
      | OtSignal =>
          if (msgid_to_can (av_message_id a) =? id) && bytes_eqb (av_signal a) name
             && bytes_eqb (av_name a) attr then Some a else None
      | _ => None
      end
  | _ => None
  end.

Definition sel_send_type (id : Z) (d : def) : option send_type :=
  option_map (fun a => unmarshal_send_type (av_string a)) (sel_msg_attr attr_send_type id d).
(** milliseconds -> nanoseconds, as a mathematical integer *)
Definition sel_cycle_time (id : Z) (d : def) : option Z :=
  option_map (fun a => av_int a * 1000000) (sel_msg_attr attr_cycle_time id d).
Definition sel_delay_time (id : Z) (d : def) : option Z :=
  option_map (fun a => av_int a * 1000000) (sel_msg_attr attr_delay_time id d).
Definition sel_start_value (id : Z) (name : bytes) (d : def) : option Z :=
  option_map av_int (sel_sig_attr attr_start_value id name d).

(** [v] is the value of some selected definition, or the default when nothing is selected.
    In the compile class at most one definition is selected (see [meta_key]). *)
Definition taken_from {B : Type} (sel : def -> option B) (defs : list def) (dflt v : B) : Prop :=
  (exists d, In d defs /\ sel d = Some v) \/ ((forall d, In d defs -> sel d = None) /\ v = dflt).

(** [l'] is [l] in some order, element-wise related by [R] *)
Definition perm2 {A B : Type} (R : A -> B -> Prop) (l : list A) (l' : list B) : Prop :=
  exists m, Permutation l m /\ Forall2 R m l'.

(** * The denoted database *)
Definition signal_denotes (defs : list def) (id : Z) (sd : signal_def) (s : signal) : Prop :=
  s_name s = sg_name sd /\
  s_start s = sg_start sd /\
  s_length s = sg_size sd /\
  s_big_endian s = sg_big_endian sd /\
  s_signed s = sg_signed sd /\
  s_multiplexer s = sg_mux_switch sd /\
  s_multiplexed s = sg_multiplexed sd /\
  s_mux_value s = sg_mux_value sd /\
  s_offset s = sg_offset sd /\ s_scale s = sg_factor sd /\ s_min s = sg_min sd /\ s_max s = sg_max sd /\
  s_unit s = sg_unit sd /\
  s_receivers s = sg_receivers sd /\
  taken_from (sel_float id (sg_name sd) (sg_size sd)) defs false (s_float s) /\
  taken_from (sel_sig_comment id (sg_name sd)) defs [] (s_description s) /\
  taken_from (sel_start_value id (sg_name sd)) defs 0 (s_default s) /\
  exists vals, taken_from (sel_values id (sg_name sd)) defs [] vals /\
               Permutation (map vdesc_of_def vals) (s_value_descriptions s).

Definition message_denotes (defs : list def) (md : message_def) (m : message) : Prop :=
  msg_name m = m_name md /\
  msg_id m = msgid_to_can (m_id md) /\
  msg_extended m = msgid_is_extended (m_id md) /\
  msg_length m = m_size md /\
  msg_sender m = m_transmitter md /\
  taken_from (sel_msg_comment (can_id md)) defs [] (msg_description m) /\
  taken_from (sel_send_type (can_id md)) defs SendNone (msg_send_type m) /\
  taken_from (sel_cycle_time (can_id md)) defs 0 (msg_cycle_time m) /\
  taken_from (sel_delay_time (can_id md)) defs 0 (msg_delay_time m) /\
  perm2 (signal_denotes defs (can_id md)) (m_signals md) (msg_signals m).

Definition node_denotes (defs : list def) (name : bytes) (n : node) : Prop :=
  node_name n = name /\ taken_from (sel_node_comment name) defs [] (node_description n).

Definition denotes (defs : list def) (db : database) : Prop :=
  taken_from sel_version defs [] (db_version db) /\
  perm2 (node_denotes defs) (declared_nodes defs) (db_nodes db) /\
  perm2 (message_denotes defs) (message_defs defs) (db_messages db).

(** * Canonical order *)
Definition node_lt (a b : node) : Prop := bytes_ltb (node_name a) (node_name b) = true.
Definition msg_lt (a b : message) : Prop := msg_id a < msg_id b.
Definition sig_lt (a b : signal) : Prop :=
  s_start a < s_start b \/ (s_start a = s_start b /\ s_mux_value a < s_mux_value b).
Definition vd_lt (a b : value_description) : Prop := vdesc_value a < vdesc_value b.

Definition canonical (db : database) : Prop :=
  StronglySorted node_lt (db_nodes db) /\
  StronglySorted msg_lt (db_messages db) /\
  Forall (fun m => StronglySorted sig_lt (msg_signals m) /\
                   Forall (fun s => StronglySorted vd_lt (s_value_descriptions s)) (msg_signals m))
         (db_messages db).

(** boolean version for the correspondence driver: adjacent elements are in order
    (sound by [CompileProofs.canonicalb_sound]; every order here is transitive) *)
Fixpoint sortedb {A : Type} (less : A -> A -> bool) (l : list A) : bool :=
  match l with
  | a :: ((b :: _) as l') => less a b && sortedb less l'
  | _ => true
  end.
Definition canonicalb (db : database) : bool :=
  sortedb node_less (db_nodes db) &&
  sortedb msg_less (db_messages db) &&
  forallb (fun m => sortedb sig_less (msg_signals m) &&
                    forallb (fun s => sortedb vd_less (s_value_descriptions s)) (msg_signals m))
          (db_messages db).

(** * The denoted database as a function (source order) *)
Definition pick_last {B : Type} (sel : def -> option B) (defs : list def) (dflt : B) : B :=
  fold_left (fun acc d => match sel d with Some v => v | None => acc end) defs dflt.

Definition denoted_signal (defs : list def) (id : Z) (sd : signal_def) : signal :=
  {| s_name := sg_name sd;
     s_start := sg_start sd;
     s_length := sg_size sd;
     s_big_endian := sg_big_endian sd;
     s_signed := sg_signed sd;
     s_float := pick_last (sel_float id (sg_name sd) (sg_size sd)) defs false;
     s_multiplexer := sg_mux_switch sd;
     s_multiplexed := sg_multiplexed sd;
     s_mux_value := sg_mux_value sd;
     s_offset := sg_offset sd; s_scale := sg_factor sd; s_min := sg_min sd; s_max := sg_max sd;
     s_unit := sg_unit sd;
     s_description := pick_last (sel_sig_comment id (sg_name sd)) defs [];
     s_value_descriptions := map vdesc_of_def (pick_last (sel_values id (sg_name sd)) defs []);
     s_receivers := sg_receivers sd;
     s_default := pick_last (sel_start_value id (sg_name sd)) defs 0 |}.

Definition denoted_message (defs : list def) (md : message_def) : message :=
  {| msg_name := m_name md;
     msg_id := can_id md;
     msg_extended := msgid_is_extended (m_id md);
     msg_length := m_size md;
     msg_send_type := pick_last (sel_send_type (can_id md)) defs SendNone;
     msg_description := pick_last (sel_msg_comment (can_id md)) defs [];
     msg_signals := map (denoted_signal defs (can_id md)) (m_signals md);
     msg_sender := m_transmitter md;
     msg_cycle_time := pick_last (sel_cycle_time (can_id md)) defs 0;
     msg_delay_time := pick_last (sel_delay_time (can_id md)) defs 0 |}.

Definition denoted_node (defs : list def) (name : bytes) : node :=
  {| node_name := name; node_description := pick_last (sel_node_comment name) defs [] |}.

Definition denoted_db (source : bytes) (defs : list def) : database :=
  {| db_source_file := source;
     db_version := pick_last sel_version defs [];
     db_messages := map (denoted_message defs) (message_defs defs);
     db_nodes := map (denoted_node defs) (declared_nodes defs) |}.

(** decision procedure for [denotes] used by the driver (OCaml structural equality of the two
    sides); sound by [CompileProofs.denotes_check_sound] *)
Definition denotes_check_lhs (db : database) : database := sort_db db.
Definition denotes_check_rhs (defs : list def) (db : database) : database :=
  sort_db (denoted_db (db_source_file db) defs).

(** * The compile class (DESIGN.md 4.2) *)
Fixpoint nodupb {A : Type} (eqb : A -> A -> bool) (l : list A) : bool :=
  match l with
  | [] => true
  | a :: l' => negb (existsb (eqb a) l') && nodupb eqb l'
  end.

(** identity of "what a resolved metadata line is about": (kind, CAN id, name, attribute) with
    kind 0 CM_ BU_, 1 CM_ BO_, 2 CM_ SG_, 3 SIG_VALTYPE_, 4 VAL_, 5 BA_ BO_, 6 BA_ SG_.
    Lines that [addMetadata] skips have no key. *)
Definition key : Type := Z * Z * bytes * bytes.
Definition key_eqb (a b : key) : bool :=
  match a, b with
  | (k1, i1, n1, a1), (k2, i2, n2, a2) => (k1 =? k2) && (i1 =? i2) && bytes_eqb n1 n2 && bytes_eqb a1 a2
  end.
Definition meta_key (d : def) : list key :=
  match d with
  | DSignalValueType _ id name _ => [(3, msgid_to_can id, name, [])]
  | DComment c =>
      match cm_object c with
      | OtNode => [(0, 0, cm_node c, [])]
      | OtMessage => if cm_message_id c =? msgid_independent then [] else [(1, msgid_to_can (cm_message_id c), [], [])]
      | OtSignal => if cm_message_id c =? msgid_independent then []
                    else [(2, msgid_to_can (cm_message_id c), cm_signal c, [])]
      | _ => []
      end
  | DValueDescriptions v =>
      if vs_message_id v =? msgid_independent then []
      else match vs_object v with
           | OtSignal => [(4, msgid_to_can (vs_message_id v), vs_signal v, [])]
           | _ => []
           end
  | DAttributeValue a =>
      match av_object a with
      | OtMessage => [(5, msgid_to_can (av_message_id a), [], av_name a)]
      | OtSignal => [(6, msgid_to_can (av_message_id a), av_signal a, av_name a)]
      | _ => []
      end
  | _ => []
  end.
(** "metadata that is resolved" = the lines addMetadata consumes *)
Definition is_resolved_meta (d : def) : bool := match meta_key d with [] => false | _ => true end.

Definition pair_eqb (a b : Z * Z) : bool := (fst a =? fst b) && (snd a =? snd b).

Definition signal_ok (msize : Z) (sd : signal_def) : bool :=
  (0 <=? sg_start sd) && (sg_start sd <? 64) && (1 <=? sg_size sd) && (sg_size sd <=? 64) &&
  (if sg_big_endian sd then Data.check_be msize (sg_start sd) (sg_size sd)
   else Data.check_le msize (sg_start sd) (sg_size sd)) &&
  (0 <=? sg_mux_value sd) && (sg_mux_value sd <? two64).

Definition message_ok (md : message_def) : bool :=
  (0 <=? m_size md) && (m_size md <=? 8) &&
  (0 <=? m_id md) && (m_id md <? 4294967296) && msgid_valid (m_id md) &&
  forallb (signal_ok (m_size md)) (m_signals md) &&
  nodupb bytes_eqb (map sg_name (m_signals md)) &&
  nodupb pair_eqb (map (fun s => (sg_start s, sg_mux_value s)) (m_signals md)).

Definition def_ok (d : def) : bool :=
  match d with
  | DValueDescriptions v =>
      match vs_object v with
      | OtSignal =>
          forallb (fun x => f64_integral (vd_value x) && f64_in_int64 (vd_value x)) (vs_values v) &&
          nodupb Z.eqb (map (fun x => int64_of_f64 (vd_value x)) (vs_values v))
      | _ => true
      end
  | DAttributeValue a =>
      (- two63 <=? av_int a) && (av_int a <? two63) &&
      (if bytes_eqb (av_name a) attr_cycle_time || bytes_eqb (av_name a) attr_delay_time
       then (- two63 <=? av_int a * 1000000) && (av_int a * 1000000 <? two63) else true) &&
      (if bytes_eqb (av_name a) attr_send_type then is_ascii (av_string a) else true)
  | DAttribute a =>
      if bytes_eqb (ad_name a) attr_send_type then match ad_type a with AtEnum => true | _ => false end
      else if bytes_eqb (ad_name a) attr_cycle_time || bytes_eqb (ad_name a) attr_delay_time
              || bytes_eqb (ad_name a) attr_start_value
           then match ad_type a with AtInt => true | _ => false end
      else true
  | _ => true
  end.

Definition in_class (defs : list def) : bool :=
  nodupb bytes_eqb (declared_nodes defs) &&
  nodupb Z.eqb (map can_id (message_defs defs)) &&
  forallb message_ok (message_defs defs) &&
  nodupb key_eqb (flat_map meta_key defs) &&
  forallb def_ok defs.

(** * Warnings: which definition must warn, decided on the definitions alone *)
Definition declares_message (defs : list def) (id : Z) : bool :=
  existsb (fun md => can_id md =? id) (message_defs defs).
Definition declares_signal (defs : list def) (id : Z) (name : bytes) : bool :=
  existsb (fun md => (can_id md =? id) && existsb (fun sd => bytes_eqb (sg_name sd) name) (m_signals md))
          (message_defs defs).
Definition declares_node (defs : list def) (name : bytes) : bool :=
  existsb (fun n => bytes_eqb n name) (declared_nodes defs).
(** a signal (id, name) of declared length [len] exists *)
Definition declares_signal_len (defs : list def) (id : Z) (name : bytes) (len : Z) : bool :=
  existsb (fun md => (can_id md =? id) &&
                     existsb (fun sd => bytes_eqb (sg_name sd) name && (sg_size sd =? len)) (m_signals md))
          (message_defs defs).

Definition spec_warning (defs : list def) (d : def) : list warn_kind :=
  match d with
  | DSignalValueType _ id name vt =>
      if negb (declares_signal defs (msgid_to_can id) name) then [WNoSignal]
      else if vt =? 0 then []
      else if vt =? 1 then (if declares_signal_len defs (msgid_to_can id) name 32 then [] else [WFloatLength])
      else [WUnsupportedType]
  | DComment c =>
      match cm_object c with
      | OtNode => if declares_node defs (cm_node c) then [] else [WNoNode]
      | OtMessage =>
          if cm_message_id c =? msgid_independent then []
          else if declares_message defs (msgid_to_can (cm_message_id c)) then [] else [WNoMessage]
      | OtSignal =>
          if cm_message_id c =? msgid_independent then []
          else if declares_signal defs (msgid_to_can (cm_message_id c)) (cm_signal c) then [] else [WNoSignal]
      | _ => []
      end
  | DValueDescriptions v =>
      if vs_message_id v =? msgid_independent then []
      else match vs_object v with
           | OtSignal =>
               if declares_signal defs (msgid_to_can (vs_message_id v)) (vs_signal v) then [] else [WNoSignal]
           | _ => []
           end
  | DAttributeValue a =>
      match av_object a with
      | OtMessage => if declares_message defs (msgid_to_can (av_message_id a)) then [] else [WNoMessage]
      | OtSignal =>
          if declares_signal defs (msgid_to_can (av_message_id a)) (av_signal a) then [] else [WNoSignal]
      | _ => []
      end
  | _ => []
  end.

Definition spec_warnings (defs : list def) : list warning :=
  flat_map (fun d => map (fun k => (k, def_pos d)) (spec_warning defs d)) defs.
Definition warns (defs : list def) (d : def) : bool :=
  match spec_warning defs d with [] => false | _ => true end.

(** * Reorderings *)
(** the same message with its signals in another order *)
Definition msg_sim (m m' : message_def) : Prop :=
  m_pos m' = m_pos m /\ m_id m' = m_id m /\ m_name m' = m_name m /\ m_size m' = m_size m /\
  m_transmitter m' = m_transmitter m /\ Permutation (m_signals m) (m_signals m').
Inductive def_sim : def -> def -> Prop :=
| ds_refl : forall d, def_sim d d
| ds_msg : forall m m', msg_sim m m' -> def_sim (DMessage m) (DMessage m').

(** ANY reordering of the definitions and of the signals inside the messages *)
Definition defs_perm (defs defs' : list def) : Prop := perm2 def_sim defs defs'.

Definition is_message (d : def) : bool := match d with DMessage _ => true | _ => false end.

(** the reorderings of DESIGN.md 4.2: messages among themselves, signals inside a message,
    resolved metadata lines among themselves; everything else stays where it is *)
Inductive perm42 : list def -> list def -> Prop :=
| p42_refl : forall l, perm42 l l
| p42_trans : forall l1 l2 l3, perm42 l1 l2 -> perm42 l2 l3 -> perm42 l1 l3
| p42_swap_messages : forall l1 a l2 b l3,
    is_message a = true -> is_message b = true ->
    perm42 (l1 ++ a :: l2 ++ b :: l3) (l1 ++ b :: l2 ++ a :: l3)
| p42_swap_metadata : forall l1 a l2 b l3,
    is_resolved_meta a = true -> is_resolved_meta b = true ->
    perm42 (l1 ++ a :: l2 ++ b :: l3) (l1 ++ b :: l2 ++ a :: l3)
| p42_signals : forall l1 m m' l2,
    msg_sim m m' -> perm42 (l1 ++ DMessage m :: l2) (l1 ++ DMessage m' :: l2).
