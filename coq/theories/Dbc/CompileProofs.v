(** Proofs for property C05: the model of compile.go (Dbc/Compile.v) against the
    specification (Dbc/CompileSpec.v).  Helper files: CompileLemmas.v (orders, lists up to
    order), CompileStep.v (addMetadata object by object), CompileDenoted.v (collect +
    addMetadata = the denoted database in source order; warnings).

    Main results (restated in Properties/C05.v):
      [compile_eq]              in the class, compile = (sort (denoted database), spec warnings)
      [compile_denotes]         the compiled database is denoted by the definitions and canonical
      [warnings_exact]          the warnings are exactly those of the specification
      [warnings_attach_nothing] dropping the warned-about lines does not change the database
      [compile_perm_general]    any reordering of definitions / signals gives the same database
      [compile_perm]            ... in particular the reorderings of DESIGN.md 4.2
      [compile_perm_refuted]    false for the comparator before fix F10
      [denotes_check_sound], [canonicalb_sound]  the driver's decision procedures are sound. *)
From Coq Require Import ZArith List Bool Permutation Sorted Lia.
From CanVerif Require Can.Data.
From CanVerif Require Import Base.Sort Dbc.Ast Descriptor.Types Dbc.Compile Dbc.CompileSpec
  Dbc.CompileLemmas Dbc.CompileStep Dbc.CompileDenoted.
Import ListNotations.
Open Scope Z_scope.

(** * The denoted database (function) is denoted (relation) *)
Lemma pick_last_taken_from : forall {B} (sel : def -> option B) defs dflt,
  taken_from sel defs dflt (pick_last sel defs dflt).
Proof.
  intros B sel. unfold pick_last, taken_from. induction defs as [|d defs IH]; intros dflt; cbn.
  - right. split; [intros d []|reflexivity].
  - destruct (IH (match sel d with Some v => v | None => dflt end)) as [[d' [Hin Hs]]|[Hnone Heq]].
    + left. exists d'. split; [now right|exact Hs].
    + destruct (sel d) as [v|] eqn:E.
      * left. exists d. split; [now left|]. now rewrite Heq.
      * right. split; [|exact Heq]. intros d' [<-|Hd']; [exact E|now apply Hnone].
Qed.

Lemma denoted_signal_denotes : forall defs id sd, signal_denotes defs id sd (denoted_signal defs id sd).
Proof.
  intros. unfold signal_denotes, denoted_signal. cbn.
  repeat (split; [first [reflexivity|apply pick_last_taken_from]|]).
  exists (pick_last (sel_values id (sg_name sd)) defs []). split; [apply pick_last_taken_from|reflexivity].
Qed.

Lemma denoted_message_denotes : forall defs md, message_denotes defs md (denoted_message defs md).
Proof.
  intros. unfold message_denotes, denoted_message. cbn.
  repeat (split; [first [reflexivity|apply pick_last_taken_from]|]).
  apply perm2_map_r. intros sd _. apply denoted_signal_denotes.
Qed.

Lemma denoted_db_denotes : forall src defs, denotes defs (denoted_db src defs).
Proof.
  intros. unfold denotes, denoted_db. cbn. split; [apply pick_last_taken_from|]. split.
  - apply perm2_map_r. intros n _. split; [reflexivity|apply pick_last_taken_from].
  - apply perm2_map_r. intros md _. apply denoted_message_denotes.
Qed.

(** * Databases up to the order of nodes, messages, signals and value descriptions *)
Definition sig_perm (s s' : signal) : Prop :=
  s' = set_s_value_descriptions s (s_value_descriptions s') /\
  Permutation (s_value_descriptions s) (s_value_descriptions s').
Definition msg_perm (m m' : message) : Prop :=
  m' = set_msg_signals m (msg_signals m') /\ perm2 sig_perm (msg_signals m) (msg_signals m').
Definition db_perm (db db' : database) : Prop :=
  db_source_file db' = db_source_file db /\ db_version db' = db_version db /\
  Permutation (db_nodes db) (db_nodes db') /\ perm2 msg_perm (db_messages db) (db_messages db').

Lemma sig_perm_sym : forall s s', sig_perm s s' -> sig_perm s' s.
Proof.
  intros s s' [E P]. split; [|now symmetry]. destruct s, s'; cbn in *. inversion E; subst. reflexivity.
Qed.
Lemma msg_perm_sym : forall m m', msg_perm m m' -> msg_perm m' m.
Proof.
  intros m m' [E P]. split.
  - destruct m, m'; cbn in *. inversion E; subst. reflexivity.
  - apply perm2_sym in P. eapply perm2_impl; [|exact P]. intros a b _ _. apply sig_perm_sym.
Qed.
Lemma db_perm_sym : forall db db', db_perm db db' -> db_perm db' db.
Proof.
  intros db db' (E1 & E2 & P & Q). repeat split; auto; [now symmetry|].
  apply perm2_sym in Q. eapply perm2_impl; [|exact Q]. intros a b _ _. apply msg_perm_sym.
Qed.

Lemma signal_denotes_perm : forall defs id sd s s',
  signal_denotes defs id sd s -> sig_perm s s' -> signal_denotes defs id sd s'.
Proof.
  intros defs id sd s s' H [E P]. unfold signal_denotes in *. rewrite E. cbn.
  decompose [and] H. clear H.
  repeat (split; [assumption|]).
  match goal with Hx : exists _, _ |- _ => destruct Hx as [vals [Ht Hp]] end.
  exists vals. split; [exact Ht|]. eapply perm_trans; eassumption.
Qed.

Lemma message_denotes_perm : forall defs md m m',
  message_denotes defs md m -> msg_perm m m' -> message_denotes defs md m'.
Proof.
  intros defs md m m' H [E P]. unfold message_denotes in *. rewrite E. cbn.
  decompose [and] H. clear H.
  repeat (split; [assumption|]).
  match goal with Hx : perm2 _ _ (msg_signals m) |- _ => pose proof (perm2_comp _ _ _ _ _ Hx P) as Q end.
  eapply perm2_impl; [|exact Q]. cbn. intros sd s' _ _ [s [Hd1 Hd2]]. eapply signal_denotes_perm; eassumption.
Qed.

Lemma denotes_db_perm : forall defs db db', db_perm db db' -> denotes defs db -> denotes defs db'.
Proof.
  intros defs db db' (E1 & E2 & P & Q) (Hv & Hn & Hm). unfold denotes. rewrite E2.
  split; [exact Hv|]. split.
  - eapply perm2_perm_r; eassumption.
  - pose proof (perm2_comp _ _ _ _ _ Hm Q) as R.
    eapply perm2_impl; [|exact R]. cbn. intros md m' _ _ [m [Hd1 Hd2]]. eapply message_denotes_perm; eassumption.
Qed.

Lemma sort_signal_perm : forall s, sig_perm s (sort_signal s).
Proof. intros s. split; [reflexivity|]. cbn. apply sort_slice_perm. Qed.

Lemma sort_message_perm : forall sl m, msg_perm m (sort_message sl m).
Proof.
  intros sl m. split; [reflexivity|]. cbn.
  exists (sort_slice sl (msg_signals m)). split; [apply sort_slice_perm|].
  apply Forall2_map_r. intros s _. apply sort_signal_perm.
Qed.

Lemma sort_db_perm : forall sl db, db_perm db (sort_db_with sl db).
Proof.
  intros sl db. unfold db_perm, sort_db_with. cbn. repeat split; [apply sort_slice_perm|].
  exists (sort_slice msg_less (db_messages db)). split; [apply sort_slice_perm|].
  apply Forall2_map_r. intros m _. apply sort_message_perm.
Qed.

(** * Canonical order of the sorted denoted database *)
Lemma StronglySorted_map : forall {A} (R R' : A -> A -> Prop) (f : A -> A) l,
  (forall a b, R a b -> R' (f a) (f b)) -> StronglySorted R l -> StronglySorted R' (map f l).
Proof.
  intros A R R' f l H HS. induction HS; cbn; constructor; [assumption|].
  apply Forall_forall. intros x Hx. apply in_map_iff in Hx as [y [<- Hy]].
  apply H. rewrite Forall_forall in H0. now apply H0.
Qed.

Lemma values_nodup : forall defs id name, class_facts defs ->
  NoDup (map vdesc_value (map vdesc_of_def (pick_last (sel_values id name) defs []))).
Proof.
  intros defs id name CF.
  destruct (pick_last_taken_from (sel_values id name) defs []) as [[d [Hin Hs]]|[_ ->]]; [|constructor].
  pose proof (cf_defs _ CF) as Hok. rewrite Forall_forall in Hok. specialize (Hok d Hin).
  destruct d; cbn in Hs; try discriminate. destruct (vs_object v) eqn:Eo; try discriminate.
  destruct (negb (vs_message_id v =? msgid_independent) && (msgid_to_can (vs_message_id v) =? id) &&
            bytes_eqb (vs_signal v) name); [|discriminate].
  inversion Hs as [Hv]. cbn in Hok. rewrite Eo in Hok.
  apply andb_true_iff in Hok as [_ Hnd].
  rewrite (nodupb_NoDup Z.eqb Z.eqb_eq) in Hnd. rewrite map_map. cbn. exact Hnd.
Qed.

Lemma sort_signal_canonical : forall defs id sd, class_facts defs ->
  StronglySorted vd_lt (s_value_descriptions (sort_signal (denoted_signal defs id sd))).
Proof.
  intros defs id sd CF. cbn.
  eapply StronglySorted_impl; [|apply (sort_slice_sorted vd_less vdesc_value vd_less_trans vd_less_total)].
  - intros a b. unfold lt, vd_less, vd_lt. apply Z.ltb_lt.
  - now apply values_nodup.
Qed.

Lemma sort_message_canonical : forall defs md, class_facts defs -> message_ok md = true ->
  let m := sort_message sig_less (denoted_message defs md) in
  StronglySorted sig_lt (msg_signals m) /\
  Forall (fun s => StronglySorted vd_lt (s_value_descriptions s)) (msg_signals m).
Proof.
  intros defs md CF Hok. cbn. pose proof (message_ok_facts _ Hok) as MF. split.
  - apply (StronglySorted_map (fun a b => sig_less a b = true)).
    + intros a b H. apply sig_less_lt. exact H.
    + apply (sort_slice_sorted sig_less sig_key sig_less_trans sig_less_total).
      rewrite map_map. cbn. exact (mf_keys _ MF).
  - apply Forall_forall. intros s' Hs'. apply in_map_iff in Hs' as [s [<- Hs]].
    apply sort_slice_in in Hs. apply in_map_iff in Hs as [sd [<- _]].
    now apply sort_signal_canonical.
Qed.

Lemma sort_denoted_canonical : forall src defs, class_facts defs ->
  canonical (sort_db (denoted_db src defs)).
Proof.
  intros src defs CF. unfold canonical, sort_db, sort_db_with. cbn. repeat split.
  - eapply StronglySorted_impl; [|apply (sort_slice_sorted node_less node_name node_less_trans node_less_total)].
    + intros a b H. exact H.
    + rewrite map_map. cbn. rewrite map_id. exact (cf_nodes _ CF).
  - apply (StronglySorted_map (fun a b => msg_less a b = true)).
    + intros a b H. unfold msg_lt. cbn. now apply Z.ltb_lt.
    + apply (sort_slice_sorted msg_less msg_id msg_less_trans msg_less_total).
      rewrite map_map. cbn. exact (cf_ids _ CF).
  - apply Forall_forall. intros m' Hm'. apply in_map_iff in Hm' as [m [<- Hm]].
    apply sort_slice_in in Hm. apply in_map_iff in Hm as [md [<- Hmd]].
    pose proof (cf_msgs _ CF) as Hok. rewrite Forall_forall in Hok.
    apply (sort_message_canonical defs md CF (Hok _ Hmd)).
Qed.

(** * compile = sort of the denoted database *)
Theorem compile_eq : forall src defs, in_class defs = true ->
  compile src defs = (sort_db (denoted_db src defs), spec_warnings defs).
Proof.
  intros src defs Hc. unfold compile, compile_with.
  rewrite (add_metadata_denoted src defs Hc), (add_metadata_warnings src defs Hc). reflexivity.
Qed.

Theorem compile_denotes : forall src defs, in_class defs = true ->
  denotes defs (fst (compile src defs)) /\ canonical (fst (compile src defs)) /\
  db_source_file (fst (compile src defs)) = src.
Proof.
  intros src defs Hc. rewrite (compile_eq src defs Hc). cbn [fst]. split; [|split].
  - eapply denotes_db_perm; [apply sort_db_perm|apply denoted_db_denotes].
  - apply sort_denoted_canonical. now apply in_class_facts.
  - reflexivity.
Qed.

Theorem warnings_exact : forall src defs, in_class defs = true ->
  snd (compile src defs) = spec_warnings defs.
Proof. intros src defs Hc. now rewrite (compile_eq src defs Hc). Qed.

(** * Lines that warn are attached to nothing *)
Lemma collect_filter : forall (keep : def -> bool) defs db,
  (forall d, In d defs -> keep d = false -> collect_step db d = db /\ forall db', collect_step db' d = db') ->
  fold_left collect_step (filter keep defs) db = fold_left collect_step defs db.
Proof.
  intros keep. induction defs as [|d defs IH]; intros db H; cbn; [reflexivity|].
  destruct (keep d) eqn:E; cbn.
  - apply IH. intros d' Hd' Hk. split; [|apply (H d' (or_intror Hd') Hk)].
    apply (H d' (or_intror Hd') Hk).
  - destruct (H d (or_introl eq_refl) E) as [-> _]. apply IH.
    intros d' Hd' Hk. apply (H d' (or_intror Hd') Hk).
Qed.

Lemma warns_not_collected : forall defs d, warns defs d = true -> forall db, collect_step db d = db.
Proof.
  intros defs d H db. unfold warns in H. destruct d; cbn in *; try discriminate; reflexivity.
Qed.

Theorem warnings_attach_nothing : forall src defs, in_class defs = true ->
  fst (compile src (filter (fun d => negb (warns defs d)) defs)) = fst (compile src defs).
Proof.
  intros src defs Hc. pose proof Hc as CF. apply in_class_facts in CF.
  unfold compile, compile_with. cbn [fst]. f_equal.
  assert (Ecol : collect src (filter (fun d => negb (warns defs d)) defs) = collect src defs).
  { unfold collect. apply collect_filter. intros d _ Hk. apply negb_false_iff in Hk.
    split; [|intro db']; now apply (warns_not_collected defs). }
  rewrite Ecol. unfold add_metadata. rewrite !add_metadata_fst. cbn [fst].
  apply fold_db_step_filter; [now apply collect_inv|].
  intros d _ Hk. apply negb_false_iff in Hk. rewrite (spec_warning_eq src defs d CF).
  unfold warns in Hk. destruct (spec_warning defs d); [discriminate|discriminate].
Qed.

(** * Order independence *)
Lemma msg_sim_refl : forall m, msg_sim m m.
Proof. intro m. unfold msg_sim. repeat split; reflexivity. Qed.
Lemma msg_sim_trans : forall a b c, msg_sim a b -> msg_sim b c -> msg_sim a c.
Proof.
  unfold msg_sim. intros a b c (A1 & A2 & A3 & A4 & A5 & A6) (B1 & B2 & B3 & B4 & B5 & B6).
  repeat split; try congruence. eapply perm_trans; eassumption.
Qed.
Lemma def_sim_trans : forall a b c, def_sim a b -> def_sim b c -> def_sim a c.
Proof.
  intros a b c H1 H2. inversion H1; subst; [exact H2|]. inversion H2; subst; [exact H1|].
  constructor. eapply msg_sim_trans; eassumption.
Qed.

Lemma Forall2_refl : forall {A} (R : A -> A -> Prop) l, (forall a, R a a) -> Forall2 R l l.
Proof. induction l; intros; constructor; auto. Qed.

Lemma defs_perm_refl : forall l, defs_perm l l.
Proof. intro l. exists l. split; [reflexivity|]. apply Forall2_refl. constructor. Qed.
Lemma defs_perm_trans : forall a b c, defs_perm a b -> defs_perm b c -> defs_perm a c.
Proof.
  intros a b c H1 H2. pose proof (perm2_comp _ _ _ _ _ H1 H2) as H.
  eapply perm2_impl; [|exact H]. cbn. intros x z _ _ [y [Hxy Hyz]]. eapply def_sim_trans; eassumption.
Qed.

Lemma Forall2_flat_map : forall {A B} (R : A -> A -> Prop) (S : B -> B -> Prop) (f : A -> list B) l l',
  Forall2 R l l' -> (forall a b, R a b -> Forall2 S (f a) (f b)) -> Forall2 S (flat_map f l) (flat_map f l').
Proof.
  intros A B R S f l l' HF H. induction HF as [|x y l l' Hxy HF IH]; cbn; [constructor|].
  apply Forall2_app; [now apply H|exact IH].
Qed.

Lemma message_defs_perm : forall defs defs', defs_perm defs defs' ->
  perm2 msg_sim (message_defs defs) (message_defs defs').
Proof.
  intros defs defs' [mid [P F]]. exists (message_defs mid). split.
  - unfold message_defs. now apply Permutation_flat_map.
  - unfold message_defs. eapply Forall2_flat_map; [exact F|].
    intros a b Hab. inversion Hab as [|m m' Hs]; subst.
    + apply Forall2_refl. apply msg_sim_refl.
    + destruct Hs as (S1 & S2 & S3). rewrite S2. destruct (m_id m =? msgid_independent); constructor; [|constructor].
      unfold msg_sim. tauto.
Qed.

Lemma flat_map_defs_perm : forall {B} (f : def -> list B) defs defs',
  (forall m, f (DMessage m) = []) -> defs_perm defs defs' -> Permutation (flat_map f defs) (flat_map f defs').
Proof.
  intros B f defs defs' Hf [mid [P F]]. rewrite (Permutation_flat_map f _ _ P).
  rewrite (Forall2_flat_map_eq def_sim f mid defs' F); [reflexivity|].
  intros a b Hab. inversion Hab; subst; [reflexivity|]. now rewrite !Hf.
Qed.

Lemma declared_nodes_perm : forall defs defs', defs_perm defs defs' ->
  Permutation (declared_nodes defs) (declared_nodes defs').
Proof. intros. apply flat_map_defs_perm; [reflexivity|assumption]. Qed.

Lemma message_ok_sim : forall m m', msg_sim m m' -> message_ok m = true -> message_ok m' = true.
Proof.
  intros m m' (S1 & S2 & S3 & S4 & S5 & S6) H. unfold message_ok in *. rewrite S2, S4.
  rewrite !andb_true_iff in *. destruct H as [[[[[[[H1 H2] H3] H4] H5] H6] H7] H8].
  repeat split; try assumption.
  - rewrite forallb_forall in *. intros sd Hsd. apply H6. eapply Permutation_in; [symmetry; exact S6|exact Hsd].
  - rewrite (nodupb_NoDup bytes_eqb bytes_eqb_eq) in *. eapply Permutation_NoDup; [|exact H7].
    now apply Permutation_map.
  - rewrite (nodupb_NoDup pair_eqb pair_eqb_eq) in *. eapply Permutation_NoDup; [|exact H8].
    now apply Permutation_map.
Qed.

(** the class does not depend on the order *)
Lemma class_facts_perm : forall defs defs', defs_perm defs defs' -> class_facts defs -> class_facts defs'.
Proof.
  intros defs defs' Hp CF. pose proof (message_defs_perm _ _ Hp) as [mm [Pm Fm]]. constructor.
  - eapply Permutation_NoDup; [apply declared_nodes_perm; exact Hp|exact (cf_nodes _ CF)].
  - rewrite <- (Forall2_eq_map msg_sim can_id can_id mm (message_defs defs') Fm).
    + eapply Permutation_NoDup; [apply Permutation_map; exact Pm|exact (cf_ids _ CF)].
    + intros a b _ (S1 & S2 & _). unfold can_id. now rewrite S2.
  - pose proof (cf_msgs _ CF) as Hok. rewrite Forall_forall in *.
    assert (Hmm : forall x, In x mm -> message_ok x = true).
    { intros x Hx. apply Hok. eapply Permutation_in; [symmetry; exact Pm|exact Hx]. }
    clear Hok Pm. induction Fm as [|a b l l' Hab Fm IH]; intros x Hx; [contradiction|].
    destruct Hx as [<-|Hx].
    + eapply message_ok_sim; [exact Hab|]. apply Hmm. now left.
    + apply IH; [|exact Hx]. intros y Hy. apply Hmm. now right.
  - eapply Permutation_NoDup; [apply flat_map_defs_perm; [reflexivity|exact Hp]|exact (cf_keys _ CF)].
  - clear Fm Pm. destruct Hp as [mid [P F]]. pose proof (cf_defs _ CF) as Hok.
    apply (Permutation_Forall P) in Hok. clear P. revert Hok.
    induction F as [|a b l l' Hab F IH]; intro Hok; [constructor|].
    inversion Hok as [|? ? Ha Hl]; subst. constructor; [|exact (IH Hl)].
    inversion Hab; subst; [exact Ha|reflexivity].
Qed.

Lemma perm_le1_eq : forall {B} (l l' : list B), (length l <= 1)%nat -> Permutation l l' -> l = l'.
Proof.
  intros B l l' Hl P. destruct l as [|a [|b l]]; cbn in Hl; try lia.
  - apply Permutation_nil in P. now subst.
  - apply Permutation_length_1_inv in P. now subst.
Qed.

Lemma pick_last_perm : forall {B} (sel : def -> option B) (k : key) defs defs' dflt,
  NoDup (flat_map meta_key defs) -> (forall d v, sel d = Some v -> meta_key d = [k]) ->
  (forall m, sel (DMessage m) = None) -> defs_perm defs defs' ->
  pick_last sel defs dflt = pick_last sel defs' dflt.
Proof.
  intros B sel k defs defs' dflt Hn Hk Hm Hp. rewrite !pick_last_somes. f_equal.
  apply perm_le1_eq; [eapply somes_le1; eassumption|].
  unfold somes. apply flat_map_defs_perm; [|exact Hp]. intro m. now rewrite Hm.
Qed.

Ltac pick_perm CF Hp :=
  first
    [ eapply pick_last_perm; [exact (cf_keys _ CF)|apply sel_float_key|reflexivity|exact Hp]
    | eapply pick_last_perm; [exact (cf_keys _ CF)|apply sel_sig_comment_key|reflexivity|exact Hp]
    | eapply pick_last_perm; [exact (cf_keys _ CF)|apply sel_values_key|reflexivity|exact Hp]
    | eapply pick_last_perm; [exact (cf_keys _ CF)|apply sel_msg_comment_key|reflexivity|exact Hp]
    | eapply pick_last_perm; [exact (cf_keys _ CF)|apply sel_node_comment_key|reflexivity|exact Hp]
    | eapply pick_last_perm; [exact (cf_keys _ CF)|
        apply option_map_key; apply sel_sig_attr_key|reflexivity|exact Hp]
    | eapply pick_last_perm; [exact (cf_keys _ CF)|
        apply option_map_key; apply sel_msg_attr_key|reflexivity|exact Hp] ].

Lemma denoted_signal_perm : forall defs defs' id sd, class_facts defs -> defs_perm defs defs' ->
  denoted_signal defs id sd = denoted_signal defs' id sd.
Proof.
  intros defs defs' id sd CF Hp. unfold denoted_signal. f_equal; try pick_perm CF Hp.
  f_equal. pick_perm CF Hp.
Qed.

Lemma denoted_node_perm : forall defs defs' n, class_facts defs -> defs_perm defs defs' ->
  denoted_node defs n = denoted_node defs' n.
Proof. intros defs defs' n CF Hp. unfold denoted_node. f_equal. pick_perm CF Hp. Qed.

Lemma sort_denoted_message_perm : forall defs defs' md md', class_facts defs -> defs_perm defs defs' ->
  message_ok md = true -> msg_sim md md' ->
  sort_message sig_less (denoted_message defs md) = sort_message sig_less (denoted_message defs' md').
Proof.
  intros defs defs' md md' CF Hp Hok (S1 & S2 & S3 & S4 & S5 & S6).
  assert (Eid : can_id md' = can_id md) by (unfold can_id; now rewrite S2).
  unfold sort_message, denoted_message, set_msg_signals. cbn. rewrite Eid, S2, S3, S4, S5.
  f_equal; try pick_perm CF Hp.
  f_equal. apply (sort_slice_perm_eq sig_less sig_key sig_less_trans sig_less_asym sig_less_total).
  - rewrite map_map. cbn. exact (mf_keys _ (message_ok_facts _ Hok)).
  - rewrite (map_ext _ _ (fun sd => denoted_signal_perm defs defs' (can_id md) sd CF Hp)).
    now apply Permutation_map.
Qed.

Lemma sort_message_msg_less : forall sl a b, msg_less (sort_message sl a) (sort_message sl b) = msg_less a b.
Proof. reflexivity. Qed.

Lemma sort_db_messages_alt : forall sl msgs,
  map (sort_message sl) (sort_slice msg_less msgs) = sort_slice msg_less (map (sort_message sl) msgs).
Proof. intros. symmetry. apply sort_slice_map. apply sort_message_msg_less. Qed.

Lemma sort_denoted_perm : forall src defs defs', class_facts defs -> defs_perm defs defs' ->
  pick_last sel_version defs [] = pick_last sel_version defs' [] ->
  sort_db (denoted_db src defs) = sort_db (denoted_db src defs').
Proof.
  intros src defs defs' CF Hp Hv. unfold sort_db, sort_db_with, denoted_db.
  cbn [db_source_file db_version db_messages db_nodes]. rewrite Hv. f_equal.
  - rewrite !sort_db_messages_alt, !map_map.
    pose proof (message_defs_perm _ _ Hp) as [mm [Pm Fm]].
    apply (sort_slice_perm_eq msg_less msg_id msg_less_trans msg_less_asym msg_less_total).
    + rewrite map_map. cbn. exact (cf_ids _ CF).
    + rewrite (Permutation_map _ Pm).
      rewrite (Forall2_eq_map msg_sim _ (fun md => sort_message sig_less (denoted_message defs' md)) mm _ Fm);
        [reflexivity|].
      intros a b Ha Hab. apply sort_denoted_message_perm; try assumption.
      pose proof (cf_msgs _ CF) as Hok. rewrite Forall_forall in Hok. apply Hok.
      eapply Permutation_in; [symmetry; exact Pm|exact Ha].
  - apply (sort_slice_perm_eq node_less node_name node_less_trans node_less_asym node_less_total).
    + rewrite map_map. cbn. rewrite map_id. exact (cf_nodes _ CF).
    + rewrite (map_ext _ _ (fun n => denoted_node_perm defs defs' n CF Hp)).
      apply Permutation_map. now apply declared_nodes_perm.
Qed.

(** warnings under reordering *)
Lemma existsb_perm : forall {A} (p : A -> bool) l l', Permutation l l' -> existsb p l = existsb p l'.
Proof.
  intros A p l l' P. apply eq_true_iff_eq. rewrite !existsb_exists. split; intros [x [Hx Hp]]; exists x; split; auto.
  - eapply Permutation_in; eassumption.
  - eapply Permutation_in; [symmetry|]; eassumption.
Qed.
Lemma existsb_Forall2 : forall {A} (R : A -> A -> Prop) (p q : A -> bool) l l',
  Forall2 R l l' -> (forall a b, R a b -> p a = q b) -> existsb p l = existsb q l'.
Proof.
  intros A R p q l l' F H. induction F as [|a b l l' Hab F IH]; cbn; [reflexivity|]. now rewrite (H _ _ Hab), IH.
Qed.

Lemma spec_warning_perm : forall defs defs' d, defs_perm defs defs' ->
  spec_warning defs d = spec_warning defs' d.
Proof.
  intros defs defs' d Hp. pose proof (message_defs_perm _ _ Hp) as [mm [Pm Fm]].
  assert (Hdm : forall id, declares_message defs id = declares_message defs' id).
  { intro id. unfold declares_message. rewrite (existsb_perm _ _ _ Pm).
    apply (existsb_Forall2 msg_sim _ _ _ _ Fm). intros a b (S1 & S2 & _). unfold can_id. now rewrite S2. }
  assert (Hds : forall id name, declares_signal defs id name = declares_signal defs' id name).
  { intros id name. unfold declares_signal. rewrite (existsb_perm _ _ _ Pm).
    apply (existsb_Forall2 msg_sim _ _ _ _ Fm). intros a b (S1 & S2 & S3 & S4 & S5 & S6).
    unfold can_id. rewrite S2. f_equal. now apply existsb_perm. }
  assert (Hdl : forall id name len, declares_signal_len defs id name len = declares_signal_len defs' id name len).
  { intros id name len. unfold declares_signal_len. rewrite (existsb_perm _ _ _ Pm).
    apply (existsb_Forall2 msg_sim _ _ _ _ Fm). intros a b (S1 & S2 & S3 & S4 & S5 & S6).
    unfold can_id. rewrite S2. f_equal. now apply existsb_perm. }
  assert (Hdn : forall name, declares_node defs name = declares_node defs' name).
  { intro name. unfold declares_node. apply existsb_perm. now apply declared_nodes_perm. }
  destruct d; cbn; try reflexivity.
  - now rewrite Hds, Hdl.
  - destruct (vs_message_id v =? msgid_independent); [reflexivity|]. destruct (vs_object v); try reflexivity.
    now rewrite Hds.
  - destruct (cm_object c); try reflexivity; now rewrite ?Hdn, ?Hdm, ?Hds.
  - destruct (av_object a); try reflexivity; now rewrite ?Hdm, ?Hds.
Qed.

Lemma spec_warnings_perm : forall defs defs', defs_perm defs defs' ->
  Permutation (spec_warnings defs) (spec_warnings defs').
Proof.
  intros defs defs' Hp. unfold spec_warnings.
  rewrite (flat_map_ext _ (fun d => map (fun k => (k, def_pos d)) (spec_warning defs' d))).
  - apply flat_map_defs_perm; [reflexivity|exact Hp].
  - intro d. now rewrite (spec_warning_perm defs defs' d Hp).
Qed.

(** ANY reordering of the definitions (and of the signals inside messages) that keeps the
    VERSION lines in their relative order compiles to the same database *)
Theorem compile_perm_general : forall src defs defs', in_class defs = true -> defs_perm defs defs' ->
  pick_last sel_version defs [] = pick_last sel_version defs' [] ->
  in_class defs' = true /\
  fst (compile src defs) = fst (compile src defs') /\
  Permutation (snd (compile src defs)) (snd (compile src defs')).
Proof.
  intros src defs defs' Hc Hp Hv. pose proof Hc as CF. apply in_class_facts in CF.
  assert (Hc' : in_class defs' = true) by (apply in_class_facts; eapply class_facts_perm; eassumption).
  rewrite (compile_eq src defs Hc), (compile_eq src defs' Hc'). cbn [fst snd].
  split; [exact Hc'|]. split; [now apply sort_denoted_perm|now apply spec_warnings_perm].
Qed.

(** the reorderings of DESIGN.md 4.2 *)
Lemma pick_last_app : forall {B} (sel : def -> option B) l1 l2 dflt,
  pick_last sel (l1 ++ l2) dflt = pick_last sel l2 (pick_last sel l1 dflt).
Proof. intros. unfold pick_last. apply fold_left_app. Qed.

Lemma pick_last_skip : forall {B} (sel : def -> option B) l1 a l2 dflt,
  sel a = None -> pick_last sel (l1 ++ a :: l2) dflt = pick_last sel (l1 ++ l2) dflt.
Proof. intros B sel l1 a l2 dflt H. rewrite !pick_last_app. unfold pick_last at 1. cbn. now rewrite H. Qed.

Lemma swap_perm : forall {A} (l1 : list A) a l2 b l3,
  Permutation (l1 ++ a :: l2 ++ b :: l3) (l1 ++ b :: l2 ++ a :: l3).
Proof.
  intros. apply Permutation_app_head.
  transitivity (a :: b :: l2 ++ l3).
  - constructor. symmetry. apply Permutation_middle.
  - rewrite perm_swap. constructor. apply Permutation_middle.
Qed.

Lemma swap_version : forall l1 a l2 b l3 dflt, sel_version a = None -> sel_version b = None ->
  pick_last sel_version (l1 ++ a :: l2 ++ b :: l3) dflt = pick_last sel_version (l1 ++ b :: l2 ++ a :: l3) dflt.
Proof.
  intros l1 a l2 b l3 dflt Ha Hb.
  rewrite (pick_last_skip sel_version l1 a _ dflt Ha), (pick_last_skip sel_version l1 b _ dflt Hb).
  rewrite !app_assoc.
  rewrite (pick_last_skip sel_version (l1 ++ l2) b _ dflt Hb), (pick_last_skip sel_version (l1 ++ l2) a _ dflt Ha).
  reflexivity.
Qed.

Lemma perm42_defs_perm : forall l l', perm42 l l' ->
  defs_perm l l' /\ forall dflt, pick_last sel_version l dflt = pick_last sel_version l' dflt.
Proof.
  induction 1 as [l|l1 l2 l3 _ [P1 V1] _ [P2 V2]|l1 a l2 b l3 Ha Hb|l1 a l2 b l3 Ha Hb|l1 m m' l2 Hs].
  - split; [apply defs_perm_refl|reflexivity].
  - split; [eapply defs_perm_trans; eassumption|]. intro d. now rewrite V1.
  - split.
    + exists (l1 ++ b :: l2 ++ a :: l3). split; [apply swap_perm|]. apply Forall2_refl. constructor.
    + intro d. apply swap_version; [destruct a|destruct b]; try discriminate; reflexivity.
  - split.
    + exists (l1 ++ b :: l2 ++ a :: l3). split; [apply swap_perm|]. apply Forall2_refl. constructor.
    + intro d. apply swap_version; [destruct a|destruct b]; try discriminate; reflexivity.
  - split.
    + exists (l1 ++ DMessage m :: l2). split; [reflexivity|].
      apply Forall2_app; [apply Forall2_refl; constructor|].
      constructor; [now constructor|apply Forall2_refl; constructor].
    + intro d. rewrite (pick_last_skip sel_version l1 (DMessage m) l2 d eq_refl).
      now rewrite (pick_last_skip sel_version l1 (DMessage m') l2 d eq_refl).
Qed.

Theorem compile_perm : forall src defs defs', in_class defs = true -> perm42 defs defs' ->
  fst (compile src defs) = fst (compile src defs') /\
  Permutation (snd (compile src defs)) (snd (compile src defs')).
Proof.
  intros src defs defs' Hc Hp. destruct (perm42_defs_perm _ _ Hp) as [P V].
  destruct (compile_perm_general src defs defs' Hc P (V [])) as (_ & H1 & H2). now split.
Qed.

(** * The comparator before fix F10: order independence fails *)
Definition wit_pos : position := {| p_line := 1; p_column := 1; p_offset := 0 |}.
Definition wit_sig (name start mux : Z) : signal_def :=
  {| sg_pos := wit_pos; sg_name := [name]; sg_start := start; sg_size := 8; sg_big_endian := false;
     sg_signed := false; sg_mux_switch := false; sg_multiplexed := true; sg_mux_value := mux;
     sg_offset := 0; sg_factor := 4607182418800017408; sg_min := 0; sg_max := 0; sg_unit := [];
     sg_receivers := [[78]] |}.
Definition wit_msg (sigs : list signal_def) : message_def :=
  {| m_pos := wit_pos; m_id := 100; m_name := [77]; m_size := 8; m_transmitter := [78]; m_signals := sigs |}.
(** BU_: N / BO_ 100 M: 8 N / SG_ A m1 : 16|8@1+ ... / SG_ B m2 : 8|8@1+ ...   and the same with B before A *)
Definition wit_defs : list def := [DNodes wit_pos [[78]]; DMessage (wit_msg [wit_sig 65 16 1; wit_sig 66 8 2])].
Definition wit_defs' : list def := [DNodes wit_pos [[78]]; DMessage (wit_msg [wit_sig 66 8 2; wit_sig 65 16 1])].

Theorem compile_perm_refuted :
  in_class wit_defs = true /\ perm42 wit_defs wit_defs' /\
  fst (compile_old [] wit_defs) <> fst (compile_old [] wit_defs') /\
  fst (compile [] wit_defs) = fst (compile [] wit_defs').
Proof.
  split; [vm_compute; reflexivity|]. split; [|split].
  - apply (p42_signals [DNodes wit_pos [[78]]] _ _ []).
    unfold msg_sim. cbn. repeat split; try reflexivity. apply perm_swap.
  - vm_compute. intro H. discriminate H.
  - vm_compute. reflexivity.
Qed.

(** * Soundness of the driver's decision procedures *)
Theorem canonicalb_sound : forall db, canonicalb db = true -> canonical db.
Proof.
  intros db H. unfold canonicalb in H. rewrite !andb_true_iff in H. destruct H as [[H1 H2] H3].
  unfold canonical. repeat split.
  - apply (sortedb_sorted node_less node_less_trans) in H1. exact H1.
  - apply (sortedb_sorted msg_less msg_less_trans) in H2.
    eapply StronglySorted_impl; [|exact H2]. intros a b. unfold msg_less, msg_lt. apply Z.ltb_lt.
  - rewrite forallb_forall in H3. apply Forall_forall. intros m Hm. specialize (H3 m Hm).
    apply andb_true_iff in H3 as [H4 H5]. split.
    + apply (sortedb_sorted sig_less sig_less_trans) in H4.
      eapply StronglySorted_impl; [|exact H4]. intros a b. apply sig_less_lt.
    + rewrite forallb_forall in H5. apply Forall_forall. intros s Hs. specialize (H5 s Hs).
      apply (sortedb_sorted vd_less vd_less_trans) in H5.
      eapply StronglySorted_impl; [|exact H5]. intros a b. unfold vd_less, vd_lt. apply Z.ltb_lt.
Qed.

Theorem denotes_check_sound : forall defs db,
  denotes_check_lhs db = denotes_check_rhs defs db -> denotes defs db.
Proof.
  intros defs db H. unfold denotes_check_lhs, denotes_check_rhs in H.
  apply (denotes_db_perm defs (sort_db db)); [apply db_perm_sym, sort_db_perm|].
  rewrite H. eapply denotes_db_perm; [apply sort_db_perm|apply denoted_db_denotes].
Qed.
