(** Proofs for C05, part 1: the sequential, pointer-style update of addMetadata
    ("find the first node/message/signal that matches, mutate it") seen object by object.

    When message ids, signal names inside a message and node names are pairwise distinct
    ([db_inv]), one iteration of addMetadata maps every message / signal / node through a
    function of that object alone ([msg_apply], [sig_apply], [node_apply]); the warnings of an
    iteration only depend on ids, names and signal lengths, which no iteration changes. *)
From Coq Require Import ZArith List Bool Permutation Sorted Lia.
From CanVerif Require Import Base.Sort Dbc.Ast Descriptor.Types Dbc.Compile Dbc.CompileSpec Dbc.CompileLemmas.
Import ListNotations.
Open Scope Z_scope.

(** * [update_first] *)
Lemma NoDup_map_inj_in : forall {A K} (key : A -> K) l a b,
  NoDup (map key l) -> In a l -> In b l -> key a = key b -> a = b.
Proof.
  induction l as [|x l IH]; intros a b Hn Ha Hb E; [contradiction|].
  cbn in Hn. inversion Hn as [|? ? Hx Hn']; subst.
  destruct Ha as [->|Ha]; destruct Hb as [->|Hb]; auto.
  - exfalso. apply Hx. rewrite E. now apply in_map.
  - exfalso. apply Hx. rewrite <- E. now apply in_map.
Qed.

Definition upd_list {A W} (p : A -> bool) (f : A -> option (A * list W)) (l : list A) : list A :=
  match update_first p f l with Some (l', _) => l' | None => l end.
Definition upd_elem {A W} (f : A -> option (A * list W)) (x : A) : A :=
  match f x with Some (x', _) => x' | None => x end.

Lemma upd_list_map : forall {A W K} (key : A -> K) (k : K) (p : A -> bool) (f : A -> option (A * list W)) l,
  NoDup (map key l) -> (forall a, p a = true <-> key a = k) ->
  upd_list p f l = map (fun x => if p x then upd_elem f x else x) l.
Proof.
  intros A W K key k p f l Hn Hp. unfold upd_list. induction l as [|a l IH]; cbn; [reflexivity|].
  cbn in Hn. inversion Hn as [|? ? Ha Hn']; subst. specialize (IH Hn').
  assert (Hid : p a = true -> map (fun x => if p x then upd_elem f x else x) l = l).
  { intro Hpa. rewrite <- (map_id l) at 2. apply map_ext_in. intros x Hx.
    destruct (p x) eqn:Hpx; [|reflexivity]. exfalso. apply Ha.
    apply Hp in Hpa. apply Hp in Hpx. rewrite Hpa, <- Hpx. now apply in_map. }
  destruct (p a) eqn:Hpa.
  - rewrite (Hid eq_refl). unfold upd_elem. destruct (f a) as [[a' w]|]; reflexivity.
  - destruct (update_first p f l) as [[l' w]|]; cbn; now rewrite <- IH.
Qed.

Lemma update_first_snd : forall {A W} (p : A -> bool) (f : A -> option (A * list W)) l,
  option_map snd (update_first p f l) =
  match find p l with None => None | Some a => option_map snd (f a) end.
Proof.
  induction l as [|a l IH]; cbn; [reflexivity|].
  destruct (p a).
  - destruct (f a) as [[a' w]|]; reflexivity.
  - rewrite <- IH. destruct (update_first p f l) as [[l' w]|]; reflexivity.
Qed.

Lemma find_none_iff : forall {A} (p : A -> bool) l, find p l = None <-> forall x, In x l -> p x = false.
Proof.
  intros A p l; split; [apply find_none|].
  induction l as [|a l IH]; intros H; cbn; [reflexivity|].
  rewrite (H a (or_introl eq_refl)). apply IH. intros x Hx. apply H. now right.
Qed.

Lemma find_map_pres : forall {A} (p : A -> bool) (g : A -> A) l,
  (forall x, p (g x) = p x) -> find p (map g l) = option_map g (find p l).
Proof.
  induction l as [|a l IH]; intros H; cbn; [reflexivity|].
  rewrite H. destruct (p a); [reflexivity|now apply IH].
Qed.

Lemma find_map : forall {A B} (p : B -> bool) (g : A -> B) l,
  find p (map g l) = option_map g (find (fun x => p (g x)) l).
Proof.
  induction l as [|a l IH]; cbn; [reflexivity|]. destruct (p (g a)); [reflexivity|exact IH].
Qed.

(** * Record eta *)
Lemma set_msg_signals_eta : forall m, set_msg_signals m (msg_signals m) = m.
Proof. now destruct m. Qed.
Lemma set_db_messages_eta : forall db, set_db_messages db (db_messages db) = db.
Proof. now destruct db. Qed.
Lemma set_db_nodes_eta : forall db, set_db_nodes db (db_nodes db) = db.
Proof. now destruct db. Qed.

(** * One iteration, object by object *)
Definition sig_apply (a : action) (id : Z) (s : signal) : signal :=
  match a with
  | ASignal id' name f => if (id' =? id) && bytes_eqb name (s_name s) then fst (f s) else s
  | _ => s
  end.
Definition msg_apply (a : action) (m : message) : message :=
  match a with
  | AMessage id f => if id =? msg_id m then f m else m
  | ASignal _ _ _ => set_msg_signals m (map (sig_apply a (msg_id m)) (msg_signals m))
  | _ => m
  end.
Definition node_apply (a : action) (n : node) : node :=
  match a with
  | ANode name f => if bytes_eqb name (node_name n) then f n else n
  | _ => n
  end.

(** the functions inside an action do not touch what lookups and warnings depend on *)
Definition action_wf (a : action) : Prop :=
  match a with
  | ANone => True
  | ANode _ f => forall n, node_name (f n) = node_name n
  | AMessage _ f => forall m, msg_id (f m) = msg_id m /\ msg_signals (f m) = msg_signals m
  | ASignal _ _ f =>
      (forall s, s_name (fst (f s)) = s_name s /\ s_length (fst (f s)) = s_length s) /\
      (forall s s', s_length s = s_length s' -> snd (f s) = snd (f s')) /\
      (forall s, snd (f s) <> [] -> fst (f s) = s)
  end.

Lemma meta_action_wf : forall d, action_wf (meta_action d).
Proof.
  destruct d; cbn; auto.
  - (* SIG_VALTYPE_ *)
    repeat split.
    + destruct (value_type =? 0); [reflexivity|]. destruct (value_type =? 1); [|reflexivity].
      destruct (s_length s =? 32); reflexivity.
    + destruct (value_type =? 0); [reflexivity|]. destruct (value_type =? 1); [|reflexivity].
      destruct (s_length s =? 32); reflexivity.
    + intros s s' E. rewrite E. destruct (value_type =? 0); [reflexivity|]. destruct (value_type =? 1); [|reflexivity].
      destruct (s_length s' =? 32); reflexivity.
    + intros s. destruct (value_type =? 0); cbn; [congruence|]. destruct (value_type =? 1); [|reflexivity].
      destruct (s_length s =? 32); cbn; [congruence|reflexivity].
  - (* VAL_ *)
    destruct (vs_message_id v =? msgid_independent); cbn; [exact I|].
    destruct (vs_object v); cbn; auto. repeat split; cbn; congruence.
  - (* CM_ *)
    destruct (cm_object c); cbn; auto.
    + destruct (cm_message_id c =? msgid_independent); cbn; auto.
    + destruct (cm_message_id c =? msgid_independent); cbn; auto. repeat split; cbn; congruence.
  - (* BA_ *)
    destruct (av_object a); cbn; auto.
    + intros m. destruct (bytes_eqb (av_name a) attr_send_type); [split; reflexivity|].
      destruct (bytes_eqb (av_name a) attr_cycle_time); [split; reflexivity|].
      destruct (bytes_eqb (av_name a) attr_delay_time); split; reflexivity.
    + repeat split; cbn; try congruence; destruct (bytes_eqb (av_name a) attr_start_value); reflexivity.
Qed.

Definition db_inv (db : database) : Prop :=
  NoDup (map msg_id (db_messages db)) /\
  Forall (fun m => NoDup (map s_name (msg_signals m))) (db_messages db) /\
  NoDup (map node_name (db_nodes db)).

Definition db_map (g : message -> message) (h : node -> node) (db : database) : database :=
  {| db_source_file := db_source_file db; db_version := db_version db;
     db_messages := map g (db_messages db); db_nodes := map h (db_nodes db) |}.

Lemma db_map_id : forall g h db,
  (forall m, In m (db_messages db) -> g m = m) -> (forall n, In n (db_nodes db) -> h n = n) -> db_map g h db = db.
Proof.
  intros g h [sf v ms ns] Hg Hh. unfold db_map. cbn in *. f_equal.
  - rewrite <- (map_id ms) at 2. now apply map_ext_in.
  - rewrite <- (map_id ns) at 2. now apply map_ext_in.
Qed.

Lemma db_map_nodes : forall g h db, (forall m, g m = m) ->
  db_map g h db = set_db_nodes db (map h (db_nodes db)).
Proof.
  intros g h [sf v ms ns] Hg. unfold db_map, set_db_nodes. cbn. f_equal.
  rewrite <- (map_id ms) at 2. now apply map_ext.
Qed.
Lemma db_map_messages : forall g h db, (forall n, h n = n) ->
  db_map g h db = set_db_messages db (map g (db_messages db)).
Proof.
  intros g h [sf v ms ns] Hh. unfold db_map, set_db_messages. cbn. f_equal.
  rewrite <- (map_id ns) at 2. now apply map_ext.
Qed.

Lemma sig_apply_wf : forall a id s, action_wf a ->
  s_name (sig_apply a id s) = s_name s /\ s_length (sig_apply a id s) = s_length s.
Proof.
  intros a id s Hwf. destruct a; cbn; auto.
  destruct ((id0 =? id) && bytes_eqb name (s_name s)); auto. apply Hwf.
Qed.

Lemma msg_apply_wf : forall a m, action_wf a ->
  msg_id (msg_apply a m) = msg_id m /\
  map s_name (msg_signals (msg_apply a m)) = map s_name (msg_signals m) /\
  map s_length (msg_signals (msg_apply a m)) = map s_length (msg_signals m).
Proof.
  intros a m Hwf. destruct a; cbn; auto.
  - destruct (id =? msg_id m); auto. destruct (Hwf m) as [-> ->]. auto.
  - rewrite !map_map. repeat split; apply map_ext; intro s;
      apply (sig_apply_wf (ASignal id name f) (msg_id m) s Hwf).
Qed.

Lemma node_apply_wf : forall a n, action_wf a -> node_name (node_apply a n) = node_name n.
Proof.
  intros a n Hwf. destruct a; cbn; auto. destruct (bytes_eqb name (node_name n)); auto.
Qed.

(** [fst (apply_action a db)] object by object *)
Lemma apply_action_fst : forall a db, db_inv db ->
  fst (apply_action a db) = db_map (msg_apply a) (node_apply a) db.
Proof.
  intros a db (Hids & Hnames & Hnodes). destruct a as [|name f|id f|id name f]; cbn.
  - symmetry. now apply db_map_id.
  - (* node *)
    pose (p := fun n : node => bytes_eqb (node_name n) name).
    pose (F := fun n : node => Some (f n, @nil warn_kind)).
    assert (E : upd_list p F (db_nodes db) = map (node_apply (ANode name f)) (db_nodes db)).
    { rewrite (upd_list_map node_name name p F _ Hnodes).
      - apply map_ext. intro n. unfold p, node_apply. rewrite (bytes_eqb_sym name). reflexivity.
      - intro n. apply bytes_eqb_eq. }
    unfold upd_list in E. fold p F.
    rewrite (db_map_nodes _ _ db) by reflexivity.
    destruct (update_first p F (db_nodes db)) as [[ns w]|]; cbn.
    + now subst ns.
    + rewrite <- E. symmetry. apply set_db_nodes_eta.
  - (* message *)
    unfold update_message.
    pose (p := fun m : message => msg_id m =? id).
    pose (F := fun m : message => Some (f m, @nil warn_kind)).
    assert (E : upd_list p F (db_messages db) = map (msg_apply (AMessage id f)) (db_messages db)).
    { rewrite (upd_list_map msg_id id p F _ Hids).
      - apply map_ext. intro m. unfold p, msg_apply. rewrite (Z.eqb_sym id). reflexivity.
      - intro m. apply Z.eqb_eq. }
    unfold upd_list in E. fold p F.
    rewrite (db_map_messages _ _ db) by reflexivity.
    destruct (update_first p F (db_messages db)) as [[ms w]|]; cbn.
    + now subst ms.
    + rewrite <- E. symmetry. apply set_db_messages_eta.
  - (* signal *)
    unfold update_signal, update_message.
    pose (p := fun m : message => msg_id m =? id).
    pose (q := fun s : signal => bytes_eqb (s_name s) name).
    pose (G := fun s : signal => Some (f s)).
    pose (F := fun m : message =>
                 match update_first q G (msg_signals m) with
                 | Some (ss, w) => Some (set_msg_signals m ss, w)
                 | None => None
                 end).
    assert (E : upd_list p F (db_messages db) = map (msg_apply (ASignal id name f)) (db_messages db)).
    { rewrite (upd_list_map msg_id id p F _ Hids); [|intro m; apply Z.eqb_eq].
      apply map_ext_in. intros m Hm. unfold msg_apply.
      rewrite Forall_forall in Hnames. specialize (Hnames m Hm).
      assert (Es : upd_list q G (msg_signals m) =
                   map (fun s => if q s then fst (f s) else s) (msg_signals m)).
      { rewrite (upd_list_map s_name name q G _ Hnames); [|intro s; apply bytes_eqb_eq].
        apply map_ext. intro s. unfold upd_elem, G. destruct (f s). reflexivity. }
      destruct (p m) eqn:Hpm.
      - unfold upd_elem, F. unfold upd_list in Es.
        assert (Em : map (sig_apply (ASignal id name f) (msg_id m)) (msg_signals m) =
                     map (fun s => if q s then fst (f s) else s) (msg_signals m)).
        { apply map_ext. intro s. unfold sig_apply, q. unfold p in Hpm. apply Z.eqb_eq in Hpm.
          rewrite Hpm, Z.eqb_refl. cbn. rewrite (bytes_eqb_sym name). reflexivity. }
        rewrite Em.
        destruct (update_first q G (msg_signals m)) as [[ss w]|]; [now subst ss|].
        rewrite <- Es. symmetry. apply set_msg_signals_eta.
      - symmetry. etransitivity; [|apply set_msg_signals_eta]. f_equal.
        etransitivity; [|apply map_id]. apply map_ext. intro s. unfold sig_apply.
        unfold p in Hpm. rewrite (Z.eqb_sym id), Hpm. reflexivity. }
    unfold upd_list in E. fold q G. fold F. fold p.
    rewrite (db_map_messages _ _ db) by reflexivity.
    destruct (update_first p F (db_messages db)) as [[ms w]|]; cbn.
    + now subst ms.
    + rewrite <- E. symmetry. apply set_db_messages_eta.
Qed.

Lemma db_map_inv : forall a db, action_wf a -> db_inv db -> db_inv (db_map (msg_apply a) (node_apply a) db).
Proof.
  intros a db Hwf (Hids & Hnames & Hnodes). unfold db_inv, db_map. cbn. repeat split.
  - rewrite map_map. erewrite map_ext; [exact Hids|]. intro m. apply (msg_apply_wf a m Hwf).
  - rewrite Forall_forall in *. intros m' Hm'. apply in_map_iff in Hm' as [m [<- Hm]].
    destruct (msg_apply_wf a m Hwf) as (_ & -> & _). now apply Hnames.
  - rewrite map_map. erewrite map_ext; [exact Hnodes|]. intro n. now apply node_apply_wf.
Qed.

(** * Warnings of one iteration *)
Definition warn_of (db : database) (a : action) : list warn_kind :=
  match a with
  | ANone => []
  | ANode name _ =>
      match find (fun n => bytes_eqb (node_name n) name) (db_nodes db) with Some _ => [] | None => [WNoNode] end
  | AMessage id _ =>
      match find (fun m => msg_id m =? id) (db_messages db) with Some _ => [] | None => [WNoMessage] end
  | ASignal id name f =>
      match find (fun m => msg_id m =? id) (db_messages db) with
      | None => [WNoSignal]
      | Some m =>
          match find (fun s => bytes_eqb (s_name s) name) (msg_signals m) with
          | None => [WNoSignal]
          | Some s => snd (f s)
          end
      end
  end.

Lemma apply_action_snd : forall a db, snd (apply_action a db) = warn_of db a.
Proof.
  intros a db. destruct a as [|name f|id f|id name f]; cbn; [reflexivity| | |].
  - pose proof (update_first_snd (fun n => bytes_eqb (node_name n) name)
                  (fun n => Some (f n, @nil warn_kind)) (db_nodes db)) as H.
    destruct (update_first _ _ (db_nodes db)) as [[ns w]|]; cbn in *;
      destruct (find _ (db_nodes db)); cbn in *; congruence.
  - unfold update_message.
    pose proof (update_first_snd (fun m => msg_id m =? id)
                  (fun m => Some (f m, @nil warn_kind)) (db_messages db)) as H.
    destruct (update_first _ _ (db_messages db)) as [[ms w]|]; cbn in *;
      destruct (find _ (db_messages db)); cbn in *; congruence.
  - unfold update_signal, update_message.
    match goal with |- context [update_first ?p ?F (db_messages db)] =>
      pose proof (update_first_snd p F (db_messages db)) as H end.
    cbn in H.
    destruct (find (fun m => msg_id m =? id) (db_messages db)) as [m|].
    + pose proof (update_first_snd (fun s => bytes_eqb (s_name s) name) (fun s => Some (f s)) (msg_signals m)) as Hs.
      destruct (update_first (fun s => bytes_eqb (s_name s) name) (fun s => Some (f s)) (msg_signals m)) as [[ss w']|];
        cbn in *; destruct (find _ (msg_signals m)) as [s|]; cbn in *; try discriminate.
      * destruct (update_first _ _ (db_messages db)) as [[ms w]|]; cbn in *; [|discriminate]. congruence.
      * destruct (update_first _ _ (db_messages db)) as [[ms w]|]; cbn in *; [discriminate|reflexivity].
    + destruct (update_first _ _ (db_messages db)) as [[ms w]|]; cbn in *; [discriminate|reflexivity].
Qed.

(** an iteration that warns leaves the database unchanged ("attached to nothing") *)
Lemma apply_action_warn_unchanged : forall a db, action_wf a -> db_inv db ->
  warn_of db a <> [] -> fst (apply_action a db) = db.
Proof.
  intros a db Hwf Hinv Hw. rewrite (apply_action_fst a db Hinv).
  destruct Hinv as (Hids & Hnames & Hnodes).
  destruct a as [|name f|id f|id name f]; cbn in Hw; [congruence| | |].
  - apply db_map_id; [reflexivity|]. intros n Hn. cbn.
    destruct (find (fun n => bytes_eqb (node_name n) name) (db_nodes db)) eqn:E; [congruence|].
    rewrite find_none_iff in E. specialize (E n Hn). cbn in E. rewrite bytes_eqb_sym, E. reflexivity.
  - apply db_map_id; [|reflexivity]. intros m Hm. cbn.
    destruct (find (fun m => msg_id m =? id) (db_messages db)) eqn:E; [congruence|].
    rewrite find_none_iff in E. specialize (E m Hm). cbn in E. rewrite Z.eqb_sym, E. reflexivity.
  - apply db_map_id; [|reflexivity]. intros m Hm. cbn.
    etransitivity; [|apply set_msg_signals_eta]. f_equal.
    etransitivity; [|apply map_id]. apply map_ext_in. intros s Hs. unfold sig_apply.
    destruct ((id =? msg_id m) && bytes_eqb name (s_name s)) eqn:Em; [|reflexivity].
    apply andb_true_iff in Em as [E1 E2].
    destruct (find (fun m => msg_id m =? id) (db_messages db)) as [m0|] eqn:E.
    + assert (m0 = m) as ->.
      { apply find_some in E as [Hin0 Hp0]. apply Z.eqb_eq in Hp0, E1.
        apply (NoDup_map_inj_in msg_id (db_messages db)); auto. congruence. }
      destruct (find (fun s => bytes_eqb (s_name s) name) (msg_signals m)) as [s0|] eqn:Es.
      * assert (s0 = s) as ->.
        { apply find_some in Es as [Hin0 Hp0]. apply bytes_eqb_eq in Hp0, E2.
          rewrite Forall_forall in Hnames.
          apply (NoDup_map_inj_in s_name (msg_signals m)); auto. congruence. }
        now apply Hwf.
      * rewrite find_none_iff in Es. specialize (Es s Hs). cbn in Es.
        rewrite bytes_eqb_sym in Es. congruence.
    + rewrite find_none_iff in E. specialize (E m Hm). cbn in E. rewrite Z.eqb_sym in E. congruence.
Qed.

(** warnings do not change when the database goes through an iteration *)
Lemma warn_of_db_map : forall a a' db, action_wf a -> action_wf a' ->
  warn_of (db_map (msg_apply a') (node_apply a') db) a = warn_of db a.
Proof.
  intros a a' db Hwf Hwf'. destruct a as [|name f|id f|id name f]; cbn; [reflexivity| | |].
  - rewrite find_map_pres by (intro n; now rewrite node_apply_wf).
    destruct (find _ (db_nodes db)); reflexivity.
  - rewrite find_map_pres by (intro m; now destruct (msg_apply_wf a' m Hwf') as (-> & _)).
    destruct (find _ (db_messages db)); reflexivity.
  - rewrite find_map_pres by (intro m; now destruct (msg_apply_wf a' m Hwf') as (-> & _)).
    destruct (find (fun m => msg_id m =? id) (db_messages db)) as [m|]; cbn; [|reflexivity].
    destruct a' as [|name' f'|id' f'|id' name' f']; cbn; try reflexivity.
    + destruct (id' =? msg_id m); [|reflexivity]. destruct (Hwf' m) as [_ ->]. reflexivity.
    + rewrite find_map_pres.
      * destruct (find _ (msg_signals m)) as [s|]; cbn; [|reflexivity].
        destruct Hwf as (_ & Hlen & _). apply Hlen.
        apply (sig_apply_wf (ASignal id' name' f') (msg_id m) s Hwf').
      * intro s. now destruct (sig_apply_wf (ASignal id' name' f') (msg_id m) s Hwf') as [-> _].
Qed.

(** * The whole loop *)
Definition db_step (db : database) (d : def) : database := fst (apply_action (meta_action d) db).

Lemma add_metadata_fst : forall defs st, fst (fold_left meta_step defs st) = fold_left db_step defs (fst st).
Proof.
  induction defs as [|d defs IH]; intros st; cbn; [reflexivity|]. rewrite IH. f_equal.
  unfold meta_step, db_step. destruct (apply_action (meta_action d) (fst st)); reflexivity.
Qed.

Lemma db_step_eq : forall db d, db_inv db ->
  db_step db d = db_map (msg_apply (meta_action d)) (node_apply (meta_action d)) db.
Proof. intros. unfold db_step. now apply apply_action_fst. Qed.

Lemma db_step_inv : forall db d, db_inv db -> db_inv (db_step db d).
Proof. intros db d H. rewrite db_step_eq by exact H. apply db_map_inv; [apply meta_action_wf|exact H]. Qed.

Definition msg_fold (defs : list def) (m : message) : message :=
  fold_left (fun m d => msg_apply (meta_action d) m) defs m.
Definition node_fold (defs : list def) (n : node) : node :=
  fold_left (fun n d => node_apply (meta_action d) n) defs n.

Lemma fold_db_step : forall defs db, db_inv db ->
  fold_left db_step defs db = db_map (msg_fold defs) (node_fold defs) db.
Proof.
  induction defs as [|d defs IH]; intros db Hinv; cbn.
  - symmetry. now apply db_map_id.
  - rewrite IH by now apply db_step_inv. rewrite db_step_eq by exact Hinv.
    unfold db_map. cbn. rewrite !map_map. reflexivity.
Qed.

Definition def_warnings (db : database) (d : def) : list warning :=
  map (fun k => (k, def_pos d)) (warn_of db (meta_action d)).

Lemma add_metadata_snd : forall defs db ws, db_inv db ->
  snd (fold_left meta_step defs (db, ws)) = ws ++ flat_map (def_warnings db) defs.
Proof.
  induction defs as [|d defs IH]; intros db ws Hinv; cbn; [now rewrite app_nil_r|].
  unfold meta_step at 2. cbn [fst snd].
  pose proof (apply_action_snd (meta_action d) db) as Hs.
  pose proof (db_step_eq db d Hinv) as Hf. unfold db_step in Hf.
  destruct (apply_action (meta_action d) db) as [db' w]. cbn in Hs, Hf. subst db' w.
  rewrite IH by (apply db_map_inv; [apply meta_action_wf|exact Hinv]).
  rewrite <- app_assoc. f_equal. unfold def_warnings at 2. f_equal.
  apply flat_map_ext. intro d'. unfold def_warnings. f_equal.
  apply warn_of_db_map; apply meta_action_wf.
Qed.

(** dropping iterations that warn does not change the database *)
Lemma fold_db_step_filter : forall defs db (keep : def -> bool), db_inv db ->
  (forall d, In d defs -> keep d = false -> warn_of db (meta_action d) <> []) ->
  fold_left db_step (filter keep defs) db = fold_left db_step defs db.
Proof.
  induction defs as [|d defs IH]; intros db keep Hinv Hk; cbn; [reflexivity|].
  assert (Hnext : forall d', In d' defs -> keep d' = false -> warn_of (db_step db d) (meta_action d') <> []).
  { intros d' Hd' Hkd'. rewrite db_step_eq by exact Hinv.
    rewrite warn_of_db_map by apply meta_action_wf. apply Hk; [now right|exact Hkd']. }
  destruct (keep d) eqn:Ekd; cbn.
  - apply IH; [now apply db_step_inv|exact Hnext].
  - assert (Hd : db_step db d = db).
    { unfold db_step. apply apply_action_warn_unchanged; [apply meta_action_wf|exact Hinv|].
      apply Hk; [now left|exact Ekd]. }
    rewrite Hd. apply IH; [exact Hinv|]. intros d' Hd' Hkd'. apply Hk; [now right|exact Hkd'].
Qed.
