(** Gallina transcription of the subset of Go's text/scanner (go1.23 src/text/scanner/scanner.go)
    that pkg/dbc/parser.go configures:  Mode = ScanIdents|ScanFloats,  Whitespace = GoWhitespace
    (or that minus '\n' / minus '\t'),  Error = a callback that panics with a parse error at
    [sc.Pos()].  DEFINITIONS ONLY.

    Conventions: bytes are [Z] in 0..255, a source is [list Z]; runes are [Z]
    (EOF = -1, "no char read yet" = -2, utf8.RuneError = 0xFFFD); token types are the Go
    constants (EOF -1, Ident -2, Int -3, Float -4, or the rune itself).

    Because the Error callback panics, the first scanner error ends the parse: every operation
    returns [SErr pos kind] at that point, with [pos] = what [Scanner.Pos()] reports at the moment
    [s.error] is called.

    The buffered reader of the Go scanner (1024-byte chunks, refill until utf8.FullRune) is
    observationally a decoder over the whole remaining input; that is what [sc_next] is.
    [s_last] holds the bytes of the character read last (its length is Go's lastCharLen), so that
    the token text (Go: srcBuf[tokPos:tokEnd]) is a prefix of [s_last ++ s_rest] taken at the
    token start.

    Non-ASCII classification (unicode.IsLetter / unicode.IsDigit for runes >= 128) is a Section
    variable; below 128 the ASCII classes are used.  Loops take the fuel [F] (Section variable):
    every loop is its own structural recursion on a fresh copy of [F]; [SFuel] is returned when it
    runs out (Totality.v shows it never does when F > length of the input). *)
From Coq Require Import ZArith List Bool.
From CanVerif Require Import Dbc.Ast.
Import ListNotations.
Open Scope Z_scope.

Definition EOF : Z := -1.
Definition NOCHAR : Z := -2.
Definition TIdent : Z := -2.
Definition TInt : Z := -3.
Definition TFloat : Z := -4.
Definition rune_error : Z := 0xFFFD.

Definition blen (b : bytes) : Z := Z.of_nat (length b).

(** scanner.GoWhitespace = 1<<'\t' | 1<<'\n' | 1<<'\r' | 1<<' ' *)
Definition ws_default : Z := Eval compute in 2 ^ 9 + 2 ^ 10 + 2 ^ 13 + 2 ^ 32.
Definition ws_sig_newline : Z := Eval compute in 2 ^ 9 + 2 ^ 13 + 2 ^ 32.
Definition ws_sig_tab : Z := Eval compute in 2 ^ 10 + 2 ^ 13 + 2 ^ 32.

(** s.Whitespace & (1 << uint(ch)) != 0 : uint(ch) of a negative rune is huge and a shift count
    >= 64 gives 0 *)
Definition is_ws (ws ch : Z) : bool := (0 <=? ch) && (ch <? 64) && Z.testbit ws ch.

(** ------------------------------------------------------------------ UTF-8 (unicode/utf8) *)

Definition is_cont (b : Z) : bool := (0x80 <=? b) && (b <=? 0xBF).

Definition rune2 (b0 b1 : Z) : Z := Z.lor (Z.shiftl (Z.land b0 0x1F) 6) (Z.land b1 0x3F).
Definition rune3 (b0 b1 b2 : Z) : Z :=
  Z.lor (Z.lor (Z.shiftl (Z.land b0 0x0F) 12) (Z.shiftl (Z.land b1 0x3F) 6)) (Z.land b2 0x3F).
Definition rune4 (b0 b1 b2 b3 : Z) : Z :=
  Z.lor (Z.lor (Z.lor (Z.shiftl (Z.land b0 0x07) 18) (Z.shiftl (Z.land b1 0x3F) 12))
               (Z.shiftl (Z.land b2 0x3F) 6)) (Z.land b3 0x3F).

(** utf8.DecodeRune: (rune, width); (RuneError, 1) for an invalid or incomplete encoding,
    (RuneError, 0) for the empty input *)
Definition utf8_decode (bs : bytes) : Z * Z :=
  match bs with
  | [] => (rune_error, 0)
  | b0 :: t =>
    if b0 <? 0x80 then (b0, 1)
    else if b0 <? 0xC2 then (rune_error, 1)
    else if b0 <? 0xE0 then
      match t with
      | b1 :: _ =>
        if is_cont b1 then (rune2 b0 b1, 2) else (rune_error, 1)
      | _ => (rune_error, 1)
      end
    else if b0 <? 0xF0 then
      match t with
      | b1 :: b2 :: _ =>
        let lo := if b0 =? 0xE0 then 0xA0 else 0x80 in
        let hi := if b0 =? 0xED then 0x9F else 0xBF in
        if (lo <=? b1) && (b1 <=? hi) && is_cont b2
        then (rune3 b0 b1 b2, 3)
        else (rune_error, 1)
      | _ => (rune_error, 1)
      end
    else if b0 <? 0xF5 then
      match t with
      | b1 :: b2 :: b3 :: _ =>
        let lo := if b0 =? 0xF0 then 0x90 else 0x80 in
        let hi := if b0 =? 0xF4 then 0x8F else 0xBF in
        if (lo <=? b1) && (b1 <=? hi) && is_cont b2 && is_cont b3
        then (rune4 b0 b1 b2 b3, 4)
        else (rune_error, 1)
      | _ => (rune_error, 1)
      end
    else (rune_error, 1)
  end.

(** utf8.AppendRune / strings.Builder.WriteRune: invalid runes (negative, surrogates,
    > 0x10FFFF) are written as the encoding of RuneError *)
Definition utf8_encode (r : Z) : bytes :=
  if (0 <=? r) && (r <? 0x80) then [r]
  else if (0 <=? r) && (r <? 0x800) then [Z.lor 0xC0 (Z.shiftr r 6); Z.lor 0x80 (Z.land r 0x3F)]
  else if (r <? 0) || (0x10FFFF <? r) || ((0xD800 <=? r) && (r <=? 0xDFFF)) then [0xEF; 0xBF; 0xBD]
  else if r <? 0x10000 then
    [Z.lor 0xE0 (Z.shiftr r 12); Z.lor 0x80 (Z.land (Z.shiftr r 6) 0x3F); Z.lor 0x80 (Z.land r 0x3F)]
  else
    [Z.lor 0xF0 (Z.shiftr r 18); Z.lor 0x80 (Z.land (Z.shiftr r 12) 0x3F);
     Z.lor 0x80 (Z.land (Z.shiftr r 6) 0x3F); Z.lor 0x80 (Z.land r 0x3F)].

(** utf8.RuneCountInString (an invalid byte counts as one rune of width 1) *)
Fixpoint rune_count_aux (n : nat) (bs : bytes) (acc : Z) : Z :=
  match n with
  | O => acc
  | S n' =>
    match bs with
    | [] => acc
    | _ => let '(_, w) := utf8_decode bs in rune_count_aux n' (skipn (Z.to_nat w) bs) (acc + 1)
    end
  end.
Definition rune_count (bs : bytes) : Z := rune_count_aux (length bs) bs 0.

(** ------------------------------------------------------------------ state and results *)

Inductive err_kind :=
| EScanUtf8      (* scanner: invalid UTF-8 encoding *)
| EScanNul       (* scanner: invalid character NUL *)
| EScanNumber    (* scanner: malformed number literal *)
| ESyntax        (* parser: unexpected token / missing token / unterminated string *)
| EValue.        (* parser: token of the right type but invalid value *)

Record sstate := {
  s_rest : bytes;        (* source from srcPos on *)
  s_last : bytes;        (* bytes of the last character read; length = lastCharLen *)
  s_pos : Z;             (* srcBufOffset + srcPos *)
  s_line : Z;
  s_col : Z;
  s_lastlinelen : Z;
  s_ch : Z;              (* s.ch: character before current srcPos; NOCHAR initially *)
  s_ws : Z               (* s.Whitespace *)
}.

(** Scanner.Init + the parser's configuration *)
Definition sc_init (src : bytes) : sstate :=
  {| s_rest := src; s_last := []; s_pos := 0; s_line := 1; s_col := 0; s_lastlinelen := 0;
     s_ch := NOCHAR; s_ws := ws_default |}.

Definition set_ch (s : sstate) (ch : Z) : sstate :=
  {| s_rest := s_rest s; s_last := s_last s; s_pos := s_pos s; s_line := s_line s; s_col := s_col s;
     s_lastlinelen := s_lastlinelen s; s_ch := ch; s_ws := s_ws s |}.

Definition set_ws (s : sstate) (ws : Z) : sstate :=
  {| s_rest := s_rest s; s_last := s_last s; s_pos := s_pos s; s_line := s_line s; s_col := s_col s;
     s_lastlinelen := s_lastlinelen s; s_ch := s_ch s; s_ws := ws |}.

(** Scanner.Pos() *)
Definition sc_pos (s : sstate) : position :=
  let off := s_pos s - blen (s_last s) in
  if 0 <? s_col s then {| p_line := s_line s; p_column := s_col s; p_offset := off |}
  else if 0 <? s_lastlinelen s then {| p_line := s_line s - 1; p_column := s_lastlinelen s; p_offset := off |}
  else {| p_line := 1; p_column := 1; p_offset := off |}.

Inductive sres (A : Type) :=
| SOk (a : A)
| SErr (p : position) (k : err_kind)
| SFuel.
Arguments SOk {A} a.
Arguments SErr {A} p k.
Arguments SFuel {A}.

Definition sbind {A B} (m : sres A) (f : A -> sres B) : sres B :=
  match m with
  | SOk a => f a
  | SErr p k => SErr p k
  | SFuel => SFuel
  end.

Notation "'slet' x <- m ; f" := (sbind m (fun x => f)) (at level 200, x pattern, m at level 100, f at level 200).

(** Scanner.next: reads one character; returns it with the updated state ([s_ch] untouched, as
    in Go where the callers store the result) *)
Definition sc_next (s : sstate) : sres (Z * sstate) :=
  match s_rest s with
  | [] =>
    SOk (EOF, {| s_rest := []; s_last := []; s_pos := s_pos s; s_line := s_line s;
                 s_col := (if 0 <? blen (s_last s) then s_col s + 1 else s_col s);
                 s_lastlinelen := s_lastlinelen s; s_ch := s_ch s; s_ws := s_ws s |})
  | b0 :: _ =>
    let '(ch, w) := if b0 <? 0x80 then (b0, 1) else utf8_decode (s_rest s) in
    let s1 := {| s_rest := skipn (Z.to_nat w) (s_rest s); s_last := firstn (Z.to_nat w) (s_rest s);
                 s_pos := s_pos s + w; s_line := s_line s; s_col := s_col s + 1;
                 s_lastlinelen := s_lastlinelen s; s_ch := s_ch s; s_ws := s_ws s |} in
    if (ch =? rune_error) && (w =? 1) then SErr (sc_pos s1) EScanUtf8
    else if ch =? 0 then SErr (sc_pos s1) EScanNul
    else if ch =? 10 then
      SOk (ch, {| s_rest := s_rest s1; s_last := s_last s1; s_pos := s_pos s1; s_line := s_line s1 + 1;
                  s_col := 0; s_lastlinelen := s_col s1; s_ch := s_ch s1; s_ws := s_ws s1 |})
    else SOk (ch, s1)
  end.

(** Scanner.Peek (skips a leading byte-order mark) *)
Definition sc_peek (s : sstate) : sres (Z * sstate) :=
  if s_ch s =? NOCHAR then
    slet (c, s1) <- sc_next s;
    if c =? 0xFEFF then
      slet (c2, s2) <- sc_next (set_ch s1 c);
      SOk (c2, set_ch s2 c2)
    else SOk (c, set_ch s1 c)
  else SOk (s_ch s, s).

(** Scanner.Next *)
Definition sc_Next (s : sstate) : sres (Z * sstate) :=
  slet (ch, s1) <- sc_peek s;
  if ch =? EOF then SOk (ch, s1)
  else slet (c2, s2) <- sc_next s1; SOk (ch, set_ch s2 c2).

Definition is_decimal (ch : Z) : bool := (48 <=? ch) && (ch <=? 57).
Definition lower (ch : Z) : Z := Z.lor 32 ch.
Definition is_hex (ch : Z) : bool := is_decimal ch || ((97 <=? lower ch) && (lower ch <=? 102)).
Definition ascii_letter (ch : Z) : bool := ((65 <=? ch) && (ch <=? 90)) || ((97 <=? ch) && (ch <=? 122)).

(** scanner.invalidSep on the token text; -1 = no misplaced '_' *)
Fixpoint invalid_sep_loop (x : bytes) (i : Z) (d : Z) (x1 : Z) : Z :=
  match x with
  | [] => if d =? 95 then i - 1 else -1
  | c :: t =>
    if c =? 95 then (if d =? 48 then invalid_sep_loop t (i + 1) 95 x1 else i)
    else if is_decimal c || ((x1 =? 120) && is_hex c) then invalid_sep_loop t (i + 1) 48 x1
    else if d =? 95 then i - 1
    else invalid_sep_loop t (i + 1) 46 x1
  end.

Definition invalid_sep (x : bytes) : Z :=
  match x with
  | 48 :: c1 :: t =>
    let x1 := lower c1 in
    if (x1 =? 120) || (x1 =? 111) || (x1 =? 98) then invalid_sep_loop t 2 48 x1
    else invalid_sep_loop x 0 46 x1
  | _ => invalid_sep_loop x 0 46 32
  end.

Record token := { t_typ : Z; t_pos : position; t_txt : bytes }.

Section WithOracle.
  (** unicode.IsLetter / unicode.IsDigit restricted to runes >= 128 *)
  Variable is_letter_hi is_digit_hi : Z -> bool.
  (** loop bound *)
  Variable F : nat.

  Definition uni_letter (ch : Z) : bool :=
    if ch <? 0 then false else if ch <? 128 then ascii_letter ch else is_letter_hi ch.
  Definition uni_digit (ch : Z) : bool :=
    if ch <? 0 then false else if ch <? 128 then is_decimal ch else is_digit_hi ch.

  (** Scanner.isIdentRune with IsIdentRune == nil; [later] = (i > 0) *)
  Definition is_ident_rune (ch : Z) (later : bool) : bool :=
    (ch =? 95) || uni_letter ch || (uni_digit ch && later).

  (** the whitespace loop of Scan *)
  Fixpoint skip_ws (f : nat) (ch : Z) (s : sstate) : sres (Z * sstate) :=
    if is_ws (s_ws s) ch then
      match f with
      | O => SFuel
      | S f' => slet (c, s') <- sc_next s; skip_ws f' c s'
      end
    else SOk (ch, s).

  (** Scanner.scanIdentifier *)
  Fixpoint scan_ident_loop (f : nat) (ch : Z) (s : sstate) : sres (Z * sstate) :=
    if is_ident_rune ch true then
      match f with
      | O => SFuel
      | S f' => slet (c, s') <- sc_next s; scan_ident_loop f' c s'
      end
    else SOk (ch, s).

  Definition scan_identifier (s : sstate) : sres (Z * sstate) :=
    slet (c, s') <- sc_next s; scan_ident_loop F c s'.

  (** Scanner.digits: returns (ch, digsep, invalid, state). For base <= 10 digits >= base are
      recorded in [invalid] (0 = none). The exponent call of Go passes invalid = nil with base 10,
      where the pointer is never dereferenced (ch >= '0'+10 is impossible for a decimal digit);
      the model passes 0 and ignores the result. *)
  Fixpoint digits (f : nat) (ch base invalid digsep : Z) (s : sstate) : sres (Z * Z * Z * sstate) :=
    let continue_ :=
      if base <=? 10 then is_decimal ch || (ch =? 95) else is_hex ch || (ch =? 95) in
    if continue_ then
      match f with
      | O => SFuel
      | S f' =>
        let ds := if ch =? 95 then 2 else 1 in
        let invalid' :=
          if (base <=? 10) && negb (ch =? 95) && (48 + base <=? ch) && (invalid =? 0) then ch else invalid in
        slet (c, s') <- sc_next s;
        digits f' c base invalid' (Z.lor digsep ds) s'
      end
    else SOk (ch, digsep, invalid, s).

  (** Scanner.scanNumber(ch, seenDot), in three parts. Prefix: 0 decimal, 48 '0', 120 'x', 111 'o', 98 'b'.
      Integer part (only when no dot has been seen): returns (base, prefix, digsep, invalid, ch, seenDot, state) *)
  Definition scan_intpart (ch0 : Z) (s0 : sstate) : sres (Z * Z * Z * Z * Z * bool * sstate) :=
    slet (base, prefix, digsep, ch, s) <-
      (if ch0 =? 48 then
         slet (c1, s1) <- sc_next s0;
         if lower c1 =? 120 then slet (c2, s2) <- sc_next s1; SOk (16, 120, 0, c2, s2)
         else if lower c1 =? 111 then slet (c2, s2) <- sc_next s1; SOk (8, 111, 0, c2, s2)
         else if lower c1 =? 98 then slet (c2, s2) <- sc_next s1; SOk (2, 98, 0, c2, s2)
         else SOk (8, 48, 1, c1, s1)
       else SOk (10, 0, 0, ch0, s0));
    slet (ch, ds, invalid, s) <- digits F ch base 0 0 s;
    let digsep := Z.lor digsep ds in
    if ch =? 46 then
      slet (c, s') <- sc_next s; SOk (base, prefix, digsep, invalid, c, true, s')
    else SOk (base, prefix, digsep, invalid, ch, false, s).

  (** fractional part: returns (tok, digsep, invalid, ch, state) *)
  Definition scan_fraction (base prefix digsep invalid ch : Z) (seen_dot : bool) (s : sstate)
    : sres (Z * Z * Z * Z * sstate) :=
    if seen_dot then
      if (prefix =? 111) || (prefix =? 98) then SErr (sc_pos s) EScanNumber   (* invalid radix point *)
      else
        slet (ch, ds, invalid, s) <- digits F ch base invalid 0 s;
        SOk (TFloat, Z.lor digsep ds, invalid, ch, s)
    else SOk (TInt, digsep, invalid, ch, s).

  (** exponent: returns (tok, digsep, ch, state) *)
  Definition scan_exponent (prefix tok digsep ch : Z) (s : sstate) : sres (Z * Z * Z * sstate) :=
    let e := lower ch in
    if (e =? 101) || (e =? 112) then
      if (e =? 101) && negb (prefix =? 0) && negb (prefix =? 48) then SErr (sc_pos s) EScanNumber
      else if (e =? 112) && negb (prefix =? 120) then SErr (sc_pos s) EScanNumber
      else
        slet (c, s1) <- sc_next s;
        slet (c, s1) <- (if (c =? 43) || (c =? 45) then sc_next s1 else SOk (c, s1));
        slet (c, ds, _, s1) <- digits F c 10 0 0 s1;
        if Z.land ds 1 =? 0 then SErr (sc_pos s1) EScanNumber                   (* exponent has no digits *)
        else SOk (TFloat, Z.lor digsep ds, c, s1)
    else if (prefix =? 120) && (tok =? TFloat) then SErr (sc_pos s) EScanNumber (* needs 'p' exponent *)
    else SOk (tok, digsep, ch, s).

  (** [src0]/[tokpos] identify the token start (for TokenText in the '_' check). Returns (tok, ch, state). *)
  Definition scan_number (src0 : bytes) (tokpos : Z) (ch0 : Z) (seen_dot : bool) (s0 : sstate)
    : sres (Z * Z * sstate) :=
    slet (base, prefix, digsep, invalid, ch, seen_dot, s) <-
      (if seen_dot then SOk (10, 0, 0, 0, ch0, true, s0) else scan_intpart ch0 s0);
    slet (tok, digsep, invalid, ch, s) <- scan_fraction base prefix digsep invalid ch seen_dot s;
    if Z.land digsep 1 =? 0 then SErr (sc_pos s) EScanNumber                      (* has no digits *)
    else
    slet (tok, digsep, ch, s) <- scan_exponent prefix tok digsep ch s;
    if (tok =? TInt) && negb (invalid =? 0) then SErr (sc_pos s) EScanNumber       (* invalid digit *)
    else if negb (Z.land digsep 2 =? 0)
            && (0 <=? invalid_sep (firstn (Z.to_nat (s_pos s - blen (s_last s) - tokpos)) src0))
    then SErr (sc_pos s) EScanNumber                                               (* '_' must separate digits *)
    else SOk (tok, ch, s).

  (** Scanner.Scan; returns the token (type, Position, TokenText) *)
  Definition sc_scan (s : sstate) : sres (token * sstate) :=
    slet (ch, s) <- sc_peek s;
    slet (ch, s) <- skip_ws F ch s;
    let src0 := s_last s ++ s_rest s in
    let tokpos := s_pos s - blen (s_last s) in
    let pos :=
      if 0 <? s_col s then {| p_line := s_line s; p_column := s_col s; p_offset := tokpos |}
      else {| p_line := s_line s - 1; p_column := s_lastlinelen s; p_offset := tokpos |} in
    slet (tok, ch', s') <-
      (if is_ident_rune ch false then
         slet (c, s') <- scan_identifier s; SOk (TIdent, c, s')
       else if is_decimal ch then scan_number src0 tokpos ch false s
       else if ch =? EOF then SOk (ch, ch, s)
       else if ch =? 46 then
         slet (c, s') <- sc_next s;
         if is_decimal c then scan_number src0 tokpos c true s' else SOk (ch, c, s')
       else
         (* double quote, quote, slash, backquote included: ScanStrings/ScanChars/ScanComments/ScanRawStrings are off *)
         slet (c, s') <- sc_next s; SOk (ch, c, s'));
    let tokend := s_pos s' - blen (s_last s') in
    SOk ({| t_typ := tok; t_pos := pos; t_txt := firstn (Z.to_nat (tokend - tokpos)) src0 |}, set_ch s' ch').

End WithOracle.
