(** Scanner-level lemmas for the round trip (C04): scanning a printed ASCII token that is followed by
    a separator yields exactly that token, its position, and the scanner state after the separator.
    States are written with the constructor abbreviation [mkS]; [x] is the (irrelevant) stale value
    of the field [s_ch] during a scan. *)
From Coq Require Import ZArith List Bool Lia.
From CanVerif Require Import Dbc.Ast Dbc.Scanner Dbc.ScannerInv.
Import ListNotations.
Open Scope Z_scope.

Definition mkS (rest last : bytes) (pos line col ll ch ws : Z) : sstate :=
  {| s_rest := rest; s_last := last; s_pos := pos; s_line := line; s_col := col; s_lastlinelen := ll;
     s_ch := ch; s_ws := ws |}.

Definition ascii (b : Z) : Prop := 0 < b < 128.

(** the state after reading the ASCII character [c] *)
Definition stepS (c : Z) (r : bytes) (pos l k ll x ws : Z) : sstate :=
  if c =? 10 then mkS r [10] (pos + 1) (l + 1) 0 (k + 1) x ws
  else mkS r [c] (pos + 1) l (k + 1) ll x ws.

Lemma next_step : forall c r last pos l k ll x ws, ascii c ->
  sc_next (mkS (c :: r) last pos l k ll x ws) = SOk (c, stepS c r pos l k ll x ws).
Proof.
  intros c r last pos l k ll x ws Hc. unfold sc_next, mkS, stepS. cbn [s_rest].
  assert (E1 : (c <? 128) = true) by (apply Z.ltb_lt; unfold ascii in Hc; lia). rewrite E1.
  assert (E2 : (c =? rune_error) = false) by (apply Z.eqb_neq; unfold rune_error, ascii in *; lia). rewrite E2.
  assert (E3 : (c =? 0) = false) by (apply Z.eqb_neq; unfold ascii in *; lia). rewrite E3.
  cbn [andb]. change (Z.to_nat 1) with 1%nat. cbn [skipn firstn s_rest s_last s_pos s_line s_col s_lastlinelen s_ch s_ws].
  destruct (c =? 10) eqn:E4.
  - apply Z.eqb_eq in E4. subst c. reflexivity.
  - reflexivity.
Qed.

Lemma next_eof : forall last pos l k ll x ws,
  sc_next (mkS [] last pos l k ll x ws) = SOk (EOF, mkS [] [] pos l (if 0 <? blen last then k + 1 else k) ll x ws).
Proof. reflexivity. Qed.

Lemma stepS_plain : forall c r pos l k ll x ws, c <> 10 -> stepS c r pos l k ll x ws = mkS r [c] (pos + 1) l (k + 1) ll x ws.
Proof. intros. unfold stepS. apply Z.eqb_neq in H. rewrite H. reflexivity. Qed.

Lemma stepS_last : forall c r pos l k ll x ws, blen (s_last (stepS c r pos l k ll x ws)) = 1.
Proof. intros. unfold stepS. destruct (c =? 10); reflexivity. Qed.

Lemma stepS_pos : forall c r pos l k ll x ws, s_pos (stepS c r pos l k ll x ws) = pos + 1.
Proof. intros. unfold stepS. destruct (c =? 10); reflexivity. Qed.

Lemma stepS_ws : forall c r pos l k ll x ws, s_ws (stepS c r pos l k ll x ws) = ws.
Proof. intros. unfold stepS. destruct (c =? 10); reflexivity. Qed.

Lemma set_ch_stepS : forall c r pos l k ll x ws y, set_ch (stepS c r pos l k ll x ws) y = stepS c r pos l k ll y ws.
Proof. intros. unfold stepS. destruct (c =? 10); reflexivity. Qed.

Lemma stepS_eq0 : forall c r pos pos' l k k' ll x ws, pos = pos' -> k = k' ->
  stepS c r pos l k ll x ws = stepS c r pos' l k' ll x ws.
Proof. intros. subst. reflexivity. Qed.

(** ASCII identifier characters *)
Definition idc (c : Z) : bool := (c =? 95) || ascii_letter c || is_decimal c.
Definition id0 (c : Z) : bool := (c =? 95) || ascii_letter c.

Lemma idc_ascii : forall c, idc c = true -> ascii c /\ c <> 10.
Proof.
  intros c H. unfold idc, ascii_letter, is_decimal, ascii in *.
  repeat (apply orb_true_iff in H; destruct H as [H|H]); try (apply andb_true_iff in H; destruct H); lia.
Qed.

Lemma id0_idc : forall c, id0 c = true -> idc c = true.
Proof. intros c H. unfold id0, idc in *. rewrite H. reflexivity. Qed.

Section WithOracle.
  Variable il id : Z -> bool.
  Variable F : nat.

  Lemma ident_rune_later : forall c, ascii c -> is_ident_rune il id c true = idc c.
  Proof.
    intros c Hc. unfold is_ident_rune, uni_letter, uni_digit, idc, ascii in *.
    assert (E1 : (c <? 0) = false) by (apply Z.ltb_ge; lia).
    assert (E2 : (c <? 128) = true) by (apply Z.ltb_lt; lia). rewrite E1, E2.
    destruct (c =? 95), (ascii_letter c), (is_decimal c); reflexivity.
  Qed.

  Lemma ident_rune_first : forall c, ascii c -> is_ident_rune il id c false = id0 c.
  Proof.
    intros c Hc. unfold is_ident_rune, uni_letter, uni_digit, id0, ascii in *.
    assert (E1 : (c <? 0) = false) by (apply Z.ltb_ge; lia).
    assert (E2 : (c <? 128) = true) by (apply Z.ltb_lt; lia). rewrite E1, E2.
    destruct (c =? 95), (ascii_letter c), (is_decimal c); reflexivity.
  Qed.

  (** the part of Scan after the whitespace has been skipped *)
  Definition scan_body (ch : Z) (s : sstate) : sres (token * sstate) :=
    let src0 := s_last s ++ s_rest s in
    let tokpos := s_pos s - blen (s_last s) in
    let pos :=
      if 0 <? s_col s then {| p_line := s_line s; p_column := s_col s; p_offset := tokpos |}
      else {| p_line := s_line s - 1; p_column := s_lastlinelen s; p_offset := tokpos |} in
    slet (tok, ch', s') <-
      (if is_ident_rune il id ch false then
         slet (c, s') <- scan_identifier il id F s; SOk (TIdent, c, s')
       else if is_decimal ch then scan_number F src0 tokpos ch false s
       else if ch =? EOF then SOk (ch, ch, s)
       else if ch =? 46 then
         slet (c, s') <- sc_next s;
         if is_decimal c then scan_number F src0 tokpos c true s' else SOk (ch, c, s')
       else
         slet (c, s') <- sc_next s; SOk (ch, c, s'));
    let tokend := s_pos s' - blen (s_last s') in
    SOk ({| t_typ := tok; t_pos := pos; t_txt := firstn (Z.to_nat (tokend - tokpos)) src0 |}, set_ch s' ch').

  Lemma sc_scan_unfold : forall s,
    sc_scan il id F s = slet (ch, s1) <- sc_peek s; slet (ch2, s2) <- skip_ws F ch s1; scan_body ch2 s2.
  Proof. reflexivity. Qed.

  (** a pending non-whitespace character: Scan goes straight to the body *)
  Lemma sc_scan_direct : forall s, s_ch s <> NOCHAR -> is_ws (s_ws s) (s_ch s) = false ->
    sc_scan il id F s = scan_body (s_ch s) s.
  Proof.
    intros s Hn Hw. rewrite sc_scan_unfold. unfold sc_peek. apply Z.eqb_neq in Hn. rewrite Hn. cbn [sbind].
    destruct F; cbn [skip_ws]; rewrite Hw; reflexivity.
  Qed.

  (** one pending whitespace character followed by a non-whitespace ASCII character *)
  Lemma sc_scan_skip1 : forall w c r last pos l k ll ws, (1 <= F)%nat ->
    is_ws ws w = true -> ascii c -> is_ws ws c = false ->
    sc_scan il id F (mkS (c :: r) last pos l k ll w ws) = scan_body c (stepS c r pos l k ll w ws).
  Proof.
    intros w c r last pos l k ll ws HF Hw Hc Hnw. rewrite sc_scan_unfold. unfold sc_peek. cbn [s_ch mkS].
    assert (E : (w =? NOCHAR) = false).
    { apply Z.eqb_neq. intros ->. unfold is_ws, NOCHAR in Hw. discriminate Hw. }
    rewrite E. cbn [sbind]. destruct F as [|f]; [lia|]. cbn [skip_ws]. cbn [s_ws mkS]. rewrite Hw.
    fold (mkS (c :: r) last pos l k ll w ws). rewrite next_step by assumption. cbn [sbind].
    destruct f; cbn [skip_ws]; rewrite stepS_ws, Hnw; reflexivity.
  Qed.

  (** ---------------------------------------------------------- identifiers *)

  Lemma ident_loop_run : forall t f c1 c r last pos l k ll x ws,
    (length t < f)%nat -> Forall (fun a => idc a = true) t -> idc c1 = true ->
    ascii c -> idc c = false ->
    scan_ident_loop il id f c1 (mkS (t ++ c :: r) last pos l k ll x ws)
    = SOk (c, stepS c r (pos + blen t) l (k + blen t) ll x ws).
  Proof.
    induction t as [|a t IH]; intros f c1 c r last pos l k ll x ws Hf Ht Hc1 Hc Hnc.
    - destruct f as [|f]; [cbn in Hf; lia|]. cbn [scan_ident_loop app].
      rewrite (ident_rune_later c1) by (apply idc_ascii; assumption). rewrite Hc1.
      rewrite next_step by assumption. cbn [sbind].
      rewrite blen_nil, !Z.add_0_r.
      destruct f; cbn [scan_ident_loop]; rewrite (ident_rune_later c Hc), Hnc; reflexivity.
    - destruct f as [|f]; [cbn in Hf; lia|]. cbn [scan_ident_loop app].
      rewrite (ident_rune_later c1) by (apply idc_ascii; assumption). rewrite Hc1.
      inversion Ht as [|? ? Ha Ht']; subst. destruct (idc_ascii a Ha) as (Haa & Ha10).
      rewrite next_step by assumption. cbn [sbind]. rewrite stepS_plain by assumption.
      rewrite (IH f a c r [a] (pos + 1) l (k + 1) ll x ws); try assumption; [|cbn in Hf; lia].
      rewrite blen_cons. f_equal. f_equal. f_equal; lia.
  Qed.

  Lemma firstn_app_exact : forall (a b : bytes) n, n = length a -> firstn n (a ++ b) = a.
  Proof. intros a b n ->. rewrite firstn_app, Nat.sub_diag, firstn_all. cbn. apply app_nil_r. Qed.

  (** scanning the identifier [c0 :: t] that is followed by the ASCII non-identifier character [c] *)
  Lemma scan_body_ident : forall c0 t c r pos l k ll x ws,
    (length t + 1 < F)%nat -> 0 < k -> id0 c0 = true -> Forall (fun a => idc a = true) t ->
    ascii c -> idc c = false ->
    scan_body c0 (mkS (t ++ c :: r) [c0] pos l k ll x ws)
    = SOk ({| t_typ := TIdent; t_pos := {| p_line := l; p_column := k; p_offset := pos - 1 |}; t_txt := c0 :: t |},
           stepS c r (pos + blen t) l (k + blen t) ll c ws).
  Proof.
    intros c0 t c r pos l k ll x ws HF Hk H0 Ht Hc Hnc. unfold scan_body.
    assert (Ha0 : ascii c0) by (apply idc_ascii, id0_idc; assumption).
    rewrite (ident_rune_first c0 Ha0), H0. unfold scan_identifier.
    cbn [s_last s_rest s_pos s_col s_line mkS].
    assert (Ek : (0 <? k) = true) by (apply Z.ltb_lt; lia). rewrite Ek.
    destruct t as [|a t].
    - cbn [app]. fold (mkS (c :: r) [c0] pos l k ll x ws). rewrite next_step by assumption. cbn [sbind].
      destruct F as [|f]; [lia|]. cbn [scan_ident_loop]. rewrite (ident_rune_later c Hc), Hnc. cbn [sbind].
      rewrite stepS_pos, stepS_last, set_ch_stepS, blen_nil, !Z.add_0_r.
      change (blen [c0]) with 1. replace (pos + 1 - 1 - (pos - 1)) with 1 by lia. reflexivity.
    - inversion Ht as [|? ? Ha Ht']; subst. destruct (idc_ascii a Ha) as (Haa & Ha10).
      cbn [app]. fold (mkS (a :: t ++ c :: r) [c0] pos l k ll x ws). rewrite next_step by assumption. cbn [sbind].
      rewrite stepS_plain by assumption.
      rewrite (ident_loop_run t F a c r [a] (pos + 1) l (k + 1) ll x ws); try assumption; [|cbn in HF; lia].
      cbn [sbind]. rewrite stepS_pos, stepS_last, set_ch_stepS. change (blen [c0]) with 1.
      rewrite blen_cons.
      replace (pos + 1 + blen t + 1 - 1 - (pos - 1)) with (Z.of_nat (S (S (length t)))) by (unfold blen; lia).
      rewrite Nat2Z.id. change (c0 :: a :: t ++ c :: r) with ((c0 :: a :: t) ++ c :: r).
      rewrite firstn_app_exact by reflexivity.
      f_equal. f_equal. f_equal; lia.
  Qed.

  (** ---------------------------------------------------------- single characters, EOF *)

  Definition tpos (pos l k ll : Z) : position :=
    if 0 <? k then {| p_line := l; p_column := k; p_offset := pos - 1 |}
    else {| p_line := l - 1; p_column := ll; p_offset := pos - 1 |}.

  Definition punct (p : Z) : Prop := ascii p /\ id0 p = false /\ is_decimal p = false /\ p <> 46.

  Lemma punct_not_eof : forall p, ascii p -> (p =? EOF) = false.
  Proof. intros p H. apply Z.eqb_neq. unfold ascii, EOF in *. lia. Qed.

  Lemma scan_body_punct : forall p c r pos l k ll x ws, punct p -> ascii c ->
    scan_body p (mkS (c :: r) [p] pos l k ll x ws)
    = SOk ({| t_typ := p; t_pos := tpos pos l k ll; t_txt := [p] |}, stepS c r pos l k ll c ws).
  Proof.
    intros p c r pos l k ll x ws (Hp & Hi & Hd & H46) Hc. unfold scan_body.
    rewrite (ident_rune_first p Hp), Hi, Hd, (punct_not_eof p Hp).
    apply Z.eqb_neq in H46. rewrite H46. rewrite next_step by assumption. cbn [sbind].
    rewrite stepS_pos, stepS_last, set_ch_stepS. cbn [s_last s_rest s_pos s_col s_line s_lastlinelen mkS].
    change (blen [p]) with 1. replace (pos + 1 - 1 - (pos - 1)) with 1 by lia.
    change (Z.to_nat 1) with 1%nat. cbn [app firstn]. unfold tpos. reflexivity.
  Qed.

  Lemma scan_body_punct_eof : forall p pos l k ll x ws, punct p ->
    scan_body p (mkS [] [p] pos l k ll x ws)
    = SOk ({| t_typ := p; t_pos := tpos pos l k ll; t_txt := [p] |}, mkS [] [] pos l (k + 1) ll EOF ws).
  Proof.
    intros p pos l k ll x ws (Hp & Hi & Hd & H46). unfold scan_body.
    rewrite (ident_rune_first p Hp), Hi, Hd, (punct_not_eof p Hp).
    apply Z.eqb_neq in H46. rewrite H46. rewrite next_eof. cbn [sbind].
    cbn [s_last s_rest s_pos s_col s_line s_lastlinelen mkS set_ch]. change (blen [p]) with 1. change (blen []) with 0.
    change (0 <? 1) with true. cbv iota. replace (pos - 0 - (pos - 1)) with 1 by lia.
    change (Z.to_nat 1) with 1%nat. cbn [app firstn]. unfold tpos. reflexivity.
  Qed.

  Lemma scan_body_eof : forall pos l k ll x ws,
    scan_body EOF (mkS [] [] pos l k ll x ws)
    = SOk ({| t_typ := EOF;
              t_pos := if 0 <? k then {| p_line := l; p_column := k; p_offset := pos - 0 |}
                       else {| p_line := l - 1; p_column := ll; p_offset := pos - 0 |};
              t_txt := [] |}, mkS [] [] pos l k ll EOF ws).
  Proof.
    intros. unfold scan_body. rewrite ident_rune_eof. change (is_decimal EOF) with false. change (EOF =? EOF) with true.
    cbv iota. cbn [sbind s_last s_rest s_pos s_col s_line s_lastlinelen mkS set_ch]. change (blen []) with 0.
    replace (pos - 0 - (pos - 0)) with 0 by lia. reflexivity.
  Qed.

  (** ---------------------------------------------------------- decimal unsigned integers *)

  (** a character that ends a decimal literal without becoming part of it *)
  Definition numterm (c : Z) : Prop :=
    ascii c /\ is_decimal c = false /\ c <> 95 /\ c <> 46 /\ lower c <> 101 /\ lower c <> 112
    /\ lower c <> 120 /\ lower c <> 111 /\ lower c <> 98.

  Lemma is_decimal_ascii : forall d, is_decimal d = true -> ascii d /\ d <> 10 /\ d <> 95 /\ (58 <=? d) = false.
  Proof.
    intros d H. unfold is_decimal, ascii in *. apply andb_true_iff in H. destruct H.
    repeat split; lia.
  Qed.

  Lemma digits_run : forall ds f d c r last pos l k ll x ws digsep,
    (length ds < f)%nat -> is_decimal d = true -> Forall (fun a => is_decimal a = true) ds -> numterm c ->
    digits f d 10 0 digsep (mkS (ds ++ c :: r) last pos l k ll x ws)
    = SOk (c, Z.lor digsep 1, 0, stepS c r (pos + blen ds) l (k + blen ds) ll x ws).
  Proof.
    induction ds as [|a ds IH]; intros f d c r last pos l k ll x ws digsep Hf Hd Hds Hc.
    - destruct f as [|f]; [cbn in Hf; lia|]. cbn [digits app]. change (10 <=? 10) with true. cbv iota.
      rewrite Hd. cbn [orb]. destruct (is_decimal_ascii d Hd) as (_ & _ & H95 & H58).
      apply Z.eqb_neq in H95. rewrite H95. change (48 + 10) with 58. rewrite H58. cbn [andb negb].
      destruct Hc as (Hca & Hcd & Hc95 & _). rewrite next_step by assumption. cbn [sbind].
      rewrite blen_nil, !Z.add_0_r.
      apply Z.eqb_neq in Hc95.
      destruct f; cbn [digits]; change (10 <=? 10) with true; cbv iota; rewrite Hcd, Hc95; reflexivity.
    - destruct f as [|f]; [cbn in Hf; lia|]. cbn [digits app]. change (10 <=? 10) with true. cbv iota.
      rewrite Hd. cbn [orb]. destruct (is_decimal_ascii d Hd) as (_ & _ & H95 & H58).
      apply Z.eqb_neq in H95. rewrite H95. change (48 + 10) with 58. rewrite H58. cbn [andb negb].
      inversion Hds as [|? ? Ha Hds']; subst. destruct (is_decimal_ascii a Ha) as (Haa & Ha10 & _ & _).
      rewrite next_step by assumption. cbn [sbind]. rewrite stepS_plain by assumption.
      rewrite (IH f a c r [a] (pos + 1) l (k + 1) ll x ws (Z.lor digsep 1)); try assumption; [|cbn in Hf; lia].
      rewrite blen_cons. rewrite <- Z.lor_assoc. change (Z.lor 1 1) with 1.
      replace (pos + 1 + blen ds) with (pos + (1 + blen ds)) by lia.
      replace (k + 1 + blen ds) with (k + (1 + blen ds)) by lia. reflexivity.
  Qed.

  Lemma decimal_not_id0 : forall d, is_decimal d = true -> id0 d = false.
  Proof.
    intros d H. unfold is_decimal, id0, ascii_letter in *. apply andb_true_iff in H. destruct H.
    apply orb_false_iff. split; [lia|]. apply orb_false_iff. split; apply andb_false_iff; lia.
  Qed.

  Lemma numterm_flags : forall c, numterm c ->
    (c =? 46) = false /\ (lower c =? 101) = false /\ (lower c =? 112) = false /\ (lower c =? 120) = false
    /\ (lower c =? 111) = false /\ (lower c =? 98) = false.
  Proof. intros c (_ & _ & _ & ? & ? & ? & ? & ? & ?). repeat split; apply Z.eqb_neq; assumption. Qed.

  (** scanning the decimal literal [d0 :: t] (no leading zero unless it is "0") followed by [c] *)
  Lemma scan_body_uint : forall d0 t c r pos l k ll x ws,
    (length t + 1 < F)%nat -> 0 < k -> is_decimal d0 = true -> Forall (fun a => is_decimal a = true) t ->
    (d0 <> 48 \/ t = []) -> numterm c ->
    scan_body d0 (mkS (t ++ c :: r) [d0] pos l k ll x ws)
    = SOk ({| t_typ := TInt; t_pos := {| p_line := l; p_column := k; p_offset := pos - 1 |}; t_txt := d0 :: t |},
           stepS c r (pos + blen t) l (k + blen t) ll c ws).
  Proof.
    intros d0 t c r pos l k ll x ws HF Hk Hd Ht Hz Hc. unfold scan_body.
    destruct (is_decimal_ascii d0 Hd) as (Ha0 & _ & _ & _).
    rewrite (ident_rune_first d0 Ha0), (decimal_not_id0 d0 Hd), Hd.
    cbn [s_last s_rest s_pos s_col s_line mkS].
    assert (Ek : (0 <? k) = true) by (apply Z.ltb_lt; lia). rewrite Ek.
    destruct (numterm_flags c Hc) as (E46 & E101 & E112 & E120 & E111 & E98).
    pose proof Hc as (Hca & Hcd & Hc95 & _). apply Z.eqb_neq in Hc95.
    unfold scan_number, scan_intpart, scan_fraction, scan_exponent.
    destruct (d0 =? 48) eqn:E0.
    - (* the literal "0" *)
      destruct Hz as [Hz|Hz]; [apply Z.eqb_eq in E0; contradiction|]. subst t. cbn [app].
      fold (mkS (c :: r) [d0] pos l k ll x ws). rewrite next_step by assumption. cbn [sbind].
      rewrite E120, E111, E98. cbn [sbind].
      destruct F as [|f]; [lia|]. cbn [digits]. change (8 <=? 10) with true. cbv iota. rewrite Hcd, Hc95. cbn [orb sbind].
      rewrite E46. cbn [sbind]. change (Z.land (Z.lor 1 0) 1 =? 0) with false. cbv iota.
      rewrite E101, E112. cbn [orb]. change (48 =? 120) with false. cbn [andb sbind].
      change (TInt =? TInt) with true. change (0 =? 0) with true. cbn [negb andb].
      change (Z.land (Z.lor 1 0) 2 =? 0) with true. cbn [negb andb sbind].
      rewrite stepS_pos, stepS_last, set_ch_stepS, blen_nil, !Z.add_0_r. change (blen [d0]) with 1.
      replace (pos + 1 - 1 - (pos - 1)) with 1 by lia. reflexivity.
    - cbn [sbind]. fold (mkS (t ++ c :: r) [d0] pos l k ll x ws).
      rewrite (digits_run t F d0 c r [d0] pos l k ll x ws 0); try assumption; [|lia].
      cbn [sbind]. rewrite E46. cbn [sbind]. change (Z.land (Z.lor 0 (Z.lor 0 1)) 1 =? 0) with false. cbv iota.
      rewrite E101, E112. cbn [orb]. change (0 =? 120) with false. cbn [andb sbind].
      change (TInt =? TInt) with true. change (0 =? 0) with true. cbn [negb andb].
      change (Z.land (Z.lor 0 (Z.lor 0 1)) 2 =? 0) with true. cbn [negb andb sbind].
      rewrite stepS_pos, stepS_last, set_ch_stepS. change (blen [d0]) with 1.
      replace (pos + blen t + 1 - 1 - (pos - 1)) with (Z.of_nat (S (length t))) by (unfold blen; lia).
      rewrite Nat2Z.id. change ([d0] ++ t ++ c :: r) with ((d0 :: t) ++ c :: r).
      rewrite firstn_app_exact by reflexivity. reflexivity.
  Qed.

  (** ---------------------------------------------------------- decimal literals with fraction / exponent *)

  (** a character at which a run of digits stops *)
  Definition stopc (c : Z) : Prop := ascii c /\ is_decimal c = false /\ c <> 95.

  Lemma numterm_stopc : forall c, numterm c -> stopc c.
  Proof. intros c (? & ? & ? & _). split; [assumption|split; assumption]. Qed.

  Lemma digits_stop : forall f c base inv digsep s, (base <=? 10) = true -> is_decimal c = false -> c <> 95 ->
    digits f c base inv digsep s = SOk (c, digsep, inv, s).
  Proof.
    intros f c base inv digsep s Hb Hd H95. apply Z.eqb_neq in H95.
    destruct f; cbn [digits]; rewrite Hb, Hd, H95; reflexivity.
  Qed.

  (** a run of decimal digits in base 8 or 10 (the "invalid digit" bookkeeping is irrelevant here) *)
  Lemma digits_any : forall ds f d c r last pos l k ll x ws base inv digsep,
    (base <=? 10) = true -> (length ds < f)%nat -> is_decimal d = true -> Forall (fun a => is_decimal a = true) ds -> stopc c ->
    exists inv', digits f d base inv digsep (mkS (ds ++ c :: r) last pos l k ll x ws)
                 = SOk (c, Z.lor digsep 1, inv', stepS c r (pos + blen ds) l (k + blen ds) ll x ws).
  Proof.
    induction ds as [|a ds IH]; intros f d c r last pos l k ll x ws base inv digsep Hb Hf Hd Hds (Hca & Hcd & Hc95).
    - destruct f as [|f]; [cbn in Hf; lia|]. cbn [digits app]. rewrite Hb. rewrite Hd. cbn [orb].
      destruct (is_decimal_ascii d Hd) as (_ & _ & H95 & _). apply Z.eqb_neq in H95. rewrite H95.
      rewrite next_step by assumption. cbn [sbind]. rewrite blen_nil, !Z.add_0_r.
      eexists. rewrite digits_stop by assumption. reflexivity.
    - destruct f as [|f]; [cbn in Hf; lia|]. cbn [digits app]. rewrite Hb. rewrite Hd. cbn [orb].
      destruct (is_decimal_ascii d Hd) as (_ & _ & H95 & _). apply Z.eqb_neq in H95. rewrite H95.
      inversion Hds as [|? ? Ha Hds']; subst. destruct (is_decimal_ascii a Ha) as (Haa & Ha10 & _ & _).
      rewrite next_step by assumption. cbn [sbind]. rewrite stepS_plain by assumption.
      match goal with |- context [digits f a base ?I ?D _] =>
        destruct (IH f a c r [a] (pos + 1) l (k + 1) ll x ws base I D Hb ltac:(cbn in Hf; lia) Ha Hds' (conj Hca (conj Hcd Hc95))) as (inv' & E) end.
      exists inv'. rewrite E. rewrite blen_cons. rewrite <- Z.lor_assoc. change (Z.lor 1 1) with 1.
      replace (pos + 1 + blen ds) with (pos + (1 + blen ds)) by lia.
      replace (k + 1 + blen ds) with (k + (1 + blen ds)) by lia. reflexivity.
  Qed.

  Lemma digits_any10 : forall ds f d c r last pos l k ll x ws,
    (length ds < f)%nat -> is_decimal d = true -> Forall (fun a => is_decimal a = true) ds -> stopc c ->
    digits f d 10 0 0 (mkS (ds ++ c :: r) last pos l k ll x ws)
    = SOk (c, 1, 0, stepS c r (pos + blen ds) l (k + blen ds) ll x ws).
  Proof.
    induction ds as [|a ds IH]; intros f d c r last pos l k ll x ws Hf Hd Hds (Hca & Hcd & Hc95).
    - destruct f as [|f]; [cbn in Hf; lia|]. cbn [digits app]. change (10 <=? 10) with true. cbv iota. rewrite Hd. cbn [orb].
      destruct (is_decimal_ascii d Hd) as (_ & _ & H95 & H58). apply Z.eqb_neq in H95. rewrite H95.
      change (48 + 10) with 58. rewrite H58. cbn [andb negb].
      rewrite next_step by assumption. cbn [sbind]. rewrite blen_nil, !Z.add_0_r.
      rewrite digits_stop by (try reflexivity; assumption). reflexivity.
    - destruct f as [|f]; [cbn in Hf; lia|]. cbn [digits app]. change (10 <=? 10) with true. cbv iota. rewrite Hd. cbn [orb].
      destruct (is_decimal_ascii d Hd) as (_ & _ & H95 & H58). apply Z.eqb_neq in H95. rewrite H95.
      change (48 + 10) with 58. rewrite H58. cbn [andb negb].
      inversion Hds as [|? ? Ha Hds']; subst. destruct (is_decimal_ascii a Ha) as (Haa & Ha10 & _ & _).
      rewrite next_step by assumption. cbn [sbind]. rewrite stepS_plain by assumption.
      change (Z.lor 0 1) with 1.
      assert (Hgen : forall ds f d pos k ds0, (length ds < f)%nat -> is_decimal d = true -> Forall (fun a => is_decimal a = true) ds ->
                digits f d 10 0 1 (mkS (ds ++ c :: r) ds0 pos l k ll x ws)
                = SOk (c, 1, 0, stepS c r (pos + blen ds) l (k + blen ds) ll x ws)).
      { clear - Hca Hcd Hc95. induction ds as [|a ds IH]; intros f d pos k ds0 Hf Hd Hds.
        - destruct f as [|f]; [cbn in Hf; lia|]. cbn [digits app]. change (10 <=? 10) with true. cbv iota. rewrite Hd. cbn [orb].
          destruct (is_decimal_ascii d Hd) as (_ & _ & H95 & H58). apply Z.eqb_neq in H95. rewrite H95.
          change (48 + 10) with 58. rewrite H58. cbn [andb negb].
          rewrite next_step by assumption. cbn [sbind]. rewrite blen_nil, !Z.add_0_r.
          rewrite digits_stop by (try reflexivity; assumption). reflexivity.
        - destruct f as [|f]; [cbn in Hf; lia|]. cbn [digits app]. change (10 <=? 10) with true. cbv iota. rewrite Hd. cbn [orb].
          destruct (is_decimal_ascii d Hd) as (_ & _ & H95 & H58). apply Z.eqb_neq in H95. rewrite H95.
          change (48 + 10) with 58. rewrite H58. cbn [andb negb].
          inversion Hds as [|? ? Ha Hds']; subst. destruct (is_decimal_ascii a Ha) as (Haa & Ha10 & _ & _).
          rewrite next_step by assumption. cbn [sbind]. rewrite stepS_plain by assumption. change (Z.lor 1 1) with 1.
          rewrite IH by (try assumption; cbn in Hf; lia). rewrite blen_cons.
          replace (pos + 1 + blen ds) with (pos + (1 + blen ds)) by lia.
          replace (k + 1 + blen ds) with (k + (1 + blen ds)) by lia. reflexivity. }
      rewrite Hgen by (try assumption; cbn in Hf; lia). rewrite blen_cons.
      replace (pos + 1 + blen ds) with (pos + (1 + blen ds)) by lia.
      replace (k + 1 + blen ds) with (k + (1 + blen ds)) by lia. reflexivity.
  Qed.

  (** literal parts *)
  Definition frac_text (fp : option bytes) : bytes := match fp with Some f => 46 :: f | None => [] end.
  Definition exp_text (ex : option (Z * option Z * bytes)) : bytes :=
    match ex with
    | Some (e, sg, ds) => e :: (match sg with Some sg0 => [sg0] | None => [] end) ++ ds
    | None => []
    end.
  Definition digits1 (ds : bytes) : Prop := exists d0 t, ds = d0 :: t /\ is_decimal d0 = true /\ Forall (fun a => is_decimal a = true) t.
  Definition wf_frac (fp : option bytes) : Prop := match fp with Some f => digits1 f | None => True end.
  Definition wf_exp (ex : option (Z * option Z * bytes)) : Prop :=
    match ex with
    | Some (e, sg, ds) => (e = 101 \/ e = 69) /\ (match sg with Some sg0 => sg0 = 43 \/ sg0 = 45 | None => True end) /\ digits1 ds
    | None => True
    end.

  Definition pfx_ok (b p : Z) : Prop := (b = 10 /\ p = 0) \/ (b = 8 /\ p = 48).

  (** integer part followed by a character that is neither a digit nor '.' *)
  Lemma intpart_nodot : forall d0 t0 c1 r pos l k ll x ws,
    (length t0 + 1 < F)%nat -> is_decimal d0 = true -> Forall (fun a => is_decimal a = true) t0 -> (d0 <> 48 \/ t0 = []) ->
    stopc c1 -> c1 <> 46 -> lower c1 <> 120 -> lower c1 <> 111 -> lower c1 <> 98 ->
    exists b p, pfx_ok b p /\
      scan_intpart F d0 (mkS (t0 ++ c1 :: r) [d0] pos l k ll x ws)
      = SOk (b, p, 1, 0, c1, false, stepS c1 r (pos + blen t0) l (k + blen t0) ll x ws).
  Proof.
    intros d0 t0 c1 r pos l k ll x ws HF Hd Ht Hz Hst H46 Hx Ho Hb. pose proof Hst as (Hca & Hcd & Hc95).
    apply Z.eqb_neq in H46, Hx, Ho, Hb. unfold scan_intpart. destruct (d0 =? 48) eqn:E0.
    - destruct Hz as [Hz|Hz]; [apply Z.eqb_eq in E0; contradiction|]. subst t0. cbn [app].
      rewrite next_step by assumption. cbn [sbind]. rewrite Hx, Ho, Hb. cbn [sbind].
      rewrite digits_stop by (try reflexivity; assumption). cbn [sbind].
      rewrite H46. change (Z.lor 1 0) with 1. rewrite blen_nil, !Z.add_0_r. exists 8, 48. split; [right; auto|reflexivity].
    - cbn [sbind]. rewrite digits_any10 by (try assumption; lia).
      cbn [sbind]. rewrite H46. change (Z.lor 0 1) with 1. exists 10, 0. split; [left; auto|reflexivity].
  Qed.

  (** integer part followed by '.' and the character [c2] *)
  Lemma intpart_dot : forall d0 t0 c2 r pos l k ll x ws,
    (length t0 + 1 < F)%nat -> is_decimal d0 = true -> Forall (fun a => is_decimal a = true) t0 -> (d0 <> 48 \/ t0 = []) ->
    ascii c2 ->
    exists b p, pfx_ok b p /\
      scan_intpart F d0 (mkS (t0 ++ 46 :: c2 :: r) [d0] pos l k ll x ws)
      = SOk (b, p, 1, 0, c2, true, stepS c2 r (pos + blen t0 + 1) l (k + blen t0 + 1) ll x ws).
  Proof.
    intros d0 t0 c2 r pos l k ll x ws HF Hd Ht Hz Hc2.
    assert (H46 : stopc 46) by (repeat split; try reflexivity; unfold ascii; lia).
    unfold scan_intpart. destruct (d0 =? 48) eqn:E0.
    - destruct Hz as [Hz|Hz]; [apply Z.eqb_eq in E0; contradiction|]. subst t0. cbn [app].
      rewrite next_step by (unfold ascii; lia). cbn [sbind]. change (lower 46 =? 120) with false. change (lower 46 =? 111) with false.
      change (lower 46 =? 98) with false. cbn [sbind]. rewrite stepS_plain by discriminate.
      rewrite digits_stop by (try reflexivity; discriminate). cbn [sbind]. change (46 =? 46) with true. cbv iota.
      rewrite next_step by assumption. cbn [sbind]. change (Z.lor 1 0) with 1. rewrite blen_nil, !Z.add_0_r.
      exists 8, 48. split; [right; auto|reflexivity].
    - cbn [sbind]. rewrite digits_any10 by (try assumption; lia). cbn [sbind]. change (46 =? 46) with true. cbv iota.
      rewrite stepS_plain by discriminate. rewrite next_step by assumption. cbn [sbind]. change (Z.lor 0 1) with 1.
      exists 10, 0. split; [left; auto|reflexivity].
  Qed.

  Lemma fraction_run : forall b p f0 ft c r last pos l k ll x ws,
    pfx_ok b p -> (length ft + 1 < F)%nat -> is_decimal f0 = true -> Forall (fun a => is_decimal a = true) ft -> stopc c ->
    exists inv', scan_fraction F b p 1 0 f0 true (mkS (ft ++ c :: r) last pos l k ll x ws)
                 = SOk (TFloat, 1, inv', c, stepS c r (pos + blen ft) l (k + blen ft) ll x ws).
  Proof.
    intros b p f0 ft c r last pos l k ll x ws Hp HF Hd Ht Hc. unfold scan_fraction.
    assert (Eb : (b <=? 10) = true) by (destruct Hp as [(-> & _)|(-> & _)]; reflexivity).
    assert (Ep : ((p =? 111) || (p =? 98)) = false) by (destruct Hp as [(_ & ->)|(_ & ->)]; reflexivity).
    rewrite Ep. destruct (digits_any ft F f0 c r last pos l k ll x ws b 0 0 Eb ltac:(lia) Hd Ht Hc) as (inv' & E).
    rewrite E. cbn [sbind]. change (Z.lor 1 (Z.lor 0 1)) with 1. exists inv'. reflexivity.
  Qed.

  Lemma exponent_none : forall p tok ds c s, (p = 0 \/ p = 48) -> lower c <> 101 -> lower c <> 112 ->
    scan_exponent F p tok ds c s = SOk (tok, ds, c, s).
  Proof.
    intros p tok ds c s Hp He Hpp. unfold scan_exponent. apply Z.eqb_neq in He, Hpp. rewrite He, Hpp. cbn [orb].
    assert (E : (p =? 120) = false) by (destruct Hp as [-> | ->]; reflexivity). rewrite E. reflexivity.
  Qed.

  Lemma exponent_run : forall p tok e sg d0 dt c r last pos l k ll x ws,
    (p = 0 \/ p = 48) -> (e = 101 \/ e = 69) -> (match sg with Some sg0 => sg0 = 43 \/ sg0 = 45 | None => True end) ->
    (length dt + 3 < F)%nat -> is_decimal d0 = true -> Forall (fun a => is_decimal a = true) dt -> stopc c ->
    scan_exponent F p tok 1 e (mkS ((match sg with Some sg0 => [sg0] | None => [] end) ++ (d0 :: dt) ++ c :: r) last pos l k ll x ws)
    = SOk (TFloat, 1, c, stepS c r (pos + blen (match sg with Some sg0 => [sg0] | None => [] end) + blen (d0 :: dt))
                               l (k + blen (match sg with Some sg0 => [sg0] | None => [] end) + blen (d0 :: dt)) ll x ws).
  Proof.
    intros p tok e sg d0 dt c r last pos l k ll x ws Hp He Hsg HF Hd Hdt Hc. unfold scan_exponent.
    assert (E1 : (lower e =? 101) = true) by (destruct He as [-> | ->]; reflexivity).
    assert (E2 : (lower e =? 112) = false) by (destruct He as [-> | ->]; reflexivity).
    rewrite E1, E2. cbn [orb andb].
    assert (E3 : (negb (p =? 0) && negb (p =? 48)) = false) by (destruct Hp as [-> | ->]; reflexivity). rewrite E3.
    destruct (is_decimal_ascii d0 Hd) as (Ha0 & H10 & _ & _).
    destruct sg as [sg0|]; cbn [app].
    - assert (Hsa : ascii sg0 /\ sg0 <> 10 /\ ((sg0 =? 43) || (sg0 =? 45)) = true) by (destruct Hsg as [-> | ->]; repeat split; try reflexivity; try discriminate; unfold ascii; lia).
      destruct Hsa as (Hsa & Hs10 & Es). rewrite next_step by assumption. cbn [sbind]. rewrite Es.
      rewrite stepS_plain by assumption. rewrite next_step by assumption. cbn [sbind]. rewrite stepS_plain by assumption.
      rewrite digits_any10 by (try assumption; lia). cbn [sbind]. change (Z.land 1 1 =? 0) with false. cbv iota.
      change (Z.lor 1 1) with 1. change (blen [sg0]) with 1. rewrite blen_cons. f_equal. f_equal. apply stepS_eq0; lia.
    - rewrite next_step by assumption. cbn [sbind].
      assert (En : ((d0 =? 43) || (d0 =? 45)) = false).
      { unfold is_decimal in Hd. apply andb_true_iff in Hd. destruct Hd. apply orb_false_iff. split; apply Z.eqb_neq; lia. }
      rewrite En. cbn [sbind]. rewrite stepS_plain by assumption.
      rewrite digits_any10 by (try assumption; lia). cbn [sbind]. change (Z.land 1 1 =? 0) with false. cbv iota.
      change (Z.lor 1 1) with 1. change (blen []) with 0. rewrite blen_cons. f_equal. f_equal. apply stepS_eq0; lia.
  Qed.

  Definition lit_tail (t0 : bytes) (fp : option bytes) (ex : option (Z * option Z * bytes)) : bytes :=
    t0 ++ frac_text fp ++ exp_text ex.

  Lemma stopc_e : forall e, e = 101 \/ e = 69 -> stopc e /\ e <> 46 /\ lower e <> 120 /\ lower e <> 111 /\ lower e <> 98 /\ e <> 10.
  Proof. intros e [-> | ->]; repeat split; try reflexivity; try discriminate; unfold ascii; lia. Qed.

  (** the state and token after a number scan, shared by the cases below *)
  Lemma scan_body_finish : forall (tok : Z) d0 L c r pos l k ll x ws P' K' src0 tp,
    0 < k -> P' = pos + blen L -> K' = k + blen L -> src0 = (d0 :: L) ++ c :: r -> tp = pos - 1 ->
    SOk ({| t_typ := tok; t_pos := {| p_line := l; p_column := k; p_offset := tp |};
            t_txt := firstn (Z.to_nat (s_pos (stepS c r P' l K' ll x ws) - blen (s_last (stepS c r P' l K' ll x ws)) - tp)) src0 |},
         set_ch (stepS c r P' l K' ll x ws) c)
    = SOk ({| t_typ := tok; t_pos := {| p_line := l; p_column := k; p_offset := pos - 1 |}; t_txt := d0 :: L |},
           stepS c r (pos + blen L) l (k + blen L) ll c ws).
  Proof.
    intros tok d0 L c r pos l k ll x ws P' K' src0 tp Hk -> -> -> ->.
    rewrite stepS_pos, stepS_last, set_ch_stepS.
    replace (pos + blen L + 1 - 1 - (pos - 1)) with (Z.of_nat (S (length L))) by (unfold blen; lia).
    rewrite Nat2Z.id. rewrite firstn_app_exact by reflexivity. reflexivity.
  Qed.

  (** scanning a decimal literal: integer part [d0 :: t0], optional fraction, optional exponent *)
  Ltac nf_app := repeat (first [rewrite <- app_assoc | progress cbn [app]]).
  Ltac nf_app_in H := repeat (first [rewrite <- app_assoc in H | progress cbn [app] in H]).

  (** the token type of a literal: scanner.Int exactly when it has neither fraction nor exponent *)
  Definition lit_typ (fp : option bytes) (ex : option (Z * option Z * bytes)) : Z :=
    match fp, ex with None, None => TInt | _, _ => TFloat end.

  Lemma scan_body_literal_typ : forall d0 t0 fp ex c r pos l k ll x ws,
    (length (lit_tail t0 fp ex) + 4 < F)%nat -> 0 < k ->
    is_decimal d0 = true -> Forall (fun a => is_decimal a = true) t0 -> (d0 <> 48 \/ t0 = []) ->
    wf_frac fp -> wf_exp ex -> numterm c ->
      scan_body d0 (mkS (lit_tail t0 fp ex ++ c :: r) [d0] pos l k ll x ws)
      = SOk ({| t_typ := lit_typ fp ex; t_pos := {| p_line := l; p_column := k; p_offset := pos - 1 |}; t_txt := d0 :: lit_tail t0 fp ex |},
             stepS c r (pos + blen (lit_tail t0 fp ex)) l (k + blen (lit_tail t0 fp ex)) ll c ws).
  Proof.
    intros d0 t0 fp ex c r pos l k ll x ws HF Hk Hd Ht Hz Hfp Hex Hc.
    destruct fp as [f|], ex as [[[e sg] ds]|]; unfold lit_tail in *; cbn [frac_text exp_text app lit_typ] in *.
    4: { rewrite app_nil_r in *. apply scan_body_uint; try assumption. lia. }
    all: destruct (is_decimal_ascii d0 Hd) as (Ha0 & _ & _ & _).
    all: unfold scan_body; rewrite (ident_rune_first d0 Ha0), (decimal_not_id0 d0 Hd), Hd.
    all: cbn [s_last s_rest s_pos s_col s_line mkS].
    all: assert (Ek : (0 <? k) = true) by (apply Z.ltb_lt; lia); rewrite Ek.
    all: pose proof Hc as (Hca & Hcd & Hc95 & Hc46 & Hce & Hcp & _); pose proof (numterm_stopc c Hc) as Hcs.
    all: unfold scan_number.
    - (* fraction and exponent *)
      destruct Hfp as (f0 & ft & -> & Hf0 & Hft). destruct Hex as (He & Hsg & (x0 & xt & -> & Hx0 & Hxt)).
      destruct (stopc_e e He) as (Hes & _ & _ & _ & _ & He10). destruct (is_decimal_ascii f0 Hf0) as (Hfa & Hf10 & _ & _).
      repeat (rewrite app_length in HF || cbn [length] in HF).
      nf_app.
      destruct (intpart_dot d0 t0 f0 (ft ++ e :: (match sg with Some sg0 => [sg0] | None => [] end) ++ (x0 :: xt) ++ c :: r)
                  pos l k ll x ws ltac:(lia) Hd Ht Hz Hfa) as (b & p & Hp & E1).
      nf_app_in E1. nf_app. rewrite E1. cbn [sbind].
      rewrite stepS_plain by assumption.
      destruct (fraction_run b p f0 ft e ((match sg with Some sg0 => [sg0] | None => [] end) ++ (x0 :: xt) ++ c :: r) [f0]
                  (pos + blen t0 + 1 + 1) l (k + blen t0 + 1 + 1) ll x ws Hp ltac:(lia) Hf0 Hft Hes) as (inv' & E2).
      nf_app_in E2. rewrite E2. cbn [sbind]. change (Z.land 1 1 =? 0) with false. cbv iota.
      rewrite stepS_plain by assumption.
      assert (Hp' : p = 0 \/ p = 48) by (destruct Hp as [(_ & ->)|(_ & ->)]; auto).
      pose proof (exponent_run p TFloat e sg x0 xt c r [e] (pos + blen t0 + 1 + 1 + blen ft + 1) l (k + blen t0 + 1 + 1 + blen ft + 1) ll x ws
                    Hp' He Hsg ltac:(lia) Hx0 Hxt Hcs) as E3.
      nf_app_in E3. rewrite E3. cbn [sbind].
      change (TFloat =? TInt) with false. cbn [andb]. change (Z.land 1 2 =? 0) with true. cbn [negb andb].
      apply (scan_body_finish TFloat d0 (t0 ++ 46 :: f0 :: ft ++ e :: (match sg with Some sg0 => [sg0] | None => [] end) ++ x0 :: xt));
        [exact Hk| | |nf_app; reflexivity|change (blen [d0]) with 1; reflexivity];
        repeat (rewrite blen_app || rewrite blen_cons); destruct sg; rewrite ?blen_nil; lia.
    - (* fraction only *)
      destruct Hfp as (f0 & ft & -> & Hf0 & Hft). destruct (is_decimal_ascii f0 Hf0) as (Hfa & Hf10 & _ & _).
      repeat (rewrite app_length in HF || cbn [length] in HF). rewrite app_nil_r in *.
      nf_app.
      destruct (intpart_dot d0 t0 f0 (ft ++ c :: r) pos l k ll x ws ltac:(lia) Hd Ht Hz Hfa) as (b & p & Hp & E1).
      rewrite E1. cbn [sbind]. rewrite stepS_plain by assumption.
      destruct (fraction_run b p f0 ft c r [f0] (pos + blen t0 + 1 + 1) l (k + blen t0 + 1 + 1) ll x ws Hp ltac:(lia) Hf0 Hft Hcs) as (inv' & E2).
      rewrite E2. cbn [sbind]. change (Z.land 1 1 =? 0) with false. cbv iota.
      assert (Hp' : p = 0 \/ p = 48) by (destruct Hp as [(_ & ->)|(_ & ->)]; auto).
      rewrite exponent_none by assumption. cbn [sbind].
      change (TFloat =? TInt) with false. cbn [andb]. change (Z.land 1 2 =? 0) with true. cbn [negb andb].
      apply (scan_body_finish TFloat d0 (t0 ++ 46 :: f0 :: ft));
        [exact Hk| | |nf_app; reflexivity|change (blen [d0]) with 1; reflexivity];
        repeat (rewrite blen_app || rewrite blen_cons); lia.
    - (* exponent only *)
      destruct Hex as (He & Hsg & (x0 & xt & -> & Hx0 & Hxt)).
      destruct (stopc_e e He) as (Hes & He46 & Hex' & Heo & Heb & He10).
      repeat (rewrite app_length in HF || cbn [length] in HF).
      nf_app.
      destruct (intpart_nodot d0 t0 e ((match sg with Some sg0 => [sg0] | None => [] end) ++ (x0 :: xt) ++ c :: r) pos l k ll x ws
                  ltac:(lia) Hd Ht Hz Hes He46 Hex' Heo Heb) as (b & p & Hp & E1).
      nf_app_in E1. rewrite E1. cbn [sbind].
      unfold scan_fraction. cbn [sbind]. change (Z.land 1 1 =? 0) with false. cbv iota.
      rewrite stepS_plain by assumption.
      assert (Hp' : p = 0 \/ p = 48) by (destruct Hp as [(_ & ->)|(_ & ->)]; auto).
      pose proof (exponent_run p TInt e sg x0 xt c r [e] (pos + blen t0 + 1) l (k + blen t0 + 1) ll x ws
                    Hp' He Hsg ltac:(lia) Hx0 Hxt Hcs) as E3.
      nf_app_in E3. rewrite E3. cbn [sbind].
      change (TFloat =? TInt) with false. cbn [andb]. change (Z.land 1 2 =? 0) with true. cbn [negb andb].
      apply (scan_body_finish TFloat d0 (t0 ++ e :: (match sg with Some sg0 => [sg0] | None => [] end) ++ x0 :: xt));
        [exact Hk| | |nf_app; reflexivity|change (blen [d0]) with 1; reflexivity];
        repeat (rewrite blen_app || rewrite blen_cons); destruct sg; rewrite ?blen_nil; lia.
  Qed.

  Lemma lit_typ_cases : forall fp ex, lit_typ fp ex = TInt \/ lit_typ fp ex = TFloat.
  Proof. intros [f|] [[[e sg] ds]|]; cbn [lit_typ]; auto. Qed.

  Lemma scan_body_literal : forall d0 t0 fp ex c r pos l k ll x ws,
    (length (lit_tail t0 fp ex) + 4 < F)%nat -> 0 < k ->
    is_decimal d0 = true -> Forall (fun a => is_decimal a = true) t0 -> (d0 <> 48 \/ t0 = []) ->
    wf_frac fp -> wf_exp ex -> numterm c ->
    exists typ, (typ = TInt \/ typ = TFloat) /\
      scan_body d0 (mkS (lit_tail t0 fp ex ++ c :: r) [d0] pos l k ll x ws)
      = SOk ({| t_typ := typ; t_pos := {| p_line := l; p_column := k; p_offset := pos - 1 |}; t_txt := d0 :: lit_tail t0 fp ex |},
             stepS c r (pos + blen (lit_tail t0 fp ex)) l (k + blen (lit_tail t0 fp ex)) ll c ws).
  Proof.
    intros. exists (lit_typ fp ex). split; [apply lit_typ_cases|]. apply scan_body_literal_typ; assumption.
  Qed.
End WithOracle.
