(** Scanner-level lemmas for the round trip (C04): scanning a printed ASCII token that is followed by
    a separator yields exactly that token, its position, and the scanner state after the separator.
    States are written with the constructor abbreviation [mkS]; [x] is the (irrelevant) stale value
    of the field [s_ch] during a scan. *)
From Coq Require Import ZArith List Bool Lia.
From CanVerif Require Import Dbc.Ast Dbc.Scanner Dbc.ScannerInv.
Import ListNotations.
Open Scope Z_scope.

Definition mkS (rest last : bytes) (pos line col ll ch ws : Z) : sstate :=
  {| s_rest := rest; s_last := last; s_pos := pos; s_line := line; s_col := col; s_lastlinelen := ll;
     s_ch := ch; s_ws := ws |}.

Definition ascii (b : Z) : Prop := 0 < b < 128.

(** the state after reading the ASCII character [c] *)
Definition stepS (c : Z) (r : bytes) (pos l k ll x ws : Z) : sstate :=
  if c =? 10 then mkS r [10] (pos + 1) (l + 1) 0 (k + 1) x ws
  else mkS r [c] (pos + 1) l (k + 1) ll x ws.

Lemma next_step : forall c r last pos l k ll x ws, ascii c ->
  sc_next (mkS (c :: r) last pos l k ll x ws) = SOk (c, stepS c r pos l k ll x ws).
Proof.
  intros c r last pos l k ll x ws Hc. unfold sc_next, mkS, stepS. cbn [s_rest].
  assert (E1 : (c <? 128) = true) by (apply Z.ltb_lt; unfold ascii in Hc; lia). rewrite E1.
  assert (E2 : (c =? rune_error) = false) by (apply Z.eqb_neq; unfold rune_error, ascii in *; lia). rewrite E2.
  assert (E3 : (c =? 0) = false) by (apply Z.eqb_neq; unfold ascii in *; lia). rewrite E3.
  cbn [andb]. change (Z.to_nat 1) with 1%nat. cbn [skipn firstn s_rest s_last s_pos s_line s_col s_lastlinelen s_ch s_ws].
  destruct (c =? 10) eqn:E4.
  - apply Z.eqb_eq in E4. subst c. reflexivity.
  - reflexivity.
Qed.

Lemma next_eof : forall last pos l k ll x ws,
  sc_next (mkS [] last pos l k ll x ws) = SOk (EOF, mkS [] [] pos l (if 0 <? blen last then k + 1 else k) ll x ws).
Proof. reflexivity. Qed.

Lemma stepS_plain : forall c r pos l k ll x ws, c <> 10 -> stepS c r pos l k ll x ws = mkS r [c] (pos + 1) l (k + 1) ll x ws.
Proof. intros. unfold stepS. apply Z.eqb_neq in H. rewrite H. reflexivity. Qed.

Lemma stepS_last : forall c r pos l k ll x ws, blen (s_last (stepS c r pos l k ll x ws)) = 1.
Proof. intros. unfold stepS. destruct (c =? 10); reflexivity. Qed.

Lemma stepS_pos : forall c r pos l k ll x ws, s_pos (stepS c r pos l k ll x ws) = pos + 1.
Proof. intros. unfold stepS. destruct (c =? 10); reflexivity. Qed.

Lemma stepS_ws : forall c r pos l k ll x ws, s_ws (stepS c r pos l k ll x ws) = ws.
Proof. intros. unfold stepS. destruct (c =? 10); reflexivity. Qed.

Lemma set_ch_stepS : forall c r pos l k ll x ws y, set_ch (stepS c r pos l k ll x ws) y = stepS c r pos l k ll y ws.
Proof. intros. unfold stepS. destruct (c =? 10); reflexivity. Qed.

(** ASCII identifier characters *)
Definition idc (c : Z) : bool := (c =? 95) || ascii_letter c || is_decimal c.
Definition id0 (c : Z) : bool := (c =? 95) || ascii_letter c.

Lemma idc_ascii : forall c, idc c = true -> ascii c /\ c <> 10.
Proof.
  intros c H. unfold idc, ascii_letter, is_decimal, ascii in *.
  repeat (apply orb_true_iff in H; destruct H as [H|H]); try (apply andb_true_iff in H; destruct H); lia.
Qed.

Lemma id0_idc : forall c, id0 c = true -> idc c = true.
Proof. intros c H. unfold id0, idc in *. rewrite H. reflexivity. Qed.

Section WithOracle.
  Variable il id : Z -> bool.
  Variable F : nat.

  Lemma ident_rune_later : forall c, ascii c -> is_ident_rune il id c true = idc c.
  Proof.
    intros c Hc. unfold is_ident_rune, uni_letter, uni_digit, idc, ascii in *.
    assert (E1 : (c <? 0) = false) by (apply Z.ltb_ge; lia).
    assert (E2 : (c <? 128) = true) by (apply Z.ltb_lt; lia). rewrite E1, E2.
    destruct (c =? 95), (ascii_letter c), (is_decimal c); reflexivity.
  Qed.

  Lemma ident_rune_first : forall c, ascii c -> is_ident_rune il id c false = id0 c.
  Proof.
    intros c Hc. unfold is_ident_rune, uni_letter, uni_digit, id0, ascii in *.
    assert (E1 : (c <? 0) = false) by (apply Z.ltb_ge; lia).
    assert (E2 : (c <? 128) = true) by (apply Z.ltb_lt; lia). rewrite E1, E2.
    destruct (c =? 95), (ascii_letter c), (is_decimal c); reflexivity.
  Qed.

  (** the part of Scan after the whitespace has been skipped *)
  Definition scan_body (ch : Z) (s : sstate) : sres (token * sstate) :=
    let src0 := s_last s ++ s_rest s in
    let tokpos := s_pos s - blen (s_last s) in
    let pos :=
      if 0 <? s_col s then {| p_line := s_line s; p_column := s_col s; p_offset := tokpos |}
      else {| p_line := s_line s - 1; p_column := s_lastlinelen s; p_offset := tokpos |} in
    slet (tok, ch', s') <-
      (if is_ident_rune il id ch false then
         slet (c, s') <- scan_identifier il id F s; SOk (TIdent, c, s')
       else if is_decimal ch then scan_number F src0 tokpos ch false s
       else if ch =? EOF then SOk (ch, ch, s)
       else if ch =? 46 then
         slet (c, s') <- sc_next s;
         if is_decimal c then scan_number F src0 tokpos c true s' else SOk (ch, c, s')
       else
         slet (c, s') <- sc_next s; SOk (ch, c, s'));
    let tokend := s_pos s' - blen (s_last s') in
    SOk ({| t_typ := tok; t_pos := pos; t_txt := firstn (Z.to_nat (tokend - tokpos)) src0 |}, set_ch s' ch').

  Lemma sc_scan_unfold : forall s,
    sc_scan il id F s = slet (ch, s1) <- sc_peek s; slet (ch2, s2) <- skip_ws F ch s1; scan_body ch2 s2.
  Proof. reflexivity. Qed.

  (** a pending non-whitespace character: Scan goes straight to the body *)
  Lemma sc_scan_direct : forall s, s_ch s <> NOCHAR -> is_ws (s_ws s) (s_ch s) = false ->
    sc_scan il id F s = scan_body (s_ch s) s.
  Proof.
    intros s Hn Hw. rewrite sc_scan_unfold. unfold sc_peek. apply Z.eqb_neq in Hn. rewrite Hn. cbn [sbind].
    destruct F; cbn [skip_ws]; rewrite Hw; reflexivity.
  Qed.

  (** one pending whitespace character followed by a non-whitespace ASCII character *)
  Lemma sc_scan_skip1 : forall w c r last pos l k ll ws, (1 <= F)%nat ->
    is_ws ws w = true -> ascii c -> is_ws ws c = false ->
    sc_scan il id F (mkS (c :: r) last pos l k ll w ws) = scan_body c (stepS c r pos l k ll w ws).
  Proof.
    intros w c r last pos l k ll ws HF Hw Hc Hnw. rewrite sc_scan_unfold. unfold sc_peek. cbn [s_ch mkS].
    assert (E : (w =? NOCHAR) = false).
    { apply Z.eqb_neq. intros ->. unfold is_ws, NOCHAR in Hw. discriminate Hw. }
    rewrite E. cbn [sbind]. destruct F as [|f]; [lia|]. cbn [skip_ws]. cbn [s_ws mkS]. rewrite Hw.
    fold (mkS (c :: r) last pos l k ll w ws). rewrite next_step by assumption. cbn [sbind].
    destruct f; cbn [skip_ws]; rewrite stepS_ws, Hnw; reflexivity.
  Qed.

  (** ---------------------------------------------------------- identifiers *)

  Lemma ident_loop_run : forall t f c1 c r last pos l k ll x ws,
    (length t < f)%nat -> Forall (fun a => idc a = true) t -> idc c1 = true ->
    ascii c -> idc c = false ->
    scan_ident_loop il id f c1 (mkS (t ++ c :: r) last pos l k ll x ws)
    = SOk (c, stepS c r (pos + blen t) l (k + blen t) ll x ws).
  Proof.
    induction t as [|a t IH]; intros f c1 c r last pos l k ll x ws Hf Ht Hc1 Hc Hnc.
    - destruct f as [|f]; [cbn in Hf; lia|]. cbn [scan_ident_loop app].
      rewrite (ident_rune_later c1) by (apply idc_ascii; assumption). rewrite Hc1.
      rewrite next_step by assumption. cbn [sbind].
      rewrite blen_nil, !Z.add_0_r.
      destruct f; cbn [scan_ident_loop]; rewrite (ident_rune_later c Hc), Hnc; reflexivity.
    - destruct f as [|f]; [cbn in Hf; lia|]. cbn [scan_ident_loop app].
      rewrite (ident_rune_later c1) by (apply idc_ascii; assumption). rewrite Hc1.
      inversion Ht as [|? ? Ha Ht']; subst. destruct (idc_ascii a Ha) as (Haa & Ha10).
      rewrite next_step by assumption. cbn [sbind]. rewrite stepS_plain by assumption.
      rewrite (IH f a c r [a] (pos + 1) l (k + 1) ll x ws); try assumption; [|cbn in Hf; lia].
      rewrite blen_cons. f_equal. f_equal. f_equal; lia.
  Qed.

  Lemma firstn_app_exact : forall (a b : bytes) n, n = length a -> firstn n (a ++ b) = a.
  Proof. intros a b n ->. rewrite firstn_app, Nat.sub_diag, firstn_all. cbn. apply app_nil_r. Qed.

  (** scanning the identifier [c0 :: t] that is followed by the ASCII non-identifier character [c] *)
  Lemma scan_body_ident : forall c0 t c r pos l k ll x ws,
    (length t + 1 < F)%nat -> 0 < k -> id0 c0 = true -> Forall (fun a => idc a = true) t ->
    ascii c -> idc c = false ->
    scan_body c0 (mkS (t ++ c :: r) [c0] pos l k ll x ws)
    = SOk ({| t_typ := TIdent; t_pos := {| p_line := l; p_column := k; p_offset := pos - 1 |}; t_txt := c0 :: t |},
           stepS c r (pos + blen t) l (k + blen t) ll c ws).
  Proof.
    intros c0 t c r pos l k ll x ws HF Hk H0 Ht Hc Hnc. unfold scan_body.
    assert (Ha0 : ascii c0) by (apply idc_ascii, id0_idc; assumption).
    rewrite (ident_rune_first c0 Ha0), H0. unfold scan_identifier.
    cbn [s_last s_rest s_pos s_col s_line mkS].
    assert (Ek : (0 <? k) = true) by (apply Z.ltb_lt; lia). rewrite Ek.
    destruct t as [|a t].
    - cbn [app]. fold (mkS (c :: r) [c0] pos l k ll x ws). rewrite next_step by assumption. cbn [sbind].
      destruct F as [|f]; [lia|]. cbn [scan_ident_loop]. rewrite (ident_rune_later c Hc), Hnc. cbn [sbind].
      rewrite stepS_pos, stepS_last, set_ch_stepS, blen_nil, !Z.add_0_r.
      change (blen [c0]) with 1. replace (pos + 1 - 1 - (pos - 1)) with 1 by lia. reflexivity.
    - inversion Ht as [|? ? Ha Ht']; subst. destruct (idc_ascii a Ha) as (Haa & Ha10).
      cbn [app]. fold (mkS (a :: t ++ c :: r) [c0] pos l k ll x ws). rewrite next_step by assumption. cbn [sbind].
      rewrite stepS_plain by assumption.
      rewrite (ident_loop_run t F a c r [a] (pos + 1) l (k + 1) ll x ws); try assumption; [|cbn in HF; lia].
      cbn [sbind]. rewrite stepS_pos, stepS_last, set_ch_stepS. change (blen [c0]) with 1.
      rewrite blen_cons.
      replace (pos + 1 + blen t + 1 - 1 - (pos - 1)) with (Z.of_nat (S (S (length t)))) by (unfold blen; lia).
      rewrite Nat2Z.id. change (c0 :: a :: t ++ c :: r) with ((c0 :: a :: t) ++ c :: r).
      rewrite firstn_app_exact by reflexivity.
      f_equal. f_equal. f_equal; lia.
  Qed.

  (** ---------------------------------------------------------- single characters, EOF *)

  Definition tpos (pos l k ll : Z) : position :=
    if 0 <? k then {| p_line := l; p_column := k; p_offset := pos - 1 |}
    else {| p_line := l - 1; p_column := ll; p_offset := pos - 1 |}.

  Definition punct (p : Z) : Prop := ascii p /\ id0 p = false /\ is_decimal p = false /\ p <> 46.

  Lemma punct_not_eof : forall p, ascii p -> (p =? EOF) = false.
  Proof. intros p H. apply Z.eqb_neq. unfold ascii, EOF in *. lia. Qed.

  Lemma scan_body_punct : forall p c r pos l k ll x ws, punct p -> ascii c ->
    scan_body p (mkS (c :: r) [p] pos l k ll x ws)
    = SOk ({| t_typ := p; t_pos := tpos pos l k ll; t_txt := [p] |}, stepS c r pos l k ll c ws).
  Proof.
    intros p c r pos l k ll x ws (Hp & Hi & Hd & H46) Hc. unfold scan_body.
    rewrite (ident_rune_first p Hp), Hi, Hd, (punct_not_eof p Hp).
    apply Z.eqb_neq in H46. rewrite H46. rewrite next_step by assumption. cbn [sbind].
    rewrite stepS_pos, stepS_last, set_ch_stepS. cbn [s_last s_rest s_pos s_col s_line s_lastlinelen mkS].
    change (blen [p]) with 1. replace (pos + 1 - 1 - (pos - 1)) with 1 by lia.
    change (Z.to_nat 1) with 1%nat. cbn [app firstn]. unfold tpos. reflexivity.
  Qed.

  Lemma scan_body_punct_eof : forall p pos l k ll x ws, punct p ->
    scan_body p (mkS [] [p] pos l k ll x ws)
    = SOk ({| t_typ := p; t_pos := tpos pos l k ll; t_txt := [p] |}, mkS [] [] pos l (k + 1) ll EOF ws).
  Proof.
    intros p pos l k ll x ws (Hp & Hi & Hd & H46). unfold scan_body.
    rewrite (ident_rune_first p Hp), Hi, Hd, (punct_not_eof p Hp).
    apply Z.eqb_neq in H46. rewrite H46. rewrite next_eof. cbn [sbind].
    cbn [s_last s_rest s_pos s_col s_line s_lastlinelen mkS set_ch]. change (blen [p]) with 1. change (blen []) with 0.
    change (0 <? 1) with true. cbv iota. replace (pos - 0 - (pos - 1)) with 1 by lia.
    change (Z.to_nat 1) with 1%nat. cbn [app firstn]. unfold tpos. reflexivity.
  Qed.

  Lemma scan_body_eof : forall pos l k ll x ws,
    scan_body EOF (mkS [] [] pos l k ll x ws)
    = SOk ({| t_typ := EOF;
              t_pos := if 0 <? k then {| p_line := l; p_column := k; p_offset := pos - 0 |}
                       else {| p_line := l - 1; p_column := ll; p_offset := pos - 0 |};
              t_txt := [] |}, mkS [] [] pos l k ll EOF ws).
  Proof.
    intros. unfold scan_body. rewrite ident_rune_eof. change (is_decimal EOF) with false. change (EOF =? EOF) with true.
    cbv iota. cbn [sbind s_last s_rest s_pos s_col s_line s_lastlinelen mkS set_ch]. change (blen []) with 0.
    replace (pos - 0 - (pos - 0)) with 0 by lia. reflexivity.
  Qed.

  (** ---------------------------------------------------------- decimal unsigned integers *)

  (** a character that ends a decimal literal without becoming part of it *)
  Definition numterm (c : Z) : Prop :=
    ascii c /\ is_decimal c = false /\ c <> 95 /\ c <> 46 /\ lower c <> 101 /\ lower c <> 112
    /\ lower c <> 120 /\ lower c <> 111 /\ lower c <> 98.

  Lemma is_decimal_ascii : forall d, is_decimal d = true -> ascii d /\ d <> 10 /\ d <> 95 /\ (58 <=? d) = false.
  Proof.
    intros d H. unfold is_decimal, ascii in *. apply andb_true_iff in H. destruct H.
    repeat split; lia.
  Qed.

  Lemma digits_run : forall ds f d c r last pos l k ll x ws digsep,
    (length ds < f)%nat -> is_decimal d = true -> Forall (fun a => is_decimal a = true) ds -> numterm c ->
    digits f d 10 0 digsep (mkS (ds ++ c :: r) last pos l k ll x ws)
    = SOk (c, Z.lor digsep 1, 0, stepS c r (pos + blen ds) l (k + blen ds) ll x ws).
  Proof.
    induction ds as [|a ds IH]; intros f d c r last pos l k ll x ws digsep Hf Hd Hds Hc.
    - destruct f as [|f]; [cbn in Hf; lia|]. cbn [digits app]. change (10 <=? 10) with true. cbv iota.
      rewrite Hd. cbn [orb]. destruct (is_decimal_ascii d Hd) as (_ & _ & H95 & H58).
      apply Z.eqb_neq in H95. rewrite H95. change (48 + 10) with 58. rewrite H58. cbn [andb negb].
      destruct Hc as (Hca & Hcd & Hc95 & _). rewrite next_step by assumption. cbn [sbind].
      rewrite blen_nil, !Z.add_0_r.
      apply Z.eqb_neq in Hc95.
      destruct f; cbn [digits]; change (10 <=? 10) with true; cbv iota; rewrite Hcd, Hc95; reflexivity.
    - destruct f as [|f]; [cbn in Hf; lia|]. cbn [digits app]. change (10 <=? 10) with true. cbv iota.
      rewrite Hd. cbn [orb]. destruct (is_decimal_ascii d Hd) as (_ & _ & H95 & H58).
      apply Z.eqb_neq in H95. rewrite H95. change (48 + 10) with 58. rewrite H58. cbn [andb negb].
      inversion Hds as [|? ? Ha Hds']; subst. destruct (is_decimal_ascii a Ha) as (Haa & Ha10 & _ & _).
      rewrite next_step by assumption. cbn [sbind]. rewrite stepS_plain by assumption.
      rewrite (IH f a c r [a] (pos + 1) l (k + 1) ll x ws (Z.lor digsep 1)); try assumption; [|cbn in Hf; lia].
      rewrite blen_cons. rewrite <- Z.lor_assoc. change (Z.lor 1 1) with 1.
      replace (pos + 1 + blen ds) with (pos + (1 + blen ds)) by lia.
      replace (k + 1 + blen ds) with (k + (1 + blen ds)) by lia. reflexivity.
  Qed.

  Lemma decimal_not_id0 : forall d, is_decimal d = true -> id0 d = false.
  Proof.
    intros d H. unfold is_decimal, id0, ascii_letter in *. apply andb_true_iff in H. destruct H.
    apply orb_false_iff. split; [lia|]. apply orb_false_iff. split; apply andb_false_iff; lia.
  Qed.

  Lemma numterm_flags : forall c, numterm c ->
    (c =? 46) = false /\ (lower c =? 101) = false /\ (lower c =? 112) = false /\ (lower c =? 120) = false
    /\ (lower c =? 111) = false /\ (lower c =? 98) = false.
  Proof. intros c (_ & _ & _ & ? & ? & ? & ? & ? & ?). repeat split; apply Z.eqb_neq; assumption. Qed.

  (** scanning the decimal literal [d0 :: t] (no leading zero unless it is "0") followed by [c] *)
  Lemma scan_body_uint : forall d0 t c r pos l k ll x ws,
    (length t + 1 < F)%nat -> 0 < k -> is_decimal d0 = true -> Forall (fun a => is_decimal a = true) t ->
    (d0 <> 48 \/ t = []) -> numterm c ->
    scan_body d0 (mkS (t ++ c :: r) [d0] pos l k ll x ws)
    = SOk ({| t_typ := TInt; t_pos := {| p_line := l; p_column := k; p_offset := pos - 1 |}; t_txt := d0 :: t |},
           stepS c r (pos + blen t) l (k + blen t) ll c ws).
  Proof.
    intros d0 t c r pos l k ll x ws HF Hk Hd Ht Hz Hc. unfold scan_body.
    destruct (is_decimal_ascii d0 Hd) as (Ha0 & _ & _ & _).
    rewrite (ident_rune_first d0 Ha0), (decimal_not_id0 d0 Hd), Hd.
    cbn [s_last s_rest s_pos s_col s_line mkS].
    assert (Ek : (0 <? k) = true) by (apply Z.ltb_lt; lia). rewrite Ek.
    destruct (numterm_flags c Hc) as (E46 & E101 & E112 & E120 & E111 & E98).
    pose proof Hc as (Hca & Hcd & Hc95 & _). apply Z.eqb_neq in Hc95.
    unfold scan_number.
    destruct (d0 =? 48) eqn:E0.
    - (* the literal "0" *)
      destruct Hz as [Hz|Hz]; [apply Z.eqb_eq in E0; contradiction|]. subst t. cbn [app].
      fold (mkS (c :: r) [d0] pos l k ll x ws). rewrite next_step by assumption. cbn [sbind].
      rewrite E120, E111, E98. cbn [sbind].
      destruct F as [|f]; [lia|]. cbn [digits]. change (8 <=? 10) with true. cbv iota. rewrite Hcd, Hc95. cbn [orb sbind].
      rewrite E46. cbn [sbind]. change (Z.land (Z.lor 1 0) 1 =? 0) with false. cbv iota.
      rewrite E101, E112. cbn [orb]. change (48 =? 120) with false. cbn [andb sbind].
      change (TInt =? TInt) with true. change (0 =? 0) with true. cbn [negb andb].
      change (Z.land (Z.lor 1 0) 2 =? 0) with true. cbn [negb andb sbind].
      rewrite stepS_pos, stepS_last, set_ch_stepS, blen_nil, !Z.add_0_r. change (blen [d0]) with 1.
      replace (pos + 1 - 1 - (pos - 1)) with 1 by lia. reflexivity.
    - cbn [sbind]. fold (mkS (t ++ c :: r) [d0] pos l k ll x ws).
      rewrite (digits_run t F d0 c r [d0] pos l k ll x ws 0); try assumption; [|lia].
      cbn [sbind]. rewrite E46. cbn [sbind]. change (Z.land (Z.lor 0 (Z.lor 0 1)) 1 =? 0) with false. cbv iota.
      rewrite E101, E112. cbn [orb]. change (0 =? 120) with false. cbn [andb sbind].
      change (TInt =? TInt) with true. change (0 =? 0) with true. cbn [negb andb].
      change (Z.land (Z.lor 0 (Z.lor 0 1)) 2 =? 0) with true. cbn [negb andb sbind].
      rewrite stepS_pos, stepS_last, set_ch_stepS. change (blen [d0]) with 1.
      replace (pos + blen t + 1 - 1 - (pos - 1)) with (Z.of_nat (S (length t))) by (unfold blen; lia).
      rewrite Nat2Z.id. change ([d0] ++ t ++ c :: r) with ((d0 :: t) ++ c :: r).
      rewrite firstn_app_exact by reflexivity. reflexivity.
  Qed.
End WithOracle.
