(** C12, error locality (proved part): if a file consists of well-formed definitions [ds1] of the
    class of Dbc/Printer.v followed by arbitrary bytes [c] that still begin with an identifier
    (the keyword of the corrupted definition is intact) and parsing fails, then the error position
    is not before [c] and the definitions reported so far are those of [ds1] followed by whatever
    was completed after them.  Proof: the round-trip machinery (RoundTrip.v) carries the parser to
    the boundary before [c]; from there the invariant of Totality.v, instantiated with the lower
    bound L = length of the printed prefix, bounds every later error position from below.  The prefix
    may use any line-end run [cr] (LF, CRLF, trailing spaces) and blank lines between definitions. *)
From Coq Require Import ZArith List Bool Lia.
From CanVerif Require Import Dbc.Ast Dbc.Scanner Dbc.DecFloat Dbc.Parser Dbc.ScannerInv Dbc.ScanLemmas
  Dbc.Printer Dbc.RoundTrip Dbc.Totality.
Import ListNotations.
Open Scope Z_scope.

Section Loc.
  Variable il id : Z -> bool.
  Variable F : nat.
  Variable cr : bytes.
  Hypothesis Hcr : cr_ok cr.

  Notation the_loop := (parse_loop_with il id F (parse_bit_timing il id F) (parse_unknown il id F) (parse_message il id F)).

  (** peeking first does not change what the loop does *)
  Lemma loop_after_peek : forall f defs st t st1, peek_token il id F st = POk t st1 ->
    the_loop f defs st = the_loop f defs st1.
  Proof.
    intros f defs st t st1 Hp. destruct f as [|f]; [reflexivity|]. cbn [parse_loop_with].
    rewrite Hp, (peek_token_idem il id F _ _ _ Hp). reflexivity.
  Qed.

  (** number of lines of a printed file *)
  Fixpoint lines_of (its : list item) : Z :=
    match its with
    | [] => 0
    | (g, d) :: t => nl_count g + def_lines d + lines_of t
    end.

  (** whitespace still pending at the boundary after the items: the line end of the last definition *)
  Definition slack_after (its : list item) (n : nat) : nat := match its with [] => n | _ => SL cr end.

  Lemma rest_top_items_c : forall its c ctx, wf_items ctx its -> rest_top F cr c -> first_not_signal its ->
    (SL cr + length (print_items cr its ++ c) + 3 <= F)%nat -> rest_top F cr (print_items cr its ++ c).
  Proof.
    intros its c ctx Hw Hc Hfs HF. destruct its as [|[g d] its]; [exact Hc|].
    destruct Hw as (Hg & (Hd & _) & _). cbn [print_items first_not_signal] in *.
    repeat rewrite <- app_assoc in *. exists g, (print_def cr d ++ print_items cr its ++ c).
    split; [reflexivity|]. split; [exact Hg|]. right.
    destruct (print_def_head cr Hcr d (print_items cr its ++ c) Hd) as (kw & ch & r & E & Hk & Hch & Hnc & Hl & Hns).
    exists kw, ch, r. rewrite !app_length in HF. split; [exact E|]. split; [exact Hk|]. split; [exact Hch|]. split; [exact Hnc|].
    split; [lia|exact (Hns Hfs)].
  Qed.

  Lemma rest_ok_items_c : forall its c ctx, wf_items ctx its -> rest_top F cr c ->
    (SL cr + length (print_items cr its ++ c) + 3 <= F)%nat -> rest_ok F cr (print_items cr its ++ c).
  Proof.
    intros its c ctx Hw Hc HF. destruct its as [|[g d] its]; [apply rest_top_ok; exact Hc|].
    destruct Hw as (Hg & (Hd & _) & _). cbn [print_items] in *.
    repeat rewrite <- app_assoc in *. exists g, (print_def cr d ++ print_items cr its ++ c).
    split; [reflexivity|]. split; [exact Hg|]. right.
    destruct (print_def_head cr Hcr d (print_items cr its ++ c) Hd) as (kw & ch & r & E & Hk & Hch & Hnc & Hl & _).
    exists kw, ch, r. rewrite !app_length in HF. split; [exact E|]. split; [exact Hk|]. split; [exact Hch|]. split; [exact Hnc|]. lia.
  Qed.

  (** the loop over a well-formed prefix [its] followed by [c] reaches the boundary before [c] *)
  Lemma parse_loop_prefix : forall c its f defs ctx pm n line off st,
    ctx_agrees ctx defs -> wf_items ctx its -> sg_placed pm (map snd its) -> (its <> [] -> rest_top F cr c) ->
    (n + length (print_items cr its) + length c + 4 <= F)%nat ->
    Ready il id F n line off (print_items cr its ++ c) st -> (length its <= f)%nat ->
    exists st', the_loop f defs st = the_loop (f - length its) (defs ++ elab_items cr ctx line off its) st'
                /\ Ready il id F (slack_after its n) (line + lines_of its) (off + blen (print_items cr its)) c st'.
  Proof.
    intros c. induction its as [|[g d] its IH]; intros f defs ctx pm n line off st Hag Hw Hsg Hc0 HF HR Hf.
    - exists st. cbn [print_items elab_items length app lines_of slack_after] in *. rewrite app_nil_r, Nat.sub_0_r, blen_nil, !Z.add_0_r.
      split; [reflexivity|exact HR].
    - assert (Hc : rest_top F cr c) by (apply Hc0; discriminate).
      destruct Hw as (Hg & Hd & Hw'). cbn [print_items length] in *. repeat rewrite <- app_assoc in HR.
      do 2 rewrite app_length in HF. destruct f as [|f]; [lia|].
      pose proof (print_def_len_ge cr Hcr d (proj1 Hd)) as Hlen.
      cbn [map snd sg_placed] in Hsg. destruct Hsg as (_ & Hsg').
      assert (Hok : rest_ok F cr (print_items cr its ++ c)) by (apply (rest_ok_items_c its c _ Hw' Hc); rewrite app_length; lia).
      assert (Htop : is_message d = true -> rest_top F cr (print_items cr its ++ c)).
      { intros Hm. apply (rest_top_items_c its c _ Hw' Hc); [|rewrite app_length; lia]. destruct its as [|[g' d'] its']; [exact I|].
        cbn [map snd sg_placed first_not_signal] in *. destruct Hsg' as (H & _). exact (H Hm). }
      pose proof (HR g (print_def cr d ++ print_items cr its ++ c) eq_refl Hg) as HR0.
      destruct (step_def il id F cr Hcr d (print_items cr its ++ c) defs ctx (n + length g) (line + nl_count g) (off + blen g) Hag Hd Hok Htop)
        with (st := st) as (kw & st1 & st2 & Ep & Ek & Ed & HR2); [rewrite app_length; lia|exact HR0|].
      cbn [parse_loop_with]. rewrite Ep. cbn [t_typ kwtok]. change (TIdent =? EOF) with false. cbv iota.
      unfold bind. rewrite Ek, Ed. cbn [elab_items].
      destruct (IH f (defs ++ [elab_def_ctx cr ctx (line + nl_count g) (off + blen g) d]) (ctx_step ctx d) (is_message d) (SL cr)
                  (line + nl_count g + def_lines d) (off + blen g + blen (print_def cr d)) st2
                  (ctx_agrees_step cr ctx defs _ _ d Hag) Hw' Hsg' (fun _ => Hc) ltac:(lia) HR2 ltac:(lia))
        as (st' & E & HR').
      exists st'. split.
      + rewrite E. cbn [Nat.sub]. rewrite <- app_assoc. reflexivity.
      + cbn [lines_of slack_after]. rewrite !blen_app.
        replace (line + (nl_count g + def_lines d + lines_of its)) with (line + nl_count g + def_lines d + lines_of its) by lia.
        replace (off + (blen g + (blen (print_def cr d) + blen (print_items cr its))))
          with (off + blen g + blen (print_def cr d) + blen (print_items cr its)) by lia.
        destruct its; [exact HR'|exact HR'].
  Qed.
End Loc.

(** the canonical boundary state satisfies the parser invariant with the lower bound [off] *)
Lemma pinv_canon : forall N line off kw c r ll,
  is_ident kw -> ascii c -> Forall byte r -> 0 <= off -> off + blen kw + 1 + blen r = N ->
  pinv N off (canon line off kw c r ll).
Proof.
  intros N line off kw c r ll (c0 & t & -> & H0 & Ht) Hc Hr Hoff HN. unfold pinv, canon. cbn [p_sc p_look PS].
  pose proof (blen_nonneg t) as Hnt. pose proof (blen_nonneg r) as Hnr. rewrite blen_cons in *.
  assert (Hs : sinv N off (stepS c r (off + (1 + blen t)) line (1 + blen t) ll c ws_default)).
  { unfold sinv, core, tokoff, chk. unfold stepS. destruct (c =? 10); cbn [s_pos s_rest s_last s_ch mkS];
      change (blen [10]) with 1; change (blen [c]) with 1.
    - split; [split; [lia|split; [exact Hr|lia]]|]. right. right. unfold EOF, NOCHAR, ascii in *. repeat split; lia.
    - split; [split; [lia|split; [exact Hr|lia]]|]. right. right. unfold EOF, NOCHAR, ascii in *. repeat split; lia. }
  split; [exact Hs|].
  assert (Hto : tokoff (stepS c r (off + (1 + blen t)) line (1 + blen t) ll c ws_default) = off + (1 + blen t)).
  { unfold tokoff. rewrite stepS_pos, stepS_last. lia. }
  rewrite Hto. unfold tok_ok, okpos, kwtok. cbn [t_pos t_typ t_txt p_offset].
  split; [split; [lia|intros _; discriminate]|]. split; [lia|intros _; lia].
Qed.

Theorem error_local_partial : forall il id cr its c pos k defs,
  cr_ok cr -> wf_items [] its -> sg_placed false (map snd its) -> Forall byte c ->
  (c = [] \/ exists kw ch r, c = kw ++ ch :: r /\ is_ident kw /\ ascii ch /\ idc ch = false
                            /\ bytes_eqb kw kw_signal = false) ->
  parse_bytes il id (print_items cr its ++ c) = Err pos k defs ->
  (exists more, defs = elaborate_file cr its ++ more)
  /\ blen (print_items cr its) <= p_offset pos <= blen (print_items cr its ++ c).
Proof.
  intros il id cr its c pos k defs Hcr Hw Hsg Hbc Hc H. unfold parse_bytes, parse in H.
  set (T := print_items cr its) in *.
  set (F := fuel_for (T ++ c)) in *.
  assert (HFlen : F = (length T + length c + 4)%nat) by (unfold F, fuel_for; rewrite app_length; reflexivity).
  pose proof (length_items_ge cr its) as Hge. fold T in Hge.
  assert (HT : its <> [] -> (SL cr <= length T)%nat).
  { intros Hne. destruct its as [|[g d] its']; [contradiction|]. destruct Hw as (_ & (Hd & _) & _).
    unfold T. cbn [print_items]. rewrite !app_length. pose proof (print_def_len_ge cr Hcr d Hd). lia. }
  assert (Hsl : (slack_after cr its 0 <= length T)%nat) by (destruct its; [cbn; lia|apply HT; discriminate]).
  assert (Hok : its <> [] -> rest_top F cr c).
  { intros Hne. specialize (HT Hne). exists [], c. split; [reflexivity|]. split; [exact blank_block_nil|].
    cbn [length]. rewrite Nat.add_0_r.
    destruct Hc as [->|(kw & ch & r & -> & Hk & Hch & Hnc & Hns)]; [left; split; [reflexivity|lia]|right].
    exists kw, ch, r. split; [reflexivity|]. split; [exact Hk|]. split; [exact Hch|]. split; [exact Hnc|].
    split; [|exact Hns]. rewrite app_length in HFlen. cbn [length] in HFlen. lia. }
  assert (Hh : head_ascii (T ++ c)).
  { unfold T. destruct its as [|[g d] its'].
    - cbn [print_items app]. destruct Hc as [->|(kw & ch & r & -> & (c0 & t & -> & H0 & _) & _)]; [exact I|]. cbn. apply (id0_ge c0 H0).
    - destruct Hw as ((Hg & _) & (Hd & _) & _). cbn [print_items]. destruct g as [|a g].
      + cbn [app]. destruct (print_def_head cr Hcr d (print_items cr its' ++ c) Hd) as (kw & ch & r & E & (c0 & t & -> & H0 & _) & _).
        rewrite <- app_assoc, E. cbn. apply (id0_ge c0 H0).
      + cbn. inversion Hg. apply blank_ascii. assumption. }
  destruct (parse_loop_prefix il id F cr Hcr c its F [] [] false 0 1 0 (p_init (T ++ c)) (fun n => eq_refl) Hw Hsg Hok ltac:(fold T; lia)) as (st' & E & HR);
    [apply ready_init; [exact Hh|lia]|lia|].
  rewrite E in H. cbn [app] in H. fold (elaborate_file cr its) in H. rewrite Z.add_0_l in HR. fold T in HR.
  pose proof (ready_here il id F _ _ _ _ _ HR) as (HR1 & HR2).
  destruct Hc as [->|(kw & ch & r & -> & Hk & Hch & Hnc & _)].
  - (* nothing follows: the loop ends with Ok *)
    exfalso. destruct (HR1 eq_refl ltac:(cbn [length] in HFlen; lia)) as (tok & st'' & Ep & Ht).
    destruct (F - length its)%nat as [|f'] eqn:Ef; [lia|]. cbn [parse_loop_with] in H. rewrite Ep, Ht in H. discriminate H.
  - destruct (HR2 kw ch r eq_refl Hk Hch Hnc) as (ll & Ep).
    { rewrite app_length in HFlen. cbn [length] in HFlen. lia. }
    rewrite (loop_after_peek il id F _ _ _ _ _ Ep) in H.
    set (N := blen (T ++ kw ++ ch :: r)).
    assert (HN : blen T + blen kw + 1 + blen r = N).
    { unfold N. rewrite blen_app, blen_app, blen_cons. lia. }
    assert (Hbr : Forall byte r).
    { apply Forall_app in Hbc. destruct Hbc as (_ & Hb). inversion Hb; assumption. }
    pose proof (pinv_canon N (1 + lines_of its) (blen T) kw ch r ll Hk Hch Hbr (blen_nonneg _) HN) as Hi.
    assert (HF : N + 1 < Z.of_nat F) by (unfold N, blen; rewrite HFlen, !app_length; cbn [length]; lia).
    pose proof (parse_loop_spec il id F N (blen T) (blen_nonneg _) HF (F - length its) (elaborate_file cr its) _ Hi) as Hspec.
    assert (Hfo : fuel_ok N (F - length its) (canon (1 + lines_of its) (blen T) kw ch r ll)).
    { unfold fuel_ok, nu, canon. cbn [p_look PS kwtok t_pos p_offset]. unfold N, blen. rewrite HFlen, !app_length. cbn [length]. lia. }
    specialize (Hspec Hfo). rewrite H in Hspec. cbn [outcome_ok] in Hspec.
    split; [|exact Hspec]. apply parse_loop_defs_prefix in H. exact H.
Qed.

(** an instance of the hypotheses: after the well-formed line "BS_:" the corrupted comment
    [CM_ $] fails at the '$' (offset 9 >= 5) with exactly the BS_ definition reported *)
Lemma error_local_instance : forall il id,
  parse_bytes il id (print_items [13] [([10], SBitTiming None)] ++ [67; 77; 95; 32; 36])
  = Err {| p_line := 3; p_column := 5; p_offset := 11 |} ESyntax (elaborate_file [13] [([10], SBitTiming None)]).
Proof. intros. vm_compute. reflexivity. Qed.
