(** C12, error locality (proved part): if a file consists of well-formed definitions [ds1] of the
    class of Dbc/Printer.v followed by arbitrary bytes [c] that still begin with an identifier
    (the keyword of the corrupted definition is intact) and parsing fails, then the error position
    is not before [c] and the definitions reported so far are those of [ds1] followed by whatever
    was completed after them.  Proof: the round-trip machinery (RoundTrip.v) carries the parser to
    the boundary before [c]; from there the invariant of Totality.v, instantiated with the lower
    bound L = length (print ds1), bounds every later error position from below. *)
From Coq Require Import ZArith List Bool Lia.
From CanVerif Require Import Dbc.Ast Dbc.Scanner Dbc.DecFloat Dbc.Parser Dbc.ScannerInv Dbc.ScanLemmas
  Dbc.Printer Dbc.RoundTrip Dbc.Totality.
Import ListNotations.
Open Scope Z_scope.

Section Loc.
  Variable il id : Z -> bool.
  Variable F : nat.

  Notation the_loop := (parse_loop_with il id F (parse_bit_timing il id F) (parse_unknown il id F) (parse_message il id F)).

  (** peeking first does not change what the loop does *)
  Lemma loop_after_peek : forall f defs st t st1, peek_token il id F st = POk t st1 ->
    the_loop f defs st = the_loop f defs st1.
  Proof.
    intros f defs st t st1 Hp. destruct f as [|f]; [reflexivity|]. cbn [parse_loop_with].
    rewrite Hp, (peek_token_idem il id F _ _ _ Hp). reflexivity.
  Qed.

  (** number of lines of a printed file *)
  Fixpoint lines_of (ds : list sdef) : Z :=
    match ds with
    | [] => 0
    | d :: t => def_lines d + lines_of t
    end.

  (** the loop over a well-formed prefix [ds] followed by [c] reaches the boundary before [c] *)
  Lemma parse_loop_prefix : forall c ds f defs ctx line off st,
    ctx_agrees ctx defs -> wf_defs ctx ds -> rest_top F c -> (length (print ds) + length c + 4 <= F)%nat ->
    Ready il id F line off (print ds ++ c) st -> (length ds <= f)%nat ->
    exists st', the_loop f defs st = the_loop (f - length ds) (defs ++ elab_from ctx line off ds) st'
                /\ Ready il id F (line + lines_of ds) (off + blen (print ds)) c st'.
  Proof.
    intros c. induction ds as [|d ds IH]; intros f defs ctx line off st Hag Hw Hc HF HR Hf.
    - exists st. cbn [print elab_from length app lines_of] in *. rewrite app_nil_r, Nat.sub_0_r, blen_nil, !Z.add_0_r.
      split; [reflexivity|exact HR].
    - destruct Hw as (Hd & Hw'). cbn [print length] in *. rewrite <- app_assoc in HR.
      rewrite app_length in HF. destruct f as [|f]; [lia|].
      assert (Hok : rest_top F (print ds ++ c)).
      { destruct ds as [|d' ds']; [exact Hc|]. destruct Hw' as ((Hd' & _) & _). right. cbn [print].
        rewrite <- app_assoc.
        destruct (print_def_head d' (print ds' ++ c) Hd') as (kw & ch & r & E & Hk & Hch & Hnc & Hl & Hns).
        exists kw, ch, r. split; [exact E|]. split; [exact Hk|]. split; [exact Hch|]. split; [exact Hnc|].
        split; [|exact Hns]. cbn [print] in HF. rewrite app_length in HF. lia. }
      destruct (step_def il id F d (print ds ++ c) defs ctx line off Hag Hd Hok) with (st := st)
        as (kw & st1 & st2 & Ep & Ek & Ed & HR2); [rewrite app_length; lia|exact HR|].
      cbn [parse_loop_with]. rewrite Ep. cbn [t_typ kwtok]. change (TIdent =? EOF) with false. cbv iota.
      unfold bind. rewrite Ek, Ed. cbn [elab_from].
      destruct (IH f (defs ++ [elab_def_ctx ctx line off d]) (ctx_step ctx d) (line + def_lines d) (off + blen (print_def d)) st2
                  (ctx_agrees_step ctx defs line off d Hag) Hw' Hc ltac:(lia) HR2 ltac:(lia))
        as (st' & E & HR').
      exists st'. split.
      + rewrite E. cbn [Nat.sub]. rewrite <- app_assoc. reflexivity.
      + rewrite blen_app. cbn [lines_of]. replace (line + (def_lines d + lines_of ds)) with (line + def_lines d + lines_of ds) by lia.
        replace (off + (blen (print_def d) + blen (print ds))) with (off + blen (print_def d) + blen (print ds)) by lia.
        exact HR'.
  Qed.
End Loc.

(** the canonical boundary state satisfies the parser invariant with the lower bound [off] *)
Lemma pinv_canon : forall N line off kw c r ll,
  is_ident kw -> ascii c -> Forall byte r -> 0 <= off -> off + blen kw + 1 + blen r = N ->
  pinv N off (canon line off kw c r ll).
Proof.
  intros N line off kw c r ll (c0 & t & -> & H0 & Ht) Hc Hr Hoff HN. unfold pinv, canon. cbn [p_sc p_look PS].
  pose proof (blen_nonneg t) as Hnt. pose proof (blen_nonneg r) as Hnr. rewrite blen_cons in *.
  assert (Hs : sinv N off (stepS c r (off + (1 + blen t)) line (1 + blen t) ll c ws_default)).
  { unfold sinv, core, tokoff, chk. unfold stepS. destruct (c =? 10); cbn [s_pos s_rest s_last s_ch mkS];
      change (blen [10]) with 1; change (blen [c]) with 1.
    - split; [split; [lia|split; [exact Hr|lia]]|]. right. right. unfold EOF, NOCHAR, ascii in *. repeat split; lia.
    - split; [split; [lia|split; [exact Hr|lia]]|]. right. right. unfold EOF, NOCHAR, ascii in *. repeat split; lia. }
  split; [exact Hs|].
  assert (Hto : tokoff (stepS c r (off + (1 + blen t)) line (1 + blen t) ll c ws_default) = off + (1 + blen t)).
  { unfold tokoff. rewrite stepS_pos, stepS_last. lia. }
  rewrite Hto. unfold tok_ok, okpos, kwtok. cbn [t_pos t_typ t_txt p_offset].
  split; [split; [lia|intros _; discriminate]|]. split; [lia|intros _; lia].
Qed.

Theorem error_local_partial : forall il id ds1 c pos k defs,
  wf_file ds1 -> Forall byte c ->
  (c = [] \/ exists kw ch r, c = kw ++ ch :: r /\ is_ident kw /\ ascii ch /\ idc ch = false
                            /\ bytes_eqb kw kw_signal = false) ->
  parse_bytes il id (print ds1 ++ c) = Err pos k defs ->
  (exists more, defs = elaborate ds1 ++ more) /\ blen (print ds1) <= p_offset pos <= blen (print ds1 ++ c).
Proof.
  intros il id ds1 c pos k defs Hw Hbc Hc H. unfold parse_bytes, parse in H.
  set (F := fuel_for (print ds1 ++ c)) in *.
  assert (HFlen : F = (length (print ds1) + length c + 4)%nat) by (unfold F, fuel_for; rewrite app_length; reflexivity).
  pose proof (length_print_ge ds1) as Hge.
  assert (Hok : rest_top F c).
  { destruct Hc as [->|(kw & ch & r & -> & Hk & Hch & Hnc & Hns)]; [left; reflexivity|right].
    exists kw, ch, r. split; [reflexivity|]. split; [exact Hk|]. split; [exact Hch|]. split; [exact Hnc|].
    split; [|exact Hns]. rewrite app_length in HFlen. cbn [length] in HFlen. lia. }
  destruct (parse_loop_prefix il id F c ds1 F [] [] 1 0 (p_init (print ds1 ++ c)) (fun n => eq_refl) Hw Hok ltac:(lia)) as (st' & E & HR);
    [apply ready_init; lia|lia|].
  rewrite E in H. cbn [app] in H. fold (elaborate ds1) in H. rewrite Z.add_0_l in HR.
  destruct HR as (HR1 & HR2).
  destruct Hc as [->|(kw & ch & r & -> & Hk & Hch & Hnc & _)].
  - (* nothing follows: the loop ends with Ok *)
    exfalso. destruct (HR1 eq_refl) as (tok & st'' & Ep & Ht).
    destruct (F - length ds1)%nat as [|f'] eqn:Ef; [lia|]. cbn [parse_loop_with] in H. rewrite Ep, Ht in H. discriminate H.
  - destruct (HR2 kw ch r eq_refl Hk Hch Hnc) as (ll & Ep).
    { rewrite app_length in HFlen. cbn [length] in HFlen. lia. }
    rewrite (loop_after_peek il id F _ _ _ _ _ Ep) in H.
    set (N := blen (print ds1 ++ kw ++ ch :: r)).
    assert (HN : blen (print ds1) + blen kw + 1 + blen r = N).
    { unfold N. rewrite blen_app, blen_app, blen_cons. lia. }
    assert (Hbr : Forall byte r).
    { apply Forall_app in Hbc. destruct Hbc as (_ & Hb). inversion Hb; assumption. }
    pose proof (pinv_canon N (1 + lines_of ds1) (blen (print ds1)) kw ch r ll Hk Hch Hbr (blen_nonneg _) HN) as Hi.
    assert (HF : N + 1 < Z.of_nat F) by (unfold N, blen; rewrite HFlen, !app_length; cbn [length]; lia).
    pose proof (parse_loop_spec il id F N (blen (print ds1)) (blen_nonneg _) HF (F - length ds1) (elaborate ds1) _ Hi) as Hspec.
    assert (Hfo : fuel_ok N (F - length ds1) (canon (1 + lines_of ds1) (blen (print ds1)) kw ch r ll)).
    { unfold fuel_ok, nu, canon. cbn [p_look PS kwtok t_pos p_offset]. unfold N, blen. rewrite HFlen, !app_length. cbn [length]. lia. }
    specialize (Hspec Hfo). rewrite H in Hspec. cbn [outcome_ok] in Hspec.
    split; [|exact Hspec]. apply parse_loop_defs_prefix in H. exact H.
Qed.

(** an instance of the hypotheses: after the well-formed line "BS_:" the corrupted comment
    [CM_ $] fails at the '$' (offset 9 >= 5) with exactly the BS_ definition reported *)
Lemma error_local_instance : forall il id,
  parse_bytes il id (print [SBitTiming None] ++ [67; 77; 95; 32; 36])
  = Err {| p_line := 2; p_column := 5; p_offset := 9 |} ESyntax (elaborate [SBitTiming None]).
Proof. intros. vm_compute. reflexivity. Qed.
