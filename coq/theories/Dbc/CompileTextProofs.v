(** Proofs about generate.Compile as a function of the text (Dbc/CompileText.v): the round-trip
    theorem of C04 (Dbc/RoundTrip.v) chained with the compile theorems of C05 (Dbc/CompileProofs.v). *)
From Coq Require Import ZArith List Bool.
From CanVerif Require Import Base.Sort Dbc.Ast Descriptor.Types Dbc.Scanner Dbc.Parser Dbc.Printer Dbc.RoundTrip
  Dbc.Compile Dbc.CompileSpec Dbc.CompileLemmas Dbc.CompileProofs Dbc.CompileText.
Import ListNotations.
Open Scope Z_scope.

(** the text of a well-formed source file parses to its denotation *)
Lemma text_defs_print : forall il id cr ds, cr_ok cr -> wf_file ds ->
  text_defs il id (print cr ds) = Some (elaborate cr ds).
Proof.
  intros il id cr ds Hcr Hwf. unfold text_defs. rewrite (parse_print_partial il id cr ds Hcr Hwf). reflexivity.
Qed.

Lemma text_defs_print_file : forall il id cr its gend, wf_lfile cr its gend ->
  text_defs il id (print_file cr its gend) = Some (elaborate_file cr its).
Proof.
  intros il id cr its gend Hwf. unfold text_defs. rewrite (parse_print_layout il id cr its gend Hwf). reflexivity.
Qed.

(** END TO END, as an equation: compiling the printed text of [ds] succeeds and yields the sorted
    denoted database of the definitions the text denotes, with exactly the specified warnings *)
Theorem compile_text_eq : forall il id cr source ds,
  cr_ok cr -> wf_file ds -> in_class (elaborate cr ds) = true ->
  compile_text il id source (print cr ds)
  = Some (sort_db (denoted_db source (elaborate cr ds)), spec_warnings (elaborate cr ds)).
Proof.
  intros il id cr source ds Hcr Hwf Hc. unfold compile_text. rewrite (text_defs_print il id cr ds Hcr Hwf).
  rewrite (compile_eq source (elaborate cr ds) Hc). reflexivity.
Qed.

(** the same for files with blank lines between the definitions and at the end (every layout the
    round-trip theorem of C04 covers) *)
Theorem compile_text_file_eq : forall il id cr source its gend,
  wf_lfile cr its gend -> in_class (elaborate_file cr its) = true ->
  compile_text il id source (print_file cr its gend)
  = Some (sort_db (denoted_db source (elaborate_file cr its)), spec_warnings (elaborate_file cr its)).
Proof.
  intros il id cr source its gend Hwf Hc. unfold compile_text. rewrite (text_defs_print_file il id cr its gend Hwf).
  rewrite (compile_eq source (elaborate_file cr its) Hc). reflexivity.
Qed.

(** END TO END, as the property reads: the compiled database is denoted by the source, canonically
    ordered, carries the source file name; the warnings are the specified ones *)
Theorem compile_text_denotes : forall il id cr source ds,
  cr_ok cr -> wf_file ds -> in_class (elaborate cr ds) = true ->
  exists db ws, compile_text il id source (print cr ds) = Some (db, ws) /\
    denotes (elaborate cr ds) db /\ canonical db /\ db_source_file db = source /\
    ws = spec_warnings (elaborate cr ds).
Proof.
  intros il id cr source ds Hcr Hwf Hc.
  exists (fst (compile source (elaborate cr ds))), (snd (compile source (elaborate cr ds))).
  split.
  - unfold compile_text. rewrite (text_defs_print il id cr ds Hcr Hwf). rewrite <- surjective_pairing. reflexivity.
  - destruct (compile_denotes source (elaborate cr ds) Hc) as (H1 & H2 & H3).
    split; [exact H1|]. split; [exact H2|]. split; [exact H3|]. exact (warnings_exact source (elaborate cr ds) Hc).
Qed.

(** ------------------------------------------------------------------ a concrete source file
    (non-vacuity of the hypotheses of the end-to-end theorems, and the values of the text arriving in
    the database: a start value above 2^24, a cycle time above 2^24 ms, decimal fractions, a float
    signal, value descriptions out of order, metadata that spells the id without the extended flag,
    a comment for an undeclared node) *)
From Coq Require Import String Lia.
From CanVerif Require Import Dbc.Witness.
Import ListNotations.
Open Scope Z_scope.

(** boolean forms of the well-formedness predicates of Dbc/Printer.v (for concrete instances) *)
Definition wf_uintb (ds : bytes) : bool := wf_digitsb ds && (uint_value ds <? 2 ^ 64).
Definition wf_msgidb (i : bytes) : bool := wf_uintb i && msgid_valid (msgid i).
Definition wf_muxb (m : smux) : bool :=
  match m with Muxed ds => wf_digitsb ds && (uint_value ds <? 2 ^ 63) | _ => true end.
Definition wf_signalb (s : ssignal) : bool :=
  ident_valid (ss_name s) && wf_muxb (ss_mux s) && wf_uintb (ss_start s) && wf_uintb (ss_size s)
  && wf_numb (ss_factor s) && wf_numb (ss_offset s) && wf_numb (ss_min s) && wf_numb (ss_max s)
  && str_okb (ss_unit s) && ident_valid (ss_receiver s) && forallb ident_valid (ss_receivers s).

Lemma wf_digitsb_ok : forall ds, wf_digitsb ds = true -> wf_digits ds.
Proof.
  intros [|d0 t] H; [discriminate|]. cbn [wf_digitsb] in H.
  apply andb_true_iff in H. destruct H as (H & Ho). apply andb_true_iff in H. destruct H as (Hd0 & Hdt).
  exists d0, t. split; [reflexivity|]. split; [exact Hd0|]. split; [apply (forallb_Forall is_decimal); exact Hdt|].
  apply orb_true_iff in Ho. destruct Ho as [Ho|Ho].
  - left. apply negb_true_iff, Z.eqb_neq in Ho. exact Ho.
  - right. destruct t; [reflexivity|discriminate].
Qed.

Lemma wf_uintb_ok : forall ds, wf_uintb ds = true -> wf_uint ds.
Proof.
  intros ds H. apply andb_true_iff in H. destruct H as (H1 & H2).
  split; [apply wf_digitsb_ok; exact H1|apply Z.ltb_lt; exact H2].
Qed.

Lemma wf_msgidb_ok : forall i, wf_msgidb i = true -> wf_msgid i.
Proof.
  intros i H. apply andb_true_iff in H. destruct H as (H1 & H2). split; [apply wf_uintb_ok; exact H1|exact H2].
Qed.

Lemma wf_signalb_ok : forall s, wf_signalb s = true -> wf_signal s.
Proof.
  intros s H. unfold wf_signalb in H.
  apply andb_true_iff in H. destruct H as (H & H11). apply andb_true_iff in H. destruct H as (H & H10).
  apply andb_true_iff in H. destruct H as (H & H9). apply andb_true_iff in H. destruct H as (H & H8).
  apply andb_true_iff in H. destruct H as (H & H7). apply andb_true_iff in H. destruct H as (H & H6).
  apply andb_true_iff in H. destruct H as (H & H5). apply andb_true_iff in H. destruct H as (H & H4).
  apply andb_true_iff in H. destruct H as (H & H3). apply andb_true_iff in H. destruct H as (H1 & H2).
  unfold wf_signal.
  split; [exact H1|]. split.
  { unfold wf_muxb in H2. destruct (ss_mux s) as [| |ds]; try exact I. cbn [wf_mux].
    apply andb_true_iff in H2. destruct H2 as (Hm1 & Hm2).
    split; [apply wf_digitsb_ok; exact Hm1|apply Z.ltb_lt; exact Hm2]. }
  split; [apply wf_uintb_ok; exact H3|]. split; [apply wf_uintb_ok; exact H4|].
  split; [apply wf_numb_ok; exact H5|]. split; [apply wf_numb_ok; exact H6|].
  split; [apply wf_numb_ok; exact H7|]. split; [apply wf_numb_ok; exact H8|].
  split; [apply str_okb_ok; exact H9|]. split; [exact H10|].
  apply Forall_forall. intros r Hr. exact (proj1 (forallb_forall _ _) H11 r Hr).
Qed.

Local Open Scope string_scope.
Definition num (neg : bool) (ds : string) (frac : option string) (ex : option (Z * option Z * string)) : snum :=
  {| n_neg := neg; n_digits := txt ds;
     n_frac := match frac with Some f => Some (txt f) | None => None end;
     n_exp := match ex with Some (e, sg, d) => Some (e, sg, txt d) | None => None end |}.
Definition int_lit (ds : string) : snum := num false ds None None.

Definition ex_sig_a : ssignal :=
  {| ss_name := txt "A"; ss_mux := MuxNone; ss_start := txt "0"; ss_size := txt "32";
     ss_big_endian := false; ss_signed := false;
     ss_factor := num false "0" (Some "1") None;                           (* 0.1 *)
     ss_offset := num true "40" None None;                                 (* -40 *)
     ss_min := int_lit "0";
     ss_max := num false "6" None (Some (69, Some 43, "3"));        (* 6E+3 *)
     ss_unit := txt "km/h"; ss_receiver := txt "N"; ss_receivers := [] |}.
Definition ex_sig_b : ssignal :=
  {| ss_name := txt "B"; ss_mux := Muxed (txt "2"); ss_start := txt "39"; ss_size := txt "8";
     ss_big_endian := true; ss_signed := true;
     ss_factor := int_lit "1"; ss_offset := int_lit "0"; ss_min := int_lit "0"; ss_max := int_lit "0";
     ss_unit := []; ss_receiver := txt "Vector__XXX"; ss_receivers := [txt "N"] |}.

Definition ex_src : list sdef :=
  [ SVersion (txt "1.0");
    SNodes [txt "N"];
    SMessage (txt "2147483748") (txt "M") (txt "8") (txt "N") [ex_sig_b; ex_sig_a];
    SAttr AOMessage (txt "GenMsgCycleTime") (ABInt false (Some (int_lit "0", int_lit "0")));
    SAttr AOSignal (txt "GenSigStartValue") (ABInt false None);
    SAttr AOMessage (txt "GenMsgSendType") (ABEnum (txt "None") [txt "Cyclic"]);
    SAttrValue (txt "GenSigStartValue") (ObjSignal (txt "100") (txt "A")) (AVInt (int_lit "16777217"));
    SAttrValue (txt "GenMsgCycleTime") (ObjMessage (txt "100")) (AVInt (int_lit "20000001"));
    SAttrValue (txt "GenMsgSendType") (ObjMessage (txt "2147483748")) (AVEnumIndex (txt "1"));
    SSigValType (txt "100") (txt "A") true (txt "1");
    SComment (ObjSignal (txt "100") (txt "A")) (txt "speed");
    SValues (Some (txt "2147483748")) (txt "B") [(int_lit "2", txt "t"); (num true "1" None None, txt "o")];
    SComment (ObjNode (txt "G")) (txt "x") ].

Definition ex_text : bytes :=
  txt ("VERSION ""1.0""" ++ LF ++ "BU_: N" ++ LF ++ "BO_ 2147483748 M : 8 N" ++ LF
       ++ "SG_ B m2 : 39 | 8 @ 0 - ( 1 , 0 ) [ 0 | 0 ] """" Vector__XXX , N" ++ LF
       ++ "SG_ A : 0 | 32 @ 1 + ( 0.1 , -40 ) [ 0 | 6E+3 ] ""km/h"" N" ++ LF
       ++ "BA_DEF_ BO_ ""GenMsgCycleTime"" INT 0 0 ;" ++ LF
       ++ "BA_DEF_ SG_ ""GenSigStartValue"" INT ;" ++ LF
       ++ "BA_DEF_ BO_ ""GenMsgSendType"" ENUM ""None"" , ""Cyclic"" ;" ++ LF
       ++ "BA_ ""GenSigStartValue"" SG_ 100 A 16777217 ;" ++ LF
       ++ "BA_ ""GenMsgCycleTime"" BO_ 100 20000001 ;" ++ LF
       ++ "BA_ ""GenMsgSendType"" BO_ 2147483748 1 ;" ++ LF
       ++ "SIG_VALTYPE_ 100 A : 1 ;" ++ LF
       ++ "CM_ SG_ 100 A ""speed"" ;" ++ LF
       ++ "VAL_ 2147483748 B 2 ""t"" -1 ""o"" ;" ++ LF
       ++ "CM_ BU_ G ""x"" ;" ++ LF).

Lemma ex_src_text : print [] ex_src = ex_text.
Proof. vm_compute. reflexivity. Qed.

(** goal-directed: [vm_compute] is only ever run on closed boolean equations (never on a predicate with
    a bound variable: normalising [wf_num] under a binder does not terminate in practice) *)
Ltac wf1 :=
  lazymatch goal with
  | |- True => exact I
  | |- _ = true => vm_compute; reflexivity
  | |- _ < _ => vm_compute; reflexivity
  | |- str_ok _ => apply str_okb_ok; vm_compute; reflexivity
  | |- str_okn _ => apply str_ok_okn; apply str_okb_ok; vm_compute; reflexivity
  | |- wf_uint _ => apply wf_uintb_ok; vm_compute; reflexivity
  | |- wf_msgid _ => apply wf_msgidb_ok; vm_compute; reflexivity
  | |- wf_num _ => apply wf_numb_ok; vm_compute; reflexivity
  | |- wf_signal _ => apply wf_signalb_ok; vm_compute; reflexivity
  | |- wf_enum _ _ => exists 49; split; [vm_compute; reflexivity|lia]
  | |- wf_value _ => split; cbn [fst snd]; wf1
  | |- Forall _ [] => apply Forall_nil
  | |- Forall _ (_ :: _) => apply Forall_cons; [cbv beta; wf1|wf1]
  | |- _ /\ _ => split; wf1
  | |- context [lookup_ctx ?n ?c] =>
    let v := eval vm_compute in (lookup_ctx n c) in change (lookup_ctx n c) with v; cbv beta iota; wf1
  end.

Lemma ex_src_wf : wf_file ex_src.
Proof.
  split; [|unfold ex_src; cbn [sg_placed Printer.is_message is_signal]; repeat split; intros; try reflexivity; discriminate].
  unfold ex_src. cbn [wf_defs ctx_step app attr_body_type attr_body_enums].
  unfold wf_sdef_ctx, wf_attr_value. cbn [wf_sdef wf_attr_body wf_range wf_obj].
  wf1.
Qed.

Lemma ex_src_class : in_class (elaborate [] ex_src) = true.
Proof. vm_compute. reflexivity. Qed.

(** the instance of the end-to-end theorem, with the database spelled out (0.1 = 0x3FB999999999999A,
    -40 = 0xC044000000000000, 1 = 0x3FF0000000000000 as binary64 bit patterns; the cycle time in ns) *)
Lemma ex_src_compiles : forall il id,
  wf_file ex_src /\ in_class (elaborate [] ex_src) = true /\ print [] ex_src = ex_text /\
  exists db, compile_text il id [] ex_text = Some (db, [(WNoNode, at_ 15 1 502)]) /\
    db = sort_db (denoted_db [] (elaborate [] ex_src)) /\
    db_version db = txt "1.0" /\ map node_name (db_nodes db) = [txt "N"] /\
    map (fun m => (msg_name m, msg_id m, msg_extended m, msg_length m, msg_send_type m, msg_cycle_time m, msg_sender m,
           map (fun s => (s_name s, s_start s, s_length s, s_float s, s_default s, s_scale s, s_offset s,
                          s_description s, s_unit s, map (fun v => (vdesc_value v, vdesc_text v)) (s_value_descriptions s)))
               (msg_signals m))) (db_messages db)
    = [(txt "M", 100, true, 8, SendCyclic, 20000001000000, txt "N",
        [(txt "A", 0, 32, true, 16777217, 4591870180066957722, 13854198353698488320, txt "speed", txt "km/h", []);
         (txt "B", 39, 8, false, 0, 4607182418800017408, 0, [], [], [(-1, txt "o"); (2, txt "t")])])].
Proof.
  intros il id. split; [exact ex_src_wf|]. split; [exact ex_src_class|]. split; [exact ex_src_text|].
  exists (sort_db (denoted_db [] (elaborate [] ex_src))). split.
  - rewrite <- ex_src_text. rewrite (compile_text_eq il id [] [] ex_src (Forall_nil _) ex_src_wf ex_src_class).
    replace (spec_warnings (elaborate [] ex_src)) with [(WNoNode, at_ 15 1 502)] by (vm_compute; reflexivity).
    reflexivity.
  - split; [reflexivity|]. split; [vm_compute; reflexivity|]. split; vm_compute; reflexivity.
Qed.

(** ------------------------------------------------------------------ start values over the whole int64 range
    (F12: INT attribute values are read exactly, not through float64): two messages with one signed
    64-bit signal each; the start values 2^63 - 1 and -(2^53 + 1) - neither is a float64 - arrive in the
    database as written; the declared range is [MinInt64, MaxInt64] *)
Definition ex64_sig (name : string) : ssignal :=
  {| ss_name := txt name; ss_mux := MuxNone; ss_start := txt "0"; ss_size := txt "64";
     ss_big_endian := false; ss_signed := true;
     ss_factor := int_lit "1"; ss_offset := int_lit "0"; ss_min := int_lit "0"; ss_max := int_lit "0";
     ss_unit := []; ss_receiver := txt "N"; ss_receivers := [] |}.

Definition ex64_src : list sdef :=
  [ SNodes [txt "N"];
    SMessage (txt "1") (txt "M") (txt "8") (txt "N") [ex64_sig "S"];
    SMessage (txt "2") (txt "L") (txt "8") (txt "N") [ex64_sig "T"];
    SAttr AOSignal (txt "GenSigStartValue")
          (ABInt false (Some (num true "9223372036854775808" None None, int_lit "9223372036854775807")));
    SAttrValue (txt "GenSigStartValue") (ObjSignal (txt "1") (txt "S")) (AVInt (int_lit "9223372036854775807"));
    SAttrValue (txt "GenSigStartValue") (ObjSignal (txt "2") (txt "T")) (AVInt (num true "9007199254740993" None None)) ].

Definition ex64_text : bytes :=
  txt ("BU_: N" ++ LF ++ "BO_ 1 M : 8 N" ++ LF ++ "SG_ S : 0 | 64 @ 1 - ( 1 , 0 ) [ 0 | 0 ] """" N" ++ LF
       ++ "BO_ 2 L : 8 N" ++ LF ++ "SG_ T : 0 | 64 @ 1 - ( 1 , 0 ) [ 0 | 0 ] """" N" ++ LF
       ++ "BA_DEF_ SG_ ""GenSigStartValue"" INT -9223372036854775808 9223372036854775807 ;" ++ LF
       ++ "BA_ ""GenSigStartValue"" SG_ 1 S 9223372036854775807 ;" ++ LF
       ++ "BA_ ""GenSigStartValue"" SG_ 2 T -9007199254740993 ;" ++ LF).

Lemma ex64_src_text : print [] ex64_src = ex64_text.
Proof. vm_compute. reflexivity. Qed.

Lemma ex64_src_wf : wf_file ex64_src.
Proof.
  split; [|unfold ex64_src; cbn [sg_placed Printer.is_message is_signal]; repeat split; intros; try reflexivity; discriminate].
  unfold ex64_src. cbn [wf_defs ctx_step app attr_body_type attr_body_enums].
  unfold wf_sdef_ctx, wf_attr_value. cbn [wf_sdef wf_attr_body wf_range wf_obj].
  wf1.
Qed.

Lemma ex64_src_class : in_class (elaborate [] ex64_src) = true.
Proof. vm_compute. reflexivity. Qed.

Lemma ex64_src_compiles : forall il id,
  wf_file ex64_src /\ in_class (elaborate [] ex64_src) = true /\ print [] ex64_src = ex64_text /\
  exists db, compile_text il id [] ex64_text = Some (db, []) /\
    map (fun m => (msg_name m, map (fun s => (s_name s, s_length s, s_signed s, s_default s)) (msg_signals m))) (db_messages db)
    = [(txt "M", [(txt "S", 64, true, 9223372036854775807)]); (txt "L", [(txt "T", 64, true, -9007199254740993)])]
    /\ map (fun d => match d with DAttribute a => [(ad_min_int a, ad_max_int a)] | _ => [] end) (elaborate [] ex64_src)
       = [[]; []; []; [(-9223372036854775808, 9223372036854775807)]; []; []].
Proof.
  intros il id. split; [exact ex64_src_wf|]. split; [exact ex64_src_class|]. split; [exact ex64_src_text|].
  exists (sort_db (denoted_db [] (elaborate [] ex64_src))). split.
  - rewrite <- ex64_src_text. rewrite (compile_text_eq il id [] [] ex64_src (Forall_nil _) ex64_src_wf ex64_src_class).
    replace (spec_warnings (elaborate [] ex64_src)) with (@nil (warn_kind * position)) by (vm_compute; reflexivity).
    reflexivity.
  - split; vm_compute; reflexivity.
Qed.
