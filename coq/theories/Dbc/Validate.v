(** Identifier.Validate (pkg/dbc/identifier.go) with identifiers.IsAlphaChar / IsNumChar
    (internal/identifiers/char.go) transcribed statement by statement, and the proof that it is the
    byte-wise check [ident_valid] which the parser model (Dbc/Parser.v: [p_identifier],
    [p_string_identifier]) uses.

    Go ranges over the RUNES of the string (`for i, r := range id`: r = the decoded rune, RuneError
    for an ill-formed sequence; i = the byte index of its first byte); [ident_valid] looks at the
    BYTES. The two agree for every byte list - also for the arbitrary string content that reaches
    Validate through Parser.stringIdentifier (quoted attribute name of BA_DEF_) - because a byte
    below 0x80 decodes to itself and every other rune, RuneError included, is >= 0x80 and so is its
    first byte: both are rejected by the comparison chains.  IsAlphaChar / IsNumChar are comparison
    chains on the rune: no index operation, hence no outcome [Panic] on this path (Dbc/Totality.v
    [parse_total] covers [p_string_identifier] with [ident_valid]).

    Strings are lists of bytes (Z in 0..255; the theorem needs no range hypothesis). *)
From Coq Require Import ZArith List Bool Lia.
From CanVerif Require Import Dbc.Ast Dbc.Scanner Dbc.ScannerInv Dbc.Parser.
Import ListNotations.
Open Scope Z_scope.

(** the loop `for i, r := range id`: [n] = fuel (>= the number of bytes left), [i] = byte index *)
Fixpoint validate_loop (n : nat) (i : Z) (bs : bytes) : bool :=
  match n with
  | O => true
  | S n' =>
    match bs with
    | [] => true
    | _ =>
      let '(r, w) := utf8_decode bs in
      if (i =? 0) && negb (r =? 95) && negb (is_alpha r) then false               (* invalid first char *)
      else if (0 <? i) && negb (r =? 95) && negb (is_alpha r) && negb (is_num r) then false  (* invalid char *)
      else validate_loop n' (i + w) (skipn (Z.to_nat w) bs)
    end
  end.

(** Identifier.Validate: true = nil error *)
Definition validate (id : bytes) : bool :=
  if blen id =? 0 then false                       (* zero-length *)
  else if 128 <? blen id then false                (* exceeds max length *)
  else validate_loop (length id) 0 id.

(** ---- proofs *)
Ltac Zify.zify_post_hook ::= Z.div_mod_to_equations.

Lemma lor_ge_128 : forall a b, 128 <= a -> 0 <= b -> 128 <= Z.lor a b.
Proof.
  intros a b Ha Hb.
  assert (H0 : 0 <= Z.lor a b) by (apply Z.lor_nonneg; lia).
  assert (Hl : 7 <= Z.log2 (Z.lor a b)).
  { rewrite Z.log2_lor by lia. assert (Z.log2 128 <= Z.log2 a) by (apply Z.log2_le_mono; lia).
    change (Z.log2 128) with 7 in H. lia. }
  destruct (Z.eq_dec (Z.lor a b) 0) as [E|E]. { rewrite E in Hl. cbn in Hl. lia. }
  change 128 with (2 ^ 7). apply Z.log2_le_pow2; lia.
Qed.

Lemma lor_ge_128_r : forall a b, 0 <= a -> 128 <= b -> 128 <= Z.lor a b.
Proof. intros. rewrite Z.lor_comm. apply lor_ge_128; assumption. Qed.

Lemma shl_ge : forall x k, 1 <= x -> 7 <= k -> 128 <= Z.shiftl x k.
Proof.
  intros x k Hx Hk. rewrite Z.shiftl_mul_pow2 by lia.
  assert (2 ^ 7 <= 2 ^ k) by (apply Z.pow_le_mono_r; lia). change (2 ^ 7) with 128 in H. nia.
Qed.

Lemma shl6_ge : forall x, 2 <= x -> 128 <= Z.shiftl x 6.
Proof. intros. rewrite Z.shiftl_mul_pow2 by lia. change (2 ^ 6) with 64. lia. Qed.

Lemma land_mod : forall a n, 0 <= n -> Z.land a (Z.ones n) = a mod 2 ^ n.
Proof. intros. apply Z.land_ones. assumption. Qed.

(** a byte >= 0x80 never decodes to a rune below 0x80 *)
Lemma utf8_decode_hi : forall b0 t r w, 128 <= b0 -> utf8_decode (b0 :: t) = (r, w) -> 128 <= r.
Proof.
  intros b0 t r w Hb H. unfold utf8_decode in H.
  assert (Hre : 128 <= rune_error) by (unfold rune_error; lia).
  destruct (b0 <? 128) eqn:E0. { apply Z.ltb_lt in E0. lia. }
  destruct (b0 <? 194) eqn:E1. { injection H as ? ?; subst. exact Hre. }
  apply Z.ltb_ge in E1.
  destruct (b0 <? 224) eqn:E2.
  { apply Z.ltb_lt in E2.
    destruct t as [|b1 t']. { injection H as ? ?; subst; exact Hre. }
    destruct (is_cont b1); injection H as ? ?; subst; try exact Hre.
    unfold rune2. apply lor_ge_128; [| apply land_nonneg'; lia].
    apply shl6_ge. change 31 with (Z.ones 5). rewrite land_mod by lia. change (2 ^ 5) with 32.
    lia. }
  apply Z.ltb_ge in E2.
  destruct (b0 <? 240) eqn:E3.
  { apply Z.ltb_lt in E3.
    destruct t as [|b1 [|b2 t']]; try (injection H as ? ?; subst; exact Hre).
    match type of H with (if ?c then _ else _) = _ => destruct c eqn:Ec end; injection H as ? ?; subst; try exact Hre.
    apply andb_prop in Ec. destruct Ec as [Ec _]. apply andb_prop in Ec. destruct Ec as [Elo Ehi].
    apply Z.leb_le in Elo. apply Z.leb_le in Ehi.
    unfold rune3. apply lor_ge_128; [| apply land_nonneg'; lia].
    destruct (b0 =? 224) eqn:E224.
    - apply Z.eqb_eq in E224. subst b0.
      apply lor_ge_128_r. { apply shl_land_nonneg; lia. }
      apply shl6_ge. change 63 with (Z.ones 6). rewrite land_mod by lia. change (2 ^ 6) with 64.
      change (224 =? 237) with false in Ehi. change (224 =? 224) with true in Elo. cbv iota in Elo, Ehi. lia.
    - apply Z.eqb_neq in E224. apply lor_ge_128. 2:{ apply shl_land_nonneg; lia. }
      apply shl_ge; [| lia]. change 15 with (Z.ones 4). rewrite land_mod by lia. change (2 ^ 4) with 16. lia. }
  apply Z.ltb_ge in E3.
  destruct (b0 <? 245) eqn:E4.
  { apply Z.ltb_lt in E4.
    destruct t as [|b1 [|b2 [|b3 t']]]; try (injection H as ? ?; subst; exact Hre).
    match type of H with (if ?c then _ else _) = _ => destruct c eqn:Ec end; injection H as ? ?; subst; try exact Hre.
    apply andb_prop in Ec. destruct Ec as [Ec _]. apply andb_prop in Ec. destruct Ec as [Ec _].
    apply andb_prop in Ec. destruct Ec as [Elo Ehi].
    apply Z.leb_le in Elo. apply Z.leb_le in Ehi.
    unfold rune4. apply lor_ge_128; [| apply land_nonneg'; lia].
    apply lor_ge_128; [| apply shl_land_nonneg; lia].
    destruct (b0 =? 240) eqn:E240.
    - apply Z.eqb_eq in E240. subst b0.
      apply lor_ge_128_r. { apply shl_land_nonneg; lia. }
      apply shl_ge; [| lia]. change 63 with (Z.ones 6). rewrite land_mod by lia. change (2 ^ 6) with 64.
      change (240 =? 244) with false in Ehi. change (240 =? 240) with true in Elo. cbv iota in Elo, Ehi. lia.
    - apply Z.eqb_neq in E240. apply lor_ge_128. 2:{ apply shl_land_nonneg; lia. }
      apply shl_ge; [| lia]. change 7 with (Z.ones 3). rewrite land_mod by lia. change (2 ^ 3) with 8. lia. }
  injection H as ? ?; subst. exact Hre.
Qed.

Lemma hi_not_ident : forall r, 128 <= r -> (r =? 95) = false /\ is_alpha r = false /\ is_num r = false.
Proof.
  intros r H. unfold is_alpha, is_num. repeat split.
  - apply Z.eqb_neq. lia.
  - assert (r <=? 90 = false) by (apply Z.leb_gt; lia). assert (r <=? 122 = false) by (apply Z.leb_gt; lia).
    rewrite H0, H1, !andb_false_r. reflexivity.
  - assert (r <=? 57 = false) by (apply Z.leb_gt; lia). rewrite H0, andb_false_r. reflexivity.
Qed.

Lemma ident_char_hi : forall c, 128 <= c -> ident_char c = false.
Proof. intros c H. unfold ident_char. destruct (hi_not_ident c H) as (-> & -> & ->). reflexivity. Qed.

(** one step of the loop on a byte list [b0 :: t]: either b0 is ASCII and is the rune, or both the
    rune and b0 are rejected *)
Lemma decode_cases : forall b0 t,
  (b0 < 128 /\ utf8_decode (b0 :: t) = (b0, 1))
  \/ (128 <= b0 /\ exists r w, utf8_decode (b0 :: t) = (r, w) /\ 128 <= r).
Proof.
  intros b0 t. destruct (Z_lt_le_dec b0 128) as [Hl|Hg].
  - left. split; [assumption|]. unfold utf8_decode. apply Z.ltb_lt in Hl. rewrite Hl. reflexivity.
  - right. split; [assumption|]. destruct (utf8_decode (b0 :: t)) as [r w] eqn:E. exists r, w. split; [reflexivity|].
    apply (utf8_decode_hi b0 t r w); assumption.
Qed.

Lemma validate_loop_rest : forall n bs i, (length bs <= n)%nat -> 0 < i ->
  validate_loop n i bs = forallb ident_char bs.
Proof.
  induction n as [|n IH]; intros bs i Hn Hi.
  - destruct bs; [reflexivity | cbn in Hn; lia].
  - destruct bs as [|b0 t]; [reflexivity|].
    cbn [validate_loop forallb].
    destruct (decode_cases b0 t) as [[Hl E] | [Hg (r & w & E & Hr)]]; rewrite E.
    + assert (E0 : (i =? 0) = false) by (apply Z.eqb_neq; lia). rewrite E0. cbn [andb].
      assert (E1 : (0 <? i) = true) by (apply Z.ltb_lt; lia). rewrite E1. cbn [andb].
      change (skipn (Z.to_nat 1) (b0 :: t)) with t.
      unfold ident_char at 1.
      destruct (b0 =? 95); cbn [negb andb orb]. { apply IH; [cbn in Hn; lia | lia]. }
      destruct (is_alpha b0); cbn [negb andb orb]. { apply IH; [cbn in Hn; lia | lia]. }
      destruct (is_num b0); cbn [negb andb orb]. { apply IH; [cbn in Hn; lia | lia]. }
      reflexivity.
    + destruct (hi_not_ident r Hr) as (-> & -> & ->).
      assert (E0 : (i =? 0) = false) by (apply Z.eqb_neq; lia). rewrite E0.
      assert (E1 : (0 <? i) = true) by (apply Z.ltb_lt; lia). rewrite E1. cbn [negb andb].
      rewrite (ident_char_hi b0 Hg). reflexivity.
Qed.

Theorem validate_bytewise : forall id, validate id = ident_valid id.
Proof.
  intros id. unfold validate, ident_valid.
  destruct id as [|b0 t]. { reflexivity. }
  assert (Hpos : 1 <= blen (b0 :: t)) by (rewrite blen_cons; pose proof (blen_nonneg t); lia).
  assert (E0 : (blen (b0 :: t) =? 0) = false) by (apply Z.eqb_neq; lia). rewrite E0.
  destruct (128 <? blen (b0 :: t)) eqn:EL.
  { apply Z.ltb_lt in EL. assert (E : (blen (b0 :: t) <=? 128) = false) by (apply Z.leb_gt; lia). rewrite E. reflexivity. }
  apply Z.ltb_ge in EL. assert (E : (blen (b0 :: t) <=? 128) = true) by (apply Z.leb_le; lia). rewrite E. cbn [andb].
  cbn [length validate_loop].
  destruct (decode_cases b0 t) as [[Hl Ed] | [Hg (r & w & Ed & Hr)]]; rewrite Ed.
  - change (0 =? 0) with true. change (0 <? 0) with false. cbn [andb].
    change (skipn (Z.to_nat 1) (b0 :: t)) with t.
    destruct (b0 =? 95); cbn [negb andb orb]. { apply validate_loop_rest; lia. }
    destruct (is_alpha b0); cbn [negb andb orb]. { apply validate_loop_rest; lia. }
    reflexivity.
  - destruct (hi_not_ident r Hr) as (-> & -> & _). destruct (hi_not_ident b0 Hg) as (-> & -> & _). reflexivity.
Qed.
