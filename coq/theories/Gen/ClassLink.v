(** Link between the two class predicates of the generator families.

      C11 (Gen/ApiSpec.v)    [in_class43 : database -> bool]   the class of DESIGN.md 4.3
      C03 / C10              [wf_message m /\ wf_mux m /\ wf_defaults m /\ wf_header m]
                             (decidable form [in_theorem_class], Gen/ClassCheck.v)

    Until now the two were connected only by evaluating both on every sampled program. Here the
    inclusion is PROVED, for every database and with NO extra hypothesis:

      class43_in_theorem_class :
        in_class43 db = true -> In m (db_messages db) ->
        wf_message m /\ wf_mux m /\ wf_defaults m /\ wf_header m.

    (the converse is false: [in_class43] also constrains names, texts, scaling, selector ranges ...;
     see [theorem_class_not_in_class43].)

    What had to be checked, clause by clause ([message_ok] / [signal_ok] / [layout_ok] on the left):
      - geometry: ApiSpec describes the bits of a signal as a position LIST ([positions] =
        [le_positions] / [be_positions], the saw-tooth walk), Layout describes them as the RANGE of the
        write Frame() performs ([covers (write_of s 0)]). [positions_covers]: for 1 <= length <= 64,
        0 <= start, (float -> length = 32) and 0 <= k,
            In k (positions s) <-> covers (write_of s 0) k = true,
        including the 1-bit case: a 1-bit signal is written with SetBit = a little-endian range of
        length 1 whatever its byte order, and [positions] of a 1-bit big-endian signal is [start] too;
      - "every position p has 0 <= p < 8 * msg_length <= 64" gives the fit condition of [wf_signal]
        (little-endian: start + length <= 64; big-endian: stream start + length <= 64);
      - the four disjointness clauses of [layout_ok] (plain/plain, plain/multiplexed, multiplexed with
        equal selectors, via [nodupz]/[disjointz] of position lists) give [compat] for every ordered
        pair, also when the signal list has repeated entries;
      - multiplexer: ApiSpec finds it with [find_mux] (the signal), Message with [mux_index] (its
        index); both take the FIRST signal flagged as multiplexer ([mux_index_find_mux]), and
        [layout_ok] demands it is neither multiplexed nor float;
      - start values: [in_raw_range] admits ANY int64 for a float32 signal, while [wf_defaults] asks
        that [f32_bits_of_int (s_default s)] is a 32-bit pattern: true for every |n| <= 2^63
        ([f32_bits_of_int_range]); for 1-bit signals 0/1, for integers the raw range: identical;
      - header: id < 2^11 / 2^29 and 0 <= length <= 8: identical.

    Coq stdlib only. *)
From Coq Require Import ZArith List Bool Lia.
From CanVerif Require Import Can.Data Can.DataSpec Can.CheckProofs Can.DataProofs Descriptor.Types
  Gen.Message Gen.History Gen.Layout Gen.RoundTrip Gen.HistoryProofs Gen.ClassCheck
  Gen.Api Gen.ApiSpec Gen.ApiProofs.
Import ListNotations.
Open Scope Z_scope.
Ltac Zify.zify_post_hook ::= Z.div_mod_to_equations.

(** * position lists in closed form *)
Lemma le_positions_In n : forall s k, In k (le_positions s n) <-> s <= k < s + Z.of_nat n.
Proof.
  induction n as [|n IH]; intros s k; cbn [le_positions In].
  - lia.
  - rewrite IH. lia.
Qed.

Lemma stream_inj a b : 0 <= a -> 0 <= b -> stream a = stream b -> a = b.
Proof. unfold stream. lia. Qed.

Lemma be_positions_In n : forall s k, 0 <= s -> 0 <= k ->
  (In k (be_positions s n) <-> 0 <= stream k - stream s < Z.of_nat n).
Proof.
  induction n as [|n IH]; intros s k Hs Hk; cbn [be_positions In].
  - lia.
  - change (if s mod 8 =? 0 then s + 15 else s - 1) with (be_next s).
    rewrite (IH (be_next s) k (be_next_nonneg s Hs) Hk), (stream_be_next s Hs).
    split.
    + intros [->|H]; lia.
    + intros H. destruct (Z.eq_dec (stream k) (stream s)) as [E|E].
      * left. symmetry. apply stream_inj; assumption.
      * right. lia.
Qed.

(** * the write of a signal: start, length, byte order *)
(** the facts of [signal_ok] that concern geometry *)
Definition geom (s : signal) : Prop :=
  1 <= s_length s <= 64 /\ 0 <= s_start s /\ (s_float s = true -> s_length s = 32).

Lemma write_of_geometry s v : geom s ->
  w_s (write_of s v) = s_start s /\ w_l (write_of s v) = s_length s /\
  w_be (write_of s v) = s_big_endian s && negb (s_length s =? 1).
Proof.
  intros (Hl & _ & Hf). unfold write_of, signal_super_type.
  destruct (s_float s) eqn:F.
  - rewrite (Hf eq_refl). cbn. rewrite andb_true_r. auto.
  - rewrite andb_false_r. destruct (Z.eqb_spec (s_length s) 1) as [E|E].
    + cbn. rewrite andb_false_r. auto.
    + rewrite andb_true_r. destruct (s_signed s); cbn; auto.
Qed.

(** KEY STEP: the position list of ApiSpec and the covered range of Layout are the same set *)
Theorem positions_covers s k : geom s -> 0 <= k ->
  (In k (positions s) <-> covers (write_of s 0) k = true).
Proof.
  intros G Hk. destruct (write_of_geometry s 0 G) as (Es & El & Eb). destruct G as (Hl & Hs & _).
  unfold covers. rewrite Es, El, Eb. cbv zeta. unfold positions.
  destruct (Z.eqb_spec (s_length s) 1) as [E|E].
  - (* one bit: [start], whatever the byte order *)
    rewrite andb_false_r, E. change (Z.to_nat 1) with 1%nat.
    rewrite andb_true_iff, Z.leb_le, Z.ltb_lt.
    destruct (s_big_endian s); cbn [be_positions le_positions In]; lia.
  - rewrite andb_true_r. destruct (s_big_endian s).
    + rewrite be_positions_In by assumption. rewrite andb_true_iff, Z.leb_le, Z.ltb_lt. lia.
    + rewrite le_positions_In. rewrite andb_true_iff, Z.leb_le, Z.ltb_lt. lia.
Qed.

(** * signal_ok -> geometry, start value; positions inside the message -> wf_signal *)
Lemma signal_ok_geom s : signal_ok s = true ->
  1 <= s_length s <= 64 /\ 0 <= s_start s < 64 /\ (s_float s = true -> s_length s = 32) /\
  in_raw_range s (s_default s) = true.
Proof.
  intros H. pose proof (signal_ok_facts s H) as F.
  split; [apply (sf_len s F)|]. split; [|split; [apply (sf_float s F)|apply (sf_default s F)]].
  unfold signal_ok in H. repeat (apply andb_prop in H as [H ?]).
  match goal with X : (0 <=? s_start s) = true |- _ => apply Z.leb_le in X end.
  match goal with X : (s_start s <? 64) = true |- _ => apply Z.ltb_lt in X end.
  lia.
Qed.

Lemma signal_ok_geom' s : signal_ok s = true -> geom s.
Proof. intros H. destruct (signal_ok_geom s H) as (A & B & C & _). unfold geom. repeat split; try assumption; lia. Qed.

Lemma class_wf_signal s ml :
  signal_ok s = true -> ml <= 8 ->
  forallb (fun p => (0 <=? p) && (p <? 8 * ml)) (positions s) = true ->
  wf_signal s.
Proof.
  intros Hok Hml Hpos. destruct (signal_ok_geom s Hok) as (Hl & Hs & Hf & _).
  rewrite forallb_forall in Hpos.
  assert (P : forall p, In p (positions s) -> 0 <= p < 64).
  { intros p Hp. specialize (Hpos p Hp). apply andb_prop in Hpos as [A B].
    apply Z.leb_le in A. apply Z.ltb_lt in B. lia. }
  unfold wf_signal. split; [exact Hl|]. split; [exact Hf|].
  unfold positions in P.
  destruct (Z.eqb_spec (s_length s) 1) as [E|E].
  - rewrite andb_false_r. lia.
  - rewrite andb_true_r. destruct (s_big_endian s).
    + split; [exact Hs|].
      (* the last bit of the walk *)
      pose (k := stream (stream (s_start s) + s_length s - 1)).
      assert (Hst : 0 <= stream (s_start s)) by (apply stream_nonneg; lia).
      assert (Hk : 0 <= k) by (apply stream_nonneg; lia).
      assert (Ek : stream k = stream (s_start s) + s_length s - 1) by (apply stream_involutive; lia).
      assert (Hin : In k (be_positions (s_start s) (Z.to_nat (s_length s)))).
      { apply be_positions_In; lia. }
      specialize (P k Hin). unfold stream in Ek |- *. lia.
    + assert (Hin : In (s_start s + s_length s - 1) (le_positions (s_start s) (Z.to_nat (s_length s)))).
      { apply le_positions_In. lia. }
      specialize (P _ Hin). lia.
Qed.

(** * lists without repetition *)
Lemma existsb_eqb_In x l : existsb (Z.eqb x) l = true <-> In x l.
Proof.
  rewrite existsb_exists. split.
  - intros (y & Hy & E). apply Z.eqb_eq in E. subst. exact Hy.
  - intros H. exists x. split; [exact H|apply Z.eqb_refl].
Qed.

Lemma nodupz_app_inv a b :
  nodupz (a ++ b) = true -> nodupz b = true /\ (forall k, In k a -> In k b -> False).
Proof.
  induction a as [|x a IH]; cbn [app nodupz]; [auto|].
  intros H. apply andb_prop in H as [H1 H2]. apply negb_true_iff in H1.
  destruct (IH H2) as [Hb Hd]. split; [exact Hb|].
  intros k [->|Hk] Hkb; [|eauto].
  assert (X : existsb (Z.eqb k) (a ++ b) = true) by (apply existsb_eqb_In, in_or_app; right; exact Hkb).
  congruence.
Qed.

Lemma disjointz_spec a b : disjointz a b = true -> forall k, In k a -> In k b -> False.
Proof.
  unfold disjointz. rewrite forallb_forall. intros H k Ha Hb. specialize (H k Ha).
  apply negb_true_iff in H. rewrite (proj2 (existsb_eqb_In k b) Hb) in H. discriminate.
Qed.

(** * the disjointness clauses of layout_ok give a relation on every ordered pair *)
(** no common position *)
Definition apart (a b : signal) : Prop := forall k, In k (positions a) -> In k (positions b) -> False.

Definition lcompat (a b : signal) : Prop :=
  (s_multiplexed a = true /\ s_multiplexed b = true /\ s_mux_value a <> s_mux_value b) \/ apart a b.

Lemma layout_pairs (l : list signal) :
  nodupz (flat_map positions (filter ApiSpec.is_plain l)) = true ->
  (forall s, In s (filter s_multiplexed l) -> forall p, In p (filter ApiSpec.is_plain l) -> apart s p) ->
  (forall s, In s (filter s_multiplexed l) ->
     nodupz (flat_map positions (filter (fun s' => s_mux_value s' =? s_mux_value s) (filter s_multiplexed l))) = true) ->
  ForallOrdPairs lcompat l.
Proof.
  induction l as [|x tl IH]; intros H1 H2 H3; [constructor|].
  cbn [filter] in H1, H2, H3. unfold ApiSpec.is_plain in H1, H2 at 1.
  destruct (s_multiplexed x) eqn:Ex; cbn [negb] in H1, H2.
  - (* x is multiplexed *)
    constructor.
    + apply Forall_forall. intros y Hy. destruct (s_multiplexed y) eqn:Ey.
      * destruct (Z.eq_dec (s_mux_value x) (s_mux_value y)) as [E|E]; [|left; auto].
        right. pose proof (H3 x (or_introl eq_refl)) as N. cbn [filter] in N.
        rewrite Z.eqb_refl in N. cbn [flat_map] in N. apply nodupz_app_inv in N as [_ N].
        intros k Hx Hk. apply (N k Hx). apply in_flat_map. exists y. split; [|exact Hk].
        apply filter_In. split; [apply filter_In; auto|]. apply Z.eqb_eq. auto.
      * right. apply (H2 x (or_introl eq_refl) y). apply filter_In. split; [exact Hy|].
        unfold ApiSpec.is_plain. rewrite Ey. reflexivity.
    + apply IH.
      * exact H1.
      * intros s Hs p Hp. apply (H2 s (or_intror Hs) p Hp).
      * intros s Hs. pose proof (H3 s (or_intror Hs)) as N. cbn [filter] in N.
        destruct (s_mux_value x =? s_mux_value s); [|exact N].
        cbn [flat_map] in N. apply nodupz_app_inv in N as [N _]. exact N.
  - (* x is plain *)
    cbn [flat_map] in H1. apply nodupz_app_inv in H1 as [H1 N].
    constructor.
    + apply Forall_forall. intros y Hy. right. destruct (s_multiplexed y) eqn:Ey.
      * intros k Hx Hk. apply (H2 y (proj2 (filter_In _ _ _) (conj Hy Ey)) x (or_introl eq_refl) k Hk Hx).
      * intros k Hx Hk. apply (N k Hx). apply in_flat_map. exists y. split; [|exact Hk].
        apply filter_In. split; [exact Hy|]. unfold ApiSpec.is_plain. rewrite Ey. reflexivity.
    + apply IH.
      * exact H1.
      * intros s Hs p Hp. apply (H2 s Hs p (or_intror Hp)).
      * exact H3.
Qed.

Lemma fop_impl_in {A} (P : A -> Prop) (R R' : A -> A -> Prop) l :
  (forall a b, P a -> P b -> R a b -> R' a b) -> Forall P l -> ForallOrdPairs R l -> ForallOrdPairs R' l.
Proof.
  intros Himp HP Hfop. induction Hfop as [|x l Hx Hl IH]; [constructor|].
  inversion HP as [|? ? Px Pl]; subst. constructor; [|apply IH; exact Pl].
  rewrite Forall_forall in *. intros y Hy. apply Himp; auto.
Qed.

Lemma apart_disjoint a b : geom a -> geom b -> apart a b -> disjoint (write_of a 0) (write_of b 0).
Proof.
  intros Ga Gb H k Hk Ha. destruct (covers (write_of b 0) k) eqn:Hb; [|reflexivity].
  exfalso. apply (H k); apply positions_covers; assumption || lia.
Qed.

(** * the multiplexer: first flagged signal, by index or by value *)
Lemma index_of_mux_find ss : forall k i, index_of_mux ss k = Some i ->
  exists s, nth_error ss (i - k) = Some s /\ find_mux ss = Some s /\ (k <= i)%nat.
Proof.
  induction ss as [|x ss IH]; intros k i H; cbn [index_of_mux find_mux] in *; [discriminate|].
  destruct (s_multiplexer x).
  - inversion H; subst. exists x. rewrite Nat.sub_diag. auto.
  - destruct (IH (S k) i H) as (s & Hn & Hm & Hle). exists s.
    replace (i - k)%nat with (S (i - S k)) by lia. cbn [nth_error]. split; [exact Hn|split; [exact Hm|lia]].
Qed.

Lemma mux_index_find_mux m i s :
  mux_index m = Some i -> nth_error (msg_signals m) i = Some s -> find_mux (msg_signals m) = Some s.
Proof.
  unfold mux_index. intros H Hn. destruct (index_of_mux_find _ _ _ H) as (s' & Hn' & Hf & _).
  rewrite Nat.sub_0_r in Hn'. congruence.
Qed.

(** * start values *)
(** an integer constant of int64 magnitude assigned to a float32 field is a 32-bit pattern *)
Lemma f32_bits_of_int_range n : - 2 ^ 63 <= n <= 2 ^ 63 -> 0 <= f32_bits_of_int n < 2 ^ 32.
Proof.
  intros Hn. unfold f32_bits_of_int. destruct (Z.eqb_spec n 0) as [E|E]; [change (2 ^ 32) with 4294967296; lia|].
  cbv zeta. set (m := Z.abs n). set (e := Z.log2 m).
  assert (Hm : 1 <= m <= 2 ^ 63) by (unfold m; lia).
  assert (He0 : 0 <= e) by apply Z.log2_nonneg.
  assert (He63 : e <= 63).
  { unfold e. rewrite <- (Z.log2_pow2 63) by lia. apply Z.log2_le_mono. lia. }
  destruct (Z.log2_spec m ltac:(lia)) as [Lo Hi]. fold e in Lo, Hi.
  rewrite Z.pow_succ_r in Hi by exact He0.
  assert (Hmant : 0 <= (if e <=? 23 then m * 2 ^ (23 - e) - 2 ^ 23 else m / 2 ^ (e - 23) - 2 ^ 23) < 2 ^ 23).
  { destruct (Z.leb_spec e 23) as [L|L].
    - assert (C : 0 < 2 ^ (23 - e)) by (apply Z.pow_pos_nonneg; lia).
      assert (S23 : 2 ^ e * 2 ^ (23 - e) = 2 ^ 23) by (rewrite <- Z.pow_add_r by lia; f_equal; lia).
      pose proof (Z.mul_le_mono_nonneg_r _ _ (2 ^ (23 - e)) ltac:(lia) Lo).
      pose proof (proj1 (Z.mul_lt_mono_pos_r (2 ^ (23 - e)) _ _ C) Hi).
      change (2 ^ 23) with 8388608 in *. lia.
    - assert (C : 0 < 2 ^ (e - 23)) by (apply Z.pow_pos_nonneg; lia).
      assert (S23 : 2 ^ (e - 23) * 2 ^ 23 = 2 ^ e) by (rewrite <- Z.pow_add_r by lia; f_equal; lia).
      assert (Q1 : 2 ^ 23 <= m / 2 ^ (e - 23)) by (apply Z.div_le_lower_bound; [exact C|lia]).
      assert (Q2 : m / 2 ^ (e - 23) < 2 * 2 ^ 23).
      { apply Z.div_lt_upper_bound; [exact C|]. lia. }
      lia. }
  change (2 ^ 23) with 8388608 in *. change (2 ^ 31) with 2147483648. change (2 ^ 32) with 4294967296.
  destruct (n <? 0); lia.
Qed.

Lemma in_range_int s v : s_length s <> 1 -> s_float s = false ->
  in_range s v = (raw_lo s <=? v) && (v <=? raw_hi s).
Proof.
  intros Hl Hf. unfold in_range, signal_prim_type. rewrite Hf, andb_false_r.
  rewrite (proj2 (Z.eqb_neq _ _) Hl).
  repeat match goal with |- context [if ?c then _ else _] => destruct c end; reflexivity.
Qed.

Lemma class_default s : signal_ok s = true -> in_range s (reset_value s) = true.
Proof.
  intros Hok. destruct (signal_ok_geom s Hok) as (Hl & _ & Hf & Hd).
  unfold in_raw_range in Hd. unfold reset_value.
  destruct (Z.eqb_spec (s_length s) 1) as [E|E].
  - unfold in_range, signal_prim_type. rewrite E. cbn [Z.eqb Pos.eqb andb].
    destruct (s_default s =? 1); reflexivity.
  - destruct (s_float s) eqn:F.
    + rewrite (Hf eq_refl). cbn [Z.eqb Pos.eqb andb].
      unfold in_range, signal_prim_type. rewrite F, (Hf eq_refl). cbn [Z.eqb Pos.eqb andb].
      apply andb_prop in Hd as [A B]. apply Z.leb_le in A. apply Z.ltb_lt in B.
      pose proof (f32_bits_of_int_range (s_default s) ltac:(lia)) as R.
      apply andb_true_iff. split; [apply Z.leb_le|apply Z.ltb_lt]; lia.
    + rewrite andb_false_r. rewrite in_range_int by assumption.
      unfold raw_lo, raw_hi. destruct (s_signed s); exact Hd.
Qed.

(** * the theorem *)
Lemma layout_ok_parts m : layout_ok m = true ->
  let ss := msg_signals m in
  forallb (fun s => forallb (fun p => (0 <=? p) && (p <? 8 * msg_length m)) (positions s)) ss = true /\
  ForallOrdPairs lcompat ss /\
  (forall mx, find_mux ss = Some mx -> s_multiplexed mx = false /\ s_float mx = false).
Proof.
  intros H. unfold layout_ok in H. cbv zeta in H. cbv zeta.
  repeat (apply andb_prop in H as [H ?]).
  split; [exact H|]. split.
  - apply layout_pairs.
    + assumption.
    + intros s Hs p Hp.
      match goal with X : forallb (fun s => disjointz _ _) _ = true |- _ =>
        rewrite forallb_forall in X; specialize (X s Hs); pose proof (disjointz_spec _ _ X) as D end.
      intros k Hk Hkp. apply (D k Hk). apply in_flat_map. exists p. auto.
    + intros s Hs.
      match goal with X : forallb (fun s => nodupz _) _ = true |- _ =>
        rewrite forallb_forall in X; exact (X s Hs) end.
  - intros mx Hf.
    match goal with X : match find_mux _ with _ => _ end = true |- _ => rewrite Hf in X; rename X into M end.
    repeat (apply andb_prop in M as [M ?]).
    split; apply negb_true_iff; assumption.
Qed.

Theorem class43_message_ok m :
  message_ok m = true -> wf_message m /\ wf_mux m /\ wf_defaults m /\ wf_header m.
Proof.
  intros Hm. destruct (message_ok_parts m Hm) as [Hsig Hlay].
  destruct (layout_ok_parts m Hlay) as (Hpos & Hpairs & Hmux). cbv zeta in *.
  unfold message_ok in Hm. repeat (apply andb_prop in Hm as [Hm ?]).
  assert (Hlen : 0 <= msg_length m <= 8).
  { repeat match goal with X : (_ <=? _) = true |- _ => apply Z.leb_le in X end. lia. }
  assert (Hgeom : Forall geom (msg_signals m)).
  { apply Forall_forall. intros s Hs. apply signal_ok_geom'. auto. }
  split; [|split; [|split]].
  - split.
    + apply Forall_forall. intros s Hs. rewrite forallb_forall in Hpos.
      apply (class_wf_signal s (msg_length m)); [auto|lia|auto].
    + apply (fop_impl_in geom lcompat compat (msg_signals m)); [|exact Hgeom|exact Hpairs].
      intros a b Ga Gb [L|A]; [left; exact L|right; apply apart_disjoint; assumption].
  - intros i s Hi Hn. apply Hmux. apply (mux_index_find_mux m i s Hi Hn).
  - apply Forall_forall. intros s Hs. apply class_default. auto.
  - unfold wf_header. split; [|exact Hlen].
    match goal with X : (msg_id m <? _) = true |- _ => apply Z.ltb_lt in X; rename X into Hid end.
    match goal with X : (0 <=? msg_id m) = true |- _ => apply Z.leb_le in X end.
    destruct (msg_extended m); [change (2 ^ 29) with 536870912 in Hid|change (2 ^ 11) with 2048 in Hid]; lia.
Qed.

(** every message of a database of the class of DESIGN.md 4.3 satisfies the hypotheses of the
    C03 / C10 theorems *)
Theorem class43_in_theorem_class : forall db m,
  in_class43 db = true -> In m (db_messages db) ->
  wf_message m /\ wf_mux m /\ wf_defaults m /\ wf_header m.
Proof. intros db m H Hm. apply class43_message_ok. apply (class_message_ok db m H Hm). Qed.

(** * the boolean form: [in_theorem_class] decides the hypotheses exactly *)
Lemma wf_signalb_complete s : wf_signal s -> wf_signalb s = true.
Proof.
  unfold wf_signal, wf_signalb. intros (H1 & H2 & H3). rewrite !andb_true_iff, !Z.leb_le.
  split; [split; [lia|]|].
  - destruct (s_float s); [apply Z.eqb_eq; auto|reflexivity].
  - destruct (s_big_endian s && negb (s_length s =? 1)).
    + rewrite !andb_true_iff, !Z.leb_le, Z.ltb_lt. lia.
    + rewrite !andb_true_iff, !Z.leb_le. lia.
Qed.

Lemma disjointb_complete w1 w2 : disjoint w1 w2 -> disjointb w1 w2 = true.
Proof.
  intros H. unfold disjointb. apply forallb_forall. intros k Hk.
  apply in_map_iff in Hk as (n & <- & Hn). apply in_seq in Hn.
  destruct (covers w1 (Z.of_nat n)) eqn:E; [|reflexivity].
  assert (Hk : 0 <= Z.of_nat n < 64) by lia.
  rewrite (H _ Hk E). reflexivity.
Qed.

Lemma compatb_complete s1 s2 : compat s1 s2 -> compatb s1 s2 = true.
Proof.
  unfold compat, compatb. intros [(A & B & C)|D]; apply orb_true_iff.
  - left. rewrite A, B. apply negb_true_iff, Z.eqb_neq. exact C.
  - right. apply disjointb_complete. exact D.
Qed.

Lemma fopb_complete {A} (r : A -> A -> bool) (R : A -> A -> Prop) l :
  (forall a b, R a b -> r a b = true) -> ForallOrdPairs R l -> fopb r l = true.
Proof.
  intros Hc H. induction H as [|x l Hx Hl IH]; [reflexivity|]. cbn [fopb].
  apply andb_true_iff. split; [|exact IH]. apply forallb_forall. rewrite Forall_forall in Hx. auto.
Qed.

Lemma wf_muxb_complete m : wf_mux m -> wf_muxb m = true.
Proof.
  unfold wf_mux, wf_muxb. intros H. destruct (mux_index m) as [i|]; [|reflexivity].
  destruct (nth_error (msg_signals m) i) as [s|] eqn:E; [|reflexivity].
  destruct (H i s eq_refl E) as [-> ->]. reflexivity.
Qed.

Lemma wf_headerb_complete m : wf_header m -> wf_headerb m = true.
Proof.
  unfold wf_header, wf_headerb. intros [H1 H2]. rewrite !andb_true_iff, !Z.leb_le.
  split; [split; [split|]|]; try lia; destruct (msg_extended m); try apply Z.leb_le; lia.
Qed.

Theorem in_theorem_class_iff m :
  in_theorem_class m = true <-> wf_message m /\ wf_mux m /\ wf_defaults m /\ wf_header m.
Proof.
  split; [apply in_theorem_class_sound|]. intros ([Hs Hc] & Hmux & Hdef & Hhdr).
  unfold in_theorem_class, wf_messageb, wf_defaultsb. rewrite !andb_true_iff.
  split; [split; [split; [split|]|]|].
  - apply forallb_forall. rewrite Forall_forall in Hs. intros s Hin. apply wf_signalb_complete. auto.
  - apply (fopb_complete compatb compat); [exact compatb_complete|exact Hc].
  - apply wf_muxb_complete. exact Hmux.
  - apply forallb_forall. unfold wf_defaults in Hdef. rewrite Forall_forall in Hdef. exact Hdef.
  - apply wf_headerb_complete. exact Hhdr.
Qed.

Theorem class43_in_theorem_classb : forall db m,
  in_class43 db = true -> In m (db_messages db) -> in_theorem_class m = true.
Proof. intros db m H Hm. apply in_theorem_class_iff. exact (class43_in_theorem_class db m H Hm). Qed.

Corollary class43_all_in_theorem_class db :
  in_class43 db = true -> forallb in_theorem_class (db_messages db) = true.
Proof. intros H. apply forallb_forall. intros m Hm. exact (class43_in_theorem_classb db m H Hm). Qed.

(** * a concrete multiplexed database of the class (the theorem is not vacuous)
      "Link", 8 bytes, standard id 0x123:
        A    plain           little-endian  8 bits at 8
        Sel  multiplexer     big-endian     2 bits at 1            (bits 1, 0)
        F    selector 2      big-endian     float32 at 23, start value -2^63
        I    selector 3      little-endian  signed 12 bits at 16, start value -2048  (shares bits with F)
        Bt   selector 3      big-endian     1 bit at 63, start value 1
        J    selector 2      big-endian     8 bits at 55 *)
Definition link_sig (name : bytes) (start len : Z) (be signed float mux muxed : bool) (muxv dflt : Z) : signal :=
  {| s_name := name; s_start := start; s_length := len; s_big_endian := be; s_signed := signed; s_float := float;
     s_multiplexer := mux; s_multiplexed := muxed; s_mux_value := muxv; s_offset := 0; s_scale := f64_one;
     s_min := 0; s_max := 0; s_unit := []; s_description := []; s_value_descriptions := [];
     s_receivers := []; s_default := dflt |}.
Definition link_msg : message :=
  {| msg_name := [76; 105; 110; 107] (* Link *); msg_id := 0x123; msg_extended := false; msg_length := 8;
     msg_send_type := SendNone; msg_description := [];
     msg_signals :=
       [ link_sig [65] (* A *) 8 8 false false false false false 0 255;
         link_sig [83; 101; 108] (* Sel *) 1 2 true false false true false 0 3;
         link_sig [70] (* F *) 23 32 true false true false true 2 (- 2 ^ 63);
         link_sig [73] (* I *) 16 12 false true false false true 3 (-2048);
         link_sig [66; 116] (* Bt *) 63 1 true false false false true 3 1;
         link_sig [74] (* J *) 55 8 true false false false true 2 0 ];
     msg_sender := []; msg_cycle_time := 0; msg_delay_time := 0 |}.
Definition link_db : database :=
  {| db_source_file := []; db_version := []; db_messages := [link_msg]; db_nodes := [] |}.

Example class43_link_example :
  in_class43 link_db = true /\ In link_msg (db_messages link_db) /\
  mux_index link_msg = Some 1%nat /\
  (wf_message link_msg /\ wf_mux link_msg /\ wf_defaults link_msg /\ wf_header link_msg) /\
  in_theorem_class link_msg = true.
Proof.
  assert (H : in_class43 link_db = true) by (vm_compute; reflexivity).
  assert (Hm : In link_msg (db_messages link_db)) by (left; reflexivity).
  split; [exact H|]. split; [exact Hm|]. split; [reflexivity|].
  split; [exact (class43_in_theorem_class link_db link_msg H Hm)|exact (class43_in_theorem_classb link_db link_msg H Hm)].
Qed.

(** the example database of C11 (Gen/ApiProofs.v [ex_db], two messages, one multiplexed) as well *)
Example class43_link_example_c11 :
  in_class43 ex_db = true /\
  forall m, In m (db_messages ex_db) -> wf_message m /\ wf_mux m /\ wf_defaults m /\ wf_header m.
Proof.
  assert (H : in_class43 ex_db = true) by (vm_compute; reflexivity).
  split; [exact H|]. intros m Hm. exact (class43_in_theorem_class ex_db m H Hm).
Qed.

(** the inclusion is strict: a selector outside the multiplexer's range (here 4 for a 2-bit
    multiplexer) is excluded by DESIGN.md 4.3 but not by the hypotheses of C03 / C10 *)
Definition strict_msg : message :=
  {| msg_name := [77] (* M *); msg_id := 1; msg_extended := false; msg_length := 8;
     msg_send_type := SendNone; msg_description := [];
     msg_signals := [ link_sig [83] 0 2 false false false true false 0 0;
                      link_sig [66] 16 8 false false false false true 4 0 ];
     msg_sender := []; msg_cycle_time := 0; msg_delay_time := 0 |}.
Example theorem_class_not_in_class43 :
  in_theorem_class strict_msg = true /\
  in_class43 {| db_source_file := []; db_version := []; db_messages := [strict_msg]; db_nodes := [] |} = false.
Proof. vm_compute. auto. Qed.
