(** Integer printers used by the renderers (pkg/cantext, pkg/canjson, pkg/candebug), on top of the
    shared digit machinery of Base/Dec.v and Base/Hex.v (imported, not edited):

      strconv.AppendUint(buf, u, 10) / FormatUint(u, 10)     [dec_u]   (= Dec.itoa on 0 <= u)
      strconv.Itoa(int) / FormatInt(i, 10)                    [dec_s]   (= Dec.itoa)
      strconv.AppendUint(buf, u, 16)                          [hex_u]   minimal lower-case digits
      strconv.AppendBool                                      [bool_text]

    with the round-trip lemmas parse (print n) = n over the FULL 64-bit ranges:
      [dec_u_parse]  ParseUint(dec_u n, 10, 64) = n       for 0 <= n < 2^64
      [dec_s_parse]  Atoi(dec_s n) = n                    for -2^63 <= n < 2^63
      [hex_u_parse]  ParseUint(hex_u n, 16, 64) = n       for 0 <= n < 2^64
    and the JSON grammar fact [dec_json_number] (every printed integer is an RFC 8259 number).

    Strings are [list Z] of bytes.  [lit] turns a Coq string literal into bytes; it is only ever
    used under [Eval compute] so neither [string] nor [ascii] reaches extracted code. *)
From Coq Require Import ZArith List Bool Lia String Ascii.
From CanVerif Require Import Base.Dec Base.Hex.
Import ListNotations.
Open Scope Z_scope.

Definition lit (s : string) : list Z := List.map (fun c => Z.of_nat (nat_of_ascii c)) (list_ascii_of_string s).

(** * Printers *)
Definition dec_u (n : Z) : list Z := itoa n.
Definition dec_s (n : Z) : list Z := itoa n.
Definition hex_u (n : Z) : list Z := map hexdig_lower (digits 16 n).
Definition true_text : list Z := Eval compute in lit "true".
Definition false_text : list Z := Eval compute in lit "false".
Definition bool_text (b : bool) : list Z := if b then true_text else false_text.

(** * JSON number grammar (RFC 8259 section 6), as a predicate on byte strings *)
Definition is_dig (c : Z) : Prop := 48 <= c <= 57.
Definition digit_str (s : list Z) : Prop := s <> [] /\ Forall is_dig s.
(** int = "0" / ( digit1-9 *DIGIT ) *)
Definition json_int (s : list Z) : Prop :=
  s = [48] \/ exists c r, s = c :: r /\ 49 <= c <= 57 /\ Forall is_dig r.
(** frac = "." 1*DIGIT (optional) *)
Definition json_frac (s : list Z) : Prop := s = [] \/ exists r, s = 46 :: r /\ digit_str r.
(** exp = ("e" / "E") [ "-" / "+" ] 1*DIGIT (optional) *)
Definition json_exp (s : list Z) : Prop :=
  s = [] \/ exists e sg r, s = e :: sg ++ r /\ (e = 101 \/ e = 69) /\ (sg = [] \/ sg = [43] \/ sg = [45]) /\ digit_str r.
(** number = [ "-" ] int [ frac ] [ exp ] *)
Definition json_number (s : list Z) : Prop :=
  exists sg i f e, s = sg ++ i ++ f ++ e /\ (sg = [] \/ sg = [45]) /\ json_int i /\ json_frac f /\ json_exp e.

(** * Lemmas *)

Lemma itoa_neg n : n < 0 -> itoa n = 45 :: itoa (- n).
Proof.
  intros H. unfold itoa. destruct (Z.ltb_spec n 0); [|lia]. destruct (Z.ltb_spec (- n) 0); [lia|]. reflexivity.
Qed.

(** ** decimal, unsigned, full uint64 range *)
Lemma dec_u_parse n : 0 <= n < 2 ^ 64 -> parse_uint (dec_u n) 10 64 = PU_ok n.
Proof. apply parse_uint_itoa. Qed.

(** ** decimal, signed, full int64 range *)
Lemma atoi_digits ds : ds <> [] -> Forall (fun c => 48 <= c <= 57) ds ->
  atoi ds = (let v := value 10 (map (fun c => c - 48) ds) in if v <? 2 ^ 63 then Some v else None).
Proof.
  intros Hne Hd. destruct ds as [|c r]; [congruence|]. unfold atoi.
  inversion Hd as [|? ? Hc Hr]; subst.
  destruct (Z.eqb_spec c 45); [lia|]. destruct (Z.eqb_spec c 43); [lia|]. cbn [orb].
  assert (E : forallb is_digit (c :: r) = true).
  { apply forallb_forall. intros x Hin. rewrite Forall_forall in Hd. specialize (Hd x Hin).
    unfold is_digit. apply andb_true_iff. split; apply Z.leb_le; lia. }
  rewrite E. reflexivity.
Qed.

Lemma forallb_is_digit ds : Forall (fun c => 48 <= c <= 57) ds -> forallb is_digit ds = true.
Proof.
  intros Hd. apply forallb_forall. intros x Hin. rewrite Forall_forall in Hd. specialize (Hd x Hin).
  unfold is_digit. apply andb_true_iff. split; apply Z.leb_le; lia.
Qed.

Lemma atoi_neg_digits ds : ds <> [] -> Forall (fun c => 48 <= c <= 57) ds ->
  atoi (45 :: ds) = (let v := value 10 (map (fun c => c - 48) ds) in if v <=? 2 ^ 63 then Some (- v) else None).
Proof.
  intros Hne Hd. destruct ds as [|c r]; [congruence|].
  change (atoi (45 :: c :: r)) with
    (if forallb is_digit (c :: r)
     then (let v := value 10 (map (fun c => c - 48) (c :: r)) in if v <=? 2 ^ 63 then Some (- v) else None)
     else None).
  rewrite forallb_is_digit by exact Hd. reflexivity.
Qed.

Lemma itoa_nonempty n : 0 <= n -> itoa n <> [].
Proof. intros Hn. destruct (itoa_shape n Hn) as [E|(c & r & E & _)]; rewrite E; discriminate. Qed.

Lemma dec_s_parse n : - 2 ^ 63 <= n < 2 ^ 63 -> atoi (dec_s n) = Some n.
Proof.
  intros Hn. unfold dec_s. destruct (Z_lt_le_dec n 0) as [Hneg|Hpos].
  - rewrite itoa_neg by exact Hneg.
    rewrite atoi_neg_digits by (apply itoa_nonempty || apply itoa_digits; lia).
    cbv zeta. rewrite itoa_value by lia.
    destruct (Z.leb_spec (- n) (2 ^ 63)); [f_equal; lia|lia].
  - rewrite atoi_digits by (apply itoa_nonempty || apply itoa_digits; lia).
    cbv zeta. rewrite itoa_value by exact Hpos.
    destruct (Z.ltb_spec n (2 ^ 63)); [reflexivity|lia].
Qed.

(** ** hexadecimal, minimal lower-case digits, full uint64 range *)
Lemma hex_u_digits n : 0 <= n -> Forall is_hex_lower (hex_u n) /\ hex_u n <> [].
Proof.
  intros Hn. unfold hex_u. pose proof (digits_range 16 ltac:(lia) n Hn) as Hr.
  pose proof (digits_nonempty 16 ltac:(lia) n Hn) as Hne. split.
  - apply Forall_forall. intros c Hin. apply in_map_iff in Hin. destruct Hin as (d & <- & Hin).
    rewrite Forall_forall in Hr. apply hexdig_lower_spec, Hr, Hin.
  - destruct (digits 16 n); [congruence|discriminate].
Qed.

Lemma hex_u_value n : 0 <= n -> hex_value (hex_u n) = n.
Proof.
  intros Hn. unfold hex_value, hex_u.
  rewrite (map_map_id hexdig_lower hex_val (fun d => 0 <= d < 16)).
  - apply digits_value; lia.
  - apply hexdig_lower_spec.
  - apply digits_range; lia.
Qed.

Lemma hex_u_parse n : 0 <= n < 2 ^ 64 -> parse_uint (hex_u n) 16 64 = PU_ok n.
Proof.
  intros Hn. destruct (hex_u_digits n ltac:(lia)) as [Hd Hne].
  pose proof (hex_u_value n ltac:(lia)) as Hv. unfold hex_value, value in Hv.
  unfold parse_uint. destruct (hex_u n) as [|c0 r0] eqn:E; [congruence|]. rewrite <- E in *. clear E c0 r0.
  rewrite (pu_loop_ok 16 (2 ^ 64 - 1) hex_val); try lia.
  - rewrite Hv. reflexivity.
  - apply Forall_forall. intros c Hin. rewrite Forall_forall in Hd. specialize (Hd c Hin).
    apply is_hex_lower_hex in Hd. split; [apply pu_digit_hex|apply hex_val_range]; exact Hd.
Qed.

(** no leading zero: the printed text is the MINIMAL digit string ("0" for 0) *)
Lemma hex_u_minimal n : 0 < n -> hd 0 (hex_u n) <> 48.
Proof.
  intros Hn. unfold hex_u. destruct (digits_shape 16 ltac:(lia) n ltac:(lia)) as [_ Hh]. specialize (Hh Hn).
  pose proof (digits_range 16 ltac:(lia) n ltac:(lia)) as Hr.
  destruct (digits 16 n) as [|d r]; [cbn in Hh; congruence|]. cbn [map hd] in *.
  inversion Hr; subst. unfold hexdig_lower. destruct (Z.ltb_spec d 10); lia.
Qed.

(** ** every printed integer is a JSON number *)
Lemma itoa_json_int n : 0 <= n -> json_int (itoa n).
Proof.
  intros Hn. destruct (itoa_shape n Hn) as [E|(c & r & E & Hc & Hr)]; [left; exact E|].
  right. exists c, r. repeat split; try assumption; lia.
Qed.

Lemma dec_json_number n : json_number (itoa n).
Proof.
  destruct (Z_lt_le_dec n 0) as [Hneg|Hpos].
  - exists [45], (itoa (- n)), [], []. rewrite itoa_neg by exact Hneg. rewrite !app_nil_r.
    repeat split; [right; reflexivity|apply itoa_json_int; lia|left; reflexivity|left; reflexivity].
  - exists [], (itoa n), [], []. rewrite !app_nil_r.
    repeat split; [left; reflexivity|apply itoa_json_int; lia|left; reflexivity|left; reflexivity].
Qed.
