(** Layout of a message as a list of bit-range writes (connects the descriptor interpreter
    to the write histories of C02). DEFINITIONS ONLY. *)
From Coq Require Import ZArith List Bool.
From CanVerif Require Import Can.Data Can.DataSpec Can.DataProofs Descriptor.Types Gen.Message Gen.History.
Import ListNotations.
Open Scope Z_scope.

(** the bits a field value occupies on the wire *)
Definition wire_value (s : signal) (v : Z) : Z :=
  match signal_super_type s with
  | StFloat => f32_quiet v
  | StBool => if v =? 0 then 0 else 1
  | StSigned => v mod 2 ^ s_length s
  | StUnsigned => u64 v
  end.

(** a 1-bit signal is written with SetBit: a little-endian range of length 1 *)
Definition write_of (s : signal) (v : Z) : write :=
  match signal_super_type s with
  | StBool => {| w_be := false; w_s := s_start s; w_l := 1; w_v := wire_value s v |}
  | _ => {| w_be := s_big_endian s; w_s := s_start s; w_l := s_length s; w_v := wire_value s v |}
  end.

(** geometry well-formedness: the range fits the 64 payload bits; float signals are 32 bits wide *)
Definition wf_signal (s : signal) : Prop :=
  1 <= s_length s <= 64 /\
  (s_float s = true -> s_length s = 32) /\
  (if s_big_endian s && negb (s_length s =? 1)
   then 0 <= s_start s < 64 /\ stream (s_start s) + s_length s <= 64
   else 0 <= s_start s /\ s_start s + s_length s <= 64).

(** two signals may share payload bits only if both are multiplexed with different selectors *)
Definition compat (s1 s2 : signal) : Prop :=
  (s_multiplexed s1 = true /\ s_multiplexed s2 = true /\ s_mux_value s1 <> s_mux_value s2) \/
  disjoint (write_of s1 0) (write_of s2 0).

Definition wf_message (m : message) : Prop :=
  Forall wf_signal (msg_signals m) /\ ForallOrdPairs compat (msg_signals m).

(** signals transferred for a given multiplexer field value *)
Definition is_plain (it : signal * Z) : bool := negb (s_multiplexed (fst it)).
Definition is_selected (muxv : Z) (it : signal * Z) : bool :=
  s_multiplexed (fst it) && (muxv =? s_mux_value (fst it)).
Definition is_active (muxv : Z) (it : signal * Z) : bool := is_plain it || is_selected muxv it.

Definition item_write (it : signal * Z) : write := write_of (fst it) (snd it).

(** the writes Frame() performs, in execution order: all plain signals, then the selected ones *)
Definition mux_value_of (m : message) (st : state) : option Z :=
  match mux_index m with Some i => Some (nth i st 0) | None => None end.
Definition active_writes (m : message) (st : state) : list write :=
  let items := combine (msg_signals m) st in
  map item_write (filter is_plain items) ++
  match mux_value_of m st with
  | Some muxv => map item_write (filter (is_selected muxv) items)
  | None => []
  end.
