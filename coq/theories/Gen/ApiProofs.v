(** Proofs for Gen/Api.v against Gen/ApiSpec.v (property C11).

    1. float64 comparisons on bit patterns = comparisons of the exact values ([mag_val_mono],
       [f64_ltb_fval], [f64_eqb_fval]); float64(bound) for the bounds 2^L-1, -2^(L-1), 2^(L-1)-1 of
       every length 1..64 compares like the exact integer ([len_ok], checked by computation for the 64
       lengths: above 53 bits 2^L-1 rounds up to 2^L and no binary64 lies in between), hence
       [has_physical = has_physical_spec] on finite scaling fields.
    2. field types: [signal_prim_type = prim_type_spec], narrowest width.
    3. node groups: collectRx/TxMessages = filters by the declarative membership; hasSendType gate.
    4. conversion typing: every conversion of [db_convs db] satisfies [conv_ok] on [in_class43].
    5. F4: [api_old_refuted], a database of the class for which the unfixed decision gives physical
       accessors to a 1-bit signal and emits float64(bool) / SaturatedCastBool.
    No axioms. *)
From Coq Require Import ZArith List Bool Lia.
From CanVerif Require Import Descriptor.Types Descriptor.Signal Gen.Message Gen.Api Gen.ApiSpec.
Import ListNotations.
Open Scope Z_scope.

Lemma two52_pos : 0 < 2 ^ 52. Proof. reflexivity. Qed.

(** mag_val is strictly monotone *)
Lemma mag_val_mono : forall m1 m2, 0 <= m1 -> m1 < m2 -> mag_val m1 < mag_val m2.
Proof.
  intros m1 m2 H0 Hlt. unfold mag_val.
  pose proof (Z.div_mod m1 (2 ^ 52) ltac:(lia)) as D1.
  pose proof (Z.div_mod m2 (2 ^ 52) ltac:(lia)) as D2.
  pose proof (Z.mod_pos_bound m1 (2 ^ 52) two52_pos) as B1.
  pose proof (Z.mod_pos_bound m2 (2 ^ 52) two52_pos) as B2.
  assert (E1 : 0 <= m1 / 2 ^ 52) by (apply Z.div_pos; lia).
  assert (E12 : m1 / 2 ^ 52 <= m2 / 2 ^ 52) by (apply Z.div_le_mono; lia).
  set (e1 := m1 / 2 ^ 52) in *. set (e2 := m2 / 2 ^ 52) in *.
  set (f1 := m1 mod 2 ^ 52) in *. set (f2 := m2 mod 2 ^ 52) in *.
  destruct (Z.eq_dec e1 e2) as [Ee | Ne].
  - assert (f1 < f2) by nia.
    rewrite <- Ee. destruct (e1 =? 0) eqn:Z1; [lia|].
    apply Z.eqb_neq in Z1.
    assert (0 < 2 ^ (e1 - 1)) by (apply Z.pow_pos_nonneg; lia). nia.
  - assert (e1 < e2) by lia.
    destruct (e2 =? 0) eqn:Z2; [apply Z.eqb_eq in Z2; lia|].
    assert (P2 : 1 <= 2 ^ (e2 - 1)) by (apply (Z.pow_le_mono_r 2 0 (e2 - 1)); lia).
    destruct (e1 =? 0) eqn:Z1.
    + nia.
    + apply Z.eqb_neq in Z1.
      assert (P1 : 0 < 2 ^ (e1 - 1)) by (apply Z.pow_pos_nonneg; lia).
      assert (P12 : 2 * 2 ^ (e1 - 1) <= 2 ^ (e2 - 1)).
      { replace (2 * 2 ^ (e1 - 1)) with (2 ^ (Z.succ (e1 - 1))) by (rewrite Z.pow_succ_r; lia).
        apply Z.pow_le_mono_r; lia. }
      nia.
Qed.

Lemma mag_val_0 : mag_val 0 = 0. Proof. reflexivity. Qed.

Lemma f64_mag_nonneg : forall b, 0 <= f64_mag b.
Proof. intro b. unfold f64_mag. apply Z.mod_pos_bound. reflexivity. Qed.

Lemma mag_val_facts : forall a b, 0 <= a -> 0 <= b ->
  (a < b -> mag_val a < mag_val b) /\ (b < a -> mag_val b < mag_val a) /\ (a = b -> mag_val a = mag_val b)
  /\ 0 <= mag_val a /\ 0 <= mag_val b /\ (mag_val a = 0 <-> a = 0) /\ (mag_val b = 0 <-> b = 0).
Proof.
  intros a b Ha Hb.
  assert (N : forall x, 0 <= x -> 0 <= mag_val x /\ (mag_val x = 0 <-> x = 0)).
  { intros x Hx. destruct (Z.eq_dec x 0) as [->|Nx]; [rewrite mag_val_0; lia|].
    pose proof (mag_val_mono 0 x ltac:(lia) ltac:(lia)) as M. rewrite mag_val_0 in M. lia. }
  destruct (N a Ha) as [Na1 Na2], (N b Hb) as [Nb1 Nb2].
  split; [intro; apply mag_val_mono; lia|].
  split; [intro; apply mag_val_mono; lia|].
  split; [intros ->; reflexivity|].
  tauto.
Qed.

Lemma finite_not_nan : forall b, f64_finite b = true -> f64_is_nan b = false.
Proof. unfold f64_finite, f64_is_nan. intros b H. apply Z.ltb_lt in H. apply Z.ltb_ge. lia. Qed.

(** the pattern comparisons are the comparisons of the exact values *)
Lemma f64_ltb_fval : forall a b, f64_finite a = true -> f64_finite b = true ->
  f64_ltb a b = (fval a <? fval b).
Proof.
  intros a b Fa Fb. unfold f64_ltb. rewrite (finite_not_nan a Fa), (finite_not_nan b Fb). cbn [negb andb].
  unfold f64_key, fval.
  pose proof (mag_val_facts (f64_mag a) (f64_mag b) (f64_mag_nonneg a) (f64_mag_nonneg b)) as (M1 & M2 & M3 & M4 & M5 & M6 & M7).
  pose proof (f64_mag_nonneg a). pose proof (f64_mag_nonneg b).
  destruct (f64_sign a), (f64_sign b);
    destruct (Z.ltb_spec (- f64_mag a) (- f64_mag b)); destruct (Z.ltb_spec (- f64_mag a) (f64_mag b));
    destruct (Z.ltb_spec (f64_mag a) (- f64_mag b)); destruct (Z.ltb_spec (f64_mag a) (f64_mag b));
    symmetry; first [apply Z.ltb_lt | apply Z.ltb_ge]; lia.
Qed.

Lemma f64_eqb_fval : forall a b, f64_finite a = true -> f64_finite b = true ->
  f64_eqb a b = (fval a =? fval b).
Proof.
  intros a b Fa Fb. unfold f64_eqb. rewrite (finite_not_nan a Fa), (finite_not_nan b Fb). cbn [negb andb].
  unfold f64_key, fval.
  pose proof (mag_val_facts (f64_mag a) (f64_mag b) (f64_mag_nonneg a) (f64_mag_nonneg b)) as (M1 & M2 & M3 & M4 & M5 & M6 & M7).
  pose proof (f64_mag_nonneg a). pose proof (f64_mag_nonneg b).
  destruct (f64_sign a), (f64_sign b);
    destruct (Z.eqb_spec (- f64_mag a) (- f64_mag b)); destruct (Z.eqb_spec (- f64_mag a) (f64_mag b));
    destruct (Z.eqb_spec (f64_mag a) (- f64_mag b)); destruct (Z.eqb_spec (f64_mag a) (f64_mag b));
    symmetry; first [apply Z.eqb_eq | apply Z.eqb_neq]; lia.
Qed.

(** * The integer bounds: float64(bound) compared on patterns = exact comparison with the bound *)
Definition pos_bound_ok (n : Z) : bool :=
  let c := f64_of_int n in
  f64_finite c && negb (f64_sign c)
  && ((fval c =? scaled n)
      || ((scaled n <? fval c) && (1 <=? f64_mag c) && (mag_val (f64_mag c - 1) <? scaled n))).
Definition exact_bound_ok (n : Z) : bool :=
  let c := f64_of_int n in f64_finite c && (fval c =? scaled n).

Lemma pos_bound_sound : forall n, pos_bound_ok n = true ->
  forall x, f64_finite x = true -> f64_ltb x (f64_of_int n) = (fval x <? scaled n).
Proof.
  intros n H x Fx. unfold pos_bound_ok in H. cbv zeta in H.
  apply andb_prop in H as [H H3]. apply andb_prop in H as [Fc Sc].
  apply negb_true_iff in Sc.
  rewrite (f64_ltb_fval _ _ Fx Fc).
  apply orb_prop in H3 as [E | H3].
  - apply Z.eqb_eq in E. rewrite E. reflexivity.
  - apply andb_prop in H3 as [H3 Q]. apply andb_prop in H3 as [P M1].
    apply Z.ltb_lt in P, Q. apply Z.leb_le in M1.
    assert (Vc : fval (f64_of_int n) = mag_val (f64_mag (f64_of_int n))) by (unfold fval; rewrite Sc; reflexivity).
    set (c := f64_of_int n) in *.
    pose proof (f64_mag_nonneg x) as Hx.
    pose proof (mag_val_facts (f64_mag x) (f64_mag c - 1) Hx ltac:(lia)) as (A1 & A2 & A3 & A4 & A5 & _).
    pose proof (mag_val_facts (f64_mag x) (f64_mag c) Hx ltac:(lia)) as (B1 & B2 & B3 & _).
    destruct (Z.ltb_spec (fval x) (fval c)) as [L | L]; symmetry; [apply Z.ltb_lt | apply Z.ltb_ge; lia].
    rewrite Vc in L. unfold fval in L |- *. destruct (f64_sign x); [lia|].
    assert (f64_mag x < f64_mag c) by (destruct (Z.lt_ge_cases (f64_mag x) (f64_mag c)) as [|G]; [assumption|];
      destruct (Z.eq_dec (f64_mag x) (f64_mag c)); [specialize (B3 ltac:(assumption)); lia | specialize (B2 ltac:(lia)); lia]).
    destruct (Z.eq_dec (f64_mag x) (f64_mag c - 1)) as [E|N]; [specialize (A3 E); lia | specialize (A1 ltac:(lia)); lia].
Qed.

Lemma exact_bound_sound : forall n, exact_bound_ok n = true ->
  forall x, f64_finite x = true ->
    f64_ltb x (f64_of_int n) = (fval x <? scaled n) /\ f64_gtb x (f64_of_int n) = (scaled n <? fval x).
Proof.
  intros n H x Fx. unfold exact_bound_ok in H. cbv zeta in H. apply andb_prop in H as [Fc E].
  apply Z.eqb_eq in E. unfold f64_gtb. rewrite (f64_ltb_fval _ _ Fx Fc), (f64_ltb_fval _ _ Fc Fx), E. auto.
Qed.

(** per signal length 1..64: the integer bounds as written in signal.go are 2^L-1, -2^(L-1), 2^(L-1)-1, and
    their float64 conversions compare like the exact integers (2^L-1 rounds UP to 2^L above 53 bits, and
    no binary64 lies in between) *)
Definition len_ok (l : Z) : bool :=
  (max_unsigned_l l =? 2 ^ l - 1) && (min_signed_l l =? - 2 ^ (l - 1)) && (max_signed_l l =? 2 ^ (l - 1) - 1)
  && pos_bound_ok (2 ^ l - 1) && pos_bound_ok (2 ^ (l - 1) - 1) && exact_bound_ok (- 2 ^ (l - 1)).

Lemma all_len_ok : forallb len_ok (map Z.of_nat (seq 1 64)) = true.
Proof. vm_compute. reflexivity. Qed.

Lemma len_ok_of : forall l, 1 <= l <= 64 -> len_ok l = true.
Proof.
  intros l H. pose proof all_len_ok as A. rewrite forallb_forall in A. apply A.
  apply in_map_iff. exists (Z.to_nat l). split; [lia|]. apply in_seq. lia.
Qed.

Lemma finite_zero : f64_finite f64_zero = true. Proof. reflexivity. Qed.
Lemma finite_one : f64_finite f64_one = true. Proof. reflexivity. Qed.
Lemma fval_zero : fval f64_zero = 0. Proof. reflexivity. Qed.
Lemma fval_one : fval f64_one = scaled 1. Proof. vm_compute. reflexivity. Qed.
Lemma finite_maxf32 : f64_finite f64_max_float32 = true. Proof. reflexivity. Qed.
Lemma finite_minf32 : f64_finite f64_min_float32 = true. Proof. reflexivity. Qed.
Lemma fval_maxf32 : fval f64_max_float32 = scaled ((2 ^ 24 - 1) * 2 ^ 104). Proof. vm_compute. reflexivity. Qed.
Lemma fval_minf32 : fval f64_min_float32 = scaled (- ((2 ^ 24 - 1) * 2 ^ 104)). Proof. vm_compute. reflexivity. Qed.

Lemma f64_neb_fval : forall a b, f64_finite a = true -> f64_finite b = true -> f64_neb a b = negb (fval a =? fval b).
Proof. intros. unfold f64_neb. rewrite f64_eqb_fval by assumption. reflexivity. Qed.

(** hasPhysicalRepresentation as written, on finite scaling fields and lengths 1..64, in exact terms *)
Theorem has_physical_old_exact : forall s,
  f64_finite (s_scale s) = true -> f64_finite (s_offset s) = true ->
  f64_finite (s_min s) = true -> f64_finite (s_max s) = true ->
  1 <= s_length s <= 64 ->
  has_physical_old s =
    ( (negb (fval (s_scale s) =? 0) && negb (fval (s_scale s) =? scaled 1))
      || negb (fval (s_offset s) =? 0)
      || ( (negb (fval (s_min s) =? 0) || negb (fval (s_max s) =? 0))
           && ( (scaled (raw_min s) <? fval (s_min s)) || (fval (s_max s) <? scaled (raw_max s)) ) ) ).
Proof.
  intros s Fs Fo Fmn Fmx HL. unfold has_physical_old. cbv zeta.
  rewrite !f64_neb_fval by (assumption || reflexivity).
  rewrite fval_zero, fval_one.
  f_equal. f_equal.
  unfold raw_min, raw_max, f64_gtb.
  destruct (s_float s).
  - rewrite !f64_ltb_fval by (assumption || reflexivity). rewrite fval_maxf32, fval_minf32. reflexivity.
  - pose proof (len_ok_of _ HL) as K. unfold len_ok in K.
    repeat (apply andb_prop in K as [K ?]).
    repeat match goal with H : (_ =? _) = true |- _ => apply Z.eqb_eq in H end.
    unfold min_signed, max_signed, max_unsigned.
    destruct (s_signed s).
    + match goal with H : min_signed_l _ = _ |- _ => rewrite H end.
      match goal with H : max_signed_l _ = _ |- _ => rewrite H end.
      match goal with H : exact_bound_ok _ = true |- _ => destruct (exact_bound_sound _ H _ Fmn) as [_ G] end.
      unfold f64_gtb in G. rewrite G.
      match goal with H : pos_bound_ok (2 ^ (s_length s - 1) - 1) = true |- _ => rewrite (pos_bound_sound _ H _ Fmx) end.
      reflexivity.
    + match goal with H : max_unsigned_l _ = _ |- _ => rewrite H end.
      rewrite (f64_ltb_fval _ _ finite_zero Fmn), fval_zero.
      match goal with H : pos_bound_ok (2 ^ s_length s - 1) = true |- _ => rewrite (pos_bound_sound _ H _ Fmx) end.
      reflexivity.
Qed.

Theorem has_physical_spec_correct : forall s,
  f64_finite (s_scale s) = true -> f64_finite (s_offset s) = true ->
  f64_finite (s_min s) = true -> f64_finite (s_max s) = true ->
  1 <= s_length s <= 64 ->
  has_physical s = has_physical_spec s.
Proof.
  intros. unfold has_physical, has_physical_spec. rewrite has_physical_old_exact by assumption. reflexivity.
Qed.

(** * Field types *)
Lemma narrowest_width_spec : forall l, l <= 64 ->
  In (narrowest_width l) go_widths /\ l <= narrowest_width l /\
  forall w, In w go_widths -> l <= w -> narrowest_width l <= w.
Proof.
  intros l H. unfold narrowest_width, go_widths. cbn [find].
  destruct (Z.leb_spec l 8); [|destruct (Z.leb_spec l 16); [|destruct (Z.leb_spec l 32); [|destruct (Z.leb_spec l 64)]]];
    (split; [cbn; tauto|]); (split; [lia|]); intros w Hw Hl; cbn in Hw; lia.
Qed.

Definition len_class (s : signal) : Prop :=
  1 <= s_length s <= 64 /\ (s_float s = true -> s_length s = 32).

Lemma prim_type_correct : forall s, len_class s -> signal_prim_type s = prim_type_spec s.
Proof.
  intros s [HL HF]. unfold signal_prim_type, prim_type_spec, narrowest_width, go_widths. cbn [find].
  destruct (s_float s) eqn:F.
  - rewrite (HF eq_refl). reflexivity.
  - rewrite andb_false_r.
    destruct (Z.eqb_spec (s_length s) 1); [reflexivity|].
    destruct (s_signed s); rewrite ?andb_true_r, ?andb_false_r;
      destruct (Z.leb_spec (s_length s) 8); try reflexivity;
      destruct (Z.leb_spec (s_length s) 16); try reflexivity;
      destruct (Z.leb_spec (s_length s) 32); try reflexivity;
      destruct (Z.leb_spec (s_length s) 64); try reflexivity; lia.
Qed.

(** * Node groups *)
Lemma beqb_eq : forall a b, beqb a b = true <-> a = b.
Proof.
  induction a as [|x a IH]; destruct b as [|y b]; cbn; try (split; congruence).
  rewrite andb_true_iff, Z.eqb_eq, IH. split; [intros [-> ->]; reflexivity | intro E; inversion E; auto].
Qed.

Lemma node_in_receivers_spec : forall rs n, node_in_receivers rs n = true <-> In n rs.
Proof.
  induction rs as [|r rs IH]; intro n; cbn; [split; [discriminate | tauto]|].
  destruct (beqb r n) eqn:E; cbn.
  - apply beqb_eq in E. subst. tauto.
  - rewrite IH. split; [tauto|]. intros [->|]; [|assumption].
    assert (beqb n n = true) by (apply beqb_eq; reflexivity). congruence.
Qed.

Lemma node_in_signals_spec : forall ss n,
  node_in_signals ss n = true <-> exists s, In s ss /\ In n (s_receivers s).
Proof.
  induction ss as [|s ss IH]; intro n; cbn.
  - split; [discriminate | intros (s & [] & _)].
  - destruct (node_in_receivers (s_receivers s) n) eqn:E.
    + apply node_in_receivers_spec in E. split; [|reflexivity]. intros _. exists s. auto.
    + rewrite IH. split.
      * intros (s' & H1 & H2). exists s'. auto.
      * intros (s' & [<-|H1] & H2); [apply node_in_receivers_spec in H2; congruence | exists s'; auto].
Qed.

Lemma collect_rx_filter : forall ms n,
  collect_rx_msgs ms n = filter (fun m => node_in_signals (msg_signals m) n) ms.
Proof. induction ms as [|m ms IH]; intro n; cbn; [reflexivity|]. rewrite IH. reflexivity. Qed.

Lemma collect_tx_filter : forall ms n,
  collect_tx_msgs ms n = filter (fun m => beqb (msg_sender m) n && negb (is_send_none (msg_send_type m))) ms.
Proof. induction ms as [|m ms IH]; intro n; cbn; [reflexivity|]. rewrite IH. reflexivity. Qed.

Lemma is_send_none_spec : forall t, negb (is_send_none t) = true <-> t <> SendNone.
Proof. destruct t; cbn; split; congruence. Qed.

Theorem rx_group_correct : forall db n,
  exists f, collect_rx db n = filter f (db_messages db) /\
            forall m, f m = true <-> receives (node_name n) m.
Proof.
  intros db n. exists (fun m => node_in_signals (msg_signals m) (node_name n)). split.
  - apply collect_rx_filter.
  - intro m. apply node_in_signals_spec.
Qed.

Theorem tx_group_correct : forall db n,
  exists f, collect_tx db n = filter f (db_messages db) /\
            forall m, f m = true <-> sends_with_type (node_name n) m.
Proof.
  intros db n. exists (fun m => beqb (msg_sender m) (node_name n) && negb (is_send_none (msg_send_type m))). split.
  - apply collect_tx_filter.
  - intro m. unfold sends_with_type. rewrite andb_true_iff, beqb_eq, is_send_none_spec. tauto.
Qed.

Lemma has_send_type_spec : forall ms,
  has_send_type_msgs ms = true <-> exists m, In m ms /\ msg_send_type m <> SendNone.
Proof.
  induction ms as [|m ms IH]; cbn.
  - split; [discriminate | intros (m & [] & _)].
  - destruct (negb (is_send_none (msg_send_type m))) eqn:E.
    + apply is_send_none_spec in E. split; [|reflexivity]. intros _. exists m. auto.
    + rewrite IH. split.
      * intros (m' & H1 & H2). exists m'. auto.
      * intros (m' & [<-|H1] & H2); [apply is_send_none_spec in H2; congruence | exists m'; auto].
Qed.

Theorem node_code_gate : forall db,
  (exists m, In m (db_messages db) /\ msg_send_type m <> SendNone) ->
  api_nodes (api_of_db db) = Some (map (node_api_of db) (db_nodes db)).
Proof.
  intros db H. apply has_send_type_spec in H. unfold api_of_db, api_of_db_with, has_send_type. cbn. rewrite H. reflexivity.
Qed.

Theorem node_code_gate_none : forall db,
  (forall m, In m (db_messages db) -> msg_send_type m = SendNone) ->
  api_nodes (api_of_db db) = None.
Proof.
  intros db H. unfold api_of_db, api_of_db_with, has_send_type. cbn.
  destruct (has_send_type_msgs (db_messages db)) eqn:E; [|reflexivity].
  apply has_send_type_spec in E as (m & H1 & H2). specialize (H m H1). congruence.
Qed.

(** * Conversion typing on the class *)
Lemma forallb_map' : forall A B (g : A -> B) (f : B -> bool) l, forallb f (map g l) = forallb (fun x => f (g x)) l.
Proof. induction l as [|x l IH]; cbn; [reflexivity | rewrite IH; reflexivity]. Qed.

Lemma fits_signed : forall l w v, 1 <= l <= w -> - 2 ^ (l - 1) <= v <= 2 ^ (l - 1) - 1 -> const_fits (CInt v) (BInt w) = true.
Proof.
  intros l w v H1 H2. cbn. assert (2 ^ (l - 1) <= 2 ^ (w - 1)) by (apply Z.pow_le_mono_r; lia).
  apply andb_true_iff. split; apply Z.leb_le; lia.
Qed.
Lemma fits_unsigned : forall l w v, 0 <= l <= w -> 0 <= v <= 2 ^ l - 1 -> const_fits (CInt v) (BUint w) = true.
Proof.
  intros l w v H1 H2. cbn. assert (2 ^ l <= 2 ^ w) by (apply Z.pow_le_mono_r; lia).
  apply andb_true_iff. split; apply Z.leb_le; lia.
Qed.
Lemma fits_float32 : forall v, - 2 ^ 63 <= v < 2 ^ 63 -> const_fits (CInt v) BFloat32 = true.
Proof. intros v H. cbn. apply Z.ltb_lt. assert (2 ^ 63 < 2 ^ 127) by reflexivity. lia. Qed.

(** what [signal_ok] gives *)
Record signal_facts (s : signal) : Prop := {
  sf_len : 1 <= s_length s <= 64;
  sf_float : s_float s = true -> s_length s = 32;
  sf_default : in_raw_range s (s_default s) = true;
  sf_values : forall vd, In vd (s_value_descriptions s) -> in_raw_range s (vdesc_value vd) = true;
  sf_scale : f64_finite (s_scale s) = true;
  sf_offset : f64_finite (s_offset s) = true;
  sf_min : f64_finite (s_min s) = true;
  sf_max : f64_finite (s_max s) = true
}.

Lemma signal_ok_facts : forall s, signal_ok s = true -> signal_facts s.
Proof.
  intros s H. unfold signal_ok in H.
  repeat (apply andb_prop in H as [H ?]).
  constructor.
  - split; apply Z.leb_le; assumption.
  - intro F. rewrite F in *. match goal with X : (_ =? 32) && _ = true |- _ => apply andb_prop in X as [X _]; apply Z.eqb_eq in X; exact X end.
  - assumption.
  - intros vd Hv. match goal with X : forallb (fun vd => in_raw_range s (vdesc_value vd)) _ = true |- _ => rewrite forallb_forall in X; exact (X vd Hv) end.
  - assumption.
  - assumption.
  - assumption.
  - assumption.
Qed.

Lemma len_class_of : forall s, signal_facts s -> len_class s.
Proof. intros s F. split; [apply (sf_len s F) | apply (sf_float s F)]. Qed.

(** the multiplexer clause of [layout_ok], as needed for [m.xxx_Mux == <selector>] *)
Definition mux_facts (m : message) (s : signal) : Prop :=
  s_multiplexed s = true -> forall mx, find_mux (msg_signals m) = Some mx ->
    In mx (msg_signals m) /\ s_signed mx = false /\ s_float mx = false /\ 2 <= s_length mx /\
    0 <= s_mux_value s <= 2 ^ s_length mx - 1.

Lemma find_mux_In : forall ss mx, find_mux ss = Some mx -> In mx ss.
Proof.
  induction ss as [|s ss IH]; cbn; [discriminate|]. intros mx. destruct (s_multiplexer s).
  - intros [= <-]. auto.
  - intro H. right. apply IH. assumption.
Qed.

Lemma layout_mux_facts : forall m s, layout_ok m = true -> In s (msg_signals m) -> mux_facts m s.
Proof.
  intros m s H Hs Hm mx Hf. unfold layout_ok in H. cbv zeta in H.
  apply andb_prop in H as [_ H]. rewrite Hf in H.
  assert (Hin : In s (filter s_multiplexed (msg_signals m))) by (apply filter_In; auto).
  repeat (apply andb_prop in H as [H ?]).
  apply negb_true_iff in H.
  match goal with X : negb (s_float mx) = true |- _ => apply negb_true_iff in X end.
  match goal with X : forallb _ (filter s_multiplexed _) = true |- _ => rewrite forallb_forall in X; specialize (X s Hin);
    apply andb_prop in X as [X1 X2]; apply Z.leb_le in X1, X2 end.
  split; [apply find_mux_In; assumption|].
  repeat split; try assumption; try lia.
  destruct (filter s_multiplexed (msg_signals m)); [destruct Hin|].
  match goal with X : (2 <=? _) = true |- _ => apply Z.leb_le in X; exact X end.
Qed.

Lemma raw_setter_ok : forall t u st,
  (is_numeric t && is_numeric u) || basic_eqb t u = true ->
  (is_numeric (super_basic st) && is_numeric t) || basic_eqb (super_basic st) t = true ->
  basic_eqb u (super_basic st) = true -> st <> StBool ->
  forallb conv_ok [CConvert t u; CSat st; CArg u (super_basic st); CConvert (super_basic st) t] = true.
Proof. intros t u st H1 H2 H3 H4. cbn. rewrite H1, H2, H3. destruct st; try reflexivity. congruence. Qed.

Theorem signal_convs_ok : forall m s,
  signal_facts s -> mux_facts m s ->
  (forall mx, In mx (msg_signals m) -> signal_facts mx) ->
  forallb conv_ok (signal_convs_with has_physical m s) = true.
Proof.
  intros m s F MF Fall.
  pose proof (len_class_of s F) as LC. pose proof (sf_len s F) as HL.
  unfold signal_convs_with. cbv zeta. rewrite (prim_type_correct s LC).
  rewrite !forallb_app, !forallb_map'.
  (* the multiplexer comparison *)
  assert (MUX : forallb conv_ok
            (if s_multiplexed s then
               match find_mux (msg_signals m) with
               | Some mx => [CConst (CInt (s_mux_value s)) (basic_of_prim (signal_prim_type mx))]
               | None => []
               end else []) = true).
  { destruct (s_multiplexed s) eqn:E; [|reflexivity].
    destruct (find_mux (msg_signals m)) as [mx|] eqn:Fm; [|reflexivity].
    destruct (MF E mx Fm) as (Hin & Sg & Fl & L2 & Rg).
    pose proof (Fall mx Hin) as Fmx.
    rewrite (prim_type_correct mx (len_class_of mx Fmx)). unfold prim_type_spec. rewrite Fl, Sg.
    destruct (Z.eqb_spec (s_length mx) 1); [lia|].
    pose proof (sf_len mx Fmx).
    destruct (narrowest_width_spec (s_length mx) ltac:(lia)) as (_ & Hw & _).
    cbn [forallb conv_ok basic_of_prim]. rewrite (fits_unsigned (s_length mx)); [reflexivity | lia | lia]. }
  rewrite MUX. clear MUX.
  pose proof (sf_default s F) as Dflt. pose proof (sf_values s F) as Vals.
  unfold in_raw_range in Dflt, Vals.
  unfold prim_type_spec, signal_prim_super, signal_super_type, has_physical, reset_const, enum_const_val.
  destruct (s_float s) eqn:Fl.
  - (* float32 *)
    pose proof (sf_float s F Fl) as L32.
    assert (E1 : (s_length s =? 1) = false) by (apply Z.eqb_neq; lia).
    assert (E32 : (s_length s <=? 32) = true) by (apply Z.leb_le; lia).
    rewrite E1 in *. rewrite E32.
    cbn [andb basic_of_prim super_basic forallb app].
    assert (D : conv_ok (CConst (CInt (s_default s)) BFloat32) = true).
    { cbn [conv_ok]. apply fits_float32. apply andb_prop in Dflt as [A B]. apply Z.leb_le in A. apply Z.ltb_lt in B. lia. }
    assert (V : forallb (fun vd => conv_ok (CConst (CInt (vdesc_value vd)) BFloat32)) (s_value_descriptions s) = true).
    { apply forallb_forall. intros vd Hv. specialize (Vals vd Hv). cbn [conv_ok]. apply fits_float32.
      apply andb_prop in Vals as [A B]. apply Z.leb_le in A. apply Z.ltb_lt in B. lia. }
    rewrite D, V.
    destruct (has_custom_type s); [rewrite forallb_map', V|]; destruct ((1 <? s_length s) && has_physical_old s); reflexivity.
  - rewrite andb_false_r.
    destruct (Z.eqb_spec (s_length s) 1) as [L1|L1].
    + (* bool *)
      assert (E11 : (1 <? s_length s) = false) by (apply Z.ltb_ge; lia).
      rewrite E11. cbn [andb basic_of_prim super_basic forallb app].
      assert (D : conv_ok (CConst (if s_default s =? 1 then CBool true else CBool false) BBool) = true)
        by (destruct (s_default s =? 1); reflexivity).
      assert (V : forallb (fun vd => conv_ok (CConst
                (if vdesc_value vd =? 1 then CBool true else if vdesc_value vd =? 0 then CBool false else CInt (vdesc_value vd)) BBool))
                (s_value_descriptions s) = true).
      { apply forallb_forall; intros vd Hv; specialize (Vals vd Hv).
        apply andb_prop in Vals as [A B]; apply Z.leb_le in A, B.
        destruct (Z.eqb_spec (vdesc_value vd) 1); [reflexivity|]; destruct (Z.eqb_spec (vdesc_value vd) 0); [reflexivity | lia]. }
      rewrite D, V. destruct (has_custom_type s); reflexivity.
    + assert (L2 : 2 <= s_length s) by lia.
      destruct (narrowest_width_spec (s_length s) ltac:(lia)) as (_ & Hw & _).
      set (w := narrowest_width (s_length s)) in *.
      destruct (s_signed s) eqn:Sg.
      * (* signed integer *)
        cbn [andb basic_of_prim super_basic forallb app].
        assert (D : conv_ok (CConst (CInt (s_default s)) (BInt w)) = true).
        { cbn [conv_ok]. apply (fits_signed (s_length s)); [lia|].
          apply andb_prop in Dflt as [A B]. apply Z.leb_le in A, B. lia. }
        assert (V : forallb (fun vd => conv_ok (CConst (CInt (vdesc_value vd)) (BInt w))) (s_value_descriptions s) = true).
        { apply forallb_forall. intros vd Hv. specialize (Vals vd Hv). cbn [conv_ok]. apply (fits_signed (s_length s)); [lia|].
          apply andb_prop in Vals as [A B]. apply Z.leb_le in A, B. lia. }
        rewrite D, V.
        destruct (has_custom_type s); [rewrite forallb_map', V|];
          destruct ((1 <? s_length s) && has_physical_old s); reflexivity.
      * (* unsigned integer *)
        cbn [andb basic_of_prim super_basic forallb app].
        assert (D : conv_ok (CConst (CInt (s_default s)) (BUint w)) = true).
        { cbn [conv_ok]. apply (fits_unsigned (s_length s)); [lia|].
          apply andb_prop in Dflt as [A B]. apply Z.leb_le in A, B. lia. }
        assert (V : forallb (fun vd => conv_ok (CConst (CInt (vdesc_value vd)) (BUint w))) (s_value_descriptions s) = true).
        { apply forallb_forall. intros vd Hv. specialize (Vals vd Hv). cbn [conv_ok]. apply (fits_unsigned (s_length s)); [lia|].
          apply andb_prop in Vals as [A B]. apply Z.leb_le in A, B. lia. }
        rewrite D, V.
        destruct (has_custom_type s); [rewrite forallb_map', V|];
          destruct ((1 <? s_length s) && has_physical_old s); reflexivity.
Qed.

(** * From the class predicate to the per-signal facts *)
Lemma class_message_ok : forall db m, in_class43 db = true -> In m (db_messages db) -> message_ok m = true.
Proof.
  intros db m H Hm. unfold in_class43 in H. repeat (apply andb_prop in H as [H _]).
  rewrite forallb_forall in H. auto.
Qed.

Lemma message_ok_parts : forall m, message_ok m = true ->
  (forall s, In s (msg_signals m) -> signal_ok s = true) /\ layout_ok m = true.
Proof.
  intros m H. unfold message_ok in H. repeat (apply andb_prop in H as [H ?]).
  split; [|assumption].
  match goal with X : forallb signal_ok _ = true |- _ => rewrite forallb_forall in X; exact X end.
Qed.

Lemma class_signal_facts : forall db m s,
  in_class43 db = true -> In m (db_messages db) -> In s (msg_signals m) -> signal_facts s /\ mux_facts m s.
Proof.
  intros db m s H Hm Hs. destruct (message_ok_parts m (class_message_ok db m H Hm)) as [A B].
  split; [apply signal_ok_facts; auto | apply layout_mux_facts; auto].
Qed.

Theorem class_convs_ok : forall db, in_class43 db = true ->
  forall c, In c (db_convs db) -> conv_ok c = true.
Proof.
  intros db H c Hc. unfold db_convs, db_convs_with in Hc.
  apply in_flat_map in Hc as (m & Hm & Hc). unfold message_convs_with in Hc.
  apply in_flat_map in Hc as (s & Hs & Hc).
  destruct (class_signal_facts db m s H Hm Hs) as [F MF].
  assert (Fall : forall mx, In mx (msg_signals m) -> signal_facts mx)
    by (intros mx Hx; apply (class_signal_facts db m mx H Hm Hx)).
  pose proof (signal_convs_ok m s F MF Fall) as K. rewrite forallb_forall in K. auto.
Qed.

Theorem class_field_type : forall db m s,
  in_class43 db = true -> In m (db_messages db) -> In s (msg_signals m) ->
  signal_prim_type s = prim_type_spec s.
Proof.
  intros db m s H Hm Hs. destruct (class_signal_facts db m s H Hm Hs) as [F _].
  apply prim_type_correct, len_class_of, F.
Qed.

(** the statement of the property about the field type, spelled out *)
Theorem class_field_type_explicit : forall db m s,
  in_class43 db = true -> In m (db_messages db) -> In s (msg_signals m) ->
  let t := signal_prim_type s in
  (t = PBool <-> s_length s = 1) /\
  (t = PFloat32 <-> s_float s = true) /\
  (s_length s <> 1 -> s_float s = false ->
     exists w, t = (if s_signed s then PInt w else PUint w) /\ In w [8; 16; 32; 64] /\ s_length s <= w /\
               forall w', In w' [8; 16; 32; 64] -> s_length s <= w' -> w <= w').
Proof.
  intros db m s H Hm Hs t. destruct (class_signal_facts db m s H Hm Hs) as [F _].
  pose proof (sf_len s F) as HL. pose proof (sf_float s F) as HF.
  unfold t. rewrite (prim_type_correct s (len_class_of s F)). unfold prim_type_spec.
  destruct (narrowest_width_spec (s_length s) ltac:(lia)) as (W1 & W2 & W3).
  destruct (s_float s) eqn:Fl.
  - specialize (HF eq_refl).
    split; [split; [discriminate | lia]|].
    split; [split; reflexivity|]. intros _ X; discriminate.
  - destruct (Z.eqb_spec (s_length s) 1) as [L1|L1].
    + split; [split; auto|]. split; [split; discriminate|]. intro X; contradiction.
    + split; [split; [destruct (s_signed s); discriminate | intro; contradiction]|].
      split; [split; [destruct (s_signed s); discriminate | discriminate]|].
      intros _ _. exists (narrowest_width (s_length s)).
      split; [destruct (s_signed s); reflexivity|]. split; [exact W1|]. split; [exact W2 | exact W3].
Qed.

Theorem class_has_physical : forall db m s,
  in_class43 db = true -> In m (db_messages db) -> In s (msg_signals m) ->
  sa_physical (signal_api_with has_physical m s) = has_physical_spec s.
Proof.
  intros db m s H Hm Hs. destruct (class_signal_facts db m s H Hm Hs) as [F _]. cbn.
  apply has_physical_spec_correct; apply F.
Qed.

(** enum type iff value descriptions; one constant per value description *)
Theorem enum_type_iff : forall hp m s,
  let sa := signal_api_with hp m s in
  (s_value_descriptions s <> [] -> sa_enum sa = Some (msg_name m ++ k_us ++ s_name s) /\
                                   sa_type sa = GNamed (msg_name m ++ k_us ++ s_name s)) /\
  (s_value_descriptions s = [] -> sa_enum sa = None /\ sa_type sa = GBasic (basic_of_prim (signal_prim_type s))) /\
  sa_consts sa = map (fun vd => {| ec_name := msg_name m ++ k_us ++ s_name s ++ k_us ++ slugify (vdesc_text vd);
                                   ec_value := enum_const_val s vd |}) (s_value_descriptions s).
Proof.
  intros hp m s. cbn. unfold signal_gtype, has_custom_type, enum_type_name.
  split; [|split].
  - intro N. destruct (s_value_descriptions s); [contradiction | auto].
  - intros ->. auto.
  - apply map_ext. intro vd. rewrite <- !app_assoc. reflexivity.
Qed.

Theorem class_enum_const_values : forall db m s vd,
  in_class43 db = true -> In m (db_messages db) -> In s (msg_signals m) -> In vd (s_value_descriptions s) ->
  enum_const_val s vd = if s_length s =? 1 then CBool (vdesc_value vd =? 1) else CInt (vdesc_value vd).
Proof.
  intros db m s vd H Hm Hs Hv. destruct (class_signal_facts db m s H Hm Hs) as [F _].
  pose proof (sf_values s F vd Hv) as R. unfold in_raw_range in R. unfold enum_const_val.
  destruct (Z.eqb_spec (s_length s) 1); [|reflexivity]. cbn [andb].
  apply andb_prop in R as [A B]. apply Z.leb_le in A, B.
  destruct (Z.eqb_spec (vdesc_value vd) 1); [reflexivity|]. destruct (Z.eqb_spec (vdesc_value vd) 0); [reflexivity | lia].
Qed.

(** * F4: the unfixed decision is refuted *)
Definition f4_signal : signal :=
  {| s_name := [70; 108; 97; 103] (* Flag *); s_start := 0; s_length := 1; s_big_endian := false; s_signed := false;
     s_float := false; s_multiplexer := false; s_multiplexed := false; s_mux_value := 0;
     s_offset := 0; s_scale := 0x4000000000000000 (* 2.0 *); s_min := 0; s_max := 0;
     s_unit := []; s_description := []; s_value_descriptions := []; s_receivers := [[88]]; s_default := 0 |}.
Definition f4_message : message :=
  {| msg_name := [77; 115; 103] (* Msg *); msg_id := 1; msg_extended := false; msg_length := 1; msg_send_type := SendNone;
     msg_description := []; msg_signals := [f4_signal]; msg_sender := [88]; msg_cycle_time := 0; msg_delay_time := 0 |}.
Definition f4_db : database :=
  {| db_source_file := [102; 52; 46; 100; 98; 99] (* f4.dbc *); db_version := [];
     db_messages := [f4_message]; db_nodes := [ {| node_name := [88]; node_description := [] |} ] |}.

Theorem api_old_refuted :
  in_class43 f4_db = true /\
  In f4_message (db_messages f4_db) /\ In f4_signal (msg_signals f4_message) /\
  s_length f4_signal = 1 /\
  has_physical_spec f4_signal = false /\
  sa_physical (signal_api_with has_physical_old f4_message f4_signal) = true /\
  In (CConvert BBool BFloat64) (db_convs_old f4_db) /\ conv_ok (CConvert BBool BFloat64) = false /\
  In (CSat StBool) (db_convs_old f4_db) /\ conv_ok (CSat StBool) = false.
Proof. vm_compute. intuition. Qed.

Theorem accessor_sets : forall hp m s,
  let sa := signal_api_with hp m s in
  let t := sa_type sa in
  let self := GPtr (msg_name m) in
  (hp s = true ->
     sa_reader sa = [ mk_sig (s_name s) [] [GBasic BFloat64]; mk_sig (k_Raw ++ s_name s) [] [t] ] /\
     sa_writer sa = [ mk_sig (k_Set ++ s_name s) [GBasic BFloat64] [self]; mk_sig (k_SetRaw ++ s_name s) [t] [self] ]) /\
  (hp s = false ->
     sa_reader sa = [ mk_sig (s_name s) [] [t] ] /\ sa_writer sa = [ mk_sig (k_Set ++ s_name s) [t] [self] ]).
Proof. intros hp m s. cbn. split; intros ->; split; reflexivity. Qed.

Theorem node_groups : forall db n,
  (exists f, collect_rx db n = filter f (db_messages db) /\ forall m, f m = true <-> receives (node_name n) m) /\
  (exists g, collect_tx db n = filter g (db_messages db) /\ forall m, g m = true <-> sends_with_type (node_name n) m) /\
  na_rx (node_api_of db n) = map msg_name (collect_rx db n) /\
  na_tx (node_api_of db n) = map (fun m => (msg_name m, is_cyclic (msg_send_type m))) (collect_tx db n).
Proof.
  intros db n. split; [apply rx_group_correct|]. split; [apply tx_group_correct|]. split; reflexivity.
Qed.

(** * A concrete database of the class (non-vacuity of the hypotheses of C11) *)
From Coq Require Import String.
Local Open Scope string_scope.
Local Open Scope Z_scope.
Local Notation B s := ltac:(let x := eval compute in (bos s) in exact x) (only parsing).
Definition ex_sig (name : bytes) (start len : Z) (signed float mux muxed : bool) (muxv scale offset mn mx : Z)
    (vds : list Types.value_description) (recv : list bytes) (dflt : Z) : signal :=
  {| s_name := name; s_start := start; s_length := len; s_big_endian := false; s_signed := signed; s_float := float;
     s_multiplexer := mux; s_multiplexed := muxed; s_mux_value := muxv; s_offset := offset; s_scale := scale;
     s_min := mn; s_max := mx; s_unit := []; s_description := []; s_value_descriptions := vds;
     s_receivers := recv; s_default := dflt |}.
Definition ex_ecu : bytes := B "Ecu".
Definition ex_gateway : bytes := B "Gateway".
Definition ex_status : message :=
  {| msg_name := B "Status"; msg_id := 0x100; msg_extended := false; msg_length := 8;
     msg_send_type := SendCyclic; msg_description := [];
     msg_signals :=
       [ ex_sig (B "Speed") 0 12 false false false false 0 0x3FB999999999999A (* 0.1 *) 0 0 0 [] [ex_gateway] 0;
         ex_sig (B "Mode") 16 3 false false false false 0 f64_one 0 0 0
           [ {| vdesc_value := 0; vdesc_text := B "Off" |};
             {| vdesc_value := 1; vdesc_text := B "On" |};
             {| vdesc_value := 2; vdesc_text := B "Error State" |} ] [ex_gateway] 1;
         ex_sig (B "Flag") 20 1 false false false false 0 0x4000000000000000 (* 2.0 *) 0 0 0 [] [ex_gateway] 1;
         ex_sig (B "Temp") 24 9 true false false false 0 f64_one 0xC044000000000000 (* -40 *) 0 0 [] [ex_gateway] 0 ];
     msg_sender := ex_ecu; msg_cycle_time := 100000000; msg_delay_time := 0 |}.
Definition ex_cmd : message :=
  {| msg_name := B "Cmd"; msg_id := 0x200; msg_extended := false; msg_length := 8;
     msg_send_type := SendNone; msg_description := [];
     msg_signals :=
       [ ex_sig (B "Sel") 0 2 false false true false 0 f64_one 0 0 0 [] [ex_ecu] 0;
         ex_sig (B "A") 8 16 true false false true 0 f64_one 0 0 0 [] [ex_ecu] 0;
         ex_sig (B "B") 8 32 false true false true 3 f64_one 0 0 0 [] [ex_ecu] 0 ];
     msg_sender := ex_gateway; msg_cycle_time := 0; msg_delay_time := 0 |}.
Definition ex_db : database :=
  {| db_source_file := B "ex.dbc"; db_version := [];
     db_messages := [ex_status; ex_cmd];
     db_nodes := [ {| node_name := ex_ecu; node_description := [] |}; {| node_name := ex_gateway; node_description := [] |} ] |}.

Lemma ex_db_facts :
  in_class43 ex_db = true /\
  map (fun m => map signal_prim_type (msg_signals m)) (db_messages ex_db)
    = [[PUint 16; PUint 8; PBool; PInt 16]; [PUint 8; PInt 16; PFloat32]] /\
  map (fun m => map has_physical (msg_signals m)) (db_messages ex_db)
    = [[true; false; false; true]; [false; false; false]] /\
  map (fun m => map has_physical_old (msg_signals m)) (db_messages ex_db)
    = [[true; false; true; true]; [false; false; false]] /\
  option_map (map (fun na => (na_name na, na_rx na, na_tx na))) (api_nodes (api_of_db ex_db))
    = Some [ (ex_ecu, [msg_name ex_cmd], [(msg_name ex_status, true)]); (ex_gateway, [msg_name ex_status], []) ] /\
  (28 <= List.length (db_convs ex_db))%nat /\ db_convs_ok ex_db = true /\ db_convs_ok_old ex_db = false.
Proof. vm_compute. intuition. Qed.
