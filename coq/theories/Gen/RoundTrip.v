(** Reading a signal back from an encoded frame; unmarshal(frame_of st) re-encodes to the
    same frame; range invariant of all operations (C03 decode clause, C10). *)
From Coq Require Import ZArith List Bool Lia Permutation.
From CanVerif Require Import Base.Bits Can.Data Can.DataSpec Can.CheckProofs Can.DataProofs
  Descriptor.Types Gen.Message Gen.MessageProofs Gen.History Gen.Layout Gen.LayoutProofs.
Import ListNotations.
Open Scope Z_scope.
Ltac Zify.zify_post_hook ::= Z.div_mod_to_equations.

(** * a covering write of a pairwise-disjoint list is the one [find] returns *)
Lemma find_cover_unique ws w k :
  ForallOrdPairs disjoint ws -> In w ws -> covers w k = true -> 0 <= k < 64 ->
  find (fun w0 => covers w0 k) ws = Some w.
Proof.
  intros Hd Hin Hc Hk. induction Hd as [|x l Hx Hl IH]; [destruct Hin|].
  cbn [find]. destruct (covers x k) eqn:Ex.
  - destruct Hin as [->|Hin]; [reflexivity|].
    rewrite Forall_forall in Hx. rewrite (Hx w Hin k Hk Ex) in Hc. discriminate.
  - destruct Hin as [->|Hin]; [rewrite Hc in Ex; discriminate|]. apply IH. exact Hin.
Qed.

(** * reading the range of one of the writes returns its value *)
Lemma read_back_le ws w :
  ForallOrdPairs disjoint ws -> Forall write_ok ws -> In w ws -> w_be w = false ->
  ubits_le (fold_left apply_write ws zero_data) (w_s w) (w_l w) = w_v w.
Proof.
  intros Hdis Hok Hin Hbe.
  pose proof (proj1 (Forall_forall _ _) Hok w Hin) as (Hl & Hv & Hgeo). rewrite Hbe in Hgeo. destruct Hgeo as [Hs Hfit].
  apply Z.bits_inj'. intros i Hi.
  rewrite ubits_le_bits by (try apply fold_apply_valid; try apply zero_data_valid; lia).
  destruct (Z.ltb_spec i (w_l w)) as [Hlt|Hge]; cbn [andb].
  - unfold le_pos. rewrite writes_final_bits by (try apply zero_data_valid; assumption || lia).
    assert (Hc : covers w (w_s w + i) = true).
    { unfold covers. rewrite Hbe. apply andb_true_iff. split; [apply Z.leb_le|apply Z.ltb_lt]; lia. }
    rewrite (find_cover_unique ws w (w_s w + i) Hdis Hin Hc) by lia.
    unfold wbit. rewrite Hbe. f_equal. lia.
  - symmetry. apply (testbit_small (w_v w) (w_l w)); lia.
Qed.

Lemma read_back_be ws w :
  ForallOrdPairs disjoint ws -> Forall write_ok ws -> In w ws -> w_be w = true ->
  ubits_be (fold_left apply_write ws zero_data) (w_s w) (w_l w) = w_v w.
Proof.
  intros Hdis Hok Hin Hbe.
  pose proof (proj1 (Forall_forall _ _) Hok w Hin) as (Hl & Hv & Hgeo). rewrite Hbe in Hgeo. destruct Hgeo as [Hs Hfit].
  assert (Hst : 0 <= stream (w_s w) < 64) by (apply stream_range; lia).
  apply Z.bits_inj'. intros i Hi.
  rewrite ubits_be_bits by (try apply fold_apply_valid; try apply zero_data_valid; lia).
  destruct (Z.ltb_spec i (w_l w)) as [Hlt|Hge]; cbn [andb].
  - unfold be_bitpos.
    assert (Hk : 0 <= be_pos (w_s w) (w_l w - 1 - i) < 64).
    { rewrite be_pos_closed by lia. apply stream_range. lia. }
    rewrite writes_final_bits by (try apply zero_data_valid; assumption || lia).
    assert (Hsk : stream (be_pos (w_s w) (w_l w - 1 - i)) = stream (w_s w) + (w_l w - 1 - i)) by (apply stream_be_pos; lia).
    assert (Hc : covers w (be_pos (w_s w) (w_l w - 1 - i)) = true).
    { unfold covers. rewrite Hbe. cbv zeta. rewrite Hsk. apply andb_true_iff. split; [apply Z.leb_le|apply Z.ltb_lt]; lia. }
    rewrite (find_cover_unique ws w _ Hdis Hin Hc) by lia.
    unfold wbit. rewrite Hbe, Hsk. f_equal. lia.
  - symmetry. apply (testbit_small (w_v w) (w_l w)); lia.
Qed.

(** * quieting a binary32 pattern is idempotent *)
Lemma f32_quiet_idem v : 0 <= v -> f32_quiet (f32_quiet v) = f32_quiet v.
Proof.
  intros Hv. unfold f32_quiet at 2 3. destruct (f32_is_nan v) eqn:E; [|unfold f32_quiet; rewrite E; reflexivity].
  unfold f32_quiet.
  assert (En : f32_is_nan (Z.lor v 4194304) = true).
  { unfold f32_is_nan in *. apply andb_true_iff in E. destruct E as [E1 E2]. apply Z.eqb_eq in E1.
    apply andb_true_iff. split.
    - apply Z.eqb_eq. rewrite Z.land_lor_distr_l, E1. reflexivity.
    - apply negb_true_iff. apply Z.eqb_neq. rewrite Z.land_lor_distr_l. intros H.
      apply Z.lor_eq_0_iff in H. destruct H as [_ H]. discriminate H. }
  rewrite En. rewrite <- Z.lor_assoc, Z.lor_diag. reflexivity.
Qed.

Lemma sext_mod_back l u : 1 <= l -> 0 <= u < 2 ^ l -> (sext l u) mod 2 ^ l = u.
Proof.
  intros Hl Hu. rewrite sext_alt by lia. pose proof (pow2_pos l ltac:(lia)).
  destruct (u <? 2 ^ (l - 1)); [apply Z.mod_small; lia|].
  symmetry. apply Z.mod_unique with (q := -1); [left|]; lia.
Qed.

Lemma sext_range l u : 1 <= l -> 0 <= u < 2 ^ l -> - 2 ^ (l - 1) <= sext l u < 2 ^ (l - 1).
Proof.
  intros Hl Hu. rewrite sext_alt by lia. pose proof (pow2_split l Hl). pose proof (pow2_pos (l - 1) ltac:(lia)).
  destruct (Z.ltb_spec u (2 ^ (l - 1))); lia.
Qed.

Lemma wrap_signed_id b x : 1 <= b -> - 2 ^ (b - 1) <= x < 2 ^ (b - 1) -> wrap_signed b x = x.
Proof.
  intros Hb Hx. unfold wrap_signed. pose proof (pow2_split b Hb). pose proof (pow2_pos (b - 1) ltac:(lia)).
  destruct (Z_lt_le_dec x 0).
  - assert (E : x mod 2 ^ b = x + 2 ^ b) by (symmetry; apply Z.mod_unique with (q := -1); [left|]; lia).
    rewrite E. destruct (Z.ltb_spec (x + 2 ^ b) (2 ^ (b - 1))); lia.
  - rewrite Z.mod_small by lia. destruct (Z.ltb_spec x (2 ^ (b - 1))); lia.
Qed.

Lemma pow2_mono a b : 0 <= a <= b -> 2 ^ a <= 2 ^ b.
Proof. intros. apply Z.pow_le_mono_r; lia. Qed.

(** * a field read from a valid payload is inside the signal's representable range *)
Lemma read_field_in_range s d : wf_signal s -> valid_data d -> in_range s (read_field s d) = true.
Proof.
  intros Hwf Hd. pose proof Hwf as (Hl & Hf & Hgeo). unfold read_field, in_range.
  destruct (super_prim_cases s Hwf) as [(Es & Ep & EL)|[(Es & Ep & EL)|[(Es & (b & Ep & Hb) & EL & Esg)|(Es & (b & Ep & Hb) & EL & Esg)]]];
    rewrite Es, Ep.
  - assert (H : 0 <= f32_quiet (u64 (sig_unmarshal_unsigned s d) mod 2 ^ 32) < 2 ^ 32).
    { apply f32_quiet_range. apply Z.mod_pos_bound. lia. }
    apply andb_true_iff. split; [apply Z.leb_le|apply Z.ltb_lt]; lia.
  - destruct (bit d (s_start s)); reflexivity.
  - unfold to_prim, sig_unmarshal_signed, raw_lo, raw_hi. rewrite Esg.
    assert (H : - 2 ^ (s_length s - 1) <= (if s_big_endian s then sbits_be d (s_start s) (s_length s) else sbits_le d (s_start s) (s_length s)) < 2 ^ (s_length s - 1)).
    { destruct (s_big_endian s); [rewrite sbits_be_sext by lia; apply sext_range; [lia|apply ubits_be_range; lia]
                                 |rewrite sbits_le_sext by lia; apply sext_range; [lia|apply ubits_le_range; lia]]. }
    pose proof (pow2_mono (s_length s - 1) (b - 1) ltac:(lia)).
    rewrite wrap_signed_id by lia. apply andb_true_iff. split; apply Z.leb_le; lia.
  - unfold to_prim, sig_unmarshal_unsigned, raw_lo, raw_hi. rewrite Esg.
    assert (H : 0 <= (if s_big_endian s then ubits_be d (s_start s) (s_length s) else ubits_le d (s_start s) (s_length s)) < 2 ^ s_length s).
    { destruct (s_big_endian s); [apply ubits_be_range|apply ubits_le_range]; lia. }
    pose proof (pow2_mono (s_length s) b ltac:(lia)).
    rewrite Z.mod_small by lia. apply andb_true_iff. split; apply Z.leb_le; lia.
Qed.

(** * reading back a signal that was written: the field read re-encodes to the same write *)
Lemma read_back_field ws s v :
  wf_signal s -> in_range s v = true ->
  ForallOrdPairs disjoint ws -> Forall write_ok ws -> In (write_of s v) ws ->
  let d := fold_left apply_write ws zero_data in
  write_of s (read_field s d) = write_of s v /\
  (s_float s = false -> read_field s d = if s_length s =? 1 then (if v =? 0 then 0 else 1) else v).
Proof.
  intros Hwf Hr Hdis Hok Hin. cbv zeta. pose proof Hwf as (Hl & Hf & Hgeo).
  set (d := fold_left apply_write ws zero_data).
  assert (Hd : valid_data d) by (apply fold_apply_valid, zero_data_valid).
  unfold read_field, write_of, wire_value, in_range in *.
  destruct (super_prim_cases s Hwf) as [(Es & Ep & EL)|[(Es & Ep & EL)|[(Es & (b & Ep & Hb) & EL & Esg)|(Es & (b & Ep & Hb) & EL & Esg)]]];
    rewrite Es in *; rewrite Ep in Hr.
  - (* float *)
    apply andb_true_iff in Hr. destruct Hr as [H0 H1]. apply Z.leb_le in H0. apply Z.ltb_lt in H1.
    pose proof (f32_quiet_range v ltac:(lia)) as Hq.
    assert (E : sig_unmarshal_unsigned s d = f32_quiet v).
    { unfold sig_unmarshal_unsigned. destruct (s_big_endian s) eqn:Eb.
      - apply (read_back_be ws _ Hdis Hok Hin). reflexivity.
      - apply (read_back_le ws _ Hdis Hok Hin). reflexivity. }
    rewrite E. unfold u64. rewrite (Z.mod_small (f32_quiet v)) by lia. rewrite Z.mod_small by lia.
    split; [rewrite !f32_quiet_idem by lia; reflexivity|].
    intros Hnf. destruct (s_float s) eqn:Ef; [discriminate|].
    unfold signal_super_type in Es. rewrite Ef, andb_false_r in Es.
    destruct (s_length s =? 1); [discriminate|destruct (s_signed s); discriminate].
  - (* bool *)
    assert (E : ubits_le d (s_start s) 1 = (if v =? 0 then 0 else 1)).
    { apply (read_back_le ws _ Hdis Hok Hin). reflexivity. }
    assert (Hb : bit d (s_start s) = negb (v =? 0)).
    { rewrite EL in Hgeo. replace (1 =? 1) with true in Hgeo by reflexivity. cbn [negb] in Hgeo. rewrite andb_false_r in Hgeo.
      rewrite bit_spec by (assumption || lia).
      replace (s_start s <=? 63) with true by (symmetry; apply Z.leb_le; lia).
      pose proof (ubits_le_bits d (s_start s) 1 0 Hd ltac:(lia) ltac:(lia) ltac:(lia) ltac:(lia)) as Hb0.
      cbn [andb] in Hb0. replace (0 <? 1) with true in Hb0 by reflexivity. cbn [andb] in Hb0.
      unfold le_pos in Hb0. rewrite Z.add_0_r in Hb0. rewrite <- Hb0, E. destruct (v =? 0); reflexivity. }
    rewrite Hb, EL. destruct (v =? 0); cbn; split; reflexivity.
  - (* signed *)
    assert (Hrange : 0 <= v mod 2 ^ s_length s < 2 ^ s_length s) by (apply mod_pow2_range; lia).
    assert (E : sig_unmarshal_signed s d = sext (s_length s) (v mod 2 ^ s_length s)).
    { unfold sig_unmarshal_signed. destruct (s_big_endian s) eqn:Eb.
      - rewrite sbits_be_sext by lia. f_equal. apply (read_back_be ws _ Hdis Hok Hin). reflexivity.
      - rewrite sbits_le_sext by lia. f_equal. apply (read_back_le ws _ Hdis Hok Hin). reflexivity. }
    rewrite E. rewrite Ep. unfold to_prim.
    apply andb_true_iff in Hr. destruct Hr as [H0 H1]. apply Z.leb_le in H0. apply Z.leb_le in H1.
    unfold raw_lo, raw_hi in H0, H1. rewrite Esg in H0, H1.
    rewrite sext_mod by lia.
    pose proof (pow2_mono (s_length s - 1) (b - 1) ltac:(lia)).
    rewrite wrap_signed_id by lia.
    replace (s_length s =? 1) with false by (symmetry; apply Z.eqb_neq; exact EL).
    split; reflexivity.
  - (* unsigned *)
    apply andb_true_iff in Hr. destruct Hr as [H0 H1]. apply Z.leb_le in H0. apply Z.leb_le in H1.
    unfold raw_lo, raw_hi in H0, H1. rewrite Esg in H0, H1.
    pose proof (pow2_mono (s_length s) 64 ltac:(lia)).
    assert (Hu : u64 v = v) by (unfold u64; apply Z.mod_small; lia).
    assert (E : sig_unmarshal_unsigned s d = v).
    { unfold sig_unmarshal_unsigned. rewrite Hu in Hin. destruct (s_big_endian s) eqn:Eb.
      - apply (read_back_be ws _ Hdis Hok Hin). reflexivity.
      - apply (read_back_le ws _ Hdis Hok Hin). reflexivity. }
    rewrite E, Ep. unfold to_prim. pose proof (pow2_mono (s_length s) b ltac:(lia)).
    rewrite Z.mod_small by lia.
    replace (s_length s =? 1) with false by (symmetry; apply Z.eqb_neq; exact EL).
    split; reflexivity.
Qed.

(** * range invariant through unmarshal *)
Lemma inv_length ss : forall st, inv ss st = true -> length st = length ss.
Proof.
  induction ss as [|s ss IH]; intros [|v st] H; cbn in *; try discriminate; [reflexivity|].
  apply andb_true_iff in H. f_equal. apply IH. apply H.
Qed.

Lemma unmarshal_plain_inv ss : forall st d,
  Forall wf_signal ss -> valid_data d -> inv ss st = true -> inv ss (unmarshal_plain ss st d) = true.
Proof.
  induction ss as [|s ss IH]; intros [|v st] d Hwf Hd H; cbn in *; try discriminate; [reflexivity|].
  apply andb_true_iff in H. destruct H as [Hr H]. inversion Hwf; subst.
  apply andb_true_iff. split; [|apply IH; assumption].
  destruct (s_multiplexed s); [exact Hr|apply read_field_in_range; assumption].
Qed.

Lemma unmarshal_muxed_inv ss muxv : forall st d,
  Forall wf_signal ss -> valid_data d -> inv ss st = true -> inv ss (unmarshal_muxed ss st muxv d) = true.
Proof.
  induction ss as [|s ss IH]; intros [|v st] d Hwf Hd H; cbn in *; try discriminate; [reflexivity|].
  apply andb_true_iff in H. destruct H as [Hr H]. inversion Hwf; subst.
  apply andb_true_iff. split; [|apply IH; assumption].
  destruct (s_multiplexed s && (muxv =? s_mux_value s)); [apply read_field_in_range; assumption|exact Hr].
Qed.

Theorem unmarshal_inv m f st st' :
  Forall wf_signal (msg_signals m) -> valid_data (fr_data f) -> inv (msg_signals m) st = true ->
  unmarshal m f st = inr st' -> inv (msg_signals m) st' = true.
Proof.
  intros Hwf Hd Hinv. unfold unmarshal. destruct (frame_check m f); [discriminate|].
  intros H. inversion H; subst; clear H.
  destruct (mux_index m); [apply unmarshal_muxed_inv; try assumption|]; apply unmarshal_plain_inv; assumption.
Qed.

(** * elementwise description of the two unmarshal passes (C03 decode clause) *)
Lemma nth_unmarshal_plain ss : forall st d i s,
  nth_error ss i = Some s -> (i < length st)%nat ->
  nth i (unmarshal_plain ss st d) 0 = if s_multiplexed s then nth i st 0 else read_field s d.
Proof.
  induction ss as [|x ss IH]; intros [|v st] d [|i] s Hn Hl; cbn in *; try discriminate; try lia.
  - inversion Hn; subst. reflexivity.
  - apply IH; [exact Hn|lia].
Qed.

Lemma nth_unmarshal_muxed ss muxv : forall st d i s,
  nth_error ss i = Some s -> (i < length st)%nat ->
  nth i (unmarshal_muxed ss st muxv d) 0 =
  if s_multiplexed s && (muxv =? s_mux_value s) then read_field s d else nth i st 0.
Proof.
  induction ss as [|x ss IH]; intros [|v st] d [|i] s Hn Hl; cbn in *; try discriminate; try lia.
  - inversion Hn; subst. reflexivity.
  - apply IH; [exact Hn|lia].
Qed.

Lemma unmarshal_plain_length ss : forall st d, length st = length ss -> length (unmarshal_plain ss st d) = length ss.
Proof. induction ss as [|s ss IH]; intros [|v st] d H; cbn in *; try discriminate; auto. Qed.
Lemma unmarshal_muxed_length ss muxv : forall st d, length st = length ss -> length (unmarshal_muxed ss st muxv d) = length ss.
Proof. induction ss as [|s ss IH]; intros [|v st] d H; cbn in *; try discriminate; auto. Qed.

(** * re-encoding: unmarshalling an encoded frame into any state and marshalling again
      reproduces the identical frame *)
Definition wf_mux (m : message) : Prop :=
  forall i s, mux_index m = Some i -> nth_error (msg_signals m) i = Some s ->
              s_multiplexed s = false /\ s_float s = false.

Lemma index_of_mux_some ss : forall k i, index_of_mux ss k = Some i ->
  exists s, nth_error ss (i - k) = Some s /\ s_multiplexer s = true /\ (k <= i)%nat.
Proof.
  induction ss as [|x ss IH]; intros k i H; cbn in H; [discriminate|].
  destruct (s_multiplexer x) eqn:E.
  - inversion H; subst. exists x. rewrite Nat.sub_diag. auto.
  - destruct (IH (S k) i H) as (s & Hn & Hm & Hle). exists s.
    replace (i - k)%nat with (S (i - S k)) by lia. cbn. split; [exact Hn|split; [exact Hm|lia]].
Qed.

Lemma mux_index_some m i : mux_index m = Some i -> exists s, nth_error (msg_signals m) i = Some s.
Proof.
  unfold mux_index. intros H. destruct (index_of_mux_some _ _ _ H) as (s & Hn & _ & _).
  rewrite Nat.sub_0_r in Hn. eauto.
Qed.

Lemma plain_writes_replay ss : forall st0 st d,
  length st0 = length ss -> length st = length ss ->
  (forall s v, In (s, v) (combine ss st) -> is_plain (s, v) = true -> write_of s (read_field s d) = write_of s v) ->
  map item_write (filter is_plain (combine ss (unmarshal_plain ss st0 d))) =
  map item_write (filter is_plain (combine ss st)).
Proof.
  induction ss as [|s ss IH]; intros [|v0 st0] [|v st] d H0 H1 Hrb; cbn in H0, H1; try discriminate; [reflexivity|].
  cbn [unmarshal_plain combine filter].
  assert (Ep : forall x, is_plain (s, x) = negb (s_multiplexed s)) by reflexivity. rewrite !Ep.
  destruct (s_multiplexed s) eqn:Em; cbn [negb].
  - apply IH; [lia|lia|]. intros s' v' Hin. apply Hrb. right. exact Hin.
  - cbn [map]. f_equal.
    + unfold item_write. cbn [fst snd]. apply Hrb; [left; reflexivity|]. rewrite Ep. reflexivity.
    + apply IH; [lia|lia|]. intros s' v' Hin. apply Hrb. right. exact Hin.
Qed.

Lemma selected_writes_replay ss muxv : forall st1 st d,
  length st1 = length ss -> length st = length ss ->
  (forall s v, In (s, v) (combine ss st) -> is_selected muxv (s, v) = true -> write_of s (read_field s d) = write_of s v) ->
  map item_write (filter (is_selected muxv) (combine ss (unmarshal_muxed ss st1 muxv d))) =
  map item_write (filter (is_selected muxv) (combine ss st)).
Proof.
  induction ss as [|s ss IH]; intros [|v1 st1] [|v st] d H0 H1 Hrb; cbn in H0, H1; try discriminate; [reflexivity|].
  cbn [unmarshal_muxed combine filter].
  assert (Ep : forall x, is_selected muxv (s, x) = s_multiplexed s && (muxv =? s_mux_value s)) by reflexivity. rewrite !Ep.
  destruct (s_multiplexed s && (muxv =? s_mux_value s)) eqn:Em.
  - cbn [map]. f_equal.
    + unfold item_write. cbn [fst snd]. apply Hrb; [left; reflexivity|]. rewrite Ep. reflexivity.
    + apply IH; [lia|lia|]. intros s' v' Hin. apply Hrb. right. exact Hin.
  - apply IH; [lia|lia|]. intros s' v' Hin. apply Hrb. right. exact Hin.
Qed.

Lemma plain_writes_keep_muxed ss muxv : forall st1 d,
  length st1 = length ss ->
  map item_write (filter is_plain (combine ss (unmarshal_muxed ss st1 muxv d))) =
  map item_write (filter is_plain (combine ss st1)).
Proof.
  induction ss as [|s ss IH]; intros [|v1 st1] d H0; cbn in H0; try discriminate; [reflexivity|].
  cbn [unmarshal_muxed combine filter].
  assert (Ep : forall x, is_plain (s, x) = negb (s_multiplexed s)) by reflexivity. rewrite !Ep.
  destruct (s_multiplexed s) eqn:Em; cbn [negb andb].
  - apply IH. lia.
  - cbn [map]. f_equal. apply IH. lia.
Qed.

Lemma in_active_plain m st s v :
  In (s, v) (combine (msg_signals m) st) -> is_plain (s, v) = true -> In (write_of s v) (active_writes m st).
Proof.
  intros Hin Hp. unfold active_writes. apply in_or_app. left.
  change (write_of s v) with (item_write (s, v)). apply in_map. apply filter_In. auto.
Qed.

Lemma in_active_selected m st muxv s v :
  mux_value_of m st = Some muxv ->
  In (s, v) (combine (msg_signals m) st) -> is_selected muxv (s, v) = true -> In (write_of s v) (active_writes m st).
Proof.
  intros Hm Hin Hp. unfold active_writes. rewrite Hm. apply in_or_app. right.
  change (write_of s v) with (item_write (s, v)). apply in_map. apply filter_In. auto.
Qed.

Lemma inv_in_combine ss : forall st s v, inv ss st = true -> In (s, v) (combine ss st) -> in_range s v = true.
Proof.
  induction ss as [|x ss IH]; intros [|y st] s v H Hin; cbn in *; try contradiction.
  apply andb_true_iff in H. destruct H as [Hr H]. destruct Hin as [E|Hin]; [inversion E; subst; exact Hr|eauto].
Qed.

Lemma in_combine_nth (ss : list signal) : forall (st : state) i (s : signal), nth_error ss i = Some s -> (i < length st)%nat ->
  In (s, nth i st 0) (combine ss st).
Proof.
  induction ss as [|x ss IH]; intros [|y st] [|i] s Hn Hl; cbn in *; try discriminate; try lia.
  - inversion Hn; subst. left. reflexivity.
  - right. apply IH; [exact Hn|lia].
Qed.

Theorem reencode m st st0 :
  wf_message m -> wf_mux m -> inv (msg_signals m) st = true -> inv (msg_signals m) st0 = true ->
  exists st', unmarshal m (frame_of m st) st0 = inr st' /\
              inv (msg_signals m) st' = true /\ frame_of m st' = frame_of m st.
Proof.
  intros [Hwf Hc] Hmux Hinv Hinv0.
  pose proof (frame_data_fold m st Hwf Hinv) as [Ed Hok].
  pose proof (active_writes_disjoint m st Hc) as Hdis.
  pose proof (frame_data_valid m st Hwf Hinv) as Hvd.
  pose proof (inv_length _ _ Hinv) as Hlen. pose proof (inv_length _ _ Hinv0) as Hlen0.
  set (ss := msg_signals m) in *.
  set (d := fr_data (frame_of m st)) in *.
  (* reading back any active signal re-encodes to the same write *)
  assert (Hrb : forall s v, In (s, v) (combine ss st) -> In (write_of s v) (active_writes m st) ->
                write_of s (read_field s d) = write_of s v /\
                (s_float s = false -> read_field s d = if s_length s =? 1 then (if v =? 0 then 0 else 1) else v)).
  { intros s v Hin Hact. rewrite Ed.
    apply read_back_field; try assumption.
    - rewrite Forall_forall in Hwf. apply Hwf. apply in_combine_l in Hin. exact Hin.
    - apply (inv_in_combine ss st); assumption. }
  assert (Hacc : frame_check m (frame_of m st) = None).
  { apply frame_check_none. unfold frame_of. cbn. auto. }
  unfold unmarshal. rewrite Hacc. fold d. fold ss.
  set (st1 := unmarshal_plain ss st0 d).
  assert (Hlen1 : length st1 = length ss) by (apply unmarshal_plain_length; exact Hlen0).
  assert (Hinv1 : inv ss st1 = true) by (apply unmarshal_plain_inv; assumption).
  assert (HA : map item_write (filter is_plain (combine ss st1)) = map item_write (filter is_plain (combine ss st))).
  { apply plain_writes_replay; try assumption. intros s v Hin Hp. apply Hrb; [exact Hin|]. apply in_active_plain; assumption. }
  destruct (mux_index m) as [i|] eqn:Emi.
  - destruct (mux_index_some m i Emi) as (sm & Hnm). fold ss in Hnm.
    destruct (Hmux i sm Emi Hnm) as [Hnmux Hnfl].
    assert (Hi : (i < length ss)%nat) by (apply nth_error_Some; rewrite Hnm; discriminate).
    (* the multiplexer field reads back unchanged *)
    assert (Hmv : nth i st1 0 = nth i st 0).
    { unfold st1. rewrite (nth_unmarshal_plain ss st0 d i sm Hnm) by lia. rewrite Hnmux.
      assert (Hin : In (sm, nth i st 0) (combine ss st)) by (apply in_combine_nth; [exact Hnm|lia]).
      destruct (Hrb sm (nth i st 0) Hin) as [_ Hval].
      { apply in_active_plain; [exact Hin|]. unfold is_plain. cbn [fst]. rewrite Hnmux. reflexivity. }
      rewrite (Hval Hnfl).
      destruct (Z.eqb_spec (s_length sm) 1) as [E1|E1]; [|reflexivity].
      pose proof (inv_in_combine ss st sm _ Hinv Hin) as Hr. unfold in_range in Hr.
      assert (Ep : signal_prim_type sm = PBool).
      { unfold signal_prim_type. rewrite Hnfl, andb_false_r, E1. reflexivity. }
      rewrite Ep in Hr. apply orb_true_iff in Hr. destruct Hr as [Hr|Hr]; apply Z.eqb_eq in Hr; rewrite Hr; reflexivity. }
    set (muxv := nth i st 0) in *.
    set (st2 := unmarshal_muxed ss st1 (nth i st1 0) d).
    assert (Hinv2 : inv ss st2 = true) by (apply unmarshal_muxed_inv; assumption).
    exists st2. split; [reflexivity|]. split; [exact Hinv2|].
    assert (Hmv2 : nth i st2 0 = muxv).
    { unfold st2. rewrite (nth_unmarshal_muxed ss _ st1 d i sm Hnm) by lia. rewrite Hnmux. cbn [andb]. exact Hmv. }
    assert (Eact : active_writes m st2 = active_writes m st).
    { unfold active_writes, mux_value_of. rewrite Emi. fold ss. rewrite Hmv2. fold muxv.
      f_equal.
      - unfold st2. rewrite plain_writes_keep_muxed by exact Hlen1. exact HA.
      - unfold st2. rewrite Hmv. apply selected_writes_replay; try assumption.
        intros s v Hin Hp. apply Hrb; [exact Hin|].
        apply (in_active_selected m st muxv); [unfold mux_value_of; rewrite Emi; reflexivity|exact Hin|exact Hp]. }
    pose proof (frame_data_fold m st2 Hwf Hinv2) as [Ed2 _].
    unfold frame_of at 1. unfold frame_of at 1 in Ed2. cbn [fr_data] in Ed2.
    unfold frame_of at 1. f_equal. rewrite Ed2, Eact, <- Ed. reflexivity.
  - exists st1. split; [reflexivity|]. split; [exact Hinv1|].
    assert (Eact : active_writes m st1 = active_writes m st).
    { unfold active_writes, mux_value_of. rewrite Emi. fold ss. rewrite !app_nil_r. exact HA. }
    pose proof (frame_data_fold m st1 Hwf Hinv1) as [Ed1 _].
    unfold frame_of at 1. unfold frame_of at 1 in Ed1. cbn [fr_data] in Ed1.
    unfold frame_of at 1. f_equal. rewrite Ed1, Eact, <- Ed. reflexivity.
Qed.
