(** An independent interpreter of message descriptors: what the generated Go type of a
    message does (internal/generate/file.go: MessageType, MarshalFrame, UnmarshalFrame,
    Descriptors.UnmarshalFrame), written over the descriptor, not over the emitted text.

    A message state is the list of its field values, in descriptor signal order:
      bool field  (1-bit signal)        : 0 / 1
      (u)intN     (integer signal)      : the integer
      float32     (32-bit float signal) : the IEEE-754 binary32 BIT PATTERN
    DEFINITIONS ONLY. *)
From Coq Require Import ZArith List Bool.
From CanVerif Require Import Can.Data Descriptor.Types.
Import ListNotations.
Open Scope Z_scope.

(** CAN frame (frame.go) *)
Record frame := {
  fr_id : Z; fr_length : Z; fr_data : data; fr_remote : bool; fr_extended : bool }.

(** file.go signalSuperType: which Marshal*/Unmarshal* pair the generated code calls *)
Inductive super_type := StFloat | StBool | StSigned | StUnsigned.
Definition signal_super_type (s : signal) : super_type :=
  if (s_length s <=? 32) && s_float s then StFloat
  else if s_length s =? 1 then StBool
  else if s_signed s then StSigned
  else StUnsigned.

(** file.go signalPrimitiveType: the Go type of the field *)
Inductive prim_type := PFloat32 | PBool | PInt (bits : Z) | PUint (bits : Z).
Definition signal_prim_type (s : signal) : prim_type :=
  if (s_length s =? 32) && s_float s then PFloat32
  else if s_length s =? 1 then PBool
  else if (s_length s <=? 8) && s_signed s then PInt 8
  else if s_length s <=? 8 then PUint 8
  else if (s_length s <=? 16) && s_signed s then PInt 16
  else if s_length s <=? 16 then PUint 16
  else if (s_length s <=? 32) && s_signed s then PInt 32
  else if s_length s <=? 32 then PUint 32
  else if (s_length s <=? 64) && s_signed s then PInt 64
  else PUint 64.

(** conversion of a read value to the field type: T(x) in Go (wraps) *)
Definition wrap_signed (bits x : Z) : Z :=
  let m := x mod 2 ^ bits in if m <? 2 ^ (bits - 1) then m else m - 2 ^ bits.
Definition to_prim (t : prim_type) (x : Z) : Z :=
  match t with
  | PFloat32 => x
  | PBool => x
  | PInt b => wrap_signed b x
  | PUint b => x mod 2 ^ b
  end.

(** descriptor.Signal Unmarshal*/Marshal* (pkg/descriptor/signal.go:120-190) on the payload *)
Definition sig_unmarshal_unsigned (s : signal) (d : data) : Z :=
  if s_big_endian s then ubits_be d (s_start s) (s_length s) else ubits_le d (s_start s) (s_length s).
Definition sig_unmarshal_signed (s : signal) (d : data) : Z :=
  if s_big_endian s then sbits_be d (s_start s) (s_length s) else sbits_le d (s_start s) (s_length s).
Definition sig_marshal_unsigned (s : signal) (d : data) (v : Z) : data :=
  if s_big_endian s then set_ubits_be d (s_start s) (s_length s) v else set_ubits_le d (s_start s) (s_length s) v.
Definition sig_marshal_signed (s : signal) (d : data) (v : Z) : data :=
  if s_big_endian s then set_sbits_be d (s_start s) (s_length s) v else set_sbits_le d (s_start s) (s_length s) v.

(** binary32 patterns. Go converts float32 -> float64 -> float32 around every float access; this
    is the identity on every pattern except signalling NaNs, which the hardware quiets (bit 22). *)
Definition f32_is_nan (b : Z) : bool := (Z.land b 0x7F800000 =? 0x7F800000) && negb (Z.land b 0x007FFFFF =? 0).
Definition f32_quiet (b : Z) : Z := if f32_is_nan b then Z.lor b 0x00400000 else b.

(** read one signal's field value out of a payload, as the generated UnmarshalFrame does:
    T(md.S.Unmarshal<Super>(f.Data)) *)
Definition read_field (s : signal) (d : data) : Z :=
  match signal_super_type s with
  | StFloat => f32_quiet (u64 (sig_unmarshal_unsigned s d) mod 2 ^ 32)
  | StBool => if bit d (s_start s) then 1 else 0
  | StSigned => to_prim (signal_prim_type s) (sig_unmarshal_signed s d)
  | StUnsigned => to_prim (signal_prim_type s) (sig_unmarshal_unsigned s d)
  end.

(** write one field into the payload, as the generated Frame() does:
    md.S.Marshal<Super>(&f.Data, Super(m.field)) *)
Definition write_field (s : signal) (d : data) (v : Z) : data :=
  match signal_super_type s with
  | StFloat => sig_marshal_unsigned s d (f32_quiet v)
  | StBool => set_bit d (s_start s) (negb (v =? 0))
  | StSigned => sig_marshal_signed s d v
  | StUnsigned => sig_marshal_unsigned s d (u64 v)
  end.

Definition state := list Z.

Fixpoint index_of_mux (ss : list signal) (i : nat) : option nat :=
  match ss with
  | [] => None
  | s :: tl => if s_multiplexer s then Some i else index_of_mux tl (S i)
  end.
(** descriptor.Message.MultiplexerSignal: the first signal flagged as multiplexer *)
Definition mux_index (m : message) : option nat := index_of_mux (msg_signals m) 0.

Definition zero_data : data := [0; 0; 0; 0; 0; 0; 0; 0].

(** first pass of Frame()/UnmarshalFrame(): every non-multiplexed signal, in descriptor order *)
Fixpoint marshal_plain (ss : list signal) (st : state) (d : data) : data :=
  match ss, st with
  | s :: ss', v :: st' => marshal_plain ss' st' (if s_multiplexed s then d else write_field s d v)
  | _, _ => d
  end.
(** second pass: multiplexed signals whose selector equals the multiplexer FIELD *)
Fixpoint marshal_muxed (ss : list signal) (st : state) (muxv : Z) (d : data) : data :=
  match ss, st with
  | s :: ss', v :: st' =>
      marshal_muxed ss' st' muxv
        (if s_multiplexed s && (muxv =? s_mux_value s) then write_field s d v else d)
  | _, _ => d
  end.

Definition frame_of (m : message) (st : state) : frame :=
  let d1 := marshal_plain (msg_signals m) st zero_data in
  let d2 := match mux_index m with
            | Some i => marshal_muxed (msg_signals m) st (nth i st 0) d1
            | None => d1
            end in
  {| fr_id := msg_id m; fr_length := msg_length m; fr_data := d2;
     fr_remote := false; fr_extended := msg_extended m |}.

Fixpoint unmarshal_plain (ss : list signal) (st : state) (d : data) : state :=
  match ss, st with
  | s :: ss', v :: st' => (if s_multiplexed s then v else read_field s d) :: unmarshal_plain ss' st' d
  | _, _ => []
  end.
Fixpoint unmarshal_muxed (ss : list signal) (st : state) (muxv : Z) (d : data) : state :=
  match ss, st with
  | s :: ss', v :: st' =>
      (if s_multiplexed s && (muxv =? s_mux_value s) then read_field s d else v)
        :: unmarshal_muxed ss' st' muxv d
  | _, _ => []
  end.

(** the four rejections of the generated UnmarshalFrame, in the order of its switch *)
Inductive reject := RejId | RejLength | RejRemote | RejFormat.
Definition frame_check (m : message) (f : frame) : option reject :=
  if negb (fr_id f =? msg_id m) then Some RejId
  else if negb (fr_length f =? msg_length m) then Some RejLength
  else if fr_remote f then Some RejRemote
  else if negb (Bool.eqb (fr_extended f) (msg_extended m)) then Some RejFormat
  else None.

(** UnmarshalFrame: error and unchanged state, or the new state *)
Definition unmarshal (m : message) (f : frame) (st : state) : reject + state :=
  match frame_check m f with
  | Some r => inl r
  | None =>
      let st1 := unmarshal_plain (msg_signals m) st (fr_data f) in
      inr (match mux_index m with
           | Some i => unmarshal_muxed (msg_signals m) st1 (nth i st1 0) (fr_data f)
           | None => st1
           end)
  end.

(** Reset(): the declared start values. A bool field becomes true only for start value 1;
    integer fields take the start value as a constant of the field type. *)
(** binary32 pattern of an integer constant assigned to a float32 field ([m.x = 5]); exact for
    |n| < 2^24 (larger start values are outside the supported class: the low bits are dropped here) *)
Definition f32_bits_of_int (n : Z) : Z :=
  if n =? 0 then 0
  else
    let sign := if n <? 0 then 2 ^ 31 else 0 in
    let m := Z.abs n in
    let e := Z.log2 m in
    let mant := if e <=? 23 then m * 2 ^ (23 - e) - 2 ^ 23 else m / 2 ^ (e - 23) - 2 ^ 23 in
    sign + (e + 127) * 2 ^ 23 + mant.

Definition reset_value (s : signal) : Z :=
  if s_length s =? 1 then (if s_default s =? 1 then 1 else 0)
  else if (s_length s =? 32) && s_float s then f32_bits_of_int (s_default s)
  else s_default s.
Definition reset_state (m : message) : state := map reset_value (msg_signals m).
Definition new_state := reset_state.

(** CopyFrom(o) = UnmarshalFrame(o.MarshalFrame()), errors ignored *)
Definition copy_from (m : message) (st other : state) : state :=
  match unmarshal m (frame_of m other) st with inr st' => st' | inl _ => st end.

(** database-level dispatcher: the first message whose ID equals the frame's (switch f.ID) *)
Fixpoint find_message (ms : list message) (id : Z) : option message :=
  match ms with
  | [] => None
  | m :: tl => if msg_id m =? id then Some m else find_message tl id
  end.
Definition dispatch (db : database) (f : frame) : option (message * (reject + state)) :=
  match find_message (db_messages db) (fr_id f) with
  | None => None
  | Some m => Some (m, unmarshal m f (map (fun _ => 0) (msg_signals m)))   (* var msg T: zero value *)
  end.
