(** The API the generator emits for a database: the decision logic of
    /repo/internal/generate/file.go (Database, Package, MessageType, SignalCustomType, Node,
    Descriptors, collectRxMessages, collectTxMessages, hasPhysicalRepresentation, hasCustomType,
    hasSendType, signalType, signalPrimitiveType, signalPrimitiveSuperType, signalSuperType,
    slugifyString), written over the descriptor records, not over the emitted text.

      [api_of_db : database -> api]   per message the signals' accessor decisions (Go type, enum type
                                      and constants, physical accessors, reset constant), per node
                                      the Rx/Tx groups, gated by hasSendType;
      [api_decls : api -> list decl]  the exported top-level declarations of the generated package
                                      (interfaces with their members, structs, named types,
                                      functions, methods, constants) - what harness/api reads
                                      back from the generated source and harness/genrun (mode api)
                                      reflects from the built package;
      [db_convs : database -> list conv], [conv_ok : conv -> bool]
                                      the conversions / constant uses / library calls the templates
                                      emit and Go's typing rule for each.

    Conventions: strings are [list Z] of bytes; float64 fields are binary64 BIT PATTERNS (Z in
    0..2^64-1) and the float comparisons of hasPhysicalRepresentation are implemented on the
    patterns (this file is Flocq-free; Gen/ApiProofs.v relates them to exact values);
    [s_length] is a Go uint8.  [signal_prim_type] and [signal_super_type] come from Gen/Message.v.

    F4 (DESIGN.md section 6): [has_physical] is the FIXED decision ([s.Length > 1 && ...],
    fixes/F4.patch); [has_physical_old] is hasPhysicalRepresentation as it was written; every
    definition depending on the decision exists in an [_old] variant through [_with].

    DEFINITIONS ONLY - proofs are in Gen/ApiProofs.v. *)
From Coq Require Import ZArith List Bool Ascii String.
From CanVerif Require Import Base.Dec Descriptor.Types Descriptor.Signal Gen.Message.
Import ListNotations.
Open Scope Z_scope.

(** * Byte strings *)
(** only used under [Eval compute]: Coq's [string] never reaches the extracted code *)
Definition bos (s : string) : bytes :=
  List.map (fun c => Z.of_nat (nat_of_ascii c)) (list_ascii_of_string s).

Fixpoint beqb (a b : bytes) : bool :=
  match a, b with
  | [], [] => true
  | x :: a', y :: b' => (x =? y) && beqb a' b'
  | _, _ => false
  end.

Definition k_Set : bytes := Eval compute in bos "Set".
Definition k_Raw : bytes := Eval compute in bos "Raw".
Definition k_SetRaw : bytes := Eval compute in bos "SetRaw".
Definition k_New : bytes := Eval compute in bos "New".
Definition k_Reader : bytes := Eval compute in bos "Reader".
Definition k_Writer : bytes := Eval compute in bos "Writer".
Definition k_Descriptor : bytes := Eval compute in bos "Descriptor".
Definition k_us : bytes := Eval compute in bos "_".
Definition k_xxx : bytes := Eval compute in bos "xxx_".
Definition k_Rx : bytes := Eval compute in bos "_Rx".
Definition k_Tx : bytes := Eval compute in bos "_Tx".
Definition k_Rx_ : bytes := Eval compute in bos "_Rx_".
Definition k_Tx_ : bytes := Eval compute in bos "_Tx_".
Definition k_can : bytes := Eval compute in bos "can".
Definition k_dot : bytes := Eval compute in bos ".".
Definition k_slash : bytes := Eval compute in bos "/".
Definition k_true : bytes := Eval compute in bos "true".
Definition k_false : bytes := Eval compute in bos "false".
Definition k_lpar : bytes := Eval compute in bos "(".
Definition k_rpar : bytes := Eval compute in bos ")".
(* method and type names the templates emit *)
Definition k_Reset : bytes := Eval compute in bos "Reset".
Definition k_CopyFrom : bytes := Eval compute in bos "CopyFrom".
Definition k_String : bytes := Eval compute in bos "String".
Definition k_Frame : bytes := Eval compute in bos "Frame".
Definition k_MarshalFrame : bytes := Eval compute in bos "MarshalFrame".
Definition k_UnmarshalFrame : bytes := Eval compute in bos "UnmarshalFrame".
Definition k_Database : bytes := Eval compute in bos "Database".
Definition k_Nodes : bytes := Eval compute in bos "Nodes".
Definition k_Messages : bytes := Eval compute in bos "Messages".
Definition k_NodesDescriptor : bytes := Eval compute in bos "NodesDescriptor".
Definition k_MessagesDescriptor : bytes := Eval compute in bos "MessagesDescriptor".
Definition k_TxM : bytes := Eval compute in bos "Tx".
Definition k_RxM : bytes := Eval compute in bos "Rx".
Definition k_Run : bytes := Eval compute in bos "Run".
Definition k_ReceiveTime : bytes := Eval compute in bos "ReceiveTime".
Definition k_SetAfterReceiveHook : bytes := Eval compute in bos "SetAfterReceiveHook".
Definition k_TransmitTime : bytes := Eval compute in bos "TransmitTime".
Definition k_Transmit : bytes := Eval compute in bos "Transmit".
Definition k_SetBeforeTransmitHook : bytes := Eval compute in bos "SetBeforeTransmitHook".
Definition k_SetCyclic : bytes := Eval compute in bos "SetCyclicTransmissionEnabled".
Definition k_IsCyclic : bytes := Eval compute in bos "IsCyclicTransmissionEnabled".
(* types of other packages, as source text without blanks *)
Definition t_string : bytes := Eval compute in bos "string".
Definition t_error : bytes := Eval compute in bos "error".
Definition t_can_Frame : bytes := Eval compute in bos "can.Frame".
Definition t_can_FrameMarshaler : bytes := Eval compute in bos "can.FrameMarshaler".
Definition t_desc_Message : bytes := Eval compute in bos "*descriptor.Message".
Definition t_desc_Signal : bytes := Eval compute in bos "*descriptor.Signal".
Definition t_desc_Node : bytes := Eval compute in bos "*descriptor.Node".
Definition t_desc_Database : bytes := Eval compute in bos "*descriptor.Database".
Definition t_generated_Message : bytes := Eval compute in bos "generated.Message".
Definition t_sync_Locker : bytes := Eval compute in bos "sync.Locker".
Definition t_http_Handler : bytes := Eval compute in bos "http.Handler".
Definition t_context : bytes := Eval compute in bos "context.Context".
Definition t_time : bytes := Eval compute in bos "time.Time".
Definition t_hook : bytes := Eval compute in bos "func(context.Context)error".

(** * float64 comparisons on bit patterns (Go [==], [!=], [<], [>] on float64)
    sign-magnitude order; +0 and -0 are equal; NaN is unordered and unequal to everything. *)
Definition f64_sign (b : Z) : bool := 2 ^ 63 <=? b.
Definition f64_mag (b : Z) : Z := b mod 2 ^ 63.
Definition f64_inf_mag : Z := 0x7FF0000000000000.
Definition f64_is_nan (b : Z) : bool := f64_inf_mag <? f64_mag b.
(** position on the extended real line, as an integer key that is monotone in the value *)
Definition f64_key (b : Z) : Z := if f64_sign b then - f64_mag b else f64_mag b.
Definition f64_eqb (a b : Z) : bool := negb (f64_is_nan a) && negb (f64_is_nan b) && (f64_key a =? f64_key b).
Definition f64_neb (a b : Z) : bool := negb (f64_eqb a b).
Definition f64_ltb (a b : Z) : bool := negb (f64_is_nan a) && negb (f64_is_nan b) && (f64_key a <? f64_key b).
Definition f64_gtb (a b : Z) : bool := f64_ltb b a.

Definition f64_zero : Z := 0.
Definition f64_one : Z := 0x3FF0000000000000.
(** math.MaxFloat32 as a float64 (signal.go MinFloat/MaxFloat) *)
Definition f64_max_float32 : Z := 0x47EFFFFFE0000000.
Definition f64_min_float32 : Z := 0xC7EFFFFFE0000000.

(** float64(n) for an int64/uint64 n: round to nearest, ties to even (exact up to 53 bits).
    The carry of the rounding (q + 1 = 2^53) propagates into the exponent field by plain addition. *)
Definition f64_of_nonneg (n : Z) : Z :=
  if n <=? 0 then 0
  else
    let k := Z.log2 n in
    if k <=? 52 then (k + 1023) * 2 ^ 52 + (n * 2 ^ (52 - k) - 2 ^ 52)
    else
      let sh := k - 52 in
      let q := n / 2 ^ sh in
      let r := n mod 2 ^ sh in
      let half := 2 ^ (sh - 1) in
      let q' := if (half <? r) || ((r =? half) && Z.odd q) then q + 1 else q in
      (k + 1023) * 2 ^ 52 + (q' - 2 ^ 52).
Definition f64_of_int (z : Z) : Z := if z <? 0 then 2 ^ 63 + f64_of_nonneg (- z) else f64_of_nonneg z.

(** * hasPhysicalRepresentation (file.go:796-810) *)
(** as written before F4: no test of the length *)
Definition has_physical_old (s : signal) : bool :=
  let has_scale := f64_neb (s_scale s) f64_zero && f64_neb (s_scale s) f64_one in
  let has_offset := f64_neb (s_offset s) f64_zero in
  let has_range := f64_neb (s_min s) f64_zero || f64_neb (s_max s) f64_zero in
  let has_constrained_range :=
    if s_float s then f64_gtb (s_min s) f64_min_float32 || f64_ltb (s_max s) f64_max_float32
    else if s_signed s then
      f64_gtb (s_min s) (f64_of_int (min_signed s)) || f64_ltb (s_max s) (f64_of_int (max_signed s))
    else f64_gtb (s_min s) f64_zero || f64_ltb (s_max s) (f64_of_int (max_unsigned s)) in
  has_scale || has_offset || (has_range && has_constrained_range).

(** after F4: [s.Length > 1 && (...)] *)
Definition has_physical (s : signal) : bool := (1 <? s_length s) && has_physical_old s.

(** * Types *)
(** the basic Go types the templates use for signal values *)
Inductive basic := BBool | BFloat32 | BFloat64 | BInt (bits : Z) | BUint (bits : Z).

Definition basic_of_prim (p : prim_type) : basic :=
  match p with PFloat32 => BFloat32 | PBool => BBool | PInt b => BInt b | PUint b => BUint b end.

(** file.go signalPrimitiveSuperType *)
Definition signal_prim_super (s : signal) : basic :=
  if s_float s then BFloat64
  else if s_length s =? 1 then BBool
  else if s_signed s then BInt 64
  else BUint 64.

(** parameter/result type of descriptor.Signal's Marshal<S>/Unmarshal<S>/SaturatedCast<S> *)
Definition super_basic (st : super_type) : basic :=
  match st with StFloat => BFloat64 | StBool => BBool | StSigned => BInt 64 | StUnsigned => BUint 64 end.

(** a Go type as it occurs in the exported declarations *)
Inductive gtype :=
  | GBasic (b : basic)
  | GNamed (name : bytes)     (* a type declared in the generated package *)
  | GPtr (name : bytes)       (* pointer to a type declared in the generated package *)
  | GExt (text : bytes).      (* anything else, by its source text without blanks *)

(** file.go hasCustomType *)
Definition has_custom_type (s : signal) : bool :=
  match s_value_descriptions s with [] => false | _ => true end.

(** file.go signalType: <Msg>_<Sig> iff value descriptions exist *)
Definition enum_type_name (m : message) (s : signal) : bytes := msg_name m ++ k_us ++ s_name s.
Definition signal_gtype (m : message) (s : signal) : gtype :=
  if has_custom_type s then GNamed (enum_type_name m s) else GBasic (basic_of_prim (signal_prim_type s)).

(** file.go slugifyString: drop every byte outside [a-zA-Z0-9] (the regexp works on the UTF-8 text;
    every byte of a multi-byte sequence is >= 0x80 and is dropped) *)
Definition is_alnum (c : Z) : bool :=
  ((48 <=? c) && (c <=? 57)) || ((65 <=? c) && (c <=? 90)) || ((97 <=? c) && (c <=? 122)).
Definition slugify (s : bytes) : bytes := filter is_alnum s.

(** an untyped Go constant as the templates print it *)
Inductive const_val := CBool (b : bool) | CInt (z : Z).

(** SignalCustomType: the value of the constant declared for a value description *)
Definition enum_const_val (s : signal) (vd : Types.value_description) : const_val :=
  if (s_length s =? 1) && (vdesc_value vd =? 1) then CBool true
  else if (s_length s =? 1) && (vdesc_value vd =? 0) then CBool false
  else CInt (vdesc_value vd).

(** MessageType, Reset(): the constant assigned to the field *)
Definition reset_const (s : signal) : const_val :=
  if (s_length s =? 1) && (s_default s =? 1) then CBool true
  else if s_length s =? 1 then CBool false
  else CInt (s_default s).

Record enum_const := { ec_name : bytes; ec_value : const_val }.

Record gsig := { g_name : bytes; g_params : list gtype; g_results : list gtype }.

(** what is decided per signal *)
Record signal_api := {
  sa_name : bytes;
  sa_field : bytes;                 (* xxx_<Name> *)
  sa_prim : prim_type;              (* signalPrimitiveType: the (underlying) type of the field *)
  sa_enum : option bytes;           (* the named type, iff value descriptions exist *)
  sa_type : gtype;                  (* signalType *)
  sa_physical : bool;               (* physical + raw accessors instead of plain accessors *)
  sa_reader : list gsig;            (* members of <Msg>Reader, = getter methods of *<Msg> *)
  sa_writer : list gsig;            (* members of <Msg>Writer, = setter methods of *<Msg> *)
  sa_consts : list enum_const;      (* one constant per value description *)
  sa_texts : list (Z * bytes);      (* value -> description, for String() *)
  sa_reset : const_val
}.

Record message_api := { ma_name : bytes; ma_signals : list signal_api }.

Record node_api := {
  na_name : bytes;
  na_rx : list bytes;               (* received messages, database order *)
  na_tx : list (bytes * bool)       (* sent messages that have a send type; flag = cyclic *)
}.

Record api := {
  api_package : bytes;
  api_messages : list message_api;
  api_node_names : list bytes;      (* fields of NodesDescriptor: always emitted *)
  api_nodes : option (list node_api)   (* node code: only when some message has a send type *)
}.

(** * Decisions *)
Definition f64t : gtype := GBasic BFloat64.

Definition signal_api_with (hp : signal -> bool) (m : message) (s : signal) : signal_api :=
  let t := signal_gtype m s in
  let self := GPtr (msg_name m) in
  let tn := enum_type_name m s in
  {| sa_name := s_name s;
     sa_field := k_xxx ++ s_name s;
     sa_prim := signal_prim_type s;
     sa_enum := if has_custom_type s then Some tn else None;
     sa_type := t;
     sa_physical := hp s;
     sa_reader :=
       if hp s then [ {| g_name := s_name s; g_params := []; g_results := [f64t] |};
                      {| g_name := k_Raw ++ s_name s; g_params := []; g_results := [t] |} ]
       else [ {| g_name := s_name s; g_params := []; g_results := [t] |} ];
     sa_writer :=
       if hp s then [ {| g_name := k_Set ++ s_name s; g_params := [f64t]; g_results := [self] |};
                      {| g_name := k_SetRaw ++ s_name s; g_params := [t]; g_results := [self] |} ]
       else [ {| g_name := k_Set ++ s_name s; g_params := [t]; g_results := [self] |} ];
     sa_consts := map (fun vd => {| ec_name := tn ++ k_us ++ slugify (vdesc_text vd);
                                    ec_value := enum_const_val s vd |}) (s_value_descriptions s);
     sa_texts := map (fun vd => (vdesc_value vd, vdesc_text vd)) (s_value_descriptions s);
     sa_reset := reset_const s |}.

Definition message_api_with (hp : signal -> bool) (m : message) : message_api :=
  {| ma_name := msg_name m; ma_signals := map (signal_api_with hp m) (msg_signals m) |}.

Definition is_send_none (t : send_type) : bool := match t with SendNone => true | _ => false end.
Definition is_cyclic (t : send_type) : bool := match t with SendCyclic => true | _ => false end.

(** file.go hasSendType: the loop returns at the first message with a send type *)
Fixpoint has_send_type_msgs (ms : list message) : bool :=
  match ms with
  | [] => false
  | m :: tl => if negb (is_send_none (msg_send_type m)) then true else has_send_type_msgs tl
  end.
Definition has_send_type (db : database) : bool := has_send_type_msgs (db_messages db).

(** file.go collectTxMessages *)
Fixpoint collect_tx_msgs (ms : list message) (n : bytes) : list message :=
  match ms with
  | [] => []
  | m :: tl =>
      if beqb (msg_sender m) n && negb (is_send_none (msg_send_type m))
      then m :: collect_tx_msgs tl n else collect_tx_msgs tl n
  end.
Definition collect_tx (db : database) (n : node) : list message := collect_tx_msgs (db_messages db) (node_name n).

(** file.go collectRxMessages: the three nested loops; [continue Loop] at the first hit *)
Fixpoint node_in_receivers (rs : list bytes) (n : bytes) : bool :=
  match rs with
  | [] => false
  | r :: tl => if negb (beqb r n) then node_in_receivers tl n else true
  end.
Fixpoint node_in_signals (ss : list signal) (n : bytes) : bool :=
  match ss with
  | [] => false
  | s :: tl => if node_in_receivers (s_receivers s) n then true else node_in_signals tl n
  end.
Fixpoint collect_rx_msgs (ms : list message) (n : bytes) : list message :=
  match ms with
  | [] => []
  | m :: tl => if node_in_signals (msg_signals m) n then m :: collect_rx_msgs tl n else collect_rx_msgs tl n
  end.
Definition collect_rx (db : database) (n : node) : list message := collect_rx_msgs (db_messages db) (node_name n).

Definition node_api_of (db : database) (n : node) : node_api :=
  {| na_name := node_name n;
     na_rx := map msg_name (collect_rx db n);
     na_tx := map (fun m => (msg_name m, is_cyclic (msg_send_type m))) (collect_tx db n) |}.

(** file.go Package: TrimSuffix(path.Base(src), path.Ext(src)) + "can" without '.', '-', '_' *)
Fixpoint after_last_slash (s acc : bytes) : bytes :=
  match s with
  | [] => acc
  | c :: tl => if c =? 47 then after_last_slash tl tl else after_last_slash tl acc
  end.
Fixpoint strip_trailing_slashes_rev (r : bytes) : bytes :=
  match r with
  | c :: tl => if c =? 47 then strip_trailing_slashes_rev tl else r
  | [] => []
  end.
(** path.Base *)
Definition path_base (s : bytes) : bytes :=
  match s with
  | [] => k_dot
  | _ => match rev (strip_trailing_slashes_rev (rev s)) with
         | [] => k_slash
         | s' => after_last_slash s' s'
         end
  end.
(** path.Ext: from the last '.' of the last slash-separated element of the WHOLE path *)
Fixpoint from_last_dot (s : bytes) (acc : bytes) : bytes :=
  match s with
  | [] => acc
  | c :: tl => if c =? 46 then from_last_dot tl s else from_last_dot tl acc
  end.
Definition path_ext (s : bytes) : bytes := let e := after_last_slash s s in from_last_dot e [].
Fixpoint has_suffix_rev (rs rsuf : bytes) : option bytes :=
  match rsuf, rs with
  | [], _ => Some rs
  | x :: rsuf', y :: rs' => if x =? y then has_suffix_rev rs' rsuf' else None
  | _ :: _, [] => None
  end.
Definition trim_suffix (s suf : bytes) : bytes :=
  match has_suffix_rev (rev s) (rev suf) with Some r => rev r | None => s end.
Definition package_name (src : bytes) : bytes :=
  filter (fun c => negb ((c =? 46) || (c =? 45) || (c =? 95)))
         (trim_suffix (path_base src) (path_ext src) ++ k_can).

Definition api_of_db_with (hp : signal -> bool) (db : database) : api :=
  {| api_package := package_name (db_source_file db);
     api_messages := map (message_api_with hp) (db_messages db);
     api_node_names := map node_name (db_nodes db);
     api_nodes := if has_send_type db then Some (map (node_api_of db) (db_nodes db)) else None |}.

Definition api_of_db : database -> api := api_of_db_with has_physical.
Definition api_of_db_old : database -> api := api_of_db_with has_physical_old.

(** * The exported declarations of the generated package *)
Inductive imember := IEmbed (text : gtype) | IMethod (s : gsig).
Inductive sfield := SEmbed (text : gtype) | SField (name : bytes) (t : gtype).
Inductive decl :=
  | DIface (name : bytes) (members : list imember)
  | DStruct (name : bytes) (fields : list sfield)
  | DNamed (name : bytes) (underlying : basic)
  | DFunc (s : gsig)
  | DMethod (recv : gtype) (s : gsig)
  | DConst (name : bytes) (ty : bytes) (v : const_val).

Definition mk_sig (n : bytes) (ps rs : list gtype) : gsig := {| g_name := n; g_params := ps; g_results := rs |}.

Definition enum_decls (sa : signal_api) : list decl :=
  match sa_enum sa with
  | None => []
  | Some tn =>
      DNamed tn (basic_of_prim (sa_prim sa))
      :: map (fun c => DConst (ec_name c) tn (ec_value c)) (sa_consts sa)
      ++ [DMethod (GNamed tn) (mk_sig k_String [] [GExt t_string])]
  end.

Definition message_decls (ma : message_api) : list decl :=
  let n := ma_name ma in
  let self := GPtr n in
  let reader := n ++ k_Reader in
  let writer := n ++ k_Writer in
  let copy_from := mk_sig k_CopyFrom [GNamed reader] [self] in
  [ DIface reader (IEmbed (GExt t_can_FrameMarshaler) :: map IMethod (flat_map sa_reader (ma_signals ma)));
    DIface writer (IMethod copy_from :: map IMethod (flat_map sa_writer (ma_signals ma)));
    DStruct n (map (fun sa => SField (sa_field sa) (sa_type sa)) (ma_signals ma));
    DFunc (mk_sig (k_New ++ n) [] [self]);
    DMethod self (mk_sig k_Reset [] []);
    DMethod self copy_from;
    DMethod self (mk_sig k_Descriptor [] [GExt t_desc_Message]);
    DMethod self (mk_sig k_String [] [GExt t_string]) ]
  ++ map (DMethod self) (flat_map (fun sa => sa_reader sa ++ sa_writer sa) (ma_signals ma))
  ++ flat_map enum_decls (ma_signals ma)
  ++ [ DMethod self (mk_sig k_Frame [] [GExt t_can_Frame]);
       DMethod self (mk_sig k_MarshalFrame [] [GExt t_can_Frame; GExt t_error]);
       DMethod self (mk_sig k_UnmarshalFrame [GExt t_can_Frame] [GExt t_error]) ].

Definition node_decls (na : node_api) : list decl :=
  let n := na_name na in
  let hook := GExt t_hook in
  [ DIface n [ IEmbed (GExt t_sync_Locker);
               IMethod (mk_sig k_TxM [] [GNamed (n ++ k_Tx)]);
               IMethod (mk_sig k_RxM [] [GNamed (n ++ k_Rx)]);
               IMethod (mk_sig k_Run [GExt t_context] [GExt t_error]) ];
    DIface (n ++ k_Rx) (IEmbed (GExt t_http_Handler)
                        :: map (fun m => IMethod (mk_sig m [] [GNamed (n ++ k_Rx_ ++ m)])) (na_rx na));
    DIface (n ++ k_Tx) (IEmbed (GExt t_http_Handler)
                        :: map (fun mc : bytes * bool => IMethod (mk_sig (fst mc) [] [GNamed (n ++ k_Tx_ ++ fst mc)])) (na_tx na)) ]
  ++ map (fun m => DIface (n ++ k_Rx_ ++ m)
                     [ IEmbed (GNamed (m ++ k_Reader));
                       IMethod (mk_sig k_ReceiveTime [] [GExt t_time]);
                       IMethod (mk_sig k_SetAfterReceiveHook [hook] []) ]) (na_rx na)
  ++ map (fun mc : bytes * bool => DIface (n ++ k_Tx_ ++ fst mc)
                     ([ IEmbed (GNamed (fst mc ++ k_Reader));
                        IEmbed (GNamed (fst mc ++ k_Writer));
                        IMethod (mk_sig k_TransmitTime [] [GExt t_time]);
                        IMethod (mk_sig k_Transmit [GExt t_context] [GExt t_error]);
                        IMethod (mk_sig k_SetBeforeTransmitHook [hook] []) ]
                      ++ (if snd mc then [ IMethod (mk_sig k_SetCyclic [GBasic BBool] []);
                                           IMethod (mk_sig k_IsCyclic [] [GBasic BBool]) ] else []))) (na_tx na)
  ++ [ DFunc (mk_sig (k_New ++ n) [GExt t_string; GExt t_string] [GNamed n]) ].

Definition descriptor_decls (a : api) : list decl :=
  [ DFunc (mk_sig k_Nodes [] [GPtr k_NodesDescriptor]);
    DStruct k_NodesDescriptor (map (fun n => SField n (GExt t_desc_Node)) (api_node_names a));
    DFunc (mk_sig k_Messages [] [GPtr k_MessagesDescriptor]);
    DStruct k_MessagesDescriptor
      (map (fun ma => SField (ma_name ma) (GPtr (ma_name ma ++ k_Descriptor))) (api_messages a));
    DMethod (GPtr k_MessagesDescriptor)
      (mk_sig k_UnmarshalFrame [GExt t_can_Frame] [GExt t_generated_Message; GExt t_error]) ]
  ++ map (fun ma => DStruct (ma_name ma ++ k_Descriptor)
                      (SEmbed (GExt t_desc_Message)
                       :: map (fun sa => SField (sa_name sa) (GExt t_desc_Signal)) (ma_signals ma)))
         (api_messages a)
  ++ [ DMethod (GPtr k_MessagesDescriptor) (mk_sig k_Database [] [GExt t_desc_Database]) ].

Definition api_decls (a : api) : list decl :=
  flat_map message_decls (api_messages a)
  ++ match api_nodes a with Some ns => flat_map node_decls ns | None => [] end
  ++ descriptor_decls a.

(** String() of a generated enum type (SignalCustomType): the description of the first matching
    value description, else "<Type>(<value>)" with %t / %d.  [v] is 0/1 for a bool type. *)
Fixpoint lookup_text (ts : list (Z * bytes)) (v : Z) : option bytes :=
  match ts with
  | [] => None
  | (x, t) :: tl => if x =? v then Some t else lookup_text tl v
  end.
(** for a 1-bit signal the switch has [case true] for value 1 and [case false] for EVERY other value *)
Fixpoint lookup_text_bool (ts : list (Z * bytes)) (v : bool) : option bytes :=
  match ts with
  | [] => None
  | (x, t) :: tl => if Bool.eqb (x =? 1) v then Some t else lookup_text_bool tl v
  end.
Definition enum_string (sa : signal_api) (v : Z) : bytes :=
  match sa_enum sa with
  | None => []
  | Some tn =>
      match sa_prim sa with
      | PBool =>
          match lookup_text_bool (sa_texts sa) (negb (v =? 0)) with
          | Some t => t
          | None => tn ++ k_lpar ++ (if v =? 0 then k_false else k_true) ++ k_rpar
          end
      | _ =>
          match lookup_text (sa_texts sa) v with
          | Some t => t
          | None => tn ++ k_lpar ++ itoa v ++ k_rpar
          end
      end
  end.

(** * Conversions, constant uses and library calls emitted by the templates *)
Inductive conv :=
  | CConvert (from to : basic)        (* T(x) for a non-constant x : from; named types by their underlying type *)
  | CConst (c : const_val) (t : basic)  (* untyped constant declared as / assigned to / compared with type t *)
  | CArg (given expected : basic)     (* argument of a descriptor.Signal method *)
  | CSat (st : super_type).           (* call of descriptor.Signal.SaturatedCast<st> *)

Definition is_numeric (b : basic) : bool := match b with BBool => false | _ => true end.

Definition basic_eqb (a b : basic) : bool :=
  match a, b with
  | BBool, BBool | BFloat32, BFloat32 | BFloat64, BFloat64 => true
  | BInt x, BInt y | BUint x, BUint y => x =? y
  | _, _ => false
  end.

(** Go spec, "Representability": an untyped boolean constant only as a boolean; an integer constant
    as an integer type iff it is in the type's range, as a float type iff it rounds without overflow
    (true below 2^127 resp. 2^1023) *)
Definition const_fits (c : const_val) (t : basic) : bool :=
  match c, t with
  | CBool _, BBool => true
  | CInt z, BInt n => (- 2 ^ (n - 1) <=? z) && (z <=? 2 ^ (n - 1) - 1)
  | CInt z, BUint n => (0 <=? z) && (z <=? 2 ^ n - 1)
  | CInt z, BFloat32 => Z.abs z <? 2 ^ 127
  | CInt z, BFloat64 => Z.abs z <? 2 ^ 1023
  | _, _ => false
  end.

(** Go spec, "Conversions" for non-constant values, restricted to the basic types at hand:
    numeric <-> numeric, or identical underlying types (bool <-> bool). Comparison [x == c] and
    assignment [x = c] with an untyped constant c need c representable in x's type. *)
Definition conv_ok (c : conv) : bool :=
  match c with
  | CConvert f t => (is_numeric f && is_numeric t) || basic_eqb f t
  | CConst v t => const_fits v t
  | CArg g e => basic_eqb g e
  | CSat st => match st with StBool => false | _ => true end   (* there is no SaturatedCastBool *)
  end.

(** descriptor.Message.MultiplexerSignal: the first signal flagged as multiplexer *)
Fixpoint find_mux (ss : list signal) : option signal :=
  match ss with
  | [] => None
  | s :: tl => if s_multiplexer s then Some s else find_mux tl
  end.

Definition signal_convs_with (hp : signal -> bool) (m : message) (s : signal) : list conv :=
  let t := basic_of_prim (signal_prim_type s) in
  let u := signal_prim_super s in
  let st := signal_super_type s in
  let raw_setter := [CConvert t u; CSat st; CArg u (super_basic st); CConvert (super_basic st) t] in
  (* Frame(): md.S.Marshal<st>(&f.Data, U(m.xxx_S)) *)
  [CConvert t u; CArg u (super_basic st)]
  (* UnmarshalFrame(): m.xxx_S = T(md.S.Unmarshal<st>(f.Data)) *)
  ++ [CConvert (super_basic st) t]
  (* if m.xxx_Mux == <selector> { ... } in Frame() and UnmarshalFrame() *)
  ++ (if s_multiplexed s then
        match find_mux (msg_signals m) with
        | Some mx => [CConst (CInt (s_mux_value s)) (basic_of_prim (signal_prim_type mx))]
        | None => []
        end
      else [])
  (* Reset(): m.xxx_S = <default> *)
  ++ [CConst (reset_const s) t]
  (* accessors *)
  ++ (if hp s then
        (* ToPhysical(float64(m.xxx_S)); m.xxx_S = T(FromPhysical(v)); SetRaw as the raw setter *)
        [CConvert t BFloat64; CConvert BFloat64 t] ++ raw_setter
      else if s_length s =? 1 then []      (* m.xxx_S = v *)
      else raw_setter)                     (* m.xxx_S = T(SaturatedCast<st>(U(v))) *)
  (* enum type: constants, and the switch of String() *)
  ++ map (fun vd => CConst (enum_const_val s vd) t) (s_value_descriptions s)
  ++ (if has_custom_type s then
        if s_length s =? 1 then [CConvert t BBool]     (* switch bool(v) *)
        else map (fun vd => CConst (CInt (vdesc_value vd)) t) (s_value_descriptions s)   (* case <value>: *)
      else []).

Definition message_convs_with (hp : signal -> bool) (m : message) : list conv :=
  flat_map (signal_convs_with hp m) (msg_signals m).
Definition db_convs_with (hp : signal -> bool) (db : database) : list conv :=
  flat_map (message_convs_with hp) (db_messages db).

Definition db_convs : database -> list conv := db_convs_with has_physical.
Definition db_convs_old : database -> list conv := db_convs_with has_physical_old.

(** does every emitted conversion type-check? (used by the driver on every batch program) *)
Definition db_convs_ok (db : database) : bool := forallb conv_ok (db_convs db).
Definition db_convs_ok_old (db : database) : bool := forallb conv_ok (db_convs_old db).
