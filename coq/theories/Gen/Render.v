(** Executable model of the renderers (property C19):

      pkg/cantext/encode.go    Marshal [text_multiline], MarshalCompact / MessageString [text_compact],
                               AppendSignal [text_signal], AppendSignalCompact [text_compact_signal],
                               AppendID / AppendSender / AppendSendType / AppendCycleTime / AppendDelayTime /
                               AppendFrame with the caller's buffer made explicit [append_to], the text
                               one call contributes [append_text]; Marshal as the Go loop over a buffer
                               [marshal_loop]
      pkg/canjson/encode.go    Marshal [json_render], signal.set* [json_signal_value],
                               uintToJSON [uint_to_json] (AFTER fix F7; pre-fix formula [uint_to_json_old]),
                               intToJSON [int_to_json], floatToJSON (a [FloatF] segment)
      pkg/candebug/http.go     ServeMessagesHTTP [debug_page], appendMessage [debug_message],
                               path.Base of the URL path [path_base]
    as far as they call pkg/descriptor/signal.go, that part is Descriptor/Signal.v
    (unmarshal_unsigned/signed/bool, value_description) and Descriptor/Physical.v (to_physical,
    unmarshal_physical, Flocq binary64).

    A rendering is a list of SEGMENTS.  Integers are printed by the Coq printers of Gen/RenderNum.v
    (Base/Dec.v, Base/Hex.v).  What is NOT modelled is carried as a segment that names the exact Go
    call which produces its text (harness/render/main.go performs these calls when it compares):
      [FloatG bits]       strconv.AppendFloat(buf, math.Float64frombits(bits), 'g', -1, 64)
      [FloatF bits]       strconv.FormatFloat(math.Float64frombits(bits), 'f', -1, 64)
      [GoJSONString b]    encoding/json.Marshal(string(b))      (string encoder, HTML escaping on)
      [GoDuration ns]     time.Duration(ns).String()
    NaN has one bit pattern here (0x7ff8000000000000); Go prints every NaN as "NaN".

    Strings are [list Z] of bytes (UTF-8).  DEFINITIONS ONLY - proofs are in Gen/RenderProofs.v. *)
From Coq Require Import String.
From Coq Require Import ZArith List Bool.
From Flocq Require Import BinarySingleNaN.
From CanVerif Require Import Base.Dec Base.Hex Can.Data Descriptor.Signal Descriptor.Physical Gen.Message Gen.RenderNum.
From CanVerif Require Can.Frame Can.FrameString.
Import ListNotations.
Open Scope Z_scope.

Inductive segment :=
| Lit (b : bytes)
| FloatG (bits : Z)
| FloatF (bits : Z)
| GoJSONString (b : bytes)
| GoDuration (ns : Z).

(** * Literals *)
Definition t_colon_sp : bytes := Eval compute in lit ": ".
Definition t_open_paren : bytes := Eval compute in lit " (".
Definition t_0x : bytes := Eval compute in lit "0x".
Definition t_close_paren : bytes := Eval compute in lit ")".
Definition t_space : bytes := Eval compute in lit " ".
Definition t_lbrace : bytes := Eval compute in lit "{".
Definition t_rbrace : bytes := Eval compute in lit "}".
Definition t_comma_sp : bytes := Eval compute in lit ", ".
Definition t_comma : bytes := Eval compute in lit ",".
Definition t_nl : bytes := [10].
Definition t_nl_tab : bytes := [10; 9].
Definition t_nl3 : bytes := [10; 10; 10].
Definition t_quote : bytes := [34].
Definition t_quote_colon : bytes := [34; 58].
Definition t_one : bytes := Eval compute in lit "1".
Definition t_zero : bytes := Eval compute in lit "0".
Definition t_raw_key : bytes := Eval compute in lit "{""Raw"":".
Definition t_physical_key : bytes := Eval compute in lit ",""Physical"":".
Definition t_unit_key : bytes := Eval compute in lit ",""Unit"":".
Definition t_description_key : bytes := Eval compute in lit ",""Description"":".
Definition t_id : bytes := Eval compute in lit "ID: ".
Definition t_id_open : bytes := Eval compute in lit " (0x".
Definition t_sender : bytes := Eval compute in lit "Sender".
Definition t_send_type : bytes := Eval compute in lit "SendType".
Definition t_cycle_time : bytes := Eval compute in lit "CycleTime".
Definition t_delay_time : bytes := Eval compute in lit "DelayTime".
Definition t_enabled : bytes := Eval compute in lit "Enabled: ".
Definition t_received : bytes := Eval compute in lit "Received: ".
Definition t_transmitted : bytes := Eval compute in lit "Transmitted: ".
Definition t_never : bytes := Eval compute in lit "never".
Definition t_none : bytes := Eval compute in lit "None".
Definition t_cyclic : bytes := Eval compute in lit "Cyclic".
Definition t_event : bytes := Eval compute in lit "Event".
Definition t_frame : bytes := Eval compute in lit "Frame".

(** * Values the renderers read from the payload *)

(** float64 bit pattern of s.UnmarshalPhysical(d) (signal.go:89-113) *)
Definition physical_bits (s : signal) (d : data) : Z := bits_of_f64 (unmarshal_physical s d).

(** * pkg/cantext *)

(** the trailing " <description>" of AppendSignal (encode.go:66-69) *)
Definition vd_suffix (s : signal) (d : data) : list segment :=
  match unmarshal_value_description s d with
  | Some t => [Lit t_space; Lit t]
  | None => []
  end.

(** AppendSignal (encode.go:44-71).  Signed raw values are printed as uint64(int64), i.e. the
    64-bit two's complement, by AppendUint(.., 16); [IsFloat] is not consulted by the renderers. *)
Definition text_signal (s : signal) (d : data) : list segment :=
  [Lit (s_name s); Lit t_colon_sp] ++
  (if s_length s =? 1 then [Lit (bool_text (unmarshal_bool s d))]
   else if s_signed s then
     [FloatG (physical_bits s d); Lit (s_unit s); Lit t_open_paren; Lit t_0x;
      Lit (hex_u (u64 (unmarshal_signed s d))); Lit t_close_paren]
   else
     [FloatG (physical_bits s d); Lit (s_unit s); Lit t_open_paren; Lit t_0x;
      Lit (hex_u (unmarshal_unsigned s d)); Lit t_close_paren]) ++
  vd_suffix s d.

(** AppendSignalCompact (encode.go:73-91): a matching value description replaces value and unit *)
Definition text_compact_signal (s : signal) (d : data) : list segment :=
  [Lit (s_name s); Lit t_colon_sp] ++
  match unmarshal_value_description s d with
  | Some t => [Lit t]
  | None =>
    if s_length s =? 1 then [Lit (bool_text (unmarshal_bool s d))]
    else [FloatG (physical_bits s d); Lit (s_unit s)]
  end.

(** [for i, s := range signals { buf = f(buf, s); if i != len(signals)-1 { buf = append(buf, sep) } }]
    (MarshalCompact, candebug.appendMessage and serveMessagesHTTP; canjson.Marshal tests [i < len-1],
    the same thing for 0 <= i < len).  [n] = len(signals), [i] = current index. *)
Fixpoint loop_sep {A} (f : A -> list segment) (sep : list segment) (n i : nat) (xs : list A) : list segment :=
  match xs with
  | [] => []
  | x :: tl => f x ++ (if Nat.eqb i (n - 1) then [] else sep) ++ loop_sep f sep n (S i) tl
  end.

(** MarshalCompact / MessageString (encode.go:14-30) on the payload of m.Frame() *)
Definition text_compact_data (m : message) (d : data) : list segment :=
  [Lit t_lbrace] ++
  loop_sep (fun s => text_compact_signal s d) [Lit t_comma_sp] (length (msg_signals m)) 0 (msg_signals m) ++
  [Lit t_rbrace].

(** Marshal (encode.go:32-42) *)
Definition text_multiline_data (m : message) (d : data) : list segment :=
  Lit (msg_name m) :: flat_map (fun s => Lit t_nl_tab :: text_signal s d) (msg_signals m).

(** * pkg/canjson *)

(** uintToJSON after F7: strconv.FormatUint(u, 10) *)
Definition uint_to_json (u : Z) : bytes := dec_u u.
(** uintToJSON before F7: strconv.Itoa(int(u)) - the conversion to int (64 bits) wraps *)
Definition uint_to_json_old (u : Z) : bytes := dec_s (i64_of_u64 u).
(** intToJSON: strconv.FormatInt(i, 10) (before F7: Itoa(int(i)), the same on 64-bit platforms) *)
Definition int_to_json (i : Z) : bytes := dec_s i.

(** signal.set (encode.go:48-93): Raw text, Physical (float64), looked-up description.
    [uj] is the unsigned formatter (parameter so that the pre-fix variant shares the code). *)
Definition json_signal_value (uj : Z -> bytes) (s : signal) (d : data) : bytes * f64 * option bytes :=
  if s_length s =? 1 then
    let v := if unmarshal_bool s d then 1 else 0 in
    ((if unmarshal_bool s d then t_one else t_zero), to_physical s (f64_of_Z v),
     value_description (s_value_descriptions s) v)
  else if s_signed s then
    let v := unmarshal_signed s d in
    (int_to_json v, to_physical s (f64_of_Z v), value_description (s_value_descriptions s) v)
  else
    let v := unmarshal_unsigned s d in
    (uj v, to_physical s (f64_of_Z v), value_description (s_value_descriptions s) (i64_of_u64 v)).

Definition nonempty (b : bytes) : bool := match b with [] => false | _ => true end.

(** json.Marshal(&signal{Raw, Physical, Unit, Description}) with `omitempty` on the two strings.
    encoding/json validates json.Number literals: "NaN", "+Inf", "-Inf" (what FormatFloat 'f' gives for
    non-finite values) make Marshal fail, and canjson.Marshal then returns (nil, error): [None]. *)
Definition json_signal_object (uj : Z -> bytes) (s : signal) (d : data) : option (list segment) :=
  let '(raw, phys, desc) := json_signal_value uj s d in
  if is_finite phys then
    Some ([Lit t_raw_key; Lit raw; Lit t_physical_key; FloatF (bits_of_f64 phys)] ++
          (if nonempty (s_unit s) then [Lit t_unit_key; GoJSONString (s_unit s)] else []) ++
          (match desc with
           | Some t => if nonempty t then [Lit t_description_key; GoJSONString t] else []
           | None => []
           end) ++
          [Lit t_rbrace])
  else None.

(** one member: quote name quote colon object (the name is appended unescaped, encode.go:23-25) *)
Definition json_member (uj : Z -> bytes) (s : signal) (d : data) : option (list segment) :=
  match json_signal_object uj s d with
  | Some o => Some ([Lit t_quote; Lit (s_name s); Lit t_quote_colon] ++ o)
  | None => None
  end.

(** the loop of Marshal (encode.go:21-36): stops with an error at the first failing signal *)
Fixpoint json_loop (uj : Z -> bytes) (d : data) (n i : nat) (ss : list signal) : option (list segment) :=
  match ss with
  | [] => Some []
  | s :: tl =>
    match json_member uj s d with
    | None => None
    | Some o =>
      match json_loop uj d n (S i) tl with
      | None => None
      | Some r => Some (o ++ (if Nat.ltb i (n - 1) then [Lit t_comma] else []) ++ r)
      end
    end
  end.

Definition json_render_with (uj : Z -> bytes) (m : message) (d : data) : option (list segment) :=
  match json_loop uj d (length (msg_signals m)) 0 (msg_signals m) with
  | Some r => Some ([Lit t_lbrace] ++ r ++ [Lit t_rbrace])
  | None => None
  end.
Definition json_render_data := json_render_with uint_to_json.
Definition json_render_data_old := json_render_with uint_to_json_old.

(** * pkg/candebug *)

(** which optional interfaces the message value implements (http.go:53, 66, 72):
    plain message type; <Node>_Rx_<Msg> (ReceiveTime); <Node>_Tx_<Msg> (TransmitTime,
    IsCyclicTransmissionEnabled).  All times are the zero time.Time ("never"). *)
Inductive wrapper := WPlain | WRx | WTx (cyclic_enabled : bool).

(** SendType.String() (sendtype_string.go) *)
Definition send_type_text (t : send_type) : bytes :=
  match t with SendNone => t_none | SendCyclic => t_cyclic | SendEvent => t_event end.

(** cantext.AppendID (encode.go:93-100) *)
Definition append_id (m : message) : list segment :=
  [Lit t_id; Lit (dec_u (msg_id m)); Lit t_id_open; Lit (hex_u (msg_id m)); Lit t_close_paren].

(** cantext.appendAttributeString *)
Definition append_attr (name : bytes) (v : segment) : list segment := [Lit name; Lit t_colon_sp; v].

(** sep := append(bytes.Repeat([]byte{'='}, len(name)), '\n') *)
Definition sep_line (m : message) : segment := Lit (repeat 61 (length (msg_name m)) ++ [10]).

(** appendMessage up to (not including) the signal lines (http.go:40-77) *)
Definition debug_header (w : wrapper) (m : message) : list segment :=
  [Lit (msg_name m); Lit t_nl; sep_line m] ++ append_id m ++ [Lit t_nl] ++
  append_attr t_sender (Lit (msg_sender m)) ++ [Lit t_nl] ++
  append_attr t_send_type (Lit (send_type_text (msg_send_type m))) ++ [Lit t_nl] ++
  (match msg_send_type m with
   | SendCyclic =>
     (match w with WTx en => [Lit t_enabled; Lit (bool_text en); Lit t_nl] | _ => [] end) ++
     append_attr t_cycle_time (GoDuration (msg_cycle_time m)) ++ [Lit t_nl]
   | _ => []
   end) ++
  (if msg_delay_time m =? 0 then [] else append_attr t_delay_time (GoDuration (msg_delay_time m)) ++ [Lit t_nl]) ++
  [sep_line m] ++
  (match w with WRx => [Lit t_received; Lit t_never; Lit t_nl; sep_line m] | _ => [] end) ++
  (match w with WTx _ => [Lit t_transmitted; Lit t_never; Lit t_nl; sep_line m] | _ => [] end).

(** appendMessage (http.go:40-86) *)
Definition debug_message (w : wrapper) (m : message) (d : data) : list segment :=
  debug_header w m ++
  loop_sep (fun s => text_signal s d) [Lit t_nl] (length (msg_signals m)) 0 (msg_signals m).

(** path.Base (path/path.go): "" -> "."; trailing slashes stripped; the text after the last
    slash; "/" if nothing is left.  Computed on the reversed path. *)
Fixpoint drop_slashes (r : bytes) : bytes :=
  match r with
  | c :: t => if c =? 47 then drop_slashes t else r
  | [] => []
  end.
Fixpoint take_element (r : bytes) : bytes :=
  match r with
  | c :: t => if c =? 47 then [] else c :: take_element t
  | [] => []
  end.
Definition path_base (p : bytes) : bytes :=
  match p with
  | [] => [46]
  | _ => match rev (take_element (drop_slashes (rev p))) with
         | [] => [47]
         | b => b
         end
  end.

Fixpoint beqb (a b : bytes) : bool :=
  match a, b with
  | [], [] => true
  | x :: a', y :: b' => (x =? y) && beqb a' b'
  | _, _ => false
  end.

Definition entry := (wrapper * message * data)%type.
Definition entry_message (e : entry) : message := snd (fst e).

(** the first message whose name equals the last path element (http.go:18-23) *)
Fixpoint select_entry (base : bytes) (es : list entry) : option entry :=
  match es with
  | [] => None
  | e :: tl => if beqb (msg_name (entry_message e)) base then Some e else select_entry base tl
  end.

(** serveMessagesHTTP (http.go:27-38): the response body *)
Definition debug_body (es : list entry) : list segment :=
  loop_sep (fun e : entry => debug_message (fst (fst e)) (snd (fst e)) (snd e)) [Lit t_nl3] (length es) 0 es.

(** ServeMessagesHTTP (http.go:15-25); [path] = r.URL.Path *)
Definition debug_page (path : bytes) (es : list entry) : list segment :=
  match select_entry (path_base path) es with
  | Some e => debug_body [e]
  | None => debug_body es
  end.

(** * On message states (Gen/Message.v): every renderer starts with [f := m.Frame()] *)
Definition state_data (m : message) (st : state) : data := fr_data (frame_of m st).
Definition text_compact (m : message) (st : state) := text_compact_data m (state_data m st).
Definition text_multiline (m : message) (st : state) := text_multiline_data m (state_data m st).
Definition json_render (m : message) (st : state) := json_render_data m (state_data m st).
Definition json_render_old (m : message) (st : state) := json_render_data_old m (state_data m st).
Definition debug_entry (w : wrapper) (m : message) (st : state) : entry := (w, m, state_data m st).

(** * cantext.Append* with the caller's buffer made explicit

    Every Append* function of pkg/cantext has the shape [func(buf []byte, ...) []byte] and is
    written with [append] only.  A buffer is a segment list; [append_text c] is what call [c]
    contributes and [append_to buf c] the buffer it returns.  [None] = the call panics: only
    AppendFrame can (Frame.String() on a data frame with Length > 8, Can/FrameString.v).
    That the returned slice shares no memory with buffers handed out by OTHER calls is a fact about Go
    memory, not expressible here (a rendering is a value); the correspondence run observes it. *)
Definition can_frame (f : frame) : Can.Frame.frame :=
  Can.Frame.mkFrame (fr_id f) (fr_length f) (fr_data f) (fr_remote f) (fr_extended f).

Inductive append_call :=
| CallSignal (s : signal) (d : data)          (* AppendSignal(buf, s, d) *)
| CallSignalCompact (s : signal) (d : data)   (* AppendSignalCompact(buf, s, d) *)
| CallID (m : message)                        (* AppendID(buf, m.Descriptor()) *)
| CallSender (m : message)
| CallSendType (m : message)
| CallCycleTime (m : message)
| CallDelayTime (m : message)
| CallFrame (f : frame).                      (* AppendFrame(buf, f) *)

Definition append_text (c : append_call) : option (list segment) :=
  match c with
  | CallSignal s d => Some (text_signal s d)
  | CallSignalCompact s d => Some (text_compact_signal s d)
  | CallID m => Some (append_id m)
  | CallSender m => Some (append_attr t_sender (Lit (msg_sender m)))
  | CallSendType m => Some (append_attr t_send_type (Lit (send_type_text (msg_send_type m))))
  | CallCycleTime m => Some (append_attr t_cycle_time (GoDuration (msg_cycle_time m)))
  | CallDelayTime m => Some (append_attr t_delay_time (GoDuration (msg_delay_time m)))
  | CallFrame f =>
    match Can.FrameString.to_string (can_frame f) with
    | Can.FrameString.S_ok t => Some (append_attr t_frame (Lit t))
    | Can.FrameString.S_panic => None
    end
  end.

Definition append_to (buf : list segment) (c : append_call) : option (list segment) :=
  match append_text c with
  | Some t => Some (buf ++ t)
  | None => None
  end.

(** Marshal (encode.go:32-42) as written: [buf = append(buf, name)], then per signal
    [buf = append(buf, "\n\t"); buf = AppendSignal(buf, s, f.Data)] *)
Definition marshal_loop (m : message) (d : data) : list segment :=
  fold_left (fun buf s => match append_to (buf ++ [Lit t_nl_tab]) (CallSignal s d) with
                          | Some b => b
                          | None => buf
                          end)
            (msg_signals m) [Lit (msg_name m)].

(** MarshalCompact (encode.go:18-30) as written; [i] counts the signals already appended *)
Definition marshal_compact_loop (m : message) (d : data) : list segment :=
  snd (fold_left (fun (acc : nat * list segment) s =>
                    let '(i, buf) := acc in
                    let buf1 := match append_to buf (CallSignalCompact s d) with Some b => b | None => buf end in
                    (S i, if Nat.eqb i (length (msg_signals m) - 1) then buf1 else buf1 ++ [Lit t_comma_sp]))
                 (msg_signals m) (O, [Lit t_lbrace])) ++ [Lit t_rbrace].
