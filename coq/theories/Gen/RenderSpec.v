(** Specification vocabulary for the renderings (C19), independent of the renderers' code:

    - [render]: the bytes a segment list denotes, given the text of the four NOT-modelled Go calls
      (parameters [rG], [rF], [rJ], [rD] = strconv.AppendFloat 'g', strconv.FormatFloat 'f',
      encoding/json string encoding, time.Duration.String);
    - the JSON grammar of RFC 8259 restricted to what canjson can emit (objects, strings, numbers;
      no insignificant whitespace, no arrays / true / false / null): every byte string derivable
      here is a valid JSON text;
    - [join]: blocks separated by a separator (the closed form of the renderers' loops).

    Strings are [list Z] of bytes.  DEFINITIONS ONLY. *)
From Coq Require Import ZArith List Bool.
From CanVerif Require Import Descriptor.Types Gen.RenderNum Gen.Render.
Import ListNotations.
Open Scope Z_scope.

(** * Blocks with separators: b1 ++ sep ++ b2 ++ sep ++ ... ++ bn *)
Fixpoint join {A} (sep : list A) (blocks : list (list A)) : list A :=
  match blocks with
  | [] => []
  | [b] => b
  | b :: tl => b ++ sep ++ join sep tl
  end.

(** all results, or [None] if one of them failed *)
Fixpoint all_some {A} (l : list (option A)) : option (list A) :=
  match l with
  | [] => Some []
  | None :: _ => None
  | Some x :: tl => match all_some tl with Some r => Some (x :: r) | None => None end
  end.

(** * Bytes of a segment list *)
Section Render.
  Variables (rG rF : Z -> bytes) (rJ : bytes -> bytes) (rD : Z -> bytes).
  Definition render_segment (sg : segment) : bytes :=
    match sg with
    | Lit b => b
    | FloatG x => rG x
    | FloatF x => rF x
    | GoJSONString b => rJ b
    | GoDuration n => rD n
    end.
  Definition render (l : list segment) : bytes := flat_map render_segment l.
End Render.

(** * JSON (RFC 8259 section 7: strings) *)
Definition hexb (c : Z) : Prop := 48 <= c <= 57 \/ 65 <= c <= 70 \/ 97 <= c <= 102.
(** the characters between the quotes: unescaped bytes (>= 0x20, neither the quote 0x22 nor the backslash 0x5c; multi-byte UTF-8
    sequences are bytes >= 0x80), two-character escapes, \uXXXX *)
Inductive json_chars : bytes -> Prop :=
| jc_nil : json_chars []
| jc_plain c r : 32 <= c < 256 -> c <> 34 -> c <> 92 -> json_chars r -> json_chars (c :: r)
| jc_escape c r : In c [34; 92; 47; 98; 102; 110; 114; 116] -> json_chars r -> json_chars (92 :: c :: r)
| jc_unicode a b c d r : hexb a -> hexb b -> hexb c -> hexb d -> json_chars r ->
    json_chars (92 :: 117 :: a :: b :: c :: d :: r).
Definition json_string (s : bytes) : Prop := exists body, s = 34 :: body ++ [34] /\ json_chars body.

(** value = object / string / number;  object = "{" [ member *( "," member ) ] "}";
    member = string ":" value *)
Inductive json_value : bytes -> Prop :=
| jv_number s : json_number s -> json_value s
| jv_string s : json_string s -> json_value s
| jv_empty_object : json_value [123; 125]
| jv_object ms : json_members ms -> json_value (123 :: ms ++ [125])
with json_members : bytes -> Prop :=
| jm_last k v : json_string k -> json_value v -> json_members (k ++ 58 :: v)
| jm_more k v r : json_string k -> json_value v -> json_members r -> json_members (k ++ 58 :: v ++ 44 :: r).

(** a name that can stand between quotes without escaping (every DBC identifier can) *)
Definition json_plain_name (name : bytes) : Prop := Forall (fun c => 32 <= c < 256 /\ c <> 34 /\ c <> 92) name.
