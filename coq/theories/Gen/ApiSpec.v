(** Specification side of C11, written independently of the generator's algorithm:

      [in_class43]         the generator-supported class of DESIGN.md section 4.3, as a decidable
                           predicate on the compiled database (the clauses of 4.2 that are visible
                           in a database included);
      [prim_type_spec]     bool iff 1 bit, float32 iff float, else the NARROWEST of (u)int8/16/32/64
                           that holds the length, signedness from the signal;
      [fval]               the exact value of a finite binary64 pattern, as the integer
                           value * 2^1074 (every finite binary64 is a multiple of 2^-1074), so that
                           "non-identity factor", "offset", "range narrower than the representable
                           range" are statements about exact integers, with the bounds 2^L-1 etc. NOT
                           rounded to float64;
      [has_physical_spec]  L > 1 /\ (factor not in {0,1} \/ offset <> 0 \/ (range declared /\ narrower
                           than representable));
      [receives], [sends_with_type]   Rx/Tx membership.

    Strings are [list Z] of bytes. DEFINITIONS ONLY - proofs are in Gen/ApiProofs.v.

    Two clauses of [in_class43] are NOT in the text of DESIGN.md 4.3; both were found while building
    this family and are reported as candidate findings (the generator emits code that does not
    compile resp. fails in go/format):
      - a multiplexer that selects at least one multiplexed signal is at least 2 bits long
        ([m.xxx_Mux == 0] on a bool field does not compile);
      - value-description texts contain no backslash, double quote or line break (the text is
        pasted into a Go string literal by SignalCustomType). *)
From Coq Require Import ZArith List Bool.
From CanVerif Require Import Descriptor.Types Gen.Message Gen.Api.
Import ListNotations.
Open Scope Z_scope.

(** * Field type *)
Definition go_widths : list Z := [8; 16; 32; 64].
(** the first (= least) Go integer width that holds [l] bits *)
Definition narrowest_width (l : Z) : Z :=
  match find (fun w => l <=? w) go_widths with Some w => w | None => 64 end.

Definition prim_type_spec (s : signal) : prim_type :=
  if s_float s then PFloat32
  else if s_length s =? 1 then PBool
  else if s_signed s then PInt (narrowest_width (s_length s))
  else PUint (narrowest_width (s_length s)).

(** * Exact values of binary64 patterns *)
Definition f64_finite (b : Z) : bool := f64_mag b <? f64_inf_mag.
(** magnitude pattern (63 bits: exponent field e, fraction f) -> |value| * 2^1074:
    subnormal (e = 0): f * 2^-1074;  normal: (2^52 + f) * 2^(e-1075) *)
Definition mag_val (m : Z) : Z :=
  let e := m / 2 ^ 52 in
  let f := m mod 2 ^ 52 in
  if e =? 0 then f else (2 ^ 52 + f) * 2 ^ (e - 1).
Definition fval (b : Z) : Z := if f64_sign b then - mag_val (f64_mag b) else mag_val (f64_mag b).
(** the integer n on the same scale *)
Definition scaled (n : Z) : Z := n * 2 ^ 1074.

(** * Raw range of a signal (exact integers; for float32 signals +-MaxFloat32 = +-(2^24-1)*2^104) *)
Definition raw_min (s : signal) : Z :=
  if s_float s then - ((2 ^ 24 - 1) * 2 ^ 104)
  else if s_signed s then - 2 ^ (s_length s - 1) else 0.
Definition raw_max (s : signal) : Z :=
  if s_float s then (2 ^ 24 - 1) * 2 ^ 104
  else if s_signed s then 2 ^ (s_length s - 1) - 1 else 2 ^ s_length s - 1.

(** * Physical accessors *)
Definition has_physical_spec (s : signal) : bool :=
  (1 <? s_length s)
  && ( (negb (fval (s_scale s) =? 0) && negb (fval (s_scale s) =? scaled 1))      (* factor not in {0,1} *)
       || negb (fval (s_offset s) =? 0)                                           (* offset <> 0 *)
       || ( (negb (fval (s_min s) =? 0) || negb (fval (s_max s) =? 0))            (* a range is declared *)
            && ( (scaled (raw_min s) <? fval (s_min s))                           (* ... and is narrower *)
                 || (fval (s_max s) <? scaled (raw_max s)) ) ) ).

(** * Node groups *)
Definition receives (n : bytes) (m : message) : Prop :=
  exists s, In s (msg_signals m) /\ In n (s_receivers s).
Definition sends_with_type (n : bytes) (m : message) : Prop :=
  msg_sender m = n /\ msg_send_type m <> SendNone.

(** * The class of DESIGN.md 4.3 *)
Fixpoint nodupb (l : list bytes) : bool :=
  match l with
  | [] => true
  | x :: tl => negb (existsb (beqb x) tl) && nodupb tl
  end.
Fixpoint nodupz (l : list Z) : bool :=
  match l with
  | [] => true
  | x :: tl => negb (existsb (Z.eqb x) tl) && nodupz tl
  end.
Definition disjointz (a b : list Z) : bool := forallb (fun x => negb (existsb (Z.eqb x) b)) a.

Definition is_upper (c : Z) : bool := (65 <=? c) && (c <=? 90).
Definition is_ident_char (c : Z) : bool := is_alnum c || (c =? 95).
(** CamelCase Go identifier: upper-case first letter, then letters, digits, underscores *)
Definition camel_ident (s : bytes) : bool :=
  match s with
  | [] => false
  | c :: tl => is_upper c && forallb is_ident_char tl
  end.

(** valid UTF-8 (Go's utf8.Valid), without NUL and without U+2028 / U+2029 *)
Definition cont (c : Z) : bool := (0x80 <=? c) && (c <=? 0xBF).
Fixpoint utf8_ok (s : bytes) : bool :=
  match s with
  | [] => true
  | c :: tl =>
      if c <? 0x80 then negb (c =? 0) && utf8_ok tl
      else if (0xC2 <=? c) && (c <=? 0xDF) then
        match tl with c1 :: r => cont c1 && utf8_ok r | _ => false end
      else if (0xE0 <=? c) && (c <=? 0xEF) then
        match tl with
        | c1 :: c2 :: r =>
            (if c =? 0xE0 then (0xA0 <=? c1) && (c1 <=? 0xBF)
             else if c =? 0xED then (0x80 <=? c1) && (c1 <=? 0x9F)
             else cont c1)
            && cont c2
            && negb ((c =? 0xE2) && (c1 =? 0x80) && ((c2 =? 0xA8) || (c2 =? 0xA9)))
            && utf8_ok r
        | _ => false
        end
      else if (0xF0 <=? c) && (c <=? 0xF4) then
        match tl with
        | c1 :: c2 :: c3 :: r =>
            (if c =? 0xF0 then (0x90 <=? c1) && (c1 <=? 0xBF)
             else if c =? 0xF4 then (0x80 <=? c1) && (c1 <=? 0x8F)
             else cont c1)
            && cont c2 && cont c3 && utf8_ok r
        | _ => false
        end
      else false
  end.

(** bit positions a signal occupies (DESIGN.md 5.1): little-endian counts up from the start bit;
    big-endian starts at the most significant bit and walks the saw-tooth *)
Fixpoint le_positions (start : Z) (n : nat) : list Z :=
  match n with O => [] | S k => start :: le_positions (start + 1) k end.
Fixpoint be_positions (pos : Z) (n : nat) : list Z :=
  match n with
  | O => []
  | S k => pos :: be_positions (if pos mod 8 =? 0 then pos + 15 else pos - 1) k
  end.
Definition positions (s : signal) : list Z :=
  if s_big_endian s then be_positions (s_start s) (Z.to_nat (s_length s))
  else le_positions (s_start s) (Z.to_nat (s_length s)).

(** the integers a raw value / start value / value description may take *)
Definition in_raw_range (s : signal) (v : Z) : bool :=
  if s_length s =? 1 then (0 <=? v) && (v <=? 1)          (* 0/1 for 1-bit signals, signed or not *)
  else if s_float s then (- 2 ^ 63 <=? v) && (v <? 2 ^ 63)
  else if s_signed s then (- 2 ^ (s_length s - 1) <=? v) && (v <=? 2 ^ (s_length s - 1) - 1)
  else (0 <=? v) && (v <=? 2 ^ s_length s - 1).

Definition literal_safe (t : bytes) : bool :=
  forallb (fun c => negb ((c =? 92) || (c =? 34) || (c =? 10) || (c =? 13))) t.

(** per signal: the "types", "scaling" and "strings" clauses *)
Definition signal_ok (s : signal) : bool :=
  camel_ident (s_name s)
  && (1 <=? s_length s) && (s_length s <=? 64) && (0 <=? s_start s) && (s_start s <? 64)
  && (if s_float s then (s_length s =? 32) && negb (s_signed s) else true)
  && in_raw_range s (s_default s)
  && forallb (fun vd => in_raw_range s (vdesc_value vd)) (s_value_descriptions s)
  && nodupz (map vdesc_value (s_value_descriptions s))
  && forallb (fun vd => match slugify (vdesc_text vd) with [] => false | _ => true end) (s_value_descriptions s)
  && nodupb (map (fun vd => slugify (vdesc_text vd)) (s_value_descriptions s))
  && forallb (fun vd => literal_safe (vdesc_text vd) && utf8_ok (vdesc_text vd)) (s_value_descriptions s)
  && f64_finite (s_scale s) && negb (fval (s_scale s) =? 0)
  && f64_finite (s_offset s) && f64_finite (s_min s) && f64_finite (s_max s)
  && (fval (s_min s) <=? fval (s_max s))
  && (if has_physical s && negb (s_float s) then s_length s <=? 52 else true)
  && utf8_ok (s_unit s) && utf8_ok (s_description s).

(** generated methods of *<Msg> that are not accessors *)
Definition fixed_methods : list bytes :=
  [k_Reset; k_CopyFrom; k_Descriptor; k_String; k_Frame; k_MarshalFrame; k_UnmarshalFrame].
Definition accessor_names (sa : signal_api) : list bytes := map g_name (sa_reader sa ++ sa_writer sa).

Definition is_plain (s : signal) : bool := negb (s_multiplexed s).

(** the "layout" clause *)
Definition layout_ok (m : message) : bool :=
  let ss := msg_signals m in
  let plain := filter is_plain ss in
  let muxed := filter s_multiplexed ss in
  (* every signal fits the message *)
  forallb (fun s => forallb (fun p => (0 <=? p) && (p <? 8 * msg_length m)) (positions s)) ss
  (* non-multiplexed signals (the multiplexer among them) are pairwise disjoint ... *)
  && nodupz (flat_map positions plain)
  (* ... and disjoint from every multiplexed signal *)
  && forallb (fun s => disjointz (positions s) (flat_map positions plain)) muxed
  (* multiplexed signals with the same selector are disjoint *)
  && forallb (fun s => nodupz (flat_map positions (filter (fun s' => s_mux_value s' =? s_mux_value s) muxed))) muxed
  (* at most one multiplexer; it is a plain unsigned integer signal; every selector is within its range;
     a multiplexer that selects anything has at least 2 bits *)
  && (length (filter s_multiplexer ss) <=? 1)%nat
  && match find_mux ss with
     | None => match muxed with [] => true | _ => false end
     | Some mx =>
         negb (s_signed mx) && negb (s_float mx) && negb (s_multiplexed mx)
         && forallb (fun s => (0 <=? s_mux_value s) && (s_mux_value s <=? 2 ^ s_length mx - 1)) muxed
         && match muxed with [] => true | _ => 2 <=? s_length mx end
     end.

Definition message_ok (m : message) : bool :=
  camel_ident (msg_name m)
  && (0 <=? msg_length m) && (msg_length m <=? 8)
  && (0 <=? msg_id m) && (msg_id m <? (if msg_extended m then 2 ^ 29 else 2 ^ 11))
  && forallb signal_ok (msg_signals m)
  && layout_ok m
  (* no signal is named like a generated method and no two accessors collide *)
  && nodupb (fixed_methods ++ flat_map accessor_names (ma_signals (message_api_with has_physical m)))
  && utf8_ok (msg_description m).

(** names of the top-level declarations of the generated package *)
Definition decl_name (d : decl) : list bytes :=
  match d with
  | DIface n _ | DStruct n _ | DNamed n _ | DConst n _ _ => [n]
  | DFunc s => [g_name s]
  | DMethod _ _ => []
  end.

Definition in_class43 (db : database) : bool :=
  forallb message_ok (db_messages db)
  && forallb (fun n => camel_ident (node_name n) && utf8_ok (node_description n)) (db_nodes db)
  && nodupb (map node_name (db_nodes db))
  && nodupz (map msg_id (db_messages db))
  (* message and node names are pairwise distinct and distinct from every identifier the generator
     declares itself: no two top-level declarations of the generated package share a name.
     (Node declarations are included whether or not the database has send types.) *)
  && nodupb (flat_map decl_name
               (api_decls (api_of_db db)
                ++ match api_nodes (api_of_db db) with
                   | Some _ => []
                   | None => flat_map node_decls (map (node_api_of db) (db_nodes db))
                   end)).
