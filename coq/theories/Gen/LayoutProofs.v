(** The generated Frame() is a history of pairwise-disjoint bit-range writes into a zero payload;
    consequences: bit-exact encoding (C03), re-encoding identity and copy (C10). *)
From Coq Require Import ZArith List Bool Lia Permutation.
From CanVerif Require Import Base.Bits Can.Data Can.DataSpec Can.CheckProofs Can.DataProofs
  Descriptor.Types Gen.Message Gen.History Gen.Layout.
Import ListNotations.
Open Scope Z_scope.
Ltac Zify.zify_post_hook ::= Z.div_mod_to_equations.

(** * SetBit is a little-endian write of length 1 *)
Lemma set_bit_as_write d i b :
  valid_data d -> 0 <= i -> i + 1 <= 64 ->
  set_bit d i b = set_ubits_le d i 1 (if b then 1 else 0).
Proof.
  intros Hd Hi Hfit. apply data_ext; [apply set_bit_valid; assumption|apply set_ubits_le_valid|].
  intros k Hk. rewrite set_bit_bits by (assumption || lia).
  rewrite set_ubits_le_bits by (assumption || lia || (destruct b; cbn; lia)).
  replace (i <=? 63) with true by (symmetry; apply Z.leb_le; lia). cbn [andb].
  destruct (Z.eqb_spec k i) as [->|Hne].
  - replace (i <=? i) with true by (symmetry; apply Z.leb_le; lia).
    replace (i <? i + 1) with true by (symmetry; apply Z.ltb_lt; lia). cbn [andb].
    replace (i - i) with 0 by lia. destruct b; reflexivity.
  - destruct (Z.leb_spec i k), (Z.ltb_spec k (i + 1)); cbn [andb]; try reflexivity; lia.
Qed.

(** * classification of signals *)
Lemma super_prim_cases s :
  wf_signal s ->
  (signal_super_type s = StFloat /\ signal_prim_type s = PFloat32 /\ s_length s = 32) \/
  (signal_super_type s = StBool /\ signal_prim_type s = PBool /\ s_length s = 1) \/
  (signal_super_type s = StSigned /\ (exists b, signal_prim_type s = PInt b /\ s_length s <= b <= 64) /\ s_length s <> 1 /\ s_signed s = true) \/
  (signal_super_type s = StUnsigned /\ (exists b, signal_prim_type s = PUint b /\ s_length s <= b <= 64) /\ s_length s <> 1 /\ s_signed s = false).
Proof.
  intros (Hl & Hf & _). unfold signal_super_type, signal_prim_type.
  destruct (s_float s) eqn:Ef.
  - specialize (Hf eq_refl). rewrite Hf. cbn. left. auto.
  - rewrite !andb_false_r. right.
    destruct (Z.eqb_spec (s_length s) 1) as [E1|E1]; [left; auto|right].
    destruct (s_signed s) eqn:Es; [left|right]; rewrite ?andb_true_r, ?andb_false_r.
    + split; [reflexivity|]. split; [|split; [assumption|reflexivity]].
      destruct (Z.leb_spec (s_length s) 8); [exists 8; split; [reflexivity|lia]|].
      destruct (Z.leb_spec (s_length s) 16); [exists 16; split; [reflexivity|lia]|].
      destruct (Z.leb_spec (s_length s) 32); [exists 32; split; [reflexivity|lia]|].
      destruct (Z.leb_spec (s_length s) 64); [exists 64; split; [reflexivity|lia]|lia].
    + split; [reflexivity|]. split; [|split; [assumption|reflexivity]].
      destruct (Z.leb_spec (s_length s) 8); [exists 8; split; [reflexivity|lia]|].
      destruct (Z.leb_spec (s_length s) 16); [exists 16; split; [reflexivity|lia]|].
      destruct (Z.leb_spec (s_length s) 32); [exists 32; split; [reflexivity|lia]|].
      exists 64; split; [reflexivity|lia].
Qed.

Lemma pow2_pos n : 0 <= n -> 0 < 2 ^ n.
Proof. intros. apply Z.pow_pos_nonneg; lia. Qed.

Lemma f32_quiet_range v : 0 <= v < 2 ^ 32 -> 0 <= f32_quiet v < 2 ^ 32.
Proof.
  intros Hv. unfold f32_quiet. destruct (f32_is_nan v); [|exact Hv].
  apply lor_range; [lia|exact Hv|]. change (2 ^ 32) with 4294967296. lia.
Qed.

(** * one field write is one [apply_write] *)
Lemma write_field_apply s d v :
  wf_signal s -> valid_data d -> in_range s v = true ->
  write_field s d v = apply_write d (write_of s v) /\ write_ok (write_of s v).
Proof.
  intros Hwf Hd Hr. pose proof Hwf as (Hl & Hf & Hgeo).
  unfold write_field, write_of, wire_value, in_range in *.
  destruct (super_prim_cases s Hwf) as [(Es & Ep & EL)|[(Es & Ep & EL)|[(Es & (b & Ep & Hb) & EL & Esg)|(Es & (b & Ep & Hb) & EL & Esg)]]];
    rewrite Es; rewrite Ep in Hr.
  - (* float *)
    apply andb_true_iff in Hr. destruct Hr as [H0 H1]. apply Z.leb_le in H0. apply Z.ltb_lt in H1.
    pose proof (f32_quiet_range v ltac:(lia)) as Hq.
    split; [reflexivity|]. unfold write_ok. cbn [w_l w_v w_be w_s]. rewrite EL.
    split; [lia|]. split; [exact Hq|].
    rewrite EL in Hgeo. replace (32 =? 1) with false in Hgeo by reflexivity. rewrite andb_true_r in Hgeo.
    destruct (s_big_endian s); exact Hgeo.
  - (* bool *)
    rewrite EL in Hgeo. replace (1 =? 1) with true in Hgeo by reflexivity. cbn [negb] in Hgeo. rewrite andb_false_r in Hgeo.
    split.
    + unfold apply_write. cbn [w_be w_s w_l w_v].
      rewrite set_bit_as_write by (assumption || lia). destruct (v =? 0); reflexivity.
    + unfold write_ok. cbn [w_l w_v w_be w_s]. split; [lia|]. split; [destruct (v =? 0); cbn; lia|]. exact Hgeo.
  - (* signed *)
    replace (s_length s =? 1) with false in Hgeo by (symmetry; apply Z.eqb_neq; exact EL). rewrite andb_true_r in Hgeo.
    split.
    + unfold apply_write, sig_marshal_signed. cbn [w_be w_s w_l w_v].
      destruct (s_big_endian s); [apply set_sbits_be_eq|apply set_sbits_le_eq]; lia.
    + unfold write_ok. cbn [w_l w_v w_be w_s]. split; [lia|]. split; [apply mod_pow2_range; lia|].
      destruct (s_big_endian s); exact Hgeo.
  - (* unsigned *)
    replace (s_length s =? 1) with false in Hgeo by (symmetry; apply Z.eqb_neq; exact EL). rewrite andb_true_r in Hgeo.
    apply andb_true_iff in Hr. destruct Hr as [H0 H1]. apply Z.leb_le in H0. apply Z.leb_le in H1.
    unfold raw_lo, raw_hi in H0, H1. rewrite Esg in H0, H1.
    assert (Hp : 2 ^ s_length s <= 2 ^ 64) by (apply Z.pow_le_mono_r; lia).
    assert (Hu : u64 v = v) by (unfold u64; apply Z.mod_small; lia).
    split; [reflexivity|]. unfold write_ok. cbn [w_l w_v w_be w_s]. rewrite Hu.
    split; [lia|]. split; [lia|]. destruct (s_big_endian s); exact Hgeo.
Qed.

(** * the two marshalling passes as folds of writes *)
Lemma marshal_plain_fold ss : forall st d,
  Forall wf_signal ss -> inv ss st = true -> valid_data d ->
  marshal_plain ss st d = fold_left apply_write (map item_write (filter is_plain (combine ss st))) d /\
  Forall write_ok (map item_write (filter is_plain (combine ss st))).
Proof.
  induction ss as [|s ss IH]; intros st d Hwf Hinv Hd.
  - cbn. split; [reflexivity|constructor].
  - destruct st as [|v st]; [cbn in Hinv; discriminate|].
    cbn [inv] in Hinv. apply andb_true_iff in Hinv. destruct Hinv as [Hr Hinv].
    inversion Hwf as [|? ? Hs Hss]; subst.
    cbn [marshal_plain combine filter].
    assert (Ep : is_plain (s, v) = negb (s_multiplexed s)) by reflexivity. rewrite Ep.
    destruct (s_multiplexed s); cbn [negb].
    + apply IH; assumption.
    + destruct (write_field_apply s d v Hs Hd Hr) as [E Hok].
      cbn [map fold_left]. unfold item_write at 1 3. cbn [fst snd]. rewrite E.
      destruct (IH st (apply_write d (write_of s v)) Hss Hinv (apply_write_valid _ _)) as [E2 Hok2].
      split; [exact E2|constructor; assumption].
Qed.

Lemma marshal_muxed_fold ss muxv : forall st d,
  Forall wf_signal ss -> inv ss st = true -> valid_data d ->
  marshal_muxed ss st muxv d = fold_left apply_write (map item_write (filter (is_selected muxv) (combine ss st))) d /\
  Forall write_ok (map item_write (filter (is_selected muxv) (combine ss st))).
Proof.
  induction ss as [|s ss IH]; intros st d Hwf Hinv Hd.
  - cbn. split; [reflexivity|constructor].
  - destruct st as [|v st]; [cbn in Hinv; discriminate|].
    cbn [inv] in Hinv. apply andb_true_iff in Hinv. destruct Hinv as [Hr Hinv].
    inversion Hwf as [|? ? Hs Hss]; subst.
    cbn [marshal_muxed combine filter].
    assert (Ep : is_selected muxv (s, v) = s_multiplexed s && (muxv =? s_mux_value s)) by reflexivity. rewrite Ep.
    destruct (s_multiplexed s && (muxv =? s_mux_value s)).
    + destruct (write_field_apply s d v Hs Hd Hr) as [E Hok].
      cbn [map fold_left]. unfold item_write at 1 3. cbn [fst snd]. rewrite E.
      destruct (IH st (apply_write d (write_of s v)) Hss Hinv (apply_write_valid _ _)) as [E2 Hok2].
      split; [exact E2|constructor; assumption].
    + apply IH; assumption.
Qed.

Lemma zero_data_valid : valid_data zero_data.
Proof. split; [reflexivity|]. unfold zero_data. repeat constructor; lia. Qed.

Lemma pbit_zero k : pbit zero_data k = false.
Proof.
  unfold pbit, byte_at, zero_data.
  assert (E : nth (Z.to_nat (k / 8)) [0; 0; 0; 0; 0; 0; 0; 0] 0 = 0).
  { destruct (Z.to_nat (k / 8)) as [|[|[|[|[|[|[|[|n]]]]]]]]; try reflexivity. cbn. destruct n; reflexivity. }
  rewrite E. apply Z.bits_0.
Qed.

Theorem frame_data_fold m st :
  Forall wf_signal (msg_signals m) -> inv (msg_signals m) st = true ->
  fr_data (frame_of m st) = fold_left apply_write (active_writes m st) zero_data /\
  Forall write_ok (active_writes m st).
Proof.
  intros Hwf Hinv. unfold frame_of, active_writes, mux_value_of. cbn [fr_data].
  destruct (marshal_plain_fold (msg_signals m) st zero_data Hwf Hinv zero_data_valid) as [E1 Hok1].
  destruct (mux_index m) as [i|].
  - rewrite E1.
    destruct (marshal_muxed_fold (msg_signals m) (nth i st 0) st
      (fold_left apply_write (map item_write (filter is_plain (combine (msg_signals m) st))) zero_data)
      Hwf Hinv (fold_apply_valid _ _ zero_data_valid)) as [E2 Hok2].
    rewrite E2, fold_left_app. split; [reflexivity|]. apply Forall_app. split; assumption.
  - rewrite app_nil_r. split; assumption.
Qed.

(** * the active writes are pairwise disjoint *)
Section FOP.
  Context {A : Type}.
  Lemma FOP_perm (R : A -> A -> Prop) l l' :
    (forall a b, R a b -> R b a) -> Permutation l l' -> ForallOrdPairs R l -> ForallOrdPairs R l'.
  Proof.
    intros Hsym Hp. induction Hp as [|x l l' Hp IH|x y l|l l' l'' Hp1 IH1 Hp2 IH2]; intros H.
    - constructor.
    - inversion H as [|? ? Hx Hl]; subst. constructor.
      + eapply Permutation_Forall; eassumption.
      + apply IH. exact Hl.
    - inversion H as [|? ? Hy Hl]; subst. inversion Hl as [|? ? Hx Hl']; subst.
      inversion Hy as [|? ? Hyx Hyl]; subst.
      constructor; [constructor; [apply Hsym; exact Hyx|exact Hx]|].
      constructor; assumption.
    - auto.
  Qed.

  Lemma FOP_filter (R : A -> A -> Prop) p l : ForallOrdPairs R l -> ForallOrdPairs R (filter p l).
  Proof.
    induction 1 as [|x l Hx Hl IH]; cbn [filter]; [constructor|].
    destruct (p x); [|exact IH]. constructor; [|exact IH].
    rewrite Forall_forall in *. intros y Hy. apply filter_In in Hy. apply Hx. tauto.
  Qed.

  Lemma FOP_strengthen (R R' : A -> A -> Prop) (P : A -> Prop) l :
    (forall a b, P a -> P b -> R a b -> R' a b) -> Forall P l -> ForallOrdPairs R l -> ForallOrdPairs R' l.
  Proof.
    intros Himp HP H. induction H as [|x l Hx Hl IH]; [constructor|].
    inversion HP as [|? ? Px Pl]; subst. constructor; [|apply IH; exact Pl].
    rewrite Forall_forall in *. intros y Hy. apply Himp; auto.
  Qed.

  Lemma FOP_map {B : Type} (f : A -> B) (R : B -> B -> Prop) l :
    ForallOrdPairs (fun a b => R (f a) (f b)) l -> ForallOrdPairs R (map f l).
  Proof.
    induction 1 as [|x l Hx Hl IH]; cbn [map]; [constructor|]. constructor; [|exact IH].
    rewrite Forall_forall in *. intros y Hy. apply in_map_iff in Hy. destruct Hy as (a & <- & Ha). auto.
  Qed.

  Lemma filter_partition_perm (p q : A -> bool) l :
    (forall a, p a = true -> q a = false) ->
    Permutation (filter p l ++ filter q l) (filter (fun a => p a || q a) l).
  Proof.
    intros Hex. induction l as [|x l IH]; cbn [filter]; [constructor|].
    destruct (p x) eqn:Ep.
    - rewrite (Hex x Ep). cbn [orb app]. constructor. exact IH.
    - cbn [orb]. destruct (q x); [|exact IH].
      eapply Permutation_trans; [apply Permutation_sym, Permutation_middle|]. constructor. exact IH.
  Qed.
End FOP.

Lemma FOP_combine_fst (R : signal -> signal -> Prop) ss : forall (st : state),
  ForallOrdPairs R ss -> ForallOrdPairs (fun a b => R (fst a) (fst b)) (combine ss st).
Proof.
  induction ss as [|s ss IH]; intros st H; [constructor|].
  destruct st as [|v st]; [constructor|]. inversion H as [|? ? Hs Hss]; subst.
  cbn [combine]. constructor; [|apply IH; exact Hss].
  rewrite Forall_forall in *. intros [s' v'] Hin. apply in_combine_l in Hin. cbn. auto.
Qed.

Lemma covers_write_of s v v' k : covers (write_of s v) k = covers (write_of s v') k.
Proof. unfold write_of, covers. destruct (signal_super_type s); reflexivity. Qed.

Lemma disjoint_write_of s1 s2 v1 v2 :
  disjoint (write_of s1 0) (write_of s2 0) -> disjoint (write_of s1 v1) (write_of s2 v2).
Proof.
  intros H k Hk Hc. rewrite (covers_write_of s1 v1 0) in Hc. rewrite (covers_write_of s2 v2 0). auto.
Qed.

Lemma compat_sym s1 s2 : compat s1 s2 -> compat s2 s1.
Proof.
  intros [(H1 & H2 & H3)|H]; [left; repeat split; auto|right; apply disjoint_sym; exact H].
Qed.

Theorem active_writes_disjoint m st :
  ForallOrdPairs compat (msg_signals m) -> ForallOrdPairs disjoint (active_writes m st).
Proof.
  intros Hc. unfold active_writes.
  set (items := combine (msg_signals m) st).
  assert (Hitems : ForallOrdPairs (fun a b => compat (fst a) (fst b)) items)
    by (apply FOP_combine_fst; exact Hc).
  destruct (mux_value_of m st) as [muxv|].
  - rewrite <- map_app. apply FOP_map.
    eapply FOP_perm; [| apply Permutation_sym, (filter_partition_perm is_plain (is_selected muxv)) |].
    + intros a b. apply disjoint_sym.
    + intros a Ha. unfold is_plain in Ha. unfold is_selected. apply negb_true_iff in Ha. rewrite Ha. reflexivity.
    + eapply (FOP_strengthen (fun a b => compat (fst a) (fst b)) _ (fun a => is_active muxv a = true)).
      * intros [s1 v1] [s2 v2] Ha Hb [(M1 & M2 & Hne)|Hd]; unfold item_write; cbn [fst snd] in *.
        -- unfold is_active, is_plain, is_selected in Ha, Hb. cbn [fst] in Ha, Hb. rewrite M1 in Ha. rewrite M2 in Hb.
           cbn in Ha, Hb. apply Z.eqb_eq in Ha. apply Z.eqb_eq in Hb. congruence.
        -- apply disjoint_write_of. exact Hd.
      * apply Forall_forall. intros a Ha. apply filter_In in Ha. apply Ha.
      * apply FOP_filter. exact Hitems.
  - rewrite app_nil_r. apply FOP_map.
    eapply (FOP_strengthen (fun a b => compat (fst a) (fst b)) _ (fun a => is_plain a = true)).
    + intros [s1 v1] [s2 v2] Ha Hb [(M1 & M2 & Hne)|Hd]; unfold item_write; cbn [fst snd] in *.
      * unfold is_plain in Ha. cbn [fst] in Ha. rewrite M1 in Ha. discriminate.
      * apply disjoint_write_of. exact Hd.
    + apply Forall_forall. intros a Ha. apply filter_In in Ha. apply Ha.
    + apply FOP_filter. exact Hitems.
Qed.

(** * C03 encode: every payload bit is the bit of the active signal covering it, else zero *)
Theorem frame_bits m st k :
  wf_message m -> inv (msg_signals m) st = true -> 0 <= k < 64 ->
  pbit (fr_data (frame_of m st)) k =
  match find (fun w => covers w k) (active_writes m st) with
  | Some w => wbit w k
  | None => false
  end.
Proof.
  intros [Hwf Hc] Hinv Hk.
  destruct (frame_data_fold m st Hwf Hinv) as [E Hok]. rewrite E.
  rewrite writes_final_bits by (try apply zero_data_valid; try apply active_writes_disjoint; assumption).
  destruct (find _ _); [reflexivity|apply pbit_zero].
Qed.

Theorem frame_data_valid m st :
  Forall wf_signal (msg_signals m) -> inv (msg_signals m) st = true -> valid_data (fr_data (frame_of m st)).
Proof.
  intros Hwf Hinv. destruct (frame_data_fold m st Hwf Hinv) as [E _]. rewrite E.
  apply fold_apply_valid. apply zero_data_valid.
Qed.
