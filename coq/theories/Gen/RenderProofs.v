(** Proofs about the renderer model Gen/Render.v (property C19, DESIGN.md 5.19):
      1. structure: every rendering is header + the blocks of ALL signals, once, in descriptor order
         (closed form [join] of the Go loops);
      2. values: the raw text is the printer applied to the C01 read and parses back to it over the
         full 64-bit range; the float segment is [to_physical] of the raw value; the value
         description is the matching one;
      3. F7: the pre-fix unsigned JSON formatter is refuted at 2^64-1;
      4. JSON validity under the two trusted hypotheses;
      5. candebug: path.Base and the selection of the served message. *)
From Coq Require Import ZArith List Bool Lia.
From Flocq Require Import BinarySingleNaN.
From CanVerif Require Import Base.Dec Base.Hex Can.Data Can.DataSpec Can.DataProofs.
From CanVerif Require Import Descriptor.Signal Descriptor.SignalProofs Descriptor.Physical.
From CanVerif Require Import Gen.Message Gen.RenderNum Gen.Render Gen.RenderSpec.
Import ListNotations.
Open Scope Z_scope.

(** * 1. Structure *)

Lemma join_cons2 {A} (sep a b : list A) tl : join sep (a :: b :: tl) = a ++ sep ++ join sep (b :: tl).
Proof. reflexivity. Qed.

Lemma loop_sep_join {A} (f : A -> list segment) sep : forall xs n i,
  n = (i + length xs)%nat -> loop_sep f sep n i xs = join sep (map f xs).
Proof.
  induction xs as [|x tl IH]; intros n i Hn; [reflexivity|].
  cbn [loop_sep map join]. cbn [length] in Hn.
  destruct tl as [|y tl'].
  - cbn [length] in Hn. replace (Nat.eqb i (n - 1)) with true by (symmetry; apply Nat.eqb_eq; lia).
    cbn. rewrite app_nil_r. reflexivity.
  - replace (Nat.eqb i (n - 1)) with false by (symmetry; apply Nat.eqb_neq; cbn [length] in Hn; lia).
    rewrite (IH n (S i)) by lia. reflexivity.
Qed.

(** cantext.MarshalCompact / MessageString / the generated String() *)
Theorem text_compact_blocks m d :
  text_compact_data m d =
  [Lit t_lbrace] ++ join [Lit t_comma_sp] (map (fun s => text_compact_signal s d) (msg_signals m)) ++ [Lit t_rbrace].
Proof. unfold text_compact_data. rewrite loop_sep_join by reflexivity. reflexivity. Qed.

(** cantext.Marshal: the name, then "\n\t" + block for each signal *)
Theorem text_multiline_blocks m d :
  text_multiline_data m d =
  Lit (msg_name m) :: concat (map (fun s => Lit t_nl_tab :: text_signal s d) (msg_signals m)).
Proof. unfold text_multiline_data. rewrite flat_map_concat_map. reflexivity. Qed.

(** candebug.appendMessage: header, then the cantext.AppendSignal blocks separated by "\n" *)
Theorem debug_message_blocks w m d :
  debug_message w m d =
  debug_header w m ++ join [Lit t_nl] (map (fun s => text_signal s d) (msg_signals m)).
Proof. unfold debug_message. rewrite loop_sep_join by reflexivity. reflexivity. Qed.

(** candebug.serveMessagesHTTP: the messages separated by "\n\n\n" *)
Theorem debug_body_blocks es :
  debug_body es = join [Lit t_nl3] (map (fun e : entry => debug_message (fst (fst e)) (snd (fst e)) (snd e)) es).
Proof. unfold debug_body. rewrite loop_sep_join by reflexivity. reflexivity. Qed.

Lemma json_loop_join uj d : forall ss n i,
  n = (i + length ss)%nat ->
  json_loop uj d n i ss =
  match all_some (map (fun s => json_member uj s d) ss) with
  | Some objs => Some (join [Lit t_comma] objs)
  | None => None
  end.
Proof.
  induction ss as [|s tl IH]; intros n i Hn; [reflexivity|].
  cbn [json_loop map all_some]. destruct (json_member uj s d) as [o|]; [|reflexivity].
  rewrite (IH n (S i)) by (cbn [length] in Hn; lia).
  destruct (all_some (map (fun s0 => json_member uj s0 d) tl)) as [objs|] eqn:E; [|reflexivity].
  f_equal. destruct tl as [|y tl'].
  - cbn in E. injection E as <-. cbn [length] in Hn.
    replace (Nat.ltb i (n - 1)) with false by (symmetry; apply Nat.ltb_ge; lia).
    cbn. rewrite app_nil_r. reflexivity.
  - replace (Nat.ltb i (n - 1)) with true by (symmetry; apply Nat.ltb_lt; cbn [length] in Hn; lia).
    destruct objs as [|o' objs'].
    + cbn [map all_some] in E. destruct (json_member uj y d); [|discriminate].
      destruct (all_some (map (fun s0 => json_member uj s0 d) tl')); discriminate.
    + reflexivity.
Qed.

(** canjson.Marshal: one member per signal, in order, separated by ","; an error iff one fails *)
Theorem json_render_blocks uj m d :
  json_render_with uj m d =
  match all_some (map (fun s => json_member uj s d) (msg_signals m)) with
  | Some members => Some ([Lit t_lbrace] ++ join [Lit t_comma] members ++ [Lit t_rbrace])
  | None => None
  end.
Proof.
  unfold json_render_with. rewrite json_loop_join by reflexivity.
  destruct (all_some _); reflexivity.
Qed.

Lemma all_some_length {A} (l : list (option A)) r : all_some l = Some r -> length r = length l.
Proof.
  revert r. induction l as [|[x|] tl IH]; intros r H; cbn in H; try discriminate.
  - inversion H. reflexivity.
  - destruct (all_some tl) as [r'|]; [|discriminate]. inversion H; subst. cbn. rewrite (IH r' eq_refl). reflexivity.
Qed.

Lemma all_some_nth {A} (l : list (option A)) r k x :
  all_some l = Some r -> nth_error r k = Some x -> nth_error l k = Some (Some x).
Proof.
  revert r k. induction l as [|[y|] tl IH]; intros r k H Hk; cbn in H; try discriminate.
  - inversion H; subst. destruct k; discriminate.
  - destruct (all_some tl) as [r'|] eqn:E; [|discriminate]. inversion H; subst.
    destruct k; cbn in *; [congruence|]. eapply IH; [reflexivity|exact Hk].
Qed.

(** * 2. Values *)

Lemma sext_range l u : 1 <= l -> 0 <= u < 2 ^ l -> - 2 ^ (l - 1) <= sext l u < 2 ^ (l - 1).
Proof.
  intros Hl Hu. rewrite sext_alt by assumption. pose proof (pow2_split l Hl).
  destruct (Z.ltb_spec u (2 ^ (l - 1))); lia.
Qed.

Lemma pow_le_64 l : 1 <= l <= 64 -> 2 ^ l <= 2 ^ 64 /\ 2 ^ (l - 1) <= 2 ^ 63 /\ 0 < 2 ^ (l - 1).
Proof.
  intros Hl. repeat split.
  - apply Z.pow_le_mono_r; lia.
  - apply Z.pow_le_mono_r; lia.
  - apply Z.pow_pos_nonneg; lia.
Qed.

Theorem unmarshal_signed_range s d :
  1 <= s_length s <= 64 -> - 2 ^ 63 <= unmarshal_signed s d < 2 ^ 63.
Proof.
  intros Hl. rewrite unmarshal_signed_sext by exact Hl.
  pose proof (unmarshal_unsigned_range s d Hl) as Hu.
  pose proof (sext_range (s_length s) _ ltac:(lia) Hu). pose proof (pow_le_64 _ Hl). lia.
Qed.

(** the physical value of a multi-bit signal is ToPhysical(float64(raw)) *)
Lemma physical_bits_multi s d : s_length s <> 1 ->
  physical_bits s d =
  bits_of_f64 (to_physical s (f64_of_Z (if s_signed s then unmarshal_signed s d else unmarshal_unsigned s d))).
Proof.
  intros Hl. unfold physical_bits, unmarshal_physical.
  destruct (Z.eqb_spec (s_length s) 1); [contradiction|]. destruct (s_signed s); reflexivity.
Qed.

(** ** cantext.AppendSignal *)
Theorem text_signal_unsigned s d :
  s_length s <> 1 -> s_signed s = false ->
  let u := unmarshal_unsigned s d in
  text_signal s d =
  [Lit (s_name s); Lit t_colon_sp; FloatG (bits_of_f64 (to_physical s (f64_of_Z u))); Lit (s_unit s);
   Lit t_open_paren; Lit t_0x; Lit (hex_u u); Lit t_close_paren] ++ vd_suffix s d.
Proof.
  intros Hl Hs u. unfold text_signal. rewrite physical_bits_multi by exact Hl. rewrite Hs.
  destruct (Z.eqb_spec (s_length s) 1); [contradiction|]. reflexivity.
Qed.

Theorem text_signal_signed s d :
  s_length s <> 1 -> s_signed s = true ->
  let v := unmarshal_signed s d in
  text_signal s d =
  [Lit (s_name s); Lit t_colon_sp; FloatG (bits_of_f64 (to_physical s (f64_of_Z v))); Lit (s_unit s);
   Lit t_open_paren; Lit t_0x; Lit (hex_u (v mod 2 ^ 64)); Lit t_close_paren] ++ vd_suffix s d.
Proof.
  intros Hl Hs v. unfold text_signal. rewrite physical_bits_multi by exact Hl. rewrite Hs.
  destruct (Z.eqb_spec (s_length s) 1); [contradiction|]. reflexivity.
Qed.

Theorem text_signal_bool s d :
  s_length s = 1 ->
  text_signal s d = [Lit (s_name s); Lit t_colon_sp; Lit (bool_text (unmarshal_bool s d))] ++ vd_suffix s d.
Proof. intros Hl. unfold text_signal. rewrite Hl. reflexivity. Qed.

(** the hex text parses back to the value read from the payload (unsigned: the value itself, up
    to 2^64-1; signed: its 64-bit two's complement, from which the value is recovered) *)
Theorem text_raw_unsigned_parse s d :
  1 <= s_length s <= 64 ->
  let u := unmarshal_unsigned s d in
  parse_uint (hex_u u) 16 64 = PU_ok u /\ 0 <= u < 2 ^ s_length s.
Proof.
  intros Hl u. pose proof (unmarshal_unsigned_range s d Hl) as Hu. pose proof (pow_le_64 _ Hl).
  split; [apply hex_u_parse; fold u; lia|exact Hu].
Qed.

Theorem text_raw_signed_parse s d :
  1 <= s_length s <= 64 ->
  let v := unmarshal_signed s d in
  parse_uint (hex_u (v mod 2 ^ 64)) 16 64 = PU_ok (v mod 2 ^ 64) /\
  i64_of_u64 (v mod 2 ^ 64) = v /\
  v = sext (s_length s) (unmarshal_unsigned s d).
Proof.
  intros Hl v. pose proof (unmarshal_signed_range s d Hl) as Hv. fold v in Hv.
  assert (Hm : 0 <= v mod 2 ^ 64 < 2 ^ 64) by (apply Z.mod_pos_bound; lia).
  repeat split.
  - apply hex_u_parse. exact Hm.
  - unfold i64_of_u64. destruct (Z_lt_le_dec v 0).
    + assert (E : v mod 2 ^ 64 = v + 2 ^ 64).
      { rewrite <- (Z_mod_plus_full v 1 (2 ^ 64)). apply Z.mod_small. lia. }
      rewrite E.
      destruct (Z.ltb_spec (v + 2 ^ 64) (2 ^ 63)); lia.
    + rewrite Z.mod_small by lia. destruct (Z.ltb_spec v (2 ^ 63)); lia.
  - apply unmarshal_signed_sext. exact Hl.
Qed.

(** bit-level form (C01 specification): bit i of the number the printed hex text denotes is payload
    bit [sig_pos s i] for i < length, nothing above *)
Theorem text_raw_unsigned_bits s d i :
  valid_data d -> sig_fits s -> 0 <= i ->
  Z.testbit (hex_value (hex_u (unmarshal_unsigned s d))) i = (i <? s_length s) && pbit d (sig_pos s i).
Proof.
  intros Hd Hf Hi. destruct Hf as [Hl Hg].
  rewrite hex_u_value by (pose proof (unmarshal_unsigned_range s d Hl); lia).
  apply unmarshal_unsigned_bits; [exact Hd|split; assumption|exact Hi].
Qed.

(** ** cantext.AppendSignalCompact *)
Theorem text_compact_signal_spec s d :
  text_compact_signal s d =
  [Lit (s_name s); Lit t_colon_sp] ++
  match unmarshal_value_description s d with
  | Some t => [Lit t]
  | None =>
    if s_length s =? 1 then [Lit (bool_text (unmarshal_bool s d))]
    else [FloatG (bits_of_f64 (to_physical s (f64_of_Z
            (if s_signed s then unmarshal_signed s d else unmarshal_unsigned s d)))); Lit (s_unit s)]
  end.
Proof.
  unfold text_compact_signal. destruct (unmarshal_value_description s d); [reflexivity|].
  destruct (Z.eqb_spec (s_length s) 1); [reflexivity|]. rewrite physical_bits_multi by assumption. reflexivity.
Qed.

(** ** value descriptions *)
Lemma value_description_some vds v t :
  value_description vds v = Some t ->
  exists pre vd post, vds = pre ++ vd :: post /\ vdesc_value vd = v /\ vdesc_text vd = t /\
                      forall x, In x pre -> vdesc_value x <> v.
Proof.
  induction vds as [|vd tl IH]; intros H; [discriminate|]. cbn [value_description] in H.
  destruct (Z.eqb_spec (vdesc_value vd) v) as [E|E].
  - inversion H; subst. exists [], vd, tl. repeat split. intros x [].
  - destruct (IH H) as (pre & vd' & post & -> & Hv & Ht & Hp).
    exists (vd :: pre), vd', post. repeat split; try assumption.
    intros x [<-|Hin]; [exact E|apply Hp, Hin].
Qed.

Lemma value_description_none vds v :
  value_description vds v = None <-> forall vd, In vd vds -> vdesc_value vd <> v.
Proof.
  induction vds as [|vd tl IH]; cbn [value_description]; [split; [intros _ x []|reflexivity]|].
  destruct (Z.eqb_spec (vdesc_value vd) v) as [E|E].
  - split; [discriminate|]. intros H. exfalso. apply (H vd); [left; reflexivity|exact E].
  - rewrite IH. split.
    + intros H x [<-|Hin]; [exact E|apply H, Hin].
    + intros H x Hin. apply H. right. exact Hin.
Qed.

(** with pairwise distinct values (DESIGN.md 4.3) the description shown is THE one defined for
    the value *)
Lemma value_description_in vds vd :
  NoDup (map vdesc_value vds) -> In vd vds -> value_description vds (vdesc_value vd) = Some (vdesc_text vd).
Proof.
  induction vds as [|x tl IH]; intros Hnd Hin; [destruct Hin|]. cbn [value_description].
  cbn [map] in Hnd. inversion Hnd as [|? ? Hx Htl]; subst.
  destruct Hin as [->|Hin]; [rewrite Z.eqb_refl; reflexivity|].
  destruct (Z.eqb_spec (vdesc_value x) (vdesc_value vd)) as [E|E].
  - exfalso. apply Hx. rewrite E. apply in_map, Hin.
  - apply IH; assumption.
Qed.

(** the value looked up by UnmarshalValueDescription: the signed read, or int64(unsigned read) *)
Definition vd_key (s : signal) (d : data) : Z :=
  if s_signed s then unmarshal_signed s d else i64_of_u64 (unmarshal_unsigned s d).

Theorem unmarshal_value_description_spec s d :
  unmarshal_value_description s d = value_description (s_value_descriptions s) (vd_key s d).
Proof.
  unfold unmarshal_value_description, vd_key. destruct (s_value_descriptions s); reflexivity.
Qed.

(** for unsigned raw values below 2^63 (every signal of at most 63 bits) the key is the raw value *)
Lemma vd_key_unsigned s d : s_signed s = false -> unmarshal_unsigned s d < 2 ^ 63 -> vd_key s d = unmarshal_unsigned s d.
Proof.
  intros Hs Hu. unfold vd_key, i64_of_u64. rewrite Hs. destruct (Z.ltb_spec (unmarshal_unsigned s d) (2 ^ 63)); lia.
Qed.

Lemma vd_suffix_def s d :
  vd_suffix s d = match unmarshal_value_description s d with Some t => [Lit t_space; Lit t] | None => [] end.
Proof. reflexivity. Qed.

Lemma unmarshal_value_description_key s d :
  unmarshal_value_description s d =
  value_description (s_value_descriptions s)
    (if s_signed s then unmarshal_signed s d else i64_of_u64 (unmarshal_unsigned s d)).
Proof. apply unmarshal_value_description_spec. Qed.

Theorem vd_suffix_spec s d :
  vd_suffix s d =
  match value_description (s_value_descriptions s) (vd_key s d) with
  | Some t => [Lit t_space; Lit t]
  | None => []
  end.
Proof. unfold vd_suffix. rewrite unmarshal_value_description_spec. reflexivity. Qed.

(** ** canjson *)
Theorem json_value_unsigned s d :
  s_length s <> 1 -> s_signed s = false ->
  let u := unmarshal_unsigned s d in
  json_signal_value uint_to_json s d =
  (dec_u u, to_physical s (f64_of_Z u), value_description (s_value_descriptions s) (vd_key s d)).
Proof.
  intros Hl Hs u. unfold json_signal_value, vd_key. rewrite Hs.
  destruct (Z.eqb_spec (s_length s) 1); [contradiction|]. reflexivity.
Qed.

Theorem json_value_signed uj s d :
  s_length s <> 1 -> s_signed s = true ->
  let v := unmarshal_signed s d in
  json_signal_value uj s d =
  (dec_s v, to_physical s (f64_of_Z v), value_description (s_value_descriptions s) (vd_key s d)).
Proof.
  intros Hl Hs v. unfold json_signal_value, vd_key. rewrite Hs.
  destruct (Z.eqb_spec (s_length s) 1); [contradiction|]. reflexivity.
Qed.

Corollary json_value_unsigned_key s d :
  s_length s <> 1 -> s_signed s = false ->
  let u := unmarshal_unsigned s d in
  json_signal_value uint_to_json s d =
  (dec_u u, to_physical s (f64_of_Z u), value_description (s_value_descriptions s) (i64_of_u64 u)).
Proof. intros Hl Hs. rewrite (json_value_unsigned s d Hl Hs). unfold vd_key. rewrite Hs. reflexivity. Qed.

Corollary json_value_signed_key uj s d :
  s_length s <> 1 -> s_signed s = true ->
  let v := unmarshal_signed s d in
  json_signal_value uj s d =
  (dec_s v, to_physical s (f64_of_Z v), value_description (s_value_descriptions s) v).
Proof. intros Hl Hs. rewrite (json_value_signed uj s d Hl Hs). unfold vd_key. rewrite Hs. reflexivity. Qed.

Theorem json_value_bool uj s d :
  s_length s = 1 ->
  let v := if unmarshal_bool s d then 1 else 0 in
  json_signal_value uj s d =
  (dec_u v, to_physical s (f64_of_Z v), value_description (s_value_descriptions s) v).
Proof.
  intros Hl v. unfold json_signal_value. rewrite Hl. cbn [Z.eqb Pos.eqb]. subst v.
  destruct (unmarshal_bool s d); reflexivity.
Qed.

(** the decimal text parses back to the value, over the full ranges *)
Theorem json_raw_unsigned_parse s d :
  1 <= s_length s <= 64 ->
  parse_uint (dec_u (unmarshal_unsigned s d)) 10 64 = PU_ok (unmarshal_unsigned s d).
Proof.
  intros Hl. pose proof (unmarshal_unsigned_range s d Hl). pose proof (pow_le_64 _ Hl).
  apply dec_u_parse. lia.
Qed.

Theorem json_raw_signed_parse s d :
  1 <= s_length s <= 64 ->
  atoi (dec_s (unmarshal_signed s d)) = Some (unmarshal_signed s d).
Proof. intros Hl. apply dec_s_parse. apply unmarshal_signed_range. exact Hl. Qed.

(** the JSON object of one signal: Unit is present iff non-empty, Description iff a description is
    defined for the value (and non-empty: `omitempty`) *)
Theorem json_signal_object_spec uj s d :
  json_signal_object uj s d =
  let '(raw, phys, desc) := json_signal_value uj s d in
  if is_finite phys then
    Some ([Lit t_raw_key; Lit raw; Lit t_physical_key; FloatF (bits_of_f64 phys)] ++
          (match s_unit s with [] => [] | _ => [Lit t_unit_key; GoJSONString (s_unit s)] end) ++
          (match desc with
           | Some (c :: t) => [Lit t_description_key; GoJSONString (c :: t)]
           | _ => []
           end) ++ [Lit t_rbrace])
  else None.
Proof.
  unfold json_signal_object. destruct (json_signal_value uj s d) as [[raw phys] desc].
  destruct (is_finite phys); [|reflexivity]. destruct (s_unit s); destruct desc as [[|c t]|]; reflexivity.
Qed.

(** * 3. F7: the pre-fix unsigned formatter prints 2^64-1 as "-1" *)
Definition f7_signal : signal := mk_signal 0 64 false false.
Definition f7_data : data := [255; 255; 255; 255; 255; 255; 255; 255].

Theorem json_unsigned_refuted :
  s_signed f7_signal = false /\ s_length f7_signal = 64 /\ valid_data f7_data /\
  unmarshal_unsigned f7_signal f7_data = 2 ^ 64 - 1 /\
  fst (fst (json_signal_value uint_to_json_old f7_signal f7_data)) = [45; 49] /\
  fst (fst (json_signal_value uint_to_json_old f7_signal f7_data)) <> dec_u (unmarshal_unsigned f7_signal f7_data) /\
  parse_uint (fst (fst (json_signal_value uint_to_json_old f7_signal f7_data))) 10 64 = PU_syntax /\
  fst (fst (json_signal_value uint_to_json f7_signal f7_data)) = dec_u (2 ^ 64 - 1).
Proof.
  assert (Hv : valid_data f7_data) by (apply valid_datab_spec; vm_compute; reflexivity).
  assert (Hu : unmarshal_unsigned f7_signal f7_data = 2 ^ 64 - 1) by (vm_compute; reflexivity).
  assert (Ho : fst (fst (json_signal_value uint_to_json_old f7_signal f7_data)) = [45; 49]).
  { unfold json_signal_value. change (s_length f7_signal =? 1) with false. change (s_signed f7_signal) with false.
    cbn [fst]. rewrite Hu. vm_compute. reflexivity. }
  assert (Hn : fst (fst (json_signal_value uint_to_json f7_signal f7_data)) = dec_u (2 ^ 64 - 1)).
  { unfold json_signal_value. change (s_length f7_signal =? 1) with false. change (s_signed f7_signal) with false.
    cbn [fst]. rewrite Hu. reflexivity. }
  split; [reflexivity|]. split; [reflexivity|]. split; [exact Hv|]. split; [exact Hu|]. split; [exact Ho|].
  split; [rewrite Ho, Hu; vm_compute; discriminate|]. split; [rewrite Ho; vm_compute; reflexivity|exact Hn].
Qed.

(** below 2^63 the two formatters agree (the fix changes nothing else) *)
Lemma uint_to_json_old_small u : 0 <= u < 2 ^ 63 -> uint_to_json_old u = uint_to_json u.
Proof.
  intros Hu. unfold uint_to_json_old, uint_to_json, i64_of_u64, dec_s, dec_u.
  destruct (Z.ltb_spec u (2 ^ 63)); [reflexivity|lia].
Qed.

(** * 4. JSON validity *)

Lemma plain_chars name : json_plain_name name -> json_chars name.
Proof. induction 1 as [|c r (H1 & H2 & H3) _ IH]; [constructor|apply jc_plain; assumption]. Qed.

Lemma quoted_plain name : json_plain_name name -> json_string (34 :: name ++ [34]).
Proof. intros H. exists name. split; [reflexivity|apply plain_chars, H]. Qed.

Ltac plain_name := unfold json_plain_name; repeat (constructor; [lia|]); constructor.

Definition k_raw : bytes := [34; 82; 97; 119; 34].
Definition k_physical : bytes := [34; 80; 104; 121; 115; 105; 99; 97; 108; 34].
Definition k_unit : bytes := [34; 85; 110; 105; 116; 34].
Definition k_description : bytes := [34; 68; 101; 115; 99; 114; 105; 112; 116; 105; 111; 110; 34].

Lemma k_raw_string : json_string k_raw.
Proof. apply (quoted_plain [82; 97; 119]). plain_name. Qed.
Lemma k_physical_string : json_string k_physical.
Proof. apply (quoted_plain [80; 104; 121; 115; 105; 99; 97; 108]). plain_name. Qed.
Lemma k_unit_string : json_string k_unit.
Proof. apply (quoted_plain [85; 110; 105; 116]). plain_name. Qed.
Lemma k_description_string : json_string k_description.
Proof. apply (quoted_plain [68; 101; 115; 99; 114; 105; 112; 116; 105; 111; 110]). plain_name. Qed.

(** members from key/value pairs *)
Fixpoint members_bytes (kvs : list (bytes * bytes)) : bytes :=
  match kvs with
  | [] => []
  | [(k, v)] => k ++ 58 :: v
  | (k, v) :: tl => k ++ 58 :: v ++ 44 :: members_bytes tl
  end.

Lemma members_bytes_ok kvs :
  kvs <> [] -> Forall (fun kv => json_string (fst kv) /\ json_value (snd kv)) kvs -> json_members (members_bytes kvs).
Proof.
  induction kvs as [|[k v] tl IH]; intros Hne Hall; [congruence|].
  inversion Hall as [|? ? [Hk Hv] Htl]; subst. cbn [fst snd] in *.
  destruct tl as [|kv' tl'].
  - cbn. apply jm_last; assumption.
  - change (members_bytes ((k, v) :: kv' :: tl')) with (k ++ 58 :: v ++ 44 :: members_bytes (kv' :: tl')).
    apply jm_more; try assumption. apply IH; [discriminate|exact Htl].
Qed.

Lemma object_ok kvs :
  Forall (fun kv => json_string (fst kv) /\ json_value (snd kv)) kvs -> json_value (123 :: members_bytes kvs ++ [125]).
Proof.
  intros H. destruct kvs as [|kv tl]; [apply jv_empty_object|].
  apply jv_object, members_bytes_ok; [discriminate|exact H].
Qed.

Lemma members_bytes_cons k v tl : tl <> [] ->
  members_bytes ((k, v) :: tl) = k ++ 58 :: v ++ 44 :: members_bytes tl.
Proof. destruct tl; [congruence|reflexivity]. Qed.

Section Validity.
  Variables (rG rF : Z -> bytes) (rJ : bytes -> bytes) (rD : Z -> bytes).
  (** what strconv.FormatFloat(f, 'f', -1, 64) is trusted for *)
  Hypothesis float_f_is_number : forall p : f64, is_finite p = true -> json_number (rF (bits_of_f64 p)).
  (** what encoding/json's string encoder is trusted for *)
  Hypothesis go_json_string : forall b, json_string (rJ b).

  Notation rnd := (render rG rF rJ rD).

  Lemma render_app a b : rnd (a ++ b) = rnd a ++ rnd b.
  Proof. unfold render. apply flat_map_app. Qed.

  Lemma render_cons sg l : rnd (sg :: l) = render_segment rG rF rJ rD sg ++ rnd l.
  Proof. reflexivity. Qed.

  (** the object of one signal *)
  Lemma signal_object_valid uj s d o :
    (forall u, json_number (uj u)) ->
    json_signal_object uj s d = Some o -> json_value (rnd o).
  Proof.
    intros Huj. rewrite json_signal_object_spec.
    assert (Hraw : json_number (fst (fst (json_signal_value uj s d)))).
    { unfold json_signal_value. destruct (s_length s =? 1).
      - destruct (unmarshal_bool s d); cbn [fst]; [apply (dec_json_number 1)|apply (dec_json_number 0)].
      - destruct (s_signed s); cbn [fst]; [apply dec_json_number|apply Huj]. }
    destruct (json_signal_value uj s d) as [[raw phys] desc]. cbn [fst] in Hraw. cbv beta iota.
    destruct (is_finite phys) eqn:Hfin; [|discriminate]. intros H. injection H as <-.
    pose proof (float_f_is_number phys Hfin) as Hphys.
    set (u_kv := match s_unit s with [] => [] | _ => [(k_unit, rJ (s_unit s))] end).
    set (d_kv := match desc with Some (c :: t) => [(k_description, rJ (c :: t))] | _ => [] end).
    assert (E : rnd ([Lit t_raw_key; Lit raw; Lit t_physical_key; FloatF (bits_of_f64 phys)] ++
                     (match s_unit s with [] => [] | _ => [Lit t_unit_key; GoJSONString (s_unit s)] end) ++
                     (match desc with Some (c :: t) => [Lit t_description_key; GoJSONString (c :: t)] | _ => [] end) ++
                     [Lit t_rbrace]) =
                123 :: members_bytes ((k_raw, raw) :: (k_physical, rF (bits_of_f64 phys)) :: u_kv ++ d_kv) ++ [125]).
    { subst u_kv d_kv. unfold render.
      destruct (s_unit s) as [|uc ut]; destruct desc as [[|c t]|];
        cbn [flat_map render_segment app members_bytes t_raw_key t_physical_key t_unit_key t_description_key t_rbrace
             k_raw k_physical k_unit k_description];
        repeat (rewrite <- ?app_assoc; cbn [app]); rewrite ?app_nil_r; reflexivity. }
    cut (json_value (123 :: members_bytes ((k_raw, raw) :: (k_physical, rF (bits_of_f64 phys)) :: u_kv ++ d_kv) ++ [125]));
      [intros Hc; rewrite <- E in Hc; exact Hc|].
    apply object_ok.
    constructor; [split; [apply k_raw_string|apply jv_number, Hraw]|].
    constructor; [split; [apply k_physical_string|apply jv_number, Hphys]|].
    apply Forall_app. split.
    - subst u_kv. destruct (s_unit s); constructor; [|constructor].
      split; [apply k_unit_string|apply jv_string, go_json_string].
    - subst d_kv. destruct desc as [[|c t]|]; constructor; [|constructor].
      split; [apply k_description_string|apply jv_string, go_json_string].
  Qed.

  Lemma members_valid uj d : forall ss objs,
    (forall u, json_number (uj u)) ->
    Forall (fun s => json_plain_name (s_name s)) ss ->
    all_some (map (fun s => json_member uj s d) ss) = Some objs ->
    exists kvs, rnd (join [Lit t_comma] objs) = members_bytes kvs /\ length kvs = length ss /\
                Forall (fun kv => json_string (fst kv) /\ json_value (snd kv)) kvs.
  Proof.
    induction ss as [|s tl IH]; intros objs Huj Hn H.
    - cbn in H. inversion H; subst. exists []. repeat split. constructor.
    - cbn [map all_some] in H. unfold json_member in H at 1.
      destruct (json_signal_object uj s d) as [o|] eqn:Eo; [|discriminate].
      destruct (all_some (map (fun s0 => json_member uj s0 d) tl)) as [objs'|] eqn:Et; [|discriminate].
      inversion H; subst objs. clear H. inversion Hn as [|? ? Hs Htl]; subst.
      destruct (IH objs' Huj Htl eq_refl) as (kvs & Ek & Hlen & Hok).
      pose proof (signal_object_valid uj s d o Huj Eo) as Hv.
      exists ((34 :: s_name s ++ [34], rnd o) :: kvs). split; [|split].
      + destruct objs' as [|o' r'].
        * cbn [join] in *. assert (kvs = []) as ->.
          { apply all_some_length in Et. rewrite map_length in Et. destruct tl; [|discriminate].
            destruct kvs; [reflexivity|discriminate]. }
          cbn [app]. rewrite !render_cons. cbn [members_bytes render_segment t_quote t_quote_colon app].
          rewrite <- !app_assoc. reflexivity.
        * assert (Hne : kvs <> []).
          { apply all_some_length in Et. rewrite map_length in Et. destruct tl; [discriminate|].
            destruct kvs; [discriminate|discriminate]. }
          rewrite members_bytes_cons by exact Hne.
          rewrite join_cons2.
          rewrite !render_app, Ek. cbn [app]. rewrite !render_cons.
          cbn [render_segment t_quote t_quote_colon t_comma app].
          change (rnd []) with (@nil Z). rewrite <- !app_assoc. cbn [app]. reflexivity.
      + cbn [length]. rewrite Hlen. reflexivity.
      + constructor; [|exact Hok]. split; [apply quoted_plain, Hs|exact Hv].
  Qed.

  (** canjson.Marshal output is a JSON value whenever it returns one *)
  Theorem json_render_valid uj m d segs :
    (forall u, json_number (uj u)) ->
    Forall (fun s => json_plain_name (s_name s)) (msg_signals m) ->
    json_render_with uj m d = Some segs -> json_value (rnd segs).
  Proof.
    intros Huj Hn. rewrite json_render_blocks.
    destruct (all_some (map (fun s => json_member uj s d) (msg_signals m))) as [objs|] eqn:E; [|discriminate].
    intros H. injection H as <-.
    destruct (members_valid uj d _ objs Huj Hn E) as (kvs & Ek & _ & Hok).
    cbn [app]. rewrite render_cons, render_app, Ek. cbn [render_segment t_lbrace app].
    apply object_ok, Hok.
  Qed.
End Validity.

Lemma uint_to_json_number u : json_number (uint_to_json u).
Proof. apply dec_json_number. Qed.

(** the statement for canjson.Marshal after F7, hypotheses first *)
Corollary json_render_valid_fixed (rG rF : Z -> bytes) (rJ : bytes -> bytes) (rD : Z -> bytes) :
  (forall p : f64, is_finite p = true -> json_number (rF (bits_of_f64 p))) ->
  (forall b, json_string (rJ b)) ->
  forall m d segs,
  Forall (fun s => json_plain_name (s_name s)) (msg_signals m) ->
  json_render_with uint_to_json m d = Some segs ->
  json_value (render rG rF rJ rD segs).
Proof.
  intros HF HJ m d segs Hn H.
  exact (json_render_valid rG rF rJ rD HF HJ uint_to_json m d segs uint_to_json_number Hn H).
Qed.

(** Marshal fails exactly when a physical value is not finite (never, for finite scale/offset/min/
    max of moderate size: DESIGN.md 4.3) *)
Lemma json_member_some_iff uj s d :
  (exists o, json_member uj s d = Some o) <-> is_finite (snd (fst (json_signal_value uj s d))) = true.
Proof.
  unfold json_member, json_signal_object. destruct (json_signal_value uj s d) as [[raw phys] desc]. cbn [fst snd].
  destruct (is_finite phys); split; try reflexivity; try discriminate.
  - intros _. eexists. reflexivity.
  - intros [? H]. discriminate.
Qed.

Theorem json_render_some_iff uj m d :
  (exists segs, json_render_with uj m d = Some segs) <->
  Forall (fun s => is_finite (snd (fst (json_signal_value uj s d))) = true) (msg_signals m).
Proof.
  rewrite json_render_blocks.
  assert (H : (exists r, all_some (map (fun s => json_member uj s d) (msg_signals m)) = Some r) <->
              Forall (fun s => is_finite (snd (fst (json_signal_value uj s d))) = true) (msg_signals m)).
  { induction (msg_signals m) as [|s tl IH].
    - split; [constructor|intros _; eexists; reflexivity].
    - cbn [map all_some]. split.
      + intros [r Hr]. destruct (json_member uj s d) as [o|] eqn:Eo; [|discriminate].
        destruct (all_some (map (fun s0 => json_member uj s0 d) tl)) as [r'|] eqn:Er; [|discriminate].
        constructor; [apply json_member_some_iff; eexists; exact Eo|]. apply IH. eexists. reflexivity.
      + intros Hall. inversion Hall as [|? ? Hs Htl]; subst.
        apply json_member_some_iff in Hs. destruct Hs as [o ->].
        apply IH in Htl. destruct Htl as [r' ->]. eexists. reflexivity. }
  rewrite <- H. destruct (all_some (map (fun s => json_member uj s d) (msg_signals m))) as [r|].
  - split; intros _; eexists; reflexivity.
  - split; intros [? E]; discriminate.
Qed.

(** * 5. candebug *)

Lemma beqb_eq a : forall b, beqb a b = true <-> a = b.
Proof.
  induction a as [|x a IH]; intros [|y b]; cbn; try (split; [discriminate|congruence]); [tauto|].
  rewrite andb_true_iff, Z.eqb_eq, IH. split; [intros [-> ->]; reflexivity|intros H; inversion H; auto].
Qed.

Lemma select_entry_none base es :
  (forall e, In e es -> msg_name (entry_message e) <> base) -> select_entry base es = None.
Proof.
  induction es as [|e tl IH]; intros H; [reflexivity|]. cbn [select_entry].
  destruct (beqb (msg_name (entry_message e)) base) eqn:E.
  - apply beqb_eq in E. exfalso. apply (H e); [left; reflexivity|exact E].
  - apply IH. intros e' Hin. apply H. right. exact Hin.
Qed.

Lemma select_entry_first base pre e post :
  (forall x, In x pre -> msg_name (entry_message x) <> base) -> msg_name (entry_message e) = base ->
  select_entry base (pre ++ e :: post) = Some e.
Proof.
  induction pre as [|x pre IH]; intros Hp He; cbn [app select_entry].
  - replace (beqb (msg_name (entry_message e)) base) with true by (symmetry; apply beqb_eq, He). reflexivity.
  - destruct (beqb (msg_name (entry_message x)) base) eqn:E.
    + apply beqb_eq in E. exfalso. apply (Hp x); [left; reflexivity|exact E].
    + apply IH; [|exact He]. intros y Hy. apply Hp. right. exact Hy.
Qed.

(** the page shows only the FIRST message whose name is the last path element ... *)
Theorem debug_page_single path pre e post :
  (forall x, In x pre -> msg_name (entry_message x) <> path_base path) ->
  msg_name (entry_message e) = path_base path ->
  debug_page path (pre ++ e :: post) = debug_message (fst (fst e)) (snd (fst e)) (snd e).
Proof.
  intros Hp He. unfold debug_page. rewrite select_entry_first by assumption.
  rewrite debug_body_blocks. reflexivity.
Qed.

(** ... and all messages, in the order given, when no name matches *)
Theorem debug_page_all path es :
  (forall e, In e es -> msg_name (entry_message e) <> path_base path) ->
  debug_page path es = join [Lit t_nl3] (map (fun e : entry => debug_message (fst (fst e)) (snd (fst e)) (snd e)) es).
Proof. intros H. unfold debug_page. rewrite select_entry_none by exact H. apply debug_body_blocks. Qed.

(** path.Base: the text after the last slash, trailing slashes ignored *)
Lemma drop_slashes_repeat k r : drop_slashes (repeat 47 k ++ r) = drop_slashes r.
Proof. induction k; [reflexivity|]. cbn. exact IHk. Qed.

Lemma take_element_app a b : ~ In 47 a -> take_element (a ++ 47 :: b) = a.
Proof.
  induction a as [|c a IH]; intros H; cbn; [reflexivity|].
  destruct (Z.eqb_spec c 47) as [->|Hc]; [exfalso; apply H; left; reflexivity|].
  rewrite IH; [reflexivity|]. intros Hin. apply H. right. exact Hin.
Qed.

Lemma rev_repeat {A} (x : A) k : rev (repeat x k) = repeat x k.
Proof.
  induction k; [reflexivity|]. cbn [repeat rev]. rewrite IHk.
  clear IHk. induction k; [reflexivity|]. cbn. rewrite IHk. reflexivity.
Qed.

Theorem path_base_last dir name k :
  name <> [] -> ~ In 47 name -> path_base (dir ++ 47 :: name ++ repeat 47 k) = name.
Proof.
  intros Hne Hns. unfold path_base.
  destruct (dir ++ 47 :: name ++ repeat 47 k) eqn:E; [destruct dir; discriminate|]. rewrite <- E. clear E.
  replace (dir ++ 47 :: name ++ repeat 47 k) with ((dir ++ 47 :: name) ++ repeat 47 k)
    by (rewrite <- app_assoc; reflexivity).
  rewrite rev_app_distr, rev_repeat, drop_slashes_repeat.
  replace (dir ++ 47 :: name) with ((dir ++ [47]) ++ name) by (rewrite <- app_assoc; reflexivity).
  rewrite rev_app_distr, rev_app_distr. cbn [rev app].
  assert (Hr : rev name <> []).
  { intros E. apply Hne. rewrite <- (rev_involutive name), E. reflexivity. }
  destruct (rev name) as [|c r] eqn:En; [congruence|].
  assert (Hc : c <> 47 /\ ~ In 47 r).
  { split.
    - intros ->. apply Hns. apply in_rev. rewrite En. left. reflexivity.
    - intros Hin. apply Hns. apply in_rev. rewrite En. right. exact Hin. }
  destruct Hc as [Hc Hr'].
  cbn [app drop_slashes]. destruct (Z.eqb_spec c 47); [contradiction|].
  change (c :: r ++ 47 :: rev dir) with ((c :: r) ++ 47 :: rev dir).
  rewrite take_element_app.
  - rewrite <- En, rev_involutive. destruct name; [congruence|reflexivity].
  - intros [E|Hin]; [congruence|contradiction].
Qed.

(** * 6. cantext.Append* only append; Marshal / MarshalCompact are compositions of such calls;
       renderings are values *)

(** the buffer returned is the buffer passed followed by a text that does not depend on it *)
Theorem append_only_appends buf c r :
  append_to buf c = Some r ->
  exists t, append_to [] c = Some t /\ r = buf ++ t /\
    forall rG rF rJ rD, render rG rF rJ rD r = render rG rF rJ rD buf ++ render rG rF rJ rD t.
Proof.
  unfold append_to. destruct (append_text c) as [t|]; [|discriminate].
  intros E. inversion E; subst. exists t. split; [reflexivity|]. split; [reflexivity|].
  intros. unfold render. apply flat_map_app.
Qed.

(** ... in particular its first [length buf] bytes are the caller's prefix, unchanged *)
Theorem append_keeps_prefix buf c r rG rF rJ rD :
  append_to buf c = Some r ->
  firstn (length (render rG rF rJ rD buf)) (render rG rF rJ rD r) = render rG rF rJ rD buf.
Proof.
  intros E. destruct (append_only_appends _ _ _ E) as [t [_ [_ H]]]. rewrite H.
  rewrite firstn_app, Nat.sub_diag, firstn_all. cbn [firstn]. apply app_nil_r.
Qed.

(** whether a call fails does not depend on the buffer; only AppendFrame can fail *)
Theorem append_fails_iff buf c :
  append_to buf c = None <->
  exists f, c = CallFrame f /\ Can.FrameString.to_string (can_frame f) = Can.FrameString.S_panic.
Proof.
  unfold append_to. split.
  - destruct c; cbn [append_text]; try discriminate.
    destruct (Can.FrameString.to_string (can_frame f)) eqn:E; [discriminate|].
    intros _. exists f. split; [reflexivity|exact E].
  - intros [f [-> E]]. cbn [append_text]. rewrite E. reflexivity.
Qed.

Lemma marshal_loop_gen d : forall ss buf,
  fold_left (fun buf s => match append_to (buf ++ [Lit t_nl_tab]) (CallSignal s d) with
                          | Some b => b
                          | None => buf
                          end) ss buf =
  buf ++ flat_map (fun s => Lit t_nl_tab :: text_signal s d) ss.
Proof.
  induction ss as [|s tl IH]; intros buf; cbn [fold_left flat_map].
  - symmetry. apply app_nil_r.
  - rewrite IH. unfold append_to. cbn [append_text]. rewrite <- !app_assoc. reflexivity.
Qed.

(** Marshal, written as the loop of Append calls over one buffer, is the closed form *)
Theorem marshal_loop_spec m d : marshal_loop m d = text_multiline_data m d.
Proof. unfold marshal_loop, text_multiline_data. rewrite marshal_loop_gen. reflexivity. Qed.

Lemma marshal_compact_loop_gen d n : forall ss i buf,
  snd (fold_left (fun (acc : nat * list segment) s =>
                    let '(i, buf) := acc in
                    let buf1 := match append_to buf (CallSignalCompact s d) with Some b => b | None => buf end in
                    (S i, if Nat.eqb i (n - 1) then buf1 else buf1 ++ [Lit t_comma_sp]))
                 ss (i, buf)) =
  buf ++ loop_sep (fun s => text_compact_signal s d) [Lit t_comma_sp] n i ss.
Proof.
  induction ss as [|s tl IH]; intros i buf; cbn [fold_left loop_sep].
  - cbn [snd]. symmetry. apply app_nil_r.
  - assert (E : append_to buf (CallSignalCompact s d) = Some (buf ++ text_compact_signal s d)) by reflexivity.
    rewrite E. destruct (Nat.eqb i (n - 1)); rewrite IH; cbn [app]; rewrite <- ?app_assoc; reflexivity.
Qed.

Theorem marshal_compact_loop_spec m d : marshal_compact_loop m d = text_compact_data m d.
Proof.
  unfold marshal_compact_loop, text_compact_data. rewrite marshal_compact_loop_gen.
  rewrite <- app_assoc. reflexivity.
Qed.

(** Renderings are values: the k-th of the results obtained by rendering a sequence of
    (message, payload) pairs is the rendering of the k-th pair alone, whatever was rendered
    before or after it (stated for any renderer [f]; trivial in a functional model - that the Go
    functions hand out memory no later call writes to is observed by the correspondence run) *)
Theorem renderings_are_values {A B} (f : A -> B) (items : list A) k :
  nth_error (map f items) k = option_map f (nth_error items k).
Proof. apply nth_error_map. Qed.
