(** Proofs about the wiring of the generated code (Gen/Wiring.v): a wiring accepted by the checker means,
    statement by statement, exactly what the descriptor interpreter (Gen/Message.v, Gen/History.v) does -
    for ALL states and frames, by induction over the signal list. *)
From Coq Require Import ZArith List Bool Lia.
From CanVerif Require Import Base.Dec Gen.RenderNum Can.Data Descriptor.Types Descriptor.Physical Gen.Message Gen.History Gen.HistoryPhys Gen.Api Gen.Wiring.
Import ListNotations.
Open Scope Z_scope.

(** ** boolean equalities are sound *)
Lemma prim_eqb_eq a b : prim_eqb a b = true -> a = b.
Proof. destruct a, b; cbn; try discriminate; try reflexivity; intros H; apply Z.eqb_eq in H; subst; reflexivity. Qed.
Lemma prim_eqb_refl a : prim_eqb a a = true.
Proof. destruct a; cbn; try reflexivity; apply Z.eqb_refl. Qed.
Lemma ctype_eqb_eq a b : ctype_eqb a b = true -> a = b.
Proof. destruct a, b; cbn; try discriminate; try reflexivity. intros H. apply prim_eqb_eq in H. subst. reflexivity. Qed.
Lemma super_eqb_eq a b : super_eqb a b = true -> a = b.
Proof. destruct a, b; cbn; try discriminate; reflexivity. Qed.
Lemma hdr_eqb_eq a b : hdr_eqb a b = true -> a = b.
Proof. destruct a, b; cbn; try discriminate; reflexivity. Qed.
Lemma guard_eqb_eq (a b : option (nat * Z)) :
  opt_eqb (fun x y => Nat.eqb (fst x) (fst y) && (snd x =? snd y)) a b = true -> a = b.
Proof.
  destruct a as [[i c]|], b as [[j e]|]; cbn; try discriminate; try reflexivity.
  rewrite andb_true_iff. intros [H1 H2]. apply Nat.eqb_eq in H1. apply Z.eqb_eq in H2. subst. reflexivity.
Qed.
Lemma mstmt_eqb_eq a b : mstmt_eqb a b = true -> a = b.
Proof.
  destruct a as [k1 d1 f1 t1 c1 g1], b as [k2 d2 f2 t2 c2 g2]. unfold mstmt_eqb. cbn [ms_kind ms_desc ms_field ms_ftype ms_conv ms_guard].
  rewrite !andb_true_iff. intros [[[[[H1 H2] H3] H4] H5] H6].
  apply super_eqb_eq in H1. apply Nat.eqb_eq in H2. apply Nat.eqb_eq in H3. apply prim_eqb_eq in H4.
  apply ctype_eqb_eq in H5. apply guard_eqb_eq in H6. subst. reflexivity.
Qed.
Lemma rcond_eqb_eq a b : rcond_eqb a b = true -> a = b.
Proof.
  destruct a, b; cbn; try discriminate; try reflexivity.
  rewrite andb_true_iff. intros [H1 H2]. apply hdr_eqb_eq in H1. apply hdr_eqb_eq in H2. subst. reflexivity.
Qed.
Lemma ustmt_eqb_eq a b : ustmt_eqb a b = true -> a = b.
Proof.
  destruct a, b; cbn; try discriminate; intros H.
  - apply rcond_eqb_eq in H. subst. reflexivity.
  - apply mstmt_eqb_eq in H. subst. reflexivity.
Qed.
Lemma list_eqb_eq {A} (e : A -> A -> bool) : (forall a b, e a b = true -> a = b) ->
  forall l l', list_eqb e l l' = true -> l = l'.
Proof.
  intros He. induction l as [|x l IH]; intros [|y l']; cbn; try discriminate; try reflexivity.
  rewrite andb_true_iff. intros [H1 H2]. apply He in H1. apply IH in H2. subst. reflexivity.
Qed.

(** ** list plumbing *)
Lemma run_marshal_app sigs st l1 : forall l2 d,
  run_marshal sigs st (l1 ++ l2) d =
  match run_marshal sigs st l1 d with Some d' => run_marshal sigs st l2 d' | None => None end.
Proof.
  induction l1 as [|a l1 IH]; intros l2 d; cbn [app run_marshal]; [reflexivity|].
  destruct (exec_marshal sigs st a d); [apply IH|reflexivity].
Qed.

Fixpoint run_assign (sigs : list signal) (d : data) (l : list mstmt) (st : state) : option state :=
  match l with
  | [] => Some st
  | a :: tl => match exec_assign sigs d a st with Some st' => run_assign sigs d tl st' | None => None end
  end.
Lemma run_assign_app sigs d l1 : forall l2 st,
  run_assign sigs d (l1 ++ l2) st =
  match run_assign sigs d l1 st with Some st' => run_assign sigs d l2 st' | None => None end.
Proof.
  induction l1 as [|a l1 IH]; intros l2 st; cbn [app run_assign]; [reflexivity|].
  destruct (exec_assign sigs d a st); [apply IH|reflexivity].
Qed.
Lemma run_unmarshal_assigns m f l : forall st,
  run_unmarshal m f (map UAssign l) st =
  match run_assign (msg_signals m) (fr_data f) l st with Some st' => Some (inr st') | None => None end.
Proof.
  induction l as [|a l IH]; intros st; cbn [map run_unmarshal run_assign]; [reflexivity|].
  destruct (exec_assign (msg_signals m) (fr_data f) a st); [apply IH|reflexivity].
Qed.

Lemma nth_error_mid {A} (pss : list A) s tl : nth_error (pss ++ s :: tl) (length pss) = Some s.
Proof. induction pss as [|x pss IH]; cbn; [reflexivity|exact IH]. Qed.
Lemma nth_mid (pre : state) v suf : nth (length pre) (pre ++ v :: suf) 0 = v.
Proof. induction pre as [|x pre IH]; cbn; [reflexivity|exact IH]. Qed.
Lemma set_nth_mid (pre : state) r v suf : set_nth_state (length pre) r (pre ++ v :: suf) = pre ++ r :: suf.
Proof. induction pre as [|x pre IH]; cbn; [reflexivity|rewrite IH; reflexivity]. Qed.
Lemma snoc_assoc {A} (l : list A) x tl : l ++ x :: tl = (l ++ [x]) ++ tl.
Proof. rewrite <- app_assoc. reflexivity. Qed.
Lemma snoc_length {A} (l : list A) x : length (l ++ [x]) = S (length l).
Proof. rewrite app_length. cbn. lia. Qed.

(** ** one demanded statement means the interpreter's field access *)
Lemma kind_conv_ok_super s : kind_conv_ok (signal_super_type s) (super_conv s) = true.
Proof. unfold super_conv. destruct (signal_super_type s); reflexivity. Qed.

Lemma exec_marshal_demanded sigs st k s g d :
  nth_error sigs k = Some s -> frame_side_ok (demanded_stmt super_conv k s g) = true ->
  exec_marshal sigs st (demanded_stmt super_conv k s g) d =
  Some (if guard_holds g st then write_field s d (nth k st 0) else d).
Proof.
  intros Hn Hs. unfold exec_marshal, demanded_stmt in *. cbn [ms_kind ms_desc ms_field ms_ftype ms_conv ms_guard] in *.
  destruct (guard_holds g st); [|reflexivity].
  rewrite Hn, kind_conv_ok_super.
  unfold frame_side_ok in Hs. cbn [ms_kind ms_ftype] in Hs.
  unfold super_conv, write_field, marshal_call.
  destruct (signal_super_type s); destruct (signal_prim_type s); cbn in Hs; try discriminate; reflexivity.
Qed.

Lemma exec_assign_demanded sigs st k s g d :
  nth_error sigs k = Some s -> frame_side_ok (demanded_stmt field_conv k s g) = true ->
  exec_assign sigs d (demanded_stmt field_conv k s g) st =
  Some (if guard_holds g st then set_nth_state k (read_field s d) st else st).
Proof.
  intros Hn Hs. unfold exec_assign, demanded_stmt in *. cbn [ms_kind ms_desc ms_field ms_ftype ms_conv ms_guard] in *.
  destruct (guard_holds g st); [|reflexivity].
  rewrite Hn. unfold field_conv. cbn [ctype_eqb]. rewrite prim_eqb_refl.
  unfold frame_side_ok in Hs. cbn [ms_kind ms_ftype] in Hs.
  unfold read_field, assign_value.
  destruct (signal_super_type s); destruct (signal_prim_type s); cbn in Hs; try discriminate; reflexivity.
Qed.

(** ** Frame(): the two passes *)
Lemma run_marshal_plain sigs st : forall ss pss pre suf k d,
  sigs = pss ++ ss -> st = pre ++ suf -> length pss = k -> length pre = k -> length suf = length ss ->
  forallb frame_side_ok (plain_stmts super_conv ss k) = true ->
  run_marshal sigs st (plain_stmts super_conv ss k) d = Some (marshal_plain ss suf d).
Proof.
  induction ss as [|s tl IH]; intros pss pre suf k d Hsig Hst Hk1 Hk2 Hlen Hside.
  - destruct suf; reflexivity.
  - destruct suf as [|v suf']; [discriminate|]. cbn [plain_stmts marshal_plain] in *.
    rewrite forallb_app, andb_true_iff in Hside. destruct Hside as [Hs1 Hs2].
    rewrite run_marshal_app.
    assert (Hn : nth_error sigs k = Some s) by (subst sigs k; apply nth_error_mid).
    assert (Hv : nth k st 0 = v) by (subst st; rewrite <- Hk2; apply nth_mid).
    assert (IH' : forall d', run_marshal sigs st (plain_stmts super_conv tl (S k)) d' = Some (marshal_plain tl suf' d')).
    { intros d'. apply (IH (pss ++ [s]) (pre ++ [v])); auto.
      - rewrite Hsig. apply snoc_assoc.
      - rewrite Hst. apply snoc_assoc.
      - rewrite snoc_length. congruence.
      - rewrite snoc_length. congruence. }
    destruct (s_multiplexed s).
    + cbn [run_marshal]. apply IH'.
    + cbn [forallb] in Hs1. rewrite andb_true_r in Hs1. cbn [run_marshal].
      rewrite (exec_marshal_demanded sigs st k s None d Hn Hs1). cbn [guard_holds]. rewrite Hv. apply IH'.
Qed.

Lemma run_marshal_muxed sigs st mi : forall ss pss pre suf k d,
  sigs = pss ++ ss -> st = pre ++ suf -> length pss = k -> length pre = k -> length suf = length ss ->
  forallb frame_side_ok (muxed_stmts super_conv mi ss k) = true ->
  run_marshal sigs st (muxed_stmts super_conv mi ss k) d = Some (marshal_muxed ss suf (nth mi st 0) d).
Proof.
  induction ss as [|s tl IH]; intros pss pre suf k d Hsig Hst Hk1 Hk2 Hlen Hside.
  - destruct suf; reflexivity.
  - destruct suf as [|v suf']; [discriminate|]. cbn [muxed_stmts marshal_muxed] in *.
    rewrite forallb_app, andb_true_iff in Hside. destruct Hside as [Hs1 Hs2].
    rewrite run_marshal_app.
    assert (Hn : nth_error sigs k = Some s) by (subst sigs k; apply nth_error_mid).
    assert (Hv : nth k st 0 = v) by (subst st; rewrite <- Hk2; apply nth_mid).
    assert (IH' : forall d', run_marshal sigs st (muxed_stmts super_conv mi tl (S k)) d' = Some (marshal_muxed tl suf' (nth mi st 0) d')).
    { intros d'. apply (IH (pss ++ [s]) (pre ++ [v])); auto.
      - rewrite Hsig. apply snoc_assoc.
      - rewrite Hst. apply snoc_assoc.
      - rewrite snoc_length. congruence.
      - rewrite snoc_length. congruence. }
    destruct (s_multiplexed s).
    + cbn [forallb] in Hs1. rewrite andb_true_r in Hs1. cbn [run_marshal].
      rewrite (exec_marshal_demanded sigs st k s _ d Hn Hs1). cbn [guard_holds andb]. rewrite Hv. apply IH'.
    + cbn [run_marshal andb]. apply IH'.
Qed.

Theorem wiring_frame_correct m w st :
  frame_wiring_ok m w = true -> length st = length (msg_signals m) ->
  wiring_frame m w st = Some (frame_of m st).
Proof.
  unfold frame_wiring_ok, wiring_frame. intros H Hlen.
  apply andb_true_iff in H. destruct H as [Hi H].
  destruct (w_init w) as [[a b] c]. rewrite !andb_true_iff in Hi. destruct Hi as [[Ha Hb] Hc].
  apply hdr_eqb_eq in Ha. apply hdr_eqb_eq in Hb. apply hdr_eqb_eq in Hc. subst a b c.
  destruct (resolve_all (resolve_stmt w) (w_frame w)) as [l|]; [|discriminate].
  apply andb_true_iff in H. destruct H as [He Hside]. apply (list_eqb_eq _ mstmt_eqb_eq) in He. subst l.
  unfold demanded_body in *. rewrite forallb_app, andb_true_iff in Hside. destruct Hside as [Hs1 Hs2].
  rewrite run_marshal_app.
  rewrite (run_marshal_plain (msg_signals m) st (msg_signals m) [] [] st 0%nat zero_data); auto.
  unfold frame_of. cbn [hdr_val].
  assert (Hx : negb ((if msg_extended m then 1 else 0) =? 0) = msg_extended m) by (destruct (msg_extended m); reflexivity).
  destruct (mux_index m) as [mi|].
  - rewrite (run_marshal_muxed (msg_signals m) st mi (msg_signals m) [] [] st 0%nat); auto. rewrite Hx. reflexivity.
  - cbn [run_marshal]. rewrite Hx. reflexivity.
Qed.

(** ** UnmarshalFrame(): the two passes *)
Lemma unmarshal_plain_length d : forall ss suf, length suf = length ss -> length (unmarshal_plain ss suf d) = length ss.
Proof.
  induction ss as [|s tl IH]; intros [|v suf] H; cbn in *; try discriminate; [reflexivity|].
  f_equal. apply IH. congruence.
Qed.

Definition assign_side_ok (a : mstmt) : bool := frame_side_ok a && guard_side_ok a.

Lemma run_assign_plain sigs d : forall ss pss pre suf k,
  sigs = pss ++ ss -> length pss = k -> length pre = k -> length suf = length ss ->
  forallb assign_side_ok (plain_stmts field_conv ss k) = true ->
  run_assign sigs d (plain_stmts field_conv ss k) (pre ++ suf) = Some (pre ++ unmarshal_plain ss suf d).
Proof.
  induction ss as [|s tl IH]; intros pss pre suf k Hsig Hk1 Hk2 Hlen Hside.
  - destruct suf; [reflexivity|discriminate].
  - destruct suf as [|v suf']; [discriminate|]. cbn [plain_stmts unmarshal_plain] in *.
    rewrite forallb_app, andb_true_iff in Hside. destruct Hside as [Hs1 Hs2].
    rewrite run_assign_app.
    assert (Hn : nth_error sigs k = Some s) by (subst sigs k; apply nth_error_mid).
    assert (IH' : forall r, run_assign sigs d (plain_stmts field_conv tl (S k)) (pre ++ r :: suf') =
                            Some (pre ++ r :: unmarshal_plain tl suf' d)).
    { intros r. rewrite (snoc_assoc pre r suf'), (snoc_assoc pre r (unmarshal_plain tl suf' d)).
      apply (IH (pss ++ [s]) (pre ++ [r])); auto.
      - rewrite Hsig. apply snoc_assoc.
      - rewrite snoc_length. congruence.
      - rewrite snoc_length. congruence. }
    destruct (s_multiplexed s).
    + cbn [run_assign]. apply IH'.
    + cbn [forallb] in Hs1. rewrite andb_true_r in Hs1. unfold assign_side_ok in Hs1.
      apply andb_true_iff in Hs1. destruct Hs1 as [Hs1 _]. cbn [run_assign].
      rewrite (exec_assign_demanded sigs _ k s None d Hn Hs1). cbn [guard_holds].
      assert (Hset : forall r, set_nth_state k r (pre ++ v :: suf') = pre ++ r :: suf')
        by (intros r; rewrite <- Hk2; apply set_nth_mid).
      rewrite Hset. apply IH'.
Qed.

Lemma run_assign_muxed sigs d mi muxv : forall ss pss pre suf k,
  sigs = pss ++ ss -> length pss = k -> length pre = k -> length suf = length ss ->
  nth mi (pre ++ suf) 0 = muxv ->
  forallb assign_side_ok (muxed_stmts field_conv mi ss k) = true ->
  run_assign sigs d (muxed_stmts field_conv mi ss k) (pre ++ suf) = Some (pre ++ unmarshal_muxed ss suf muxv d).
Proof.
  induction ss as [|s tl IH]; intros pss pre suf k Hsig Hk1 Hk2 Hlen Hmux Hside.
  - destruct suf; [reflexivity|discriminate].
  - destruct suf as [|v suf']; [discriminate|]. cbn [muxed_stmts unmarshal_muxed] in *.
    rewrite forallb_app, andb_true_iff in Hside. destruct Hside as [Hs1 Hs2].
    rewrite run_assign_app.
    assert (Hn : nth_error sigs k = Some s) by (subst sigs k; apply nth_error_mid).
    assert (IH' : forall r, nth mi (pre ++ r :: suf') 0 = muxv ->
                            run_assign sigs d (muxed_stmts field_conv mi tl (S k)) (pre ++ r :: suf') =
                            Some (pre ++ r :: unmarshal_muxed tl suf' muxv d)).
    { intros r Hr. rewrite (snoc_assoc pre r suf'), (snoc_assoc pre r (unmarshal_muxed tl suf' muxv d)).
      apply (IH (pss ++ [s]) (pre ++ [r])); auto.
      - rewrite Hsig. apply snoc_assoc.
      - rewrite snoc_length. congruence.
      - rewrite snoc_length. congruence.
      - rewrite <- snoc_assoc. exact Hr. }
    destruct (s_multiplexed s).
    + cbn [forallb] in Hs1. rewrite andb_true_r in Hs1. unfold assign_side_ok in Hs1.
      apply andb_true_iff in Hs1. destruct Hs1 as [Hs1 Hg]. cbn [run_assign andb].
      rewrite (exec_assign_demanded sigs _ k s _ d Hn Hs1). cbn [guard_holds]. rewrite Hmux.
      destruct (muxv =? s_mux_value s).
      * unfold guard_side_ok, demanded_stmt in Hg. cbn [ms_guard ms_field] in Hg.
        apply negb_true_iff, Nat.eqb_neq in Hg.
        assert (Hr : nth mi (set_nth_state k (read_field s d) (pre ++ v :: suf')) 0 = muxv)
          by (rewrite nth_set_nth_state_other by exact Hg; exact Hmux).
        assert (Hset : forall r, set_nth_state k r (pre ++ v :: suf') = pre ++ r :: suf')
          by (intros r; rewrite <- Hk2; apply set_nth_mid).
        rewrite Hset in Hr |- *. apply IH'. exact Hr.
      * apply IH'. exact Hmux.
    + cbn [run_assign andb]. apply IH'. exact Hmux.
Qed.

Lemma forallb_map_uassign (p : mstmt -> bool) l :
  forallb (fun u => match u with UAssign a => p a | UReject _ => true end) (map UAssign l) = forallb p l.
Proof. induction l as [|a l IH]; cbn; [reflexivity|rewrite IH; reflexivity]. Qed.

Theorem wiring_unmarshal_correct m w f st :
  unmarshal_wiring_ok m w = true -> length st = length (msg_signals m) ->
  wiring_unmarshal m w f st =
  Some (match unmarshal m f st with inl r => inl (r, st) | inr st' => inr st' end).
Proof.
  unfold unmarshal_wiring_ok, wiring_unmarshal. intros H Hlen.
  destruct (resolve_all (resolve_ustmt w) (w_unmarshal w)) as [l|]; [|discriminate].
  apply andb_true_iff in H. destruct H as [He Hside]. apply (list_eqb_eq _ ustmt_eqb_eq) in He. subst l.
  unfold demanded_unmarshal in *. rewrite forallb_app, andb_true_iff in Hside. destruct Hside as [_ Hside].
  rewrite (forallb_map_uassign (fun a => frame_side_ok a && guard_side_ok a)) in Hside.
  change (fun a => frame_side_ok a && guard_side_ok a) with assign_side_ok in Hside.
  unfold demanded_rejects. cbn [map app run_unmarshal rcond_holds rej_of fhdr_val hdr_val].
  unfold unmarshal, frame_check.
  destruct (negb (fr_id f =? msg_id m)); [reflexivity|].
  destruct (negb (fr_length f =? msg_length m)); [reflexivity|].
  destruct (fr_remote f); [reflexivity|].
  replace (negb ((if fr_extended f then 1 else 0) =? (if msg_extended m then 1 else 0)))
    with (negb (Bool.eqb (fr_extended f) (msg_extended m))) by (destruct (fr_extended f), (msg_extended m); reflexivity).
  destruct (negb (Bool.eqb (fr_extended f) (msg_extended m))); [reflexivity|].
  rewrite run_unmarshal_assigns. unfold demanded_body in *.
  rewrite forallb_app, andb_true_iff in Hside. destruct Hside as [Hs1 Hs2].
  rewrite run_assign_app.
  pose proof (run_assign_plain (msg_signals m) (fr_data f) (msg_signals m) [] [] st 0%nat
                eq_refl eq_refl eq_refl Hlen Hs1) as Hp.
  cbn [app] in Hp. rewrite Hp.
  destruct (mux_index m) as [mi|].
  - pose proof (run_assign_muxed (msg_signals m) (fr_data f) mi
               (nth mi (unmarshal_plain (msg_signals m) st (fr_data f)) 0) (msg_signals m) [] []
               (unmarshal_plain (msg_signals m) st (fr_data f)) 0%nat eq_refl eq_refl eq_refl
               (unmarshal_plain_length _ _ _ Hlen) eq_refl Hs2) as Hq.
    cbn [app] in Hq. rewrite Hq. reflexivity.
  - cbn [run_assign]. reflexivity.
Qed.

(** CopyFrom *)
Theorem wiring_copy_correct m w st other :
  frame_wiring_ok m w = true -> unmarshal_wiring_ok m w = true -> w_copy w = true ->
  length st = length (msg_signals m) -> length other = length (msg_signals m) ->
  wiring_copy m w st other = Some (copy_from m st other).
Proof.
  intros Hf Hu Hc H1 H2. unfold wiring_copy, copy_from. rewrite Hc.
  rewrite (wiring_frame_correct m w other Hf H2), (wiring_unmarshal_correct m w _ st Hu H1).
  destruct (unmarshal m (frame_of m other) st); reflexivity.
Qed.

(** ** Reset() *)
Lemma const_value_demanded s : const_value (signal_prim_type s) (demanded_const s) = Some (reset_value s).
Proof.
  unfold demanded_const, reset_value, signal_prim_type.
  destruct (Z.eqb_spec (s_length s) 1) as [E|E].
  - rewrite E. cbn. reflexivity.
  - destruct ((s_length s =? 32) && s_float s); [reflexivity|].
    repeat match goal with |- context [if ?c then _ else _] => destruct c end; reflexivity.
Qed.

Lemma run_reset_demanded : forall ss pre suf k,
  length pre = k -> length suf = length ss ->
  run_reset (demanded_reset ss k) (pre ++ suf) = Some (pre ++ map reset_value ss).
Proof.
  induction ss as [|s tl IH]; intros pre suf k Hk Hlen.
  - destruct suf; [reflexivity|discriminate].
  - destruct suf as [|v suf']; [discriminate|]. cbn [demanded_reset run_reset rs_ftype rs_const rs_field map].
    rewrite const_value_demanded.
    assert (Hset : set_nth_state k (reset_value s) (pre ++ v :: suf') = pre ++ reset_value s :: suf')
      by (rewrite <- Hk; apply set_nth_mid).
    rewrite Hset.
    rewrite (snoc_assoc pre (reset_value s) suf'), (snoc_assoc pre (reset_value s) (map reset_value tl)).
    apply IH; [rewrite snoc_length; congruence|cbn in Hlen; congruence].
Qed.

Lemma rstmt_eqb_eq a b : rstmt_eqb a b = true -> a = b.
Proof.
  destruct a as [f1 t1 c1], b as [f2 t2 c2]. unfold rstmt_eqb. cbn [rs_field rs_ftype rs_const].
  rewrite !andb_true_iff. intros [[H1 H2] H3]. apply Nat.eqb_eq in H1. apply prim_eqb_eq in H2. subst.
  destruct c1, c2; cbn in H3; try discriminate.
  - apply eqb_prop in H3. subst. reflexivity.
  - apply Z.eqb_eq in H3. subst. reflexivity.
Qed.

Theorem wiring_reset_correct m w st :
  reset_wiring_ok m w = true -> length st = length (msg_signals m) ->
  wiring_reset w st = Some (reset_state m).
Proof.
  unfold reset_wiring_ok, wiring_reset. intros H Hlen.
  destruct (resolve_all (resolve_reset w) (w_reset w)) as [l|]; [|discriminate].
  apply (list_eqb_eq _ rstmt_eqb_eq) in H. subst l.
  exact (run_reset_demanded (msg_signals m) [] st 0%nat eq_refl Hlen).
Qed.

(** ** setters *)
Lemma resolve_all_forall2 {A B} (f : A -> option B) : forall l l',
  resolve_all f l = Some l' -> Forall2 (fun x y => f x = Some y) l l'.
Proof.
  induction l as [|x l IH]; intros l' H; cbn in H.
  - inversion H. constructor.
  - destruct (f x) eqn:E; [|discriminate]. destruct (resolve_all f l); [|discriminate].
    inversion H; subst. constructor; [exact E|apply IH; reflexivity].
Qed.

Lemma raw_setter_value sigs k s nm v :
  nth_error sigs k = Some s -> setter_side_ok (nm, raw_setter k s) = true ->
  setter_value sigs (raw_setter k s) v = Some (raw_set_value s v).
Proof.
  intros Hn Hs. unfold setter_side_ok, setter_value, raw_setter, raw_set_value in *.
  cbn [snd rt_body rt_ftype rt_param] in *.
  destruct (s_length s =? 1).
  - cbn [ctype_eqb]. rewrite prim_eqb_refl. destruct (signal_prim_type s); cbn in Hs; try discriminate. reflexivity.
  - rewrite Hn. unfold field_conv. cbn [ctype_eqb]. rewrite prim_eqb_refl, kind_conv_ok_super. cbn [andb].
    destruct (signal_super_type s); destruct (signal_prim_type s); cbn in Hs; try discriminate; reflexivity.
Qed.
Lemma phys_setter_value sigs k s x :
  nth_error sigs k = Some s -> setter_value sigs (phys_setter k s) x = Some (phys_set_value s x).
Proof.
  intros Hn. unfold setter_value, phys_setter, phys_set_value, field_conv. cbn [rt_body rt_param rt_ftype].
  rewrite Hn, prim_eqb_refl. reflexivity.
Qed.

(** what one demanded setter is: the raw or the physical setter of one signal of the message, under its Go name *)
Definition setter_spec (sigs : list signal) (p : name * rsetter) : Prop :=
  exists i s, nth_error sigs i = Some s /\ rt_field (snd p) = i /\
    ((fst p = (if has_physical s then setraw_prefix else set_prefix) ++ s_name s /\
      forall v, setter_value sigs (snd p) v = Some (raw_set_value s v)) \/
     (has_physical s = true /\ fst p = set_prefix ++ s_name s /\
      forall x, setter_value sigs (snd p) x = Some (phys_set_value s x))).

Lemma demanded_setters_spec sigs : forall ss pss k,
  sigs = pss ++ ss -> length pss = k -> forallb setter_side_ok (demanded_setters ss k) = true ->
  Forall (setter_spec sigs) (demanded_setters ss k).
Proof.
  induction ss as [|s tl IH]; intros pss k Hsig Hk Hside; cbn [demanded_setters] in *; [constructor|].
  rewrite forallb_app, andb_true_iff in Hside. destruct Hside as [Hs1 Hs2].
  assert (Hn : nth_error sigs k = Some s) by (subst sigs k; apply nth_error_mid).
  apply Forall_app. split.
  - destruct (has_physical s) eqn:Hp.
    + cbn [forallb] in Hs1. rewrite !andb_true_iff in Hs1. destruct Hs1 as [_ [Hr _]].
      constructor; [|constructor; [|constructor]].
      * exists k, s. split; [exact Hn|]. split; [reflexivity|]. right. rewrite Hp. split; [reflexivity|]. split; [reflexivity|].
        intros x. apply phys_setter_value. exact Hn.
      * exists k, s. split; [exact Hn|]. split; [reflexivity|]. left. rewrite Hp. split; [reflexivity|].
        intros v. eapply raw_setter_value; eauto.
    + cbn [forallb] in Hs1. rewrite andb_true_r in Hs1.
      constructor; [|constructor].
      exists k, s. split; [exact Hn|]. split; [reflexivity|]. left. rewrite Hp. split; [reflexivity|].
      intros v. eapply raw_setter_value; eauto.
  - apply (IH (pss ++ [s])); auto.
    + rewrite Hsig. apply snoc_assoc.
    + rewrite snoc_length. congruence.
Qed.

Lemma name_eqb_eq : forall a b, name_eqb a b = true -> a = b.
Proof.
  induction a as [|x a IH]; intros [|y b]; cbn; try discriminate; try reflexivity.
  rewrite andb_true_iff. intros [H1 H2]. apply Z.eqb_eq in H1. apply IH in H2. subst. reflexivity.
Qed.
Lemma rsetter_eqb_eq a b : rsetter_eqb a b = true -> a = b.
Proof.
  destruct a as [n1 [f1 t1 p1 b1]], b as [n2 [f2 t2 p2 b2]]. unfold rsetter_eqb. cbn [fst snd rt_field rt_ftype rt_param rt_body].
  rewrite !andb_true_iff. intros [[[[H1 H2] H3] H4] H5].
  apply name_eqb_eq in H1. apply Nat.eqb_eq in H2. apply prim_eqb_eq in H3. apply ctype_eqb_eq in H4. subst.
  destruct b1, b2; cbn in H5; try discriminate; try reflexivity.
  - rewrite !andb_true_iff in H5. destruct H5 as [[[A B] C] D].
    apply super_eqb_eq in A. apply Nat.eqb_eq in B. apply ctype_eqb_eq in C. apply ctype_eqb_eq in D. subst. reflexivity.
  - rewrite !andb_true_iff in H5. destruct H5 as [A B]. apply Nat.eqb_eq in A. apply ctype_eqb_eq in B. subst. reflexivity.
Qed.

(** every setter method of the emitted type is the raw or the physical setter of one signal of the message, under the
    name the API gives it, and stores exactly the interpreter's value for EVERY argument and state *)
Theorem wiring_setters_correct m w :
  setters_wiring_ok m w = true ->
  Forall (fun ns => exists i s, nth_error (msg_signals m) i = Some s /\
            ((st_method ns = (if has_physical s then setraw_prefix else set_prefix) ++ s_name s /\
              forall st v, wiring_setter m w ns st v = Some (raw_set m st i v)) \/
             (has_physical s = true /\ st_method ns = set_prefix ++ s_name s /\
              forall st x, wiring_setter m w ns st x = Some (phys_set m st i x))))
         (w_setters w).
Proof.
  unfold setters_wiring_ok. intros H.
  destruct (resolve_all (resolve_setter w) (w_setters w)) as [l|] eqn:El; [|discriminate].
  apply andb_true_iff in H. destruct H as [He Hside]. apply (list_eqb_eq _ rsetter_eqb_eq) in He. subst l.
  pose proof (demanded_setters_spec (msg_signals m) (msg_signals m) [] 0%nat eq_refl eq_refl Hside) as Hspec.
  apply resolve_all_forall2 in El. clear Hside.
  revert Hspec. induction El as [|ns p l l' Hr _ IH]; intros Hspec; [constructor|].
  inversion Hspec as [|? ? Hp Hrest]; subst. constructor; [|apply IH; exact Hrest].
  destruct Hp as (i & s & Hn & Hf & Hcase). exists i, s. split; [exact Hn|].
  assert (Hm : st_method ns = fst p).
  { unfold resolve_setter in Hr.
    destruct (field_index w (st_field ns)); [|discriminate]. destruct (resolve_type w (st_param ns)); [|discriminate].
    destruct (field_type w n); [|discriminate].
    destruct (st_body ns).
    - inversion Hr. reflexivity.
    - destruct (desc_index w desc); [|discriminate]. destruct (resolve_type w cin); [|discriminate].
      destruct (resolve_type w cout); [|discriminate]. inversion Hr. reflexivity.
    - destruct (desc_index w desc); [|discriminate]. destruct (resolve_type w cout); [|discriminate]. inversion Hr. reflexivity. }
  destruct p as [nm r]. cbn [fst snd] in *.
  destruct Hcase as [[Hname Hv]|[Hp [Hname Hv]]].
  - left. split; [congruence|]. intros st v. unfold wiring_setter, raw_set. rewrite Hr, Hv, Hn, Hf. reflexivity.
  - right. split; [exact Hp|]. split; [congruence|]. intros st x. unfold wiring_setter, phys_set. rewrite Hr, Hv, Hn, Hf. reflexivity.
Qed.

(** ** getters *)
Lemma rgetter_eqb_eq a b : rgetter_eqb a b = true -> a = b.
Proof.
  destruct a as [n1 g1], b as [n2 g2]. unfold rgetter_eqb. cbn [fst snd]. rewrite andb_true_iff. intros [H1 H2].
  apply name_eqb_eq in H1. subst. destruct g1, g2; try discriminate.
  - rewrite andb_true_iff in H2. destruct H2 as [A B]. apply Nat.eqb_eq in A. apply ctype_eqb_eq in B. subst. reflexivity.
  - rewrite !andb_true_iff in H2. destruct H2 as [[[A B] C] D].
    apply Nat.eqb_eq in A. apply Nat.eqb_eq in B. apply ctype_eqb_eq in C. apply ctype_eqb_eq in D. subst. reflexivity.
Qed.

(** what one demanded getter is: the raw or the physical getter of one signal of the message, under its Go name *)
Definition getter_spec (sigs : list signal) (p : name * rgetter) : Prop :=
  exists i s, nth_error sigs i = Some s /\
    ((fst p = (if has_physical s then raw_prefix else []) ++ s_name s /\ exists r, snd p = RgField i r) \/
     (has_physical s = true /\ fst p = s_name s /\ snd p = RgPhys i i CFloat64 CFloat64)).

Lemma demanded_getters_spec sigs : forall ss pss k,
  sigs = pss ++ ss -> length pss = k -> Forall (getter_spec sigs) (demanded_getters ss k).
Proof.
  induction ss as [|s tl IH]; intros pss k Hsig Hk; cbn [demanded_getters] in *; [constructor|].
  assert (Hn : nth_error sigs k = Some s) by (subst sigs k; apply nth_error_mid).
  apply Forall_app. split.
  - destruct (has_physical s) eqn:Hp.
    + constructor; [|constructor; [|constructor]].
      * exists k, s. split; [exact Hn|]. right. split; [exact Hp|]. split; reflexivity.
      * exists k, s. split; [exact Hn|]. left. rewrite Hp. split; [reflexivity|]. eexists. reflexivity.
    + constructor; [|constructor].
      exists k, s. split; [exact Hn|]. left. rewrite Hp. split; [reflexivity|]. eexists. reflexivity.
  - apply (IH (pss ++ [s])).
    + rewrite Hsig. apply snoc_assoc.
    + rewrite snoc_length. congruence.
Qed.

(** every getter method of the emitted type is the raw getter (<Signal>, or Raw<Signal> when the signal has physical
    accessors) or the physical getter (<Signal>() float64) of the one signal it is named after, and returns the field /
    ToPhysical(float64(field)) of exactly that signal in EVERY state *)
Theorem wiring_getters_correct m w :
  getters_wiring_ok m w = true ->
  Forall (fun g => exists i s, nth_error (msg_signals m) i = Some s /\
            ((gt_method g = (if has_physical s then raw_prefix else []) ++ s_name s /\
              forall st, wiring_getter_raw w g st = Some (nth i st 0)) \/
             (has_physical s = true /\ gt_method g = s_name s /\
              forall st, wiring_getter_phys m w g st = phys_get m st i)))
         (w_getters w).
Proof.
  unfold getters_wiring_ok. intros H.
  destruct (resolve_all (resolve_getter w) (w_getters w)) as [l|] eqn:El; [|discriminate].
  apply (list_eqb_eq _ rgetter_eqb_eq) in H. subst l.
  pose proof (demanded_getters_spec (msg_signals m) (msg_signals m) [] 0%nat eq_refl eq_refl) as Hspec.
  apply resolve_all_forall2 in El.
  revert Hspec. induction El as [|g p l l' Hr _ IH]; intros Hspec; [constructor|].
  inversion Hspec as [|? ? Hp Hrest]; subst. constructor; [|apply IH; exact Hrest].
  destruct Hp as (i & s & Hn & Hcase). exists i, s. split; [exact Hn|].
  assert (Hm : gt_method g = fst p).
  { unfold resolve_getter in Hr.
    destruct (field_index w (gt_field g)); [|discriminate]. destruct (resolve_type w (gt_result g)); [|discriminate].
    destruct (gt_body g).
    - inversion Hr. reflexivity.
    - destruct (desc_index w desc); [|discriminate]. destruct (resolve_type w cin); [|discriminate]. inversion Hr. reflexivity. }
  destruct p as [nm r]. cbn [fst snd] in *.
  destruct Hcase as [[Hname [rt Hv]]|[Hp [Hname Hv]]]; subst r.
  - left. split; [congruence|]. intros st. unfold wiring_getter_raw. rewrite Hr. reflexivity.
  - right. split; [exact Hp|]. split; [congruence|]. intros st. unfold wiring_getter_phys, phys_get. rewrite Hr, Hn. reflexivity.
Qed.

(** ** the whole package: the per-message theorems hold for EVERY message of the database *)
Definition message_tied (m : message) (w : wiring) : Prop :=
  (forall st, length st = length (msg_signals m) -> wiring_frame m w st = Some (frame_of m st)) /\
  (forall f st, length st = length (msg_signals m) ->
     wiring_unmarshal m w f st = Some (match unmarshal m f st with inl r => inl (r, st) | inr st' => inr st' end)) /\
  (forall st, length st = length (msg_signals m) -> wiring_reset w st = Some (reset_state m)) /\
  (forall st other, length st = length (msg_signals m) -> length other = length (msg_signals m) ->
     wiring_copy m w st other = Some (copy_from m st other)) /\
  Forall (fun ns => exists i s, nth_error (msg_signals m) i = Some s /\
            ((st_method ns = (if has_physical s then setraw_prefix else set_prefix) ++ s_name s /\
              forall st v, wiring_setter m w ns st v = Some (raw_set m st i v)) \/
             (has_physical s = true /\ st_method ns = set_prefix ++ s_name s /\
              forall st x, wiring_setter m w ns st x = Some (phys_set m st i x)))) (w_setters w) /\
  Forall (fun g => exists i s, nth_error (msg_signals m) i = Some s /\
            ((gt_method g = (if has_physical s then raw_prefix else []) ++ s_name s /\
              forall st, wiring_getter_raw w g st = Some (nth i st 0)) \/
             (has_physical s = true /\ gt_method g = s_name s /\
              forall st, wiring_getter_phys m w g st = phys_get m st i))) (w_getters w).

Lemma message_tied_of_ok mi m w : wiring_ok_c03 mi m w = true -> wiring_ok_c10 mi m w = true -> message_tied m w.
Proof.
  unfold wiring_ok_c03, wiring_ok_c10. rewrite !andb_true_iff.
  intros [[_ Hf] Hu] [[[[[_ Hr] Hc] Hs] Hg] _]. unfold message_tied. repeat split.
  - intros st Hl. apply wiring_frame_correct; assumption.
  - intros f st Hl. apply wiring_unmarshal_correct; assumption.
  - intros st Hl. eapply wiring_reset_correct; eassumption.
  - intros st other H1 H2. apply wiring_copy_correct; assumption.
  - apply wiring_setters_correct. exact Hs.
  - apply wiring_getters_correct. exact Hg.
Qed.

Lemma find_wiring_some n ws w : find_wiring n ws = Some w ->
  filter (fun w => name_eqb (w_name w) n) ws = [w] /\ In w ws /\ w_name w = n.
Proof.
  unfold find_wiring. destruct (filter (fun w => name_eqb (w_name w) n) ws) as [|x [|y l]] eqn:E; try discriminate.
  intros H. inversion H; subst. split; [reflexivity|].
  assert (Hin : In w (filter (fun w => name_eqb (w_name w) n) ws)) by (rewrite E; left; reflexivity).
  apply filter_In in Hin. destruct Hin as [H1 H2]. split; [exact H1|apply name_eqb_eq; exact H2].
Qed.

Lemma messages_ok_nth ok ws : forall ms k mi m,
  messages_ok ok ws ms k = true -> nth_error ms mi = Some m ->
  exists w, find_wiring (msg_name m) ws = Some w /\ ok (k + mi)%nat m w = true.
Proof.
  induction ms as [|x tl IH]; intros k mi m H Hn; [destruct mi; discriminate|].
  cbn [messages_ok] in H. apply andb_true_iff in H. destruct H as [H1 H2].
  destruct mi as [|mi]; cbn [nth_error] in Hn.
  - inversion Hn; subst. destruct (find_wiring (msg_name m) ws) as [w|]; [|discriminate].
    exists w. split; [reflexivity|]. rewrite Nat.add_0_r. exact H1.
  - destruct (IH (S k) mi m H2 Hn) as (w & Hw & Hok). exists w. split; [exact Hw|].
    replace (k + S mi)%nat with (S k + mi)%nat by lia. exact Hok.
Qed.

(** accepted package: every message of the database has exactly one message type of its name, whose method bodies are
    tied to the interpreter ([message_tied]); there is no other message type; the nd table indexes the nodes in order *)
Theorem package_wiring_correct db p :
  package_wiring_ok db p = true ->
  (forall mi m, nth_error (db_messages db) mi = Some m ->
     exists w, filter (fun w => name_eqb (w_name w) (msg_name m)) (p_wirings p) = [w] /\ In w (p_wirings p) /\
               w_name w = msg_name m /\ w_msg_index w = Z.of_nat mi /\ message_tied m w) /\
  (forall w, In w (p_wirings p) -> exists m, In m (db_messages db) /\ w_name w = msg_name m).
Proof.
  unfold package_wiring_ok, package_wiring_ok_c03, package_wiring_ok_c10. rewrite !andb_true_iff.
  intros [[[H3 Hx] _] [H10 _]]. split.
  - intros mi m Hn.
    destruct (messages_ok_nth _ _ _ 0%nat mi m H3 Hn) as (w & Hw & Hok3).
    destruct (messages_ok_nth _ _ _ 0%nat mi m H10 Hn) as (w' & Hw' & Hok10).
    rewrite Hw in Hw'. inversion Hw'; subst w'. cbn [Nat.add] in *.
    destruct (find_wiring_some _ _ _ Hw) as (Hf & Hin & Hname).
    exists w. split; [exact Hf|]. split; [exact Hin|]. split; [exact Hname|]. split.
    + unfold wiring_ok_c03, decls_ok in Hok3. rewrite !andb_true_iff in Hok3.
      destruct Hok3 as [[[[Hi _] _] _] _]. apply Z.eqb_eq in Hi. exact Hi.
    + apply (message_tied_of_ok mi); assumption.
  - intros w Hin. unfold no_extra_types in Hx. rewrite forallb_forall in Hx. specialize (Hx w Hin).
    apply existsb_exists in Hx. destruct Hx as (m & Hm & He). exists m. split; [exact Hm|apply name_eqb_eq; exact He].
Qed.

(** ** the dispatcher *)
Lemma fields_ok_length w : forall ss fs, fields_ok w ss fs = true -> length fs = length ss.
Proof.
  induction ss as [|s ss IH]; intros [|[fn tn] fs] H; cbn in H; try discriminate; [reflexivity|].
  rewrite !andb_true_iff in H. destruct H as [_ H]. cbn. f_equal. apply IH. exact H.
Qed.
Lemma map_zero_eq {A B} : forall (a : list A) (b : list B), length a = length b ->
  map (fun _ => 0) a = map (fun _ => 0) b.
Proof. induction a as [|x a IH]; intros [|y b] H; cbn in *; try discriminate; [reflexivity|]. f_equal. apply IH. congruence. Qed.
Lemma opt_name_eqb_eq (a b : option name) : opt_eqb name_eqb a b = true -> a = b.
Proof. destruct a, b; cbn; try discriminate; try reflexivity. intros H. apply name_eqb_eq in H. subst. reflexivity. Qed.

Lemma run_dispatch_cases db ws f : forall ms,
  (forall m, In m ms -> exists w, find_wiring (msg_name m) ws = Some w /\
      nth_error (db_messages db) (Z.to_nat (w_msg_index w)) = Some m /\
      unmarshal_wiring_ok m w = true /\ length (w_fields w) = length (msg_signals m)) ->
  run_dispatch db ws f (map (fun m => Some (msg_name m)) ms ++ [None]) =
  Some (match find_message ms (fr_id f) with
        | None => None
        | Some m => Some (m, unmarshal m f (map (fun _ => 0) (msg_signals m)))
        end).
Proof.
  induction ms as [|m tl IH]; intros H; [reflexivity|].
  cbn [map app run_dispatch find_message].
  destruct (H m (or_introl eq_refl)) as (w & Hw & Hn & Hu & Hl). rewrite Hw, Hn.
  destruct (msg_id m =? fr_id f).
  - unfold zero_state. rewrite (map_zero_eq _ (msg_signals m) Hl).
    rewrite (wiring_unmarshal_correct m w f _ Hu) by apply map_length.
    destruct (unmarshal m f (map (fun _ => 0) (msg_signals m))); reflexivity.
  - apply IH. intros m' Hin. apply H. right. exact Hin.
Qed.

Theorem wiring_dispatch_correct db p f :
  package_wiring_ok_c03 db p = true -> dispatch_ok db p = true ->
  wiring_dispatch db p f = Some (dispatch db f).
Proof.
  unfold package_wiring_ok_c03, dispatch_ok, wiring_dispatch. rewrite !andb_true_iff. intros [[H3 _] _] Hd.
  apply (list_eqb_eq _ opt_name_eqb_eq) in Hd. rewrite Hd. unfold dispatch.
  apply run_dispatch_cases. intros m Hin.
  apply In_nth_error in Hin. destruct Hin as [mi Hn].
  destruct (messages_ok_nth _ _ _ 0%nat mi m H3 Hn) as (w & Hw & Hok). cbn [Nat.add] in Hok.
  exists w. split; [exact Hw|].
  unfold wiring_ok_c03, decls_ok in Hok. rewrite !andb_true_iff in Hok.
  destruct Hok as [[[[Hi Hf] _] _] Hu]. apply Z.eqb_eq in Hi.
  split; [rewrite Hi, Nat2Z.id; exact Hn|]. split; [exact Hu|]. apply (fields_ok_length w). exact Hf.
Qed.

(** ** enum types *)
Lemma sprintf_prefix v rest : forall t, forallb (fun c => negb (c =? 37)) t = true ->
  sprintf_one (t ++ rest) v = match sprintf_one rest v with Some r => Some (t ++ r) | None => None end.
Proof.
  induction t as [|c t IH]; intros H; cbn [app].
  - destruct (sprintf_one rest v); reflexivity.
  - cbn [forallb] in H. apply andb_true_iff in H. destruct H as [Hc Ht]. apply negb_true_iff in Hc.
    cbn [sprintf_one]. rewrite Hc, (IH Ht). destruct (sprintf_one rest v); reflexivity.
Qed.
Lemma rconst_eqb_eq a b : rconst_eqb a b = true -> a = b.
Proof.
  destruct a, b; cbn; try discriminate; intros H.
  - apply eqb_prop in H. subst. reflexivity.
  - apply Z.eqb_eq in H. subst. reflexivity.
Qed.
Lemma find_map_fst {A} (f : A -> rconst) (g : A -> name) v : forall l,
  find (fun c => case_matches (fst c) v) (map (fun x => (f x, g x)) l) =
  match find (fun x => case_matches (f x) v) l with Some x => Some (f x, g x) | None => None end.
Proof. induction l as [|x l IH]; cbn; [reflexivity|]. destruct (case_matches (f x) v); [reflexivity|exact IH]. Qed.

(** the String() of an accepted enum type: the text of the FIRST value description whose value is v (1-bit signals:
    whose value is 1 for true, anything else for false), otherwise <Msg>_<Sig>(<v in decimal>) / <Msg>_<Sig>(true|false) *)
Definition enum_string_spec (m : message) (s : signal) (v : Z) : name :=
  match find (fun vd => case_matches (case_of s vd) v) (s_value_descriptions s) with
  | Some vd => vdesc_text vd
  | None => enum_type_name m s ++ [40] ++ (if s_length s =? 1 then bool_text (negb (v =? 0)) else itoa v) ++ [41]
  end.

Lemma enum_ok_for_string m s e : enum_ok_for m s e = true ->
  e_name e = enum_type_name m s /\ forall v, enum_string e v = Some (enum_string_spec m s v).
Proof.
  unfold enum_ok_for. rewrite !andb_true_iff. intros [[[[[[Hn Hp] _] _] _] Hc] Hd].
  apply name_eqb_eq in Hn. split; [exact Hn|]. intros v.
  apply (list_eqb_eq (fun a b => rconst_eqb (fst a) (fst b) && name_eqb (snd a) (snd b))) in Hc.
  2:{ intros [a1 a2] [b1 b2]. cbn [fst snd]. rewrite andb_true_iff. intros [A B].
      apply rconst_eqb_eq in A. apply name_eqb_eq in B. subst. reflexivity. }
  apply name_eqb_eq in Hd. unfold enum_string, enum_string_spec. rewrite Hc, Hd, find_map_fst.
  destruct (find (fun vd => case_matches (case_of s vd) v) (s_value_descriptions s)); [reflexivity|].
  rewrite (sprintf_prefix v _ _ Hp). destruct (s_length s =? 1); reflexivity.
Qed.

Theorem enums_correct db p :
  enums_ok db p = true ->
  (forall m s, In m (db_messages db) -> In s (msg_signals m) -> has_custom_type s = true ->
     exists e, filter (fun e => name_eqb (e_name e) (enum_type_name m s)) (p_enums p) = [e] /\
               e_name e = enum_type_name m s /\ forall v, enum_string e v = Some (enum_string_spec m s v)) /\
  (forall e, In e (p_enums p) -> exists m s, In m (db_messages db) /\ In s (msg_signals m) /\
                                             has_custom_type s = true /\ e_name e = enum_type_name m s).
Proof.
  unfold enums_ok. rewrite andb_true_iff. intros [H1 H2]. split.
  - intros m s Hm Hs Hc. rewrite forallb_forall in H1. specialize (H1 m Hm).
    rewrite forallb_forall in H1. specialize (H1 s Hs). unfold signal_enum_ok in H1. rewrite Hc in H1.
    unfold find_enum in H1.
    destruct (filter (fun e => name_eqb (e_name e) (enum_type_name m s)) (p_enums p)) as [|e [|e' l]]; try discriminate.
    exists e. split; [reflexivity|]. apply enum_ok_for_string. exact H1.
  - intros e He. rewrite forallb_forall in H2. specialize (H2 e He).
    apply existsb_exists in H2. destruct H2 as (m & Hm & H2). apply existsb_exists in H2. destruct H2 as (s & Hs & H2).
    apply andb_true_iff in H2. destruct H2 as [Hc Hn]. exists m, s. repeat split; try assumption. apply name_eqb_eq. exact Hn.
Qed.

(** ** generated node types (C11) *)
Lemma first_case_map id : forall ms,
  first_case (map (fun m => (msg_id m, msg_name m)) ms) id =
  match find_message ms id with Some m => Some (msg_name m) | None => None end.
Proof. induction ms as [|m tl IH]; cbn; [reflexivity|]. destruct (msg_id m =? id); [reflexivity|exact IH]. Qed.

Lemma nodegen_ok_correct db n ng : nodegen_ok db n ng = true ->
  ng_name ng = node_name n /\ ng_desc ng = node_name n /\
  (forall id, wiring_received ng id =
              Some (match find_message (collect_rx db n) id with Some m => Some (msg_name m) | None => None end)) /\
  wiring_transmitted ng = Some (map msg_name (collect_tx db n)).
Proof.
  unfold nodegen_ok. rewrite !andb_true_iff. intros [[[[[[[[[[Hn Hd] _] _] _] _] _] _] Hdef] Hr] Ht].
  apply name_eqb_eq in Hn. apply name_eqb_eq in Hd. split; [exact Hn|]. split; [exact Hd|].
  unfold wiring_received, wiring_transmitted. rewrite Hdef.
  destruct (resolved_received ng) as [l|]; [|discriminate]. cbn [opt_eqb] in Hr.
  apply (list_eqb_eq (fun a b => (fst a =? fst b) && name_eqb (snd a) (snd b))) in Hr.
  2:{ intros [a1 a2] [b1 b2]. cbn [fst snd]. rewrite andb_true_iff. intros [A B].
      apply Z.eqb_eq in A. apply name_eqb_eq in B. subst. reflexivity. }
  destruct (resolved_transmitted ng) as [l2|]; [|discriminate]. cbn [opt_eqb] in Ht.
  apply (list_eqb_eq _ name_eqb_eq) in Ht. subst. split; [|reflexivity].
  intros id. rewrite first_case_map. reflexivity.
Qed.

Theorem nodes_wiring_correct db p :
  nodes_wiring_ok db p = true ->
  (has_send_type db = false -> p_nodegens p = []) /\
  (has_send_type db = true ->
   Forall2 (fun n ng =>
      ng_name ng = node_name n /\ ng_desc ng = node_name n /\
      (forall id, wiring_received ng id =
                  Some (match find_message (collect_rx db n) id with Some m => Some (msg_name m) | None => None end)) /\
      wiring_transmitted ng = Some (map msg_name (collect_tx db n))) (db_nodes db) (p_nodegens p)).
Proof.
  unfold nodes_wiring_ok. intros H. split; intros Hs; rewrite Hs in H.
  - destruct (p_nodegens p); [reflexivity|discriminate].
  - generalize dependent (p_nodegens p). induction (db_nodes db) as [|n ns IH]; intros [|ng l] H; cbn in H; try discriminate.
    + constructor.
    + apply andb_true_iff in H. destruct H as [H1 H2]. constructor; [apply nodegen_ok_correct; exact H1|apply IH; exact H2].
Qed.

(** ** link to C11's model of the enum String() (Gen/Api.v [enum_string]) *)
Lemma prim_bool_iff_len1 s : (s_length s =? 1) = true -> signal_prim_type s = PBool.
Proof.
  intros H. apply Z.eqb_eq in H. unfold signal_prim_type. rewrite H. reflexivity.
Qed.
Lemma prim_not_bool s : (s_length s =? 1) = false -> signal_prim_type s <> PBool.
Proof.
  intros H. unfold signal_prim_type. rewrite H.
  repeat match goal with |- context [if ?c then _ else _] => destruct c end; discriminate.
Qed.
Lemma lookup_text_find s v : (s_length s =? 1) = false -> forall vds,
  lookup_text (map (fun vd => (vdesc_value vd, vdesc_text vd)) vds) v =
  match find (fun vd => case_matches (case_of s vd) v) vds with Some vd => Some (vdesc_text vd) | None => None end.
Proof.
  intros H. induction vds as [|vd tl IH]; cbn; [reflexivity|]. unfold case_of at 1. rewrite H. cbn [case_matches].
  destruct (vdesc_value vd =? v); [reflexivity|exact IH].
Qed.
Lemma lookup_text_bool_find s v : (s_length s =? 1) = true -> forall vds,
  lookup_text_bool (map (fun vd => (vdesc_value vd, vdesc_text vd)) vds) (negb (v =? 0)) =
  match find (fun vd => case_matches (case_of s vd) v) vds with Some vd => Some (vdesc_text vd) | None => None end.
Proof.
  intros H. induction vds as [|vd tl IH]; cbn; [reflexivity|]. unfold case_of at 1. rewrite H. cbn [case_matches].
  destruct (Bool.eqb (vdesc_value vd =? 1) (negb (v =? 0))); [reflexivity|exact IH].
Qed.
Theorem enum_string_spec_is_api hp m s v :
  has_custom_type s = true -> enum_string_spec m s v = Api.enum_string (signal_api_with hp m s) v.
Proof.
  intros Hc. unfold enum_string_spec, Api.enum_string, signal_api_with.
  cbn [sa_enum sa_prim sa_texts]. rewrite Hc.
  destruct (s_length s =? 1) eqn:E.
  - rewrite (prim_bool_iff_len1 s E), (lookup_text_bool_find s v E).
    destruct (find (fun vd => case_matches (case_of s vd) v) (s_value_descriptions s)); [reflexivity|].
    destruct (v =? 0); reflexivity.
  - pose proof (prim_not_bool s E) as Hn. rewrite (lookup_text_find s v E).
    destruct (signal_prim_type s); try congruence;
      (destruct (find (fun vd => case_matches (case_of s vd) v) (s_value_descriptions s)); reflexivity).
Qed.
