(** C10: the range invariant over all operation histories; valid frames; copy; reset. *)
From Coq Require Import ZArith List Bool Lia.
From CanVerif Require Import Base.Bits Can.Data Can.DataSpec Can.CheckProofs Can.DataProofs
  Descriptor.Types Gen.Message Gen.MessageProofs Gen.History Gen.Layout Gen.LayoutProofs Gen.RoundTrip.
Import ListNotations.
Open Scope Z_scope.
Ltac Zify.zify_post_hook ::= Z.div_mod_to_equations.

(** declared start values lie in the raw range (DESIGN.md 4.3) *)
Definition wf_defaults (m : message) : Prop :=
  Forall (fun s => in_range s (reset_value s) = true) (msg_signals m).
(** the message header is a valid CAN header *)
Definition wf_header (m : message) : Prop :=
  (if msg_extended m then 0 <= msg_id m <= 0x1FFFFFFF else 0 <= msg_id m <= 0x7FF) /\ 0 <= msg_length m <= 8.

Lemma reset_inv m : wf_defaults m -> inv (msg_signals m) (reset_state m) = true.
Proof.
  unfold wf_defaults, reset_state. induction (msg_signals m) as [|s ss IH]; intros H; [reflexivity|].
  inversion H; subst. cbn. apply andb_true_iff. split; [assumption|apply IH; assumption].
Qed.

(** an argument of the accessor's Go type *)
Definition arg_ok (s : signal) (v : Z) : Prop :=
  match signal_prim_type s with PFloat32 => 0 <= v < 2 ^ 32 | _ => True end.

Lemma f32_sat_range v : 0 <= v < 2 ^ 32 -> 0 <= f32_sat v < 2 ^ 32.
Proof.
  intros Hv. unfold f32_sat. destruct (f32_is_nan v); [apply f32_quiet_range; exact Hv|].
  destruct (v =? 2139095040); [change (2 ^ 32) with 4294967296; lia|].
  destruct (v =? 4286578688); [change (2 ^ 32) with 4294967296; lia|exact Hv].
Qed.

Lemma clamp_range lo hi v : lo <= hi -> lo <= clamp lo hi v <= hi.
Proof. intros. unfold clamp. destruct (Z.ltb_spec v lo); [lia|]. destruct (Z.ltb_spec hi v); lia. Qed.

Lemma raw_set_value_in_range s v : wf_signal s -> arg_ok s v -> in_range s (raw_set_value s v) = true.
Proof.
  intros Hwf Harg. pose proof Hwf as (Hl & Hf & _). unfold raw_set_value, in_range, arg_ok in *.
  destruct (super_prim_cases s Hwf) as [(Es & Ep & EL)|[(Es & Ep & EL)|[(Es & (b & Ep & Hb) & EL & Esg)|(Es & (b & Ep & Hb) & EL & Esg)]]];
    rewrite Es, Ep in *.
  - rewrite EL. cbn [Z.eqb Pos.eqb]. pose proof (f32_sat_range v Harg).
    apply andb_true_iff. split; [apply Z.leb_le|apply Z.ltb_lt]; lia.
  - rewrite EL. cbn [Z.eqb Pos.eqb]. destruct (v =? 0); reflexivity.
  - replace (s_length s =? 1) with false by (symmetry; apply Z.eqb_neq; exact EL).
    unfold raw_lo, raw_hi. rewrite Esg.
    pose proof (pow2_pos (s_length s - 1) ltac:(lia)).
    pose proof (clamp_range (- 2 ^ (s_length s - 1)) (2 ^ (s_length s - 1) - 1) v ltac:(lia)).
    pose proof (pow2_mono (s_length s - 1) (b - 1) ltac:(lia)).
    unfold to_prim. rewrite wrap_signed_id by lia. apply andb_true_iff. split; apply Z.leb_le; lia.
  - replace (s_length s =? 1) with false by (symmetry; apply Z.eqb_neq; exact EL).
    unfold raw_lo, raw_hi. rewrite Esg.
    pose proof (pow2_pos (s_length s) ltac:(lia)).
    pose proof (clamp_range 0 (2 ^ s_length s - 1) v ltac:(lia)).
    pose proof (pow2_mono (s_length s) b ltac:(lia)).
    unfold to_prim. rewrite Z.mod_small by lia. apply andb_true_iff. split; apply Z.leb_le; lia.
Qed.

Lemma set_nth_state_inv ss : forall st i s x,
  inv ss st = true -> nth_error ss i = Some s -> in_range s x = true -> inv ss (set_nth_state i x st) = true.
Proof.
  induction ss as [|y ss IH]; intros [|v st] [|i] s x H Hn Hr; cbn in *; try discriminate.
  - inversion Hn; subst. apply andb_true_iff in H. apply andb_true_iff. split; [exact Hr|apply H].
  - apply andb_true_iff in H. destruct H as [H1 H2]. apply andb_true_iff. split; [exact H1|eapply IH; eassumption].
Qed.

Lemma raw_set_inv m st i v :
  Forall wf_signal (msg_signals m) -> inv (msg_signals m) st = true ->
  (forall s, nth_error (msg_signals m) i = Some s -> arg_ok s v) ->
  inv (msg_signals m) (raw_set m st i v) = true.
Proof.
  intros Hwf Hinv Harg. unfold raw_set. destruct (nth_error (msg_signals m) i) as [s|] eqn:E; [|exact Hinv].
  eapply set_nth_state_inv; [exact Hinv|exact E|].
  apply raw_set_value_in_range; [|apply Harg; reflexivity].
  rewrite Forall_forall in Hwf. apply Hwf. eapply nth_error_In. exact E.
Qed.

Definition valid_frame_data (f : frame) : Prop := valid_data (fr_data f).

Lemma copy_from_spec m st other :
  wf_message m -> wf_mux m -> inv (msg_signals m) st = true -> inv (msg_signals m) other = true ->
  inv (msg_signals m) (copy_from m st other) = true /\ frame_of m (copy_from m st other) = frame_of m other.
Proof.
  intros Hwf Hmux Hinv Hinvo. unfold copy_from.
  destruct (reencode m other st Hwf Hmux Hinvo Hinv) as (st' & E & Hinv' & Ef). rewrite E. auto.
Qed.

(** self-copy m.CopyFrom(m) (or a reader that aliases the receiver): the source is marshalled before anything is
    assigned, so the frame is unchanged *)
Lemma copy_from_self m st :
  wf_message m -> wf_mux m -> inv (msg_signals m) st = true ->
  inv (msg_signals m) (copy_from m st st) = true /\ frame_of m (copy_from m st st) = frame_of m st.
Proof. intros Hwf Hmux Hinv. apply copy_from_spec; assumption. Qed.

(** argument well-formedness of an operation *)
Definition op_ok (m : message) (o : op) : Prop :=
  match o with
  | OpUnmarshal f => valid_frame_data f
  | OpSetRaw i v => forall s, nth_error (msg_signals m) i = Some s -> arg_ok s v
  | _ => True
  end.

Theorem step_inv m this other o :
  wf_message m -> wf_mux m -> wf_defaults m -> op_ok m o ->
  inv (msg_signals m) this = true -> inv (msg_signals m) other = true ->
  inv (msg_signals m) (snd (step m this other o)) = true.
Proof.
  intros Hwf Hmux Hdef Hok Hi Ho. destruct o; cbn [step snd].
  - apply reset_inv. exact Hdef.
  - apply reset_inv. exact Hdef.
  - destruct (unmarshal m f this) as [r|st'] eqn:E; cbn [snd]; [exact Hi|].
    eapply unmarshal_inv; [apply Hwf|exact Hok|exact Hi|exact E].
  - apply raw_set_inv; [apply Hwf|exact Hi|exact Hok].
  - apply copy_from_spec; assumption.
Qed.

(** histories over two instances A (false) and B (true) of one message *)
Fixpoint run (m : message) (ops : list (bool * op)) (ab : state * state) : state * state :=
  match ops with
  | [] => ab
  | (who, o) :: tl =>
      let '(a, b) := ab in
      if who then run m tl (a, snd (step m b a o)) else run m tl (snd (step m a b o), b)
  end.

Theorem run_inv m ops : forall a b,
  wf_message m -> wf_mux m -> wf_defaults m -> Forall (fun wo => op_ok m (snd wo)) ops ->
  inv (msg_signals m) a = true -> inv (msg_signals m) b = true ->
  inv (msg_signals m) (fst (run m ops (a, b))) = true /\ inv (msg_signals m) (snd (run m ops (a, b))) = true.
Proof.
  induction ops as [|[who o] ops IH]; intros a b Hwf Hmux Hdef Hops Ha Hb; cbn [run]; [auto|].
  inversion Hops as [|? ? Ho Hops']; subst. cbn [snd] in Ho.
  destruct who.
  - apply IH; try assumption. apply step_inv; assumption.
  - apply IH; try assumption. apply step_inv; assumption.
Qed.

(** every state satisfying the invariant produces a valid frame *)
Theorem frame_valid_of_inv m st : wf_header m -> frame_valid (frame_of m st) = true.
Proof.
  intros [Hid Hlen]. unfold frame_valid, frame_of. cbn [fr_extended fr_id fr_length].
  apply andb_true_iff. split; [|apply Z.leb_le; lia].
  destruct (msg_extended m); apply Z.leb_le; lia.
Qed.

(** every reachable state: valid frame, re-encoding identity *)
Corollary reachable_ok m ops :
  wf_message m -> wf_mux m -> wf_defaults m -> wf_header m -> Forall (fun wo => op_ok m (snd wo)) ops ->
  let '(a, b) := run m ops (new_state m, new_state m) in
  inv (msg_signals m) a = true /\ inv (msg_signals m) b = true /\
  frame_valid (frame_of m a) = true /\ frame_valid (frame_of m b) = true /\
  (exists a', unmarshal m (frame_of m a) (new_state m) = inr a' /\ frame_of m a' = frame_of m a).
Proof.
  intros Hwf Hmux Hdef Hhdr Hops.
  pose proof (run_inv m ops (new_state m) (new_state m) Hwf Hmux Hdef Hops (reset_inv m Hdef) (reset_inv m Hdef)) as [Ha Hb].
  destruct (run m ops (new_state m, new_state m)) as [a b]. cbn [fst snd] in Ha, Hb.
  repeat split; try assumption; try (apply frame_valid_of_inv; assumption).
  destruct (reencode m a (new_state m) Hwf Hmux Ha (reset_inv m Hdef)) as (a' & E & _ & Ef). eauto.
Qed.

(** * decidable layout check (for concrete messages) *)
Definition disjointb (w1 w2 : write) : bool :=
  forallb (fun k => negb (covers w1 k && covers w2 k)) (map Z.of_nat (seq 0 64)).

Lemma disjointb_sound w1 w2 : disjointb w1 w2 = true -> disjoint w1 w2.
Proof.
  unfold disjointb. rewrite forallb_forall. intros H k Hk Hc.
  assert (Hin : In k (map Z.of_nat (seq 0 64))).
  { apply in_map_iff. exists (Z.to_nat k). split; [lia|]. apply in_seq. lia. }
  specialize (H k Hin). rewrite Hc in H. cbn [andb] in H. apply negb_true_iff in H. exact H.
Qed.

Definition compatb (s1 s2 : signal) : bool :=
  (s_multiplexed s1 && s_multiplexed s2 && negb (s_mux_value s1 =? s_mux_value s2)) ||
  disjointb (write_of s1 0) (write_of s2 0).

Lemma compatb_sound s1 s2 : compatb s1 s2 = true -> compat s1 s2.
Proof.
  unfold compatb, compat. intros H. apply orb_true_iff in H. destruct H as [H|H].
  - left. apply andb_true_iff in H. destruct H as [H H3]. apply andb_true_iff in H. destruct H as [H1 H2].
    apply negb_true_iff in H3. apply Z.eqb_neq in H3. auto.
  - right. apply disjointb_sound. exact H.
Qed.

Fixpoint fopb {A} (r : A -> A -> bool) (l : list A) : bool :=
  match l with [] => true | x :: tl => forallb (r x) tl && fopb r tl end.
Lemma fopb_sound {A} (r : A -> A -> bool) (R : A -> A -> Prop) l :
  (forall a b, r a b = true -> R a b) -> fopb r l = true -> ForallOrdPairs R l.
Proof.
  intros Hs. induction l as [|x tl IH]; cbn [fopb]; intros H; [constructor|].
  apply andb_true_iff in H. destruct H as [H1 H2]. constructor; [|apply IH; exact H2].
  rewrite forallb_forall in H1. apply Forall_forall. intros y Hy. apply Hs. apply H1. exact Hy.
Qed.

(** * Reset restores the declared start values *)
Theorem reset_restores m this other :
  snd (step m this other OpReset) = map reset_value (msg_signals m) /\
  snd (step m this other OpNew) = map reset_value (msg_signals m).
Proof. split; reflexivity. Qed.

(** * payload bytes at and beyond the message length stay zero when every signal lies inside the
      first [msg_length] bytes *)
Definition fits_message (m : message) : Prop :=
  forall s v k, In s (msg_signals m) -> 0 <= k < 64 -> covers (write_of s v) k = true -> k < 8 * msg_length m.

Theorem frame_zero_beyond_length m st k :
  wf_message m -> fits_message m -> inv (msg_signals m) st = true -> 0 <= msg_length m ->
  8 * msg_length m <= k < 64 -> pbit (fr_data (frame_of m st)) k = false.
Proof.
  intros Hwf Hfit Hinv Hlen Hk. rewrite frame_bits by (assumption || lia).
  destruct (find (fun w => covers w k) (active_writes m st)) as [w|] eqn:F; [|reflexivity].
  exfalso. apply find_some in F. destruct F as [Hin Hc].
  unfold active_writes in Hin. apply in_app_or in Hin.
  assert (Hsrc : exists s v, In s (msg_signals m) /\ w = write_of s v).
  { destruct Hin as [Hin|Hin].
    - apply in_map_iff in Hin. destruct Hin as ([s v] & <- & Hf). apply filter_In in Hf. destruct Hf as [Hf _].
      apply in_combine_l in Hf. exists s, v. split; [exact Hf|reflexivity].
    - destruct (mux_value_of m st); [|destruct Hin].
      apply in_map_iff in Hin. destruct Hin as ([s v] & <- & Hf). apply filter_In in Hf. destruct Hf as [Hf _].
      apply in_combine_l in Hf. exists s, v. split; [exact Hf|reflexivity]. }
  destruct Hsrc as (s & v & Hs & ->).
  specialize (Hfit s v k Hs ltac:(lia) Hc). lia.
Qed.
