(** Proofs about the descriptor interpreter (C03). *)
From Coq Require Import ZArith List Bool Lia.
From CanVerif Require Import Base.Bits Can.Data Can.DataSpec Can.CheckProofs Can.DataProofs Descriptor.Types Gen.Message.
Import ListNotations.
Open Scope Z_scope.

(** ** rejection: a frame with another ID, another length, the remote flag or the other ID format
    is rejected, and nothing else is *)
Lemma frame_check_none m f :
  frame_check m f = None <->
  fr_id f = msg_id m /\ fr_length f = msg_length m /\ fr_remote f = false /\ fr_extended f = msg_extended m.
Proof.
  unfold frame_check.
  destruct (Z.eqb_spec (fr_id f) (msg_id m)) as [E1|E1]; cbn [negb].
  2:{ split; [discriminate|]. intros (H & _). contradiction. }
  destruct (Z.eqb_spec (fr_length f) (msg_length m)) as [E2|E2]; cbn [negb].
  2:{ split; [discriminate|]. intros (_ & H & _). contradiction. }
  destruct (fr_remote f) eqn:E3.
  { split; [discriminate|]. intros (_ & _ & H & _). discriminate. }
  destruct (Bool.eqb (fr_extended f) (msg_extended m)) eqn:E4; cbn [negb].
  - apply eqb_prop in E4. split; auto.
  - split; [discriminate|]. intros (_ & _ & _ & H). rewrite H, eqb_reflx in E4. discriminate.
Qed.

Theorem unmarshal_rejects m f st :
  ~ (fr_id f = msg_id m /\ fr_length f = msg_length m /\ fr_remote f = false /\ fr_extended f = msg_extended m) ->
  exists r, unmarshal m f st = inl r.
Proof.
  intros H. unfold unmarshal. destruct (frame_check m f) as [r|] eqn:E; [eauto|].
  apply frame_check_none in E. contradiction.
Qed.

Theorem unmarshal_accepts m f st :
  fr_id f = msg_id m -> fr_length f = msg_length m -> fr_remote f = false -> fr_extended f = msg_extended m ->
  exists st', unmarshal m f st = inr st'.
Proof.
  intros H1 H2 H3 H4. unfold unmarshal.
  assert (E : frame_check m f = None) by (apply frame_check_none; auto). rewrite E. eauto.
Qed.

(** ** frame header *)
Theorem frame_of_header m st :
  let f := frame_of m st in
  fr_id f = msg_id m /\ fr_length f = msg_length m /\ fr_extended f = msg_extended m /\ fr_remote f = false.
Proof. cbv zeta. unfold frame_of. cbn. auto. Qed.

(** ** dispatcher: returns the first message registered for the frame's ID *)
Lemma find_message_some ms id m : find_message ms id = Some m -> In m ms /\ msg_id m = id.
Proof.
  induction ms as [|x xs IH]; cbn [find_message]; [discriminate|].
  destruct (Z.eqb_spec (msg_id x) id) as [E|E].
  - intros H. inversion H; subst. split; [left; reflexivity|reflexivity].
  - intros H. destruct (IH H). split; [right; assumption|assumption].
Qed.

Lemma find_message_none ms id : find_message ms id = None -> forall m, In m ms -> msg_id m <> id.
Proof.
  induction ms as [|x xs IH]; cbn [find_message]; [intros _ m []|].
  destruct (Z.eqb_spec (msg_id x) id) as [E|E]; [discriminate|].
  intros H m [->|Hin]; [exact E|exact (IH H m Hin)].
Qed.

Theorem dispatch_spec db f :
  match dispatch db f with
  | Some (m, _) => In m (db_messages db) /\ msg_id m = fr_id f
  | None => forall m, In m (db_messages db) -> msg_id m <> fr_id f
  end.
Proof.
  unfold dispatch. destruct (find_message (db_messages db) (fr_id f)) as [m|] eqn:E.
  - apply find_message_some in E. exact E.
  - apply find_message_none. exact E.
Qed.
