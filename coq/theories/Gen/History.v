(** Operation histories over a generated message (C10): construction, reset, raw setters,
    copy-from, unmarshal; physical setters are composed in Gen/HistoryPhys.v (needs floats).
    The setters are the generated ones (internal/generate/file.go:261-296). DEFINITIONS ONLY. *)
From Coq Require Import ZArith List Bool.
From CanVerif Require Import Can.Data Descriptor.Types Gen.Message.
Import ListNotations.
Open Scope Z_scope.

(** representable raw range of an integer signal (descriptor.Signal.MinSigned/MaxSigned/MaxUnsigned
    after the fix of DESIGN.md F3) *)
Definition raw_lo (s : signal) : Z := if s_signed s then - 2 ^ (s_length s - 1) else 0.
Definition raw_hi (s : signal) : Z := if s_signed s then 2 ^ (s_length s - 1) - 1 else 2 ^ s_length s - 1.

(** SaturatedCastFloat on a binary32 pattern followed by float32(): NaN stays NaN (quieted by the
    float32->float64->float32 conversions), +-Inf saturate to +-MaxFloat32, finite values unchanged *)
Definition f32_sat (b : Z) : Z :=
  if f32_is_nan b then f32_quiet b
  else if b =? 0x7F800000 then 0x7F7FFFFF
  else if b =? 0xFF800000 then 0xFF7FFFFF
  else b.

Definition clamp (lo hi v : Z) : Z := if v <? lo then lo else if hi <? v then hi else v.

(** generated raw setter: [v] is a value of the accessor's Go type *)
Definition raw_set_value (s : signal) (v : Z) : Z :=
  if s_length s =? 1 then (if v =? 0 then 0 else 1)
  else match signal_super_type s with
       | StFloat => f32_sat v
       | StBool => v
       | StSigned => to_prim (signal_prim_type s) (clamp (raw_lo s) (raw_hi s) v)
       | StUnsigned => to_prim (signal_prim_type s) (clamp 0 (raw_hi s) v)
       end.

Fixpoint set_nth_state (n : nat) (v : Z) (st : state) : state :=
  match st, n with
  | [], _ => []
  | _ :: t, O => v :: t
  | h :: t, S n' => h :: set_nth_state n' v t
  end.

Definition raw_set (m : message) (st : state) (i : nat) (v : Z) : state :=
  match nth_error (msg_signals m) i with
  | Some s => set_nth_state i (raw_set_value s v) st
  | None => st
  end.

(** frame.go Validate *)
Definition frame_valid (f : frame) : bool :=
  (if fr_extended f then fr_id f <=? 0x1FFFFFFF else fr_id f <=? 0x7FF) && (fr_length f <=? 8).

(** field value inside the representable range of its signal *)
Definition in_range (s : signal) (v : Z) : bool :=
  match signal_prim_type s with
  | PBool => (v =? 0) || (v =? 1)
  | PFloat32 => (0 <=? v) && (v <? 2 ^ 32)
  | _ => (raw_lo s <=? v) && (v <=? raw_hi s)
  end.
Fixpoint inv (ss : list signal) (st : state) : bool :=
  match ss, st with
  | [], [] => true
  | s :: ss', v :: st' => in_range s v && inv ss' st'
  | _, _ => false
  end.

(** operations on two instances A (false) and B (true) of one message *)
Inductive op :=
| OpNew | OpReset
| OpUnmarshal (f : frame)
| OpSetRaw (i : nat) (v : Z)
| OpCopy.      (* this.CopyFrom(other) *)

(** returns (ok?, new state of this instance); the other instance is never changed *)
Definition step (m : message) (this other : state) (o : op) : bool * state :=
  match o with
  | OpNew | OpReset => (true, reset_state m)
  | OpUnmarshal f => match unmarshal m f this with inl _ => (false, this) | inr st => (true, st) end
  | OpSetRaw i v => (true, raw_set m this i v)
  | OpCopy => (true, copy_from m this other)
  end.
