(** Physical setters in operation histories (C10): the generated Set<Signal>(float64) stores
    T(FromPhysical(v)); composed with the saturation theorem of C09 the range invariant holds
    over all histories that include physical setters. Uses Flocq through Descriptor/Physical.v. *)
From Coq Require Import ZArith List Bool Lia.
From Flocq Require Import BinarySingleNaN.
From CanVerif Require Import Can.Data Descriptor.Types Descriptor.Signal Descriptor.Physical
  Descriptor.PhysicalProofs Gen.Message Gen.MessageProofs Gen.History Gen.Layout Gen.LayoutProofs
  Gen.RoundTrip Gen.HistoryProofs.
Import ListNotations.
Open Scope Z_scope.

(** the value the generated physical setter stores for argument [x] (binary64 bit pattern) *)
Definition phys_set_value (s : signal) (xbits : Z) : Z :=
  to_prim (signal_prim_type s) (setter_raw s (f64_of_bits xbits)).

Definition phys_set (m : message) (st : state) (i : nat) (xbits : Z) : state :=
  match nth_error (msg_signals m) i with
  | Some s => set_nth_state i (phys_set_value s xbits) st
  | None => st
  end.

(** the generated physical getter <Signal>() on field [i]: desc.ToPhysical(float64(m.x)), where desc is the
    descriptor of signal [i] OF THIS MESSAGE (the generated code reaches it as Messages().<Msg>.<Signal>;
    that this wiring names signal [i]'s own descriptor is compared on the built packages by the
    generated-code stage of C09) *)
Definition phys_get (m : message) (st : state) (i : nat) : option f64 :=
  match nth_error (msg_signals m) i with
  | Some s => Some (getter_physical s (nth i st 0))
  | None => None
  end.

(** operations including physical setters *)
Inductive opx := Base (o : op) | OpSetPhys (i : nat) (xbits : Z).

Definition stepx (m : message) (this other : state) (o : opx) : bool * state :=
  match o with
  | Base o => step m this other o
  | OpSetPhys i x => (true, phys_set m this i x)
  end.

(** a signal with physical accessors in the supported class (DESIGN.md 4.3): multi-bit integer
    signal of at most 52 bits whose scaling is in the class of C09; the argument is not NaN *)
Definition phys_ok (s : signal) (xbits : Z) : Prop :=
  s_float s = false /\ 2 <= s_length s <= 52 /\
  c09_class_f (sc s) (off s) (smin s) (smax s) = true /\
  is_nan (f64_of_bits xbits) = false.

(** decidable form used by the correspondence driver *)
Definition phys_okb (s : signal) (xbits : Z) : bool :=
  negb (s_float s) && (2 <=? s_length s) && (s_length s <=? 52) &&
  c09_class_f (sc s) (off s) (smin s) (smax s) && negb (is_nan (f64_of_bits xbits)).

Lemma phys_okb_spec s x : phys_okb s x = true -> phys_ok s x.
Proof.
  unfold phys_okb, phys_ok. rewrite !andb_true_iff, !negb_true_iff, !Z.leb_le. intuition.
Qed.

Definition opx_ok (m : message) (o : opx) : Prop :=
  match o with
  | Base o => op_ok m o
  | OpSetPhys i x => forall s, nth_error (msg_signals m) i = Some s -> phys_ok s x
  end.

Lemma phys_set_value_in_range s x : wf_signal s -> phys_ok s x -> in_range s (phys_set_value s x) = true.
Proof.
  intros Hwf (Hnf & Hl & Hcls & Hnan).
  pose proof (from_physical_saturates_b (sc s) (off s) (smin s) (smax s) (s_signed s) (s_length s)
                (f64_of_bits x) Hcls ltac:(lia) Hnan) as Hsat.
  cbv zeta in Hsat. destruct Hsat as (_ & _ & _ & _ & Hr).
  change (setter_raw_f (sc s) (off s) (smin s) (smax s) (s_signed s) (s_length s) (f64_of_bits x))
    with (setter_raw s (f64_of_bits x)) in Hr.
  unfold phys_set_value, in_range.
  destruct (super_prim_cases s Hwf) as [(Es & Ep & EL)|[(Es & Ep & EL)|[(Es & (b & Ep & Hb) & EL & Esg)|(Es & (b & Ep & Hb) & EL & Esg)]]].
  - unfold signal_prim_type in Ep. rewrite Hnf, andb_false_r in Ep.
    destruct (s_length s =? 1); [discriminate|].
    repeat match type of Ep with (if ?c then _ else _) = _ => destruct c end; discriminate.
  - lia.
  - rewrite Ep. unfold PhysicalProofs.raw_lo, PhysicalProofs.raw_hi in Hr. rewrite Esg in Hr.
    unfold History.raw_lo, History.raw_hi. rewrite Esg. unfold to_prim.
    pose proof (pow2_mono (s_length s - 1) (b - 1) ltac:(lia)).
    rewrite wrap_signed_id by lia. apply andb_true_iff. split; apply Z.leb_le; lia.
  - rewrite Ep. unfold PhysicalProofs.raw_lo, PhysicalProofs.raw_hi in Hr. rewrite Esg in Hr.
    unfold History.raw_lo, History.raw_hi. rewrite Esg. unfold to_prim.
    pose proof (pow2_mono (s_length s) b ltac:(lia)). pose proof (pow2_pos (s_length s) ltac:(lia)).
    rewrite Z.mod_small by lia. apply andb_true_iff. split; apply Z.leb_le; lia.
Qed.

(** physical accessors are local to their signal: Set<Signal>(x) changes field [i] only, to a function of
    signal [i]'s own descriptor and [x]; <Signal>() afterwards is ToPhysical of exactly that raw value; the
    raw and physical getters of every other signal are unchanged *)
Lemma nth_set_nth_state_same i : forall v st, (i < length st)%nat -> nth i (set_nth_state i v st) 0 = v.
Proof.
  induction i as [|i IH]; intros v [|h t] H; cbn [length] in H; try lia; cbn [set_nth_state nth]; [reflexivity|].
  apply IH. lia.
Qed.
Lemma nth_set_nth_state_other i : forall j v st, i <> j -> nth j (set_nth_state i v st) 0 = nth j st 0.
Proof.
  induction i as [|i IH]; intros [|j] v [|h t] H; cbn [set_nth_state nth]; try reflexivity; try congruence.
  apply IH. congruence.
Qed.

Lemma phys_get_after_set m st i s x :
  nth_error (msg_signals m) i = Some s -> (i < length st)%nat ->
  nth i (phys_set m st i x) 0 = phys_set_value s x /\
  phys_get m (phys_set m st i x) i = Some (getter_physical s (phys_set_value s x)).
Proof.
  intros E Hl. unfold phys_get, phys_set. rewrite E. rewrite nth_set_nth_state_same by exact Hl. split; reflexivity.
Qed.

Lemma phys_set_other m st i j x :
  i <> j -> nth j (phys_set m st i x) 0 = nth j st 0 /\ phys_get m (phys_set m st i x) j = phys_get m st j.
Proof.
  intros Hij. unfold phys_get, phys_set. destruct (nth_error (msg_signals m) i); [|split; reflexivity].
  rewrite nth_set_nth_state_other by exact Hij. split; reflexivity.
Qed.

(** the generated getter obeys the clamp clause of C09 in every state whose field is a raw value of at most
    53 bits (in particular every reachable state of a signal of the supported class): with a declared range
    the result is finite and inside [min, max]; without one it is fl(fl(raw*scale)+offset) *)
Lemma phys_get_clamped m st i s :
  nth_error (msg_signals m) i = Some s ->
  c09_class_f (sc s) (off s) (smin s) (smax s) = true -> Z.abs (nth i st 0) < 2 ^ 53 ->
  exists r, phys_get m st i = Some r /\
    (declared_f (smin s) (smax s) = true -> is_finite r = true /\ Bleb (smin s) r = true /\ Bleb r (smax s) = true) /\
    (declared_f (smin s) (smax s) = false ->
       r = Bplus mode_NE (Bmult mode_NE (f64_of_Z (nth i st 0)) (sc s)) (off s)).
Proof.
  intros E Hc Hb. unfold phys_get. rewrite E. eexists. split; [reflexivity|].
  destruct (f64_of_Z_exact (nth i st 0) Hb) as [Hfin _].
  pose proof (to_physical_clamp_b (sc s) (off s) (smin s) (smax s) (f64_of_Z (nth i st 0)) Hc Hfin) as H.
  cbv zeta in H. destruct H as (_ & Hd & Hn).
  unfold getter_physical, to_physical. split.
  - intros D. destruct (Hd D) as (F & A & B & _). auto.
  - intros D. exact (Hn D).
Qed.

Lemma phys_set_inv m st i x :
  Forall wf_signal (msg_signals m) -> inv (msg_signals m) st = true ->
  (forall s, nth_error (msg_signals m) i = Some s -> phys_ok s x) ->
  inv (msg_signals m) (phys_set m st i x) = true.
Proof.
  intros Hwf Hinv Hok. unfold phys_set. destruct (nth_error (msg_signals m) i) as [s|] eqn:E; [|exact Hinv].
  eapply set_nth_state_inv; [exact Hinv|exact E|].
  apply phys_set_value_in_range; [|apply Hok; reflexivity].
  rewrite Forall_forall in Hwf. apply Hwf. eapply nth_error_In. exact E.
Qed.

Theorem stepx_inv m this other o :
  wf_message m -> wf_mux m -> wf_defaults m -> opx_ok m o ->
  inv (msg_signals m) this = true -> inv (msg_signals m) other = true ->
  inv (msg_signals m) (snd (stepx m this other o)) = true.
Proof.
  intros Hwf Hmux Hdef Hok Hi Ho. destruct o as [o|i x]; cbn [stepx].
  - apply step_inv; assumption.
  - cbn [snd]. apply phys_set_inv; [apply Hwf|exact Hi|exact Hok].
Qed.

Fixpoint runx (m : message) (ops : list (bool * opx)) (ab : state * state) : state * state :=
  match ops with
  | [] => ab
  | (who, o) :: tl =>
      let '(a, b) := ab in
      if who then runx m tl (a, snd (stepx m b a o)) else runx m tl (snd (stepx m a b o), b)
  end.

Theorem runx_inv m ops : forall a b,
  wf_message m -> wf_mux m -> wf_defaults m -> Forall (fun wo => opx_ok m (snd wo)) ops ->
  inv (msg_signals m) a = true -> inv (msg_signals m) b = true ->
  inv (msg_signals m) (fst (runx m ops (a, b))) = true /\ inv (msg_signals m) (snd (runx m ops (a, b))) = true.
Proof.
  induction ops as [|[who o] ops IH]; intros a b Hwf Hmux Hdef Hops Ha Hb; cbn [runx]; [auto|].
  inversion Hops as [|? ? Ho Hops']; subst. cbn [snd] in Ho.
  destruct who.
  - apply IH; try assumption. apply stepx_inv; assumption.
  - apply IH; try assumption. apply stepx_inv; assumption.
Qed.

(** every state reachable through ANY history (raw and physical setters, reset, copy, unmarshal):
    fields in range, valid frame, re-encoding identity *)
Corollary reachable_ok_x m ops :
  wf_message m -> wf_mux m -> wf_defaults m -> wf_header m -> Forall (fun wo => opx_ok m (snd wo)) ops ->
  let '(a, b) := runx m ops (new_state m, new_state m) in
  inv (msg_signals m) a = true /\ inv (msg_signals m) b = true /\
  frame_valid (frame_of m a) = true /\ frame_valid (frame_of m b) = true /\
  (exists a', unmarshal m (frame_of m a) (new_state m) = inr a' /\ frame_of m a' = frame_of m a).
Proof.
  intros Hwf Hmux Hdef Hhdr Hops.
  pose proof (runx_inv m ops (new_state m) (new_state m) Hwf Hmux Hdef Hops (reset_inv m Hdef) (reset_inv m Hdef)) as [Ha Hb].
  destruct (runx m ops (new_state m, new_state m)) as [a b]. cbn [fst snd] in Ha, Hb.
  repeat split; try assumption; try (apply frame_valid_of_inv; assumption).
  destruct (reencode m a (new_state m) Hwf Hmux Ha (reset_inv m Hdef)) as (a' & E & _ & Ef). eauto.
Qed.
