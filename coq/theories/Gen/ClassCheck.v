(** Decidable versions of the hypotheses of the C03/C10 theorems, proved sound. The correspondence
    driver evaluates them on every message of every sampled program, so the evidence can say that the
    programs the generated code was exercised on are inside the class the theorems quantify over. *)
From Coq Require Import ZArith List Bool Lia.
From CanVerif Require Import Can.Data Can.DataSpec Can.DataProofs Descriptor.Types Gen.Message Gen.History
  Gen.Layout Gen.LayoutProofs Gen.RoundTrip Gen.HistoryProofs.
Import ListNotations.
Open Scope Z_scope.

Definition wf_signalb (s : signal) : bool :=
  (1 <=? s_length s) && (s_length s <=? 64) &&
  (if s_float s then s_length s =? 32 else true) &&
  (if s_big_endian s && negb (s_length s =? 1)
   then (0 <=? s_start s) && (s_start s <? 64) && (stream (s_start s) + s_length s <=? 64)
   else (0 <=? s_start s) && (s_start s + s_length s <=? 64)).

Lemma wf_signalb_sound s : wf_signalb s = true -> wf_signal s.
Proof.
  unfold wf_signalb, wf_signal. rewrite !andb_true_iff, !Z.leb_le. intros [[[H1 H2] H3] H4].
  split; [lia|]. split.
  - intros Hf. rewrite Hf in H3. apply Z.eqb_eq. exact H3.
  - destruct (s_big_endian s && negb (s_length s =? 1)).
    + rewrite !andb_true_iff, !Z.leb_le, Z.ltb_lt in H4. lia.
    + rewrite !andb_true_iff, !Z.leb_le in H4. lia.
Qed.

Definition wf_messageb (m : message) : bool :=
  forallb wf_signalb (msg_signals m) && fopb compatb (msg_signals m).

Lemma wf_messageb_sound m : wf_messageb m = true -> wf_message m.
Proof.
  unfold wf_messageb, wf_message. rewrite andb_true_iff. intros [H1 H2]. split.
  - apply Forall_forall. intros s Hs. apply wf_signalb_sound. rewrite forallb_forall in H1. auto.
  - apply (fopb_sound compatb compat); [exact compatb_sound|exact H2].
Qed.

Definition wf_muxb (m : message) : bool :=
  match mux_index m with
  | None => true
  | Some i => match nth_error (msg_signals m) i with
              | Some s => negb (s_multiplexed s) && negb (s_float s)
              | None => true
              end
  end.

Lemma wf_muxb_sound m : wf_muxb m = true -> wf_mux m.
Proof.
  unfold wf_muxb, wf_mux. intros H i s Hi Hn. rewrite Hi, Hn in H.
  apply andb_true_iff in H. destruct H as [H1 H2]. apply negb_true_iff in H1. apply negb_true_iff in H2. auto.
Qed.

Definition wf_defaultsb (m : message) : bool := forallb (fun s => in_range s (reset_value s)) (msg_signals m).

Lemma wf_defaultsb_sound m : wf_defaultsb m = true -> wf_defaults m.
Proof. unfold wf_defaultsb, wf_defaults. rewrite forallb_forall. intros H. apply Forall_forall. exact H. Qed.

Definition wf_headerb (m : message) : bool :=
  (0 <=? msg_id m) && (if msg_extended m then msg_id m <=? 0x1FFFFFFF else msg_id m <=? 0x7FF) &&
  (0 <=? msg_length m) && (msg_length m <=? 8).

Lemma wf_headerb_sound m : wf_headerb m = true -> wf_header m.
Proof.
  unfold wf_headerb, wf_header. rewrite !andb_true_iff, !Z.leb_le. intros [[[H1 H2] H3] H4].
  split; [|lia]. destruct (msg_extended m); apply Z.leb_le in H2; lia.
Qed.

(** all hypotheses of the C03 / C10 theorems at once *)
Definition in_theorem_class (m : message) : bool :=
  wf_messageb m && wf_muxb m && wf_defaultsb m && wf_headerb m.

Theorem in_theorem_class_sound m :
  in_theorem_class m = true -> wf_message m /\ wf_mux m /\ wf_defaults m /\ wf_header m.
Proof.
  unfold in_theorem_class. rewrite !andb_true_iff. intros [[[H1 H2] H3] H4].
  auto using wf_messageb_sound, wf_muxb_sound, wf_defaultsb_sound, wf_headerb_sound.
Qed.
