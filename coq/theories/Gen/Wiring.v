(** WIRING of the generated code (C03/C10): a first-order description of the statements of the generated
    methods of one message type, as read from the emitted Go text by harness/genwire (go/parser), and its
    meaning. Every wiring statement means exactly one call of an already modelled library function
    (descriptor.Signal Marshal*/Unmarshal*/SaturatedCast*, tied for all inputs by the translation tie) plus
    the Go conversions around it. Names are Go identifiers as byte lists; ALL name resolution happens here:
      struct field name  -> position in the struct declaration ([w_fields]) = position in the state
      md.<Sig> / Messages().<Msg>.<Sig> -> entry <Sig>: d.Messages[mi].Signals[si] of the `md` literal ([w_descs])
      type name          -> builtin Go type, through the `type T U` declarations of the file ([w_types])
    [wiring_ok mi m w]: the wiring is the one the descriptor [m] (message number [mi] of the database) demands.
    Semantics return [None] for a statement outside the modelled fragment. DEFINITIONS ONLY. *)
From Coq Require Import String.
From Coq Require Import ZArith List Bool.
From CanVerif Require Dbc.Ast.
From CanVerif Require Import Base.Dec Gen.RenderNum Can.Data Descriptor.Types Descriptor.Physical Gen.Message Gen.History Gen.HistoryPhys Gen.Api.
Import ListNotations.
Import ListNotations.
Open Scope Z_scope.

Definition name := list Z.
Fixpoint name_eqb (a b : name) : bool :=
  match a, b with
  | [], [] => true
  | x :: a', y :: b' => (x =? y) && name_eqb a' b'
  | _, _ => false
  end.

(** Go types that occur in conversions: the field types of Gen/Message.v and float64 *)
Inductive ctype := CT (p : prim_type) | CFloat64.
Definition prim_eqb (a b : prim_type) : bool :=
  match a, b with
  | PFloat32, PFloat32 | PBool, PBool => true
  | PInt x, PInt y | PUint x, PUint y => x =? y
  | _, _ => false
  end.
Definition ctype_eqb (a b : ctype) : bool :=
  match a, b with
  | CT p, CT q => prim_eqb p q
  | CFloat64, CFloat64 => true
  | _, _ => false
  end.

Definition builtin_types : list (name * ctype) := Eval compute in
  [ (Ast.bytes_of_string "bool"%string, CT PBool); (Ast.bytes_of_string "float32"%string, CT PFloat32);
    (Ast.bytes_of_string "float64"%string, CFloat64);
    (Ast.bytes_of_string "int8"%string, CT (PInt 8)); (Ast.bytes_of_string "int16"%string, CT (PInt 16));
    (Ast.bytes_of_string "int32"%string, CT (PInt 32)); (Ast.bytes_of_string "int64"%string, CT (PInt 64));
    (Ast.bytes_of_string "uint8"%string, CT (PUint 8)); (Ast.bytes_of_string "uint16"%string, CT (PUint 16));
    (Ast.bytes_of_string "uint32"%string, CT (PUint 32)); (Ast.bytes_of_string "uint64"%string, CT (PUint 64)) ].
Definition xxx_prefix : name := Eval compute in Ast.bytes_of_string "xxx_"%string.
Definition set_prefix : name := Eval compute in Ast.bytes_of_string "Set"%string.
Definition setraw_prefix : name := Eval compute in Ast.bytes_of_string "SetRaw"%string.
Definition raw_prefix : name := Eval compute in Ast.bytes_of_string "Raw"%string.

Fixpoint assoc {A} (n : name) (l : list (name * A)) : option A :=
  match l with
  | [] => None
  | (k, v) :: tl => if name_eqb k n then Some v else assoc n tl
  end.
Fixpoint index_of (n : name) (l : list name) (k : nat) : option nat :=
  match l with
  | [] => None
  | x :: tl => if name_eqb x n then Some k else index_of n tl (S k)
  end.

(** which field of the frame / of the embedded *descriptor.Message an expression reads *)
Inductive hdr := HId | HLen | HExt.
Definition hdr_eqb (a b : hdr) : bool :=
  match a, b with HId, HId | HLen, HLen | HExt, HExt => true | _, _ => false end.

(** ---- statements as read from the text (names) *)
Record nstmt := {
  n_kind : super_type;            (* Marshal<K> / Unmarshal<K> *)
  n_desc : name;                  (* md.<desc> *)
  n_field : name;                 (* m.<field> *)
  n_conv : name;                  (* Frame: C in C(m.field); UnmarshalFrame: T in m.field = T(...) *)
  n_guard : option (name * Z) }.  (* if m.<field> == <const> { ... } *)
Inductive rcond := RcNe (fh mh : hdr)   (* f.<fh> != md.<mh> *)
                 | RcRemote.            (* f.IsRemote *)
Inductive nustmt := NReject (c : rcond) | NAssign (a : nstmt).

(** Reset(): m.<field> = <const> *)
Inductive rconst := RBool (b : bool) | RInt (n : Z).

(** accessors *)
Inductive setter_body :=
| SbDirect                                           (* m.f = v *)
| SbSat (k : super_type) (desc : name) (cin cout : name)   (* m.f = cout(Messages().M.desc.SaturatedCast<K>(cin(v))) *)
| SbPhys (desc : name) (cout : name).                (* m.f = cout(Messages().M.desc.FromPhysical(v)) *)
Record nsetter := { st_method : name; st_field : name; st_param : name; st_body : setter_body }.
Inductive getter_body :=
| GbField                                            (* return m.f *)
| GbPhys (desc : name) (cin : name).                 (* return Messages().M.desc.ToPhysical(cin(m.f)) *)
Record ngetter := { gt_method : name; gt_field : name; gt_result : name; gt_body : getter_body }.

Record wiring := {
  w_name : name;                        (* the message type's Go name *)
  w_fields : list (name * name);        (* struct declaration: field name, type name, in order *)
  w_types : list (name * name);         (* type T U declarations of the file *)
  w_msg_index : Z;                      (* Message: d.Messages[mi] of the md literal *)
  w_descs : list (name * (Z * Z));      (* <Sig>: d.Messages[mi].Signals[si] of the md literal *)
  w_init : hdr * hdr * hdr;             (* can.Frame{ID: md.<a>, IsExtended: md.<b>, Length: md.<c>} *)
  w_frame : list nstmt;
  w_unmarshal : list nustmt;
  w_reset : list (name * rconst);
  w_copy : bool;                        (* CopyFrom = { f, _ := o.MarshalFrame(); _ = m.UnmarshalFrame(f); return m } and
                                           MarshalFrame = { return m.Frame(), nil } *)
  w_setters : list nsetter;
  w_getters : list ngetter }.

(** ---- name resolution *)
Definition resolve_type (w : wiring) (n : name) : option ctype :=
  match assoc n builtin_types with
  | Some t => Some t
  | None => match assoc n (w_types w) with Some u => assoc u builtin_types | None => None end
  end.
Definition field_index (w : wiring) (n : name) : option nat := index_of n (map fst (w_fields w)) 0.
Definition field_type (w : wiring) (i : nat) : option prim_type :=
  match nth_error (w_fields w) i with
  | Some (_, tn) => match resolve_type w tn with Some (CT p) => Some p | _ => None end
  | None => None
  end.
(** the signal index a descriptor name denotes; the entry must point into this message *)
Definition desc_index (w : wiring) (n : name) : option nat :=
  match assoc n (w_descs w) with
  | Some (mi, si) => if (mi =? w_msg_index w) && (0 <=? si) then Some (Z.to_nat si) else None
  | None => None
  end.

(** ---- resolved statements *)
Record mstmt := {
  ms_kind : super_type; ms_desc : nat; ms_field : nat; ms_ftype : prim_type; ms_conv : ctype;
  ms_guard : option (nat * Z) }.
Inductive ustmt := UReject (c : rcond) | UAssign (a : mstmt).

Definition resolve_guard (w : wiring) (g : option (name * Z)) : option (option (nat * Z)) :=
  match g with
  | None => Some None
  | Some (f, c) => match field_index w f with Some i => Some (Some (i, c)) | None => None end
  end.
Definition resolve_stmt (w : wiring) (s : nstmt) : option mstmt :=
  match desc_index w (n_desc s), field_index w (n_field s), resolve_type w (n_conv s), resolve_guard w (n_guard s) with
  | Some di, Some fi, Some c, Some g =>
      match field_type w fi with
      | Some ft => Some {| ms_kind := n_kind s; ms_desc := di; ms_field := fi; ms_ftype := ft; ms_conv := c; ms_guard := g |}
      | None => None
      end
  | _, _, _, _ => None
  end.
Fixpoint resolve_all {A B} (f : A -> option B) (l : list A) : option (list B) :=
  match l with
  | [] => Some []
  | x :: tl => match f x, resolve_all f tl with Some y, Some ys => Some (y :: ys) | _, _ => None end
  end.
Definition resolve_ustmt (w : wiring) (s : nustmt) : option ustmt :=
  match s with
  | NReject c => Some (UReject c)
  | NAssign a => match resolve_stmt w a with Some r => Some (UAssign r) | None => None end
  end.

(** ---- meaning of the statements *)
Definition is_pint (p : prim_type) : bool := match p with PInt _ => true | _ => false end.
Definition is_puint (p : prim_type) : bool := match p with PUint _ => true | _ => false end.

(** C(m.field) in Frame(): value handed to Marshal<K>; [ft] = declared type of the field.
    float64(float32 field): the binary32 pattern, signalling NaNs quieted; int64(intN field): identity;
    uint64(x): x mod 2^64 *)
Definition arg_conv (c : ctype) (ft : prim_type) (v : Z) : option Z :=
  match c, ft with
  | CFloat64, PFloat32 => Some (f32_quiet v)
  | CT PBool, PBool => Some v
  | CT (PInt 64), PInt _ => Some v
  | CT (PUint 64), PUint _ => Some (u64 v)
  | _, _ => None
  end.
(** md.S.Marshal<K>(&data, x) *)
Definition marshal_call (k : super_type) (s : signal) (d : data) (x : Z) : data :=
  match k with
  | StFloat => sig_marshal_unsigned s d x          (* MarshalUnsigned(Float32bits(float32(x))) *)
  | StBool => set_bit d (s_start s) (negb (x =? 0))
  | StSigned => sig_marshal_signed s d x
  | StUnsigned => sig_marshal_unsigned s d x
  end.
Definition kind_conv_ok (k : super_type) (c : ctype) : bool :=
  match k, c with
  | StFloat, CFloat64 | StBool, CT PBool | StSigned, CT (PInt 64) | StUnsigned, CT (PUint 64) => true
  | _, _ => false
  end.
Definition guard_holds (g : option (nat * Z)) (st : state) : bool :=
  match g with None => true | Some (i, c) => nth i st 0 =? c end.

Definition exec_marshal (sigs : list signal) (st : state) (a : mstmt) (d : data) : option data :=
  if guard_holds (ms_guard a) st then
    match nth_error sigs (ms_desc a) with
    | Some s =>
        if kind_conv_ok (ms_kind a) (ms_conv a) then
          match arg_conv (ms_conv a) (ms_ftype a) (nth (ms_field a) st 0) with
          | Some x => Some (marshal_call (ms_kind a) s d x)
          | None => None
          end
        else None
    | None => None
    end
  else Some d.
Fixpoint run_marshal (sigs : list signal) (st : state) (l : list mstmt) (d : data) : option data :=
  match l with
  | [] => Some d
  | a :: tl => match exec_marshal sigs st a d with Some d' => run_marshal sigs st tl d' | None => None end
  end.

Definition hdr_val (m : message) (h : hdr) : Z :=
  match h with HId => msg_id m | HLen => msg_length m | HExt => if msg_extended m then 1 else 0 end.
Definition fhdr_val (f : frame) (h : hdr) : Z :=
  match h with HId => fr_id f | HLen => fr_length f | HExt => if fr_extended f then 1 else 0 end.

(** T(md.S.Unmarshal<K>(data)) *)
Definition assign_value (k : super_type) (t : ctype) (s : signal) (d : data) : option Z :=
  match k, t with
  | StFloat, CT PFloat32 => Some (f32_quiet (u64 (sig_unmarshal_unsigned s d) mod 2 ^ 32))
  | StBool, CT PBool => Some (if bit d (s_start s) then 1 else 0)
  | StSigned, CT (PInt b) => Some (to_prim (PInt b) (sig_unmarshal_signed s d))
  | StUnsigned, CT (PUint b) => Some (to_prim (PUint b) (sig_unmarshal_unsigned s d))
  | _, _ => None
  end.
Definition exec_assign (sigs : list signal) (d : data) (a : mstmt) (st : state) : option state :=
  if guard_holds (ms_guard a) st then
    match nth_error sigs (ms_desc a) with
    | Some s =>
        if ctype_eqb (ms_conv a) (CT (ms_ftype a)) then     (* assignment of a T to a field of type T *)
          match assign_value (ms_kind a) (ms_conv a) s d with
          | Some v => Some (set_nth_state (ms_field a) v st)
          | None => None
          end
        else None
    | None => None
    end
  else Some st.
Definition rcond_holds (m : message) (f : frame) (c : rcond) : bool :=
  match c with
  | RcNe fh mh => negb (fhdr_val f fh =? hdr_val m mh)
  | RcRemote => fr_remote f
  end.
Definition rej_of (c : rcond) : reject :=
  match c with
  | RcNe HId _ => RejId | RcNe HLen _ => RejLength | RcNe HExt _ => RejFormat | RcRemote => RejRemote
  end.
(** UnmarshalFrame, statement by statement; a rejection returns the state AS IT IS at that point *)
Fixpoint run_unmarshal (m : message) (f : frame) (l : list ustmt) (st : state) : option (reject * state + state) :=
  match l with
  | [] => Some (inr st)
  | UReject c :: tl => if rcond_holds m f c then Some (inl (rej_of c, st)) else run_unmarshal m f tl st
  | UAssign a :: tl =>
      match exec_assign (msg_signals m) (fr_data f) a st with
      | Some st' => run_unmarshal m f tl st'
      | None => None
      end
  end.

Definition wiring_frame (m : message) (w : wiring) (st : state) : option frame :=
  match resolve_all (resolve_stmt w) (w_frame w) with
  | Some l =>
      match run_marshal (msg_signals m) st l zero_data with
      | Some d => let '(a, b, c) := w_init w in
                  Some {| fr_id := hdr_val m a; fr_length := hdr_val m c; fr_data := d; fr_remote := false;
                          fr_extended := negb (hdr_val m b =? 0) |}
      | None => None
      end
  | None => None
  end.
Definition wiring_unmarshal (m : message) (w : wiring) (f : frame) (st : state) : option (reject * state + state) :=
  match resolve_all (resolve_ustmt w) (w_unmarshal w) with
  | Some l => run_unmarshal m f l st
  | None => None
  end.
(** CopyFrom(o): f, _ := o.MarshalFrame(); _ = m.UnmarshalFrame(f); return m *)
Definition wiring_copy (m : message) (w : wiring) (st other : state) : option state :=
  if w_copy w then
    match wiring_frame m w other with
    | Some f => match wiring_unmarshal m w f st with
                | Some (inr st') => Some st'
                | Some (inl (_, st')) => Some st'
                | None => None
                end
    | None => None
    end
  else None.

(** ---- the wiring the descriptor demands *)
Definition demanded_stmt (conv_of : signal -> ctype) (k : nat) (s : signal) (g : option (nat * Z)) : mstmt :=
  {| ms_kind := signal_super_type s; ms_desc := k; ms_field := k; ms_ftype := signal_prim_type s;
     ms_conv := conv_of s; ms_guard := g |}.
(** signalPrimitiveSuperType, for the supported class (float signals are StFloat) *)
Definition super_conv (s : signal) : ctype :=
  match signal_super_type s with
  | StFloat => CFloat64 | StBool => CT PBool | StSigned => CT (PInt 64) | StUnsigned => CT (PUint 64)
  end.
Definition field_conv (s : signal) : ctype := CT (signal_prim_type s).

Fixpoint plain_stmts (conv_of : signal -> ctype) (ss : list signal) (k : nat) : list mstmt :=
  match ss with
  | [] => []
  | s :: tl => (if s_multiplexed s then [] else [demanded_stmt conv_of k s None]) ++ plain_stmts conv_of tl (S k)
  end.
Fixpoint muxed_stmts (conv_of : signal -> ctype) (mi : nat) (ss : list signal) (k : nat) : list mstmt :=
  match ss with
  | [] => []
  | s :: tl => (if s_multiplexed s then [demanded_stmt conv_of k s (Some (mi, s_mux_value s))] else [])
               ++ muxed_stmts conv_of mi tl (S k)
  end.
Definition demanded_body (conv_of : signal -> ctype) (m : message) : list mstmt :=
  plain_stmts conv_of (msg_signals m) 0 ++
  match mux_index m with Some mi => muxed_stmts conv_of mi (msg_signals m) 0 | None => [] end.
Definition demanded_rejects : list rcond := [RcNe HId HId; RcNe HLen HLen; RcRemote; RcNe HExt HExt].
Definition demanded_unmarshal (m : message) : list ustmt :=
  map UReject demanded_rejects ++ map UAssign (demanded_body field_conv m).

(** per-statement consistency of kind, field type and conversion (makes the statement meaningful) *)
Definition frame_side_ok (a : mstmt) : bool :=
  match ms_kind a with
  | StFloat => prim_eqb (ms_ftype a) PFloat32
  | StBool => prim_eqb (ms_ftype a) PBool
  | StSigned => is_pint (ms_ftype a)
  | StUnsigned => is_puint (ms_ftype a)
  end.
(** a guarded statement never assigns the field its own guard reads *)
Definition guard_side_ok (a : mstmt) : bool :=
  match ms_guard a with None => true | Some (i, _) => negb (Nat.eqb (ms_field a) i) end.

Definition opt_eqb {A} (e : A -> A -> bool) (a b : option A) : bool :=
  match a, b with Some x, Some y => e x y | None, None => true | _, _ => false end.
Definition super_eqb (a b : super_type) : bool :=
  match a, b with
  | StFloat, StFloat | StBool, StBool | StSigned, StSigned | StUnsigned, StUnsigned => true
  | _, _ => false
  end.
Definition mstmt_eqb (a b : mstmt) : bool :=
  super_eqb (ms_kind a) (ms_kind b) && Nat.eqb (ms_desc a) (ms_desc b) && Nat.eqb (ms_field a) (ms_field b) &&
  prim_eqb (ms_ftype a) (ms_ftype b) && ctype_eqb (ms_conv a) (ms_conv b) &&
  opt_eqb (fun x y => Nat.eqb (fst x) (fst y) && (snd x =? snd y)) (ms_guard a) (ms_guard b).
Definition rcond_eqb (a b : rcond) : bool :=
  match a, b with
  | RcNe x y, RcNe x' y' => hdr_eqb x x' && hdr_eqb y y'
  | RcRemote, RcRemote => true
  | _, _ => false
  end.
Definition ustmt_eqb (a b : ustmt) : bool :=
  match a, b with
  | UReject c, UReject c' => rcond_eqb c c'
  | UAssign x, UAssign y => mstmt_eqb x y
  | _, _ => false
  end.
Fixpoint list_eqb {A} (e : A -> A -> bool) (a b : list A) : bool :=
  match a, b with
  | [], [] => true
  | x :: a', y :: b' => e x y && list_eqb e a' b'
  | _, _ => false
  end.

(** the struct declares exactly one field xxx_<signal name> of the signal's primitive type per signal, in
    descriptor order; the md literal maps every signal name to its own position in this message *)
Fixpoint fields_ok (w : wiring) (ss : list signal) (fs : list (name * name)) : bool :=
  match ss, fs with
  | [], [] => true
  | s :: ss', (fname, tname) :: fs' =>
      name_eqb fname (xxx_prefix ++ s_name s) &&
      opt_eqb ctype_eqb (resolve_type w tname) (Some (CT (signal_prim_type s))) && fields_ok w ss' fs'
  | _, _ => false
  end.
Fixpoint descs_ok (mi : Z) (ss : list signal) (k : Z) (ds : list (name * (Z * Z))) : bool :=
  match ss, ds with
  | [], [] => true
  | s :: ss', (n, (mi', si)) :: ds' => name_eqb n (s_name s) && (mi' =? mi) && (si =? k) && descs_ok mi ss' (k + 1) ds'
  | _, _ => false
  end.

Definition frame_wiring_ok (m : message) (w : wiring) : bool :=
  (let '(a, b, c) := w_init w in hdr_eqb a HId && hdr_eqb b HExt && hdr_eqb c HLen) &&
  match resolve_all (resolve_stmt w) (w_frame w) with
  | Some l => list_eqb mstmt_eqb l (demanded_body super_conv m) && forallb frame_side_ok l
  | None => false
  end.
Definition unmarshal_wiring_ok (m : message) (w : wiring) : bool :=
  match resolve_all (resolve_ustmt w) (w_unmarshal w) with
  | Some l => list_eqb ustmt_eqb l (demanded_unmarshal m) &&
              forallb (fun u => match u with UAssign a => frame_side_ok a && guard_side_ok a | UReject _ => true end) l
  | None => false
  end.
Definition decls_ok (mi : nat) (m : message) (w : wiring) : bool :=
  (w_msg_index w =? Z.of_nat mi) && fields_ok w (msg_signals m) (w_fields w) &&
  descs_ok (Z.of_nat mi) (msg_signals m) 0 (w_descs w).

(** C03 part: declarations, Frame(), UnmarshalFrame() *)
Definition wiring_ok_c03 (mi : nat) (m : message) (w : wiring) : bool :=
  decls_ok mi m w && frame_wiring_ok m w && unmarshal_wiring_ok m w.

(** ---- C10 part: Reset(), setters, getters *)
Record rstmt := { rs_field : nat; rs_ftype : prim_type; rs_const : rconst }.
Definition resolve_reset (w : wiring) (r : name * rconst) : option rstmt :=
  match field_index w (fst r) with
  | Some i => match field_type w i with
              | Some ft => Some {| rs_field := i; rs_ftype := ft; rs_const := snd r |}
              | None => None
              end
  | None => None
  end.
(** m.f = <const>: value of the constant in the field's type (true/false only for bool fields; an integer
    constant assigned to a float32 field is that integer as a binary32) *)
Definition const_value (ft : prim_type) (c : rconst) : option Z :=
  match c, ft with
  | RBool b, PBool => Some (if b then 1 else 0)
  | RInt n, PFloat32 => Some (f32_bits_of_int n)
  | RInt n, PInt _ | RInt n, PUint _ => Some n
  | _, _ => None
  end.
Fixpoint run_reset (l : list rstmt) (st : state) : option state :=
  match l with
  | [] => Some st
  | r :: tl => match const_value (rs_ftype r) (rs_const r) with
               | Some v => run_reset tl (set_nth_state (rs_field r) v st)
               | None => None
               end
  end.
Definition wiring_reset (w : wiring) (st : state) : option state :=
  match resolve_all (resolve_reset w) (w_reset w) with Some l => run_reset l st | None => None end.

Definition demanded_const (s : signal) : rconst :=
  if s_length s =? 1 then RBool (s_default s =? 1) else RInt (s_default s).
Fixpoint demanded_reset (ss : list signal) (k : nat) : list rstmt :=
  match ss with
  | [] => []
  | s :: tl => {| rs_field := k; rs_ftype := signal_prim_type s; rs_const := demanded_const s |} :: demanded_reset tl (S k)
  end.
Definition rconst_eqb (a b : rconst) : bool :=
  match a, b with RBool x, RBool y => Bool.eqb x y | RInt x, RInt y => x =? y | _, _ => false end.
Definition rstmt_eqb (a b : rstmt) : bool :=
  Nat.eqb (rs_field a) (rs_field b) && prim_eqb (rs_ftype a) (rs_ftype b) && rconst_eqb (rs_const a) (rs_const b).
Definition reset_wiring_ok (m : message) (w : wiring) : bool :=
  match resolve_all (resolve_reset w) (w_reset w) with
  | Some l => list_eqb rstmt_eqb l (demanded_reset (msg_signals m) 0)
  | None => false
  end.

(** setters *)
Inductive rsetter_body :=
| RsDirect
| RsSat (k : super_type) (desc : nat) (cin cout : ctype)
| RsPhys (desc : nat) (cout : ctype).
Record rsetter := { rt_field : nat; rt_ftype : prim_type; rt_param : ctype; rt_body : rsetter_body }.
Definition resolve_setter (w : wiring) (ns : nsetter) : option (name * rsetter) :=
  match field_index w (st_field ns), resolve_type w (st_param ns) with
  | Some fi, Some pt =>
      match field_type w fi with
      | Some ft =>
          let mk b := Some (st_method ns, {| rt_field := fi; rt_ftype := ft; rt_param := pt; rt_body := b |}) in
          match st_body ns with
          | SbDirect => mk RsDirect
          | SbSat k d cin cout =>
              match desc_index w d, resolve_type w cin, resolve_type w cout with
              | Some di, Some ci, Some co => mk (RsSat k di ci co)
              | _, _, _ => None
              end
          | SbPhys d cout =>
              match desc_index w d, resolve_type w cout with
              | Some di, Some co => mk (RsPhys di co)
              | _, _ => None
              end
          end
      | None => None
      end
  | _, _ => None
  end.
(** the value a setter stores for argument [v] (a value of the parameter type; float64 arguments are bit patterns):
    m.f = v (bool: normalised to 0/1) | m.f = T(desc.SaturatedCast<K>(C(v))) | m.f = T(desc.FromPhysical(v)) *)
Definition setter_value (sigs : list signal) (r : rsetter) (v : Z) : option Z :=
  match rt_body r with
  | RsDirect =>
      if ctype_eqb (rt_param r) (CT (rt_ftype r)) then
        Some (match rt_ftype r with PBool => if v =? 0 then 0 else 1 | _ => v end)
      else None
  | RsSat k di cin cout =>
      match nth_error sigs di with
      | Some s =>
          if ctype_eqb cout (CT (rt_ftype r)) && kind_conv_ok k cin then
            match k, rt_param r, rt_ftype r with
            | StFloat, CT PFloat32, PFloat32 => Some (f32_sat v)
            | StSigned, CT (PInt _), PInt b => Some (to_prim (PInt b) (clamp (raw_lo s) (raw_hi s) v))
            | StUnsigned, CT (PUint _), PUint b => Some (to_prim (PUint b) (clamp 0 (raw_hi s) v))
            | _, _, _ => None
            end
          else None
      | None => None
      end
  | RsPhys di cout =>
      match nth_error sigs di, rt_param r, cout with
      | Some s, CFloat64, CT p =>
          if prim_eqb p (rt_ftype r) then Some (to_prim p (setter_raw s (f64_of_bits v))) else None
      | _, _, _ => None
      end
  end.
Definition wiring_setter (m : message) (w : wiring) (ns : nsetter) (st : state) (v : Z) : option state :=
  match resolve_setter w ns with
  | Some (_, r) => match setter_value (msg_signals m) r v with
                   | Some x => Some (set_nth_state (rt_field r) x st)
                   | None => None
                   end
  | None => None
  end.

Definition raw_setter (k : nat) (s : signal) : rsetter :=
  {| rt_field := k; rt_ftype := signal_prim_type s; rt_param := CT (signal_prim_type s);
     rt_body := if s_length s =? 1 then RsDirect else RsSat (signal_super_type s) k (super_conv s) (field_conv s) |}.
Definition phys_setter (k : nat) (s : signal) : rsetter :=
  {| rt_field := k; rt_ftype := signal_prim_type s; rt_param := CFloat64; rt_body := RsPhys k (field_conv s) |}.
Fixpoint demanded_setters (ss : list signal) (k : nat) : list (name * rsetter) :=
  match ss with
  | [] => []
  | s :: tl =>
      (if has_physical s then [(set_prefix ++ s_name s, phys_setter k s); (setraw_prefix ++ s_name s, raw_setter k s)]
       else [(set_prefix ++ s_name s, raw_setter k s)]) ++ demanded_setters tl (S k)
  end.
Definition rsetter_body_eqb (a b : rsetter_body) : bool :=
  match a, b with
  | RsDirect, RsDirect => true
  | RsSat k d ci co, RsSat k' d' ci' co' => super_eqb k k' && Nat.eqb d d' && ctype_eqb ci ci' && ctype_eqb co co'
  | RsPhys d co, RsPhys d' co' => Nat.eqb d d' && ctype_eqb co co'
  | _, _ => false
  end.
Definition rsetter_eqb (a b : name * rsetter) : bool :=
  name_eqb (fst a) (fst b) && Nat.eqb (rt_field (snd a)) (rt_field (snd b)) && prim_eqb (rt_ftype (snd a)) (rt_ftype (snd b)) &&
  ctype_eqb (rt_param (snd a)) (rt_param (snd b)) && rsetter_body_eqb (rt_body (snd a)) (rt_body (snd b)).
(** kind and field type fit together (as for Frame()) *)
Definition setter_side_ok (p : name * rsetter) : bool :=
  match rt_body (snd p) with
  | RsSat StFloat _ _ _ => prim_eqb (rt_ftype (snd p)) PFloat32
  | RsSat StSigned _ _ _ => is_pint (rt_ftype (snd p))
  | RsSat StUnsigned _ _ _ => is_puint (rt_ftype (snd p))
  | RsSat StBool _ _ _ => false
  | RsDirect => prim_eqb (rt_ftype (snd p)) PBool
  | RsPhys _ _ => true
  end.
Definition setters_wiring_ok (m : message) (w : wiring) : bool :=
  match resolve_all (resolve_setter w) (w_setters w) with
  | Some l => list_eqb rsetter_eqb l (demanded_setters (msg_signals m) 0) && forallb setter_side_ok l
  | None => false
  end.

(** getters: return m.f | return desc.ToPhysical(float64(m.f)) *)
Inductive rgetter := RgField (field : nat) (result : ctype) | RgPhys (field : nat) (desc : nat) (cin result : ctype).
Definition resolve_getter (w : wiring) (g : ngetter) : option (name * rgetter) :=
  match field_index w (gt_field g), resolve_type w (gt_result g) with
  | Some fi, Some rt =>
      match gt_body g with
      | GbField => Some (gt_method g, RgField fi rt)
      | GbPhys d cin => match desc_index w d, resolve_type w cin with
                        | Some di, Some ci => Some (gt_method g, RgPhys fi di ci rt)
                        | _, _ => None
                        end
      end
  | _, _ => None
  end.
Fixpoint demanded_getters (ss : list signal) (k : nat) : list (name * rgetter) :=
  match ss with
  | [] => []
  | s :: tl =>
      (if has_physical s then [(s_name s, RgPhys k k CFloat64 CFloat64); (raw_prefix ++ s_name s, RgField k (field_conv s))]
       else [(s_name s, RgField k (field_conv s))]) ++ demanded_getters tl (S k)
  end.
Definition rgetter_eqb (a b : name * rgetter) : bool :=
  name_eqb (fst a) (fst b) &&
  match snd a, snd b with
  | RgField f r, RgField f' r' => Nat.eqb f f' && ctype_eqb r r'
  | RgPhys f d c r, RgPhys f' d' c' r' => Nat.eqb f f' && Nat.eqb d d' && ctype_eqb c c' && ctype_eqb r r'
  | _, _ => false
  end.
Definition getters_wiring_ok (m : message) (w : wiring) : bool :=
  match resolve_all (resolve_getter w) (w_getters w) with
  | Some l => list_eqb rgetter_eqb l (demanded_getters (msg_signals m) 0)
  | None => false
  end.
(** raw getter: the field; physical getter: ToPhysical of the field converted to float64 *)
Definition wiring_getter_raw (w : wiring) (g : ngetter) (st : state) : option Z :=
  match resolve_getter w g with Some (_, RgField f _) => Some (nth f st 0) | _ => None end.
Definition wiring_getter_phys (m : message) (w : wiring) (g : ngetter) (st : state) : option f64 :=
  match resolve_getter w g with
  | Some (_, RgPhys f d CFloat64 CFloat64) =>
      match nth_error (msg_signals m) d with Some s => Some (getter_physical s (nth f st 0)) | None => None end
  | _ => None
  end.

(** C10 part: declarations, Reset(), CopyFrom()/MarshalFrame() shapes (over the C03 part), setters, getters *)
(** the struct field of a signal with value descriptions is declared with the enum TYPE NAME <Msg>_<Sig>; every other
    field with the builtin type itself *)
Fixpoint enum_fields_ok (m : message) (ss : list signal) (fs : list (name * name)) : bool :=
  match ss, fs with
  | s :: ss', (_, tn) :: fs' =>
      (if has_custom_type s then name_eqb tn (enum_type_name m s)
       else opt_eqb ctype_eqb (assoc tn builtin_types) (Some (CT (signal_prim_type s)))) && enum_fields_ok m ss' fs'
  | _, _ => true
  end.
Definition wiring_ok_c10 (mi : nat) (m : message) (w : wiring) : bool :=
  decls_ok mi m w && reset_wiring_ok m w && w_copy w && setters_wiring_ok m w && getters_wiring_ok m w &&
  enum_fields_ok m (msg_signals m) (w_fields w).

(** ---- the whole generated package: one wiring per message type (in source order), the `nd` literal
    (<Node>: d.Nodes[ni]) and the dispatcher's cases *)
Record enum := {
  e_name : name; e_under : name;           (* type <e_name> <e_under> *)
  e_consts : list (name * rconst);         (* const ( <name> <e_name> = <value> ... ) *)
  e_on_bool : bool;                        (* String(): switch bool(v) {...}; return Sprintf  |  switch v {... default: return Sprintf} *)
  e_cases : list (rconst * name);          (* case <value>: return "<text>" *)
  e_default : name }.                      (* format string of fmt.Sprintf(<fmt>, v) *)

(** generated node type xxx_<Node> (func Node of file.go), as read by harness/genwire *)
Record nodegen := {
  ng_name : name;                         (* <Node> of struct xxx_<Node> *)
  ng_desc : name;                         (* Descriptor() returns Nodes().<ng_desc> *)
  ng_rxfields : list (name * name);       (* struct xxx_<Node>_Rx: field, type (after parentMutex) *)
  ng_txfields : list (name * name);
  ng_rxtypes : list (name * name);        (* type xxx_<Node>_Rx_<Msg> struct { <Msg>; ... }: type, embedded message type *)
  ng_txtypes : list (name * name);
  ng_received : list (Z * name);          (* ReceivedMessage: case <id>: return &n.rx.<field>, true *)
  ng_received_default : bool;             (* default: return nil, false *)
  ng_transmitted : list name;             (* TransmittedMessages: &n.tx.<field> ... *)
  ng_rxacc : list (name * name);          (* func (rx *xxx_<Node>_Rx) <Method>() ... { return &rx.<field> } *)
  ng_txacc : list (name * name) }.

Record package := {
  p_nodegens : list nodegen;
  p_enums : list enum;
  p_wirings : list wiring;
  p_nodes : list (name * Z);
  p_dispatch : list (option name) }.   (* MessagesDescriptor.UnmarshalFrame: case md.<Msg>.ID (Some Msg) ... default (None) *)

(** the wiring of the message type named [n]: there must be EXACTLY one *)
Definition find_wiring (n : name) (ws : list wiring) : option wiring :=
  match filter (fun w => name_eqb (w_name w) n) ws with [w] => Some w | _ => None end.
Fixpoint messages_ok (ok : nat -> message -> wiring -> bool) (ws : list wiring) (ms : list message) (k : nat) : bool :=
  match ms with
  | [] => true
  | m :: tl => match find_wiring (msg_name m) ws with Some w => ok k m w | None => false end && messages_ok ok ws tl (S k)
  end.
Fixpoint nodes_ok (ns : list node) (k : Z) (l : list (name * Z)) : bool :=
  match ns, l with
  | [], [] => true
  | n :: ns', (nm, i) :: l' => name_eqb nm (node_name n) && (i =? k) && nodes_ok ns' (k + 1) l'
  | _, _ => false
  end.
(** no message type without a message of the database *)
Definition no_extra_types (db : database) (ws : list wiring) : bool :=
  forallb (fun w => existsb (fun m => name_eqb (w_name w) (msg_name m)) (db_messages db)) ws.
Definition package_wiring_ok_c03 (db : database) (p : package) : bool :=
  messages_ok wiring_ok_c03 (p_wirings p) (db_messages db) 0 && no_extra_types db (p_wirings p) &&
  nodes_ok (db_nodes db) 0 (p_nodes p).
Definition package_wiring_ok_c10 (db : database) (p : package) : bool :=
  messages_ok wiring_ok_c10 (p_wirings p) (db_messages db) 0 && no_extra_types db (p_wirings p).
Definition package_wiring_ok (db : database) (p : package) : bool :=
  package_wiring_ok_c03 db p && package_wiring_ok_c10 db p.

(** ---- the dispatcher MessagesDescriptor.UnmarshalFrame:
      switch f.ID { case md.<Msg>.ID: var msg <Msg>; if err := msg.UnmarshalFrame(f); err != nil { return nil, ... }; return &msg, nil
                    ... default: return nil, ... }
    first case whose value equals f.ID; md.<Msg> is the md literal entry of that message type (Message: d.Messages[mi]);
    `var msg <Msg>` is the zero value of the struct. [Some None] = the dispatcher returns an error without a message. *)
Definition zero_state (w : wiring) : state := map (fun _ => 0) (w_fields w).
Fixpoint run_dispatch (db : database) (ws : list wiring) (f : frame) (cases : list (option name))
  : option (option (message * (reject + state))) :=
  match cases with
  | [] => None                       (* no default clause: outside the fragment *)
  | None :: _ => Some None
  | Some n :: tl =>
      match find_wiring n ws with
      | Some w =>
          match nth_error (db_messages db) (Z.to_nat (w_msg_index w)) with
          | Some m =>
              if msg_id m =? fr_id f then
                match wiring_unmarshal m w f (zero_state w) with
                | Some (inl (r, _)) => Some (Some (m, inl r))
                | Some (inr st) => Some (Some (m, inr st))
                | None => None
                end
              else run_dispatch db ws f tl
          | None => None
          end
      | None => None
      end
  end.
Definition wiring_dispatch (db : database) (p : package) (f : frame) := run_dispatch db (p_wirings p) f (p_dispatch p).
(** one case per message of the database, in database order, then the default *)
Definition dispatch_ok (db : database) (p : package) : bool :=
  list_eqb (opt_eqb name_eqb) (p_dispatch p) (map (fun m => Some (msg_name m)) (db_messages db) ++ [None]).

(** ---- enum types of signals with value descriptions (SignalCustomType) *)
Definition case_matches (c : rconst) (v : Z) : bool :=
  match c with RBool b => Bool.eqb b (negb (v =? 0)) | RInt n => n =? v end.
(** fmt.Sprintf(fmt, v) for a format with one verb %d (decimal) or %t (true/false); other text is copied *)
Fixpoint sprintf_one (fmt : name) (v : Z) : option name :=
  match fmt with
  | [] => Some []
  | c :: tl =>
      if c =? 37 then
        match tl with
        | k :: tl' => if k =? 100 then Some (itoa v ++ tl')
                      else if k =? 116 then Some (bool_text (negb (v =? 0)) ++ tl')
                      else None
        | [] => None
        end
      else match sprintf_one tl v with Some r => Some (c :: r) | None => None end
  end.
(** String(): the first case whose value equals v returns its text; otherwise the Sprintf form *)
Definition enum_string (e : enum) (v : Z) : option name :=
  match find (fun c => case_matches (fst c) v) (e_cases e) with
  | Some c => Some (snd c)
  | None => sprintf_one (e_default e) v
  end.

Definition fmt_d : name := Eval compute in Ast.bytes_of_string "(%d)"%string.
Definition fmt_t : name := Eval compute in Ast.bytes_of_string "(%t)"%string.
Definition rconst_of_val (c : const_val) : rconst := match c with CBool b => RBool b | CInt z => RInt z end.
Definition case_of (s : signal) (vd : value_description) : rconst :=
  if s_length s =? 1 then RBool (vdesc_value vd =? 1) else RInt (vdesc_value vd).
Definition enum_ok_for (m : message) (s : signal) (e : enum) : bool :=
  let t := enum_type_name m s in
  name_eqb (e_name e) t && forallb (fun c => negb (c =? 37)) t &&
  opt_eqb ctype_eqb (assoc (e_under e) builtin_types) (Some (CT (signal_prim_type s))) &&
  list_eqb (fun a b => name_eqb (fst a) (fst b) && rconst_eqb (snd a) (snd b)) (e_consts e)
    (map (fun vd => (t ++ k_us ++ slugify (vdesc_text vd), rconst_of_val (enum_const_val s vd))) (s_value_descriptions s)) &&
  Bool.eqb (e_on_bool e) (s_length s =? 1) &&
  list_eqb (fun a b => rconst_eqb (fst a) (fst b) && name_eqb (snd a) (snd b)) (e_cases e)
    (map (fun vd => (case_of s vd, vdesc_text vd)) (s_value_descriptions s)) &&
  name_eqb (e_default e) (t ++ (if s_length s =? 1 then fmt_t else fmt_d)).
Definition find_enum (n : name) (es : list enum) : option enum :=
  match filter (fun e => name_eqb (e_name e) n) es with [e] => Some e | _ => None end.
Definition signal_enum_ok (es : list enum) (m : message) (s : signal) : bool :=
  if has_custom_type s then
    match find_enum (enum_type_name m s) es with Some e => enum_ok_for m s e | None => false end
  else true.
(** every signal with value descriptions has exactly one enum type of its name, as demanded; no other enum types *)
Definition enums_ok (db : database) (p : package) : bool :=
  forallb (fun m => forallb (signal_enum_ok (p_enums p) m) (msg_signals m)) (db_messages db) &&
  forallb (fun e => existsb (fun m => existsb (fun s => has_custom_type s && name_eqb (e_name e) (enum_type_name m s))
                                              (msg_signals m)) (db_messages db)) (p_enums p).

(** ---- generated node types (C11) *)
Definition rx_prefix : name := Eval compute in Ast.bytes_of_string "_Rx_"%string.
Definition tx_prefix : name := Eval compute in Ast.bytes_of_string "_Tx_"%string.
(** the message type an rx/tx field holds: field -> declared type -> embedded message type *)
Definition held_message (fields types : list (name * name)) (f : name) : option name :=
  match assoc f fields with Some t => assoc t types | None => None end.
Definition resolved_received (ng : nodegen) : option (list (Z * name)) :=
  resolve_all (fun c => match held_message (ng_rxfields ng) (ng_rxtypes ng) (snd c) with
                        | Some mn => Some (fst c, mn) | None => None end) (ng_received ng).
Definition resolved_transmitted (ng : nodegen) : option (list name) :=
  resolve_all (held_message (ng_txfields ng) (ng_txtypes ng)) (ng_transmitted ng).
Fixpoint first_case (l : list (Z * name)) (id : Z) : option name :=
  match l with [] => None | (k, n) :: tl => if k =? id then Some n else first_case tl id end.
(** ReceivedMessage(id): the message type of the rx instance returned ([Some None]: nil, false) *)
Definition wiring_received (ng : nodegen) (id : Z) : option (option name) :=
  if ng_received_default ng then
    match resolved_received ng with Some l => Some (first_case l id) | None => None end
  else None.
(** TransmittedMessages(): the message types of the listed tx instances, in order *)
Definition wiring_transmitted (ng : nodegen) : option (list name) := resolved_transmitted ng.

Definition pair_eqb (a b : name * name) : bool := name_eqb (fst a) (fst b) && name_eqb (snd a) (snd b).
Definition nodegen_ok (db : database) (n : node) (ng : nodegen) : bool :=
  let nn := node_name n in
  let rx := collect_rx db n in let tx := collect_tx db n in
  let fld m := xxx_prefix ++ msg_name m in
  let rxt m := xxx_prefix ++ nn ++ rx_prefix ++ msg_name m in
  let txt m := xxx_prefix ++ nn ++ tx_prefix ++ msg_name m in
  name_eqb (ng_name ng) nn && name_eqb (ng_desc ng) nn &&
  list_eqb pair_eqb (ng_rxfields ng) (map (fun m => (fld m, rxt m)) rx) &&
  list_eqb pair_eqb (ng_txfields ng) (map (fun m => (fld m, txt m)) tx) &&
  list_eqb pair_eqb (ng_rxtypes ng) (map (fun m => (rxt m, msg_name m)) rx) &&
  list_eqb pair_eqb (ng_txtypes ng) (map (fun m => (txt m, msg_name m)) tx) &&
  list_eqb pair_eqb (ng_rxacc ng) (map (fun m => (msg_name m, fld m)) rx) &&
  list_eqb pair_eqb (ng_txacc ng) (map (fun m => (msg_name m, fld m)) tx) &&
  ng_received_default ng &&
  opt_eqb (list_eqb (fun a b => (fst a =? fst b) && name_eqb (snd a) (snd b))) (resolved_received ng)
          (Some (map (fun m => (msg_id m, msg_name m)) rx)) &&
  opt_eqb (list_eqb name_eqb) (resolved_transmitted ng) (Some (map msg_name tx)).
Fixpoint nodegens_ok (db : database) (ns : list node) (l : list nodegen) : bool :=
  match ns, l with
  | [], [] => true
  | n :: ns', ng :: l' => nodegen_ok db n ng && nodegens_ok db ns' l'
  | _, _ => false
  end.
(** node code exactly when some message has a send type (hasSendType), then one node type per node, in order *)
Definition nodes_wiring_ok (db : database) (p : package) : bool :=
  if has_send_type db then nodegens_ok db (db_nodes db) (p_nodegens p)
  else match p_nodegens p with [] => true | _ => false end.
