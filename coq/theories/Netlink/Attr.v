(** Model of the netlink attribute (TLV) codec as used by pkg/candevice/device_linux.go, and
    of the link-info encode/decode functions built on it (C20).

    DEFINITIONS ONLY. Bytes are [Z] in 0..255, byte slices and Go strings are [list Z],
    lengths are [nat], attribute types / lengths as decoded from the wire are [Z].

    Oracle (modelled, not verified; exercised by the correspondence run):
    github.com/mdlayher/netlink v1.7.2 attribute.go / align.go / nlenc:
      attribute = u16 length (header + payload, WITHOUT padding), u16 type, payload,
      zero padding to a multiple of 4; native (= little-endian) byte order;
      nested flag 0x8000, net-byte-order flag 0x4000, AttributeDecoder.Type() masks both off.
    Every slice expression the library executes on the input is modelled with the checked
    [slice] of Layout.v, so that "the decoder never reads out of bounds" is a statement about
    this model ([OutOfBounds] unreachable) and not an assumption. *)
From Coq Require Import ZArith List Bool.
From CanVerif Require Import Netlink.Layout.
Import ListNotations.
Open Scope Z_scope.

(** ** constants (golang.org/x/sys/unix, linux) *)
Definition NLA_F_NESTED : Z := 32768.        (* netlink.Nested = 0x8000 *)
Definition NLA_TYPE_MASK : Z := 16383.       (* attrTypeMask = 0x3fff *)
Definition IFLA_IFNAME : Z := 3.
Definition IFLA_LINKINFO : Z := 18.
Definition IFLA_INFO_KIND : Z := 1.
Definition IFLA_INFO_DATA : Z := 2.
Definition IFLA_INFO_XSTATS : Z := 3.
Definition IFLA_CAN_BITTIMING : Z := 1.
Definition IFLA_CAN_BITTIMING_CONST : Z := 2.
Definition IFLA_CAN_CLOCK : Z := 3.
Definition IFLA_CAN_CTRLMODE : Z := 5.
Definition IFLA_CAN_BERR_COUNTER : Z := 8.
Definition ARPHRD_CAN : Z := 280.
Definition kind_can : list Z := [99; 97; 110].          (* "can" *)
Definition kind_vcan : list Z := [118; 99; 97; 110].    (* "vcan" *)

(** ** TLV encoding: netlink.MarshalAttributes / Attribute.marshal *)

Definition nla_header_len : nat := 4.
(** nlaAlign: (n + 3) & ^3 *)
Definition nla_align (n : nat) : nat := (4 * ((n + 3) / 4))%nat.
(** largest payload an AttributeEncoder accepts: math.MaxUint16 - nlaHeaderLen *)
Definition max_payload : Z := 65531.

Definition attr_bytes (typ : Z) (data : list Z) : list Z :=
  put_u16 (Z.of_nat (nla_header_len + length data)) ++ put_u16 typ ++ data
  ++ repeat 0 (nla_align (length data) - length data).

(** AttributeEncoder.{Bytes,Do,String} + Encode: any payload longer than 65531 bytes makes
    Encode return an error (Bytes/Do: explicit check; String: s of 65531 bytes passes the check
    on len(s) but its NUL-terminated payload of 65532 bytes makes the u16 length wrap to 0,
    which Attribute.marshal rejects). *)
Fixpoint marshal_attrs (attrs : list (Z * list Z)) : outcome (list Z) :=
  match attrs with
  | [] => Ok []
  | (t, d) :: tl =>
      if max_payload <? Z.of_nat (length d) then Error
      else rest <- marshal_attrs tl ;; Ok (attr_bytes t d ++ rest)
  end.

(** ** TLV decoding: netlink.AttributeDecoder *)

(** Attribute.unmarshal on the rest of the buffer b = ad.b[ad.i:]:
    result (Length, Type, Data) *)
Definition attr_unmarshal (b : list Z) : outcome (nat * Z * list Z) :=
  if Nat.ltb (length b) nla_header_len then Error else
  l <- rd_u16 b 0 2 ;;
  t <- rd_u16 b 2 4 ;;
  let len := Z.to_nat l in
  if Nat.ltb (length b) len then Error else
  if Nat.eqb len 0 then Ok (0%nat, t, []) else
  if Nat.ltb len nla_header_len then Error else
  d <- slice b nla_header_len len ;;
  Ok (len, t, d).

(** AttributeDecoder.available (run by NewAttributeDecoder): walk the buffer by the length
    fields; error when fewer than 4 bytes remain. The walk consumes at least 4 bytes per
    step, so [fuel] = length of the buffer is enough (Proofs.v: available_fuel). *)
Fixpoint available (fuel : nat) (b : list Z) : outcome unit :=
  match fuel with
  | O => Ok tt
  | S fuel' =>
      if Nat.eqb (length b) 0 then Ok tt else
      if Nat.ltb (length b) nla_header_len then Error else
      l <- rd_u16 b 0 2 ;;
      let len := Nat.max (Z.to_nat l) nla_header_len in
      available fuel' (skipn (nla_align len) b)
  end.

(** the loop [for ad.Next() { err = handle(ad.Type(), ad.Bytes()); if err != nil { return err } }]
    followed by the caller's [ad.Err()]: the handler [h] gets the RAW type field and the
    payload, and threads the decoded state. Whether the Go handler returns the error itself
    or records it in ad.err (Nested/Do), the loop stops and the caller sees an error. *)
Fixpoint attrs_iter {S : Type} (fuel : nat) (h : S -> Z -> list Z -> outcome S)
         (b : list Z) (st : S) : outcome S :=
  match fuel with
  | O => Ok st
  | Datatypes.S fuel' =>
      if Nat.eqb (length b) 0 then Ok st else
      a <- attr_unmarshal b ;;
      let '(len, t, d) := a in
      st' <- h st t d ;;
      let adv := if Nat.ltb len nla_header_len then nla_header_len else nla_align len in
      attrs_iter fuel' h (skipn adv b) st'
  end.

(** NewAttributeDecoder(b) + loop + Err() *)
Definition decode_attrs {S : Type} (h : S -> Z -> list Z -> outcome S) (b : list Z) (st : S)
  : outcome S :=
  _ <- available (length b) b ;;
  attrs_iter (length b) h b st.

(** nlenc.String: bytes.TrimRight(b, "\x00") *)
Fixpoint trim_nul (l : list Z) : list Z :=
  match l with
  | [] => []
  | x :: tl =>
      match trim_nul tl with
      | [] => if x =? 0 then [] else [x]
      | t => x :: t
      end
  end.

Fixpoint bytes_eqb (a b : list Z) : bool :=
  match a, b with
  | [], [] => true
  | x :: a', y :: b' => (x =? y) && bytes_eqb a' b'
  | _, _ => false
  end.

(** ** Info / linkInfoMsg (device_linux.go:252-262, 506-569) *)

Record info := {
  i_bittiming : bittiming;
  i_bittiming_const : bittiming_const;
  i_clock : clock;
  i_ctrlmode : ctrlmode;
  i_berr : berr_counters;
  i_type : list Z            (* Info.Type, set by Device.unmarshalBinary only *)
}.
Record linkinfo := { li_kind : list Z; li_info : info; li_stats : stats }.

Definition bittiming_zero : bittiming := Build_bittiming 0 0 0 0 0 0 0 0.
Definition bittiming_const_zero : bittiming_const :=
  Build_bittiming_const (repeat 0 16) 0 0 0 0 0 0 0 0.
Definition ctrlmode_zero : ctrlmode := Build_ctrlmode 0 0.
Definition stats_zero : stats := Build_stats 0 0 0 0 0 0.
Definition info_zero : info :=
  Build_info bittiming_zero bittiming_const_zero (Build_clock 0) ctrlmode_zero
             (Build_berr_counters 0 0) [].
Definition linkinfo_zero : linkinfo := Build_linkinfo [] info_zero stats_zero.

Definition set_bt (i : info) (x : bittiming) : info :=
  Build_info x (i_bittiming_const i) (i_clock i) (i_ctrlmode i) (i_berr i) (i_type i).
Definition set_btc (i : info) (x : bittiming_const) : info :=
  Build_info (i_bittiming i) x (i_clock i) (i_ctrlmode i) (i_berr i) (i_type i).
Definition set_clock (i : info) (x : clock) : info :=
  Build_info (i_bittiming i) (i_bittiming_const i) x (i_ctrlmode i) (i_berr i) (i_type i).
Definition set_cm (i : info) (x : ctrlmode) : info :=
  Build_info (i_bittiming i) (i_bittiming_const i) (i_clock i) x (i_berr i) (i_type i).
Definition set_berr (i : info) (x : berr_counters) : info :=
  Build_info (i_bittiming i) (i_bittiming_const i) (i_clock i) (i_ctrlmode i) x (i_type i).
Definition set_type (i : info) (x : list Z) : info :=
  Build_info (i_bittiming i) (i_bittiming_const i) (i_clock i) (i_ctrlmode i) (i_berr i) x.

(** Info.decode, one iteration of the switch on nad.Type() (device_linux.go:506-527) *)
Definition info_handler (i : info) (rawtype : Z) (d : list Z) : outcome info :=
  let t := Z.land rawtype NLA_TYPE_MASK in
  if t =? IFLA_CAN_BITTIMING then x <- unmarshal_bittiming d ;; Ok (set_bt i x)
  else if t =? IFLA_CAN_BITTIMING_CONST then x <- unmarshal_bittiming_const d ;; Ok (set_btc i x)
  else if t =? IFLA_CAN_CLOCK then x <- unmarshal_clock d ;; Ok (set_clock i x)
  else if t =? IFLA_CAN_CTRLMODE then x <- unmarshal_ctrlmode d ;; Ok (set_cm i x)
  else if t =? IFLA_CAN_BERR_COUNTER then x <- unmarshal_berr_counters d ;; Ok (set_berr i x)
  else Ok i.

Definition decode_info (i0 : info) (b : list Z) : outcome info := decode_attrs info_handler b i0.

(** linkInfoMsg.decode, one iteration (device_linux.go:542-563) *)
Definition linkinfo_handler (li : linkinfo) (rawtype : Z) (d : list Z) : outcome linkinfo :=
  let t := Z.land rawtype NLA_TYPE_MASK in
  if t =? IFLA_INFO_KIND then
    let k := trim_nul d in
    if bytes_eqb k kind_can || bytes_eqb k kind_vcan
    then Ok (Build_linkinfo k (li_info li) (li_stats li))
    else Error
  else if t =? IFLA_INFO_DATA then
    i <- decode_info (li_info li) d ;; Ok (Build_linkinfo (li_kind li) i (li_stats li))
  else if t =? IFLA_INFO_XSTATS then
    s <- unmarshal_stats d ;; Ok (Build_linkinfo (li_kind li) (li_info li) s)
  else Ok li.

(** li.decode driven by a netlink.AttributeDecoder over b, receiver initially li0 *)
Definition decode_linkinfo_from (li0 : linkinfo) (b : list Z) : outcome linkinfo :=
  decode_attrs linkinfo_handler b li0.
Definition decode_linkinfo (b : list Z) : outcome linkinfo := decode_linkinfo_from linkinfo_zero b.

(** Info.encode through a fresh AttributeEncoder + Encode() (device_linux.go:530-534) *)
Definition encode_info (i : info) : outcome (list Z) :=
  bt <- marshal_bittiming (i_bittiming i) ;;
  cm <- marshal_ctrlmode (i_ctrlmode i) ;;
  marshal_attrs [ (IFLA_CAN_BITTIMING, bt); (IFLA_CAN_CTRLMODE, cm) ].

(** linkInfoMsg.encode through a fresh AttributeEncoder + Encode()
    (device_linux.go:565-569): String(IFLA_INFO_KIND, kind) ; Nested(IFLA_INFO_DATA, info.encode) *)
Definition encode_linkinfo (li : linkinfo) : outcome (list Z) :=
  if max_payload <? Z.of_nat (length (li_kind li)) then Error else
  d <- encode_info (li_info li) ;;
  marshal_attrs [ (IFLA_INFO_KIND, li_kind li ++ [0]);
                  (Z.lor NLA_F_NESTED IFLA_INFO_DATA, d) ].

(** what SetBitrate/SetListenOnlyMode append to the request:
    ae.Nested(unix.IFLA_LINKINFO, li.encode); ae.Encode() *)
Definition encode_linkinfo_msg (li : linkinfo) : outcome (list Z) :=
  d <- encode_linkinfo li ;;
  marshal_attrs [ (Z.lor NLA_F_NESTED IFLA_LINKINFO, d) ].

(** ** Device.unmarshalBinary (device_linux.go:309-335): ifinfomsg header + attributes.
    NOTE the first statement slices data[:16] WITHOUT a length check. *)
Record device := { dev_ifname : list Z; dev_ifi : ifinfomsg; dev_li : linkinfo }.
Definition device_zero : device := Build_device [] (Build_ifinfomsg 0 0 0 0 0) linkinfo_zero.

Definition device_handler (dv : device) (rawtype : Z) (d : list Z) : outcome device :=
  let t := Z.land rawtype NLA_TYPE_MASK in
  if t =? IFLA_IFNAME then Ok (Build_device (trim_nul d) (dev_ifi dv) (dev_li dv))
  else if t =? IFLA_LINKINFO then
    li <- decode_linkinfo_from (dev_li dv) d ;;
    Ok (Build_device (dev_ifname dv) (dev_ifi dv)
          (Build_linkinfo (li_kind li) (set_type (li_info li) (li_kind li)) (li_stats li)))
  else Ok dv.

Definition device_unmarshal (dv : device) (data : list Z) : outcome device :=
  hd <- slice data 0 sizeof_ifinfomsg ;;
  ifi <- unmarshal_ifinfomsg hd ;;
  tl <- slice data sizeof_ifinfomsg (length data) ;;
  _ <- available (length tl) tl ;;
  if negb (ifi_type ifi =? ARPHRD_CAN) then Error else
  attrs_iter (length tl) device_handler tl (Build_device (dev_ifname dv) ifi (dev_li dv)).
