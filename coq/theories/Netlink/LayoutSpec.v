(** Specification for C20: the in-memory images of the Linux UAPI structures, written from
    the C declarations and the C ABI layout rule, independently of device_linux.go
    (no offsets appear here: they are COMPUTED from the field list).

    Layout rule (System V ABI for every Linux target Go supports; all members here are
    scalars of size 1, 2 or 4 or char arrays): members are placed in declaration order, each
    at the next offset that is a multiple of its alignment (= its size for a scalar, 1 for a
    char array), gaps are padding; the struct is padded at the end to a multiple of its largest
    member alignment. Padding is written as 0 (the kernel and the Go structs zero it).
    Byte order: LITTLE-ENDIAN host: byte k of a scalar is floor(u / 256^k) mod 256 where u
    is the value reduced to an unsigned word (two's complement for the signed int).

    DEFINITIONS ONLY. A byte is a [Z] in 0..255, an image a [list Z]. *)
From Coq Require Import ZArith List Bool.
From CanVerif Require Import Netlink.Layout.
Import ListNotations.
Open Scope Z_scope.

Inductive cty := CU8 | CU16 | CU32 | CI32 | CChars (n : nat).

Definition c_size (t : cty) : nat :=
  match t with CU8 => 1 | CU16 => 2 | CU32 => 4 | CI32 => 4 | CChars n => n end%nat.
Definition c_align (t : cty) : nat :=
  match t with CU8 => 1 | CU16 => 2 | CU32 => 4 | CI32 => 4 | CChars _ => 1 end%nat.

(** a member value: a number for scalars, the bytes for a char array *)
Inductive cval := Num (v : Z) | Chars (l : list Z).

Definition le_bytes (n : nat) (u : Z) : list Z :=
  map (fun k => (u / 256 ^ Z.of_nat k) mod 256) (seq 0 n).

(** the unsigned word that represents v in a scalar of type t *)
Definition word_of (t : cty) (v : Z) : Z :=
  match t with
  | CI32 => if v <? 0 then v + 2 ^ 32 else v
  | _ => v
  end.

Definition member_image (t : cty) (v : cval) : list Z :=
  match v with
  | Num x => le_bytes (c_size t) (word_of t x)
  | Chars l => firstn (c_size t) (l ++ repeat 0 (c_size t))
  end.

(** bytes of padding needed at offset [off] to reach a multiple of [al] *)
Definition pad_to (off al : nat) : nat := ((al - off mod al) mod al)%nat.

Fixpoint c_members (off : nat) (ms : list (cty * cval)) : list Z :=
  match ms with
  | [] => []
  | (t, v) :: tl =>
      let p := pad_to off (c_align t) in
      repeat 0 p ++ member_image t v ++ c_members (off + p + c_size t) tl
  end.

Definition c_struct_align (ms : list (cty * cval)) : nat :=
  fold_right (fun m a => Nat.max (c_align (fst m)) a) 1%nat ms.

Definition c_struct (ms : list (cty * cval)) : list Z :=
  let body := c_members 0 ms in
  body ++ repeat 0 (pad_to (length body) (c_struct_align ms)).

(** ** the structures, transcribed from the kernel headers *)

(** include/uapi/linux/rtnetlink.h:
    struct ifinfomsg { unsigned char ifi_family; unsigned char __ifi_pad;
                       unsigned short ifi_type; int ifi_index;
                       unsigned ifi_flags; unsigned ifi_change; }; *)
Definition spec_ifinfomsg (x : ifinfomsg) : list Z :=
  c_struct [ (CU8, Num (ifi_family x)); (CU8, Num 0); (CU16, Num (ifi_type x));
             (CI32, Num (ifi_index x)); (CU32, Num (ifi_flags x)); (CU32, Num (ifi_change x)) ].

(** include/uapi/linux/can/netlink.h:
    struct can_bittiming { __u32 bitrate, sample_point, tq, prop_seg, phase_seg1,
                                 phase_seg2, sjw, brp; }; *)
Definition spec_bittiming (x : bittiming) : list Z :=
  c_struct [ (CU32, Num (bt_bitrate x)); (CU32, Num (bt_sample_point x)); (CU32, Num (bt_tq x));
             (CU32, Num (bt_prop_seg x)); (CU32, Num (bt_phase_seg1 x)); (CU32, Num (bt_phase_seg2 x));
             (CU32, Num (bt_sjw x)); (CU32, Num (bt_brp x)) ].

(** struct can_bittiming_const { char name[16]; __u32 tseg1_min, tseg1_max, tseg2_min,
                                  tseg2_max, sjw_max, brp_min, brp_max, brp_inc; }; *)
Definition spec_bittiming_const (x : bittiming_const) : list Z :=
  c_struct [ (CChars 16, Chars (btc_name x));
             (CU32, Num (btc_tseg1_min x)); (CU32, Num (btc_tseg1_max x));
             (CU32, Num (btc_tseg2_min x)); (CU32, Num (btc_tseg2_max x));
             (CU32, Num (btc_sjw_max x)); (CU32, Num (btc_brp_min x));
             (CU32, Num (btc_brp_max x)); (CU32, Num (btc_brp_inc x)) ].

(** struct can_clock { __u32 freq; }; *)
Definition spec_clock (x : clock) : list Z := c_struct [ (CU32, Num (clk_freq x)) ].

(** struct can_ctrlmode { __u32 mask; __u32 flags; }; *)
Definition spec_ctrlmode (x : ctrlmode) : list Z :=
  c_struct [ (CU32, Num (cm_mask x)); (CU32, Num (cm_flags x)) ].

(** struct can_berr_counter { __u16 txerr; __u16 rxerr; }; *)
Definition spec_berr_counters (x : berr_counters) : list Z :=
  c_struct [ (CU16, Num (bec_txerr x)); (CU16, Num (bec_rxerr x)) ].

(** struct can_device_stats { __u32 bus_error, error_warning, error_passive, bus_off,
                                    arbitration_lost, restarts; }; *)
Definition spec_stats (x : stats) : list Z :=
  c_struct [ (CU32, Num (st_bus_error x)); (CU32, Num (st_error_warning x));
             (CU32, Num (st_error_passive x)); (CU32, Num (st_bus_off x));
             (CU32, Num (st_arbitration_lost x)); (CU32, Num (st_restarts x)) ].

(** sizeof as the ABI computes it (independent of the values) *)
Definition c_sizeof (ts : list cty) : nat := length (c_struct (map (fun t => (t, Num 0)) ts)).
