(** The reference walker programs of Program.v, executed step by step, ARE the hand model of Attr.v. *)
From Coq Require Import ZArith List Bool.
From CanVerif Require Import Netlink.Layout Netlink.Attr Netlink.Program.
Import ListNotations.
Open Scope Z_scope.

Lemma attrs_iter_ext {S : Type} (h1 h2 : S -> Z -> list Z -> outcome S) :
  (forall st t d, h1 st t d = h2 st t d) ->
  forall fuel b st, attrs_iter fuel h1 b st = attrs_iter fuel h2 b st.
Proof.
  intros H. induction fuel as [| fuel IH]; intros b st; cbn [attrs_iter]; [reflexivity |].
  destruct (Nat.eqb (length b) 0); [reflexivity |].
  destruct (attr_unmarshal b) as [[[len t] d] | |]; cbn [bind]; try reflexivity.
  rewrite H. destruct (h2 st t d); cbn [bind]; try reflexivity. apply IH.
Qed.

Lemma decode_attrs_ext {S : Type} (h1 h2 : S -> Z -> list Z -> outcome S) :
  (forall st t d, h1 st t d = h2 st t d) -> forall b st, decode_attrs h1 b st = decode_attrs h2 b st.
Proof.
  intros H b st. unfold decode_attrs. destruct (available (length b) b); cbn [bind]; try reflexivity.
  apply attrs_iter_ext, H.
Qed.

Lemma info_step_is_handler i t d : step info_exec info_walk i t d = info_handler i t d.
Proof.
  unfold step, info_handler, info_walk. cbn [select].
  repeat (destruct (_ =? _); [reflexivity |]). reflexivity.
Qed.

Theorem info_program_is_model i0 b : run_info info_walk i0 b = decode_info i0 b.
Proof. apply decode_attrs_ext, info_step_is_handler. Qed.

Lemma linkinfo_step_is_handler li t d :
  step (linkinfo_exec info_walk) linkinfo_walk li t d = linkinfo_handler li t d.
Proof.
  unfold step, linkinfo_handler, linkinfo_walk. cbn [select].
  destruct (_ =? IFLA_INFO_KIND); [reflexivity |].
  destruct (_ =? IFLA_INFO_DATA); [cbn [linkinfo_exec]; now rewrite info_program_is_model |].
  destruct (_ =? IFLA_INFO_XSTATS); reflexivity.
Qed.

Theorem linkinfo_program_is_model li0 b :
  run_linkinfo info_walk linkinfo_walk li0 b = decode_linkinfo_from li0 b.
Proof. apply decode_attrs_ext, linkinfo_step_is_handler. Qed.

Lemma device_step_is_handler dv t d :
  step (device_exec info_walk linkinfo_walk) device_walk dv t d = device_handler dv t d.
Proof.
  unfold step, device_handler, device_walk. cbn [select].
  destruct (_ =? IFLA_IFNAME); [reflexivity |].
  destruct (_ =? IFLA_LINKINFO); [cbn [device_exec]; now rewrite linkinfo_program_is_model | reflexivity].
Qed.

Theorem device_program_is_model dv data :
  run_device info_walk linkinfo_walk device_walk dv data = device_unmarshal dv data.
Proof.
  unfold run_device, device_unmarshal.
  destruct (slice data 0 sizeof_ifinfomsg); cbn [bind]; try reflexivity.
  destruct (unmarshal_ifinfomsg x); cbn [bind]; try reflexivity.
  destruct (slice data sizeof_ifinfomsg (length data)); cbn [bind]; try reflexivity.
  destruct (available (length x1) x1); cbn [bind]; try reflexivity.
  destruct (negb (ifi_type x0 =? ARPHRD_CAN)); [reflexivity |].
  apply attrs_iter_ext, device_step_is_handler.
Qed.

(** an error of an attribute's action ends the walk with an error: nothing after it runs, no later
    attribute can overwrite it *)
Theorem walk_error_ends {S : Type} (exec : act -> S -> list Z -> outcome S) w fuel b st len t d :
  length b <> 0%nat -> attr_unmarshal b = Ok (len, t, d) -> step exec w st t d = Error ->
  attrs_iter (Datatypes.S fuel) (step exec w) b st = Error.
Proof.
  intros Hl Ha He. cbn [attrs_iter]. destruct (Nat.eqb (length b) 0) eqn:E.
  - apply Nat.eqb_eq in E. contradiction.
  - rewrite Ha. cbn [bind]. rewrite He. reflexivity.
Qed.

(** attribute types without a case are skipped: the state is unchanged and the walk goes on *)
Theorem walk_unknown_skipped {S : Type} (exec : act -> S -> list Z -> outcome S) w st t d :
  select w (Z.land t NLA_TYPE_MASK) = None -> step exec w st t d = Ok st.
Proof. intros H. unfold step. now rewrite H. Qed.

Theorem encode_info_program_is_model i : run_encode_info info_encode_prog i = encode_info i.
Proof.
  unfold run_encode_info, encode_info, info_encode_prog. cbn [collect_info].
  destruct (marshal_bittiming (i_bittiming i)), (marshal_ctrlmode (i_ctrlmode i)); reflexivity.
Qed.

Theorem encode_linkinfo_program_is_model li :
  run_encode_linkinfo info_encode_prog linkinfo_encode_prog li = encode_linkinfo li.
Proof.
  unfold run_encode_linkinfo, encode_linkinfo, linkinfo_encode_prog. cbn [collect_linkinfo].
  rewrite encode_info_program_is_model.
  destruct (max_payload <? Z.of_nat (length (li_kind li))), (encode_info (li_info li)); reflexivity.
Qed.
