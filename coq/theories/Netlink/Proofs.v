(** Proofs for C20: layout = C struct image, decode inverts encode, size checks, no
    out-of-bounds access, TLV round trip. Model: Netlink/Layout.v, Netlink/Attr.v;
    specification: Netlink/LayoutSpec.v. Native byte order = little-endian throughout. *)
From Coq Require Import ZArith List Bool Lia.
From CanVerif Require Import Netlink.Layout Netlink.LayoutSpec Netlink.Attr.
Import ListNotations.
Open Scope Z_scope.

(** * bytes of a word *)

Lemma byte_div v k : 0 <= k -> byte v k = (v / 2 ^ (8 * k)) mod 256.
Proof.
  intros Hk. unfold byte. rewrite Z.shiftr_div_pow2 by lia.
  change 255 with (Z.ones 8). rewrite Z.land_ones by lia. reflexivity.
Qed.

Lemma byte_range v k : 0 <= k -> u8 (byte v k).
Proof. intros. unfold u8. rewrite byte_div by lia. change (2 ^ 8) with 256. apply Z.mod_pos_bound. lia. Qed.

Lemma le16 v : 0 <= v < 2 ^ 16 -> byte v 0 + 256 * byte v 1 = v.
Proof.
  intros H. rewrite !byte_div by lia.
  change (2 ^ (8 * 0)) with 1. change (2 ^ (8 * 1)) with 256. change (2 ^ 16) with 65536 in H.
  pose proof (Z.div_mod v 1 ltac:(lia)). pose proof (Z.div_mod (v / 1) 256 ltac:(lia)).
  pose proof (Z.div_mod (v / 256) 256 ltac:(lia)).
  pose proof (Z.mod_pos_bound (v / 1) 256 ltac:(lia)). pose proof (Z.mod_pos_bound (v / 256) 256 ltac:(lia)).
  rewrite Z.div_1_r in *. assert (v / 256 < 256) by (apply Z.div_lt_upper_bound; lia).
  assert (0 <= v / 256) by (apply Z.div_pos; lia).
  rewrite (Z.mod_small (v / 256) 256) by lia. lia.
Qed.

Lemma le32 v : 0 <= v < 2 ^ 32 ->
  byte v 0 + 256 * byte v 1 + 65536 * byte v 2 + 16777216 * byte v 3 = v.
Proof.
  intros H. rewrite !byte_div by lia.
  change (2 ^ (8 * 0)) with 1. change (2 ^ (8 * 1)) with 256.
  change (2 ^ (8 * 2)) with 65536. change (2 ^ (8 * 3)) with 16777216.
  change (2 ^ 32) with 4294967296 in H. rewrite Z.div_1_r.
  pose proof (Z.div_mod v 256 ltac:(lia)). pose proof (Z.mod_pos_bound v 256 ltac:(lia)).
  pose proof (Z.div_mod v 65536 ltac:(lia)). pose proof (Z.mod_pos_bound v 65536 ltac:(lia)).
  pose proof (Z.div_mod v 16777216 ltac:(lia)). pose proof (Z.mod_pos_bound v 16777216 ltac:(lia)).
  pose proof (Z.div_mod (v / 256) 256 ltac:(lia)). pose proof (Z.mod_pos_bound (v / 256) 256 ltac:(lia)).
  pose proof (Z.div_mod (v / 65536) 256 ltac:(lia)). pose proof (Z.mod_pos_bound (v / 65536) 256 ltac:(lia)).
  assert (E1 : v / 65536 = v / 256 / 256) by (rewrite Z.div_div by lia; reflexivity).
  assert (E2 : v / 16777216 = v / 65536 / 256) by (rewrite Z.div_div by lia; reflexivity).
  assert (0 <= v / 16777216 < 256) by (split; [apply Z.div_pos; lia | apply Z.div_lt_upper_bound; lia]).
  rewrite (Z.mod_small (v / 16777216) 256) by lia. lia.
Qed.

(** the bytes of a little-endian number are its digits *)
Ltac Zify.zify_post_hook ::= Z.div_mod_to_equations.

Lemma byte_of_le16 b0 b1 : u8 b0 -> u8 b1 ->
  byte (b0 + 256 * b1) 0 = b0 /\ byte (b0 + 256 * b1) 1 = b1.
Proof.
  unfold u8. change (2 ^ 8) with 256. intros H0 H1. rewrite !byte_div by lia.
  change (2 ^ (8 * 0)) with 1. change (2 ^ (8 * 1)) with 256. split; lia.
Qed.

Lemma byte_of_le32 b0 b1 b2 b3 : u8 b0 -> u8 b1 -> u8 b2 -> u8 b3 ->
  let v := b0 + 256 * b1 + 65536 * b2 + 16777216 * b3 in
  byte v 0 = b0 /\ byte v 1 = b1 /\ byte v 2 = b2 /\ byte v 3 = b3.
Proof.
  unfold u8. change (2 ^ 8) with 256. cbv zeta. intros H0 H1 H2 H3. rewrite !byte_div by lia.
  change (2 ^ (8 * 0)) with 1. change (2 ^ (8 * 1)) with 256.
  change (2 ^ (8 * 2)) with 65536. change (2 ^ (8 * 3)) with 16777216.
  repeat split; lia.
Qed.

Lemma le32_range b0 b1 b2 b3 : u8 b0 -> u8 b1 -> u8 b2 -> u8 b3 ->
  u32 (b0 + 256 * b1 + 65536 * b2 + 16777216 * b3).
Proof. unfold u8, u32. change (2 ^ 8) with 256. change (2 ^ 32) with 4294967296. lia. Qed.

Lemma i32_roundtrip v : i32 v ->
  (if v mod 2 ^ 32 <? 2 ^ 31 then v mod 2 ^ 32 else v mod 2 ^ 32 - 2 ^ 32) = v.
Proof.
  unfold i32. change (2 ^ 31) with 2147483648. change (2 ^ 32) with 4294967296. intros H.
  destruct (Z.ltb_spec (v mod 4294967296) 2147483648); lia.
Qed.

Lemma word_of_i32 v : i32 v -> word_of CI32 v = v mod 2 ^ 32.
Proof.
  unfold i32, word_of. change (2 ^ 31) with 2147483648. change (2 ^ 32) with 4294967296. intros H.
  destruct (Z.ltb_spec v 0); lia.
Qed.

Ltac Zify.zify_post_hook ::= idtac.

(** * the model's byte writers produce the specification's little-endian images *)

Definition lb (v : Z) (k : nat) : Z := (v / 256 ^ Z.of_nat k) mod 256.

Lemma le_bytes_lb n u : le_bytes n u = map (lb u) (seq 0 n).
Proof. reflexivity. Qed.

Lemma byte_lb v k : byte v (Z.of_nat k) = lb v k.
Proof. unfold lb. rewrite byte_div by lia. rewrite Z.pow_mul_r by lia. reflexivity. Qed.

Lemma put_u32_le v : put_u32 v = le_bytes 4 v.
Proof.
  rewrite le_bytes_lb. cbn [seq map].
  change (put_u32 v) with [byte v (Z.of_nat 0); byte v (Z.of_nat 1); byte v (Z.of_nat 2); byte v (Z.of_nat 3)].
  rewrite !byte_lb. reflexivity.
Qed.

Lemma put_u16_le v : put_u16 v = le_bytes 2 v.
Proof.
  rewrite le_bytes_lb. cbn [seq map].
  change (put_u16 v) with [byte v (Z.of_nat 0); byte v (Z.of_nat 1)].
  rewrite !byte_lb. reflexivity.
Qed.

Lemma put_u8_le v : u8 v -> [v] = le_bytes 1 v.
Proof.
  intros H. rewrite le_bytes_lb. cbn [seq map]. unfold lb. change (256 ^ Z.of_nat 0) with 1.
  rewrite Z.div_1_r, Z.mod_small; [reflexivity|exact H].
Qed.

Lemma le_bytes4_digits b0 b1 b2 b3 : u8 b0 -> u8 b1 -> u8 b2 -> u8 b3 ->
  le_bytes 4 (b0 + 256 * b1 + 65536 * b2 + 16777216 * b3) = [b0; b1; b2; b3].
Proof.
  intros H0 H1 H2 H3. rewrite <- put_u32_le. unfold put_u32.
  destruct (byte_of_le32 b0 b1 b2 b3 H0 H1 H2 H3) as (E0 & E1 & E2 & E3).
  rewrite E0, E1, E2, E3. reflexivity.
Qed.

Lemma le_bytes2_digits b0 b1 : u8 b0 -> u8 b1 -> le_bytes 2 (b0 + 256 * b1) = [b0; b1].
Proof.
  intros H0 H1. rewrite <- put_u16_le. unfold put_u16.
  destruct (byte_of_le16 b0 b1 H0 H1) as (E0 & E1). rewrite E0, E1. reflexivity.
Qed.

(** * marshal = C struct layout *)

Lemma marshal_ifi_eq x : marshal_ifinfomsg x = Ok (
  [ifi_family x] ++ [0] ++ put_u16 (ifi_type x) ++ put_i32 (ifi_index x) ++
  put_u32 (ifi_flags x) ++ put_u32 (ifi_change x)).
Proof. reflexivity. Qed.

Lemma spec_ifi_eq x : spec_ifinfomsg x =
  le_bytes 1 (ifi_family x) ++ le_bytes 1 0 ++ le_bytes 2 (ifi_type x) ++
  le_bytes 4 (word_of CI32 (ifi_index x)) ++ le_bytes 4 (ifi_flags x) ++ le_bytes 4 (ifi_change x).
Proof. reflexivity. Qed.

Lemma marshal_bt_eq x : marshal_bittiming x = Ok (
  put_u32 (bt_bitrate x) ++ put_u32 (bt_sample_point x) ++ put_u32 (bt_tq x) ++ put_u32 (bt_prop_seg x) ++
  put_u32 (bt_phase_seg1 x) ++ put_u32 (bt_phase_seg2 x) ++ put_u32 (bt_sjw x) ++ put_u32 (bt_brp x)).
Proof. reflexivity. Qed.

Lemma spec_bt_eq x : spec_bittiming x =
  le_bytes 4 (bt_bitrate x) ++ le_bytes 4 (bt_sample_point x) ++ le_bytes 4 (bt_tq x) ++
  le_bytes 4 (bt_prop_seg x) ++ le_bytes 4 (bt_phase_seg1 x) ++ le_bytes 4 (bt_phase_seg2 x) ++
  le_bytes 4 (bt_sjw x) ++ le_bytes 4 (bt_brp x).
Proof. reflexivity. Qed.

Lemma marshal_cm_eq x : marshal_ctrlmode x = Ok (put_u32 (cm_mask x) ++ put_u32 (cm_flags x)).
Proof. reflexivity. Qed.

Lemma spec_cm_eq x : spec_ctrlmode x = le_bytes 4 (cm_mask x) ++ le_bytes 4 (cm_flags x).
Proof. reflexivity. Qed.

Theorem marshal_ifinfomsg_layout x : ifinfomsg_wf x -> marshal_ifinfomsg x = Ok (spec_ifinfomsg x).
Proof.
  intros (Hf & _ & Hi & _). rewrite marshal_ifi_eq, spec_ifi_eq. unfold put_i32.
  rewrite !put_u32_le, put_u16_le, word_of_i32 by exact Hi. rewrite (put_u8_le _ Hf). reflexivity.
Qed.

Theorem marshal_bittiming_layout x : bittiming_wf x -> marshal_bittiming x = Ok (spec_bittiming x).
Proof. intros _. rewrite marshal_bt_eq, spec_bt_eq, !put_u32_le. reflexivity. Qed.

Theorem marshal_ctrlmode_layout x : ctrlmode_wf x -> marshal_ctrlmode x = Ok (spec_ctrlmode x).
Proof. intros _. rewrite marshal_cm_eq, spec_cm_eq, !put_u32_le. reflexivity. Qed.

(** the sizes the Go constants have are the C sizeof of the structures *)
Theorem sizes_are_c_sizeof :
  sizeof_ifinfomsg = c_sizeof [CU8; CU8; CU16; CI32; CU32; CU32] /\
  sizeof_bittiming = c_sizeof [CU32; CU32; CU32; CU32; CU32; CU32; CU32; CU32] /\
  sizeof_bittiming_const = c_sizeof [CChars 16; CU32; CU32; CU32; CU32; CU32; CU32; CU32; CU32] /\
  sizeof_clock = c_sizeof [CU32] /\ sizeof_ctrlmode = c_sizeof [CU32; CU32] /\
  sizeof_berr_counters = c_sizeof [CU16; CU16] /\
  sizeof_stats = c_sizeof [CU32; CU32; CU32; CU32; CU32; CU32].
Proof. repeat split. Qed.

(** * unmarshal (marshal x) = x *)

Theorem unmarshal_marshal_ifinfomsg x bs :
  ifinfomsg_wf x -> marshal_ifinfomsg x = Ok bs -> unmarshal_ifinfomsg bs = Ok x.
Proof.
  intros H. rewrite marshal_ifi_eq. intros E. injection E as <-.
  destruct x as [f t i fl c]. unfold ifinfomsg_wf, u16, u32 in H.
  cbn [ifi_family ifi_type ifi_index ifi_flags ifi_change] in *.
  destruct H as (Hf & Ht & Hi & Hfl & Hc).
  cbv [unmarshal_ifinfomsg put_u16 put_i32 put_u32 app length Nat.eqb sizeof_ifinfomsg negb
       rd_u8 rd_u16 rd_u32 rd_i32 slice Nat.leb andb skipn firstn Nat.sub bind get_u8 get_u16 get_u32 get_i32].
  rewrite le16 by assumption. rewrite !le32 by (try assumption; apply Z.mod_pos_bound; reflexivity).
  rewrite i32_roundtrip by assumption. reflexivity.
Qed.

Theorem unmarshal_marshal_bittiming x bs :
  bittiming_wf x -> marshal_bittiming x = Ok bs -> unmarshal_bittiming bs = Ok x.
Proof.
  intros H. rewrite marshal_bt_eq. intros E. injection E as <-.
  destruct x as [v0 v1 v2 v3 v4 v5 v6 v7]. unfold bittiming_wf, u32 in H.
  cbn [bt_bitrate bt_sample_point bt_tq bt_prop_seg bt_phase_seg1 bt_phase_seg2 bt_sjw bt_brp] in *.
  destruct H as (H0 & H1 & H2 & H3 & H4 & H5 & H6 & H7).
  cbv [unmarshal_bittiming put_u32 app length Nat.eqb sizeof_bittiming negb rd_u32 slice Nat.leb andb
       skipn firstn Nat.sub bind get_u32].
  rewrite !le32 by assumption. reflexivity.
Qed.

Theorem unmarshal_marshal_ctrlmode x bs :
  ctrlmode_wf x -> marshal_ctrlmode x = Ok bs -> unmarshal_ctrlmode bs = Ok x.
Proof.
  intros H. rewrite marshal_cm_eq. intros E. injection E as <-.
  destruct x as [m f]. unfold ctrlmode_wf, u32 in H. cbn [cm_mask cm_flags] in *. destruct H as (H0 & H1).
  cbv [unmarshal_ctrlmode put_u32 app length Nat.eqb sizeof_ctrlmode negb rd_u32 slice Nat.leb andb
       skipn firstn Nat.sub bind get_u32].
  rewrite !le32 by assumption. reflexivity.
Qed.

(** * size checks: any other length is an error *)

Ltac wrong_size f :=
  let E := fresh in
  intros E; unfold f; match goal with |- context [Nat.eqb ?a ?b] => destruct (Nat.eqb_spec a b) as [?|?] end;
  [contradiction | reflexivity].

Theorem unmarshal_ifinfomsg_wrong_size bs : length bs <> sizeof_ifinfomsg -> unmarshal_ifinfomsg bs = Error.
Proof. wrong_size unmarshal_ifinfomsg. Qed.
Theorem unmarshal_bittiming_wrong_size bs : length bs <> sizeof_bittiming -> unmarshal_bittiming bs = Error.
Proof. wrong_size unmarshal_bittiming. Qed.
Theorem unmarshal_bittiming_const_wrong_size bs :
  length bs <> sizeof_bittiming_const -> unmarshal_bittiming_const bs = Error.
Proof. wrong_size unmarshal_bittiming_const. Qed.
Theorem unmarshal_clock_wrong_size bs : length bs <> sizeof_clock -> unmarshal_clock bs = Error.
Proof. wrong_size unmarshal_clock. Qed.
Theorem unmarshal_ctrlmode_wrong_size bs : length bs <> sizeof_ctrlmode -> unmarshal_ctrlmode bs = Error.
Proof. wrong_size unmarshal_ctrlmode. Qed.
Theorem unmarshal_berr_counters_wrong_size bs :
  length bs <> sizeof_berr_counters -> unmarshal_berr_counters bs = Error.
Proof. wrong_size unmarshal_berr_counters. Qed.
Theorem unmarshal_stats_wrong_size bs : length bs <> sizeof_stats -> unmarshal_stats bs = Error.
Proof. wrong_size unmarshal_stats. Qed.

(** * a slice of the right size always decodes, and no input reaches an out-of-bounds access *)

Ltac explode bs E :=
  repeat (destruct bs as [|? bs]; [discriminate E|]); destruct bs; [|discriminate E].

Ltac right_size f sz :=
  let E := fresh "E" in
  intros E; unfold f;
  match goal with |- context [Nat.eqb ?a ?b] => destruct (Nat.eqb_spec a b) as [_|?]; [|contradiction] end;
  unfold sz in E;
  match type of E with length ?bs = _ => explode bs E end;
  eexists; reflexivity.

Theorem unmarshal_ifinfomsg_right_size bs :
  length bs = sizeof_ifinfomsg -> exists x, unmarshal_ifinfomsg bs = Ok x.
Proof. right_size unmarshal_ifinfomsg sizeof_ifinfomsg. Qed.
Theorem unmarshal_bittiming_right_size bs :
  length bs = sizeof_bittiming -> exists x, unmarshal_bittiming bs = Ok x.
Proof. right_size unmarshal_bittiming sizeof_bittiming. Qed.
Theorem unmarshal_bittiming_const_right_size bs :
  length bs = sizeof_bittiming_const -> exists x, unmarshal_bittiming_const bs = Ok x.
Proof. right_size unmarshal_bittiming_const sizeof_bittiming_const. Qed.
Theorem unmarshal_clock_right_size bs : length bs = sizeof_clock -> exists x, unmarshal_clock bs = Ok x.
Proof. right_size unmarshal_clock sizeof_clock. Qed.
Theorem unmarshal_ctrlmode_right_size bs : length bs = sizeof_ctrlmode -> exists x, unmarshal_ctrlmode bs = Ok x.
Proof. right_size unmarshal_ctrlmode sizeof_ctrlmode. Qed.
Theorem unmarshal_berr_counters_right_size bs :
  length bs = sizeof_berr_counters -> exists x, unmarshal_berr_counters bs = Ok x.
Proof. right_size unmarshal_berr_counters sizeof_berr_counters. Qed.
Theorem unmarshal_stats_right_size bs : length bs = sizeof_stats -> exists x, unmarshal_stats bs = Ok x.
Proof. right_size unmarshal_stats sizeof_stats. Qed.

Ltac no_oob right wrong sz :=
  match goal with |- ?f ?bs <> _ =>
    destruct (Nat.eq_dec (length bs) sz) as [E|E];
    [destruct (right bs E) as (x & ->); discriminate | rewrite (wrong bs E); discriminate]
  end.

Theorem unmarshal_ifinfomsg_no_oob bs : unmarshal_ifinfomsg bs <> OutOfBounds.
Proof. no_oob unmarshal_ifinfomsg_right_size unmarshal_ifinfomsg_wrong_size sizeof_ifinfomsg. Qed.
Theorem unmarshal_bittiming_no_oob bs : unmarshal_bittiming bs <> OutOfBounds.
Proof. no_oob unmarshal_bittiming_right_size unmarshal_bittiming_wrong_size sizeof_bittiming. Qed.
Theorem unmarshal_bittiming_const_no_oob bs : unmarshal_bittiming_const bs <> OutOfBounds.
Proof. no_oob unmarshal_bittiming_const_right_size unmarshal_bittiming_const_wrong_size sizeof_bittiming_const. Qed.
Theorem unmarshal_clock_no_oob bs : unmarshal_clock bs <> OutOfBounds.
Proof. no_oob unmarshal_clock_right_size unmarshal_clock_wrong_size sizeof_clock. Qed.
Theorem unmarshal_ctrlmode_no_oob bs : unmarshal_ctrlmode bs <> OutOfBounds.
Proof. no_oob unmarshal_ctrlmode_right_size unmarshal_ctrlmode_wrong_size sizeof_ctrlmode. Qed.
Theorem unmarshal_berr_counters_no_oob bs : unmarshal_berr_counters bs <> OutOfBounds.
Proof. no_oob unmarshal_berr_counters_right_size unmarshal_berr_counters_wrong_size sizeof_berr_counters. Qed.
Theorem unmarshal_stats_no_oob bs : unmarshal_stats bs <> OutOfBounds.
Proof. no_oob unmarshal_stats_right_size unmarshal_stats_wrong_size sizeof_stats. Qed.

(** marshalling never panics either *)
Theorem marshal_no_oob :
  (forall x, marshal_ifinfomsg x <> OutOfBounds) /\ (forall x, marshal_bittiming x <> OutOfBounds) /\
  (forall x, marshal_ctrlmode x <> OutOfBounds).
Proof.
  repeat split; intros x; [rewrite marshal_ifi_eq | rewrite marshal_bt_eq | rewrite marshal_cm_eq]; discriminate.
Qed.

(** * decoding inverts the C layout (this is the layout statement for the decode-only
      structures): a decoded value has the input as its C image *)

Lemma Ok_inj {A} (a b : A) : Ok a = Ok b -> a = b.
Proof. intros H. injection H as H. exact H. Qed.

Ltac forall_inv :=
  repeat match goal with
         | H : Forall _ (_ :: _) |- _ => apply Forall_cons_iff in H; destruct H as [? H]
         end.

Theorem unmarshal_bittiming_layout bs x :
  unmarshal_bittiming bs = Ok x -> bytes_ok bs -> spec_bittiming x = bs.
Proof.
  intros Hok Hb. destruct (Nat.eq_dec (length bs) sizeof_bittiming) as [E|E];
    [|rewrite unmarshal_bittiming_wrong_size in Hok by exact E; discriminate].
  unfold sizeof_bittiming in E. explode bs E. unfold bytes_ok in Hb. forall_inv.
  cbv [unmarshal_bittiming length Nat.eqb sizeof_bittiming negb rd_u32 slice Nat.leb andb
       skipn firstn Nat.sub bind get_u32] in Hok.
  apply Ok_inj in Hok. subst x. rewrite spec_bt_eq.
  cbn [bt_bitrate bt_sample_point bt_tq bt_prop_seg bt_phase_seg1 bt_phase_seg2 bt_sjw bt_brp].
  rewrite !le_bytes4_digits by assumption. reflexivity.
Qed.

Theorem unmarshal_ctrlmode_layout bs x :
  unmarshal_ctrlmode bs = Ok x -> bytes_ok bs -> spec_ctrlmode x = bs.
Proof.
  intros Hok Hb. destruct (Nat.eq_dec (length bs) sizeof_ctrlmode) as [E|E];
    [|rewrite unmarshal_ctrlmode_wrong_size in Hok by exact E; discriminate].
  unfold sizeof_ctrlmode in E. explode bs E. unfold bytes_ok in Hb. forall_inv.
  cbv [unmarshal_ctrlmode length Nat.eqb sizeof_ctrlmode negb rd_u32 slice Nat.leb andb
       skipn firstn Nat.sub bind get_u32] in Hok.
  apply Ok_inj in Hok. subst x. rewrite spec_cm_eq. cbn [cm_mask cm_flags].
  rewrite !le_bytes4_digits by assumption. reflexivity.
Qed.

Lemma spec_btc_eq x : spec_bittiming_const x =
  firstn 16 (btc_name x ++ repeat 0 16) ++
  le_bytes 4 (btc_tseg1_min x) ++ le_bytes 4 (btc_tseg1_max x) ++ le_bytes 4 (btc_tseg2_min x) ++
  le_bytes 4 (btc_tseg2_max x) ++ le_bytes 4 (btc_sjw_max x) ++ le_bytes 4 (btc_brp_min x) ++
  le_bytes 4 (btc_brp_max x) ++ le_bytes 4 (btc_brp_inc x).
Proof.
  assert (Hl : length (firstn 16 (btc_name x ++ repeat 0 16)) = 16%nat).
  { rewrite firstn_length, app_length, repeat_length. lia. }
  unfold spec_bittiming_const, c_struct.
  match goal with |- context [c_members 0 ?ms] => set (body := c_members 0 ms) end.
  match goal with |- _ = ?r => assert (Hb : body = r) by reflexivity end.
  assert (Hn : length body = 48%nat) by (rewrite Hb, app_length, Hl; reflexivity).
  rewrite Hn. change (repeat 0 (pad_to 48 _)) with (@nil Z). rewrite app_nil_r. exact Hb.
Qed.

Theorem unmarshal_bittiming_const_layout bs x :
  unmarshal_bittiming_const bs = Ok x -> bytes_ok bs -> spec_bittiming_const x = bs.
Proof.
  intros Hok Hb. destruct (Nat.eq_dec (length bs) sizeof_bittiming_const) as [E|E];
    [|rewrite unmarshal_bittiming_const_wrong_size in Hok by exact E; discriminate].
  unfold sizeof_bittiming_const in E. explode bs E. unfold bytes_ok in Hb. forall_inv.
  cbv [unmarshal_bittiming_const length Nat.eqb sizeof_bittiming_const negb rd_u32 slice Nat.leb andb
       skipn firstn Nat.sub bind get_u32] in Hok.
  apply Ok_inj in Hok. subst x. rewrite spec_btc_eq.
  cbn [btc_name btc_tseg1_min btc_tseg1_max btc_tseg2_min btc_tseg2_max btc_sjw_max btc_brp_min
       btc_brp_max btc_brp_inc].
  rewrite !le_bytes4_digits by assumption. reflexivity.
Qed.

Lemma spec_clock_eq x : spec_clock x = le_bytes 4 (clk_freq x).
Proof. reflexivity. Qed.

Theorem unmarshal_clock_layout bs x : unmarshal_clock bs = Ok x -> bytes_ok bs -> spec_clock x = bs.
Proof.
  intros Hok Hb. destruct (Nat.eq_dec (length bs) sizeof_clock) as [E|E];
    [|rewrite unmarshal_clock_wrong_size in Hok by exact E; discriminate].
  unfold sizeof_clock in E. explode bs E. unfold bytes_ok in Hb. forall_inv.
  cbv [unmarshal_clock length Nat.eqb sizeof_clock negb bind get_u32] in Hok.
  apply Ok_inj in Hok. subst x. rewrite spec_clock_eq. cbn [clk_freq].
  rewrite !le_bytes4_digits by assumption. reflexivity.
Qed.

Lemma spec_bec_eq x : spec_berr_counters x = le_bytes 2 (bec_txerr x) ++ le_bytes 2 (bec_rxerr x).
Proof. reflexivity. Qed.

Theorem unmarshal_berr_counters_layout bs x :
  unmarshal_berr_counters bs = Ok x -> bytes_ok bs -> spec_berr_counters x = bs.
Proof.
  intros Hok Hb. destruct (Nat.eq_dec (length bs) sizeof_berr_counters) as [E|E];
    [|rewrite unmarshal_berr_counters_wrong_size in Hok by exact E; discriminate].
  unfold sizeof_berr_counters in E. explode bs E. unfold bytes_ok in Hb. forall_inv.
  cbv [unmarshal_berr_counters length Nat.eqb sizeof_berr_counters negb rd_u16 slice Nat.leb andb
       skipn firstn Nat.sub bind get_u16] in Hok.
  apply Ok_inj in Hok. subst x. rewrite spec_bec_eq. cbn [bec_txerr bec_rxerr].
  rewrite !le_bytes2_digits by assumption. reflexivity.
Qed.

Lemma spec_stats_eq x : spec_stats x =
  le_bytes 4 (st_bus_error x) ++ le_bytes 4 (st_error_warning x) ++ le_bytes 4 (st_error_passive x) ++
  le_bytes 4 (st_bus_off x) ++ le_bytes 4 (st_arbitration_lost x) ++ le_bytes 4 (st_restarts x).
Proof. reflexivity. Qed.

Theorem unmarshal_stats_layout bs x : unmarshal_stats bs = Ok x -> bytes_ok bs -> spec_stats x = bs.
Proof.
  intros Hok Hb. destruct (Nat.eq_dec (length bs) sizeof_stats) as [E|E];
    [|rewrite unmarshal_stats_wrong_size in Hok by exact E; discriminate].
  unfold sizeof_stats in E. explode bs E. unfold bytes_ok in Hb. forall_inv.
  cbv [unmarshal_stats length Nat.eqb sizeof_stats negb rd_u32 slice Nat.leb andb
       skipn firstn Nat.sub bind get_u32] in Hok.
  apply Ok_inj in Hok. subst x. rewrite spec_stats_eq.
  cbn [st_bus_error st_error_warning st_error_passive st_bus_off st_arbitration_lost st_restarts].
  rewrite !le_bytes4_digits by assumption. reflexivity.
Qed.

(** ifinfomsg: the padding byte (offset 1) is not part of the decoded value *)
Theorem unmarshal_ifinfomsg_layout bs x :
  unmarshal_ifinfomsg bs = Ok x -> bytes_ok bs -> spec_ifinfomsg x = firstn 1 bs ++ [0] ++ skipn 2 bs.
Proof.
  intros Hok Hb. destruct (Nat.eq_dec (length bs) sizeof_ifinfomsg) as [E|E];
    [|rewrite unmarshal_ifinfomsg_wrong_size in Hok by exact E; discriminate].
  unfold sizeof_ifinfomsg in E. explode bs E. unfold bytes_ok in Hb. forall_inv.
  cbv [unmarshal_ifinfomsg length Nat.eqb sizeof_ifinfomsg negb rd_u8 rd_u16 rd_u32 rd_i32 slice Nat.leb andb
       skipn firstn Nat.sub bind get_u8 get_u16 get_u32 get_i32] in Hok.
  apply Ok_inj in Hok. subst x. rewrite spec_ifi_eq.
  cbn [ifi_family ifi_type ifi_index ifi_flags ifi_change].
  match goal with |- context [word_of CI32 (if ?u <? _ then _ else _)] =>
    assert (Hw : word_of CI32 (if u <? 2 ^ 31 then u else u - 2 ^ 32) = u) end.
  { match goal with |- context [?a + 256 * ?b + 65536 * ?c + 16777216 * ?d] =>
      pose proof (le32_range a b c d ltac:(assumption) ltac:(assumption) ltac:(assumption) ltac:(assumption)) as Hr end.
    unfold u32 in Hr. unfold word_of. change (2 ^ 31) with 2147483648 in *. change (2 ^ 32) with 4294967296 in *.
    match goal with |- context [?u <? 2147483648] => destruct (Z.ltb_spec u 2147483648) end.
    - match goal with |- context [?u <? 0] => destruct (Z.ltb_spec u 0) end; lia.
    - match goal with |- context [?u <? 0] => destruct (Z.ltb_spec u 0) end; lia. }
  rewrite Hw. rewrite !le_bytes4_digits, le_bytes2_digits by assumption.
  rewrite <- !put_u8_le by (assumption || (unfold u8; lia)). reflexivity.
Qed.

(** * the TLV codec *)

Lemma slice_ok b lo hi : (lo <= hi)%nat -> (hi <= length b)%nat ->
  slice b lo hi = Ok (firstn (hi - lo) (skipn lo b)).
Proof.
  intros H1 H2. unfold slice.
  destruct (Nat.leb_spec lo hi); [|lia]. destruct (Nat.leb_spec hi (length b)); [|lia]. reflexivity.
Qed.

Lemma nla_align_spec n : exists r, (r < 4 /\ nla_align n + r = n + 3)%nat.
Proof.
  unfold nla_align. exists ((n + 3) mod 4)%nat. split.
  - apply Nat.mod_upper_bound. lia.
  - pose proof (Nat.div_mod (n + 3) 4 ltac:(lia)). lia.
Qed.

Lemma nla_align_mul n : exists q, nla_align n = (4 * q)%nat.
Proof. unfold nla_align. eexists. reflexivity. Qed.

Lemma nla_align_ge n : (n <= nla_align n)%nat.
Proof. destruct (nla_align_spec n) as (r & Hr & E). destruct (nla_align_mul n) as (q & Hq). lia. Qed.

Lemma nla_align_add4 n : nla_align (4 + n) = (4 + nla_align n)%nat.
Proof.
  unfold nla_align. replace (4 + n + 3)%nat with ((n + 3) + 1 * 4)%nat by lia.
  rewrite Nat.div_add by lia. lia.
Qed.

Lemma attr_bytes_length t d : length (attr_bytes t d) = nla_align (nla_header_len + length d).
Proof.
  unfold attr_bytes, nla_header_len. rewrite nla_align_add4.
  rewrite !app_length, repeat_length. pose proof (nla_align_ge (length d)).
  change (length (put_u16 _)) with 2%nat. change (length (put_u16 t)) with 2%nat. lia.
Qed.

(** reading the header of anything that starts with four bytes *)
Lemma rd_hdr b0 b1 b2 b3 rest :
  rd_u16 (b0 :: b1 :: b2 :: b3 :: rest) 0 2 = Ok (b0 + 256 * b1) /\
  rd_u16 (b0 :: b1 :: b2 :: b3 :: rest) 2 4 = Ok (b2 + 256 * b3).
Proof. split; reflexivity. Qed.

Lemma four_bytes (b : list Z) : (4 <= length b)%nat ->
  exists b0 b1 b2 b3 rest, b = b0 :: b1 :: b2 :: b3 :: rest.
Proof.
  intros H. destruct b as [|b0 [|b1 [|b2 [|b3 rest]]]]; cbn [length] in H; try lia.
  repeat eexists.
Qed.

Theorem attr_unmarshal_no_oob b : attr_unmarshal b <> OutOfBounds.
Proof.
  unfold attr_unmarshal, nla_header_len.
  destruct (Nat.ltb_spec (length b) 4) as [|H4]; [discriminate|].
  destruct (four_bytes b H4) as (b0 & b1 & b2 & b3 & rest & ->).
  destruct (rd_hdr b0 b1 b2 b3 rest) as (-> & ->). cbn [bind].
  set (len := Z.to_nat (b0 + 256 * b1)).
  destruct (Nat.ltb_spec (length (b0 :: b1 :: b2 :: b3 :: rest)) len); [discriminate|].
  destruct (Nat.eqb len 0); [discriminate|].
  destruct (Nat.ltb_spec len 4); [discriminate|].
  rewrite slice_ok by lia. discriminate.
Qed.

Theorem available_no_oob fuel b : available fuel b <> OutOfBounds.
Proof.
  revert b. induction fuel as [|fuel IH]; intros b; cbn [available]; [discriminate|].
  destruct (Nat.eqb (length b) 0); [discriminate|].
  unfold nla_header_len. destruct (Nat.ltb_spec (length b) 4) as [|H4]; [discriminate|].
  destruct (four_bytes b H4) as (b0 & b1 & b2 & b3 & rest & ->).
  destruct (rd_hdr b0 b1 b2 b3 rest) as (-> & _). cbn [bind]. apply IH.
Qed.

Theorem attrs_iter_no_oob {S} (h : S -> Z -> list Z -> outcome S) :
  (forall st t d, h st t d <> OutOfBounds) ->
  forall fuel b st, attrs_iter fuel h b st <> OutOfBounds.
Proof.
  intros Hh. induction fuel as [|fuel IH]; intros b st; cbn [attrs_iter]; [discriminate|].
  destruct (Nat.eqb (length b) 0); [discriminate|].
  pose proof (attr_unmarshal_no_oob b) as Hu.
  destruct (attr_unmarshal b) as [[[len t] d]| |]; cbn [bind]; [|discriminate|contradiction].
  pose proof (Hh st t d) as Hd.
  destruct (h st t d) as [st'| |]; cbn [bind]; [apply IH|discriminate|contradiction].
Qed.

Theorem decode_attrs_no_oob {S} (h : S -> Z -> list Z -> outcome S) :
  (forall st t d, h st t d <> OutOfBounds) -> forall b st, decode_attrs h b st <> OutOfBounds.
Proof.
  intros Hh b st. unfold decode_attrs. pose proof (available_no_oob (length b) b) as Ha.
  destruct (available (length b) b) as [[]| |]; cbn [bind]; [|discriminate|contradiction].
  apply attrs_iter_no_oob. exact Hh.
Qed.

Ltac bind_no_oob lem :=
  match goal with |- bind (?f ?d) _ <> _ =>
    let H := fresh in pose proof (lem d) as H; destruct (f d); cbn [bind]; [discriminate|discriminate|contradiction]
  end.

Theorem info_handler_no_oob i t d : info_handler i t d <> OutOfBounds.
Proof.
  unfold info_handler. cbv zeta.
  destruct (_ =? IFLA_CAN_BITTIMING); [bind_no_oob unmarshal_bittiming_no_oob|].
  destruct (_ =? IFLA_CAN_BITTIMING_CONST); [bind_no_oob unmarshal_bittiming_const_no_oob|].
  destruct (_ =? IFLA_CAN_CLOCK); [bind_no_oob unmarshal_clock_no_oob|].
  destruct (_ =? IFLA_CAN_CTRLMODE); [bind_no_oob unmarshal_ctrlmode_no_oob|].
  destruct (_ =? IFLA_CAN_BERR_COUNTER); [bind_no_oob unmarshal_berr_counters_no_oob|].
  discriminate.
Qed.

Theorem decode_info_no_oob i0 b : decode_info i0 b <> OutOfBounds.
Proof. apply decode_attrs_no_oob. exact info_handler_no_oob. Qed.

Theorem linkinfo_handler_no_oob li t d : linkinfo_handler li t d <> OutOfBounds.
Proof.
  unfold linkinfo_handler. cbv zeta.
  destruct (_ =? IFLA_INFO_KIND); [destruct (_ || _); discriminate|].
  destruct (_ =? IFLA_INFO_DATA).
  { pose proof (decode_info_no_oob (li_info li) d). destruct (decode_info (li_info li) d); cbn [bind];
      [discriminate|discriminate|contradiction]. }
  destruct (_ =? IFLA_INFO_XSTATS); [bind_no_oob unmarshal_stats_no_oob|].
  discriminate.
Qed.

(** the link-info decoder never reads out of bounds, whatever the input *)
Theorem decode_linkinfo_no_oob li0 b : decode_linkinfo_from li0 b <> OutOfBounds.
Proof. apply decode_attrs_no_oob. exact linkinfo_handler_no_oob. Qed.

(** ** fuel: the length of the buffer is always enough *)

Lemma adv_ge4 len : (4 <= (if Nat.ltb len nla_header_len then nla_header_len else nla_align len))%nat.
Proof.
  unfold nla_header_len. destruct (Nat.ltb_spec len 4); [lia|]. pose proof (nla_align_ge len). lia.
Qed.

Lemma skipn_shorter {A} n (b : list A) k : (4 <= n)%nat -> (length b <= S k)%nat -> (length (skipn n b) <= k)%nat.
Proof. intros. rewrite skipn_length. lia. Qed.

Lemma attrs_iter_fuel {S} (h : S -> Z -> list Z -> outcome S) :
  forall f1 f2 b st, (length b <= f1)%nat -> (length b <= f2)%nat ->
  attrs_iter f1 h b st = attrs_iter f2 h b st.
Proof.
  induction f1 as [|f1 IH]; intros f2 b st H1 H2.
  - destruct f2; [reflexivity|]. cbn [attrs_iter]. destruct (Nat.eqb_spec (length b) 0); [reflexivity|lia].
  - destruct f2 as [|f2]; cbn [attrs_iter].
    + destruct (Nat.eqb_spec (length b) 0); [reflexivity|lia].
    + destruct (Nat.eqb (length b) 0); [reflexivity|].
      destruct (attr_unmarshal b) as [[[len t] d]| |]; cbn [bind]; try reflexivity.
      destruct (h st t d) as [st'| |]; cbn [bind]; try reflexivity.
      apply IH; apply skipn_shorter; try assumption; apply adv_ge4.
Qed.

Lemma available_fuel : forall f1 f2 b, (length b <= f1)%nat -> (length b <= f2)%nat ->
  available f1 b = available f2 b.
Proof.
  induction f1 as [|f1 IH]; intros f2 b H1 H2.
  - destruct f2; [reflexivity|]. cbn [available]. destruct (Nat.eqb_spec (length b) 0); [reflexivity|lia].
  - destruct f2 as [|f2]; cbn [available].
    + destruct (Nat.eqb_spec (length b) 0); [reflexivity|lia].
    + destruct (Nat.eqb (length b) 0); [reflexivity|].
      destruct (Nat.ltb (length b) nla_header_len); [reflexivity|].
      destruct (rd_u16 b 0 2) as [l| |]; cbn [bind]; try reflexivity.
      assert (4 <= nla_align (Nat.max (Z.to_nat l) nla_header_len))%nat.
      { pose proof (nla_align_ge (Nat.max (Z.to_nat l) nla_header_len)). unfold nla_header_len in *. lia. }
      apply IH; apply skipn_shorter; assumption.
Qed.

(** ** decoding what [attr_bytes] produced *)

Definition attr_ok (a : Z * list Z) : Prop := u16 (fst a) /\ Z.of_nat (length (snd a)) <= max_payload.

Lemma attr_bytes_shape t d : exists tail,
  attr_bytes t d = byte (Z.of_nat (4 + length d)) 0 :: byte (Z.of_nat (4 + length d)) 1 ::
                   byte t 0 :: byte t 1 :: tail /\
  tail = d ++ repeat 0 (nla_align (length d) - length d).
Proof. eexists. split; reflexivity. Qed.

Lemma attr_unmarshal_bytes t d rest : attr_ok (t, d) ->
  attr_unmarshal (attr_bytes t d ++ rest) = Ok ((4 + length d)%nat, t, d).
Proof.
  intros [Ht Hd]. cbn [fst snd] in Ht, Hd. unfold max_payload in Hd.
  pose proof (attr_bytes_length t d) as Hlen. unfold nla_header_len in Hlen.
  pose proof (nla_align_ge (4 + length d)) as Hge.
  destruct (attr_bytes_shape t d) as (tail & Hs & Htail).
  unfold attr_unmarshal, nla_header_len.
  destruct (Nat.ltb_spec (length (attr_bytes t d ++ rest)) 4) as [Hc|_]; [rewrite app_length in Hc; lia|].
  assert (Hl : length (attr_bytes t d ++ rest) = (nla_align (4 + length d) + length rest)%nat)
    by (rewrite app_length; lia).
  revert Hl. rewrite Hs. cbn [app]. intros Hl.
  match goal with |- context [rd_u16 (?a :: ?b :: ?c :: ?e :: ?r) 0 2] =>
    destruct (rd_hdr a b c e r) as (-> & ->) end.
  cbn [bind]. unfold u16 in Ht.
  rewrite le16 by (change (2 ^ 16) with 65536; lia). rewrite le16 by exact Ht.
  rewrite Nat2Z.id.
  match goal with |- context [Nat.ltb ?a ?b] => destruct (Nat.ltb_spec a b) as [Hc|_]; [lia|] end.
  destruct (Nat.eqb_spec (4 + length d) 0); [lia|].
  destruct (Nat.ltb_spec (4 + length d) 4); [lia|].
  rewrite slice_ok by lia. cbn [skipn]. subst tail.
  replace (4 + length d - 4)%nat with (length d + 0)%nat by lia.
  rewrite <- app_assoc, firstn_app_2. cbn [firstn]. rewrite app_nil_r. reflexivity.
Qed.

Lemma skipn_attr_bytes t d rest :
  skipn (nla_align (4 + length d)) (attr_bytes t d ++ rest) = rest.
Proof.
  pose proof (attr_bytes_length t d) as Hlen. unfold nla_header_len in Hlen.
  rewrite <- Hlen. rewrite skipn_app, skipn_all, Nat.sub_diag. reflexivity.
Qed.

Lemma attr_bytes_nonempty t d rest : Nat.eqb (length (attr_bytes t d ++ rest)) 0 = false.
Proof.
  apply Nat.eqb_neq. rewrite app_length, attr_bytes_length. unfold nla_header_len.
  pose proof (nla_align_ge (4 + length d)). lia.
Qed.

Definition iter_all {S} (h : S -> Z -> list Z -> outcome S) (b : list Z) (st : S) : outcome S :=
  attrs_iter (length b) h b st.
Definition available_all (b : list Z) : outcome unit := available (length b) b.

Lemma decode_attrs_eq {S} (h : S -> Z -> list Z -> outcome S) b st :
  decode_attrs h b st = (_ <- available_all b ;; iter_all h b st).
Proof. reflexivity. Qed.

Lemma iter_all_nil {S} (h : S -> Z -> list Z -> outcome S) st : iter_all h [] st = Ok st.
Proof. reflexivity. Qed.

Lemma available_all_nil : available_all [] = Ok tt.
Proof. reflexivity. Qed.

Lemma iter_all_cons {S} (h : S -> Z -> list Z -> outcome S) t d rest st : attr_ok (t, d) ->
  iter_all h (attr_bytes t d ++ rest) st = (st' <- h st t d ;; iter_all h rest st').
Proof.
  intros Hok. unfold iter_all.
  assert (Hl : (length rest < length (attr_bytes t d ++ rest))%nat).
  { rewrite app_length, attr_bytes_length. unfold nla_header_len. pose proof (nla_align_ge (4 + length d)). lia. }
  destruct (length (attr_bytes t d ++ rest)) as [|n] eqn:En; [lia|].
  cbn [attrs_iter]. rewrite attr_bytes_nonempty.
  rewrite attr_unmarshal_bytes by exact Hok. cbn [bind].
  destruct (h st t d) as [st'| |]; cbn [bind]; try reflexivity.
  destruct (Nat.ltb_spec (4 + length d) nla_header_len) as [Hc|_]; [unfold nla_header_len in Hc; lia|].
  rewrite skipn_attr_bytes. apply attrs_iter_fuel; lia.
Qed.

Lemma available_all_cons t d rest : attr_ok (t, d) ->
  available_all (attr_bytes t d ++ rest) = available_all rest.
Proof.
  intros [Ht Hd]. cbn [fst snd] in Ht, Hd. unfold max_payload in Hd. unfold available_all.
  assert (Hl : (length rest < length (attr_bytes t d ++ rest))%nat).
  { rewrite app_length, attr_bytes_length. unfold nla_header_len. pose proof (nla_align_ge (4 + length d)). lia. }
  destruct (length (attr_bytes t d ++ rest)) as [|n] eqn:En; [lia|].
  cbn [available]. rewrite attr_bytes_nonempty.
  unfold nla_header_len.
  destruct (Nat.ltb_spec (length (attr_bytes t d ++ rest)) 4) as [Hc|_].
  { rewrite app_length, attr_bytes_length in Hc. unfold nla_header_len in Hc.
    pose proof (nla_align_ge (4 + length d)). lia. }
  destruct (attr_bytes_shape t d) as (tail & Hs & _).
  assert (Hr : rd_u16 (attr_bytes t d ++ rest) 0 2 = Ok (Z.of_nat (4 + length d))).
  { rewrite Hs. cbn [app].
    match goal with |- context [rd_u16 (?a :: ?b :: ?c :: ?e :: ?r) 0 2] =>
      destruct (rd_hdr a b c e r) as (-> & _) end.
    rewrite le16 by (change (2 ^ 16) with 65536; lia). reflexivity. }
  rewrite Hr. cbn [bind]. rewrite Nat2Z.id.
  replace (Nat.max (4 + length d) 4) with (4 + length d)%nat by lia.
  rewrite skipn_attr_bytes. apply available_fuel; lia.
Qed.

(** ** streams of attributes *)

Definition tlv_stream (attrs : list (Z * list Z)) : list Z :=
  flat_map (fun a => attr_bytes (fst a) (snd a)) attrs.

Lemma marshal_attrs_stream attrs : Forall attr_ok attrs -> marshal_attrs attrs = Ok (tlv_stream attrs).
Proof.
  induction 1 as [|[t d] tl [_ Hd] _ IH]; [reflexivity|].
  cbn [marshal_attrs tlv_stream flat_map fst snd] in *.
  destruct (Z.ltb_spec max_payload (Z.of_nat (length d))); [lia|].
  rewrite IH. reflexivity.
Qed.

(** an over-long payload makes the encoder fail instead of emitting a wrapped length *)
Lemma marshal_attrs_too_long pre t d post :
  max_payload < Z.of_nat (length d) -> marshal_attrs (pre ++ (t, d) :: post) <> Ok (tlv_stream (pre ++ (t, d) :: post))
  /\ marshal_attrs (pre ++ (t, d) :: post) = Error.
Proof.
  intros H. assert (E : marshal_attrs (pre ++ (t, d) :: post) = Error).
  { induction pre as [|[t0 d0] pre IH]; cbn [app marshal_attrs].
    - destruct (Z.ltb_spec max_payload (Z.of_nat (length d))); [reflexivity|lia].
    - destruct (max_payload <? Z.of_nat (length d0)); [reflexivity|]. rewrite IH. reflexivity. }
  rewrite E. split; [discriminate|reflexivity].
Qed.

Lemma available_all_stream attrs : Forall attr_ok attrs -> available_all (tlv_stream attrs) = Ok tt.
Proof.
  induction 1 as [|[t d] tl Hok _ IH]; [reflexivity|].
  cbn [tlv_stream flat_map fst snd]. rewrite available_all_cons by exact Hok. exact IH.
Qed.

(** if the handler rejects one attribute of a well-formed stream, decoding the stream fails *)
Lemma decode_attrs_rejects {S} (h : S -> Z -> list Z -> outcome S) pre t d post st :
  (forall st t d, h st t d <> OutOfBounds) ->
  Forall attr_ok (pre ++ (t, d) :: post) ->
  (forall st', h st' t d = Error) ->
  decode_attrs h (tlv_stream (pre ++ (t, d) :: post)) st = Error.
Proof.
  intros Hno Hok Hrej. rewrite decode_attrs_eq, available_all_stream by exact Hok. cbn [bind].
  revert st. induction pre as [|[t0 d0] pre IH]; intros st; cbn [app tlv_stream flat_map fst snd] in *.
  - rewrite iter_all_cons by (inversion Hok; assumption). rewrite Hrej. reflexivity.
  - rewrite iter_all_cons by (inversion Hok; assumption).
    pose proof (Hno st t0 d0). destruct (h st t0 d0); cbn [bind]; [|reflexivity|contradiction].
    apply IH. inversion Hok; assumption.
Qed.

(** ** fixed-size attributes of a wrong size are rejected *)

(** payload size the decoder requires for the CAN attribute type [t] (after masking the flags) *)
Definition can_attr_size (t : Z) : option nat :=
  if t =? IFLA_CAN_BITTIMING then Some sizeof_bittiming
  else if t =? IFLA_CAN_BITTIMING_CONST then Some sizeof_bittiming_const
  else if t =? IFLA_CAN_CLOCK then Some sizeof_clock
  else if t =? IFLA_CAN_CTRLMODE then Some sizeof_ctrlmode
  else if t =? IFLA_CAN_BERR_COUNTER then Some sizeof_berr_counters
  else None.

Theorem info_handler_wrong_size i t d n :
  can_attr_size (Z.land t NLA_TYPE_MASK) = Some n -> length d <> n -> info_handler i t d = Error.
Proof.
  unfold can_attr_size, info_handler. cbv zeta. intros Hs Hn.
  destruct (_ =? IFLA_CAN_BITTIMING).
  { injection Hs as <-. rewrite unmarshal_bittiming_wrong_size by exact Hn. reflexivity. }
  destruct (_ =? IFLA_CAN_BITTIMING_CONST).
  { injection Hs as <-. rewrite unmarshal_bittiming_const_wrong_size by exact Hn. reflexivity. }
  destruct (_ =? IFLA_CAN_CLOCK).
  { injection Hs as <-. rewrite unmarshal_clock_wrong_size by exact Hn. reflexivity. }
  destruct (_ =? IFLA_CAN_CTRLMODE).
  { injection Hs as <-. rewrite unmarshal_ctrlmode_wrong_size by exact Hn. reflexivity. }
  destruct (_ =? IFLA_CAN_BERR_COUNTER).
  { injection Hs as <-. rewrite unmarshal_berr_counters_wrong_size by exact Hn. reflexivity. }
  discriminate.
Qed.

Theorem linkinfo_handler_xstats_wrong_size li t d :
  Z.land t NLA_TYPE_MASK = IFLA_INFO_XSTATS -> length d <> sizeof_stats -> linkinfo_handler li t d = Error.
Proof.
  intros Ht Hn. unfold linkinfo_handler. cbv zeta. rewrite Ht. cbn [Z.eqb IFLA_INFO_XSTATS IFLA_INFO_KIND IFLA_INFO_DATA Pos.eqb].
  rewrite unmarshal_stats_wrong_size by exact Hn. reflexivity.
Qed.

Theorem decode_info_wrong_size i0 pre t d post n :
  Forall attr_ok (pre ++ (t, d) :: post) ->
  can_attr_size (Z.land t NLA_TYPE_MASK) = Some n -> length d <> n ->
  decode_info i0 (tlv_stream (pre ++ (t, d) :: post)) = Error.
Proof.
  intros Hok Hs Hn. apply decode_attrs_rejects; [exact info_handler_no_oob|exact Hok|].
  intros st'. exact (info_handler_wrong_size st' t d n Hs Hn).
Qed.

(** the message level: kind attribute, then IFLA_INFO_DATA holding any well-formed stream of
    attributes one of which is a fixed-size CAN attribute with a payload of another size *)
Theorem decode_linkinfo_wrong_size li0 kind dtype pre t d post n :
  Forall attr_ok (pre ++ (t, d) :: post) ->
  attr_ok (IFLA_INFO_KIND, kind) ->
  attr_ok (dtype, tlv_stream (pre ++ (t, d) :: post)) ->
  Z.land dtype NLA_TYPE_MASK = IFLA_INFO_DATA ->
  can_attr_size (Z.land t NLA_TYPE_MASK) = Some n -> length d <> n ->
  decode_linkinfo_from li0
    (attr_bytes IFLA_INFO_KIND kind ++ attr_bytes dtype (tlv_stream (pre ++ (t, d) :: post))) = Error.
Proof.
  intros Hok Hk Hd Hdt Hs Hn. unfold decode_linkinfo_from.
  rewrite <- (app_nil_r (attr_bytes dtype _)).
  rewrite decode_attrs_eq, !available_all_cons, available_all_nil by assumption. cbn [bind].
  rewrite iter_all_cons by assumption.
  pose proof (linkinfo_handler_no_oob li0 IFLA_INFO_KIND kind).
  destruct (linkinfo_handler li0 IFLA_INFO_KIND kind) as [li1| |]; cbn [bind]; [|reflexivity|contradiction].
  rewrite iter_all_cons by assumption.
  unfold linkinfo_handler at 1. cbv zeta. rewrite Hdt.
  cbn [Z.eqb IFLA_INFO_XSTATS IFLA_INFO_KIND IFLA_INFO_DATA Pos.eqb].
  rewrite (decode_info_wrong_size _ pre t d post n Hok Hs Hn). reflexivity.
Qed.

(** same for the statistics attribute next to the data *)
Theorem decode_linkinfo_xstats_wrong_size li0 pre t d post :
  Forall attr_ok (pre ++ (t, d) :: post) ->
  Z.land t NLA_TYPE_MASK = IFLA_INFO_XSTATS -> length d <> sizeof_stats ->
  decode_linkinfo_from li0 (tlv_stream (pre ++ (t, d) :: post)) = Error.
Proof.
  intros Hok Ht Hn. apply decode_attrs_rejects; [exact linkinfo_handler_no_oob|exact Hok|].
  intros st'. exact (linkinfo_handler_xstats_wrong_size st' t d Ht Hn).
Qed.

(** ** decode (encode li) *)

Lemma marshal_bittiming_length x bs : marshal_bittiming x = Ok bs -> length bs = sizeof_bittiming.
Proof. rewrite marshal_bt_eq. intros E. apply Ok_inj in E. subst bs. reflexivity. Qed.

Lemma marshal_ctrlmode_length x bs : marshal_ctrlmode x = Ok bs -> length bs = sizeof_ctrlmode.
Proof. rewrite marshal_cm_eq. intros E. apply Ok_inj in E. subst bs. reflexivity. Qed.

Lemma u16_const t : (0 <=? t) && (t <? 65536) = true -> u16 t.
Proof. intros H. apply andb_prop in H. destruct H as [H1 H2]. apply Z.leb_le in H1. apply Z.ltb_lt in H2.
  unfold u16. change (2 ^ 16) with 65536. lia. Qed.

Theorem encode_info_stream i : exists bt cm,
  marshal_bittiming (i_bittiming i) = Ok bt /\ marshal_ctrlmode (i_ctrlmode i) = Ok cm /\
  encode_info i = Ok (tlv_stream [(IFLA_CAN_BITTIMING, bt); (IFLA_CAN_CTRLMODE, cm)]) /\
  Forall attr_ok [(IFLA_CAN_BITTIMING, bt); (IFLA_CAN_CTRLMODE, cm)] /\
  length (tlv_stream [(IFLA_CAN_BITTIMING, bt); (IFLA_CAN_CTRLMODE, cm)]) = 48%nat.
Proof.
  unfold encode_info. rewrite marshal_bt_eq, marshal_cm_eq. cbn [bind].
  eexists. eexists. split; [reflexivity|]. split; [reflexivity|].
  assert (Hok : Forall attr_ok [(IFLA_CAN_BITTIMING, put_u32 (bt_bitrate (i_bittiming i)) ++ put_u32 (bt_sample_point (i_bittiming i)) ++
     put_u32 (bt_tq (i_bittiming i)) ++ put_u32 (bt_prop_seg (i_bittiming i)) ++ put_u32 (bt_phase_seg1 (i_bittiming i)) ++
     put_u32 (bt_phase_seg2 (i_bittiming i)) ++ put_u32 (bt_sjw (i_bittiming i)) ++ put_u32 (bt_brp (i_bittiming i)));
     (IFLA_CAN_CTRLMODE, put_u32 (cm_mask (i_ctrlmode i)) ++ put_u32 (cm_flags (i_ctrlmode i)))]).
  { repeat constructor; cbn [fst snd]; try (apply u16_const; reflexivity); unfold max_payload; cbn [length app put_u32]; lia. }
  split; [apply marshal_attrs_stream; exact Hok|]. split; [exact Hok|].
  cbn [tlv_stream flat_map fst snd]. rewrite !app_length, !attr_bytes_length. reflexivity.
Qed.

Lemma trim_nul_can : trim_nul (kind_can ++ [0]) = kind_can /\ trim_nul (kind_vcan ++ [0]) = kind_vcan.
Proof. split; reflexivity. Qed.

(** what the package encodes for a CAN link decodes, on any receiver, to the same kind, bit
    timing and control mode, and leaves the receiver's other fields alone *)
Theorem decode_encode_linkinfo li0 li :
  li_kind li = kind_can \/ li_kind li = kind_vcan ->
  bittiming_wf (i_bittiming (li_info li)) -> ctrlmode_wf (i_ctrlmode (li_info li)) ->
  exists bs li',
    encode_linkinfo li = Ok bs /\ decode_linkinfo_from li0 bs = Ok li' /\
    li_kind li' = li_kind li /\
    i_bittiming (li_info li') = i_bittiming (li_info li) /\
    i_ctrlmode (li_info li') = i_ctrlmode (li_info li) /\
    i_bittiming_const (li_info li') = i_bittiming_const (li_info li0) /\
    i_clock (li_info li') = i_clock (li_info li0) /\ i_berr (li_info li') = i_berr (li_info li0) /\
    i_type (li_info li') = i_type (li_info li0) /\ li_stats li' = li_stats li0.
Proof.
  intros Hk Hbt Hcm.
  destruct (encode_info_stream (li_info li)) as (bt & cm & Ebt & Ecm & Ei & Hok & Hlen).
  set (inner := tlv_stream [(IFLA_CAN_BITTIMING, bt); (IFLA_CAN_CTRLMODE, cm)]) in *.
  set (dt := Z.lor NLA_F_NESTED IFLA_INFO_DATA).
  assert (Hk4 : (length (li_kind li) <= 4)%nat) by (destruct Hk as [-> | ->]; cbn; lia).
  assert (Hok2 : Forall attr_ok [(IFLA_INFO_KIND, li_kind li ++ [0]); (dt, inner)]).
  { repeat constructor; cbn [fst snd]; try (apply u16_const; reflexivity); unfold max_payload.
    - rewrite app_length. cbn [length]. lia.
    - rewrite Hlen. lia. }
  assert (Eenc : encode_linkinfo li = Ok (tlv_stream [(IFLA_INFO_KIND, li_kind li ++ [0]); (dt, inner)])).
  { unfold encode_linkinfo. destruct (Z.ltb_spec max_payload (Z.of_nat (length (li_kind li)))) as [Hc|_];
      [unfold max_payload in Hc; lia|].
    rewrite Ei. cbn [bind]. apply marshal_attrs_stream. exact Hok2. }
  (* the decoder's run *)
  pose proof (unmarshal_marshal_bittiming _ _ Hbt Ebt) as Ubt.
  pose proof (unmarshal_marshal_ctrlmode _ _ Hcm Ecm) as Ucm.
  assert (Hinner : forall i, decode_info i inner = Ok (set_cm (set_bt i (i_bittiming (li_info li))) (i_ctrlmode (li_info li)))).
  { intros i. unfold decode_info. rewrite decode_attrs_eq. unfold inner.
    rewrite available_all_stream by exact Hok. cbn [bind tlv_stream flat_map fst snd]. rewrite app_nil_r.
    inversion Hok as [|? ? Hok_bt Hok']. inversion Hok' as [|? ? Hok_cm _]. subst.
    rewrite iter_all_cons by exact Hok_bt.
    change (info_handler i IFLA_CAN_BITTIMING bt) with (x <- unmarshal_bittiming bt ;; Ok (set_bt i x)).
    rewrite Ubt. cbn [bind]. rewrite <- (app_nil_r (attr_bytes IFLA_CAN_CTRLMODE cm)).
    rewrite iter_all_cons by exact Hok_cm.
    change (info_handler (set_bt i (i_bittiming (li_info li))) IFLA_CAN_CTRLMODE cm)
      with (x <- unmarshal_ctrlmode cm ;; Ok (set_cm (set_bt i (i_bittiming (li_info li))) x)).
    rewrite Ucm. cbn [bind]. apply iter_all_nil. }
  eexists. eexists. split; [exact Eenc|].
  unfold decode_linkinfo_from. rewrite decode_attrs_eq.
  rewrite available_all_stream by exact Hok2. cbn [bind tlv_stream flat_map fst snd]. rewrite app_nil_r.
  inversion Hok2 as [|? ? Hok_k Hok']. inversion Hok' as [|? ? Hok_d _]. subst.
  rewrite iter_all_cons by exact Hok_k.
  assert (Hh1 : linkinfo_handler li0 IFLA_INFO_KIND (li_kind li ++ [0]) =
                Ok (Build_linkinfo (li_kind li) (li_info li0) (li_stats li0))).
  { destruct Hk as [-> | ->]; reflexivity. }
  rewrite Hh1. cbn [bind]. rewrite <- (app_nil_r (attr_bytes dt inner)).
  rewrite iter_all_cons by exact Hok_d.
  assert (Hh2 : forall l, linkinfo_handler l dt inner =
                 (i <- decode_info (li_info l) inner ;; Ok (Build_linkinfo (li_kind l) i (li_stats l)))) by reflexivity.
  rewrite Hh2, Hinner. cbn [bind li_info li_kind li_stats]. rewrite iter_all_nil.
  split; [reflexivity|]. cbn. repeat split; reflexivity.
Qed.

(** other kinds are refused by the decoder (the code under study returns "not a CAN interface") *)
Theorem decode_linkinfo_other_kind li0 kind rest :
  attr_ok (IFLA_INFO_KIND, kind) ->
  bytes_eqb (trim_nul kind) kind_can = false -> bytes_eqb (trim_nul kind) kind_vcan = false ->
  available_all rest = Ok tt ->
  decode_linkinfo_from li0 (attr_bytes IFLA_INFO_KIND kind ++ rest) = Error.
Proof.
  intros Hok H1 H2 Ha. unfold decode_linkinfo_from.
  rewrite decode_attrs_eq, available_all_cons, Ha by exact Hok. cbn [bind].
  rewrite iter_all_cons by exact Hok.
  assert (E : linkinfo_handler li0 IFLA_INFO_KIND kind = Error).
  { unfold linkinfo_handler. cbv zeta. change (Z.land IFLA_INFO_KIND NLA_TYPE_MASK =? IFLA_INFO_KIND) with true.
    cbv iota. rewrite H1, H2. reflexivity. }
  rewrite E. reflexivity.
Qed.

(** the top-level attribute appended to the request *)
Theorem encode_linkinfo_msg_eq li bs :
  encode_linkinfo li = Ok bs -> Z.of_nat (length bs) <= max_payload ->
  encode_linkinfo_msg li = Ok (attr_bytes (Z.lor NLA_F_NESTED IFLA_LINKINFO) bs).
Proof.
  intros E H. unfold encode_linkinfo_msg. rewrite E. cbn [bind marshal_attrs].
  destruct (Z.ltb_spec max_payload (Z.of_nat (length bs))); [lia|]. cbn [bind]. rewrite app_nil_r. reflexivity.
Qed.

(** ** Device.unmarshalBinary: the one unchecked slice of the file.
    The message decoder slices data[:16] before any length check, so a message shorter than an
    ifinfomsg header panics; nothing else in it can. (The kernel never sends such a reply to
    RTM_GETLINK; this is outside C20's claim about fixed-size ATTRIBUTES and is recorded as an
    observation.) *)

Theorem device_handler_no_oob dv t d : device_handler dv t d <> OutOfBounds.
Proof.
  unfold device_handler. cbv zeta.
  destruct (_ =? IFLA_IFNAME); [discriminate|].
  destruct (_ =? IFLA_LINKINFO); [|discriminate].
  pose proof (decode_linkinfo_no_oob (dev_li dv) d).
  destruct (decode_linkinfo_from (dev_li dv) d); cbn [bind]; [discriminate|discriminate|contradiction].
Qed.

Theorem device_unmarshal_oob_iff dv data :
  device_unmarshal dv data = OutOfBounds <-> (length data < sizeof_ifinfomsg)%nat.
Proof.
  unfold device_unmarshal, sizeof_ifinfomsg. split.
  - intros H. destruct (Nat.lt_ge_cases (length data) 16) as [|Hge]; [assumption|exfalso].
    revert H. rewrite slice_ok by lia. cbn [bind].
    assert (Hl : length (firstn (16 - 0) (skipn 0 data)) = 16%nat) by (cbn [skipn]; rewrite firstn_length; lia).
    destruct (unmarshal_ifinfomsg_right_size _ Hl) as (ifi & ->). cbn [bind].
    rewrite slice_ok by lia. cbn [bind].
    set (tl := firstn (length data - 16) (skipn 16 data)).
    pose proof (available_no_oob (length tl) tl) as Ha.
    destruct (available (length tl) tl) as [[]| |]; cbn [bind]; [|discriminate|contradiction].
    destruct (negb _); [discriminate|].
    apply attrs_iter_no_oob. exact device_handler_no_oob.
  - intros H. unfold slice. destruct (Nat.leb_spec 16 (length data)); [lia|]. reflexivity.
Qed.

(** * the statements of Properties/C20.v that collect the per-structure facts *)

Theorem decoders_invert_layout bs : bytes_ok bs ->
  (forall x, unmarshal_ifinfomsg bs = Ok x -> spec_ifinfomsg x = firstn 1 bs ++ [0] ++ skipn 2 bs) /\
  (forall x, unmarshal_bittiming bs = Ok x -> spec_bittiming x = bs) /\
  (forall x, unmarshal_bittiming_const bs = Ok x -> spec_bittiming_const x = bs) /\
  (forall x, unmarshal_clock bs = Ok x -> spec_clock x = bs) /\
  (forall x, unmarshal_ctrlmode bs = Ok x -> spec_ctrlmode x = bs) /\
  (forall x, unmarshal_berr_counters bs = Ok x -> spec_berr_counters x = bs) /\
  (forall x, unmarshal_stats bs = Ok x -> spec_stats x = bs).
Proof.
  intros Hb. repeat split; intros x Hx.
  - exact (unmarshal_ifinfomsg_layout bs x Hx Hb).
  - exact (unmarshal_bittiming_layout bs x Hx Hb).
  - exact (unmarshal_bittiming_const_layout bs x Hx Hb).
  - exact (unmarshal_clock_layout bs x Hx Hb).
  - exact (unmarshal_ctrlmode_layout bs x Hx Hb).
  - exact (unmarshal_berr_counters_layout bs x Hx Hb).
  - exact (unmarshal_stats_layout bs x Hx Hb).
Qed.

Theorem wrong_size_is_error bs :
  (length bs <> sizeof_ifinfomsg -> unmarshal_ifinfomsg bs = Error) /\
  (length bs <> sizeof_bittiming -> unmarshal_bittiming bs = Error) /\
  (length bs <> sizeof_bittiming_const -> unmarshal_bittiming_const bs = Error) /\
  (length bs <> sizeof_clock -> unmarshal_clock bs = Error) /\
  (length bs <> sizeof_ctrlmode -> unmarshal_ctrlmode bs = Error) /\
  (length bs <> sizeof_berr_counters -> unmarshal_berr_counters bs = Error) /\
  (length bs <> sizeof_stats -> unmarshal_stats bs = Error).
Proof.
  repeat split.
  - apply unmarshal_ifinfomsg_wrong_size.
  - apply unmarshal_bittiming_wrong_size.
  - apply unmarshal_bittiming_const_wrong_size.
  - apply unmarshal_clock_wrong_size.
  - apply unmarshal_ctrlmode_wrong_size.
  - apply unmarshal_berr_counters_wrong_size.
  - apply unmarshal_stats_wrong_size.
Qed.

Theorem right_size_decodes bs :
  (length bs = sizeof_ifinfomsg -> exists x, unmarshal_ifinfomsg bs = Ok x) /\
  (length bs = sizeof_bittiming -> exists x, unmarshal_bittiming bs = Ok x) /\
  (length bs = sizeof_bittiming_const -> exists x, unmarshal_bittiming_const bs = Ok x) /\
  (length bs = sizeof_clock -> exists x, unmarshal_clock bs = Ok x) /\
  (length bs = sizeof_ctrlmode -> exists x, unmarshal_ctrlmode bs = Ok x) /\
  (length bs = sizeof_berr_counters -> exists x, unmarshal_berr_counters bs = Ok x) /\
  (length bs = sizeof_stats -> exists x, unmarshal_stats bs = Ok x).
Proof.
  repeat split.
  - apply unmarshal_ifinfomsg_right_size.
  - apply unmarshal_bittiming_right_size.
  - apply unmarshal_bittiming_const_right_size.
  - apply unmarshal_clock_right_size.
  - apply unmarshal_ctrlmode_right_size.
  - apply unmarshal_berr_counters_right_size.
  - apply unmarshal_stats_right_size.
Qed.

Theorem never_out_of_bounds bs :
  unmarshal_ifinfomsg bs <> OutOfBounds /\ unmarshal_bittiming bs <> OutOfBounds /\
  unmarshal_bittiming_const bs <> OutOfBounds /\ unmarshal_clock bs <> OutOfBounds /\
  unmarshal_ctrlmode bs <> OutOfBounds /\ unmarshal_berr_counters bs <> OutOfBounds /\
  unmarshal_stats bs <> OutOfBounds.
Proof.
  repeat split.
  - apply unmarshal_ifinfomsg_no_oob.
  - apply unmarshal_bittiming_no_oob.
  - apply unmarshal_bittiming_const_no_oob.
  - apply unmarshal_clock_no_oob.
  - apply unmarshal_ctrlmode_no_oob.
  - apply unmarshal_berr_counters_no_oob.
  - apply unmarshal_stats_no_oob.
Qed.
