(** ACTION PROGRAMS of the attribute WALKERS of /repo/pkg/candevice/device_linux.go - Info.decode,
    linkInfoMsg.decode, Device.unmarshalBinary (loop [for ad.Next() { switch ad.Type() {...}; if err != nil
    { return err } }]) and Info.encode, linkInfoMsg.encode (a sequence of AttributeEncoder calls) - as the
    strict extractor harness/netwire reads them from the source text, with step interpreters over the
    existing TLV model of Attr.v. A decode program is the list of the switch's cases in source order
    (attribute type constant, action); no case = default = skip; every iteration ends with the error
    check. ProgramProofs.v proves the reference programs executed this way ARE the hand model's
    decode_info / decode_linkinfo_from / device_unmarshal / encode_info / encode_linkinfo.
    DEFINITIONS ONLY. *)
From Coq Require Import ZArith List Bool.
From CanVerif Require Import Netlink.Layout Netlink.Attr.
Import ListNotations.
Open Scope Z_scope.

Inductive act :=
| AUnmarshalBitTiming       (* err = i.BitTiming.unmarshalBinary(nad.Bytes()) *)
| AUnmarshalBitTimingConst  (* err = i.BitTimingConst.unmarshalBinary(nad.Bytes()) *)
| AUnmarshalClock           (* err = i.Clock.unmarshalBinary(nad.Bytes()) *)
| AUnmarshalCtrlMode        (* err = i.CtrlMode.unmarshalBinary(nad.Bytes()) *)
| AUnmarshalBerr            (* err = i.BusErrorCounters.unmarshalBinary(nad.Bytes()) *)
| AKindCheck                (* li.linkType = nad.String(); if neither "can" nor "vcan" { return error } *)
| ANestedInfo               (* nad.Nested(li.info.decode) *)
| AUnmarshalStats           (* err = li.stats.unmarshalBinary(nad.Bytes()) *)
| AIfname                   (* d.ifname = ad.String() *)
| ANestedLinkinfo.          (* ad.Nested(d.li.decode); d.li.info.Type = d.li.linkType *)

Definition walk := list (Z * act).

Definition info_walk : walk :=
  [(IFLA_CAN_BITTIMING, AUnmarshalBitTiming); (IFLA_CAN_BITTIMING_CONST, AUnmarshalBitTimingConst);
   (IFLA_CAN_CLOCK, AUnmarshalClock); (IFLA_CAN_CTRLMODE, AUnmarshalCtrlMode);
   (IFLA_CAN_BERR_COUNTER, AUnmarshalBerr)].
Definition linkinfo_walk : walk :=
  [(IFLA_INFO_KIND, AKindCheck); (IFLA_INFO_DATA, ANestedInfo); (IFLA_INFO_XSTATS, AUnmarshalStats)].
Definition device_walk : walk := [(IFLA_IFNAME, AIfname); (IFLA_LINKINFO, ANestedLinkinfo)].

(** switch ad.Type(): the first case whose constant equals the masked type *)
Fixpoint select (w : walk) (t : Z) : option act :=
  match w with
  | [] => None
  | (c, a) :: w' => if t =? c then Some a else select w' t
  end.

(** one loop iteration: an unknown type is skipped; an error ends the walk (it is the handler's result,
    and Attr.attrs_iter stops at the first error) *)
Definition step {S : Type} (exec : act -> S -> list Z -> outcome S) (w : walk)
           (st : S) (rawtype : Z) (d : list Z) : outcome S :=
  match select w (Z.land rawtype NLA_TYPE_MASK) with
  | Some a => exec a st d
  | None => Ok st
  end.

Definition info_exec (a : act) (i : info) (d : list Z) : outcome info :=
  match a with
  | AUnmarshalBitTiming => x <- unmarshal_bittiming d ;; Ok (set_bt i x)
  | AUnmarshalBitTimingConst => x <- unmarshal_bittiming_const d ;; Ok (set_btc i x)
  | AUnmarshalClock => x <- unmarshal_clock d ;; Ok (set_clock i x)
  | AUnmarshalCtrlMode => x <- unmarshal_ctrlmode d ;; Ok (set_cm i x)
  | AUnmarshalBerr => x <- unmarshal_berr_counters d ;; Ok (set_berr i x)
  | _ => Error
  end.

Definition run_info (wi : walk) (i0 : info) (b : list Z) : outcome info :=
  decode_attrs (step info_exec wi) b i0.

Definition linkinfo_exec (wi : walk) (a : act) (li : linkinfo) (d : list Z) : outcome linkinfo :=
  match a with
  | AKindCheck =>
      let k := trim_nul d in
      if bytes_eqb k kind_can || bytes_eqb k kind_vcan
      then Ok (Build_linkinfo k (li_info li) (li_stats li)) else Error
  | ANestedInfo => i <- run_info wi (li_info li) d ;; Ok (Build_linkinfo (li_kind li) i (li_stats li))
  | AUnmarshalStats => s <- unmarshal_stats d ;; Ok (Build_linkinfo (li_kind li) (li_info li) s)
  | _ => Error
  end.

Definition run_linkinfo (wi wl : walk) (li0 : linkinfo) (b : list Z) : outcome linkinfo :=
  decode_attrs (step (linkinfo_exec wi) wl) b li0.

Definition device_exec (wi wl : walk) (a : act) (dv : device) (d : list Z) : outcome device :=
  match a with
  | AIfname => Ok (Build_device (trim_nul d) (dev_ifi dv) (dev_li dv))
  | ANestedLinkinfo =>
      li <- run_linkinfo wi wl (dev_li dv) d ;;
      Ok (Build_device (dev_ifname dv) (dev_ifi dv)
            (Build_linkinfo (li_kind li) (set_type (li_info li) (li_kind li)) (li_stats li)))
  | _ => Error
  end.

(** Device.unmarshalBinary: header, NewAttributeDecoder, the ARPHRD_CAN check, then the walk *)
Definition run_device (wi wl wd : walk) (dv : device) (data : list Z) : outcome device :=
  hd <- slice data 0 sizeof_ifinfomsg ;;
  ifi <- unmarshal_ifinfomsg hd ;;
  tl <- slice data sizeof_ifinfomsg (length data) ;;
  _ <- available (length tl) tl ;;
  if negb (ifi_type ifi =? ARPHRD_CAN) then Error else
  attrs_iter (length tl) (step (device_exec wi wl) wd) tl (Build_device (dev_ifname dv) ifi (dev_li dv)).

(** * encoders: the AttributeEncoder calls in source order *)
Inductive eact :=
| EBytesBitTiming     (* nae.Bytes(c, i.BitTiming.marshalBinary()) *)
| EBytesCtrlMode      (* nae.Bytes(c, i.CtrlMode.marshalBinary()) *)
| EStringKind         (* nae.String(c, li.linkType) *)
| ENestedInfo.        (* nae.Nested(c, li.info.encode) *)
Definition eprog := list (Z * eact).

Definition info_encode_prog : eprog := [(IFLA_CAN_BITTIMING, EBytesBitTiming); (IFLA_CAN_CTRLMODE, EBytesCtrlMode)].
Definition linkinfo_encode_prog : eprog := [(IFLA_INFO_KIND, EStringKind); (IFLA_INFO_DATA, ENestedInfo)].

Fixpoint collect_info (p : eprog) (i : info) : outcome (list (Z * list Z)) :=
  match p with
  | [] => Ok []
  | (c, a) :: p' =>
      d <- match a with
           | EBytesBitTiming => marshal_bittiming (i_bittiming i)
           | EBytesCtrlMode => marshal_ctrlmode (i_ctrlmode i)
           | _ => Error
           end ;;
      rest <- collect_info p' i ;; Ok ((c, d) :: rest)
  end.
Definition run_encode_info (p : eprog) (i : info) : outcome (list Z) :=
  attrs <- collect_info p i ;; marshal_attrs attrs.

Fixpoint collect_linkinfo (pi p : eprog) (li : linkinfo) : outcome (list (Z * list Z)) :=
  match p with
  | [] => Ok []
  | (c, a) :: p' =>
      x <- match a with
           | EStringKind =>
               if max_payload <? Z.of_nat (length (li_kind li)) then Error else Ok (c, li_kind li ++ [0])
           | ENestedInfo => d <- run_encode_info pi (li_info li) ;; Ok (Z.lor NLA_F_NESTED c, d)
           | _ => Error
           end ;;
      rest <- collect_linkinfo pi p' li ;; Ok (x :: rest)
  end.
Definition run_encode_linkinfo (pi p : eprog) (li : linkinfo) : outcome (list Z) :=
  attrs <- collect_linkinfo pi p li ;; marshal_attrs attrs.
