(** Model of the fixed-layout binary codecs of pkg/candevice/device_linux.go (C20).

    DEFINITIONS ONLY (proofs: Netlink/Proofs.v; independent C layouts: Netlink/LayoutSpec.v).

    Conventions
    - a byte is a [Z] in 0..255; a byte slice is a [list Z]; Go strings are [list Z] of bytes;
      slice lengths and offsets are [nat].
    - a Go slice is modelled with cap = len (the harness passes full-slice expressions
      [b[:n:n]]; netlink's AttributeDecoder.Bytes() also returns cap = len).
    - native byte order = LITTLE-ENDIAN (amd64/arm64/riscv64 ...; nlenc stores through an
      unsafe pointer in host order). Stated in every theorem's reading.
    - partial Go operations are CHECKED: [slice], [write_at], [get_u8/16/32] return an
      [outcome]; [OutOfBounds] means that the Go program would have panicked there
      (slice bounds out of range, or nlenc's "unexpected byte slice length" panic);
      [Error] means that the Go function returned a non-nil error.
    - receivers: Go's unmarshalBinary methods assign the decoded fields into the receiver;
      every field of the receiver that the model's record has is overwritten on success, and
      nothing is written on error, so the model returns the new value [Ok x] / [Error]. *)
From Coq Require Import ZArith List Bool.
Import ListNotations.
Open Scope Z_scope.

Inductive outcome (A : Type) : Type :=
| Ok (x : A)
| Error
| OutOfBounds.
Arguments Ok {A} x.
Arguments Error {A}.
Arguments OutOfBounds {A}.

Definition bind {A B : Type} (o : outcome A) (f : A -> outcome B) : outcome B :=
  match o with
  | Ok x => f x
  | Error => Error
  | OutOfBounds => OutOfBounds
  end.

Notation "x <- e ;; k" := (bind e (fun x => k)) (at level 61, e at next level, right associativity).

(** ** checked slice operations *)

(** Go [b[lo:hi]] (cap = len): panics unless lo <= hi <= len b *)
Definition slice (b : list Z) (lo hi : nat) : outcome (list Z) :=
  if (Nat.leb lo hi && Nat.leb hi (length b))%bool
  then Ok (firstn (hi - lo) (skipn lo b))
  else OutOfBounds.

(** writing [src] through the sub-slice [buf[off : off+len src]] *)
Definition write_at (buf : list Z) (off : nat) (src : list Z) : outcome (list Z) :=
  if Nat.leb (off + length src) (length buf)
  then Ok (firstn off buf ++ src ++ skipn (off + length src) buf)
  else OutOfBounds.

(** Go [buf[i] = v] *)
Definition set_at (buf : list Z) (i : nat) (v : Z) : outcome (list Z) :=
  if Nat.ltb i (length buf)
  then Ok (firstn i buf ++ v :: skipn (S i) buf)
  else OutOfBounds.

(** ** native (little-endian) integers: github.com/mdlayher/netlink/nlenc *)

(** byte k (k = 0 least significant) of the two's-complement word v *)
Definition byte (v k : Z) : Z := Z.land (Z.shiftr v (8 * k)) 255.

Definition put_u16 (v : Z) : list Z := [byte v 0; byte v 1].
Definition put_u32 (v : Z) : list Z := [byte v 0; byte v 1; byte v 2; byte v 3].
(** PutInt32: the int32 is stored as its two's-complement bit pattern *)
Definition put_i32 (v : Z) : list Z := put_u32 (v mod 2 ^ 32).

(** nlenc.Uint8/Uint16/Uint32 panic unless the slice has exactly 1/2/4 bytes *)
Definition get_u8 (b : list Z) : outcome Z :=
  match b with [b0] => Ok b0 | _ => OutOfBounds end.
Definition get_u16 (b : list Z) : outcome Z :=
  match b with [b0; b1] => Ok (b0 + 256 * b1) | _ => OutOfBounds end.
Definition get_u32 (b : list Z) : outcome Z :=
  match b with
  | [b0; b1; b2; b3] => Ok (b0 + 256 * b1 + 65536 * b2 + 16777216 * b3)
  | _ => OutOfBounds
  end.
Definition get_i32 (b : list Z) : outcome Z :=
  u <- get_u32 b ;; Ok (if u <? 2 ^ 31 then u else u - 2 ^ 32).

(** field readers [nlenc.UintNN(data[lo:hi])] *)
Definition rd_u8 (b : list Z) (lo hi : nat) : outcome Z := s <- slice b lo hi ;; get_u8 s.
Definition rd_u16 (b : list Z) (lo hi : nat) : outcome Z := s <- slice b lo hi ;; get_u16 s.
Definition rd_u32 (b : list Z) (lo hi : nat) : outcome Z := s <- slice b lo hi ;; get_u32 s.
Definition rd_i32 (b : list Z) (lo hi : nat) : outcome Z := s <- slice b lo hi ;; get_i32 s.

(** field writers [nlenc.PutUintNN(buf[lo:hi], v)]: the sub-slice must exist and have the
    exact width (nlenc panics otherwise) *)
Definition wr (buf : list Z) (lo hi : nat) (src : list Z) : outcome (list Z) :=
  s <- slice buf lo hi ;;
  if Nat.eqb (length s) (length src) then write_at buf lo src else OutOfBounds.

(** ** the structures *)

Record ifinfomsg := { ifi_family : Z; ifi_type : Z; ifi_index : Z; ifi_flags : Z; ifi_change : Z }.
Record bittiming := {
  bt_bitrate : Z; bt_sample_point : Z; bt_tq : Z; bt_prop_seg : Z;
  bt_phase_seg1 : Z; bt_phase_seg2 : Z; bt_sjw : Z; bt_brp : Z }.
Record bittiming_const := {
  btc_name : list Z;
  btc_tseg1_min : Z; btc_tseg1_max : Z; btc_tseg2_min : Z; btc_tseg2_max : Z;
  btc_sjw_max : Z; btc_brp_min : Z; btc_brp_max : Z; btc_brp_inc : Z }.
Record clock := { clk_freq : Z }.
Record ctrlmode := { cm_mask : Z; cm_flags : Z }.
Record berr_counters := { bec_txerr : Z; bec_rxerr : Z }.
Record stats := {
  st_bus_error : Z; st_error_warning : Z; st_error_passive : Z;
  st_bus_off : Z; st_arbitration_lost : Z; st_restarts : Z }.

(** sizes: unix.SizeofIfInfomsg and the unsafe.Sizeof constants of device_linux.go:29-34 *)
Definition sizeof_ifinfomsg : nat := 16.
Definition sizeof_bittiming : nat := 32.
Definition sizeof_bittiming_const : nat := 48.
Definition sizeof_clock : nat := 4.
Definition sizeof_ctrlmode : nat := 8.
Definition sizeof_berr_counters : nat := 4.
Definition sizeof_stats : nat := 24.

(** *** ifInfoMsg (device_linux.go:341-366) *)
Definition marshal_ifinfomsg (x : ifinfomsg) : outcome (list Z) :=
  let buf := repeat 0 sizeof_ifinfomsg in
  buf <- set_at buf 0 (ifi_family x) ;;
  buf <- set_at buf 1 0 ;;
  buf <- wr buf 2 4 (put_u16 (ifi_type x)) ;;
  buf <- wr buf 4 8 (put_i32 (ifi_index x)) ;;
  buf <- wr buf 8 12 (put_u32 (ifi_flags x)) ;;
  buf <- wr buf 12 16 (put_u32 (ifi_change x)) ;;
  Ok buf.

Definition unmarshal_ifinfomsg (data : list Z) : outcome ifinfomsg :=
  if negb (Nat.eqb (length data) sizeof_ifinfomsg) then Error else
  f <- rd_u8 data 0 1 ;;
  t <- rd_u16 data 2 4 ;;
  i <- rd_i32 data 4 8 ;;
  fl <- rd_u32 data 8 12 ;;
  c <- rd_u32 data 12 16 ;;
  Ok {| ifi_family := f; ifi_type := t; ifi_index := i; ifi_flags := fl; ifi_change := c |}.

(** *** BitTiming (device_linux.go:372-402) *)
Definition marshal_bittiming (x : bittiming) : outcome (list Z) :=
  let buf := repeat 0 sizeof_bittiming in
  buf <- wr buf 0 4 (put_u32 (bt_bitrate x)) ;;
  buf <- wr buf 4 8 (put_u32 (bt_sample_point x)) ;;
  buf <- wr buf 8 12 (put_u32 (bt_tq x)) ;;
  buf <- wr buf 12 16 (put_u32 (bt_prop_seg x)) ;;
  buf <- wr buf 16 20 (put_u32 (bt_phase_seg1 x)) ;;
  buf <- wr buf 20 24 (put_u32 (bt_phase_seg2 x)) ;;
  buf <- wr buf 24 28 (put_u32 (bt_sjw x)) ;;
  buf <- wr buf 28 32 (put_u32 (bt_brp x)) ;;
  Ok buf.

Definition unmarshal_bittiming (data : list Z) : outcome bittiming :=
  if negb (Nat.eqb (length data) sizeof_bittiming) then Error else
  v0 <- rd_u32 data 0 4 ;;
  v1 <- rd_u32 data 4 8 ;;
  v2 <- rd_u32 data 8 12 ;;
  v3 <- rd_u32 data 12 16 ;;
  v4 <- rd_u32 data 16 20 ;;
  v5 <- rd_u32 data 20 24 ;;
  v6 <- rd_u32 data 24 28 ;;
  v7 <- rd_u32 data 28 32 ;;
  Ok {| bt_bitrate := v0; bt_sample_point := v1; bt_tq := v2; bt_prop_seg := v3;
        bt_phase_seg1 := v4; bt_phase_seg2 := v5; bt_sjw := v6; bt_brp := v7 |}.

(** *** BitTimingConst, decode only (device_linux.go:408-426); Name = copy of data[0:16] *)
Definition unmarshal_bittiming_const (data : list Z) : outcome bittiming_const :=
  if negb (Nat.eqb (length data) sizeof_bittiming_const) then Error else
  nm <- slice data 0 16 ;;
  v0 <- rd_u32 data 16 20 ;;
  v1 <- rd_u32 data 20 24 ;;
  v2 <- rd_u32 data 24 28 ;;
  v3 <- rd_u32 data 28 32 ;;
  v4 <- rd_u32 data 32 36 ;;
  v5 <- rd_u32 data 36 40 ;;
  v6 <- rd_u32 data 40 44 ;;
  v7 <- rd_u32 data 44 48 ;;
  Ok {| btc_name := nm;
        btc_tseg1_min := v0; btc_tseg1_max := v1; btc_tseg2_min := v2; btc_tseg2_max := v3;
        btc_sjw_max := v4; btc_brp_min := v5; btc_brp_max := v6; btc_brp_inc := v7 |}.

(** *** Clock, decode only (device_linux.go:432-442): nlenc.Uint32(data) on the whole slice *)
Definition unmarshal_clock (data : list Z) : outcome clock :=
  if negb (Nat.eqb (length data) sizeof_clock) then Error else
  f <- get_u32 data ;;
  Ok {| clk_freq := f |}.

(** *** CtrlMode (device_linux.go:448-466) *)
Definition marshal_ctrlmode (x : ctrlmode) : outcome (list Z) :=
  let buf := repeat 0 sizeof_ctrlmode in
  buf <- wr buf 0 4 (put_u32 (cm_mask x)) ;;
  buf <- wr buf 4 8 (put_u32 (cm_flags x)) ;;
  Ok buf.

Definition unmarshal_ctrlmode (data : list Z) : outcome ctrlmode :=
  if negb (Nat.eqb (length data) sizeof_ctrlmode) then Error else
  m <- rd_u32 data 0 4 ;;
  f <- rd_u32 data 4 8 ;;
  Ok {| cm_mask := m; cm_flags := f |}.

(** *** BusErrorCounters, decode only (device_linux.go:472-483) *)
Definition unmarshal_berr_counters (data : list Z) : outcome berr_counters :=
  if negb (Nat.eqb (length data) sizeof_berr_counters) then Error else
  t <- rd_u16 data 0 2 ;;
  r <- rd_u16 data 2 4 ;;
  Ok {| bec_txerr := t; bec_rxerr := r |}.

(** *** Stats, decode only (device_linux.go:489-504) *)
Definition unmarshal_stats (data : list Z) : outcome stats :=
  if negb (Nat.eqb (length data) sizeof_stats) then Error else
  v0 <- rd_u32 data 0 4 ;;
  v1 <- rd_u32 data 4 8 ;;
  v2 <- rd_u32 data 8 12 ;;
  v3 <- rd_u32 data 12 16 ;;
  v4 <- rd_u32 data 16 20 ;;
  v5 <- rd_u32 data 20 24 ;;
  Ok {| st_bus_error := v0; st_error_warning := v1; st_error_passive := v2;
        st_bus_off := v3; st_arbitration_lost := v4; st_restarts := v5 |}.

(** ** value ranges of the Go field types *)
Definition u8 (v : Z) : Prop := 0 <= v < 2 ^ 8.
Definition u16 (v : Z) : Prop := 0 <= v < 2 ^ 16.
Definition u32 (v : Z) : Prop := 0 <= v < 2 ^ 32.
Definition i32 (v : Z) : Prop := - 2 ^ 31 <= v < 2 ^ 31.
Definition bytes_ok (b : list Z) : Prop := Forall u8 b.

Definition ifinfomsg_wf (x : ifinfomsg) : Prop :=
  u8 (ifi_family x) /\ u16 (ifi_type x) /\ i32 (ifi_index x) /\ u32 (ifi_flags x) /\ u32 (ifi_change x).
Definition bittiming_wf (x : bittiming) : Prop :=
  u32 (bt_bitrate x) /\ u32 (bt_sample_point x) /\ u32 (bt_tq x) /\ u32 (bt_prop_seg x) /\
  u32 (bt_phase_seg1 x) /\ u32 (bt_phase_seg2 x) /\ u32 (bt_sjw x) /\ u32 (bt_brp x).
Definition ctrlmode_wf (x : ctrlmode) : Prop := u32 (cm_mask x) /\ u32 (cm_flags x).
