(** What the lookups of Descriptor/Lookup.v return: an element of the list with the wanted key, the
    first one; [None] exactly when no element has the key. *)
From Coq Require Import ZArith List Bool Lia.
From CanVerif Require Import Descriptor.Types Gen.Message Descriptor.Lookup.
Import ListNotations.
Open Scope Z_scope.

Lemma name_eqb_eq a b : name_eqb a b = true <-> a = b.
Proof.
  revert b; induction a as [| x a IH]; intros [| y b]; cbn; try (split; [discriminate | discriminate]); [tauto |].
  rewrite andb_true_iff, Z.eqb_eq, IH. split; [intros [-> ->]; reflexivity | intros H; injection H; auto].
Qed.

(** first match: [l = pre ++ x :: post], x has the key, nothing in [pre] has it *)
Lemma find_node_some ns name n : find_node ns name = Some n ->
  exists pre post, ns = pre ++ n :: post /\ node_name n = name /\ forall n', In n' pre -> node_name n' <> name.
Proof.
  induction ns as [| x tl IH]; cbn [find_node]; [discriminate |].
  destruct (name_eqb (node_name x) name) eqn:E.
  - intros H; injection H as <-. exists [], tl. apply name_eqb_eq in E. repeat split; auto; intros ? [].
  - intros H. destruct (IH H) as (pre & post & -> & Hn & Hp). exists (x :: pre), post. repeat split; auto.
    intros n' [<- | Hin]; [| auto]. intros Hc. apply name_eqb_eq in Hc. congruence.
Qed.
Lemma find_node_none ns name : find_node ns name = None -> forall n, In n ns -> node_name n <> name.
Proof.
  induction ns as [| x tl IH]; cbn [find_node]; [intros _ ? [] |].
  destruct (name_eqb (node_name x) name) eqn:E; [discriminate |].
  intros H n [<- | Hin]; [| auto]. intros Hc. apply name_eqb_eq in Hc. congruence.
Qed.

Lemma find_signal_some ss name s : find_signal ss name = Some s ->
  exists pre post, ss = pre ++ s :: post /\ s_name s = name /\ forall s', In s' pre -> s_name s' <> name.
Proof.
  induction ss as [| x tl IH]; cbn [find_signal]; [discriminate |].
  destruct (name_eqb (s_name x) name) eqn:E.
  - intros H; injection H as <-. exists [], tl. apply name_eqb_eq in E. repeat split; auto; intros ? [].
  - intros H. destruct (IH H) as (pre & post & -> & Hn & Hp). exists (x :: pre), post. repeat split; auto.
    intros s' [<- | Hin]; [| auto]. intros Hc. apply name_eqb_eq in Hc. congruence.
Qed.
Lemma find_signal_none ss name : find_signal ss name = None -> forall s, In s ss -> s_name s <> name.
Proof.
  induction ss as [| x tl IH]; cbn [find_signal]; [intros _ ? [] |].
  destruct (name_eqb (s_name x) name) eqn:E; [discriminate |].
  intros H s [<- | Hin]; [| auto]. intros Hc. apply name_eqb_eq in Hc. congruence.
Qed.

(** Database.Signal finds a signal of the first message with that ID *)
Lemma db_signal_some db id name s : db_signal db id name = Some s ->
  exists m, find_message (db_messages db) id = Some m /\ In s (msg_signals m) /\ s_name s = name.
Proof.
  unfold db_signal. destruct (find_message (db_messages db) id) as [m |]; [| discriminate].
  intros H. exists m. destruct (find_signal_some _ _ _ H) as (pre & post & E & Hn & _).
  repeat split; auto. rewrite E. apply in_or_app. right. left. reflexivity.
Qed.
