(** pkg/descriptor data types as Coq records (shared by the descriptor, compile and
    generator families). Go strings are UTF-8 byte lists; float64 fields are IEEE-754 binary64
    BIT PATTERNS (Z in 0..2^64-1), so this file is Flocq-free. DEFINITIONS ONLY. *)
From Coq Require Import ZArith List Bool.
Import ListNotations.
Open Scope Z_scope.

Definition bytes := list Z.

(** descriptor.ValueDescription *)
Record value_description := { vdesc_value : Z (* int64 *); vdesc_text : bytes }.

(** descriptor.Signal (pkg/descriptor/signal.go:11-48) *)
Record signal := {
  s_name : bytes;
  s_start : Z;              (* uint8 *)
  s_length : Z;             (* uint8 *)
  s_big_endian : bool;
  s_signed : bool;
  s_float : bool;
  s_multiplexer : bool;
  s_multiplexed : bool;
  s_mux_value : Z;          (* uint *)
  s_offset : Z; s_scale : Z; s_min : Z; s_max : Z;   (* float64 bit patterns *)
  s_unit : bytes;
  s_description : bytes;
  s_value_descriptions : list value_description;
  s_receivers : list bytes;
  s_default : Z             (* int *)
}.

(** descriptor.SendType *)
Inductive send_type := SendNone | SendCyclic | SendEvent.

(** descriptor.Message; durations in nanoseconds (time.Duration) *)
Record message := {
  msg_name : bytes;
  msg_id : Z;               (* uint32, extended flag stripped *)
  msg_extended : bool;
  msg_length : Z;           (* uint8 *)
  msg_send_type : send_type;
  msg_description : bytes;
  msg_signals : list signal;
  msg_sender : bytes;
  msg_cycle_time : Z;
  msg_delay_time : Z
}.

(** descriptor.Node *)
Record node := { node_name : bytes; node_description : bytes }.

(** descriptor.Database *)
Record database := {
  db_source_file : bytes;
  db_version : bytes;
  db_messages : list message;
  db_nodes : list node
}.
