(** Executable model of the floating-point part of /repo/pkg/descriptor/signal.go
    (ToPhysical, FromPhysical, UnmarshalPhysical, UnmarshalFloat, MarshalFloat,
    SaturatedCastFloat) and of the truncating conversion in the generated physical setter
    (/repo/internal/generate/file.go:280-283: [m.x = T(desc.FromPhysical(v))]).

    float64 = Flocq [binary_float 53 1024], float32 = [binary_float 24 128] (BinarySingleNaN:
    one NaN; NaN payloads are not modelled, both sides of the correspondence canonicalise NaN).
    Every arithmetic operation is one IEEE-754 round-to-nearest-even operation (Go on amd64:
    MULSD/ADDSD/SUBSD/DIVSD, no fused multiply-add).
    [math.Max]/[math.Min] follow /usr/lib/go/src/math/dim.go (and dim_amd64.s) including the
    order of the special cases.  float64(int64/uint64) = correctly rounded = [binary_normalize];
    float32(x) = rounding of the binary64 value at binary32 precision (Flocq has no [Bconv];
    this is how CompCert defines it); float64(float32) is exact.  The unsafe.Pointer cast of
    UnmarshalFloat/MarshalFloat reads/writes the LOW 32 bits of the uint64 (little-endian host,
    amd64).

    The float64 fields of [signal] are bit patterns; [*_f] functions take the decoded floats.

    DEFINITIONS ONLY - proofs are in Descriptor/FloatProofs.v (float32 signals), Descriptor/PhysicalProofs.v
    (clamp, saturation, monotonicity) and Descriptor/RoundTrip.v (round-trip bounds). *)
From Coq Require Import ZArith List Bool.
From Flocq Require Import Core BinarySingleNaN.
From Flocq Require Import Calc.Operations.
From Flocq Require Binary Bits.
From CanVerif Require Import Can.Data Descriptor.Signal.
Import ListNotations.
Open Scope Z_scope.

Definition f64 := binary_float 53 1024.
Definition f32 := binary_float 24 128.

#[global] Instance Hprec64 : FLX.Prec_gt_0 53 := eq_refl.
#[global] Instance Hmax64 : Prec_lt_emax 53 1024 := eq_refl.
#[global] Instance Hprec32 : FLX.Prec_gt_0 24 := eq_refl.
#[global] Instance Hmax32 : Prec_lt_emax 24 128 := eq_refl.

(** * Bit patterns *)
Definition f64_of_bits (z : Z) : f64 := Binary.B2BSN 53 1024 (Bits.b64_of_bits z).
(** NaN is printed as the canonical quiet NaN 0x7ff8000000000000 *)
Definition bits_of_f64 (x : f64) : Z :=
  Bits.bits_of_b64 (Binary.BSN2B 53 1024 Bits.default_nan_pl64 x).
Definition f32_of_bits (z : Z) : f32 := Binary.B2BSN 24 128 (Bits.b32_of_bits z).
(** NaN is printed as the canonical quiet NaN 0x7fc00000 *)
Definition bits_of_f32 (x : f32) : Z :=
  Bits.bits_of_b32 (Binary.BSN2B 24 128 Bits.default_nan_pl32 x).

(** * Elementary operations *)
Definition fadd (x y : f64) : f64 := Bplus mode_NE x y.
Definition fsub (x y : f64) : f64 := Bminus mode_NE x y.
Definition fmul (x y : f64) : f64 := Bmult mode_NE x y.
Definition fdiv (x y : f64) : f64 := Bdiv mode_NE x y.

(** float64(i) for an int64 or uint64 [i] (0 converts to +0) *)
Definition f64_of_Z (z : Z) : f64 := binary_normalize 53 1024 _ _ mode_NE z 0 false.

Definition fzero : f64 := B754_zero false.
(** Go [x != 0] (true for NaN, false for -0) *)
Definition fne0 (x : f64) : bool := negb (Beqb x fzero).

Definition is_pinf (x : f64) : bool := match x with B754_infinity false => true | _ => false end.
Definition is_ninf (x : f64) : bool := match x with B754_infinity true => true | _ => false end.
Definition is_zero (x : f64) : bool := match x with B754_zero _ => true | _ => false end.

(** math.Min: -Inf cases first, then NaN, then the signed zeros, then [x < y] *)
Definition fmin (x y : f64) : f64 :=
  if is_ninf x || is_ninf y then B754_infinity true
  else if is_nan x || is_nan y then B754_nan
  else if is_zero x && is_zero y then (if Bsign x then x else y)
  else if Bltb x y then x else y.

(** math.Max: +Inf cases first, then NaN, then the signed zeros, then [x > y] *)
Definition fmax (x y : f64) : f64 :=
  if is_pinf x || is_pinf y then B754_infinity false
  else if is_nan x || is_nan y then B754_nan
  else if is_zero x && is_zero y then (if Bsign x then y else x)
  else if Bltb y x then x else y.

(** float32(x): round the binary64 value to binary32 (ties to even, overflow to infinity) *)
Definition f32_of_f64 (x : f64) : f32 :=
  match x with
  | B754_zero s => B754_zero s
  | B754_infinity s => B754_infinity s
  | B754_nan => B754_nan
  | B754_finite s m e _ => binary_normalize 24 128 _ _ mode_NE (cond_Zopp s (Zpos m)) e s
  end.

(** float64(f) for a float32 [f]: exact *)
Definition f64_of_f32 (x : f32) : f64 :=
  match x with
  | B754_zero s => B754_zero s
  | B754_infinity s => B754_infinity s
  | B754_nan => B754_nan
  | B754_finite s m e _ => binary_normalize 53 1024 _ _ mode_NE (cond_Zopp s (Zpos m)) e s
  end.

(** * Float signals (signal.go:148-156, 182-186) *)
Definition unmarshal_float (s : signal) (d : data) : f64 :=
  f64_of_f32 (f32_of_bits ((unmarshal_unsigned s d) mod 2 ^ 32)).

Definition marshal_float (s : signal) (d : data) (value : f64) : data :=
  marshal_unsigned s d (bits_of_f32 (f32_of_f64 value)).

(** signal.go:207-214 MinFloat/MaxFloat = -/+ math.MaxFloat32 as float64 *)
Definition max_float : f64 := f64_of_bits 0x47efffffe0000000.
Definition min_float : f64 := f64_of_bits 0xc7efffffe0000000.

(** signal.go:242-252 SaturatedCastFloat (NaN falls through both comparisons) *)
Definition saturated_cast_float (value : f64) : f64 :=
  if Bltb value min_float then min_float
  else if Bltb max_float value then max_float
  else value.

(** * Physical <-> raw on decoded parameters *)
(** the test [s.Min != 0 || s.Max != 0] *)
Definition declared_f (mn mx : f64) : bool := fne0 mn || fne0 mx.
(** [math.Max(math.Min(x, s.Max), s.Min)] *)
Definition clamp_f (mn mx x : f64) : f64 := fmax (fmin x mx) mn.
Definition clamp_opt_f (mn mx x : f64) : f64 := if declared_f mn mx then clamp_f mn mx x else x.

(** signal.go:61-69 ToPhysical *)
Definition to_physical_f (scale offset mn mx value : f64) : f64 :=
  clamp_opt_f mn mx (fadd (fmul value scale) offset).

(** float64 of the raw bounds used by the saturated cast in FromPhysical *)
Definition raw_lo_f (signed : bool) (len : Z) : f64 :=
  if signed then f64_of_Z (min_signed_l len) else fzero.
Definition raw_hi_f (signed : bool) (len : Z) : f64 :=
  if signed then f64_of_Z (max_signed_l len) else f64_of_Z (max_unsigned_l len).

(** signal.go:72-86 FromPhysical *)
Definition from_physical_f (scale offset mn mx : f64) (signed : bool) (len : Z) (physical : f64) : f64 :=
  let c := clamp_opt_f mn mx physical in
  let q := fdiv (fsub c offset) scale in
  fmax (raw_lo_f signed len) (fmin (raw_hi_f signed len) q).

(** the integer the generated setter stores: T(FromPhysical(v)), truncation towards zero
    (Go defines the conversion only when the truncated value fits T; theorem
    [setter_in_raw_range] shows it fits the signal's raw range, hence T) *)
Definition setter_raw_f (scale offset mn mx : f64) (signed : bool) (len : Z) (physical : f64) : Z :=
  Btrunc (from_physical_f scale offset mn mx signed len physical).

(** * The same on a descriptor *)
Definition sc (s : signal) : f64 := f64_of_bits (s_scale s).
Definition off (s : signal) : f64 := f64_of_bits (s_offset s).
Definition smin (s : signal) : f64 := f64_of_bits (s_min s).
Definition smax (s : signal) : f64 := f64_of_bits (s_max s).

Definition to_physical (s : signal) (value : f64) : f64 :=
  to_physical_f (sc s) (off s) (smin s) (smax s) value.
Definition from_physical (s : signal) (physical : f64) : f64 :=
  from_physical_f (sc s) (off s) (smin s) (smax s) (s_signed s) (s_length s) physical.
Definition setter_raw (s : signal) (physical : f64) : Z := Btrunc (from_physical s physical).
(** the generated getter: desc.ToPhysical(float64(m.x)) *)
Definition getter_physical (s : signal) (raw : Z) : f64 := to_physical s (f64_of_Z raw).

Definition fone : f64 := f64_of_Z 1.

(** signal.go:89-110 UnmarshalPhysical *)
Definition unmarshal_physical (s : signal) (d : data) : f64 :=
  if s_length s =? 1 then (if bit d (s_start s) then fone else fzero)
  else if s_signed s then to_physical s (f64_of_Z (unmarshal_signed s d))
  else to_physical s (f64_of_Z (unmarshal_unsigned s d)).

(** * Decidable forms of the C09 clauses, evaluated by the driver on the IMPLEMENTATION's
      outputs (DESIGN.md 2.3); theorems in PhysicalProofs.v show the model satisfies them. *)
Definition finiteb (x : f64) : bool := is_finite x.
Definition nonzerob (x : f64) : bool := match x with B754_finite _ _ _ _ => true | _ => false end.

(** the class of signals the property quantifies over: finite non-zero scale, finite offset,
    min, max, min <= max *)
Definition c09_class_f (scale offset mn mx : f64) : bool :=
  nonzerob scale && finiteb offset && finiteb mn && finiteb mx && Bleb mn mx.

(** clamp clause: [res] = claimed ToPhysical(float64 raw) *)
Definition clamp_ok_f (scale offset mn mx : f64) (value res : f64) : bool :=
  if declared_f mn mx
  then Bleb mn res && Bleb res mx && Beqb res (clamp_f mn mx (fadd (fmul value scale) offset))
  else Beqb res (fadd (fmul value scale) offset)
       || (is_nan res && is_nan (fadd (fmul value scale) offset)).

(** saturation clause: [res] = claimed FromPhysical(p), [t] = what the setter stored *)
Definition sat_ok_f (signed : bool) (len : Z) (res : f64) (t : Z) : bool :=
  Bleb (raw_lo_f signed len) res && Bleb res (raw_hi_f signed len) &&
  (if signed then (min_signed_l len <=? t) && (t <=? max_signed_l len)
   else (0 <=? t) && (t <=? max_unsigned_l len)).

(** monotonicity clause on an ordered pair p <= q with claimed results rp, rq *)
Definition mono_ok_f (scale : f64) (rp rq : f64) : bool :=
  if Bsign scale then Bleb rq rp else Bleb rp rq.

(** ** Round trip (signals of at most 32 bits whose step float64 resolves) *)
(** exact dyadic value of a finite float (0 for the others; callers test finiteness) *)
Definition dy (x : f64) : float radix2 :=
  match x with
  | B754_finite s m e _ => Float radix2 (cond_Zopp s (Zpos m)) e
  | _ => Float radix2 0 0
  end.
(** exact comparison a < b of dyadic numbers *)
Definition dy_ltb (a b : float radix2) : bool :=
  let '(ma, mb, _) := Falign a b in ma <? mb.

Definition pow2_f (e : Z) : f64 := binary_normalize 53 1024 _ _ mode_NE 1 e false.
Definition mag_ok (x : f64) : bool := Bleb (pow2_f (-960)) (Babs x) && Bleb (Babs x) (pow2_f 960).

(** [resolves]: scale of magnitude within [2^-960, 2^960]; offset zero or of such magnitude;
    |offset| <= 2^50 * |scale| (the product is exact, so this is a comparison of reals) *)
Definition resolves_f (scale offset : f64) : bool :=
  mag_ok scale && (is_zero offset || mag_ok offset) &&
  Bleb (Babs offset) (fmul (pow2_f 50) (Babs scale)).

Definition raw_in_range (signed : bool) (len r : Z) : bool :=
  if signed then (min_signed_l len <=? r) && (r <=? max_signed_l len)
  else (0 <=? r) && (r <=? max_unsigned_l len).

(** x lies inside the declared range (trivially true when none is declared) *)
Definition in_range_f (mn mx x : f64) : bool :=
  finiteb x && (negb (declared_f mn mx) || (Bleb mn x && Bleb x mx)).

(** raw -> physical -> raw: [back] = what the setter stores for ToPhysical(float64 r);
    the clause binds only when its hypotheses hold *)
Definition rt_raw_ok_f (scale offset mn mx : f64) (signed : bool) (len r back : Z) : bool :=
  if (len <=? 32) && resolves_f scale offset && raw_in_range signed len r
     && in_range_f mn mx (fadd (fmul (f64_of_Z r) scale) offset)
  then Z.abs (back - r) <=? 1 else true.

(** the physical values of the two raw extremes, before clamping *)
Definition phys_of_raw_f (scale offset : f64) (r : f64) : f64 := fadd (fmul r scale) offset.
Definition in_representable_f (scale offset : f64) (signed : bool) (len : Z) (p : f64) : bool :=
  let a := phys_of_raw_f scale offset (raw_lo_f signed len) in
  let b := phys_of_raw_f scale offset (raw_hi_f signed len) in
  (Bleb a p && Bleb p b) || (Bleb b p && Bleb p a).

(** physical -> raw -> physical: [back] = ToPhysical(float64 (setter p)); [steps] = 1 is the
    clause of the property text (refuted for the exact order, lemma [rt_phys_strict_refuted]),
    [steps] = 2 the bound that is kept *)
Definition rt_phys_ok_f (steps : Z) (scale offset mn mx : f64) (signed : bool) (len : Z) (p back : f64) : bool :=
  if (len <=? 32) && resolves_f scale offset && finiteb p && in_range_f mn mx p
     && in_representable_f scale offset signed len p
  then finiteb back &&
       dy_ltb (Fabs (Fminus (dy back) (dy p))) (Fmult (Float radix2 steps 0) (Fabs (dy scale)))
  else true.
