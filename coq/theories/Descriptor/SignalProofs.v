(** Proofs about the integer part of the descriptor model (Descriptor/Signal.v):
    unmarshal = the read C01 specifies, marshal = the write C02 specifies, for the
    descriptor's geometry; 1-bit signals; exact raw bounds for every length 1..64; saturated
    casts.  Everything is a corollary of Can/DataProofs.v or a finite case split over L. *)
From Coq Require Import ZArith List Bool Lia.
From CanVerif Require Import Base.Bits Can.Data Can.DataSpec Can.CheckProofs Can.DataProofs.
From CanVerif Require Import Descriptor.Signal.
Import ListNotations.
Open Scope Z_scope.

(** * Geometry of a descriptor, by the documented numbering (DataSpec) *)
(** payload position of value bit [i] (0 = least significant) *)
Definition sig_pos (s : signal) (i : Z) : Z :=
  if s_big_endian s then be_pos (s_start s) (s_length s - 1 - i) else le_pos (s_start s) i.

(** the signal lies inside the 64 payload bits *)
Definition sig_fits (s : signal) : Prop :=
  1 <= s_length s <= 64 /\
  if s_big_endian s then 0 <= s_start s < 64 /\ stream (s_start s) + s_length s <= 64
  else 0 <= s_start s /\ s_start s + s_length s <= 64.

Lemma sig_fits_positions s :
  sig_fits s -> forall i, 0 <= i < s_length s -> 0 <= sig_pos s i < 64.
Proof.
  unfold sig_fits, sig_pos. intros [Hl H] i Hi. destruct (s_big_endian s).
  - destruct H as [Hs Hf].
    pose proof (fits_be_closed 64 (s_start s) (s_length s) ltac:(lia) ltac:(lia) eq_refl) as [_ Hc].
    specialize (Hc Hf (s_length s - 1 - i) ltac:(lia)).
    assert (0 <= be_pos (s_start s) (s_length s - 1 - i)) by (apply be_pos_nat_nonneg; lia). lia.
  - unfold le_pos. lia.
Qed.

(** * Unmarshal = C01 *)
Theorem unmarshal_unsigned_bits s d i :
  valid_data d -> sig_fits s -> 0 <= i ->
  Z.testbit (unmarshal_unsigned s d) i = (i <? s_length s) && pbit d (sig_pos s i).
Proof.
  unfold sig_fits, unmarshal_unsigned, sig_pos. intros Hd [Hl H] Hi. destruct (s_big_endian s).
  - destruct H. apply ubits_be_bits; assumption.
  - destruct H. apply ubits_le_bits; assumption.
Qed.

Theorem unmarshal_unsigned_range s d :
  1 <= s_length s <= 64 -> 0 <= unmarshal_unsigned s d < 2 ^ s_length s.
Proof.
  unfold unmarshal_unsigned. intros Hl. destruct (s_big_endian s);
    [apply ubits_be_range|apply ubits_le_range]; exact Hl.
Qed.

Theorem unmarshal_signed_sext s d :
  1 <= s_length s <= 64 -> unmarshal_signed s d = sext (s_length s) (unmarshal_unsigned s d).
Proof.
  unfold unmarshal_signed, unmarshal_unsigned. intros Hl. destruct (s_big_endian s);
    [apply sbits_be_sext|apply sbits_le_sext]; exact Hl.
Qed.

Theorem unmarshal_bool_spec s d :
  valid_data d -> 0 <= s_start s <= 63 -> unmarshal_bool s d = pbit d (s_start s).
Proof.
  intros Hd Hs. unfold unmarshal_bool. rewrite bit_spec by (assumption || lia).
  replace (s_start s <=? 63) with true by (symmetry; apply Z.leb_le; lia). reflexivity.
Qed.

(** * Marshal = C02 *)
Theorem marshal_unsigned_valid s d v : valid_data (marshal_unsigned s d v).
Proof.
  unfold marshal_unsigned. destruct (s_big_endian s);
    [apply set_ubits_be_valid|apply set_ubits_le_valid].
Qed.

Theorem marshal_unsigned_content s d v i :
  valid_data d -> sig_fits s -> 0 <= v < 2 ^ s_length s -> 0 <= i < s_length s ->
  pbit (marshal_unsigned s d v) (sig_pos s i) = Z.testbit v i.
Proof.
  unfold sig_fits, marshal_unsigned, sig_pos. intros Hd [Hl H] Hv Hi. destruct (s_big_endian s).
  - destruct H. apply set_ubits_be_content; assumption.
  - destruct H. apply set_ubits_le_content; assumption.
Qed.

Theorem marshal_unsigned_frame s d v k :
  valid_data d -> sig_fits s -> 0 <= v < 2 ^ s_length s -> 0 <= k < 64 ->
  (forall i, 0 <= i < s_length s -> k <> sig_pos s i) ->
  pbit (marshal_unsigned s d v) k = pbit d k.
Proof.
  unfold sig_fits, marshal_unsigned, sig_pos. intros Hd [Hl H] Hv Hk Hout. destruct (s_big_endian s).
  - destruct H. apply set_ubits_be_frame; try assumption.
    intros j Hj. specialize (Hout (s_length s - 1 - j) ltac:(lia)).
    replace (s_length s - 1 - (s_length s - 1 - j)) with j in Hout by lia. exact Hout.
  - destruct H. apply set_ubits_le_frame; assumption.
Qed.

Theorem marshal_signed_eq s d w :
  1 <= s_length s <= 64 -> marshal_signed s d w = marshal_unsigned s d (w mod 2 ^ s_length s).
Proof.
  unfold marshal_signed, marshal_unsigned. intros Hl. destruct (s_big_endian s);
    [apply set_sbits_be_eq|apply set_sbits_le_eq]; exact Hl.
Qed.

Theorem marshal_bool_bits s d b k :
  valid_data d -> 0 <= s_start s <= 63 -> 0 <= k < 64 ->
  pbit (marshal_bool s d b) k = if k =? s_start s then b else pbit d k.
Proof.
  intros Hd Hs Hk. unfold marshal_bool. rewrite set_bit_bits by (assumption || lia).
  replace (s_start s <=? 63) with true by (symmetry; apply Z.leb_le; lia). reflexivity.
Qed.

(** read-after-write *)
Theorem unmarshal_marshal_unsigned s d v :
  valid_data d -> sig_fits s -> 0 <= v < 2 ^ s_length s ->
  unmarshal_unsigned s (marshal_unsigned s d v) = v.
Proof.
  unfold sig_fits, marshal_unsigned, unmarshal_unsigned. intros Hd [Hl H] Hv. destruct (s_big_endian s).
  - destruct H. apply ubits_be_set; assumption.
  - destruct H. apply ubits_le_set; assumption.
Qed.

Theorem unmarshal_marshal_signed s d w :
  valid_data d -> sig_fits s ->
  unmarshal_signed s (marshal_signed s d w) = sext (s_length s) (w mod 2 ^ s_length s).
Proof.
  unfold sig_fits, marshal_signed, unmarshal_signed. intros Hd [Hl H]. destruct (s_big_endian s).
  - destruct H. apply sbits_be_set; assumption.
  - destruct H. apply sbits_le_set; assumption.
Qed.

Corollary unmarshal_marshal_signed_in_range s d w :
  valid_data d -> sig_fits s -> - 2 ^ (s_length s - 1) <= w < 2 ^ (s_length s - 1) ->
  unmarshal_signed s (marshal_signed s d w) = w.
Proof.
  intros Hd Hf Hw. rewrite unmarshal_marshal_signed by assumption.
  apply sext_mod; [destruct Hf; lia|exact Hw].
Qed.

(** * 1-bit signals read and write the single addressed bit *)
Lemma sig_pos_one s : s_length s = 1 -> sig_pos s 0 = s_start s.
Proof.
  intros E. unfold sig_pos. rewrite E. destruct (s_big_endian s); [reflexivity|unfold le_pos; lia].
Qed.

Theorem one_bit_unmarshal s d :
  valid_data d -> sig_fits s -> s_length s = 1 ->
  unmarshal_unsigned s d = (if pbit d (s_start s) then 1 else 0) /\
  unmarshal_bool s d = pbit d (s_start s).
Proof.
  intros Hd Hf E. split.
  - apply Z.bits_inj'. intros i Hi. rewrite unmarshal_unsigned_bits by assumption. rewrite E.
    destruct (Z.eq_dec i 0) as [->|Hne].
    + rewrite sig_pos_one by exact E. cbn [Z.ltb Z.compare andb].
      destruct (pbit d (s_start s)); reflexivity.
    + replace (i <? 1) with false by (symmetry; apply Z.ltb_ge; lia). cbn [andb].
      destruct (pbit d (s_start s)); [|rewrite Z.bits_0; reflexivity].
      change 1 with (2 ^ 0). rewrite Z.pow2_bits_false by lia. reflexivity.
  - apply unmarshal_bool_spec; [exact Hd|].
    destruct Hf as [_ H]. rewrite E in H. destruct (s_big_endian s); lia.
Qed.

Theorem one_bit_marshal s d v k :
  valid_data d -> sig_fits s -> s_length s = 1 -> 0 <= v <= 1 -> 0 <= k < 64 ->
  pbit (marshal_unsigned s d v) k = if k =? s_start s then Z.testbit v 0 else pbit d k.
Proof.
  intros Hd Hf E Hv Hk. destruct (Z.eqb_spec k (s_start s)) as [->|Hne].
  - rewrite <- (sig_pos_one s E). apply marshal_unsigned_content; try assumption; rewrite E; lia.
  - apply marshal_unsigned_frame; try assumption; [rewrite E; lia|].
    intros i Hi. rewrite E in Hi. assert (i = 0) by lia. subst i. rewrite sig_pos_one by exact E. exact Hne.
Qed.

(** * Raw bounds: exact for every length 1..64 (finite, fully enumerated domain) *)
Definition lengths : list Z := map Z.of_nat (seq 1 64).

Lemma in_lengths l : 1 <= l <= 64 -> In l lengths.
Proof.
  intros Hl. unfold lengths. apply in_map_iff. exists (Z.to_nat l). split; [lia|].
  apply in_seq. lia.
Qed.

Definition bounds_ok (l : Z) : bool :=
  (max_unsigned_l l =? 2 ^ l - 1) && (min_signed_l l =? - 2 ^ (l - 1)) && (max_signed_l l =? 2 ^ (l - 1) - 1).

Lemma bounds_all : forallb bounds_ok lengths = true.
Proof. vm_compute. reflexivity. Qed.

Theorem bounds_exact l :
  1 <= l <= 64 ->
  max_unsigned_l l = 2 ^ l - 1 /\ min_signed_l l = - 2 ^ (l - 1) /\ max_signed_l l = 2 ^ (l - 1) - 1.
Proof.
  intros Hl. pose proof (proj1 (forallb_forall _ _) bounds_all l (in_lengths l Hl)) as H.
  unfold bounds_ok in H. apply andb_true_iff in H. destruct H as [H H3].
  apply andb_true_iff in H. destruct H as [H1 H2].
  apply Z.eqb_eq in H1, H2, H3. auto.
Qed.

(** the pre-fix formulas are wrong exactly at L = 63 and L = 64 (defect F3) *)
Definition bounds_ok_old (l : Z) : bool :=
  (min_signed_l_old l =? - 2 ^ (l - 1)) && (max_signed_l_old l =? 2 ^ (l - 1) - 1).

Lemma bounds_old_below_63 : forallb bounds_ok_old (map Z.of_nat (seq 1 62)) = true.
Proof. vm_compute. reflexivity. Qed.

Theorem bounds_refuted :
  min_signed_l_old 63 = 2 ^ 62 /\ max_signed_l_old 63 = - 2 ^ 62 - 1 /\
  min_signed_l_old 64 = 0 /\ max_signed_l_old 64 = -1 /\
  ~ (forall l, 1 <= l <= 64 ->
       min_signed_l_old l = - 2 ^ (l - 1) /\ max_signed_l_old l = 2 ^ (l - 1) - 1).
Proof.
  assert (E1 : min_signed_l_old 63 = 2 ^ 62) by (vm_compute; reflexivity).
  assert (E2 : max_signed_l_old 63 = - 2 ^ 62 - 1) by (vm_compute; reflexivity).
  assert (E3 : min_signed_l_old 64 = 0) by (vm_compute; reflexivity).
  assert (E4 : max_signed_l_old 64 = -1) by (vm_compute; reflexivity).
  split; [exact E1|]. split; [exact E2|]. split; [exact E3|]. split; [exact E4|].
  intros H. destruct (H 64 ltac:(lia)) as [H1 _]. rewrite E3 in H1.
  assert (0 < 2 ^ (64 - 1)) by (apply Z.pow_pos_nonneg; lia). lia.
Qed.

(** consequence of F3 named in the property text: with the pre-fix bounds every 64-bit signed
    value collapses to 0 or -1 *)
Theorem saturated_cast_old_collapses v :
  saturated_cast_signed_l_old 64 v = (if v <? 0 then 0 else -1).
Proof.
  unfold saturated_cast_signed_l_old.
  destruct bounds_refuted as (_ & _ & E3 & E4 & _). rewrite E3, E4.
  destruct (Z.ltb_spec v 0); [reflexivity|].
  replace (-1 <? v) with true by (symmetry; apply Z.ltb_lt; lia). reflexivity.
Qed.

(** * Saturated casts *)
Theorem saturated_cast_signed_spec l v :
  1 <= l <= 64 ->
  saturated_cast_signed_l l v = Z.min (Z.max v (- 2 ^ (l - 1))) (2 ^ (l - 1) - 1).
Proof.
  intros Hl. destruct (bounds_exact l Hl) as (_ & Hmin & Hmax).
  unfold saturated_cast_signed_l. rewrite Hmin, Hmax.
  assert (0 < 2 ^ (l - 1)) by (apply Z.pow_pos_nonneg; lia).
  destruct (Z.ltb_spec v (- 2 ^ (l - 1))); [lia|].
  destruct (Z.ltb_spec (2 ^ (l - 1) - 1) v); lia.
Qed.

Theorem saturated_cast_unsigned_spec l v :
  1 <= l <= 64 -> 0 <= v ->
  saturated_cast_unsigned_l l v = Z.min (Z.max v 0) (2 ^ l - 1).
Proof.
  intros Hl Hv. destruct (bounds_exact l Hl) as (Hmax & _ & _).
  unfold saturated_cast_unsigned_l. rewrite Hmax.
  destruct (Z.ltb_spec (2 ^ l - 1) v); lia.
Qed.

(** "returns its argument when it lies within the bounds and the nearer bound otherwise" *)
Corollary saturated_cast_signed_cases l v :
  1 <= l <= 64 ->
  (- 2 ^ (l - 1) <= v <= 2 ^ (l - 1) - 1 -> saturated_cast_signed_l l v = v) /\
  (v < - 2 ^ (l - 1) -> saturated_cast_signed_l l v = - 2 ^ (l - 1)) /\
  (2 ^ (l - 1) - 1 < v -> saturated_cast_signed_l l v = 2 ^ (l - 1) - 1).
Proof.
  intros Hl. rewrite saturated_cast_signed_spec by exact Hl.
  assert (0 < 2 ^ (l - 1)) by (apply Z.pow_pos_nonneg; lia). repeat split; lia.
Qed.

Corollary saturated_cast_unsigned_cases l v :
  1 <= l <= 64 -> 0 <= v ->
  (v <= 2 ^ l - 1 -> saturated_cast_unsigned_l l v = v) /\
  (2 ^ l - 1 < v -> saturated_cast_unsigned_l l v = 2 ^ l - 1).
Proof.
  intros Hl Hv. rewrite saturated_cast_unsigned_spec by assumption.
  assert (0 < 2 ^ l) by (apply Z.pow_pos_nonneg; lia). split; lia.
Qed.
