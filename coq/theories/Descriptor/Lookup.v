(** The lookup functions of pkg/descriptor/database.go:23-52 ([Database.Node], [Database.Message],
    [Database.Signal]) as first-match searches.  [Database.Message] is [Gen.Message.find_message],
    [Message.MultiplexerSignal] is [Gen.Api.find_mux], [Signal.ValueDescription] is
    [Descriptor.Signal.value_description]; the two that had no model are here.  A returned pointer
    is modelled as the element value; (nil, false) is [None].  Strings are byte lists.
    DEFINITIONS ONLY - proofs in LookupProofs.v. *)
From Coq Require Import ZArith List Bool.
From CanVerif Require Import Descriptor.Types Gen.Message.
Import ListNotations.
Open Scope Z_scope.

(** Go's [==] on strings *)
Fixpoint name_eqb (a b : bytes) : bool :=
  match a, b with
  | [], [] => true
  | x :: a', y :: b' => (x =? y) && name_eqb a' b'
  | _, _ => false
  end.

(** database.go:23-30 Database.Node: the first node with that name *)
Fixpoint find_node (ns : list node) (name : bytes) : option node :=
  match ns with
  | [] => None
  | n :: tl => if name_eqb (node_name n) name then Some n else find_node tl name
  end.

(** the loop of database.go:46-50: the first signal of the message with that name *)
Fixpoint find_signal (ss : list signal) (name : bytes) : option signal :=
  match ss with
  | [] => None
  | s :: tl => if name_eqb (s_name s) name then Some s else find_signal tl name
  end.

(** database.go:41-52 Database.Signal: the message by ID, then the signal by name *)
Definition db_signal (db : database) (id : Z) (name : bytes) : option signal :=
  match find_message (db_messages db) id with
  | None => None
  | Some m => find_signal (msg_signals m) name
  end.
