(** Round-trip clauses of C09 (Descriptor/Physical.v: [rt_raw_ok_f], [rt_phys_ok_f]).
    - the decidable dyadic comparison used by the clause predicates is the comparison of reals;
    - the clause "a physical value is reproduced with an error BELOW one factor step" is false for
      exact reals on the faithful model (concrete witness);
    - the raw round trip (raw -> ToPhysical -> setter comes back within one least-significant step)
      is proved by a forward error analysis ([raw_roundtrip]);
    - the physical round trip is proved with the bound of two steps ([phys_roundtrip]; the
      analysis gives 1 + 0.13 + 0.14 steps). *)
From Coq Require Import ZArith List Bool Lia Reals Lra.
From Coq Require Import Floats.SpecFloat.
From Flocq Require Import Core BinarySingleNaN.
From Flocq Require Import Calc.Operations.
From Flocq Require Import Relative Plus_error Mult_error.
From CanVerif Require Import Can.Data Descriptor.Signal Descriptor.SignalProofs Descriptor.Physical
  Descriptor.FloatProofs Descriptor.PhysicalProofs.
Open Scope R_scope.

(** * exact dyadic arithmetic *)
Lemma dy_B2R (x : f64) : fin x -> F2R (dy x) = B2R x.
Proof.
  destruct x as [s|s| |s m e Hb]; try discriminate; intros _; cbn [dy B2R]; [|reflexivity].
  apply F2R_0.
Qed.

Lemma dy_ltb_spec (a b : float radix2) : dy_ltb a b = Rlt_bool (F2R a) (F2R b).
Proof.
  unfold dy_ltb. pose proof (Falign_spec a b) as H.
  destruct (Falign a b) as [[ma mb] e]. destruct H as [Ha Hb]. rewrite Ha, Hb.
  destruct (Z.ltb_spec ma mb) as [L|L].
  - symmetry. apply Rlt_bool_true. apply F2R_lt. exact L.
  - symmetry. apply Rlt_bool_false. apply F2R_le. exact L.
Qed.

(** the bound tested by [rt_phys_ok_f]: |back - p| < steps * |scale| on the reals *)
Lemma rt_bound_spec (steps : Z) (scale p back : f64) :
  fin scale -> fin p -> fin back ->
  dy_ltb (Fabs (Fminus (dy back) (dy p))) (Fmult (Float radix2 steps 0) (Fabs (dy scale))) =
  Rlt_bool (Rabs (B2R back - B2R p)) (IZR steps * Rabs (B2R scale)).
Proof.
  intros Fs Fp Fb. rewrite dy_ltb_spec. rewrite F2R_abs, F2R_minus, F2R_mult, F2R_abs.
  rewrite !dy_B2R by assumption. f_equal. f_equal. unfold F2R. cbn. ring.
Qed.

(** [rt_phys_ok_f] on inputs that satisfy its hypotheses is that comparison *)
Lemma rt_phys_ok_f_spec steps scale offset mn mx signed len p back :
  (len <=? 32)%Z = true -> resolves_f scale offset = true -> is_finite p = true ->
  in_range_f mn mx p = true -> in_representable_f scale offset signed len p = true ->
  is_finite back = true -> is_finite scale = true ->
  rt_phys_ok_f steps scale offset mn mx signed len p back =
  Rlt_bool (Rabs (B2R back - B2R p)) (IZR steps * Rabs (B2R scale)).
Proof.
  intros Hl Hr Fp Hi Hp Fb Fs. unfold rt_phys_ok_f, finiteb. rewrite Hl, Hr, Fp, Hi, Hp, Fb. cbn [andb].
  apply rt_bound_spec; assumption.
Qed.

(** * the strict physical round-trip clause is false of the faithful model *)
(** scale 0.1, offset -40, no declared range, unsigned 16 bits; p = -39.6 (the double nearest to
    it) lies inside the representable range [-40, 6513.5]; FromPhysical gives 3.99999999999998...,
    the setter stores 3, the getter returns -39.7: |back - p| = 1.0000000000000142 steps. *)
Definition w_scale : f64 := f64_of_bits 0x3fb999999999999a.
Definition w_offset : f64 := f64_of_bits 0xc044000000000000.
Definition w_p : f64 := f64_of_bits 0xc043cccccccccccd.
Definition w_back : f64 :=
  to_physical_f w_scale w_offset fzero fzero
    (f64_of_Z (setter_raw_f w_scale w_offset fzero fzero false 16 w_p)).

Lemma witness_facts :
  c09_class_f w_scale w_offset fzero fzero = true /\ resolves_f w_scale w_offset = true /\
  is_finite w_p = true /\ in_range_f fzero fzero w_p = true /\
  in_representable_f w_scale w_offset false 16 w_p = true /\
  setter_raw_f w_scale w_offset fzero fzero false 16 w_p = 3%Z /\
  bits_of_f64 w_back = 0xc043d9999999999a%Z /\
  is_finite w_back = true /\ is_finite w_scale = true /\
  rt_phys_ok_f 1 w_scale w_offset fzero fzero false 16 w_p w_back = false /\
  rt_phys_ok_f 2 w_scale w_offset fzero fzero false 16 w_p w_back = true.
Proof. vm_compute. repeat split; reflexivity. Qed.

Theorem rt_phys_strict_refuted :
  c09_class_f w_scale w_offset fzero fzero = true /\ resolves_f w_scale w_offset = true /\
  in_range_f fzero fzero w_p = true /\ in_representable_f w_scale w_offset false 16 w_p = true /\
  Rabs (B2R w_scale) <= Rabs (B2R w_back - B2R w_p) < 2 * Rabs (B2R w_scale).
Proof.
  destruct witness_facts as (H1 & H2 & Fp & H3 & H4 & _ & _ & Fb & Fs & N1 & N2).
  split; [exact H1|]. split; [exact H2|]. split; [exact H3|]. split; [exact H4|].
  rewrite (rt_phys_ok_f_spec 1 w_scale w_offset fzero fzero false 16 w_p w_back eq_refl H2 Fp H3 H4 Fb Fs) in N1.
  rewrite (rt_phys_ok_f_spec 2 w_scale w_offset fzero fzero false 16 w_p w_back eq_refl H2 Fp H3 H4 Fb Fs) in N2.
  revert N1 N2. generalize (Rabs (B2R w_back - B2R w_p)) (Rabs (B2R w_scale)). intros a b N1 N2.
  destruct (Rlt_bool_spec a (1 * b)); [discriminate|].
  destruct (Rlt_bool_spec a (2 * b)); [lra|discriminate].
Qed.

(** * Raw round trip: raw -> physical -> raw comes back within one step *)
(** error model of one rounding: rnd64 y = y(1+e)+h, |e| <= 2^-53, |h| <= 2^-1075; sums of floats: h = 0 *)

Definition uu : R := bpow radix2 (-53).
Definition eta0 : R := bpow radix2 (-1075).

Lemma u_ro_53 : u_ro radix2 53 = uu.
Proof. unfold u_ro, uu. change (/2) with (bpow radix2 (-1)). rewrite <- bpow_plus. reflexivity. Qed.

Lemma u_ro_frac_le : u_ro radix2 53 / (1 + u_ro radix2 53) <= uu.
Proof.
  rewrite u_ro_53. assert (0 < uu) by apply bpow_gt_0.
  unfold Rdiv. rewrite <- (Rmult_1_r uu) at 3. apply Rmult_le_compat_l; [lra|].
  rewrite <- Rinv_1. apply Rinv_le_contravar; lra.
Qed.

Lemma rnd64_err (y : R) : exists e h, Rabs e <= uu /\ Rabs h <= eta0 /\ rnd64 y = y * (1 + e) + h.
Proof.
  destruct (relative_error_N_FLT'_ex radix2 (3 - 1024 - 53) 53 eq_refl (fun x => negb (Z.even x)) y)
    as (e & h & He & Hh & _ & E).
  exists e, h. split; [apply Rle_trans with (1 := He), u_ro_frac_le|]. split; [|exact E].
  apply Rle_trans with (1 := Hh). unfold eta0. change (/2) with (bpow radix2 (-1)). rewrite <- bpow_plus.
  apply bpow_le. lia.
Qed.

Lemma rnd64_err_plus (a b : R) :
  generic_format radix2 fexp64 a -> generic_format radix2 fexp64 b ->
  exists e, Rabs e <= uu /\ rnd64 (a + b) = (a + b) * (1 + e).
Proof.
  intros Fa Fb.
  destruct (FLT_plus_error_N_ex radix2 (3 - 1024 - 53) 53 (fun x => negb (Z.even x)) a b Fa Fb) as (e & He & E).
  exists e. split; [apply Rle_trans with (1 := He), u_ro_frac_le|exact E].
Qed.

Lemma format_B2R (x : f64) : generic_format radix2 fexp64 (B2R x).
Proof. apply (generic_format_B2R 53 1024). Qed.

(** no overflow below 2^1023 *)
Lemma rnd64_small (y : R) (B : Z) : (-1074 <= B <= 1023)%Z -> Rabs y <= bpow radix2 B -> Rabs (rnd64 y) < Omega.
Proof.
  intros HB Hy. apply Rle_lt_trans with (bpow radix2 B).
  - unfold rnd64. apply abs_round_le_generic; [apply fexp64_valid|apply valid_rnd_N| |exact Hy].
    apply generic_format_bpow. unfold fexp64, FLT_exp. lia.
  - unfold Omega. apply bpow_lt. lia.
Qed.

Lemma op_val (z : f64) (y : R) (B : Z) :
  nn z /\ ext z = clip (rnd64 y) -> (-1074 <= B <= 1023)%Z -> Rabs y <= bpow radix2 B ->
  fin z /\ B2R z = rnd64 y.
Proof.
  intros [N E] HB Hy. pose proof (rnd64_small y B HB Hy) as A. rewrite clip_id in E by exact A.
  assert (F : fin z) by (apply ext_fin_iff; [exact N|rewrite E; exact A]).
  split; [exact F|]. rewrite <- (fin_ext z F). exact E.
Qed.


Lemma pow2_f_val e : (-1074 <= e <= 1023)%Z -> fin (pow2_f e) /\ B2R (pow2_f e) = bpow radix2 e.
Proof.
  intros He. pose proof (binary_normalize_correct 53 1024 _ _ mode_NE 1 e false) as C.
  cbv zeta in C. cbn [round_mode] in C. norm_rnd C. rewrite F2R_bpow in C.
  assert (G : rnd64 (bpow radix2 e) = bpow radix2 e).
  { unfold rnd64. apply round_generic; [apply valid_rnd_N|]. apply generic_format_bpow. unfold fexp64, FLT_exp. lia. }
  rewrite G in C. rewrite Rabs_pos_eq in C by apply bpow_ge_0.
  rewrite Rlt_bool_true in C by (unfold Omega; apply bpow_lt; lia).
  destruct C as (C1 & C2 & _). split; assumption.
Qed.

Lemma mag_ok_inv (x : f64) : fin x -> mag_ok x = true ->
  bpow radix2 (-960) <= Rabs (B2R x) <= bpow radix2 960.
Proof.
  intros Fx H. unfold mag_ok in H. apply andb_true_iff in H. destruct H as [H1 H2].
  assert (Fa : fin (Babs x)) by (unfold fin; rewrite is_finite_Babs; exact Fx).
  destruct (pow2_f_val (-960) ltac:(lia)) as [F1 E1]. destruct (pow2_f_val 960 ltac:(lia)) as [F2 E2].
  rewrite Bleb_correct in H1, H2 by assumption. rewrite B2R_Babs in H1, H2. rewrite E1 in H1. rewrite E2 in H2.
  split.
  - destruct (Rle_bool_spec (bpow radix2 (-960)) (Rabs (B2R x))); [assumption|discriminate].
  - destruct (Rle_bool_spec (Rabs (B2R x)) (bpow radix2 960)); [assumption|discriminate].
Qed.

Lemma resolves_inv (scale offset : f64) : fin scale -> fin offset -> resolves_f scale offset = true ->
  bpow radix2 (-960) <= Rabs (B2R scale) <= bpow radix2 960 /\
  Rabs (B2R offset) <= bpow radix2 50 * Rabs (B2R scale).
Proof.
  intros Fs Fo H. unfold resolves_f in H. apply andb_true_iff in H. destruct H as [H H3].
  apply andb_true_iff in H. destruct H as [H1 _].
  pose proof (mag_ok_inv scale Fs H1) as M. split; [exact M|].
  assert (Fas : fin (Babs scale)) by (unfold fin; rewrite is_finite_Babs; exact Fs).
  assert (Fao : fin (Babs offset)) by (unfold fin; rewrite is_finite_Babs; exact Fo).
  destruct (pow2_f_val 50 ltac:(lia)) as [F50 E50].
  assert (Y : Rabs (B2R (pow2_f 50) * B2R (Babs scale)) <= bpow radix2 1010).
  { rewrite E50, B2R_Babs. rewrite Rabs_mult, Rabs_Rabsolu, Rabs_pos_eq by apply bpow_ge_0.
    change 1010%Z with (50 + 960)%Z. rewrite bpow_plus. apply Rmult_le_compat_l; [apply bpow_ge_0|apply M]. }
  destruct (op_val _ _ 1010 (fmul_ext (pow2_f 50) (Babs scale) F50 Fas) ltac:(lia) Y) as [Fm Em].
  rewrite Bleb_correct in H3 by assumption. rewrite Em, E50, !B2R_Babs in H3.
  assert (G : rnd64 (bpow radix2 50 * Rabs (B2R scale)) = bpow radix2 50 * Rabs (B2R scale)).
  { unfold rnd64. apply round_generic; [apply valid_rnd_N|]. rewrite Rmult_comm.
    apply (mult_bpow_pos_exact_FLT radix2 (3 - 1024 - 53) 53 (Rabs (B2R scale)) 50); [|lia].
    apply generic_format_abs. apply format_B2R. }
  rewrite G in H3.
  destruct (Rle_bool_spec (Rabs (B2R offset)) (bpow radix2 50 * Rabs (B2R scale))); [assumption|discriminate].
Qed.

(** product of a bounded quantity and a relative error *)
Lemma prod_bound a e A : Rabs a <= A -> Rabs e <= uu -> Rabs (a * e) <= A * uu.
Proof.
  intros Ha He. rewrite Rabs_mult. apply Rmult_le_compat; try apply Rabs_pos; assumption.
Qed.

Lemma uu_val : uu = / 9007199254740992.
Proof. unfold uu. cbn. lra. Qed.

Lemma bpow32 : bpow radix2 32 = 4294967296. Proof. cbn. lra. Qed.
Lemma bpow50 : bpow radix2 50 = 1125899906842624. Proof. cbn. lra. Qed.

(** eta/|S| is negligible *)
Lemma eta_over_S (h S : R) : Rabs h <= eta0 -> bpow radix2 (-960) <= Rabs S -> Rabs (h / S) <= uu.
Proof.
  intros Hh HS. assert (0 < bpow radix2 (-960)) by apply bpow_gt_0.
  unfold Rdiv. rewrite Rabs_mult, Rabs_inv.
  apply Rle_trans with (eta0 * / bpow radix2 (-960)).
  - apply Rmult_le_compat; [apply Rabs_pos|apply Rlt_le, Rinv_0_lt_compat; lra|exact Hh|].
    apply Rinv_le_contravar; [assumption|exact HS].
  - unfold eta0, uu. rewrite <- bpow_opp, <- bpow_plus. apply bpow_le. lia.
Qed.


Lemma rnd64_abs_le (y : R) (B : Z) : (-1074 <= B)%Z -> Rabs y <= bpow radix2 B -> Rabs (rnd64 y) <= bpow radix2 B.
Proof.
  intros HB Hy. unfold rnd64. apply abs_round_le_generic; [apply fexp64_valid|apply valid_rnd_N| |exact Hy].
  apply generic_format_bpow. unfold fexp64, FLT_exp. lia.
Qed.

Lemma bpow_S2 B : bpow radix2 (B + 1) = 2 * bpow radix2 B.
Proof. rewrite bpow_plus. change (bpow radix2 1) with 2. ring. Qed.

Lemma eta0_le_uu : eta0 <= uu.
Proof. unfold eta0, uu. apply bpow_le. lia. Qed.

(** the real-number core of the raw round trip *)
Lemma rt_chain (R S O e1 e2 e3 h1 : R) :
  S <> 0 -> Rabs R <= 4294967296 -> Rabs O <= 1125899906842624 * Rabs S ->
  Rabs e1 <= uu -> Rabs e2 <= uu -> Rabs e3 <= uu -> Rabs (h1 / S) <= uu ->
  let M := R * S * (1 + e1) + h1 in
  let X := (M + O) * (1 + e2) in
  let T := (X - O) * (1 + e3) in
  Rabs (T / S - R) <= / 2.
Proof.
  intros HS HR HO He1 He2 He3 Hk M X T.
  set (w := O / S). set (k1 := h1 / S) in *.
  assert (Hw : Rabs w <= 1125899906842624).
  { unfold w, Rdiv. rewrite Rabs_mult, Rabs_inv.
    assert (0 < Rabs S) by (apply Rabs_pos_lt; exact HS).
    apply Rmult_le_reg_r with (Rabs S); [assumption|]. rewrite Rmult_assoc, Rinv_l by lra. lra. }
  set (a1 := R * (1 + e1) + k1).
  set (p1 := R * e1).
  set (p2 := (a1 + w) * e2).
  set (p3 := (a1 + p2) * e3).
  assert (E : T / S = R + p1 + k1 + p2 + p3).
  { unfold T, X, M, p3, p2, p1, a1, k1, w. field. exact HS. }
  rewrite uu_val in *.
  assert (B1 : Rabs p1 <= 4294967296 * / 9007199254740992).
  { unfold p1. rewrite <- uu_val. apply prod_bound; [exact HR|rewrite uu_val; exact He1]. }
  assert (A1 : Rabs a1 <= 8589934592).
  { unfold a1. replace (R * (1 + e1) + k1) with (R + p1 + k1) by (unfold p1; ring).
    apply Rabs_le. apply Rabs_le_inv in HR, B1, Hk. lra. }
  assert (B2 : Rabs p2 <= 2251799813685248 * / 9007199254740992).
  { unfold p2. rewrite <- uu_val. apply prod_bound; [|rewrite uu_val; exact He2].
    apply Rabs_le. apply Rabs_le_inv in A1, Hw. lra. }
  assert (B3 : Rabs p3 <= 17179869184 * / 9007199254740992).
  { unfold p3. rewrite <- uu_val. apply prod_bound; [|rewrite uu_val; exact He3].
    apply Rabs_le. apply Rabs_le_inv in A1, B2. lra. }
  rewrite E. apply Rabs_le. apply Rabs_le_inv in B1, B2, B3, Hk. lra.
Qed.

Lemma clamp_interval lo hi r q d : lo <= r <= hi -> 0 <= d -> r - d <= q <= r + d ->
  r - d <= Rmax lo (Rmin hi q) <= r + d.
Proof.
  intros Hr Hd Hq. split.
  - apply Rle_trans with (Rmin hi q); [|apply Rmax_r]. apply Rmin_glb; lra.
  - apply Rmax_lub; [lra|]. apply Rle_trans with q; [apply Rmin_r|lra].
Qed.

(** clamping a value that is inside the declared range (or when no range is declared) keeps it *)
Lemma clamp_opt_value mn mx (y : f64) :
  fin mn -> fin mx -> B2R mn <= B2R mx -> fin y ->
  (declared_f mn mx = true -> B2R mn <= B2R y <= B2R mx) ->
  fin (clamp_opt_f mn mx y) /\ B2R (clamp_opt_f mn mx y) = B2R y.
Proof.
  intros Fmn Fmx Hle Fy H. unfold clamp_opt_f. destruct (declared_f mn mx); [|split; [exact Fy|reflexivity]].
  specialize (H eq_refl). destruct (clamp_f_ext mn mx y Fmn Fmx Hle (fin_nn _ Fy)) as (F & E & _).
  split; [exact F|]. rewrite E, (fin_ext y Fy). rewrite Rmin_left by lra. rewrite Rmax_right by lra. reflexivity.
Qed.

Lemma in_range_inv mn mx (y : f64) : fin mn -> fin mx -> in_range_f mn mx y = true ->
  fin y /\ (declared_f mn mx = true -> B2R mn <= B2R y <= B2R mx).
Proof.
  intros Fmn Fmx H. unfold in_range_f, finiteb in H. apply andb_true_iff in H. destruct H as [Fy H].
  split; [exact Fy|]. intros D. rewrite D in H. cbn [negb orb] in H. apply andb_true_iff in H. destruct H as [H1 H2].
  rewrite Bleb_correct in H1, H2 by assumption.
  split; [destruct (Rle_bool_spec (B2R mn) (B2R y))|destruct (Rle_bool_spec (B2R y) (B2R mx))]; try assumption; discriminate.
Qed.

Lemma raw_abs_le signed len r : (1 <= len <= 32)%Z -> (raw_lo signed len <= r <= raw_hi signed len)%Z ->
  (Z.abs r <= 2 ^ 32)%Z.
Proof.
  intros Hl Hr. unfold raw_lo, raw_hi in Hr.
  assert (0 < 2 ^ (len - 1) <= 2 ^ 31)%Z by (split; [apply Z.pow_pos_nonneg; lia|apply Z.pow_le_mono_r; lia]).
  assert (0 < 2 ^ len <= 2 ^ 32)%Z by (split; [apply Z.pow_pos_nonneg; lia|apply Z.pow_le_mono_r; lia]).
  change (2 ^ 32)%Z with (2 * 2 ^ 31)%Z in *. destruct signed; lia.
Qed.

Section RawRoundTrip.
Variables scale offset mn mx : f64.
Hypothesis Hclass : c09_class_f scale offset mn mx = true.
Hypothesis Hres : resolves_f scale offset = true.
Variable signed : bool.
Variables len r : Z.
Hypothesis Hl : (1 <= len <= 32)%Z.
Hypothesis Hr : (raw_lo signed len <= r <= raw_hi signed len)%Z.
Hypothesis Hin : in_range_f mn mx (fadd (fmul (f64_of_Z r) scale) offset) = true.

Theorem raw_roundtrip :
  (Z.abs (setter_raw_f scale offset mn mx signed len (to_physical_f scale offset mn mx (f64_of_Z r)) - r) <= 1)%Z.
Proof.
  destruct (class_inv _ _ _ _ Hclass) as (Hs & Fo & Fmn & Fmx & Hle).
  destruct (nonzerob_inv scale Hs) as [Fs NS].
  destruct (resolves_inv scale offset Fs Fo Hres) as [[S1 S2] HO].
  pose proof (raw_abs_le signed len r Hl Hr) as Hrz.
  assert (HR : Rabs (IZR r) <= 4294967296).
  { rewrite <- abs_IZR. change 4294967296 with (IZR (2 ^ 32)). apply IZR_le, Hrz. }
  destruct (f64_of_Z_exact r ltac:(change (2 ^ 53)%Z with (2 ^ 32 * 2 ^ 21)%Z; lia)) as [FV EV].
  set (V := f64_of_Z r) in *. set (S := B2R scale) in *. set (O := B2R offset) in *. set (R := IZR r) in *.
  (* m = fl(R*S) *)
  assert (Y1 : Rabs (B2R V * S) <= bpow radix2 992).
  { rewrite EV, Rabs_mult. change 992%Z with (32 + 960)%Z. rewrite bpow_plus, bpow32.
    apply Rmult_le_compat; try apply Rabs_pos; assumption. }
  destruct (op_val _ _ 992 (fmul_ext V scale FV Fs) ltac:(lia) Y1) as [Fm Em]. rewrite EV in Em. fold S in Em.
  destruct (rnd64_err (R * S)) as (e1 & h1 & He1 & Hh1 & E1).
  assert (BM : Rabs (B2R (fmul V scale)) <= bpow radix2 992).
  { rewrite Em. apply rnd64_abs_le; [lia|]. rewrite <- EV. exact Y1. }
  (* x = fl(m + O) *)
  assert (BO : Rabs O <= bpow radix2 1010).
  { apply Rle_trans with (1 := HO). change 1010%Z with (50 + 960)%Z. rewrite bpow_plus.
    apply Rmult_le_compat_l; [apply bpow_ge_0|exact S2]. }
  assert (Y2 : Rabs (B2R (fmul V scale) + O) <= bpow radix2 1011).
  { apply Rle_trans with (1 := Rabs_triang _ _). change 1011%Z with (1010 + 1)%Z. rewrite bpow_S2.
    assert (bpow radix2 992 <= bpow radix2 1010) by (apply bpow_le; lia). lra. }
  destruct (op_val _ _ 1011 (fadd_ext _ offset Fm Fo) ltac:(lia) Y2) as [Fx Ex]. fold O in Ex.
  destruct (rnd64_err_plus (B2R (fmul V scale)) O (format_B2R _) (format_B2R _)) as (e2 & He2 & E2).
  set (x := fadd (fmul V scale) offset) in *.
  assert (BX : Rabs (B2R x) <= bpow radix2 1011) by (rewrite Ex; apply rnd64_abs_le; [lia|exact Y2]).
  (* to_physical = x in value *)
  destruct (in_range_inv mn mx x Fmn Fmx Hin) as [_ Hrange].
  destruct (clamp_opt_value mn mx x Fmn Fmx Hle Fx Hrange) as [Ftp Etp].
  change (clamp_opt_f mn mx x) with (to_physical_f scale offset mn mx V) in Ftp, Etp.
  set (tp := to_physical_f scale offset mn mx V) in *.
  (* clamp inside from_physical: again the same value *)
  assert (Hrange' : declared_f mn mx = true -> B2R mn <= B2R tp <= B2R mx) by (rewrite Etp; exact Hrange).
  destruct (clamp_opt_value mn mx tp Fmn Fmx Hle Ftp Hrange') as [Fc Ec]. rewrite Etp in Ec.
  set (c := clamp_opt_f mn mx tp) in *.
  (* t = fl(X - O) *)
  assert (Y3 : Rabs (B2R c - O) <= bpow radix2 1012).
  { rewrite Ec. unfold Rminus. apply Rle_trans with (1 := Rabs_triang _ _). rewrite Rabs_Ropp.
    change 1012%Z with (1011 + 1)%Z. rewrite bpow_S2.
    assert (bpow radix2 1010 <= bpow radix2 1011) by (apply bpow_le; lia). lra. }
  destruct (op_val _ _ 1012 (fsub_ext c offset Fc Fo) ltac:(lia) Y3) as [Ft Et]. fold O in Et. rewrite Ec in Et.
  destruct (rnd64_err_plus (B2R x) (- O) (format_B2R _) (generic_format_opp _ _ _ (format_B2R _))) as (e3 & He3 & E3).
  (* the real-number chain *)
  pose proof (rt_chain R S O e1 e2 e3 h1 NS HR) as CH.
  rewrite bpow50 in HO. specialize (CH HO He1 He2 He3 (eta_over_S h1 S Hh1 S1)). cbv zeta in CH.
  assert (ET : B2R (fsub c offset) = ((R * S * (1 + e1) + h1 + O) * (1 + e2) - O) * (1 + e3)).
  { rewrite Et. unfold Rminus. rewrite E3, Ex, E2, Em, E1. reflexivity. }
  rewrite <- ET in CH. set (t := fsub c offset) in *.
  (* q = fl(T/S) *)
  assert (A3 : Rabs (B2R t / S) <= bpow radix2 34).
  { apply Rabs_le. apply Rabs_le_inv in CH, HR. replace (bpow radix2 34) with 17179869184 by (cbn; lra). lra. }
  destruct (op_val _ _ 34 (fdiv_ext t scale Ft Fs NS) ltac:(lia) A3) as [Fq Eq]. fold S in Eq.
  destruct (rnd64_err (B2R t / S)) as (e4 & h4 & He4 & Hh4 & E4).
  assert (BQ : R - 1 <= B2R (fdiv t scale) <= R + 1).
  { rewrite Eq, E4. replace (bpow radix2 34) with 17179869184 in A3 by (cbn; lra).
    pose proof (prod_bound _ _ _ A3 He4) as P4. rewrite uu_val in P4.
    pose proof (Rle_trans _ _ _ Hh4 eta0_le_uu) as H4. rewrite uu_val in H4.
    apply Rabs_le_inv in CH, P4, H4. lra. }
  (* saturation and truncation *)
  assert (Hl52 : (1 <= len <= 52)%Z) by lia.
  destruct (from_physical_saturates scale offset mn mx Hclass signed len tp Hl52 (fin_nn _ Ftp)) as (Fr & _ & _).
  destruct (from_physical_f_ext scale offset mn mx Hclass signed len tp (fin_nn _ Ftp)) as [_ Er].
  destruct (raw_lo_f_exact signed len Hl52) as [Flo Elo]. destruct (raw_hi_f_exact signed len Hl52) as [Fhi Ehi].
  rewrite (fin_ext _ Fr), (fin_ext _ Flo), (fin_ext _ Fhi), Elo, Ehi in Er.
  change (fdiv (fsub (clamp_opt_f mn mx tp) offset) scale) with (fdiv t scale) in Er.
  rewrite (fin_ext _ Fq) in Er.
  assert (HRr : IZR (raw_lo signed len) <= R <= IZR (raw_hi signed len)) by (split; apply IZR_le; apply Hr).
  pose proof (clamp_interval _ _ R _ 1 HRr ltac:(lra) BQ) as BY. rewrite <- Er in BY.
  assert (BT : (r - 1 <= Btrunc (from_physical_f scale offset mn mx signed len tp) <= r + 1)%Z).
  { apply Btrunc_between. rewrite minus_IZR, plus_IZR. exact BY. }
  unfold setter_raw_f. lia.
Qed.
End RawRoundTrip.

(** the decidable raw round-trip clause evaluated by the driver holds of the model *)
Lemma raw_in_range_spec signed len r : (1 <= len <= 64)%Z ->
  raw_in_range signed len r = true -> (raw_lo signed len <= r <= raw_hi signed len)%Z.
Proof.
  intros Hl H. unfold raw_in_range in H. destruct (bounds_exact len Hl) as (E1 & E2 & E3).
  unfold raw_lo, raw_hi. destruct signed; apply andb_true_iff in H; destruct H as [H1 H2];
    apply Z.leb_le in H1, H2; lia.
Qed.

Theorem rt_raw_ok_model scale offset mn mx signed len r :
  c09_class_f scale offset mn mx = true -> (1 <= len <= 64)%Z ->
  rt_raw_ok_f scale offset mn mx signed len r
    (setter_raw_f scale offset mn mx signed len (to_physical_f scale offset mn mx (f64_of_Z r))) = true.
Proof.
  intros Hc Hl. unfold rt_raw_ok_f.
  destruct ((len <=? 32)%Z) eqn:L; [|reflexivity]. cbn [andb].
  destruct (resolves_f scale offset) eqn:Rs; [|reflexivity]. cbn [andb].
  destruct (raw_in_range signed len r) eqn:Rr; [|reflexivity]. cbn [andb].
  destruct (in_range_f mn mx (fadd (fmul (f64_of_Z r) scale) offset)) eqn:Ir; [|reflexivity].
  apply Z.leb_le. apply Z.leb_le in L.
  apply raw_roundtrip; try assumption; [lia|]. apply raw_in_range_spec; assumption.
Qed.

(** * Physical round trip: physical -> raw -> physical is reproduced within two steps *)

(** truncation moves a value by less than one *)
Lemma Btrunc_err (x : f64) : Rabs (IZR (Btrunc x) - B2R x) < 1.
Proof.
  rewrite (Btrunc_correct 53 1024 _ x). destruct (Req_dec (B2R x) 0) as [E|N].
  - rewrite E, round_0 by apply valid_rnd_ZR. rewrite Rminus_0_r, Rabs_R0. lra.
  - pose proof (error_lt_ulp radix2 (FIX_exp 0) Ztrunc (B2R x) N) as H. rewrite ulp_FIX in H. exact H.
Qed.

(** the real-number core of the linear rule: fl(fl(R*S)+O) is R steps away from O, up to 0.13 step *)
Lemma lin_chain (R S O e1 e2 h1 : R) :
  S <> 0 -> Rabs R <= 4294967296 -> Rabs O <= 1125899906842624 * Rabs S ->
  Rabs e1 <= uu -> Rabs e2 <= uu -> Rabs (h1 / S) <= uu ->
  let X := (R * S * (1 + e1) + h1 + O) * (1 + e2) in
  Rabs ((X - O) / S - R) <= 13 / 100.
Proof.
  intros HS HR HO He1 He2 Hk X.
  set (w := O / S). set (k1 := h1 / S) in *.
  assert (Hw : Rabs w <= 1125899906842624).
  { unfold w, Rdiv. rewrite Rabs_mult, Rabs_inv.
    assert (0 < Rabs S) by (apply Rabs_pos_lt; exact HS).
    apply Rmult_le_reg_r with (Rabs S); [assumption|]. rewrite Rmult_assoc, Rinv_l by lra. lra. }
  set (p1 := R * e1). set (a1 := R + p1 + k1). set (p2 := (a1 + w) * e2).
  assert (E : (X - O) / S = R + p1 + k1 + p2).
  { unfold X, p2, a1, p1, k1, w. field. exact HS. }
  rewrite uu_val in *.
  assert (B1 : Rabs p1 <= 4294967296 * / 9007199254740992).
  { unfold p1. rewrite <- uu_val. apply prod_bound; [exact HR|rewrite uu_val; exact He1]. }
  assert (A1 : Rabs a1 <= 8589934592).
  { unfold a1. apply Rabs_le. apply Rabs_le_inv in HR, B1, Hk. lra. }
  assert (B2 : Rabs p2 <= 1125908496777216 * / 9007199254740992).
  { unfold p2. rewrite <- uu_val. apply prod_bound; [|rewrite uu_val; exact He2].
    apply Rabs_le. apply Rabs_le_inv in A1, Hw. lra. }
  rewrite E. apply Rabs_le. apply Rabs_le_inv in B1, B2, Hk. lra.
Qed.

Lemma between_affine (S O A B P : R) : S <> 0 ->
  (A <= P <= B \/ B <= P <= A) ->
  ((A - O) / S <= (P - O) / S <= (B - O) / S \/ (B - O) / S <= (P - O) / S <= (A - O) / S).
Proof.
  intros HS H. destruct (Rdichotomy _ _ HS) as [Neg|Pos].
  - assert (I : 0 < - / S) by (apply Ropp_0_gt_lt_contravar, Rinv_lt_0_compat, Neg).
    assert (M : forall u v, u <= v -> (v - O) / S <= (u - O) / S).
    { intros u v L. unfold Rdiv.
      replace ((v - O) * / S) with (- ((v - O) * - / S)) by ring.
      replace ((u - O) * / S) with (- ((u - O) * - / S)) by ring.
      apply Ropp_le_contravar. apply Rmult_le_compat_r; lra. }
    destruct H as [[H1 H2]|[H1 H2]]; [right|left]; split; apply M; assumption.
  - assert (I : 0 < / S) by (apply Rinv_0_lt_compat, Pos).
    assert (M : forall u v, u <= v -> (u - O) / S <= (v - O) / S).
    { intros u v L. unfold Rdiv. apply Rmult_le_compat_r; lra. }
    destruct H as [[H1 H2]|[H1 H2]]; [left|right]; split; apply M; assumption.
Qed.

Section Linear.
Variables scale offset : f64.
Hypothesis Fs : fin scale.
Hypothesis Fo : fin offset.
Hypothesis NS : B2R scale <> 0.
Hypothesis S1 : bpow radix2 (-960) <= Rabs (B2R scale).
Hypothesis S2 : Rabs (B2R scale) <= bpow radix2 960.
Hypothesis HO : Rabs (B2R offset) <= bpow radix2 50 * Rabs (B2R scale).

(** the linear value of a raw value |R| <= 2^32: finite, far from overflow, R steps from the offset *)
Lemma linear_of_raw (V : f64) (R : R) :
  fin V -> B2R V = R -> Rabs R <= 4294967296 ->
  let x := fadd (fmul V scale) offset in
  fin x /\ Rabs (B2R x) <= bpow radix2 1011 /\
  Rabs ((B2R x - B2R offset) / B2R scale - R) <= 13 / 100.
Proof.
  intros FV EV HR x. set (S := B2R scale) in *. set (O := B2R offset) in *.
  assert (Y1 : Rabs (B2R V * S) <= bpow radix2 992).
  { rewrite EV, Rabs_mult. change 992%Z with (32 + 960)%Z. rewrite bpow_plus, bpow32.
    apply Rmult_le_compat; try apply Rabs_pos; assumption. }
  destruct (op_val _ _ 992 (fmul_ext V scale FV Fs) ltac:(lia) Y1) as [Fm Em]. rewrite EV in Em. fold S in Em.
  destruct (rnd64_err (R * S)) as (e1 & h1 & He1 & Hh1 & E1).
  assert (BM : Rabs (B2R (fmul V scale)) <= bpow radix2 992).
  { rewrite Em. apply rnd64_abs_le; [lia|]. rewrite <- EV. exact Y1. }
  assert (BO : Rabs O <= bpow radix2 1010).
  { apply Rle_trans with (1 := HO). change 1010%Z with (50 + 960)%Z. rewrite bpow_plus.
    apply Rmult_le_compat_l; [apply bpow_ge_0|exact S2]. }
  assert (Y2 : Rabs (B2R (fmul V scale) + O) <= bpow radix2 1011).
  { apply Rle_trans with (1 := Rabs_triang _ _). change 1011%Z with (1010 + 1)%Z. rewrite bpow_S2.
    assert (bpow radix2 992 <= bpow radix2 1010) by (apply bpow_le; lia). lra. }
  destruct (op_val _ _ 1011 (fadd_ext _ offset Fm Fo) ltac:(lia) Y2) as [Fx Ex]. fold O in Ex.
  destruct (rnd64_err_plus (B2R (fmul V scale)) O (format_B2R _) (format_B2R _)) as (e2 & He2 & E2).
  split; [exact Fx|]. split; [unfold x; rewrite Ex; apply rnd64_abs_le; [lia|exact Y2]|].
  unfold x. rewrite Ex, E2, Em, E1.
  pose proof HO as HO'. rewrite bpow50 in HO'.
  exact (lin_chain R S O e1 e2 h1 NS HR HO' He1 He2 (eta_over_S h1 S Hh1 S1)).
Qed.
End Linear.


Lemma Bleb_fin_le (x y : f64) : fin x -> fin y -> Bleb x y = true -> B2R x <= B2R y.
Proof.
  intros Fx Fy H. rewrite Bleb_correct in H by assumption.
  destruct (Rle_bool_spec (B2R x) (B2R y)); [assumption|discriminate].
Qed.

Section PhysRoundTrip.
Variables scale offset mn mx : f64.
Hypothesis Hclass : c09_class_f scale offset mn mx = true.
Hypothesis Hres : resolves_f scale offset = true.
Variable signed : bool.
Variable len : Z.
Variable p : f64.
Hypothesis Hl : (1 <= len <= 32)%Z.
Hypothesis Fp : fin p.
Hypothesis Hin : in_range_f mn mx p = true.
Hypothesis Hrep : in_representable_f scale offset signed len p = true.

Theorem phys_roundtrip :
  let back := to_physical_f scale offset mn mx (f64_of_Z (setter_raw_f scale offset mn mx signed len p)) in
  fin back /\ Rabs (B2R back - B2R p) < 2 * Rabs (B2R scale).
Proof.
  destruct (class_inv _ _ _ _ Hclass) as (Hs & Fo & Fmn & Fmx & Hle).
  destruct (nonzerob_inv scale Hs) as [Fs NS].
  destruct (resolves_inv scale offset Fs Fo Hres) as [[S1 S2] HO].
  assert (Hl52 : (1 <= len <= 52)%Z) by lia.
  destruct (raw_lo_f_exact signed len Hl52) as [Flo Elo]. destruct (raw_hi_f_exact signed len Hl52) as [Fhi Ehi].
  pose proof (raw_lo_le_hi signed len ltac:(lia)) as Hlohi.
  assert (HLO : Rabs (IZR (raw_lo signed len)) <= 4294967296).
  { rewrite <- abs_IZR. change 4294967296 with (IZR (2 ^ 32)). apply IZR_le.
    apply (raw_abs_le signed len _ Hl). lia. }
  assert (HHI : Rabs (IZR (raw_hi signed len)) <= 4294967296).
  { rewrite <- abs_IZR. change 4294967296 with (IZR (2 ^ 32)). apply IZR_le.
    apply (raw_abs_le signed len _ Hl). lia. }
  set (S := B2R scale) in *. set (O := B2R offset) in *. set (P := B2R p) in *.
  set (LO := IZR (raw_lo signed len)) in *. set (HI := IZR (raw_hi signed len)) in *.
  assert (HLH : LO <= HI) by (apply IZR_le, Hlohi).
  (* the physical values of the raw extremes *)
  destruct (linear_of_raw scale offset Fs Fo NS S1 S2 HO _ LO Flo Elo HLO) as (Fa & BA & EA).
  destruct (linear_of_raw scale offset Fs Fo NS S1 S2 HO _ HI Fhi Ehi HHI) as (Fb & BB & EB).
  fold S O in EA, EB.
  set (a := fadd (fmul (raw_lo_f signed len) scale) offset) in *.
  set (b := fadd (fmul (raw_hi_f signed len) scale) offset) in *.
  assert (Hbetween : B2R a <= P <= B2R b \/ B2R b <= P <= B2R a).
  { unfold in_representable_f, phys_of_raw_f in Hrep. cbv zeta in Hrep. fold a b in Hrep.
    apply orb_true_iff in Hrep. destruct Hrep as [H|H]; apply andb_true_iff in H; destruct H as [H1 H2];
      [left|right]; split; apply Bleb_fin_le; assumption. }
  set (z := (P - O) / S).
  assert (Hz : LO - 13 / 100 <= z <= HI + 13 / 100).
  { pose proof (between_affine S O (B2R a) (B2R b) P NS Hbetween) as Hb. fold z in Hb.
    apply Rabs_le_inv in EA, EB. lra. }
  assert (BP : Rabs P <= bpow radix2 1011).
  { apply Rabs_le. apply Rabs_le_inv in BA, BB. lra. }
  assert (Bz : Rabs z <= 8589934592) by (apply Rabs_le; apply Rabs_le_inv in HLO, HHI; lra).
  (* FromPhysical: clamp keeps p *)
  destruct (in_range_inv mn mx p Fmn Fmx Hin) as [_ Hrange]. fold P in Hrange.
  destruct (clamp_opt_value mn mx p Fmn Fmx Hle Fp Hrange) as [Fc Ec]. fold P in Ec.
  set (c := clamp_opt_f mn mx p) in *.
  assert (BO : Rabs O <= bpow radix2 1010).
  { apply Rle_trans with (1 := HO). change 1010%Z with (50 + 960)%Z. rewrite bpow_plus.
    apply Rmult_le_compat_l; [apply bpow_ge_0|exact S2]. }
  assert (Y3 : Rabs (B2R c - O) <= bpow radix2 1012).
  { rewrite Ec. unfold Rminus. apply Rle_trans with (1 := Rabs_triang _ _). rewrite Rabs_Ropp.
    change 1012%Z with (1011 + 1)%Z. rewrite bpow_S2.
    assert (bpow radix2 1010 <= bpow radix2 1011) by (apply bpow_le; lia). lra. }
  destruct (op_val _ _ 1012 (fsub_ext c offset Fc Fo) ltac:(lia) Y3) as [Ft Et]. fold O in Et. rewrite Ec in Et.
  destruct (rnd64_err_plus P (- O) (format_B2R _) (generic_format_opp _ _ _ (format_B2R _))) as (e5 & He5 & E5).
  set (t := fsub c offset) in *.
  assert (ETS : B2R t / S = z + z * e5).
  { rewrite Et. unfold Rminus. rewrite E5. unfold z. field. exact NS. }
  pose proof (prod_bound z e5 _ Bz He5) as P5. rewrite uu_val in P5.
  assert (A3 : Rabs (B2R t / S) <= bpow radix2 34).
  { rewrite ETS. replace (bpow radix2 34) with 17179869184 by (cbn; lra).
    apply Rabs_le. apply Rabs_le_inv in Bz, P5. lra. }
  destruct (op_val _ _ 34 (fdiv_ext t scale Ft Fs NS) ltac:(lia) A3) as [Fq Eq]. fold S in Eq.
  destruct (rnd64_err (B2R t / S)) as (e6 & h6 & He6 & Hh6 & E6).
  assert (BQ : z - / 262144 <= B2R (fdiv t scale) <= z + / 262144).
  { rewrite Eq, E6. replace (bpow radix2 34) with 17179869184 in A3 by (cbn; lra).
    pose proof (prod_bound _ _ _ A3 He6) as P6. rewrite uu_val in P6.
    pose proof (Rle_trans _ _ _ Hh6 eta0_le_uu) as H6. rewrite uu_val in H6.
    rewrite ETS in *. apply Rabs_le_inv in P5, P6, H6. lra. }
  (* saturation *)
  destruct (from_physical_saturates scale offset mn mx Hclass signed len p Hl52 (fin_nn _ Fp)) as (Fr & _ & HT).
  destruct (from_physical_f_ext scale offset mn mx Hclass signed len p (fin_nn _ Fp)) as [_ Er].
  rewrite (fin_ext _ Fr), (fin_ext _ Flo), (fin_ext _ Fhi), Elo, Ehi in Er.
  change (fdiv (fsub (clamp_opt_f mn mx p) offset) scale) with (fdiv t scale) in Er.
  rewrite (fin_ext _ Fq) in Er. fold LO HI in Er.
  set (res := from_physical_f scale offset mn mx signed len p) in *.
  assert (BY : z - 14 / 100 <= B2R res <= z + 14 / 100).
  { rewrite Er. split.
    - apply Rle_trans with (Rmin HI (B2R (fdiv t scale))); [|apply Rmax_r]. apply Rmin_glb; lra.
    - apply Rmax_lub; [lra|]. apply Rle_trans with (B2R (fdiv t scale)); [apply Rmin_r|lra]. }
  (* truncation *)
  pose proof (Btrunc_err res) as TE.
  change (Btrunc res) with (setter_raw_f scale offset mn mx signed len p) in TE, HT.
  set (t' := setter_raw_f scale offset mn mx signed len p) in *.
  pose proof (raw_abs_le signed len t' Hl HT) as Ht'.
  assert (HR' : Rabs (IZR t') <= 4294967296).
  { rewrite <- abs_IZR. change 4294967296 with (IZR (2 ^ 32)). apply IZR_le, Ht'. }
  destruct (f64_of_Z_exact t' ltac:(change (2 ^ 53)%Z with (2 ^ 32 * 2 ^ 21)%Z; lia)) as [FV EV].
  (* back to physical *)
  destruct (linear_of_raw scale offset Fs Fo NS S1 S2 HO _ (IZR t') FV EV HR') as (Fx & BX & EX).
  fold S O in EX. set (x' := fadd (fmul (f64_of_Z t') scale) offset) in *.
  assert (D : Rabs (B2R x' - P) < 2 * Rabs S).
  { replace (B2R x' - P) with (((B2R x' - O) / S - z) * S) by (unfold z; field; exact NS).
    rewrite Rabs_mult. apply Rmult_lt_compat_r; [apply Rabs_pos_lt, NS|].
    apply Rabs_lt. apply Rabs_le_inv in EX. apply Rabs_lt_inv in TE. lra. }
  intros back. unfold back. change (to_physical_f scale offset mn mx (f64_of_Z t')) with (clamp_opt_f mn mx x').
  unfold clamp_opt_f. destruct (declared_f mn mx) eqn:Dc; [|split; [exact Fx|exact D]].
  destruct (clamp_f_ext mn mx x' Fmn Fmx Hle (fin_nn _ Fx)) as (F & E & _).
  split; [exact F|]. rewrite E, (fin_ext _ Fx), Rmin_comm.
  specialize (Hrange eq_refl).
  assert (Hq : P - Rabs (B2R x' - P) <= B2R x' <= P + Rabs (B2R x' - P)).
  { pose proof (Rabs_le_inv _ _ (Rle_refl (Rabs (B2R x' - P)))) as I. lra. }
  set (d := Rabs (B2R x' - P)) in *.
  pose proof (clamp_interval (B2R mn) (B2R mx) P (B2R x') d Hrange (Rabs_pos _) Hq) as CI.
  apply Rle_lt_trans with d; [|exact D]. apply Rabs_le. lra.
Qed.
End PhysRoundTrip.

(** the decidable physical round-trip clause (bound: two steps) holds of the model *)
Theorem rt_phys_ok_model scale offset mn mx signed len p :
  c09_class_f scale offset mn mx = true -> (1 <= len)%Z ->
  rt_phys_ok_f 2 scale offset mn mx signed len p
    (to_physical_f scale offset mn mx (f64_of_Z (setter_raw_f scale offset mn mx signed len p))) = true.
Proof.
  intros Hc Hl. unfold rt_phys_ok_f.
  destruct ((len <=? 32)%Z) eqn:L; [|reflexivity]. cbn [andb].
  destruct (resolves_f scale offset) eqn:Rs; [|reflexivity]. cbn [andb].
  destruct (finiteb p) eqn:Fp; [|reflexivity]. cbn [andb].
  destruct (in_range_f mn mx p) eqn:Ir; [|reflexivity]. cbn [andb].
  destruct (in_representable_f scale offset signed len p) eqn:Ip; [|reflexivity].
  apply Z.leb_le in L.
  destruct (phys_roundtrip scale offset mn mx Hc Rs signed len p ltac:(lia) Fp Ir Ip) as [Fb B].
  destruct (class_inv _ _ _ _ Hc) as (Hs & _). destruct (nonzerob_inv scale Hs) as [Fs _].
  unfold finiteb. rewrite Fb. cbn [andb].
  rewrite rt_bound_spec by assumption. apply Rlt_bool_true. exact B.
Qed.
