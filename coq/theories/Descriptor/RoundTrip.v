(** Round-trip clauses of C09 (Descriptor/Physical.v: [rt_raw_ok_f], [rt_phys_ok_f]).
    - the decidable dyadic comparison used by the clause predicates is the comparison of reals;
    - the clause "a physical value is reproduced with an error BELOW one factor step" is false for
      exact reals on the faithful model (concrete witness);
    - what is proved instead is stated at the end of the file. *)
From Coq Require Import ZArith List Bool Lia Reals Lra.
From Coq Require Import Floats.SpecFloat.
From Flocq Require Import Core BinarySingleNaN.
From Flocq Require Import Calc.Operations.
From CanVerif Require Import Can.Data Descriptor.Signal Descriptor.SignalProofs Descriptor.Physical
  Descriptor.FloatProofs Descriptor.PhysicalProofs.
Open Scope R_scope.

(** * exact dyadic arithmetic *)
Lemma dy_B2R (x : f64) : fin x -> F2R (dy x) = B2R x.
Proof.
  destruct x as [s|s| |s m e Hb]; try discriminate; intros _; cbn [dy B2R]; [|reflexivity].
  apply F2R_0.
Qed.

Lemma dy_ltb_spec (a b : float radix2) : dy_ltb a b = Rlt_bool (F2R a) (F2R b).
Proof.
  unfold dy_ltb. pose proof (Falign_spec a b) as H.
  destruct (Falign a b) as [[ma mb] e]. destruct H as [Ha Hb]. rewrite Ha, Hb.
  destruct (Z.ltb_spec ma mb) as [L|L].
  - symmetry. apply Rlt_bool_true. apply F2R_lt. exact L.
  - symmetry. apply Rlt_bool_false. apply F2R_le. exact L.
Qed.

(** the bound tested by [rt_phys_ok_f]: |back - p| < steps * |scale| on the reals *)
Lemma rt_bound_spec (steps : Z) (scale p back : f64) :
  fin scale -> fin p -> fin back ->
  dy_ltb (Fabs (Fminus (dy back) (dy p))) (Fmult (Float radix2 steps 0) (Fabs (dy scale))) =
  Rlt_bool (Rabs (B2R back - B2R p)) (IZR steps * Rabs (B2R scale)).
Proof.
  intros Fs Fp Fb. rewrite dy_ltb_spec. rewrite F2R_abs, F2R_minus, F2R_mult, F2R_abs.
  rewrite !dy_B2R by assumption. f_equal. f_equal. unfold F2R. cbn. ring.
Qed.

(** [rt_phys_ok_f] on inputs that satisfy its hypotheses is that comparison *)
Lemma rt_phys_ok_f_spec steps scale offset mn mx signed len p back :
  (len <=? 32)%Z = true -> resolves_f scale offset = true -> is_finite p = true ->
  in_range_f mn mx p = true -> in_representable_f scale offset signed len p = true ->
  is_finite back = true -> is_finite scale = true ->
  rt_phys_ok_f steps scale offset mn mx signed len p back =
  Rlt_bool (Rabs (B2R back - B2R p)) (IZR steps * Rabs (B2R scale)).
Proof.
  intros Hl Hr Fp Hi Hp Fb Fs. unfold rt_phys_ok_f, finiteb. rewrite Hl, Hr, Fp, Hi, Hp, Fb. cbn [andb].
  apply rt_bound_spec; assumption.
Qed.

(** * the strict physical round-trip clause is false of the faithful model *)
(** scale 0.1, offset -40, no declared range, unsigned 16 bits; p = -39.6 (the double nearest to
    it) lies inside the representable range [-40, 6513.5]; FromPhysical gives 3.99999999999998...,
    the setter stores 3, the getter returns -39.7: |back - p| = 1.0000000000000142 steps. *)
Definition w_scale : f64 := f64_of_bits 0x3fb999999999999a.
Definition w_offset : f64 := f64_of_bits 0xc044000000000000.
Definition w_p : f64 := f64_of_bits 0xc043cccccccccccd.
Definition w_back : f64 :=
  to_physical_f w_scale w_offset fzero fzero
    (f64_of_Z (setter_raw_f w_scale w_offset fzero fzero false 16 w_p)).

Lemma witness_facts :
  c09_class_f w_scale w_offset fzero fzero = true /\ resolves_f w_scale w_offset = true /\
  is_finite w_p = true /\ in_range_f fzero fzero w_p = true /\
  in_representable_f w_scale w_offset false 16 w_p = true /\
  setter_raw_f w_scale w_offset fzero fzero false 16 w_p = 3%Z /\
  bits_of_f64 w_back = 0xc043d9999999999a%Z /\
  is_finite w_back = true /\ is_finite w_scale = true /\
  rt_phys_ok_f 1 w_scale w_offset fzero fzero false 16 w_p w_back = false /\
  rt_phys_ok_f 2 w_scale w_offset fzero fzero false 16 w_p w_back = true.
Proof. vm_compute. repeat split; reflexivity. Qed.

Theorem rt_phys_strict_refuted :
  c09_class_f w_scale w_offset fzero fzero = true /\ resolves_f w_scale w_offset = true /\
  in_range_f fzero fzero w_p = true /\ in_representable_f w_scale w_offset false 16 w_p = true /\
  Rabs (B2R w_scale) <= Rabs (B2R w_back - B2R w_p) < 2 * Rabs (B2R w_scale).
Proof.
  destruct witness_facts as (H1 & H2 & Fp & H3 & H4 & _ & _ & Fb & Fs & N1 & N2).
  split; [exact H1|]. split; [exact H2|]. split; [exact H3|]. split; [exact H4|].
  rewrite (rt_phys_ok_f_spec 1 w_scale w_offset fzero fzero false 16 w_p w_back eq_refl H2 Fp H3 H4 Fb Fs) in N1.
  rewrite (rt_phys_ok_f_spec 2 w_scale w_offset fzero fzero false 16 w_p w_back eq_refl H2 Fp H3 H4 Fb Fs) in N2.
  revert N1 N2. generalize (Rabs (B2R w_back - B2R w_p)) (Rabs (B2R w_scale)). intros a b N1 N2.
  destruct (Rlt_bool_spec a (1 * b)); [discriminate|].
  destruct (Rlt_bool_spec a (2 * b)); [lra|discriminate].
Qed.
