(** Executable model of the integer part of /repo/pkg/descriptor/signal.go
    (everything that does not touch float64/float32; the float part is Descriptor/Physical.v).

    The record [signal] comes from Descriptor/Types.v (float64 fields are bit patterns, so this
    file is Flocq-free).  Strings are [list Z] of bytes.  Machine integers are mathematical
    integers with the wrap written out where the Go type wraps (Can/Data.v conventions):
      uint8 [u8], uint64 [u64]/[shl64]/[sub64], int64 [wrap_i64]/[shl_i64].

    [s_start]/[s_length] are Go uint8 values (0..255).

    DEFINITIONS ONLY - proofs are in Descriptor/SignalProofs.v. *)
From Coq Require Import ZArith List Bool.
From CanVerif Require Export Descriptor.Types.
From CanVerif Require Import Can.Data.
Import ListNotations.
Open Scope Z_scope.

(** * Unmarshal / marshal: dispatch on the byte order onto the can.Data primitives *)

(** signal.go:113-118 UnmarshalUnsigned *)
Definition unmarshal_unsigned (s : signal) (d : data) : Z :=
  if s_big_endian s then ubits_be d (s_start s) (s_length s)
  else ubits_le d (s_start s) (s_length s).

(** signal.go:135-140 UnmarshalSigned *)
Definition unmarshal_signed (s : signal) (d : data) : Z :=
  if s_big_endian s then sbits_be d (s_start s) (s_length s)
  else sbits_le d (s_start s) (s_length s).

(** signal.go:143-145 UnmarshalBool *)
Definition unmarshal_bool (s : signal) (d : data) : bool := bit d (s_start s).

(** signal.go:159-165 MarshalUnsigned (value : uint64) *)
Definition marshal_unsigned (s : signal) (d : data) (value : Z) : data :=
  if s_big_endian s then set_ubits_be d (s_start s) (s_length s) value
  else set_ubits_le d (s_start s) (s_length s) value.

(** signal.go:168-174 MarshalSigned (value : int64) *)
Definition marshal_signed (s : signal) (d : data) (value : Z) : data :=
  if s_big_endian s then set_sbits_be d (s_start s) (s_length s) value
  else set_sbits_le d (s_start s) (s_length s) value.

(** signal.go:177-179 MarshalBool *)
Definition marshal_bool (s : signal) (d : data) (value : bool) : data :=
  set_bit d (s_start s) value.

(** * int64 arithmetic with Go's wrap-around *)
(** the int64 value of the low 64 bits of a mathematical integer *)
Definition wrap_i64 (x : Z) : Z := i64_of_u64 (x mod 2 ^ 64).
(** [x << n] on int64 with an unsigned shift count (count >= 64 shifts every bit out: 0) *)
Definition shl_i64 (x n : Z) : Z := if n <? 64 then wrap_i64 (Z.shiftl x n) else 0.

(** * Raw bounds *)
(** the shift count [s.Length - 1] is computed in uint8 *)
Definition len_m1 (l : Z) : Z := u8 (l - 1).

(** signal.go:192-194 MaxUnsigned: (2 << (Length-1)) - 1 in uint64 *)
Definition max_unsigned_l (l : Z) : Z := sub64 (shl64 2 (len_m1 l)) 1.

(** MinSigned / MaxSigned AFTER the fix F3 (fixes/F3.patch):
      MinSigned = -(1 << (Length-1))       in int64 (L = 64: -(MinInt64) wraps to MinInt64)
      MaxSigned = (1 << (Length-1)) - 1    in int64 (L = 64: MinInt64 - 1 wraps to MaxInt64) *)
Definition min_signed_l (l : Z) : Z := wrap_i64 (- shl_i64 1 (len_m1 l)).
Definition max_signed_l (l : Z) : Z := wrap_i64 (shl_i64 1 (len_m1 l) - 1).

(** pre-fix formulas (signal.go:197-204 before F3): [<<] and [/] have the same precedence and
    associate to the left, so [(2 << (Length-1) / 2) * -1] is [((2 << (Length-1)) / 2) * -1],
    all in int64 ([/] truncates towards zero = [Z.quot]). *)
Definition min_signed_l_old (l : Z) : Z := wrap_i64 (Z.quot (shl_i64 2 (len_m1 l)) 2 * -1).
Definition max_signed_l_old (l : Z) : Z := wrap_i64 (Z.quot (shl_i64 2 (len_m1 l)) 2 - 1).

Definition max_unsigned (s : signal) : Z := max_unsigned_l (s_length s).
Definition min_signed (s : signal) : Z := min_signed_l (s_length s).
Definition max_signed (s : signal) : Z := max_signed_l (s_length s).
Definition min_signed_old (s : signal) : Z := min_signed_l_old (s_length s).
Definition max_signed_old (s : signal) : Z := max_signed_l_old (s_length s).

(** * Saturated casts (signal.go:217-239) *)
Definition saturated_cast_signed_l (l value : Z) : Z :=
  let mn := min_signed_l l in
  let mx := max_signed_l l in
  if value <? mn then mn else if mx <? value then mx else value.

Definition saturated_cast_unsigned_l (l value : Z) : Z :=
  let mx := max_unsigned_l l in
  if mx <? value then mx else value.

Definition saturated_cast_signed (s : signal) (value : Z) : Z :=
  saturated_cast_signed_l (s_length s) value.
Definition saturated_cast_unsigned (s : signal) (value : Z) : Z :=
  saturated_cast_unsigned_l (s_length s) value.

(** pre-fix saturated cast (uses the pre-fix bounds) *)
Definition saturated_cast_signed_l_old (l value : Z) : Z :=
  let mn := min_signed_l_old l in
  let mx := max_signed_l_old l in
  if value <? mn then mn else if mx <? value then mx else value.

(** * Value descriptions (signal.go:51-58, 121-132); not part of C08/C09 *)
Fixpoint value_description (vds : list value_description) (value : Z) : option bytes :=
  match vds with
  | [] => None
  | vd :: tl => if vdesc_value vd =? value then Some (vdesc_text vd) else value_description tl value
  end.

Definition unmarshal_value_description (s : signal) (d : data) : option bytes :=
  match s_value_descriptions s with
  | [] => None
  | _ =>
    let v := if s_signed s then unmarshal_signed s d else i64_of_u64 (unmarshal_unsigned s d) in
    value_description (s_value_descriptions s) v
  end.

(** a signal with the given geometry and every other field zero/empty (used by drivers and
    examples) *)
Definition mk_signal (start len : Z) (big_endian signed : bool) : signal :=
  {| s_name := []; s_start := start; s_length := len; s_big_endian := big_endian;
     s_signed := signed; s_float := false; s_multiplexer := false; s_multiplexed := false;
     s_mux_value := 0; s_offset := 0; s_scale := 0; s_min := 0; s_max := 0;
     s_unit := []; s_description := []; s_value_descriptions := []; s_receivers := [];
     s_default := 0 |}.
