(** Proofs about the Flocq model of ToPhysical / FromPhysical (Descriptor/Physical.v), C09:
    clamp, saturation ("always encodable"), monotonicity.

    Method: every non-NaN float is embedded in the reals by [ext] (the infinities become
    +-2^1024, strictly outside every finite float).  On that embedding
      - Bleb/Bltb are the real order,
      - math.Min/math.Max are Rmin/Rmax (including their special cases),
      - each arithmetic operation on finite arguments is [clip (rnd64 exact)] with
        [clip z = max (-2^1024) (min (2^1024) z)]: rounding to nearest even, then overflow to the
        infinity of the right sign - a composition of monotone maps,
    and the steps of FromPhysical are lifted from finite arguments to +-Inf by [mono_lift]. *)
From Coq Require Import ZArith List Bool Lia Reals Lra.
From Coq Require Import Floats.SpecFloat.
From Flocq Require Import Core BinarySingleNaN.
From CanVerif Require Import Can.Data Descriptor.Signal Descriptor.SignalProofs Descriptor.Physical Descriptor.FloatProofs.
Open Scope R_scope.


Definition Omega : R := bpow radix2 1024.
Definition ext (x : f64) : R :=
  match x with
  | B754_infinity false => Omega
  | B754_infinity true => - Omega
  | _ => B2R x
  end.
Definition nn (x : f64) : Prop := is_nan x = false.
Definition fin (x : f64) : Prop := is_finite x = true.

Lemma Omega_pos : 0 < Omega. Proof. apply bpow_gt_0. Qed.

Lemma fin_abs_lt (x : f64) : fin x -> Rabs (B2R x) < Omega.
Proof. intros H. apply (abs_B2R_lt_emax 53 1024). Qed.

Lemma fin_ext (x : f64) : fin x -> ext x = B2R x.
Proof. destruct x as [s|s| |s m e H]; try discriminate; reflexivity. Qed.

Lemma fin_nn (x : f64) : fin x -> nn x.
Proof. destruct x; try discriminate; reflexivity. Qed.

Lemma ext_bounds (x : f64) : nn x -> - Omega <= ext x <= Omega.
Proof.
  intros H. pose proof Omega_pos.
  destruct x as [s|[|]| |s m e Hb]; try discriminate; cbn [ext]; try lra.
  - cbn. lra.
  - pose proof (fin_abs_lt (B754_finite s m e Hb) eq_refl) as A.
    apply Rabs_def2 in A. lra.
Qed.

Lemma nn_cases (x : f64) : nn x -> fin x \/ x = B754_infinity false \/ x = B754_infinity true.
Proof. destruct x as [s|[|]| |s m e Hb]; try discriminate; auto; left; reflexivity. Qed.

Lemma ext_fin_iff (x : f64) : nn x -> (fin x <-> Rabs (ext x) < Omega).
Proof.
  intros H. pose proof Omega_pos. split.
  - intros F. rewrite fin_ext by exact F. apply fin_abs_lt, F.
  - intros A. destruct (nn_cases x H) as [F|[->| ->]]; [exact F| |]; exfalso; cbn [ext] in A.
    + rewrite Rabs_pos_eq in A by lra. lra.
    + rewrite Rabs_Ropp, Rabs_pos_eq in A by lra. lra.
Qed.

(** comparisons through [ext] *)
Lemma Bleb_ext (x y : f64) : nn x -> nn y -> Bleb x y = Rle_bool (ext x) (ext y).
Proof.
  intros Hx Hy. pose proof Omega_pos as HO.
  destruct (nn_cases x Hx) as [Fx|[->| ->]]; destruct (nn_cases y Hy) as [Fy|[->| ->]].
  - rewrite !fin_ext by assumption. apply Bleb_correct; assumption.
  - pose proof (fin_abs_lt x Fx) as A. apply Rabs_def2 in A. rewrite fin_ext by assumption. cbn [ext].
    rewrite Rle_bool_true by lra. destruct x as [s|s| |s m e Hb]; try discriminate; destruct s; reflexivity.
  - pose proof (fin_abs_lt x Fx) as A. apply Rabs_def2 in A. rewrite fin_ext by assumption. cbn [ext].
    rewrite Rle_bool_false by lra. destruct x as [s|s| |s m e Hb]; try discriminate; destruct s; reflexivity.
  - pose proof (fin_abs_lt y Fy) as A. apply Rabs_def2 in A. rewrite (fin_ext y) by assumption. cbn [ext].
    rewrite Rle_bool_false by lra. destruct y as [s|s| |s m e Hb]; try discriminate; destruct s; reflexivity.
  - cbn [ext]. rewrite Rle_bool_true by lra. reflexivity.
  - cbn [ext]. rewrite Rle_bool_false by lra. reflexivity.
  - pose proof (fin_abs_lt y Fy) as A. apply Rabs_def2 in A. rewrite (fin_ext y) by assumption. cbn [ext].
    rewrite Rle_bool_true by lra. destruct y as [s|s| |s m e Hb]; try discriminate; destruct s; reflexivity.
  - cbn [ext]. rewrite Rle_bool_true by lra. reflexivity.
  - cbn [ext]. rewrite Rle_bool_true by lra. reflexivity.
Qed.

Lemma Bltb_ext (x y : f64) : nn x -> nn y -> Bltb x y = Rlt_bool (ext x) (ext y).
Proof.
  intros Hx Hy. pose proof Omega_pos as HO.
  destruct (nn_cases x Hx) as [Fx|[->| ->]]; destruct (nn_cases y Hy) as [Fy|[->| ->]].
  - rewrite !fin_ext by assumption. apply Bltb_correct; assumption.
  - pose proof (fin_abs_lt x Fx) as A. apply Rabs_def2 in A. rewrite fin_ext by assumption. cbn [ext].
    rewrite Rlt_bool_true by lra. destruct x as [s|s| |s m e Hb]; try discriminate; destruct s; reflexivity.
  - pose proof (fin_abs_lt x Fx) as A. apply Rabs_def2 in A. rewrite fin_ext by assumption. cbn [ext].
    rewrite Rlt_bool_false by lra. destruct x as [s|s| |s m e Hb]; try discriminate; destruct s; reflexivity.
  - pose proof (fin_abs_lt y Fy) as A. apply Rabs_def2 in A. rewrite (fin_ext y) by assumption. cbn [ext].
    rewrite Rlt_bool_false by lra. destruct y as [s|s| |s m e Hb]; try discriminate; destruct s; reflexivity.
  - cbn [ext]. rewrite Rlt_bool_false by lra. reflexivity.
  - cbn [ext]. rewrite Rlt_bool_false by lra. reflexivity.
  - pose proof (fin_abs_lt y Fy) as A. apply Rabs_def2 in A. rewrite (fin_ext y) by assumption. cbn [ext].
    rewrite Rlt_bool_true by lra. destruct y as [s|s| |s m e Hb]; try discriminate; destruct s; reflexivity.
  - cbn [ext]. rewrite Rlt_bool_true by lra. reflexivity.
  - cbn [ext]. rewrite Rlt_bool_false by lra. reflexivity.
Qed.


Lemma is_nan_nn (x : f64) : nn x -> is_nan x = false. Proof. exact (fun H => H). Qed.

Lemma is_ninf_ext (x : f64) : nn x -> is_ninf x = true -> ext x = - Omega.
Proof. destruct x as [s|[|]| |s m e Hb]; try discriminate; reflexivity. Qed.
Lemma is_pinf_ext (x : f64) : nn x -> is_pinf x = true -> ext x = Omega.
Proof. destruct x as [s|[|]| |s m e Hb]; try discriminate; reflexivity. Qed.
Lemma is_zero_ext (x : f64) : is_zero x = true -> ext x = 0.
Proof. destruct x as [s|[|]| |s m e Hb]; try discriminate; reflexivity. Qed.

Lemma fmin_ext (x y : f64) :
  nn x -> nn y -> nn (fmin x y) /\ ext (fmin x y) = Rmin (ext x) (ext y).
Proof.
  intros Hx Hy. pose proof (ext_bounds x Hx). pose proof (ext_bounds y Hy).
  unfold fmin.
  destruct (is_ninf x) eqn:Nx.
  { cbn [orb]. split; [reflexivity|]. cbn [ext]. rewrite (is_ninf_ext x Hx Nx). rewrite Rmin_left; lra. }
  destruct (is_ninf y) eqn:Ny.
  { cbn [orb]. split; [reflexivity|]. cbn [ext]. rewrite (is_ninf_ext y Hy Ny). rewrite Rmin_right; lra. }
  cbn [orb]. rewrite Hx, Hy. cbn [orb].
  destruct (is_zero x) eqn:Zx; [destruct (is_zero y) eqn:Zy|]; cbn [andb].
  - rewrite (is_zero_ext x Zx), (is_zero_ext y Zy). rewrite Rmin_left by lra.
    destruct (Bsign x); split; try assumption; [apply is_zero_ext, Zx|apply is_zero_ext, Zy].
  - rewrite Bltb_ext by assumption. destruct (Rlt_bool_spec (ext x) (ext y)); split; try assumption.
    + rewrite Rmin_left; lra. + rewrite Rmin_right; lra.
  - rewrite Bltb_ext by assumption. destruct (Rlt_bool_spec (ext x) (ext y)); split; try assumption.
    + rewrite Rmin_left; lra. + rewrite Rmin_right; lra.
Qed.

Lemma fmax_ext (x y : f64) :
  nn x -> nn y -> nn (fmax x y) /\ ext (fmax x y) = Rmax (ext x) (ext y).
Proof.
  intros Hx Hy. pose proof (ext_bounds x Hx). pose proof (ext_bounds y Hy).
  unfold fmax.
  destruct (is_pinf x) eqn:Nx.
  { cbn [orb]. split; [reflexivity|]. cbn [ext]. rewrite (is_pinf_ext x Hx Nx). rewrite Rmax_left; lra. }
  destruct (is_pinf y) eqn:Ny.
  { cbn [orb]. split; [reflexivity|]. cbn [ext]. rewrite (is_pinf_ext y Hy Ny). rewrite Rmax_right; lra. }
  cbn [orb]. rewrite Hx, Hy. cbn [orb].
  destruct (is_zero x) eqn:Zx; [destruct (is_zero y) eqn:Zy|]; cbn [andb].
  - rewrite (is_zero_ext x Zx), (is_zero_ext y Zy). rewrite Rmax_left by lra.
    destruct (Bsign x); split; try assumption; [apply is_zero_ext, Zy|apply is_zero_ext, Zx].
  - rewrite Bltb_ext by assumption. destruct (Rlt_bool_spec (ext y) (ext x)); split; try assumption.
    + rewrite Rmax_left; lra. + rewrite Rmax_right; lra.
  - rewrite Bltb_ext by assumption. destruct (Rlt_bool_spec (ext y) (ext x)); split; try assumption.
    + rewrite Rmax_left; lra. + rewrite Rmax_right; lra.
Qed.

(** * Rounding with overflow: clip (rnd r) *)
Definition clip (z : R) : R := Rmax (- Omega) (Rmin Omega z).

Lemma clip_mono a b : a <= b -> clip a <= clip b.
Proof. intros. unfold clip. apply Rle_max_compat_l. apply Rle_min_compat_l. assumption. Qed.

Lemma clip_id z : Rabs z < Omega -> clip z = z.
Proof. intros A. apply Rabs_def2 in A. unfold clip. rewrite Rmin_right by lra. rewrite Rmax_right by lra. reflexivity. Qed.

Lemma clip_hi z : Omega <= z -> clip z = Omega.
Proof. intros. pose proof Omega_pos. unfold clip. rewrite Rmin_left by lra. rewrite Rmax_right by lra. reflexivity. Qed.
Lemma clip_lo z : z <= - Omega -> clip z = - Omega.
Proof. intros. pose proof Omega_pos. unfold clip. rewrite Rmin_right by lra. rewrite Rmax_left by lra. reflexivity. Qed.

#[global] Instance fexp64_valid : Valid_exp fexp64.
Proof. unfold fexp64. apply FLT_exp_valid. reflexivity. Qed.

Lemma rnd64_mono a b : a <= b -> rnd64 a <= rnd64 b.
Proof. intros. unfold rnd64. apply round_le; [apply fexp64_valid|apply valid_rnd_N|assumption]. Qed.

Lemma rnd64_0 : rnd64 0 = 0.
Proof. unfold rnd64. apply round_0. apply valid_rnd_N. Qed.

Lemma Bsign_true_le0 (x : f64) : fin x -> Bsign x = true -> B2R x <= 0.
Proof.
  destruct x as [s|s| |s m e Hb]; try discriminate; intros _ E; cbn in E; subst; cbn [B2R]; [lra|].
  apply Rlt_le. apply F2R_lt_0. reflexivity.
Qed.
Lemma Bsign_false_ge0 (x : f64) : fin x -> Bsign x = false -> 0 <= B2R x.
Proof.
  destruct x as [s|s| |s m e Hb]; try discriminate; intros _ E; cbn in E; subst; cbn [B2R]; [lra|].
  apply F2R_ge_0. discriminate.
Qed.

(** a result that overflowed: infinity of sign [s], where [s] is the sign of the exact value *)
Lemma overflow_ext (z : f64) (s : bool) (r : R) :
  B2SF z = binary_overflow 53 1024 mode_NE s ->
  Omega <= Rabs (rnd64 r) -> (s = true -> r <= 0) -> (s = false -> 0 <= r) ->
  nn z /\ ext z = clip (rnd64 r).
Proof.
  intros E A Hn Hp. pose proof Omega_pos.
  assert (z = B754_infinity s) as ->.
  { apply B2SF_inj. rewrite E. reflexivity. }
  split; [reflexivity|]. destruct s; cbn [ext].
  - specialize (Hn eq_refl). assert (rnd64 r <= 0) by (rewrite <- rnd64_0; apply rnd64_mono; exact Hn).
    rewrite Rabs_left1 in A by assumption. rewrite clip_lo by lra. reflexivity.
  - specialize (Hp eq_refl). assert (0 <= rnd64 r) by (rewrite <- rnd64_0; apply rnd64_mono; exact Hp).
    rewrite Rabs_pos_eq in A by assumption. rewrite clip_hi by lra. reflexivity.
Qed.

Ltac norm_rnd H :=
  repeat match type of H with
  | context [round radix2 (SpecFloat.fexp 53 1024) ZnearestE ?r] =>
    change (round radix2 (SpecFloat.fexp 53 1024) ZnearestE r) with (rnd64 r) in H
  end;
  change (bpow radix2 1024) with Omega in H.

Lemma fsub_ext (x y : f64) : fin x -> fin y ->
  nn (fsub x y) /\ ext (fsub x y) = clip (rnd64 (B2R x - B2R y)).
Proof.
  intros Fx Fy. pose proof (Bminus_correct 53 1024 _ _ mode_NE x y Fx Fy) as C.
  cbn [round_mode] in C. norm_rnd C.
  destruct (Rlt_bool_spec (Rabs (rnd64 (B2R x - B2R y))) Omega) as [A|A].
  - destruct C as (C1 & C2 & _). split; [apply fin_nn, C2|]. unfold fsub.
    rewrite fin_ext by exact C2. rewrite C1. symmetry. apply clip_id, A.
  - destruct C as [C1 C2]. apply overflow_ext with (s := Bsign x); try assumption.
    + intros Sx. pose proof (Bsign_true_le0 x Fx Sx). rewrite Sx in C2.
      pose proof (Bsign_false_ge0 y Fy ltac:(destruct (Bsign y); [discriminate|reflexivity])). lra.
    + intros Sx. pose proof (Bsign_false_ge0 x Fx Sx). rewrite Sx in C2.
      pose proof (Bsign_true_le0 y Fy ltac:(destruct (Bsign y); [reflexivity|discriminate])). lra.
Qed.

Lemma fadd_ext (x y : f64) : fin x -> fin y ->
  nn (fadd x y) /\ ext (fadd x y) = clip (rnd64 (B2R x + B2R y)).
Proof.
  intros Fx Fy. pose proof (Bplus_correct 53 1024 _ _ mode_NE x y Fx Fy) as C.
  cbn [round_mode] in C. norm_rnd C.
  destruct (Rlt_bool_spec (Rabs (rnd64 (B2R x + B2R y))) Omega) as [A|A].
  - destruct C as (C1 & C2 & _). split; [apply fin_nn, C2|]. unfold fadd.
    rewrite fin_ext by exact C2. rewrite C1. symmetry. apply clip_id, A.
  - destruct C as [C1 C2]. apply overflow_ext with (s := Bsign x); try assumption.
    + intros Sx. pose proof (Bsign_true_le0 x Fx Sx). rewrite Sx in C2.
      pose proof (Bsign_true_le0 y Fy (eq_sym C2)). lra.
    + intros Sx. pose proof (Bsign_false_ge0 x Fx Sx). rewrite Sx in C2.
      pose proof (Bsign_false_ge0 y Fy (eq_sym C2)). lra.
Qed.

Lemma sign_prod (x y : f64) : fin x -> fin y ->
  (xorb (Bsign x) (Bsign y) = true -> B2R x * B2R y <= 0) /\
  (xorb (Bsign x) (Bsign y) = false -> 0 <= B2R x * B2R y).
Proof.
  intros Fx Fy.
  destruct (Bsign x) eqn:Sx; destruct (Bsign y) eqn:Sy; cbn [xorb]; split; try discriminate; intros _.
  - pose proof (Bsign_true_le0 x Fx Sx). pose proof (Bsign_true_le0 y Fy Sy).
    replace (B2R x * B2R y) with ((- B2R x) * (- B2R y)) by ring. apply Rmult_le_pos; lra.
  - pose proof (Bsign_true_le0 x Fx Sx). pose proof (Bsign_false_ge0 y Fy Sy).
    replace (B2R x * B2R y) with (- ((- B2R x) * B2R y)) by ring.
    assert (0 <= - B2R x * B2R y) by (apply Rmult_le_pos; lra). lra.
  - pose proof (Bsign_false_ge0 x Fx Sx). pose proof (Bsign_true_le0 y Fy Sy).
    replace (B2R x * B2R y) with (- (B2R x * (- B2R y))) by ring.
    assert (0 <= B2R x * - B2R y) by (apply Rmult_le_pos; lra). lra.
  - pose proof (Bsign_false_ge0 x Fx Sx). pose proof (Bsign_false_ge0 y Fy Sy). apply Rmult_le_pos; lra.
Qed.

Lemma fmul_ext (x y : f64) : fin x -> fin y ->
  nn (fmul x y) /\ ext (fmul x y) = clip (rnd64 (B2R x * B2R y)).
Proof.
  intros Fx Fy. pose proof (Bmult_correct 53 1024 _ _ mode_NE x y) as C.
  cbn [round_mode] in C. norm_rnd C.
  destruct (Rlt_bool_spec (Rabs (rnd64 (B2R x * B2R y))) Omega) as [A|A].
  - destruct C as (C1 & C2 & _). rewrite Fx, Fy in C2. split; [apply fin_nn, C2|]. unfold fmul.
    rewrite fin_ext by exact C2. rewrite C1. symmetry. apply clip_id, A.
  - destruct (sign_prod x y Fx Fy). apply overflow_ext with (s := xorb (Bsign x) (Bsign y)); assumption.
Qed.

Lemma Bsign_inv (y : f64) : fin y -> B2R y <> 0 ->
  (Bsign y = true -> / B2R y < 0) /\ (Bsign y = false -> 0 < / B2R y).
Proof.
  intros Fy Ny. split; intros S.
  - pose proof (Bsign_true_le0 y Fy S). apply Rinv_lt_0_compat. lra.
  - pose proof (Bsign_false_ge0 y Fy S). apply Rinv_0_lt_compat. lra.
Qed.

Lemma fdiv_ext (x y : f64) : fin x -> fin y -> B2R y <> 0 ->
  nn (fdiv x y) /\ ext (fdiv x y) = clip (rnd64 (B2R x / B2R y)).
Proof.
  intros Fx Fy Ny. pose proof (Bdiv_correct 53 1024 _ _ mode_NE x y Ny) as C.
  cbn [round_mode] in C. norm_rnd C.
  destruct (Rlt_bool_spec (Rabs (rnd64 (B2R x / B2R y))) Omega) as [A|A].
  - destruct C as (C1 & C2 & _). rewrite Fx in C2. split; [apply fin_nn, C2|]. unfold fdiv.
    rewrite fin_ext by exact C2. rewrite C1. symmetry. apply clip_id, A.
  - destruct (Bsign_inv y Fy Ny) as [I1 I2].
    apply overflow_ext with (s := xorb (Bsign x) (Bsign y)); try assumption; unfold Rdiv.
    + destruct (Bsign x) eqn:Sx; destruct (Bsign y) eqn:Sy; cbn [xorb]; try discriminate; intros _.
      * pose proof (Bsign_true_le0 x Fx Sx). specialize (I2 eq_refl).
        replace (B2R x * / B2R y) with (- ((- B2R x) * / B2R y)) by ring.
        assert (0 <= - B2R x * / B2R y) by (apply Rmult_le_pos; lra). lra.
      * pose proof (Bsign_false_ge0 x Fx Sx). specialize (I1 eq_refl).
        replace (B2R x * / B2R y) with (- (B2R x * (- / B2R y))) by ring.
        assert (0 <= B2R x * - / B2R y) by (apply Rmult_le_pos; lra). lra.
    + destruct (Bsign x) eqn:Sx; destruct (Bsign y) eqn:Sy; cbn [xorb]; try discriminate; intros _.
      * pose proof (Bsign_true_le0 x Fx Sx). specialize (I1 eq_refl).
        replace (B2R x * / B2R y) with ((- B2R x) * (- / B2R y)) by ring. apply Rmult_le_pos; lra.
      * pose proof (Bsign_false_ge0 x Fx Sx). specialize (I2 eq_refl). apply Rmult_le_pos; lra.
Qed.


(** * The order on non-NaN floats *)
Definition fle (x y : f64) : Prop := nn x /\ nn y /\ ext x <= ext y.

Lemma Bleb_nan_l (y : f64) : Bleb B754_nan y = false. Proof. reflexivity. Qed.
Lemma Bleb_nan_r (x : f64) : Bleb x B754_nan = false.
Proof. destruct x as [s|[|]| |[|] m e Hb]; reflexivity. Qed.

Lemma fle_Bleb (x y : f64) : Bleb x y = true <-> fle x y.
Proof.
  split.
  - intros H. assert (Hx : nn x).
    { destruct x; try reflexivity. rewrite Bleb_nan_l in H. discriminate. }
    assert (Hy : nn y).
    { destruct y; try reflexivity. rewrite Bleb_nan_r in H. discriminate. }
    split; [exact Hx|]. split; [exact Hy|]. rewrite Bleb_ext in H by assumption.
    destruct (Rle_bool_spec (ext x) (ext y)); [assumption|discriminate].
  - intros (Hx & Hy & H). rewrite Bleb_ext by assumption. apply Rle_bool_true, H.
Qed.

Lemma fle_refl x : nn x -> fle x x.
Proof. intros. repeat split; try assumption. lra. Qed.

Lemma fle_trans x y z : fle x y -> fle y z -> fle x z.
Proof. intros (A & B & C) (_ & D & E). repeat split; try assumption. lra. Qed.

(** * Lifting monotonicity from finite arguments to the infinities *)
Lemma mono_lift (f : f64 -> f64) :
  (forall x, nn x -> nn (f x)) ->
  f (B754_infinity false) = B754_infinity false ->
  f (B754_infinity true) = B754_infinity true ->
  (forall x x', fin x -> fin x' -> B2R x <= B2R x' -> ext (f x) <= ext (f x')) ->
  forall x x', fle x x' -> fle (f x) (f x').
Proof.
  intros Hnn Hp Hn Hf x x' (Hx & Hx' & H). pose proof Omega_pos as HO.
  split; [apply Hnn, Hx|]. split; [apply Hnn, Hx'|].
  pose proof (ext_bounds (f x) (Hnn x Hx)) as B1. pose proof (ext_bounds (f x') (Hnn x' Hx')) as B2.
  destruct (nn_cases x Hx) as [Fx|[->| ->]]; destruct (nn_cases x' Hx') as [Fx'|[->| ->]].
  - apply Hf; try assumption. rewrite <- !fin_ext by assumption. exact H.
  - rewrite Hp. cbn [ext]. lra.
  - exfalso. pose proof (fin_abs_lt x Fx) as A. apply Rabs_def2 in A. rewrite fin_ext in H by assumption. cbn [ext] in H. lra.
  - exfalso. pose proof (fin_abs_lt x' Fx') as A. apply Rabs_def2 in A. rewrite (fin_ext x') in H by assumption. cbn [ext] in H. lra.
  - lra.
  - exfalso. cbn [ext] in H. lra.
  - rewrite Hn. cbn [ext]. lra.
  - rewrite Hn. cbn [ext]. lra.
  - lra.
Qed.

Lemma anti_lift (f : f64 -> f64) :
  (forall x, nn x -> nn (f x)) ->
  f (B754_infinity false) = B754_infinity true ->
  f (B754_infinity true) = B754_infinity false ->
  (forall x x', fin x -> fin x' -> B2R x <= B2R x' -> ext (f x') <= ext (f x)) ->
  forall x x', fle x x' -> fle (f x') (f x).
Proof.
  intros Hnn Hp Hn Hf x x' (Hx & Hx' & H). pose proof Omega_pos as HO.
  split; [apply Hnn, Hx'|]. split; [apply Hnn, Hx|].
  pose proof (ext_bounds (f x) (Hnn x Hx)) as B1. pose proof (ext_bounds (f x') (Hnn x' Hx')) as B2.
  destruct (nn_cases x Hx) as [Fx|[->| ->]]; destruct (nn_cases x' Hx') as [Fx'|[->| ->]].
  - apply Hf; try assumption. rewrite <- !fin_ext by assumption. exact H.
  - rewrite Hp. cbn [ext]. lra.
  - exfalso. pose proof (fin_abs_lt x Fx) as A. apply Rabs_def2 in A. rewrite fin_ext in H by assumption. cbn [ext] in H. lra.
  - exfalso. pose proof (fin_abs_lt x' Fx') as A. apply Rabs_def2 in A. rewrite (fin_ext x') in H by assumption. cbn [ext] in H. lra.
  - lra.
  - exfalso. cbn [ext] in H. lra.
  - rewrite Hn. cbn [ext]. lra.
  - rewrite Hn. cbn [ext]. lra.
  - lra.
Qed.

(** * The steps of FromPhysical *)
Lemma fsub_inf s (o : f64) : fin o -> fsub (B754_infinity s) o = B754_infinity s.
Proof. destruct o; try discriminate; reflexivity. Qed.

Lemma fsub_nn x o : nn x -> fin o -> nn (fsub x o).
Proof.
  intros Hx Fo. destruct (nn_cases x Hx) as [Fx|[->| ->]].
  - apply fsub_ext; assumption.
  - rewrite fsub_inf by assumption. reflexivity.
  - rewrite fsub_inf by assumption. reflexivity.
Qed.

Lemma fsub_mono o : fin o -> forall x x', fle x x' -> fle (fsub x o) (fsub x' o).
Proof.
  intros Fo. apply mono_lift.
  - intros x Hx. apply fsub_nn; assumption.
  - apply fsub_inf, Fo.
  - apply fsub_inf, Fo.
  - intros x x' Fx Fx' H.
    rewrite (proj2 (fsub_ext x o Fx Fo)), (proj2 (fsub_ext x' o Fx' Fo)).
    apply clip_mono, rnd64_mono. lra.
Qed.

Lemma nonzerob_inv (s : f64) : nonzerob s = true -> fin s /\ B2R s <> 0.
Proof.
  destruct s as [z|z| |z m e Hb]; try discriminate. intros _. split; [reflexivity|].
  cbn [B2R]. destruct z.
  - apply Rlt_not_eq. apply F2R_lt_0. reflexivity.
  - apply Rgt_not_eq. apply F2R_gt_0. reflexivity.
Qed.

Lemma fdiv_inf sx (s : f64) : nonzerob s = true -> fdiv (B754_infinity sx) s = B754_infinity (xorb sx (Bsign s)).
Proof. destruct s; try discriminate; reflexivity. Qed.

Lemma fdiv_nn x s : nn x -> nonzerob s = true -> nn (fdiv x s).
Proof.
  intros Hx Hs. destruct (nonzerob_inv s Hs) as [Fs Ns]. destruct (nn_cases x Hx) as [Fx|[->| ->]].
  - apply fdiv_ext; assumption.
  - rewrite fdiv_inf by assumption. reflexivity.
  - rewrite fdiv_inf by assumption. reflexivity.
Qed.

Lemma fdiv_mono s : nonzerob s = true -> Bsign s = false ->
  forall x x', fle x x' -> fle (fdiv x s) (fdiv x' s).
Proof.
  intros Hs Ss. destruct (nonzerob_inv s Hs) as [Fs Ns]. apply mono_lift.
  - intros x Hx. apply fdiv_nn; assumption.
  - rewrite fdiv_inf, Ss by assumption. reflexivity.
  - rewrite fdiv_inf, Ss by assumption. reflexivity.
  - intros x x' Fx Fx' H.
    rewrite (proj2 (fdiv_ext x s Fx Fs Ns)), (proj2 (fdiv_ext x' s Fx' Fs Ns)).
    apply clip_mono, rnd64_mono. unfold Rdiv. apply Rmult_le_compat_r; [|exact H].
    apply Rlt_le. apply (proj2 (Bsign_inv s Fs Ns)), Ss.
Qed.

Lemma fdiv_anti s : nonzerob s = true -> Bsign s = true ->
  forall x x', fle x x' -> fle (fdiv x' s) (fdiv x s).
Proof.
  intros Hs Ss. destruct (nonzerob_inv s Hs) as [Fs Ns]. apply anti_lift.
  - intros x Hx. apply fdiv_nn; assumption.
  - rewrite fdiv_inf, Ss by assumption. reflexivity.
  - rewrite fdiv_inf, Ss by assumption. reflexivity.
  - intros x x' Fx Fx' H.
    rewrite (proj2 (fdiv_ext x s Fx Fs Ns)), (proj2 (fdiv_ext x' s Fx' Fs Ns)).
    apply clip_mono, rnd64_mono. unfold Rdiv.
    pose proof (proj1 (Bsign_inv s Fs Ns) Ss) as I.
    replace (B2R x' * / B2R s) with (- (B2R x' * (- / B2R s))) by ring.
    replace (B2R x * / B2R s) with (- (B2R x * (- / B2R s))) by ring.
    apply Ropp_le_contravar. apply Rmult_le_compat_r; [lra|exact H].
Qed.

Lemma fmin_mono_l c : nn c -> forall x x', fle x x' -> fle (fmin x c) (fmin x' c).
Proof.
  intros Hc x x' (Hx & Hx' & H).
  destruct (fmin_ext x c Hx Hc) as [N1 E1]. destruct (fmin_ext x' c Hx' Hc) as [N2 E2].
  repeat split; try assumption. rewrite E1, E2. apply Rle_min_compat_r, H.
Qed.
Lemma fmin_mono_r c : nn c -> forall x x', fle x x' -> fle (fmin c x) (fmin c x').
Proof.
  intros Hc x x' (Hx & Hx' & H).
  destruct (fmin_ext c x Hc Hx) as [N1 E1]. destruct (fmin_ext c x' Hc Hx') as [N2 E2].
  repeat split; try assumption. rewrite E1, E2. apply Rle_min_compat_l, H.
Qed.
Lemma fmax_mono_l c : nn c -> forall x x', fle x x' -> fle (fmax x c) (fmax x' c).
Proof.
  intros Hc x x' (Hx & Hx' & H).
  destruct (fmax_ext x c Hx Hc) as [N1 E1]. destruct (fmax_ext x' c Hx' Hc) as [N2 E2].
  repeat split; try assumption. rewrite E1, E2. apply Rle_max_compat_r, H.
Qed.
Lemma fmax_mono_r c : nn c -> forall x x', fle x x' -> fle (fmax c x) (fmax c x').
Proof.
  intros Hc x x' (Hx & Hx' & H).
  destruct (fmax_ext c x Hc Hx) as [N1 E1]. destruct (fmax_ext c x' Hc Hx') as [N2 E2].
  repeat split; try assumption. rewrite E1, E2. apply Rle_max_compat_l, H.
Qed.

Lemma clamp_f_mono mn mx : nn mn -> nn mx -> forall x x', fle x x' -> fle (clamp_f mn mx x) (clamp_f mn mx x').
Proof. intros Hmn Hmx x x' H. unfold clamp_f. apply fmax_mono_l; [assumption|]. apply fmin_mono_l; assumption. Qed.

Lemma clamp_opt_f_mono mn mx : nn mn -> nn mx ->
  forall x x', fle x x' -> fle (clamp_opt_f mn mx x) (clamp_opt_f mn mx x').
Proof. intros Hmn Hmx x x' H. unfold clamp_opt_f. destruct (declared_f mn mx); [apply clamp_f_mono|]; assumption. Qed.

(** clamp: value and finiteness *)
Lemma clamp_f_ext mn mx x : fin mn -> fin mx -> B2R mn <= B2R mx -> nn x ->
  fin (clamp_f mn mx x) /\ B2R (clamp_f mn mx x) = Rmax (B2R mn) (Rmin (ext x) (B2R mx)) /\
  B2R mn <= B2R (clamp_f mn mx x) <= B2R mx.
Proof.
  intros Fmn Fmx Hle Hx. unfold clamp_f.
  destruct (fmin_ext x mx Hx (fin_nn _ Fmx)) as [N1 E1].
  destruct (fmax_ext (fmin x mx) mn N1 (fin_nn _ Fmn)) as [N2 E2].
  rewrite E1, (fin_ext mx Fmx), (fin_ext mn Fmn) in E2.
  pose proof (fin_abs_lt mn Fmn) as A1. pose proof (fin_abs_lt mx Fmx) as A2.
  apply Rabs_def2 in A1, A2.
  assert (B : B2R mn <= Rmax (Rmin (ext x) (B2R mx)) (B2R mn) <= B2R mx).
  { split; [apply Rmax_r|]. apply Rmax_lub; [apply Rmin_r|exact Hle]. }
  assert (F : fin (fmax (fmin x mx) mn)).
  { apply ext_fin_iff; [exact N2|]. rewrite E2. apply Rabs_def1; lra. }
  split; [exact F|]. rewrite <- (fin_ext _ F), E2. split; [apply Rmax_comm|exact B].
Qed.


(** * float64 of integers *)
Lemma f64_of_Z_nn z : nn (f64_of_Z z).
Proof. apply is_nan_binary_normalize. Qed.

Lemma f64_of_Z_exact z : (Z.abs z < 2 ^ 53)%Z -> fin (f64_of_Z z) /\ B2R (f64_of_Z z) = IZR z.
Proof.
  intros Hz. pose proof (binary_normalize_correct 53 1024 _ _ mode_NE z 0 false) as C.
  cbv zeta in C. cbn [round_mode] in C. norm_rnd C.
  assert (E : F2R (Float radix2 z 0) = IZR z) by (unfold F2R; cbn; ring).
  rewrite E in C.
  assert (G : rnd64 (IZR z) = IZR z).
  { unfold rnd64. apply round_generic; [apply valid_rnd_N|]. apply generic_format_FLT.
    exists (Float radix2 z 0); [symmetry; exact E|exact Hz|cbn; lia]. }
  rewrite G in C.
  assert (A : Rabs (IZR z) < Omega).
  { rewrite <- abs_IZR. apply Rlt_trans with (IZR (2 ^ 53)); [apply IZR_lt, Hz|].
    unfold Omega. change (2 ^ 53)%Z with (radix2 ^ 53)%Z. rewrite IZR_Zpower by lia. apply bpow_lt. lia. }
  rewrite Rlt_bool_true in C by exact A. destruct C as (C1 & C2 & _). split; assumption.
Qed.

(** * Truncation *)
Lemma Btrunc_between (x : f64) (lo hi : Z) :
  IZR lo <= B2R x <= IZR hi -> (lo <= Btrunc x <= hi)%Z.
Proof.
  intros [H1 H2]. pose proof (Btrunc_correct 53 1024 _ x) as C.
  assert (R : forall n, round radix2 (FIX_exp 0) Ztrunc (IZR n) = IZR n).
  { intros n. apply round_generic; [apply valid_rnd_ZR|]. apply generic_format_FIX.
    exists (Float radix2 n 0); [unfold F2R; cbn; ring|reflexivity]. }
  split; apply le_IZR; rewrite C.
  - rewrite <- (R lo). apply round_le; [apply FIX_exp_valid|apply valid_rnd_ZR|exact H1].
  - rewrite <- (R hi). apply round_le; [apply FIX_exp_valid|apply valid_rnd_ZR|exact H2].
Qed.

(** * Raw bounds as floats (L <= 52: exactly representable) *)
Definition raw_lo (signed : bool) (len : Z) : Z := if signed then (- 2 ^ (len - 1))%Z else 0%Z.
Definition raw_hi (signed : bool) (len : Z) : Z := if signed then (2 ^ (len - 1) - 1)%Z else (2 ^ len - 1)%Z.

Lemma pow2_le_52 k : (0 <= k <= 52)%Z -> (0 < 2 ^ k <= 2 ^ 52)%Z.
Proof. intros. split; [apply Z.pow_pos_nonneg; lia|apply Z.pow_le_mono_r; lia]. Qed.

Lemma raw_lo_f_exact signed len : (1 <= len <= 52)%Z ->
  fin (raw_lo_f signed len) /\ B2R (raw_lo_f signed len) = IZR (raw_lo signed len).
Proof.
  intros Hl. unfold raw_lo_f, raw_lo. destruct signed.
  - destruct (bounds_exact len ltac:(lia)) as (_ & E & _). rewrite E.
    apply f64_of_Z_exact. pose proof (pow2_le_52 (len - 1) ltac:(lia)).
    change (2 ^ 53)%Z with (2 * 2 ^ 52)%Z. lia.
  - split; reflexivity.
Qed.

Lemma raw_hi_f_exact signed len : (1 <= len <= 52)%Z ->
  fin (raw_hi_f signed len) /\ B2R (raw_hi_f signed len) = IZR (raw_hi signed len).
Proof.
  intros Hl. unfold raw_hi_f, raw_hi. destruct (bounds_exact len ltac:(lia)) as (E1 & _ & E2).
  destruct signed.
  - rewrite E2. apply f64_of_Z_exact. pose proof (pow2_le_52 (len - 1) ltac:(lia)).
    change (2 ^ 53)%Z with (2 * 2 ^ 52)%Z. lia.
  - rewrite E1. apply f64_of_Z_exact. pose proof (pow2_le_52 len ltac:(lia)).
    change (2 ^ 53)%Z with (2 * 2 ^ 52)%Z. lia.
Qed.

Lemma raw_lo_le_hi signed len : (1 <= len)%Z -> (raw_lo signed len <= raw_hi signed len)%Z.
Proof.
  intros Hl. unfold raw_lo, raw_hi. destruct signed.
  - assert (0 < 2 ^ (len - 1))%Z by (apply Z.pow_pos_nonneg; lia). lia.
  - assert (0 < 2 ^ len)%Z by (apply Z.pow_pos_nonneg; lia). lia.
Qed.

Lemma raw_lo_f_nn signed len : nn (raw_lo_f signed len).
Proof. unfold raw_lo_f. destruct signed; [apply f64_of_Z_nn|reflexivity]. Qed.
Lemma raw_hi_f_nn signed len : nn (raw_hi_f signed len).
Proof. unfold raw_hi_f. destruct signed; apply f64_of_Z_nn. Qed.

(** * The class of signals of the property *)
Lemma class_inv scale offset mn mx :
  c09_class_f scale offset mn mx = true ->
  nonzerob scale = true /\ fin offset /\ fin mn /\ fin mx /\ B2R mn <= B2R mx.
Proof.
  unfold c09_class_f, finiteb. intros H.
  apply andb_true_iff in H. destruct H as [H H5]. apply andb_true_iff in H. destruct H as [H H4].
  apply andb_true_iff in H. destruct H as [H H3]. apply andb_true_iff in H. destruct H as [H1 H2].
  repeat split; try assumption.
  rewrite Bleb_correct in H5 by assumption. destruct (Rle_bool_spec (B2R mn) (B2R mx)); [assumption|discriminate].
Qed.

Lemma clamp_opt_f_nn mn mx x : fin mn -> fin mx -> B2R mn <= B2R mx -> nn x -> nn (clamp_opt_f mn mx x).
Proof.
  intros Fmn Fmx Hle Hx. unfold clamp_opt_f. destruct (declared_f mn mx); [|exact Hx].
  apply fin_nn. apply clamp_f_ext; assumption.
Qed.

(** * FromPhysical *)
Section FromPhysical.
Variables scale offset mn mx : f64.
Hypothesis Hclass : c09_class_f scale offset mn mx = true.
Variable signed : bool.
Variable len : Z.

Let q_of (p : f64) : f64 := fdiv (fsub (clamp_opt_f mn mx p) offset) scale.

Lemma q_of_nn p : nn p -> nn (q_of p).
Proof.
  destruct (class_inv _ _ _ _ Hclass) as (Hs & Fo & Fmn & Fmx & Hle). intros Hp. unfold q_of.
  apply fdiv_nn; [|exact Hs]. apply fsub_nn; [|exact Fo]. apply clamp_opt_f_nn; assumption.
Qed.

Lemma from_physical_f_eq p :
  from_physical_f scale offset mn mx signed len p = fmax (raw_lo_f signed len) (fmin (raw_hi_f signed len) (q_of p)).
Proof. reflexivity. Qed.

Lemma from_physical_f_ext p : nn p ->
  nn (from_physical_f scale offset mn mx signed len p) /\
  ext (from_physical_f scale offset mn mx signed len p) =
  Rmax (ext (raw_lo_f signed len)) (Rmin (ext (raw_hi_f signed len)) (ext (q_of p))).
Proof.
  intros Hp. rewrite from_physical_f_eq.
  destruct (fmin_ext (raw_hi_f signed len) (q_of p) (raw_hi_f_nn _ _) (q_of_nn p Hp)) as [N1 E1].
  destruct (fmax_ext (raw_lo_f signed len) _ (raw_lo_f_nn signed len) N1) as [N2 E2].
  split; [exact N2|]. rewrite E2, E1. reflexivity.
Qed.

(** saturation: every non-NaN physical value (incl. +-Inf) lands inside the raw range, and so
    does the integer the setter stores *)
Theorem from_physical_saturates p :
  (1 <= len <= 52)%Z -> nn p ->
  let r := from_physical_f scale offset mn mx signed len p in
  fin r /\ IZR (raw_lo signed len) <= B2R r <= IZR (raw_hi signed len) /\
  (raw_lo signed len <= Btrunc r <= raw_hi signed len)%Z.
Proof.
  intros Hl Hp r. destruct (from_physical_f_ext p Hp) as [N E]. fold r in N, E.
  destruct (raw_lo_f_exact signed len Hl) as [Flo Elo]. destruct (raw_hi_f_exact signed len Hl) as [Fhi Ehi].
  rewrite (fin_ext _ Flo), (fin_ext _ Fhi), Elo, Ehi in E.
  pose proof (IZR_le _ _ (raw_lo_le_hi signed len ltac:(lia))) as Hle.
  assert (B : IZR (raw_lo signed len) <= ext r <= IZR (raw_hi signed len)).
  { rewrite E. split; [apply Rmax_l|]. apply Rmax_lub; [exact Hle|apply Rmin_l]. }
  assert (F : fin r).
  { apply ext_fin_iff; [exact N|].
    pose proof (fin_abs_lt _ Flo) as A1. pose proof (fin_abs_lt _ Fhi) as A2. rewrite Elo in A1. rewrite Ehi in A2.
    apply Rabs_def2 in A1, A2. apply Rabs_def1; lra. }
  rewrite (fin_ext _ F) in B. split; [exact F|]. split; [exact B|]. apply Btrunc_between, B.
Qed.

(** monotonicity *)
Theorem from_physical_mono p q :
  fle p q ->
  (Bsign scale = false ->
   fle (from_physical_f scale offset mn mx signed len p) (from_physical_f scale offset mn mx signed len q)) /\
  (Bsign scale = true ->
   fle (from_physical_f scale offset mn mx signed len q) (from_physical_f scale offset mn mx signed len p)).
Proof.
  destruct (class_inv _ _ _ _ Hclass) as (Hs & Fo & Fmn & Fmx & Hle). intros H.
  assert (H1 : fle (fsub (clamp_opt_f mn mx p) offset) (fsub (clamp_opt_f mn mx q) offset)).
  { apply fsub_mono; [exact Fo|]. apply clamp_opt_f_mono; try apply fin_nn; assumption. }
  rewrite !from_physical_f_eq. split; intros Ss.
  - apply fmax_mono_r; [apply raw_lo_f_nn|]. apply fmin_mono_r; [apply raw_hi_f_nn|].
    unfold q_of. apply fdiv_mono; assumption.
  - apply fmax_mono_r; [apply raw_lo_f_nn|]. apply fmin_mono_r; [apply raw_hi_f_nn|].
    unfold q_of. apply fdiv_anti; assumption.
Qed.
End FromPhysical.

(** * ToPhysical *)
Lemma fadd_inf s (o : f64) : fin o -> fadd (B754_infinity s) o = B754_infinity s.
Proof. destruct o; try discriminate; reflexivity. Qed.

Lemma linear_nn (v scale offset : f64) : fin v -> fin scale -> fin offset -> nn (fadd (fmul v scale) offset).
Proof.
  intros Fv Fs Fo. destruct (fmul_ext v scale Fv Fs) as [N _].
  destruct (nn_cases _ N) as [F|[E|E]].
  - apply fadd_ext; assumption.
  - rewrite E, fadd_inf by assumption. reflexivity.
  - rewrite E, fadd_inf by assumption. reflexivity.
Qed.

(** without overflow the linear value is fl(fl(v*scale)+offset) *)
Lemma linear_value (v scale offset : f64) : fin v -> fin scale -> fin offset ->
  Rabs (rnd64 (B2R v * B2R scale)) < Omega ->
  Rabs (rnd64 (rnd64 (B2R v * B2R scale) + B2R offset)) < Omega ->
  fin (fadd (fmul v scale) offset) /\
  B2R (fadd (fmul v scale) offset) = rnd64 (rnd64 (B2R v * B2R scale) + B2R offset).
Proof.
  intros Fv Fs Fo A1 A2. destruct (fmul_ext v scale Fv Fs) as [N1 E1].
  rewrite clip_id in E1 by exact A1.
  assert (F1 : fin (fmul v scale)) by (apply ext_fin_iff; [exact N1|rewrite E1; exact A1]).
  rewrite (fin_ext _ F1) in E1.
  destruct (fadd_ext (fmul v scale) offset F1 Fo) as [N2 E2]. rewrite E1 in E2.
  rewrite clip_id in E2 by exact A2.
  assert (F2 : fin (fadd (fmul v scale) offset)) by (apply ext_fin_iff; [exact N2|rewrite E2; exact A2]).
  rewrite (fin_ext _ F2) in E2. split; assumption.
Qed.

Lemma fne0_fin (x : f64) : fin x -> fne0 x = true <-> B2R x <> 0.
Proof.
  intros F. unfold fne0. rewrite (Beqb_correct 53 1024 x fzero F eq_refl). cbn [B2R fzero].
  destruct (Req_bool_spec (B2R x) 0); cbn [negb]; split; intros; try congruence; try discriminate; reflexivity.
Qed.

Lemma declared_f_spec mn mx : fin mn -> fin mx ->
  (declared_f mn mx = true <-> (B2R mn <> 0 \/ B2R mx <> 0)).
Proof.
  intros F1 F2. unfold declared_f. rewrite orb_true_iff, (fne0_fin mn F1), (fne0_fin mx F2). reflexivity.
Qed.

Theorem to_physical_clamp scale offset mn mx v :
  c09_class_f scale offset mn mx = true -> fin v ->
  let x := fadd (fmul v scale) offset in
  let r := to_physical_f scale offset mn mx v in
  (declared_f mn mx = true ->
     fin r /\ B2R mn <= B2R r <= B2R mx /\ B2R r = Rmax (B2R mn) (Rmin (ext x) (B2R mx))) /\
  (declared_f mn mx = false -> r = x).
Proof.
  intros Hclass Fv x r. destruct (class_inv _ _ _ _ Hclass) as (Hs & Fo & Fmn & Fmx & Hle).
  destruct (nonzerob_inv scale Hs) as [Fs _].
  pose proof (linear_nn v scale offset Fv Fs Fo) as Nx. fold x in Nx.
  unfold r, to_physical_f, clamp_opt_f. fold x. split; intros D; rewrite D; [|reflexivity].
  destruct (clamp_f_ext mn mx x Fmn Fmx Hle Nx) as (F & E & B). repeat split; try assumption; apply B.
Qed.

(** * Statements in terms of Flocq's own comparison [Bleb] (false when a NaN is involved) *)
Theorem from_physical_mono_b scale offset mn mx signed len p q :
  c09_class_f scale offset mn mx = true -> Bleb p q = true ->
  Bleb (if Bsign scale then from_physical_f scale offset mn mx signed len q
        else from_physical_f scale offset mn mx signed len p)
       (if Bsign scale then from_physical_f scale offset mn mx signed len p
        else from_physical_f scale offset mn mx signed len q) = true.
Proof.
  intros Hc H. apply fle_Bleb in H.
  destruct (from_physical_mono scale offset mn mx Hc signed len p q H) as [H1 H2].
  apply fle_Bleb. destruct (Bsign scale); [apply H2|apply H1]; reflexivity.
Qed.

Theorem from_physical_saturates_b scale offset mn mx signed len p :
  c09_class_f scale offset mn mx = true -> (1 <= len <= 52)%Z -> is_nan p = false ->
  let r := from_physical_f scale offset mn mx signed len p in
  is_finite r = true /\
  Bleb (raw_lo_f signed len) r = true /\ Bleb r (raw_hi_f signed len) = true /\
  IZR (raw_lo signed len) <= B2R r <= IZR (raw_hi signed len) /\
  (raw_lo signed len <= setter_raw_f scale offset mn mx signed len p <= raw_hi signed len)%Z.
Proof.
  intros Hc Hl Hp r. destruct (from_physical_saturates scale offset mn mx Hc signed len p Hl Hp) as (F & B & T).
  fold r in F, B, T.
  destruct (raw_lo_f_exact signed len Hl) as [Flo Elo]. destruct (raw_hi_f_exact signed len Hl) as [Fhi Ehi].
  split; [exact F|]. split; [|split; [|split; [exact B|exact T]]].
  - rewrite Bleb_correct by assumption. apply Rle_bool_true. rewrite Elo. apply B.
  - rewrite Bleb_correct by assumption. apply Rle_bool_true. rewrite Ehi. apply B.
Qed.

Theorem to_physical_clamp_b scale offset mn mx v :
  c09_class_f scale offset mn mx = true -> is_finite v = true ->
  let x := Bplus mode_NE (Bmult mode_NE v scale) offset in
  let r := to_physical_f scale offset mn mx v in
  is_nan x = false /\
  (declared_f mn mx = true ->
     is_finite r = true /\ Bleb mn r = true /\ Bleb r mx = true /\
     (is_finite x = true -> B2R r = Rmax (B2R mn) (Rmin (B2R x) (B2R mx)))) /\
  (declared_f mn mx = false -> r = x).
Proof.
  intros Hc Fv x r. destruct (class_inv _ _ _ _ Hc) as (Hs & Fo & Fmn & Fmx & Hle).
  destruct (nonzerob_inv scale Hs) as [Fs _].
  destruct (to_physical_clamp scale offset mn mx v Hc Fv) as [H1 H2].
  split; [apply (linear_nn v scale offset Fv Fs Fo)|]. split; [|exact H2].
  intros D. destruct (H1 D) as (F & B & E). split; [exact F|].
  split; [|split].
  - rewrite Bleb_correct by assumption. apply Rle_bool_true, B.
  - rewrite Bleb_correct by assumption. apply Rle_bool_true, B.
  - intros Fx. unfold r, x in *. rewrite E. rewrite (fin_ext (fadd (fmul v scale) offset) Fx). reflexivity.
Qed.

(** the decidable clause predicates the correspondence driver evaluates hold of the model *)
Theorem model_satisfies_clauses scale offset mn mx signed len :
  c09_class_f scale offset mn mx = true ->
  (forall v, is_finite v = true ->
     clamp_ok_f scale offset mn mx v (to_physical_f scale offset mn mx v) = true) /\
  (forall p, (1 <= len <= 52)%Z -> is_nan p = false ->
     sat_ok_f signed len (from_physical_f scale offset mn mx signed len p)
              (setter_raw_f scale offset mn mx signed len p) = true) /\
  (forall p q, Bleb p q = true ->
     mono_ok_f scale (from_physical_f scale offset mn mx signed len p)
                     (from_physical_f scale offset mn mx signed len q) = true).
Proof.
  intros Hc. split; [|split].
  - intros v Fv. destruct (to_physical_clamp_b scale offset mn mx v Hc Fv) as (Nx & H1 & H2).
    unfold clamp_ok_f. destruct (declared_f mn mx) eqn:D.
    + destruct (H1 eq_refl) as (F & B1 & B2 & _). rewrite B1, B2. cbn [andb].
      assert (E : to_physical_f scale offset mn mx v = clamp_f mn mx (fadd (fmul v scale) offset)).
      { unfold to_physical_f, clamp_opt_f. rewrite D. reflexivity. }
      rewrite <- E, Beqb_refl. rewrite (fin_nn _ F). reflexivity.
    + rewrite (H2 eq_refl). fold fadd fmul. set (x := fadd (fmul v scale) offset) in *.
      rewrite Beqb_refl. change (is_nan x) with (is_nan (Bplus mode_NE (Bmult mode_NE v scale) offset)). rewrite Nx. reflexivity.
  - intros p Hl Hp.
    destruct (from_physical_saturates_b scale offset mn mx signed len p Hc Hl Hp) as (_ & B1 & B2 & _ & T).
    unfold sat_ok_f. rewrite B1, B2. cbn [andb]. unfold raw_lo, raw_hi in T.
    destruct (bounds_exact len ltac:(lia)) as (E1 & E2 & E3).
    destruct signed.
    + rewrite E2, E3. apply andb_true_iff. split; apply Z.leb_le; apply T.
    + rewrite E1. apply andb_true_iff. split; apply Z.leb_le; apply T.
  - intros p q H. pose proof (from_physical_mono_b scale offset mn mx signed len p q Hc H) as M.
    unfold mono_ok_f. destruct (Bsign scale); exact M.
Qed.
