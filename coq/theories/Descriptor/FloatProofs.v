(** Proofs about float32 signals (C08, float clause): the 32 payload bits written by
    MarshalFloat are the IEEE-754 binary32 pattern of the binary32 rounding of the value, and
    UnmarshalFloat reads that rounding back exactly. *)
From Coq Require Import ZArith List Bool Lia Reals Lra.
From Coq Require Import Floats.SpecFloat.
From Flocq Require Import Core BinarySingleNaN.
From Flocq Require Binary Bits.
From CanVerif Require Import Can.Data Can.DataSpec Can.DataProofs.
From CanVerif Require Import Descriptor.Signal Descriptor.SignalProofs Descriptor.Physical.
Import ListNotations.
Open Scope Z_scope.

(** * Bit patterns *)
Lemma bits_of_f32_range x : 0 <= bits_of_f32 x < 2 ^ 32.
Proof. unfold bits_of_f32, Bits.bits_of_b32. apply (Bits.bits_of_binary_float_range 23 8); reflexivity. Qed.

Lemma bits_of_f64_range x : 0 <= bits_of_f64 x < 2 ^ 64.
Proof. unfold bits_of_f64, Bits.bits_of_b64. apply (Bits.bits_of_binary_float_range 52 11); reflexivity. Qed.

Lemma f32_of_bits_of_f32 x : f32_of_bits (bits_of_f32 x) = x.
Proof.
  unfold f32_of_bits, bits_of_f32, Bits.b32_of_bits, Bits.bits_of_b32.
  rewrite Bits.binary_float_of_bits_of_binary_float. apply Binary.B2BSN_BSN2B.
Qed.

Lemma f64_of_bits_of_f64 x : f64_of_bits (bits_of_f64 x) = x.
Proof.
  unfold f64_of_bits, bits_of_f64, Bits.b64_of_bits, Bits.bits_of_b64.
  rewrite Bits.binary_float_of_bits_of_binary_float. apply Binary.B2BSN_BSN2B.
Qed.

(** * Conversions between the two formats *)
Definition fexp32 := FLT_exp (3 - 128 - 24) 24.
Definition fexp64 := FLT_exp (3 - 1024 - 53) 53.
Definition rnd32 := round radix2 fexp32 ZnearestE.
Definition rnd64 := round radix2 fexp64 ZnearestE.

Lemma B2R_finite_F2R prec emax s m e H :
  B2R (B754_finite s m e H : binary_float prec emax) = F2R (Float radix2 (cond_Zopp s (Zpos m)) e).
Proof. reflexivity. Qed.

(** float32(x) is the binary32 round-to-nearest-even of x, with overflow to the infinity of
    the sign of x *)
Theorem f32_of_f64_correct (x : f64) :
  is_finite x = true ->
  if Rlt_bool (Rabs (rnd32 (B2R x))) (bpow radix2 128)
  then B2R (f32_of_f64 x) = rnd32 (B2R x) /\ is_finite (f32_of_f64 x) = true /\
       Bsign (f32_of_f64 x) = Bsign x
  else f32_of_f64 x = B754_infinity (Bsign x).
Proof.
  destruct x as [s|s| |s m e H]; try discriminate; intros _.
  - cbn [f32_of_f64 B2R]. unfold rnd32. rewrite round_0 by auto with typeclass_instances.
    rewrite Rabs_R0, Rlt_bool_true by apply bpow_gt_0. auto.
  - cbn [f32_of_f64]. rewrite B2R_finite_F2R.
    pose proof (binary_normalize_correct 24 128 _ _ mode_NE (cond_Zopp s (Zpos m)) e s) as C.
    cbv zeta in C. unfold rnd32, fexp32. cbn [round_mode] in C.
    destruct (Rlt_bool _ _).
    + destruct C as (C1 & C2 & C3). split; [exact C1|]. split; [exact C2|].
      rewrite C3. cbn [Bsign]. destruct s.
      * rewrite Rcompare_Lt; [reflexivity|]. apply F2R_lt_0. reflexivity.
      * rewrite Rcompare_Gt; [reflexivity|]. apply F2R_gt_0. reflexivity.
    + cbn [Bsign]. apply B2SF_inj. rewrite C. unfold binary_overflow. cbn [overflow_to_inf B2SF].
      f_equal. destruct s.
      * apply Rlt_bool_true. apply F2R_lt_0. reflexivity.
      * apply Rlt_bool_false. apply F2R_ge_0. discriminate.
Qed.

Lemma fexp64_le_fexp32 e : fexp64 e <= fexp32 e.
Proof. unfold fexp64, fexp32, FLT_exp. lia. Qed.

(** float64(f) is exact for every float32 f *)
Theorem f64_of_f32_exact (y : f32) :
  is_finite y = true ->
  B2R (f64_of_f32 y) = B2R y /\ is_finite (f64_of_f32 y) = true /\ Bsign (f64_of_f32 y) = Bsign y.
Proof.
  destruct y as [s|s| |s m e H]; try discriminate; intros _.
  - cbn. auto.
  - cbn [f64_of_f32]. set (y := B754_finite s m e H : f32).
    assert (Hy : B2R y = F2R (Float radix2 (cond_Zopp s (Zpos m)) e)) by reflexivity.
    pose proof (binary_normalize_correct 53 1024 _ _ mode_NE (cond_Zopp s (Zpos m)) e s) as C.
    cbv zeta in C. cbn [round_mode] in C. rewrite <- Hy in C.
    assert (G : generic_format radix2 fexp64 (B2R y)).
    { apply generic_inclusion_mag with (fexp1 := fexp32); [intros _; apply fexp64_le_fexp32|].
      apply (generic_format_B2R 24 128). }
    rewrite round_generic in C by (auto with typeclass_instances; exact G).
    assert (Hlt : (Rabs (B2R y) < bpow radix2 1024)%R).
    { apply Rlt_trans with (bpow radix2 128); [apply (abs_B2R_lt_emax 24 128)|apply bpow_lt; lia]. }
    rewrite Rlt_bool_true in C by exact Hlt.
    destruct C as (C1 & C2 & C3). split; [exact C1|]. split; [exact C2|].
    rewrite C3, Hy. subst y. cbn [Bsign]. destruct s.
    + rewrite Rcompare_Lt; [reflexivity|]. apply F2R_lt_0. reflexivity.
    + rewrite Rcompare_Gt; [reflexivity|]. apply F2R_gt_0. reflexivity.
Qed.

(** the special values pass through both conversions unchanged *)
Lemma f32_of_f64_special (x : f64) :
  is_finite x = false ->
  f32_of_f64 x = match x with B754_infinity s => B754_infinity s | _ => B754_nan end.
Proof. destruct x; try discriminate; reflexivity. Qed.

Lemma f64_of_f32_special (y : f32) :
  is_finite y = false ->
  f64_of_f32 y = match y with B754_infinity s => B754_infinity s | _ => B754_nan end.
Proof. destruct y; try discriminate; reflexivity. Qed.

(** * Float signals *)
(** the 32 payload bits of the signal, read by the C01 specification, are the IEEE-754
    binary32 pattern of float32(x) *)
Theorem marshal_float_pattern s d x :
  valid_data d -> sig_fits s -> s_length s = 32 ->
  unmarshal_unsigned s (marshal_float s d x) = bits_of_f32 (f32_of_f64 x).
Proof.
  intros Hd Hf Hl. unfold marshal_float. apply unmarshal_marshal_unsigned; try assumption.
  rewrite Hl. apply bits_of_f32_range.
Qed.

Corollary marshal_float_bits s d x i :
  valid_data d -> sig_fits s -> s_length s = 32 -> 0 <= i < 32 ->
  pbit (marshal_float s d x) (sig_pos s i) = Z.testbit (bits_of_f32 (f32_of_f64 x)) i.
Proof.
  intros Hd Hf Hl Hi. unfold marshal_float. apply marshal_unsigned_content; try assumption.
  - rewrite Hl. apply bits_of_f32_range.
  - rewrite Hl. exact Hi.
Qed.

Corollary marshal_float_frame s d x k :
  valid_data d -> sig_fits s -> s_length s = 32 -> 0 <= k < 64 ->
  (forall i, 0 <= i < 32 -> k <> sig_pos s i) ->
  pbit (marshal_float s d x) k = pbit d k.
Proof.
  intros Hd Hf Hl Hk Hout. unfold marshal_float. apply marshal_unsigned_frame; try assumption.
  - rewrite Hl. apply bits_of_f32_range.
  - rewrite Hl. exact Hout.
Qed.

(** UnmarshalFloat reads the float whose pattern the 32 bits are *)
Theorem unmarshal_float_pattern s d :
  s_length s = 32 ->
  unmarshal_float s d = f64_of_f32 (f32_of_bits (unmarshal_unsigned s d)).
Proof.
  intros Hl. unfold unmarshal_float. f_equal. f_equal. apply Z.mod_small.
  rewrite <- Hl. apply unmarshal_unsigned_range. lia.
Qed.

(** read-after-write: the binary32 rounding of x, exactly *)
Theorem unmarshal_marshal_float s d x :
  valid_data d -> sig_fits s -> s_length s = 32 ->
  unmarshal_float s (marshal_float s d x) = f64_of_f32 (f32_of_f64 x).
Proof.
  intros Hd Hf Hl. rewrite unmarshal_float_pattern by exact Hl.
  rewrite marshal_float_pattern by assumption. rewrite f32_of_bits_of_f32. reflexivity.
Qed.

(** ... whose real value, when finite, is the round-to-nearest-even of x in binary32 *)
Corollary unmarshal_marshal_float_value s d (x : f64) :
  valid_data d -> sig_fits s -> s_length s = 32 -> is_finite x = true ->
  (Rabs (rnd32 (B2R x)) < bpow radix2 128)%R ->
  is_finite (unmarshal_float s (marshal_float s d x)) = true /\
  B2R (unmarshal_float s (marshal_float s d x)) = rnd32 (B2R x).
Proof.
  intros Hd Hf Hl Hx Hno. rewrite unmarshal_marshal_float by assumption.
  pose proof (f32_of_f64_correct x Hx) as C. rewrite Rlt_bool_true in C by exact Hno.
  destruct C as (C1 & C2 & _).
  destruct (f64_of_f32_exact _ C2) as (E1 & E2 & _). split; [exact E2|]. rewrite E1. exact C1.
Qed.

(** SaturatedCastFloat: the bounds are +-MaxFloat32 = +-(2^24-1)*2^104 = +-(2^53-2^29)*2^75 *)
Lemma max_float_value :
  B2SF max_float = S754_finite false (Z.to_pos (2 ^ 53 - 2 ^ 29)) 75 /\
  B2SF min_float = S754_finite true (Z.to_pos (2 ^ 53 - 2 ^ 29)) 75.
Proof. split; vm_compute; reflexivity. Qed.
