(** Model of /repo/frame.go: the [Frame] struct and [Validate] (frame.go:22-58).

    Frame{ID uint32; Length uint8; Data [8]byte; IsRemote, IsExtended bool}: the fields are
    mathematical integers / a byte list; [frame_wf] says that they are representable in the Go
    struct (it is the typing invariant of the Go value, not a property of the code).
    Payload = [Can.Data.data] (list of 8 bytes, byte 0 first).

    DEFINITIONS ONLY (lemmas: FrameProofs.v). *)
From Coq Require Import ZArith List Bool.
From CanVerif Require Import Can.Data.
Import ListNotations.
Open Scope Z_scope.

Record frame := mkFrame {
  f_id : Z;          (* uint32 *)
  f_len : Z;         (* uint8  *)
  f_data : data;     (* [8]byte *)
  f_remote : bool;
  f_ext : bool
}.

Definition zero_data : data := [0; 0; 0; 0; 0; 0; 0; 0].
(** var frame Frame *)
Definition zero_frame : frame := mkFrame 0 0 zero_data false false.

Definition set_id (f : frame) (v : Z) : frame := mkFrame v (f_len f) (f_data f) (f_remote f) (f_ext f).
Definition set_len (f : frame) (v : Z) : frame := mkFrame (f_id f) v (f_data f) (f_remote f) (f_ext f).
Definition set_data (f : frame) (v : data) : frame := mkFrame (f_id f) (f_len f) v (f_remote f) (f_ext f).
Definition set_remote (f : frame) (v : bool) : frame := mkFrame (f_id f) (f_len f) (f_data f) v (f_ext f).
Definition set_ext (f : frame) (v : bool) : frame := mkFrame (f_id f) (f_len f) (f_data f) (f_remote f) v.

Definition max_id : Z := 0x7ff.
Definition max_ext_id : Z := 0x1fffffff.
Definition max_data_length : Z := 8.

(** frame.go:39-58 Validate; [true] = returns nil *)
Definition validate (f : frame) : bool :=
  if f_ext f && (max_ext_id <? f_id f) then false
  else if negb (f_ext f) && (max_id <? f_id f) then false
  else if max_data_length <? f_len f then false
  else true.

(** the Go value exists: every field is in the range of its Go type *)
Definition frame_wf (f : frame) : Prop :=
  0 <= f_id f < 2 ^ 32 /\ 0 <= f_len f < 256 /\ valid_data (f_data f).
Definition frame_wfb (f : frame) : bool :=
  (0 <=? f_id f) && (f_id f <? 2 ^ 32) && (0 <=? f_len f) && (f_len f <? 256) && valid_datab (f_data f).

(** "valid frame whose unused data bytes are zero" (DESIGN.md 5.15): a remote frame carries no
    data, so all of its bytes are unused; a data frame uses bytes 0 .. length-1 *)
Definition canonical (f : frame) : Prop :=
  validate f = true /\
  (f_remote f = true -> forall i, 0 <= i < 8 -> byte_at (f_data f) i = 0) /\
  (f_remote f = false -> forall i, f_len f <= i < 8 -> byte_at (f_data f) i = 0).

Definition bytes_zero_from (d : data) (k : Z) : bool :=
  forallb (fun i => (i <? k) || (byte_at d i =? 0)) [0; 1; 2; 3; 4; 5; 6; 7].
Definition canonicalb (f : frame) : bool :=
  validate f && bytes_zero_from (f_data f) (if f_remote f then 0 else f_len f).

Definition frame_eqb (a b : frame) : bool :=
  (f_id a =? f_id b) && (f_len a =? f_len b) &&
  (Nat.eqb (length (f_data a)) (length (f_data b))) &&
  forallb (fun p => fst p =? snd p) (combine (f_data a) (f_data b)) &&
  Bool.eqb (f_remote a) (f_remote b) && Bool.eqb (f_ext a) (f_ext b).

(** outcome of a Go call that may return an error or panic *)
Inductive outcome := Ok | Error | Panic.

(** Go slice expression d[:n] on the [8]byte array: panics when n > 8 *)
Definition slice_to (d : data) (n : Z) : option (list Z) :=
  if (0 <=? n) && (n <=? 8) then Some (firstn (Z.to_nat n) d) else None.

(** copy(dst[:], src) into an 8-byte array: min(len) bytes are copied, the rest of dst stays *)
Definition copy_data (dst : data) (src : list Z) : data :=
  firstn (length dst) (src ++ skipn (length src) dst).
