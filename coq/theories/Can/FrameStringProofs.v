(** Proofs about the candump text model (property C15): Can/FrameString.v against the
    specification vocabulary of Can/FrameStringSpec.v.  No bound on strings, IDs or payloads
    other than those in the statements. *)
From Coq Require Import ZArith List Bool Lia.
From CanVerif Require Import Base.Bits Base.Dec Base.Hex Can.Data Can.Frame Can.FrameProofs Can.FrameString Can.FrameStringSpec.
Import ListNotations.
Open Scope Z_scope.

(** * strings.Split *)
Lemma split_nosep sep b : ~ In sep b -> split sep b = [b].
Proof.
  induction b as [|c b IH]; intros H; [reflexivity|].
  cbn [split]. destruct (Z.eqb_spec c sep) as [->|Hne]; [exfalso; apply H; left; reflexivity|].
  rewrite IH; [reflexivity|]. intros Hin. apply H. right. exact Hin.
Qed.

Lemma split_app sep a b : ~ In sep a -> split sep (a ++ sep :: b) = a :: split sep b.
Proof.
  induction a as [|c a IH]; intros H.
  - cbn [app split]. rewrite Z.eqb_refl. reflexivity.
  - cbn [app split]. destruct (Z.eqb_spec c sep) as [->|Hne]; [exfalso; apply H; left; reflexivity|].
    rewrite IH; [reflexivity|]. intros Hin. apply H. right. exact Hin.
Qed.

Lemma hex_no_hash l : Forall is_hex l -> ~ In 35 l.
Proof. intros H Hin. rewrite Forall_forall in H. apply (is_hex_not_hash 35 (H 35 Hin)). reflexivity. Qed.

Lemma upper_is_hex l : Forall is_hex_upper l -> Forall is_hex l.
Proof. apply Forall_impl. exact is_hex_upper_hex. Qed.

Lemma is_hex_not_R c : is_hex c -> c <> 82.
Proof. unfold is_hex. lia. Qed.

Lemma tail_remote_hex tail : Forall is_hex tail -> tail_remote tail = false.
Proof.
  intros H. destruct tail as [|c r]; [reflexivity|]. inversion H; subst. cbn.
  apply Z.eqb_neq. apply is_hex_not_R. assumption.
Qed.

Lemma itoa_small n : 0 <= n <= 9 -> itoa n = [48 + n].
Proof.
  intros H. assert (Hc : n = 0 \/ n = 1 \/ n = 2 \/ n = 3 \/ n = 4 \/ n = 5 \/ n = 6 \/ n = 7 \/ n = 8 \/ n = 9) by lia.
  repeat (destruct Hc as [->|Hc]; [reflexivity|]). subst. reflexivity.
Qed.

Lemma byte_at_zero_data i : byte_at zero_data i = 0.
Proof.
  unfold byte_at. change zero_data with (repeat 0 8).
  destruct (Nat.lt_ge_cases (Z.to_nat i) 8); [apply nth_repeat|].
  apply nth_overflow. rewrite repeat_length. lia.
Qed.

Lemma tail_no_hash (hexp : Z -> Prop) tail :
  (forall c, hexp c -> is_hex c) -> tail_ok hexp tail -> ~ In 35 tail.
Proof.
  intros Hh [->|[(c & -> & Hc)|[Hf _]]].
  - cbn. lia.
  - cbn. lia.
  - apply hex_no_hash. eapply Forall_impl; [exact Hh|exact Hf].
Qed.

(** the common prefix of UnmarshalString on  id # tail  *)
Lemma unmarshal_string_split idp tail :
  ~ In 35 idp -> ~ In 35 tail ->
  split ch_hash (idp ++ 35 :: tail) = [idp; tail].
Proof. intros H1 H2. unfold ch_hash. rewrite split_app by exact H1. rewrite split_nosep by exact H2. reflexivity. Qed.

Lemma hex_value_u32 idp : Forall is_hex idp -> (length idp <= 8)%nat -> hex_value idp mod 2 ^ 32 = hex_value idp.
Proof.
  intros Hh Hl. pose proof (hex_value_bound idp Hh) as Hb.
  assert (16 ^ Z.of_nat (length idp) <= 16 ^ 8) by (apply Z.pow_le_mono_r; lia).
  apply Z.mod_small. change (2 ^ 32) with (16 ^ 8). lia.
Qed.

(** * Clause 2: every string of the documented pattern (either letter case) is accepted and
    decoded as written *)
Theorem unmarshal_string_accepts idp tail dst :
  id_part_ok is_hex idp -> tail_ok is_hex tail ->
  unmarshal_string (idp ++ 35 :: tail) dst = (Ok, frame_written idp tail).
Proof.
  intros [Hlen Hhex] Ht.
  pose proof (tail_no_hash is_hex tail (fun c h => h) Ht) as Hnt.
  unfold unmarshal_string.
  rewrite (unmarshal_string_split idp tail (hex_no_hash idp Hhex) Hnt).
  change (negb (Z.of_nat (length [idp; tail]) =? 2)) with false. cbn [nth_error]. cbv iota.
  assert (Hl8 : (length idp <= 8)%nat) by lia.
  assert (Hne : idp <> []) by (destruct idp; [cbn in Hlen; lia|discriminate]).
  rewrite (parse_uint_hex idp Hhex Hne Hl8), (hex_value_u32 idp Hhex Hl8).
  assert (Elen : (negb (zlen idp =? 3) && negb (zlen idp =? 8)) = false).
  { unfold zlen. destruct Hlen as [-> | ->]; reflexivity. }
  rewrite Elen.
  assert (Eext : (zlen idp =? 8) = Nat.eqb (length idp) 8).
  { unfold zlen. destruct Hlen as [-> | ->]; reflexivity. }
  rewrite Eext. clear Elen Eext.
  unfold frame_written.
  destruct Ht as [->|[(c & -> & Hc)|[Hf (n & Hn & Hn8)]]].
  - (* R *) reflexivity.
  - (* R<digit> *)
    cbn [tail_remote zlen length Z.of_nat nth_error]. change (Z.of_nat 2 =? 0) with false.
    unfold ch_R. rewrite Z.eqb_refl.
    change (2 <? Z.of_nat 2) with false. change (Z.of_nat 2 =? 2) with true.
    cbn [str_slice Nat.leb length andb Nat.sub skipn firstn].
    rewrite atoi_single. unfold is_digit.
    destruct (Z.leb_spec 48 c); [|lia]. destruct (Z.leb_spec c 57); [|lia]. cbn [andb].
    rewrite Z.mod_small by lia. reflexivity.
  - (* digit pairs *)
    rewrite (tail_remote_hex tail Hf).
    destruct tail as [|c0 r]; [reflexivity|].
    inversion Hf as [|? ? Hh0 _]; subst.
    set (tail := c0 :: r) in *.
    change (zlen tail =? 0) with false. change (nth_error tail 0) with (Some c0). cbv iota.
    rewrite (proj2 (Z.eqb_neq c0 ch_R) (is_hex_not_R c0 Hh0)).
      unfold zlen. rewrite Hn.
      assert (E16 : (16 <? Z.of_nat (2 * n)) = false) by (apply Z.ltb_ge; lia).
      assert (Emod : (Z.of_nat (2 * n) mod 2 =? 0) = true).
      { apply Z.eqb_eq. rewrite Nat2Z.inj_mul. change (Z.of_nat 2) with 2. rewrite Z.mul_comm. apply Z.mod_mul. lia. }
      rewrite E16, Emod. cbn [orb negb].
      assert (Ediv : Z.of_nat (2 * n) / 2 = Z.of_nat n).
      { rewrite Nat2Z.inj_mul. change (Z.of_nat 2) with 2. rewrite Z.mul_comm. apply Z.div_mul. lia. }
      rewrite Ediv. rewrite Z.mod_small by lia.
      destruct (hex_decode_hex n tail Hn Hf) as [Ed El]. rewrite Ed.
      cbn [set_len set_data set_id set_ext zero_frame f_data f_id f_len f_remote f_ext].
      rewrite copy_zero_data by lia. reflexivity.
Qed.

(** * Clause 3: total (never panics) and atomic (destination unchanged on error) *)
Theorem unmarshal_string_total s dst :
  (exists f, unmarshal_string s dst = (Ok, f)) \/ unmarshal_string s dst = (Error, dst).
Proof.
  unfold unmarshal_string.
  destruct (split ch_hash s) as [|a [|b [|c r]]].
  - right. reflexivity.
  - right. reflexivity.
  - cbn [length Z.of_nat nth_error]. change (Z.of_nat 2 =? 2) with true. cbn [negb].
    destruct (negb (zlen a =? 3) && negb (zlen a =? 8)); [right; reflexivity|].
    destruct (parse_uint a 16 32); try (right; reflexivity).
    destruct (zlen b =? 0) eqn:Eb0; [left; eexists; reflexivity|].
    destruct b as [|c0 b']; [discriminate Eb0|]. cbn [nth_error].
    destruct (c0 =? ch_R).
    + destruct (2 <? zlen (c0 :: b')); [right; reflexivity|].
      destruct (zlen (c0 :: b') =? 2) eqn:E2; [|left; eexists; reflexivity].
      destruct b' as [|c1 [|c2 b'']]; try (unfold zlen in E2; cbn [length] in E2; apply Z.eqb_eq in E2; lia).
      cbn [str_slice Nat.leb length andb Nat.sub skipn firstn].
      destruct (atoi [c1]); [left; eexists; reflexivity|right; reflexivity].
    + destruct ((16 <? zlen (c0 :: b')) || negb (zlen (c0 :: b') mod 2 =? 0)); [right; reflexivity|].
      destruct (hex_decode (c0 :: b')); [left; eexists; reflexivity|right; reflexivity].
  - right. cbn [length].
    destruct (Z.eqb_spec (Z.of_nat (S (S (S (length r))))) 2); [lia|reflexivity].
Qed.

Corollary unmarshal_string_no_panic s dst : fst (unmarshal_string s dst) <> Panic.
Proof. destruct (unmarshal_string_total s dst) as [[f ->]| ->]; discriminate. Qed.

Corollary unmarshal_string_atomic s dst d' :
  unmarshal_string s dst = (Error, d') -> d' = dst.
Proof. destruct (unmarshal_string_total s dst) as [[f ->]| ->]; congruence. Qed.

(** the result of a successful parse does not depend on the previous destination *)
Lemma unmarshal_string_ok_indep s dst dst' f :
  unmarshal_string s dst = (Ok, f) -> unmarshal_string s dst' = (Ok, f).
Proof.
  unfold unmarshal_string.
  destruct (negb (Z.of_nat (length (split ch_hash s)) =? 2)); [discriminate|].
  destruct (nth_error (split ch_hash s) 0) as [a|]; [|discriminate].
  destruct (nth_error (split ch_hash s) 1) as [b|]; [|discriminate].
  destruct (negb (zlen a =? 3) && negb (zlen a =? 8)); [discriminate|].
  destruct (parse_uint a 16 32); try discriminate.
  destruct (zlen b =? 0); [congruence|].
  destruct (nth_error b 0) as [c0|]; [|discriminate].
  destruct (c0 =? ch_R).
  - destruct (2 <? zlen b); [discriminate|]. destruct (zlen b =? 2); [|congruence].
    destruct (str_slice b 1 2); [|discriminate]. destruct (atoi l); [congruence|discriminate].
  - destruct ((16 <? zlen b) || negb (zlen b mod 2 =? 0)); [discriminate|].
    destruct (hex_decode b); [congruence|discriminate].
Qed.

(** * Clause 1: printing *)
Lemma to_string_spec f :
  frame_wf f -> canonical f ->
  exists idp tail,
    to_string f = S_ok (idp ++ 35 :: tail) /\
    length idp = (if f_ext f then 8 else 3)%nat /\ Forall is_hex_upper idp /\
    tail_ok is_hex_upper tail /\ frame_written idp tail = f.
Proof.
  intros (Hid & Hlen & Hdata) (Hval & Hrem & Hdat).
  apply validate_spec in Hval. destruct Hval as [Hidmax Hlenmax]. unfold max_data_length in Hlenmax.
  destruct f as [id len data rem ext]. cbn [f_id f_len f_data f_remote f_ext] in *.
  set (w := if ext then 8%nat else 3%nat).
  assert (Hw : (1 <= w)%nat) by (subst w; destruct ext; lia).
  assert (Hidw : 0 <= id < 16 ^ Z.of_nat w).
  { subst w. destruct ext; unfold max_ext_id, max_id in Hidmax.
    - change (16 ^ Z.of_nat 8) with 4294967296. lia.
    - change (16 ^ Z.of_nat 3) with 4096. lia. }
  destruct (fmt_hex_upper_spec w id Hw Hidw) as (Hl & Hu & Hv).
  assert (Eid : (if ext then fmt_hex_upper 8 id else fmt_hex_upper 3 id) = fmt_hex_upper w id)
    by (subst w; destruct ext; reflexivity).
  assert (Eext : Nat.eqb (length (fmt_hex_upper w id)) 8 = ext)
    by (rewrite Hl; subst w; destruct ext; reflexivity).
  exists (fmt_hex_upper w id).
  unfold to_string. cbn [f_id f_len f_data f_remote f_ext]. rewrite Eid.
  destruct rem.
  - (* remote *)
    assert (Hz : data = zero_data) by (apply all_zero_data; [exact Hdata|apply Hrem; reflexivity]).
    destruct (Z.eqb_spec len 0) as [->|Hne].
    + exists [82]. cbn [andb]. repeat split; try assumption.
      * left. reflexivity.
      * unfold frame_written. cbn [tail_remote]. rewrite Z.eqb_refl, Hv, Eext, Hz. reflexivity.
    + exists (82 :: itoa len). cbn [andb]. repeat split; try assumption.
      * right. left. exists (48 + len). rewrite itoa_small by lia. split; [reflexivity|lia].
      * unfold frame_written. rewrite itoa_small by lia. cbn [tail_remote]. rewrite Z.eqb_refl, Hv, Eext, Hz.
        f_equal. lia.
  - (* data *)
    cbn [andb]. unfold slice_to.
    destruct (Z.leb_spec 0 len); [|lia]. destruct (Z.leb_spec len 8); [|lia]. cbn [andb].
    set (bs := firstn (Z.to_nat len) data).
    assert (Hbs : Forall (fun v => 0 <= v < 256) bs) by (apply firstn_data_bytes; exact Hdata).
    assert (Hbl : length bs = Z.to_nat len) by (apply firstn_data_length; [exact Hdata|lia]).
    destruct (upper_encode_shape bs Hbs) as [Hsh Hshl].
    exists (ascii_upper (hex_encode bs)). repeat split; try assumption.
    + right. right. split; [exact Hsh|]. exists (length bs). split; [exact Hshl|lia].
    + unfold frame_written. rewrite (tail_remote_hex _ (upper_is_hex _ Hsh)), Hv, Eext, Hshl.
      destruct (hex_decode_hex (length bs) (ascii_upper (hex_encode bs)) Hshl (upper_is_hex _ Hsh)) as [Ed _].
      rewrite (hex_decode_upper_encode bs Hbs) in Ed.
      assert (Eb : hex_bytes (ascii_upper (hex_encode bs)) = bs) by congruence. rewrite Eb.
      assert (Ediv : Z.of_nat (2 * length bs) / 2 = len).
      { rewrite Nat2Z.inj_mul. change (Z.of_nat 2) with 2. rewrite Z.mul_comm, Z.div_mul by lia. lia. }
      rewrite Ediv. unfold pad8. subst bs.
      rewrite (firstn_pad_data data len Hdata ltac:(lia) (Hdat eq_refl)). reflexivity.
Qed.

Lemma pattern_upper_is_pattern idp tail :
  id_part_ok is_hex_upper idp -> tail_ok is_hex_upper tail -> id_part_ok is_hex idp /\ tail_ok is_hex tail.
Proof.
  intros [Hl Hh] Ht. split; [split; [exact Hl|apply upper_is_hex, Hh]|].
  destruct Ht as [->|[(c & -> & Hc)|[Hf Hn]]].
  - left. reflexivity.
  - right. left. exists c. split; [reflexivity|exact Hc].
  - right. right. split; [apply upper_is_hex, Hf|exact Hn].
Qed.

(** Clause 1: a valid frame whose unused bytes are zero prints to the documented pattern
    (upper case; 3 digits iff standard) and parses back to itself *)
Theorem string_round_trip f :
  frame_wf f -> canonical f ->
  exists s, to_string f = S_ok s /\ matches_pattern_upper s /\ matches_pattern s /\
            (exists idp tail, s = idp ++ 35 :: tail /\ length idp = (if f_ext f then 8 else 3)%nat) /\
            forall dst, unmarshal_string s dst = (Ok, f).
Proof.
  intros Hwf Hc. destruct (to_string_spec f Hwf Hc) as (idp & tail & Hs & Hl & Hu & Ht & Hw).
  assert (Hip : id_part_ok is_hex_upper idp).
  { split; [|exact Hu]. rewrite Hl. destruct (f_ext f); [right|left]; reflexivity. }
  destruct (pattern_upper_is_pattern idp tail Hip Ht) as [Hip' Ht'].
  exists (idp ++ 35 :: tail). split; [exact Hs|]. split; [|split; [|split]].
  - exists idp, tail. auto.
  - exists idp, tail. auto.
  - exists idp, tail. auto.
  - intros dst. rewrite (unmarshal_string_accepts idp tail dst Hip' Ht'). rewrite Hw. reflexivity.
Qed.

(** * Clause 4: whatever was parsed into a valid frame prints and parses back to itself *)
Lemma parsed_frame_wf_canonical s dst f :
  unmarshal_string s dst = (Ok, f) -> validate f = true -> frame_wf f /\ canonical f.
Proof.
  unfold unmarshal_string.
  destruct (negb (Z.of_nat (length (split ch_hash s)) =? 2)); [discriminate|].
  destruct (nth_error (split ch_hash s) 0) as [a|]; [|discriminate].
  destruct (nth_error (split ch_hash s) 1) as [b|]; [|discriminate].
  destruct (negb (zlen a =? 3) && negb (zlen a =? 8)); [discriminate|].
  destruct (parse_uint a 16 32) as [id| |]; try discriminate.
  assert (Hidr : 0 <= id mod 2 ^ 32 < 2 ^ 32) by (apply Z.mod_pos_bound; lia).
  assert (Hzero : forall e r n, 0 <= n < 256 ->
            validate (mkFrame (id mod 2 ^ 32) n zero_data r e) = true ->
            frame_wf (mkFrame (id mod 2 ^ 32) n zero_data r e) /\
            canonical (mkFrame (id mod 2 ^ 32) n zero_data r e)).
  { intros e r n Hn Hv. split.
    - unfold frame_wf. cbn [f_id f_len f_data]. split; [lia|]. split; [lia|apply zero_data_valid].
    - split; [exact Hv|]. split; intros _ i _; apply byte_at_zero_data. }
  destruct (zlen b =? 0).
  { intros H Hv. inversion H; subst. cbv [set_id set_ext set_len set_remote zero_frame f_id f_len f_data f_remote f_ext] in *. apply Hzero; [lia|exact Hv]. }
  destruct (nth_error b 0) as [c0|]; [|discriminate].
  destruct (c0 =? ch_R).
  - destruct (2 <? zlen b); [discriminate|]. destruct (zlen b =? 2).
    + destruct (str_slice b 1 2); [|discriminate]. destruct (atoi l) as [n|]; [|discriminate].
      intros H Hv. inversion H; subst. cbv [set_id set_ext set_len set_remote zero_frame f_id f_len f_data f_remote f_ext] in *. apply Hzero; [apply Z.mod_pos_bound; lia|exact Hv].
    + intros H Hv. inversion H; subst. cbv [set_id set_ext set_len set_remote zero_frame f_id f_len f_data f_remote f_ext] in *. apply Hzero; [lia|exact Hv].
  - destruct (Z.ltb_spec 16 (zlen b)) as [|H16]; [discriminate|]. cbn [orb].
    destruct (negb (zlen b mod 2 =? 0)); [discriminate|].
    destruct (hex_decode b) as [dec|] eqn:Ed; [|discriminate].
    destruct (hex_decode_inv (length b) b dec (le_n _) Ed) as (Hbytes & Hlen2 & _).
    assert (Hdl : (length dec <= 8)%nat) by (unfold zlen in *; lia).
    assert (Elen : (zlen b / 2) mod 256 = Z.of_nat (length dec)).
    { unfold zlen. rewrite Hlen2, Nat2Z.inj_mul. change (Z.of_nat 2) with 2.
      rewrite Z.mul_comm, Z.div_mul by lia. apply Z.mod_small. lia. }
    intros H Hv. inversion H; subst. clear H.
    cbv [set_len set_data set_id set_ext zero_frame f_data f_id f_len f_remote f_ext] in *.
    rewrite Elen in *. split.
    + unfold frame_wf. cbv [f_id f_len f_data]. split; [lia|]. split; [lia|apply copy_zero_data_valid, Hbytes].
    + split; [exact Hv|]. split; [discriminate|]. intros _ i Hi.
      cbv [f_data f_len] in *. rewrite copy_zero_data by exact Hdl. apply byte_at_pad. lia.
Qed.

Theorem string_reparse s dst f :
  unmarshal_string s dst = (Ok, f) -> validate f = true ->
  exists s', to_string f = S_ok s' /\ forall dst', unmarshal_string s' dst' = (Ok, f).
Proof.
  intros H Hv. destruct (parsed_frame_wf_canonical s dst f H Hv) as [Hwf Hc].
  destruct (string_round_trip f Hwf Hc) as (s' & Hs & _ & _ & _ & Hp). exists s'. auto.
Qed.

(** * The executable pattern recogniser is the documented pattern *)
Lemma break_at_spec sep : forall s a b,
  break_at sep s = Some (a, b) -> s = a ++ sep :: b /\ ~ In sep a.
Proof.
  induction s as [|c s IH]; intros a b H; [discriminate|].
  cbn [break_at] in H. destruct (Z.eqb_spec c sep) as [->|Hne].
  - inversion H; subst. split; [reflexivity|intros []].
  - destruct (break_at sep s) as [[a' b']|]; [|discriminate]. inversion H; subst.
    destruct (IH a' b eq_refl) as [-> Hn]. split; [reflexivity|].
    intros [E|Hin]; [congruence|exact (Hn Hin)].
Qed.

Lemma break_at_app sep a b : ~ In sep a -> break_at sep (a ++ sep :: b) = Some (a, b).
Proof.
  induction a as [|c a IH]; intros H; cbn [app break_at].
  - rewrite Z.eqb_refl. reflexivity.
  - destruct (Z.eqb_spec c sep) as [->|Hne]; [exfalso; apply H; left; reflexivity|].
    rewrite IH; [reflexivity|]. intros Hin. apply H. right. exact Hin.
Qed.

Section Recogniser.
  Variable hexp : Z -> Prop.
  Variable hexb : Z -> bool.
  Hypothesis hexb_spec : forall c, hexb c = true <-> hexp c.
  Hypothesis hexp_hex : forall c, hexp c -> is_hex c.

  Lemma forallb_hexp l : forallb hexb l = true <-> Forall hexp l.
  Proof.
    rewrite forallb_forall, Forall_forall. split; intros H x Hx; apply hexb_spec, H, Hx.
  Qed.

  Lemma even_half n : Nat.even n = true <-> exists k, n = (2 * k)%nat.
  Proof.
    rewrite Nat.even_spec. split; intros [k Hk]; exists k; lia.
  Qed.

  Lemma tail_okb_spec tail : tail_okb hexb tail = true <-> tail_ok hexp tail.
  Proof.
    unfold tail_okb, tail_ok. destruct tail as [|c0 rest].
    - split; [|reflexivity]. intros _. right. right. split; [constructor|]. exists 0%nat. split; [reflexivity|lia].
    - destruct (Z.eqb_spec c0 82) as [->|Hne].
      + destruct rest as [|c [|c' rest']].
        * split; [left; reflexivity|reflexivity].
        * rewrite andb_true_iff, !Z.leb_le. split.
          -- intros H. right. left. exists c. split; [reflexivity|lia].
          -- intros [H|[(c1 & E & Hc)|[Hf _]]]; [discriminate| |].
             ++ inversion E; subst. lia.
             ++ inversion Hf; subst. exfalso. apply (is_hex_not_R 82); [apply hexp_hex; assumption|reflexivity].
        * split; [discriminate|]. intros [H|[(c1 & E & _)|[Hf _]]]; try discriminate.
          inversion Hf; subst. exfalso. apply (is_hex_not_R 82); [apply hexp_hex; assumption|reflexivity].
      + rewrite !andb_true_iff, forallb_hexp, even_half, Nat.leb_le. split.
        * intros [[Hf [k Hk]] Hle]. right. right. split; [exact Hf|]. exists k. split; [exact Hk|lia].
        * intros [H|[(c1 & E & _)|[Hf (k & Hk & Hk8)]]]; [inversion H; congruence|inversion E; congruence|].
          repeat split; [exact Hf|exists k; exact Hk|lia].
  Qed.

  Lemma matches_pattern_rec s :
    match break_at 35 s with
    | None => false
    | Some (idp, tail) =>
      (Nat.eqb (length idp) 3 || Nat.eqb (length idp) 8) && forallb hexb idp && tail_okb hexb tail
    end = true <-> matches_pattern_with hexp s.
  Proof.
    unfold matches_pattern_with, id_part_ok. split.
    - destruct (break_at 35 s) as [[idp tail]|] eqn:E; [|discriminate].
      rewrite !andb_true_iff, orb_true_iff, !Nat.eqb_eq, forallb_hexp, tail_okb_spec.
      intros [[Hl Hf] Ht]. destruct (break_at_spec 35 s idp tail E) as [-> _].
      exists idp, tail. auto.
    - intros (idp & tail & -> & [Hl Hf] & Ht).
      rewrite break_at_app by (apply hex_no_hash; eapply Forall_impl; [exact hexp_hex|exact Hf]).
      rewrite !andb_true_iff, orb_true_iff, !Nat.eqb_eq, forallb_hexp, tail_okb_spec. auto.
  Qed.
End Recogniser.

Theorem matches_patternb_spec s :
  (matches_patternb false s = true <-> matches_pattern s) /\
  (matches_patternb true s = true <-> matches_pattern_upper s).
Proof.
  split; unfold matches_patternb, matches_pattern, matches_pattern_upper.
  - apply matches_pattern_rec; [exact is_hexb_spec|auto].
  - apply matches_pattern_rec; [exact is_hex_upperb_spec|exact is_hex_upper_hex].
Qed.

(** Clause 2 stated on [matches_pattern] itself *)
Corollary unmarshal_string_pattern s :
  matches_pattern s ->
  exists idp tail, s = idp ++ 35 :: tail /\ forall dst, unmarshal_string s dst = (Ok, frame_written idp tail).
Proof.
  intros (idp & tail & -> & Hi & Ht). exists idp, tail. split; [reflexivity|].
  intros dst. apply unmarshal_string_accepts; assumption.
Qed.

(** * Exactness: the parser accepts the documented pattern and, beyond it, only  id # R9
    (Atoi of one character yields 0..9; the resulting frame has length 9 and fails Validate) *)
Fixpoint join (sep : Z) (parts : list (list Z)) : list Z :=
  match parts with
  | [] => []
  | [p] => p
  | p :: rest => p ++ sep :: join sep rest
  end.

Lemma split_nonempty sep s : split sep s <> [].
Proof.
  destruct s as [|c r]; cbn [split]; [discriminate|].
  destruct (c =? sep); [discriminate|]. destruct (split sep r); discriminate.
Qed.

Lemma join_split sep s : join sep (split sep s) = s.
Proof.
  induction s as [|c r IH]; [reflexivity|].
  cbn [split]. destruct (Z.eqb_spec c sep) as [->|Hne].
  - pose proof (split_nonempty sep r) as Hn. destruct (split sep r) as [|h t] eqn:E; [contradiction|].
    cbn [join app]. cbn [join] in IH. rewrite IH. reflexivity.
  - pose proof (split_nonempty sep r) as Hn. destruct (split sep r) as [|h t] eqn:E; [contradiction|].
    destruct t as [|h2 t2]; cbn [join] in *; rewrite <- IH; reflexivity.
Qed.

Lemma lor32_cases c : Z.lor c 32 = c \/ Z.lor c 32 = c + 32.
Proof.
  pose proof (land_pow2 c 5 ltac:(lia)) as L. change (2 ^ 5) with 32 in L.
  destruct (Z.testbit c 5) eqn:E.
  - left. apply Z.bits_inj'. intros i Hi. rewrite Z.lor_spec. change 32 with (2 ^ 5).
    rewrite Z.pow2_bits_eqb by lia. destruct (Z.eqb_spec 5 i) as [<-|]; [rewrite E; reflexivity|apply orb_false_r].
  - right. rewrite <- (Z.lxor_lor c 32 L). symmetry. apply Z.add_nocarry_lxor. exact L.
Qed.

Lemma pu_digit_hex_inv c d : pu_digit c = Some d -> d < 16 -> is_hex c.
Proof.
  unfold pu_digit, lower, is_hex.
  destruct (Z.leb_spec 48 c), (Z.leb_spec c 57); cbn [andb]; try (intros; lia).
  all: destruct (Z.leb_spec 97 (Z.lor c 32)), (Z.leb_spec (Z.lor c 32) 122); cbn [andb]; try discriminate.
  all: intros E Hd; inversion E; subst; destruct (lor32_cases c) as [L|L]; rewrite L in *; lia.
Qed.

Lemma pu_loop_hex_inv maxval s : forall n r, pu_loop 16 maxval s n = PU_ok r -> Forall is_hex s.
Proof.
  induction s as [|c s IH]; intros n r H; [constructor|].
  cbn [pu_loop] in H. destruct (pu_digit c) as [d|] eqn:Ed; [|discriminate].
  destruct (Z.leb_spec 16 d); [discriminate|].
  destruct (pu_cutoff 16 <=? n); [discriminate|]. cbv zeta in H.
  match type of H with (if ?b then _ else _) = _ => destruct b end; [discriminate|].
  constructor; [apply (pu_digit_hex_inv c d Ed); lia|]. eapply IH. exact H.
Qed.

Theorem unmarshal_string_accepts_only s dst f :
  unmarshal_string s dst = (Ok, f) ->
  exists idp tail, s = idp ++ 35 :: tail /\ id_part_ok is_hex idp /\ (tail_ok is_hex tail \/ tail = [82; 57]).
Proof.
  unfold unmarshal_string. pose proof (join_split ch_hash s) as Hj.
  destruct (split ch_hash s) as [|a [|b [|c r]]]; try discriminate.
  2:{ cbn [length]. destruct (Z.eqb_spec (Z.of_nat (S (S (S (length r))))) 2); [lia|discriminate]. }
  cbn [join] in Hj. change (negb (Z.of_nat (length [a; b]) =? 2)) with false. cbn [nth_error]. cbv iota.
  destruct (negb (zlen a =? 3) && negb (zlen a =? 8)) eqn:El; [discriminate|].
  destruct (parse_uint a 16 32) as [id| |] eqn:Ep; try discriminate.
  assert (Ha : id_part_ok is_hex a).
  { split.
    - apply andb_false_iff in El. unfold zlen in El. destruct El as [El|El]; apply negb_false_iff, Z.eqb_eq in El; lia.
    - unfold parse_uint in Ep. destruct a; [discriminate|]. eapply pu_loop_hex_inv. exact Ep. }
  intros H. exists a, b. split; [symmetry; exact Hj|]. split; [exact Ha|].
  destruct (zlen b =? 0) eqn:Eb0.
  { left. right. right. destruct b; [|unfold zlen in Eb0; cbn [length] in Eb0; apply Z.eqb_eq in Eb0; lia]. split; [constructor|]. exists 0%nat. split; [reflexivity|lia]. }
  destruct b as [|c0 b']; [discriminate Eb0|]. cbn [nth_error] in H.
  destruct (Z.eqb_spec c0 ch_R) as [->|Hne].
  - destruct (Z.ltb_spec 2 (zlen (ch_R :: b'))) as [|Hle]; [discriminate|].
    destruct (Z.eqb_spec (zlen (ch_R :: b')) 2) as [E2|E2]; unfold zlen in *; cbn [length] in *.
    + destruct b' as [|c1 [|c2 b'']]; cbn [length] in *; try lia.
      cbn [str_slice Nat.leb length andb Nat.sub skipn firstn] in H. rewrite atoi_single in H.
      unfold is_digit in H. destruct (Z.leb_spec 48 c1), (Z.leb_spec c1 57); cbn [andb] in H; try discriminate.
      destruct (Z.eq_dec c1 57) as [->|]; [right; reflexivity|].
      left. right. left. exists c1. split; [reflexivity|lia].
    + left. left. destruct b' as [|c1 b'']; [reflexivity|]. cbn [length] in *. lia.
  - destruct (Z.ltb_spec 16 (zlen (c0 :: b'))); [discriminate|]. cbn [orb] in H.
    destruct (negb (zlen (c0 :: b') mod 2 =? 0)); [discriminate|].
    destruct (hex_decode (c0 :: b')) as [dec|] eqn:Ed; [|discriminate].
    destruct (hex_decode_inv (length (c0 :: b')) (c0 :: b') dec (le_n _) Ed) as (_ & Hl & Hh).
    left. right. right. split; [exact Hh|]. exists (length dec). split; [exact Hl|]. unfold zlen in *. lia.
Qed.
