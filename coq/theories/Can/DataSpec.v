(** Specification of the payload bit numbering, written independently of the
    pack/shift/mask algorithm of data.go (documentation comment of [can.Data]). *)
From Coq Require Import ZArith List Bool.
From CanVerif Require Import Can.Data.
Import ListNotations.
Open Scope Z_scope.

(** payload bit k = bit (k mod 8) of byte (k / 8) *)
Definition pbit (d : data) (k : Z) : bool := Z.testbit (byte_at d (k / 8)) (k mod 8).

(** little-endian: value bit i is payload bit start + i *)
Definition le_pos (s i : Z) : Z := s + i.

(** big-endian: the most significant value bit is payload bit [s]; each following
    bit is one lower in the same byte, continuing at bit 7 of the next byte. *)
Definition be_next (k : Z) : Z := if k mod 8 =? 0 then k + 15 else k - 1.
Fixpoint be_pos_nat (s : Z) (j : nat) : Z :=
  match j with O => s | S j' => be_next (be_pos_nat s j') end.
Definition be_pos (s j : Z) : Z := be_pos_nat s (Z.to_nat j).

(** a range fits in [n] payload bits when every one of its bits is below [n] *)
Definition fits_le (n s l : Z) : Prop := forall i, 0 <= i < l -> le_pos s i < n.
Definition fits_be (n s l : Z) : Prop := forall j, 0 <= j < l -> be_pos s j < n.

(** two's-complement interpretation of the low [l] bits *)
Definition sext (l u : Z) : Z := if Z.testbit u (l - 1) then u - 2 ^ l else u.

(** big-endian "stream index" of payload position k (an involution);
    [be_pos] advances it by one (lemma [stream_be_pos] in DataProofs) *)
Definition stream (k : Z) : Z := 8 * (k / 8) + (7 - k mod 8).

(** position of value bit [i] (0 = least significant) of a big-endian range of length l *)
Definition be_bitpos (s l i : Z) : Z := be_pos s (l - 1 - i).

(** specification of the range checks (C17) *)
Definition ok_le (fl s l : Z) : Prop := fits_le (8 * fl) s l.
Definition ok_be (fl s l : Z) : Prop := fits_be (8 * fl) s l.
Definition ok_val (v b : Z) : Prop := v < 2 ^ b.
