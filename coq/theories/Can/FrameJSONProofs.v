(** Proofs about the JSON model (property C16): Can/FrameJSON.v against Can/FrameJSONSpec.v. *)
From Coq Require Import ZArith List Bool Lia Ascii String.
From CanVerif Require Import Base.Dec Base.Hex Can.Data Can.Frame Can.FrameProofs Can.FrameString
  Can.FrameJSON Can.FrameJSONSpec.
Import ListNotations.
Open Scope Z_scope.
Local Notation length := List.length.

(** the byte-list literals of the model are the strings they stand for *)
Example literals_ok :
  lit_open_id = bytes "{""id"":" /\
  lit_ext_rem_len = bytes ",""extended"":true,""remote"":true,""length"":" /\
  lit_rem_len = bytes ",""remote"":true,""length"":" /\
  lit_close = bytes "}" /\
  lit_ext_close = bytes ",""extended"":true}" /\
  lit_data_open = bytes ",""data"":""" /\
  lit_quote = bytes """" /\
  lit_quote_close = bytes """}" /\
  (116 :: lit_rue = bytes "true" /\ 102 :: lit_alse = bytes "false" /\ 110 :: lit_ull = bytes "null") /\
  name_id = bytes "id" /\ name_data = bytes "data" /\ name_length = bytes "length" /\
  name_extended = bytes "extended" /\ name_remote = bytes "remote".
Proof. repeat split. Qed.

(** * JSON() composes exactly the member-wise text *)
Lemma to_json_spec f :
  (f_remote f = true \/ 0 <= f_len f <= 8) -> to_json f = S_ok (frame_json_text f).
Proof.
  intros H. destruct f as [id len data rem ext].
  unfold to_json, frame_json_text, json_text, data_member, length_member.
  cbn [f_id f_len f_data f_remote f_ext] in *.
  destruct rem; cbn [andb negb].
  - destruct ext; f_equal; rewrite <- ?app_assoc; reflexivity.
  - destruct H as [H|H]; [discriminate|].
    unfold slice_to. destruct (Z.leb_spec 0 len); [|lia]. destruct (Z.leb_spec len 8); [|lia]. cbn [andb].
    destruct (Z.eqb_spec len 0) as [->|Hne].
    + destruct ext; cbn [andb]; f_equal; rewrite <- ?app_assoc; reflexivity.
    + destruct (Z.ltb_spec 0 len); [|lia].
      destruct ext; cbn [andb]; f_equal; rewrite <- ?app_assoc; reflexivity.
Qed.

(** * Tokeniser: running it over a prefix *)
Fixpoint lex_prefix (st : lstate) (s : list Z) : option (lstate * list token) :=
  match s with
  | [] => Some (st, [])
  | c :: r =>
    match lex_step st c with
    | None => None
    | Some (st', out) =>
      match lex_prefix st' r with
      | None => None
      | Some (st'', out') => Some (st'', out ++ out')
      end
    end
  end.

Lemma lex_prefix_app st a b :
  lex_prefix st (a ++ b) =
  match lex_prefix st a with
  | None => None
  | Some (st', o1) =>
    match lex_prefix st' b with None => None | Some (st'', o2) => Some (st'', o1 ++ o2) end
  end.
Proof.
  revert st. induction a as [|c a IH]; intros st.
  - cbn [app lex_prefix]. destruct (lex_prefix st b) as [[st' o]|]; reflexivity.
  - cbn [app lex_prefix]. destruct (lex_step st c) as [[st1 o1]|]; [|reflexivity].
    rewrite IH. destruct (lex_prefix st1 a) as [[st2 o2]|]; [|reflexivity].
    destruct (lex_prefix st2 b) as [[st3 o3]|]; [|reflexivity]. rewrite app_assoc. reflexivity.
Qed.

Lemma lex_run_prefix st s :
  lex_run st s =
  match lex_prefix st s with
  | None => None
  | Some (st', out) => match lex_end st' with Some ts => Some (out ++ ts) | None => None end
  end.
Proof.
  revert st. induction s as [|c s IH]; intros st.
  - cbn [lex_run lex_prefix]. destruct (lex_end st); reflexivity.
  - cbn [lex_run lex_prefix]. destruct (lex_step st c) as [[st1 o1]|]; [|reflexivity].
    rewrite IH. destruct (lex_prefix st1 s) as [[st2 o2]|]; [|reflexivity].
    destruct (lex_end st2); [|reflexivity]. rewrite app_assoc. reflexivity.
Qed.

Lemma lex_of_prefix s out : lex_prefix L_top s = Some (L_top, out) -> lex s = Some out.
Proof. intros H. unfold lex. rewrite lex_run_prefix, H. cbn [lex_end]. rewrite app_nil_r. reflexivity. Qed.

(** ** segments *)
Definition plain_char (c : Z) : Prop := 32 <= c /\ c <> 34 /\ c <> 92.

Lemma lex_plain h : forall acc,
  Forall plain_char h -> lex_prefix (L_str acc) h = Some (L_str (rev h ++ acc), []).
Proof.
  induction h as [|c h IH]; intros acc Hh; [reflexivity|].
  inversion Hh as [|? ? (H32 & H34 & H92) Hh']; subst.
  cbn [lex_prefix lex_step].
  destruct (Z.eqb_spec c 34); [contradiction|]. destruct (Z.eqb_spec c 92); [contradiction|].
  destruct (Z.ltb_spec c 32); [lia|].
  rewrite IH by exact Hh'. cbn [rev app]. rewrite <- app_assoc. reflexivity.
Qed.

Lemma lex_quote acc : lex_prefix (L_str acc) (bytes """") = Some (L_top, [TStr (rev acc)]).
Proof. reflexivity. Qed.

(** state reached after the decimal digits of a non-negative number *)
Definition int_ns (n : Z) : nstate := if n =? 0 then N_zero else N_int.

Lemma lex_digits ds : forall acc,
  Forall (fun c => 48 <= c <= 57) ds ->
  lex_prefix (L_num N_int acc) ds = Some (L_num N_int (rev ds ++ acc), []).
Proof.
  induction ds as [|c ds IH]; intros acc Hd; [reflexivity|].
  inversion Hd as [|? ? Hc Hd']; subst.
  cbn [lex_prefix lex_step num_step]. unfold is_digit.
  destruct (Z.leb_spec 48 c); [|lia]. destruct (Z.leb_spec c 57); [|lia]. cbn [andb].
  rewrite IH by exact Hd'. cbn [rev app]. rewrite <- app_assoc. reflexivity.
Qed.

Lemma lex_top_digit19 c : 49 <= c <= 57 -> lex_top c = Some (L_num N_int [c], []).
Proof.
  intros H. assert (Hc : c = 49 \/ c = 50 \/ c = 51 \/ c = 52 \/ c = 53 \/ c = 54 \/ c = 55 \/ c = 56 \/ c = 57) by lia.
  repeat (destruct Hc as [->|Hc]; [reflexivity|]). subst. reflexivity.
Qed.

Lemma lex_itoa n : 0 <= n -> lex_prefix L_top (itoa n) = Some (L_num (int_ns n) (rev (itoa n)), []).
Proof.
  intros Hn. unfold int_ns. destruct (itoa_shape n Hn) as [E|(c & r & E & Hc & Hr)].
  - assert (n = 0).
    { pose proof (itoa_value n Hn) as Hv. rewrite E in Hv. cbn in Hv. lia. }
    subst. reflexivity.
  - assert (n <> 0).
    { intros ->. cbn in E. inversion E. lia. }
    destruct (Z.eqb_spec n 0); [contradiction|].
    rewrite E. cbn [lex_prefix lex_step]. rewrite (lex_top_digit19 c Hc).
    rewrite (lex_digits r [c] Hr). reflexivity.
Qed.

(** a segment that starts with ',' or '}' ends a pending integer literal *)
Definition starts_delim (seg : list Z) : Prop := exists c r, seg = c :: r /\ (c = 44 \/ c = 125).

Lemma lex_after_int n acc seg st' out :
  starts_delim seg -> lex_prefix L_top seg = Some (st', out) ->
  lex_prefix (L_num (int_ns n) acc) seg = Some (st', TNum (rev acc) :: out).
Proof.
  intros (c & r & -> & Hc) H. cbn [lex_prefix lex_step] in *.
  assert (Hs : num_step (int_ns n) c = NR_end).
  { unfold int_ns. destruct (n =? 0); destruct Hc as [-> | ->]; reflexivity. }
  rewrite Hs. destruct (lex_top c) as [[st1 o1]|]; [|discriminate].
  destruct (lex_prefix st1 r) as [[st2 o2]|]; [|discriminate].
  inversion H; subst. reflexivity.
Qed.

(** closed segments *)
Lemma seg_open : lex_prefix L_top (bytes "{""id"":") = Some (L_top, [TLBrace; TStr name_id; TColon]).
Proof. reflexivity. Qed.
Lemma seg_data : lex_prefix L_top (bytes ",""data"":""") = Some (L_str [], [TComma; TStr name_data; TColon]).
Proof. reflexivity. Qed.
Lemma seg_ext : lex_prefix L_top (bytes ",""extended"":true") = Some (L_top, [TComma; TStr name_extended; TColon; TTrue]).
Proof. reflexivity. Qed.
Lemma seg_rem : lex_prefix L_top (bytes ",""remote"":true") = Some (L_top, [TComma; TStr name_remote; TColon; TTrue]).
Proof. reflexivity. Qed.
Lemma seg_len : lex_prefix L_top (bytes ",""length"":") = Some (L_top, [TComma; TStr name_length; TColon]).
Proof. reflexivity. Qed.
Lemma seg_close : lex_prefix L_top (bytes "}") = Some (L_top, [TRBrace]).
Proof. reflexivity. Qed.

Lemma delim_data : starts_delim (bytes ",""data"":"""). Proof. do 2 eexists. split; [reflexivity|left; reflexivity]. Qed.
Lemma delim_ext : starts_delim (bytes ",""extended"":true"). Proof. do 2 eexists. split; [reflexivity|left; reflexivity]. Qed.
Lemma delim_rem : starts_delim (bytes ",""remote"":true"). Proof. do 2 eexists. split; [reflexivity|left; reflexivity]. Qed.
Lemma delim_close : starts_delim (bytes "}"). Proof. do 2 eexists. split; [reflexivity|right; reflexivity]. Qed.

(** the token list of the member-wise text *)
Definition json_tokens (id : Z) (data : option (list Z)) (ext : bool) (rlen : option Z) : list token :=
  [TLBrace; TStr name_id; TColon; TNum (itoa id)]
  ++ match data with Some h => [TComma; TStr name_data; TColon; TStr h] | None => [] end
  ++ (if ext then [TComma; TStr name_extended; TColon; TTrue] else [])
  ++ match rlen with
     | Some l => [TComma; TStr name_remote; TColon; TTrue; TComma; TStr name_length; TColon; TNum (itoa l)]
     | None => []
     end
  ++ [TRBrace].

Ltac seg_top F := rewrite lex_prefix_app, F; cbv beta iota.
Ltac seg_int F D := rewrite lex_prefix_app, (lex_after_int _ _ _ _ _ D F); cbv beta iota.

Lemma lex_json_text id data ext rlen :
  0 <= id -> (forall h, data = Some h -> Forall plain_char h) -> (forall l, rlen = Some l -> 0 <= l) ->
  lex (json_text id data ext rlen) = Some (json_tokens id data ext rlen).
Proof.
  intros Hid Hdata Hlen. apply lex_of_prefix. unfold json_text, json_tokens.
  seg_top seg_open. seg_top (lex_itoa id Hid).
  destruct data as [h|]; [specialize (Hdata h eq_refl)|clear Hdata];
  destruct ext; (destruct rlen as [l|]; [specialize (Hlen l eq_refl)|clear Hlen]);
  cbn [app]; rewrite <- ?app_assoc.
  - seg_int seg_data delim_data. seg_top (lex_plain h [] Hdata). seg_top lex_quote.
    seg_top seg_ext. seg_top seg_rem. seg_top seg_len. seg_top (lex_itoa l Hlen).
    rewrite (lex_after_int _ _ _ _ _ delim_close seg_close).
    rewrite !rev_involutive, app_nil_r, rev_involutive. reflexivity.
  - seg_int seg_data delim_data. seg_top (lex_plain h [] Hdata). seg_top lex_quote.
    seg_top seg_ext. rewrite seg_close.
    rewrite !rev_involutive, app_nil_r, rev_involutive. reflexivity.
  - seg_int seg_data delim_data. seg_top (lex_plain h [] Hdata). seg_top lex_quote.
    seg_top seg_rem. seg_top seg_len. seg_top (lex_itoa l Hlen).
    rewrite (lex_after_int _ _ _ _ _ delim_close seg_close).
    rewrite !rev_involutive, app_nil_r, rev_involutive. reflexivity.
  - seg_int seg_data delim_data. seg_top (lex_plain h [] Hdata). seg_top lex_quote.
    rewrite seg_close.
    rewrite !rev_involutive, app_nil_r, rev_involutive. reflexivity.
  - seg_int seg_ext delim_ext. seg_top seg_rem. seg_top seg_len. seg_top (lex_itoa l Hlen).
    rewrite (lex_after_int _ _ _ _ _ delim_close seg_close).
    rewrite !rev_involutive. reflexivity.
  - seg_int seg_ext delim_ext. rewrite seg_close. rewrite !rev_involutive. reflexivity.
  - seg_int seg_rem delim_rem. seg_top seg_len. seg_top (lex_itoa l Hlen).
    rewrite (lex_after_int _ _ _ _ _ delim_close seg_close).
    rewrite !rev_involutive. reflexivity.
  - rewrite (lex_after_int _ _ _ _ _ delim_close seg_close). rewrite !rev_involutive. reflexivity.
Qed.

Lemma gram_json_tokens limit id data ext rlen :
  (forall l, limit = Some l -> 1 <= l) ->
  gram limit G_value [] 0 (json_tokens id data ext rlen) = true.
Proof.
  intros Hl. unfold json_tokens.
  assert (Hd : match limit with Some l => l <? 0 + 1 | None => false end = false).
  { destruct limit as [l|]; [|reflexivity]. specialize (Hl l eq_refl). apply Z.ltb_ge. lia. }
  destruct data, ext, rlen; cbn [app gram]; rewrite Hd; reflexivity.
Qed.

(** * Decoding the tokens *)
Lemma fk_id : field_of_key name_id = Some F_id. Proof. reflexivity. Qed.
Lemma fk_data : field_of_key name_data = Some F_data. Proof. reflexivity. Qed.
Lemma fk_length : field_of_key name_length = Some F_length. Proof. reflexivity. Qed.
Lemma fk_extended : field_of_key name_extended = Some F_extended. Proof. reflexivity. Qed.
Lemma fk_remote : field_of_key name_remote = Some F_remote. Proof. reflexivity. Qed.

Lemma uint_itoa bits n : 0 <= bits <= 64 -> 0 <= n < 2 ^ bits -> uint_of_literal bits (itoa n) = Some n.
Proof.
  intros Hb Hn. unfold uint_of_literal.
  assert (2 ^ bits <= 2 ^ 64) by (apply Z.pow_le_mono_r; lia).
  rewrite parse_uint_itoa by lia. destruct (Z.ltb_spec n (2 ^ bits)); [reflexivity|lia].
Qed.

Lemma unquote_plain h : Forall (fun c => c <> 92 /\ c < 128) h -> unquote h = h.
Proof.
  induction 1 as [|c h [H92 H128] _ IH]; [reflexivity|].
  cbn [unquote]. destruct (Z.eqb_spec c 92); [contradiction|].
  unfold ascii_or_marker. destruct (Z.ltb_spec c 128); [|lia]. rewrite IH. reflexivity.
Qed.

Definition jframe_of (id : Z) (data : option (list Z)) (ext : bool) (rlen : option Z) : jframe :=
  mkJ id data rlen (if ext then Some true else None) (match rlen with Some _ => Some true | None => None end).

Lemma decode_json_tokens id data ext rlen :
  0 <= id < 2 ^ 32 -> (forall h, data = Some h -> Forall (fun c => c <> 92 /\ c < 128) h) ->
  (forall l, rlen = Some l -> 0 <= l < 2 ^ 8) ->
  decode (json_tokens id data ext rlen) = Some (jframe_of id data ext rlen).
Proof.
  intros Hid Hdata Hlen. unfold json_tokens, jframe_of, decode.
  destruct data as [h|]; [specialize (Hdata h eq_refl)|clear Hdata];
  destruct ext; (destruct rlen as [l|]; [specialize (Hlen l eq_refl)|clear Hlen]);
  cbn [app dec_run]; rewrite fk_id; cbn [dec_run store]; rewrite (uint_itoa 32 id) by lia;
  cbn [dec_run store j_id j_data j_length j_extended j_remote];
  rewrite ?fk_data, ?fk_extended, ?fk_remote; cbn [dec_run store j_id j_data j_length j_extended j_remote];
  rewrite ?unquote_plain by assumption;
  rewrite ?fk_extended, ?fk_remote; cbn [dec_run store j_id j_data j_length j_extended j_remote];
  rewrite ?fk_remote, ?fk_length; cbn [dec_run store j_id j_data j_length j_extended j_remote];
  rewrite ?fk_length; cbn [dec_run store j_id j_data j_length j_extended j_remote];
  rewrite ?(uint_itoa 8 l) by lia; reflexivity.
Qed.

Lemma plain_of_hex_lower h : Forall is_hex_lower h -> Forall plain_char h /\ Forall (fun c => c <> 92 /\ c < 128) h.
Proof.
  intros H. split; eapply Forall_impl; try exact H; intros c Hc; unfold is_hex_lower, plain_char in *; lia.
Qed.

Theorem read_json_text id data ext rlen :
  0 <= id < 2 ^ 32 -> (forall h, data = Some h -> Forall is_hex_lower h) ->
  (forall l, rlen = Some l -> 0 <= l < 2 ^ 8) ->
  read_doc (json_text id data ext rlen) = Some (jframe_of id data ext rlen) /\
  json_valid (json_text id data ext rlen) = true.
Proof.
  intros Hid Hdata Hlen.
  assert (Hlex : lex (json_text id data ext rlen) = Some (json_tokens id data ext rlen)).
  { apply lex_json_text; [lia| |].
    - intros h Hh. apply plain_of_hex_lower, Hdata, Hh.
    - intros l Hl. specialize (Hlen l Hl). lia. }
  unfold read_doc, json_valid. rewrite Hlex. split.
  - rewrite gram_json_tokens by (intros l E; inversion E; unfold go_max_depth; lia).
    apply decode_json_tokens; [exact Hid| |exact Hlen].
    intros h Hh. apply plain_of_hex_lower, Hdata, Hh.
  - apply gram_json_tokens. discriminate.
Qed.

(** * Frames *)
Lemma data_member_hex f : frame_wf f -> forall h, data_member f = Some h -> Forall is_hex_lower h.
Proof.
  intros (_ & _ & Hd) h. unfold data_member.
  destruct (negb (f_remote f) && (0 <? f_len f)); [|discriminate].
  intros E. inversion E; subst. apply encode_shape. apply firstn_data_bytes. exact Hd.
Qed.

Definition frame_jframe (f : frame) : jframe :=
  mkJ (f_id f) (data_member f) (length_member f)
      (if f_ext f then Some true else None) (if f_remote f then Some true else None).

Lemma jframe_of_frame f : jframe_of (f_id f) (data_member f) (f_ext f) (length_member f) = frame_jframe f.
Proof. unfold jframe_of, frame_jframe, length_member. destruct (f_remote f); reflexivity. Qed.

(** reading the JSON form of a frame gives exactly the members the property prescribes *)
Theorem read_frame_json f :
  frame_wf f ->
  read_doc (frame_json_text f) = Some (frame_jframe f) /\ json_valid (frame_json_text f) = true.
Proof.
  intros Hwf. rewrite <- jframe_of_frame. unfold frame_json_text.
  destruct Hwf as (Hid & Hlen & Hd). apply read_json_text.
  - exact Hid.
  - apply data_member_hex. exact (conj Hid (conj Hlen Hd)).
  - intros l. unfold length_member. destruct (f_remote f); [|discriminate]. intros E; inversion E; subst.
    change (2 ^ 8) with 256. exact Hlen.
Qed.

(** post-decode logic on those members gives the frame back *)
Lemma of_jframe_frame f dst :
  frame_wf f -> canonical f -> of_jframe (frame_jframe f) dst = (Ok, f).
Proof.
  intros (Hid & Hlen & Hdata) (Hval & Hrem & Hdat).
  apply validate_spec in Hval. destruct Hval as [_ Hlenmax]. unfold max_data_length in Hlenmax.
  destruct f as [id len data rem ext]. cbn [f_id f_len f_data f_remote f_ext] in *.
  unfold of_jframe, frame_jframe, data_member, length_member.
  cbn [f_id f_len f_data f_remote f_ext j_id j_data j_length j_extended j_remote].
  destruct rem; cbn [negb andb].
  - assert (Hz : data = zero_data) by (apply all_zero_data; [exact Hdata|apply Hrem; reflexivity]).
    subst data. destruct ext; reflexivity.
  - destruct (Z.ltb_spec 0 len) as [Hpos|Hnp].
    + set (bs := firstn (Z.to_nat len) data).
      assert (Hbs : Forall (fun v => 0 <= v < 256) bs) by (apply firstn_data_bytes; exact Hdata).
      assert (Hbl : length bs = Z.to_nat len) by (apply firstn_data_length; [exact Hdata|lia]).
      assert (Ed : bs ++ repeat 0 (8 - length bs) = data)
        by (subst bs; apply firstn_pad_data; [exact Hdata|lia|apply Hdat; reflexivity]).
      rewrite (hex_decode_encode bs Hbs). rewrite copy_zero_data by lia. rewrite Ed.
      unfold zlen. rewrite Hbl, Z2Nat.id, Z.mod_small by lia.
      destruct ext; reflexivity.
    + assert (len = 0) by lia. subst len.
      assert (Hz : data = zero_data).
      { apply all_zero_data; [exact Hdata|]. intros i Hi. apply Hdat; [reflexivity|lia]. }
      subst data. destruct ext; reflexivity.
Qed.

Lemma json_text_ascii id data ext rlen :
  0 <= id -> (forall h, data = Some h -> Forall is_hex_lower h) -> (forall l, rlen = Some l -> 0 <= l) ->
  Forall (fun c => 32 <= c < 127) (json_text id data ext rlen).
Proof.
  intros Hid Hdata Hlen.
  assert (Hd : forall n, 0 <= n -> Forall (fun c => 32 <= c < 127) (itoa n)).
  { intros n Hn. eapply Forall_impl; [|apply itoa_digits, Hn]. intros; cbv beta in *; lia. }
  assert (Hc : forall l, forallb (fun c => (32 <=? c) && (c <? 127)) l = true -> Forall (fun c => 32 <= c < 127) l).
  { intros l H. rewrite forallb_forall in H. apply Forall_forall. intros c Hin. specialize (H c Hin).
    apply andb_true_iff in H. destruct H as [H1 H2]. apply Z.leb_le in H1. apply Z.ltb_lt in H2. lia. }
  unfold json_text.
  apply Forall_app; split; [apply Hc; reflexivity|].
  apply Forall_app; split; [apply Hd; exact Hid|].
  apply Forall_app; split.
  { destruct data as [h|]; [|constructor].
    apply Forall_app; split; [apply Hc; reflexivity|].
    apply Forall_app; split; [|apply Hc; reflexivity].
    eapply Forall_impl; [|apply (Hdata h eq_refl)]. intros c Hx; unfold is_hex_lower in Hx; lia. }
  apply Forall_app; split.
  { destruct ext; [apply Hc; reflexivity|constructor]. }
  apply Forall_app; split.
  { destruct rlen as [l|]; [|constructor].
    apply Forall_app; split; [apply Hc; reflexivity|].
    apply Forall_app; split; [apply Hc; reflexivity|].
    apply Hd. apply Hlen. reflexivity. }
  apply Hc; reflexivity.
Qed.

(** ** the C16 theorem: for valid frames with zero unused bytes *)
Theorem json_round_trip f :
  frame_wf f -> canonical f ->
  to_json f = S_ok (frame_json_text f) /\
  json_valid (frame_json_text f) = true /\
  Forall (fun c => 32 <= c < 127) (frame_json_text f) /\
  value 10 (map (fun c => c - 48) (itoa (f_id f))) = f_id f /\
  read_doc (frame_json_text f) = Some (frame_jframe f) /\
  forall dst, unmarshal_json (frame_json_text f) dst = (Ok, f).
Proof.
  intros Hwf Hc. pose proof Hwf as (Hid & Hlen & Hdata). pose proof Hc as (Hval & _).
  apply validate_spec in Hval. destruct Hval as [_ Hlenmax]. unfold max_data_length in Hlenmax.
  destruct (read_frame_json f Hwf) as [Hr Hv].
  split; [apply to_json_spec; right; lia|]. split; [exact Hv|]. split; [|split; [|split]].
  - apply json_text_ascii; [lia|apply data_member_hex, Hwf|].
    intros l. unfold length_member. destruct (f_remote f); [|discriminate]. intros E; inversion E; subst. lia.
  - apply itoa_value. lia.
  - exact Hr.
  - intros dst. unfold unmarshal_json, of_doc. rewrite Hr. apply of_jframe_frame; assumption.
Qed.

(** * Totality, and the remote-without-length rule *)
Theorem of_doc_total d dst : exists o f', of_doc d dst = (o, f') /\ (o = Ok \/ o = Error).
Proof.
  unfold of_doc. destruct d as [jf|]; [|exists Error, dst; auto].
  unfold of_jframe. destruct (j_data jf) as [s|].
  - destruct (hex_decode s); [|exists Error, dst; auto].
    match goal with |- context [if ?b then _ else _] => destruct b end.
    + destruct (j_length jf); eexists _, _; split; try reflexivity; auto.
    + eexists _, _; split; try reflexivity; auto.
  - match goal with |- context [if ?b then _ else _] => destruct b end.
    + destruct (j_length jf); eexists _, _; split; try reflexivity; auto.
    + eexists _, _; split; try reflexivity; auto.
Qed.

Corollary unmarshal_json_no_panic s dst : fst (unmarshal_json s dst) <> Panic.
Proof.
  unfold unmarshal_json. destruct (of_doc_total (read_doc s) dst) as (o & f' & -> & [-> | ->]); discriminate.
Qed.

(** json.Unmarshal failed: the destination is untouched *)
Lemma unmarshal_json_syntax_error s dst : read_doc s = None -> unmarshal_json s dst = (Error, dst).
Proof. intros H. unfold unmarshal_json. rewrite H. reflexivity. Qed.

Theorem remote_without_length_rejected jf dst :
  j_remote jf = Some true -> j_length jf = None -> fst (of_jframe jf dst) = Error.
Proof.
  intros Hr Hl. unfold of_jframe. rewrite Hr, Hl.
  destruct (j_data jf) as [s|]; [destruct (hex_decode s)|]; reflexivity.
Qed.

(** a remote frame is only ever produced from a document with a length member *)
Theorem remote_result_has_length jf dst f :
  of_jframe jf dst = (Ok, f) -> f_remote f = true -> exists l, j_length jf = Some l /\ f_len f = l.
Proof.
  unfold of_jframe.
  destruct (match j_data jf with
            | Some str => match hex_decode str with
                          | Some data => Some (set_len (set_data dst (copy_data zero_data data)) (zlen data mod 256))
                          | None => None end
            | None => Some (set_len (set_data dst zero_data) 0) end) as [f1|]; [|discriminate].
  cbv [set_remote set_id set_ext set_len f_remote f_len f_id f_data f_ext].
  destruct (match j_remote jf with Some b => b | None => false end) eqn:Er.
  - destruct (j_length jf) as [l|]; [|discriminate]. intros H _. inversion H; subst. exists l. split; reflexivity.
  - intros H Hf. inversion H; subst. cbn in Hf. discriminate.
Qed.

(** the member-wise text, with the presence rules written out *)
Lemma frame_json_text_unfold f :
  frame_json_text f =
  bytes "{""id"":" ++ itoa (f_id f)
  ++ (if negb (f_remote f) && (0 <? f_len f)
      then bytes ",""data"":""" ++ hex_encode (firstn (Z.to_nat (f_len f)) (f_data f)) ++ bytes """" else [])
  ++ (if f_ext f then bytes ",""extended"":true" else [])
  ++ (if f_remote f then bytes ",""remote"":true" ++ bytes ",""length"":" ++ itoa (f_len f) else [])
  ++ bytes "}".
Proof.
  unfold frame_json_text, json_text, data_member, length_member.
  destruct (negb (f_remote f) && (0 <? f_len f)), (f_remote f); reflexivity.
Qed.

Lemma frame_jframe_unfold f :
  frame_jframe f =
  mkJ (f_id f)
      (if negb (f_remote f) && (0 <? f_len f) then Some (hex_encode (firstn (Z.to_nat (f_len f)) (f_data f))) else None)
      (if f_remote f then Some (f_len f) else None)
      (if f_ext f then Some true else None)
      (if f_remote f then Some true else None).
Proof. reflexivity. Qed.
