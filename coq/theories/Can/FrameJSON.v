(** Executable model of the JSON form of a frame: /repo/frame_json.go
    ([Frame.JSON] = [to_json]; [Frame.UnmarshalJSON] = [unmarshal_json] = [of_doc] after [read_doc]).

    Strings / documents are [list Z] of bytes.

    - [to_json]     the six-way switch of JSON() (frame_json.go:26-49).  Data[:Length] panics for
                    Length > 8 in the two data branches; the model says so ([S_panic]).
    - [lex], [gram] a tokeniser and a pushdown recogniser for the JSON grammar of RFC 8259.
                    [json_valid] = lex + gram with no nesting limit.  Bytes >= 0x80 inside strings
                    are accepted without checking UTF-8 well-formedness (as Go's scanner and
                    json.Valid do; the theorem about [to_json] also states its output is ASCII).
    - [read_doc]    ORACLE model of  json.Unmarshal(doc, &jsonFrame{})  (encoding/json decode.go,
                    scanner.go; Go 1.23): syntax check of the whole document first (nesting limit
                    10000), then decoding of the top-level value into the five-member struct
                        ID uint32 `id`; Data *string `data`; Length *uint8 `length`;
                        Extended *bool `extended`; Remote *bool `remote`
                    with Go's rules: top-level null is a no-op; any other non-object is a type
                    error; members in any order, later duplicates overwrite earlier ones; keys match
                    exactly or ASCII-case-insensitively (no field name contains 's' or 'k', so the
                    two non-ASCII fold partners cannot occur); unknown keys are skipped; null
                    clears a pointer member and leaves ID alone; a value of the wrong JSON type, a
                    number that is not a plain run of digits, or one outside uint32 / uint8 is an
                    UnmarshalTypeError (decoding continues, the error is returned at the end).
                    [None] = json.Unmarshal returned an error.
                    String contents are modelled up to the identity of non-ASCII characters: each
                    byte >= 0x80 and each \u escape >= 0x80 becomes the marker [non_ascii] - enough
                    to decide key matching and hex decoding exactly (no field name and no hex digit
                    is non-ASCII).
    - [of_doc]      the post-decode logic of UnmarshalJSON (frame_json.go:67-102), mutating the
                    destination in place exactly in the order of the Go statements (so the partial
                    update left behind by the "missing length" error is modelled).

    DEFINITIONS ONLY (proofs: FrameJSONProofs.v). *)
From Coq Require Import ZArith List Bool.
From CanVerif Require Import Base.Dec Base.Hex Can.Data Can.Frame Can.FrameString.
Import ListNotations.
Open Scope Z_scope.

(** ** Text literals, as byte lists (the Coq [string] type is kept out of the model so that it
    is not extracted).  In the comments ' stands for the double quote character (34).
    FrameJSONProofs.literals_ok checks every list against the string it stands for. *)
Definition lit_open_id : list Z := [123; 34; 105; 100; 34; 58].                (* {'id': *)
Definition lit_ext_rem_len : list Z :=                                          (* ,'extended':true,'remote':true,'length': *)
  [44; 34; 101; 120; 116; 101; 110; 100; 101; 100; 34; 58; 116; 114; 117; 101;
   44; 34; 114; 101; 109; 111; 116; 101; 34; 58; 116; 114; 117; 101;
   44; 34; 108; 101; 110; 103; 116; 104; 34; 58].
Definition lit_rem_len : list Z :=                                              (* ,'remote':true,'length': *)
  [44; 34; 114; 101; 109; 111; 116; 101; 34; 58; 116; 114; 117; 101; 44; 34; 108; 101; 110; 103; 116; 104; 34; 58].
Definition lit_close : list Z := [125].                                         (* } *)
Definition lit_ext_close : list Z :=                                            (* ,'extended':true} *)
  [44; 34; 101; 120; 116; 101; 110; 100; 101; 100; 34; 58; 116; 114; 117; 101; 125].
Definition lit_data_open : list Z := [44; 34; 100; 97; 116; 97; 34; 58; 34].    (* ,'data':' *)
Definition lit_quote : list Z := [34].                                          (* ' *)
Definition lit_quote_close : list Z := [34; 125].                               (* '} *)
Definition lit_rue : list Z := [114; 117; 101].                                 (* rue  (of true)  *)
Definition lit_alse : list Z := [97; 108; 115; 101].                            (* alse (of false) *)
Definition lit_ull : list Z := [117; 108; 108].                                 (* ull  (of null)  *)
Definition name_id : list Z := [105; 100].                                      (* id *)
Definition name_data : list Z := [100; 97; 116; 97].                            (* data *)
Definition name_length : list Z := [108; 101; 110; 103; 116; 104].              (* length *)
Definition name_extended : list Z := [101; 120; 116; 101; 110; 100; 101; 100].  (* extended *)
Definition name_remote : list Z := [114; 101; 109; 111; 116; 101].              (* remote *)

(** * JSON(): frame_json.go:26-49 *)
Definition to_json (f : frame) : sres :=
  let id := itoa (f_id f) in                                    (* strconv.Itoa(int(f.ID)) *)
  if f_remote f && f_ext f then
    S_ok (lit_open_id ++ id ++ lit_ext_rem_len ++ itoa (f_len f) ++ lit_close)
  else if f_remote f then
    S_ok (lit_open_id ++ id ++ lit_rem_len ++ itoa (f_len f) ++ lit_close)
  else if f_ext f && (f_len f =? 0) then
    S_ok (lit_open_id ++ id ++ lit_ext_close)
  else if f_ext f then
    match slice_to (f_data f) (f_len f) with
    | None => S_panic                                           (* f.Data[:f.Length], Length > 8 *)
    | Some bs => S_ok (lit_open_id ++ id ++ lit_data_open ++ hex_encode bs ++ lit_quote ++ lit_ext_close)
    end
  else if f_len f =? 0 then
    S_ok (lit_open_id ++ id ++ lit_close)
  else
    match slice_to (f_data f) (f_len f) with
    | None => S_panic
    | Some bs => S_ok (lit_open_id ++ id ++ lit_data_open ++ hex_encode bs ++ lit_quote_close)
    end.

(** * Tokens *)
Inductive token :=
| TLBrace | TRBrace | TLBrack | TRBrack | TColon | TComma
| TStr (raw : list Z)      (* bytes between the quotes, escapes not yet decoded *)
| TNum (raw : list Z)      (* the number literal *)
| TTrue | TFalse | TNull.

(** ** number = [ minus ] int [ frac ] [ exp ]   (RFC 8259 section 6) *)
Inductive nstate := N_neg | N_zero | N_int | N_dot | N_frac | N_e | N_esign | N_exp.
Inductive nres := NR_cont (ns : nstate) | NR_end | NR_err.
Definition is_digit19 (c : Z) : bool := (49 <=? c) && (c <=? 57).
Definition is_e (c : Z) : bool := (c =? 101) || (c =? 69).
Definition num_step (ns : nstate) (c : Z) : nres :=
  match ns with
  | N_neg => if c =? 48 then NR_cont N_zero else if is_digit19 c then NR_cont N_int else NR_err
  | N_zero => if c =? 46 then NR_cont N_dot else if is_e c then NR_cont N_e else NR_end
  | N_int => if is_digit c then NR_cont N_int
             else if c =? 46 then NR_cont N_dot else if is_e c then NR_cont N_e else NR_end
  | N_dot => if is_digit c then NR_cont N_frac else NR_err
  | N_frac => if is_digit c then NR_cont N_frac else if is_e c then NR_cont N_e else NR_end
  | N_e => if (c =? 43) || (c =? 45) then NR_cont N_esign
           else if is_digit c then NR_cont N_exp else NR_err
  | N_esign => if is_digit c then NR_cont N_exp else NR_err
  | N_exp => if is_digit c then NR_cont N_exp else NR_end
  end.
Definition num_accepting (ns : nstate) : bool :=
  match ns with N_zero | N_int | N_frac | N_exp => true | _ => false end.

(** ** tokeniser: a deterministic automaton over the bytes (accumulators are reversed) *)
Inductive lstate :=
| L_top                                   (* between tokens *)
| L_str (acc : list Z)                    (* inside a string *)
| L_esc (acc : list Z)                    (* after a backslash *)
| L_u (k : nat) (acc : list Z)            (* k hex digits of a \u escape still to come *)
| L_num (ns : nstate) (acc : list Z)      (* inside a number *)
| L_lit (rest : list Z) (t : token).      (* inside true / false / null *)

(** ws = space / tab / line feed / carriage return *)
Definition is_ws (c : Z) : bool := (c =? 32) || (c =? 9) || (c =? 10) || (c =? 13).
(** the characters that may follow a backslash, besides u: quote, backslash, slash, b f n r t *)
Definition is_simple_esc (c : Z) : bool :=
  (c =? 34) || (c =? 92) || (c =? 47) || (c =? 98) || (c =? 102) || (c =? 110) || (c =? 114) || (c =? 116).

Definition lex_top (c : Z) : option (lstate * list token) :=
  if is_ws c then Some (L_top, [])
  else if c =? 123 then Some (L_top, [TLBrace])
  else if c =? 125 then Some (L_top, [TRBrace])
  else if c =? 91 then Some (L_top, [TLBrack])
  else if c =? 93 then Some (L_top, [TRBrack])
  else if c =? 58 then Some (L_top, [TColon])
  else if c =? 44 then Some (L_top, [TComma])
  else if c =? 34 then Some (L_str [], [])
  else if c =? 45 then Some (L_num N_neg [c], [])
  else if c =? 48 then Some (L_num N_zero [c], [])
  else if is_digit19 c then Some (L_num N_int [c], [])
  else if c =? 116 then Some (L_lit lit_rue TTrue, [])
  else if c =? 102 then Some (L_lit lit_alse TFalse, [])
  else if c =? 110 then Some (L_lit lit_ull TNull, [])
  else None.

Definition lex_step (st : lstate) (c : Z) : option (lstate * list token) :=
  match st with
  | L_top => lex_top c
  | L_str acc =>
    if c =? 34 then Some (L_top, [TStr (rev acc)])
    else if c =? 92 then Some (L_esc (c :: acc), [])
    else if c <? 32 then None                          (* control characters must be escaped *)
    else Some (L_str (c :: acc), [])
  | L_esc acc =>
    if is_simple_esc c then Some (L_str (c :: acc), [])
    else if c =? 117 then Some (L_u 4 (c :: acc), [])
    else None
  | L_u k acc =>
    if is_hexb c then
      match k with
      | S (S k') => Some (L_u (S k') (c :: acc), [])
      | _ => Some (L_str (c :: acc), [])
      end
    else None
  | L_num ns acc =>
    match num_step ns c with
    | NR_cont ns' => Some (L_num ns' (c :: acc), [])
    | NR_err => None
    | NR_end =>                                        (* c is not part of the number *)
      match lex_top c with
      | Some (st', out) => Some (st', TNum (rev acc) :: out)
      | None => None
      end
    end
  | L_lit rest t =>
    match rest with
    | [] => None
    | e :: rest' =>
      if c =? e then
        match rest' with [] => Some (L_top, [t]) | _ => Some (L_lit rest' t, []) end
      else None
    end
  end.

Definition lex_end (st : lstate) : option (list token) :=
  match st with
  | L_top => Some []
  | L_num ns acc => if num_accepting ns then Some [TNum (rev acc)] else None
  | _ => None
  end.

Fixpoint lex_run (st : lstate) (s : list Z) : option (list token) :=
  match s with
  | [] => lex_end st
  | c :: r =>
    match lex_step st c with
    | None => None
    | Some (st', out) =>
      match lex_run st' r with Some ts => Some (out ++ ts) | None => None end
    end
  end.

Definition lex (s : list Z) : option (list token) := lex_run L_top s.

(** * Grammar: JSON-text = ws value ws; value = false / null / true / object / array / number /
    string; object = { [ member *( , member ) ] }; member = string : value;
    array = [ [ value *( , value ) ] ]      (RFC 8259 sections 2-5), as a pushdown recogniser *)
Inductive ctx := C_arr | C_obj.
Inductive gstate :=
| G_value            (* a value must follow *)
| G_value_or_close   (* just after '[' *)
| G_key_or_close     (* just after '{' *)
| G_key              (* after ',' inside an object *)
| G_colon            (* after a member name *)
| G_after.           (* after a complete value *)

(** [limit]: maximal nesting depth (Go's scanner: 10000), [None] = unlimited *)
Fixpoint gram (limit : option Z) (st : gstate) (stack : list ctx) (depth : Z) (ts : list token) : bool :=
  match ts with
  | [] => match st, stack with G_after, [] => true | _, _ => false end
  | t :: r =>
    let too_deep := match limit with Some l => l <? depth + 1 | None => false end in
    match st with
    | G_value | G_value_or_close =>
      match t with
      | TStr _ | TNum _ | TTrue | TFalse | TNull => gram limit G_after stack depth r
      | TLBrack => if too_deep then false else gram limit G_value_or_close (C_arr :: stack) (depth + 1) r
      | TLBrace => if too_deep then false else gram limit G_key_or_close (C_obj :: stack) (depth + 1) r
      | TRBrack =>
        match st, stack with
        | G_value_or_close, C_arr :: stack' => gram limit G_after stack' (depth - 1) r
        | _, _ => false
        end
      | _ => false
      end
    | G_key_or_close | G_key =>
      match t with
      | TStr _ => gram limit G_colon stack depth r
      | TRBrace =>
        match st, stack with
        | G_key_or_close, C_obj :: stack' => gram limit G_after stack' (depth - 1) r
        | _, _ => false
        end
      | _ => false
      end
    | G_colon => match t with TColon => gram limit G_value stack depth r | _ => false end
    | G_after =>
      match stack, t with
      | C_arr :: _, TComma => gram limit G_value stack depth r
      | C_arr :: stack', TRBrack => gram limit G_after stack' (depth - 1) r
      | C_obj :: _, TComma => gram limit G_key stack depth r
      | C_obj :: stack', TRBrace => gram limit G_after stack' (depth - 1) r
      | _, _ => false
      end
    end
  end.

(** RFC 8259 recogniser *)
Definition json_valid (s : list Z) : bool :=
  match lex s with Some ts => gram None G_value [] 0 ts | None => false end.

(** * encoding/json: decoding a syntactically valid token list into jsonFrame *)
Definition go_max_depth : Z := 10000.

Record jframe := mkJ {
  j_id : Z;
  j_data : option (list Z);
  j_length : option Z;
  j_extended : option bool;
  j_remote : option bool
}.
(** jf := jsonFrame{} *)
Definition jframe0 : jframe := mkJ 0 None None None None.

Inductive field := F_id | F_data | F_length | F_extended | F_remote.

(** marker standing for any non-ASCII character of a decoded string *)
Definition non_ascii : Z := 65533.
Definition ascii_or_marker (c : Z) : Z := if c <? 128 then c else non_ascii.

Definition esc_byte (e : Z) : Z :=
  if e =? 98 then 8 else if e =? 102 then 12 else if e =? 110 then 10
  else if e =? 114 then 13 else if e =? 116 then 9 else e.

(** unquoteBytes on the raw content of a lexed string (every backslash is followed by a valid
    escape, \u by four hex digits) *)
Fixpoint unquote (s : list Z) : list Z :=
  match s with
  | [] => []
  | c :: r =>
    if c =? 92 then
      match r with
      | [] => []
      | e :: r1 =>
        if e =? 117 then
          match r1 with
          | h1 :: h2 :: h3 :: h4 :: r2 =>
            ascii_or_marker (hex_value [h1; h2; h3; h4]) :: unquote r2
          | _ => []
          end
        else esc_byte e :: unquote r1
      end
    else ascii_or_marker c :: unquote r
  end.

Fixpoint list_eqb (a b : list Z) : bool :=
  match a, b with
  | [], [] => true
  | x :: a', y :: b' => (x =? y) && list_eqb a' b'
  | _, _ => false
  end.

Definition ascii_lower_byte (c : Z) : Z := if (65 <=? c) && (c <=? 90) then c + 32 else c.

(** field lookup: byExactName, then byFoldedName *)
Definition field_of_key (raw : list Z) : option field :=
  let k := map ascii_lower_byte (unquote raw) in
  if list_eqb k name_id then Some F_id
  else if list_eqb k name_data then Some F_data
  else if list_eqb k name_length then Some F_length
  else if list_eqb k name_extended then Some F_extended
  else if list_eqb k name_remote then Some F_remote
  else None.

(** number literal into an unsigned field of [bits] bits: ParseUint(lit, 10, 64), then OverflowUint *)
Definition uint_of_literal (bits : Z) (raw : list Z) : option Z :=
  match parse_uint raw 10 64 with
  | PU_ok n => if n <? 2 ^ bits then Some n else None
  | _ => None
  end.

(** literalStore of a scalar token into a member; [None] = UnmarshalTypeError *)
Definition store (fld : field) (t : token) (jf : jframe) : option jframe :=
  match fld, t with
  | F_id, TNull => Some jf
  | F_id, TNum raw =>
    match uint_of_literal 32 raw with
    | Some n => Some (mkJ n (j_data jf) (j_length jf) (j_extended jf) (j_remote jf))
    | None => None
    end
  | F_data, TNull => Some (mkJ (j_id jf) None (j_length jf) (j_extended jf) (j_remote jf))
  | F_data, TStr raw => Some (mkJ (j_id jf) (Some (unquote raw)) (j_length jf) (j_extended jf) (j_remote jf))
  | F_length, TNull => Some (mkJ (j_id jf) (j_data jf) None (j_extended jf) (j_remote jf))
  | F_length, TNum raw =>
    match uint_of_literal 8 raw with
    | Some n => Some (mkJ (j_id jf) (j_data jf) (Some n) (j_extended jf) (j_remote jf))
    | None => None
    end
  | F_extended, TNull => Some (mkJ (j_id jf) (j_data jf) (j_length jf) None (j_remote jf))
  | F_extended, TTrue => Some (mkJ (j_id jf) (j_data jf) (j_length jf) (Some true) (j_remote jf))
  | F_extended, TFalse => Some (mkJ (j_id jf) (j_data jf) (j_length jf) (Some false) (j_remote jf))
  | F_remote, TNull => Some (mkJ (j_id jf) (j_data jf) (j_length jf) (j_extended jf) None)
  | F_remote, TTrue => Some (mkJ (j_id jf) (j_data jf) (j_length jf) (j_extended jf) (Some true))
  | F_remote, TFalse => Some (mkJ (j_id jf) (j_data jf) (j_length jf) (j_extended jf) (Some false))
  | _, _ => None
  end.

(** one pass over the tokens of the top-level object (after its '{') *)
Inductive dstate :=
| D_key                          (* a member name or '}' follows *)
| D_colon (fld : option field)   (* the ':' follows *)
| D_val (fld : option field)     (* the member's value follows *)
| D_skip (depth : nat)           (* inside an array / object value: skipped *)
| D_after                        (* ',' or '}' follows *)
| D_done.

Fixpoint dec_run (st : dstate) (jf : jframe) (err : bool) (ts : list token) : jframe * bool :=
  match ts with
  | [] => (jf, err)
  | t :: r =>
    match st with
    | D_key =>
      match t with
      | TStr raw => dec_run (D_colon (field_of_key raw)) jf err r
      | _ => dec_run D_done jf err r
      end
    | D_colon fld => dec_run (D_val fld) jf err r
    | D_val fld =>
      match t with
      | TLBrace | TLBrack =>
        (* array / object into a scalar member: UnmarshalTypeError, value skipped *)
        dec_run (D_skip 1) jf (err || match fld with Some _ => true | None => false end) r
      | _ =>
        match fld with
        | None => dec_run D_after jf err r
        | Some fl =>
          match store fl t jf with
          | Some jf' => dec_run D_after jf' err r
          | None => dec_run D_after jf true r
          end
        end
      end
    | D_skip d =>
      match t with
      | TLBrace | TLBrack => dec_run (D_skip (S d)) jf err r
      | TRBrace | TRBrack =>
        match d with
        | S (S d') => dec_run (D_skip (S d')) jf err r
        | _ => dec_run D_after jf err r
        end
      | _ => dec_run (D_skip d) jf err r
      end
    | D_after =>
      match t with
      | TComma => dec_run D_key jf err r
      | _ => dec_run D_done jf err r
      end
    | D_done => (jf, err)
    end
  end.

(** d.value on the top-level value with target struct jsonFrame *)
Definition decode (ts : list token) : option jframe :=
  match ts with
  | [TNull] => Some jframe0
  | TLBrace :: r => let '(jf, err) := dec_run D_key jframe0 false r in if err then None else Some jf
  | _ => None
  end.

(** json.Valid / checkValid: RFC 8259 with Go's nesting limit *)
Definition go_valid (s : list Z) : bool :=
  match lex s with Some ts => gram (Some go_max_depth) G_value [] 0 ts | None => false end.

(** json.Unmarshal(doc, &jf): [None] = error *)
Definition read_doc (s : list Z) : option jframe :=
  match lex s with
  | None => None
  | Some ts => if gram (Some go_max_depth) G_value [] 0 ts then decode ts else None
  end.

(** * UnmarshalJSON after json.Unmarshal: frame_json.go:67-102 *)
Definition of_jframe (jf : jframe) (dst : frame) : outcome * frame :=
  let after_data : option frame :=
    match j_data jf with
    | Some str =>
      match hex_decode str with
      | None => None                                             (* failed to hex-decode *)
      | Some data =>
        (* f.Data = Data{}; copy(f.Data[:], data); f.Length = uint8(len(data)) *)
        Some (set_len (set_data dst (copy_data zero_data data)) (zlen data mod 256))
      end
    | None => Some (set_len (set_data dst zero_data) 0)
    end in
  match after_data with
  | None => (Error, dst)
  | Some f1 =>
    let f2 := set_id f1 (j_id jf) in
    let f3 := set_remote f2 (match j_remote jf with Some b => b | None => false end) in
    let ext := match j_extended jf with Some b => b | None => false end in
    if f_remote f3 then
      match j_length jf with
      | None => (Error, f3)                                      (* missing length field *)
      | Some l => (Ok, set_ext (set_len f3 l) ext)
      end
    else (Ok, set_ext f3 ext)
  end.

Definition of_doc (d : option jframe) (dst : frame) : outcome * frame :=
  match d with
  | None => (Error, dst)                                         (* json.Unmarshal failed: f untouched *)
  | Some jf => of_jframe jf dst
  end.

Definition unmarshal_json (s : list Z) (dst : frame) : outcome * frame := of_doc (read_doc s) dst.
