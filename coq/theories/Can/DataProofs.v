(** Proofs that the pack/shift/mask algorithms of data.go implement the documented
    bit numbering (C01 reads, C02 writes). Bit-extensionality over [Z.testbit];
    no bound on payloads, values or geometries other than the ones in the statements. *)
From Coq Require Import ZArith List Bool Lia.
From CanVerif Require Import Base.Bits Can.Data Can.DataSpec Can.CheckProofs.
Import ListNotations.
Open Scope Z_scope.

Ltac Zify.zify_post_hook ::= Z.div_mod_to_equations.

(** * Payload structure *)
Lemma valid_data_inv d :
  valid_data d ->
  exists b0 b1 b2 b3 b4 b5 b6 b7,
    d = [b0; b1; b2; b3; b4; b5; b6; b7] /\
    0 <= b0 < 256 /\ 0 <= b1 < 256 /\ 0 <= b2 < 256 /\ 0 <= b3 < 256 /\
    0 <= b4 < 256 /\ 0 <= b5 < 256 /\ 0 <= b6 < 256 /\ 0 <= b7 < 256.
Proof.
  intros [Hlen Hall].
  do 8 (destruct d as [|? d]; [discriminate Hlen|]). destruct d; [|discriminate Hlen].
  repeat match goal with H : Forall _ (_ :: _) |- _ => inversion H; clear H; subst end.
  do 8 eexists. split; [reflexivity|]. repeat split; lia.
Qed.

Lemma valid_datab_spec d : valid_datab d = true <-> valid_data d.
Proof.
  unfold valid_datab, valid_data. rewrite andb_true_iff, Nat.eqb_eq, forallb_forall, Forall_forall.
  split; intros [H1 H2]; split; auto; intros x Hx; specialize (H2 x Hx); lia.
Qed.

Lemma byte_at_lit b0 b1 b2 b3 b4 b5 b6 b7 :
  let d := [b0; b1; b2; b3; b4; b5; b6; b7] in
  byte_at d 0 = b0 /\ byte_at d 1 = b1 /\ byte_at d 2 = b2 /\ byte_at d 3 = b3 /\
  byte_at d 4 = b4 /\ byte_at d 5 = b5 /\ byte_at d 6 = b6 /\ byte_at d 7 = b7.
Proof. cbv. repeat split. Qed.

Ltac byte_at_lits :=
  match goal with
  | |- context [byte_at [?b0; ?b1; ?b2; ?b3; ?b4; ?b5; ?b6; ?b7] _] =>
    let H := fresh in
    pose proof (byte_at_lit b0 b1 b2 b3 b4 b5 b6 b7) as H; cbv zeta in H;
    destruct H as (?E0&?E1&?E2&?E3&?E4&?E5&?E6&?E7);
    rewrite ?E0, ?E1, ?E2, ?E3, ?E4, ?E5, ?E6, ?E7
  end.

Lemma oct_cases k : 0 <= k < 64 ->
  k / 8 = 0 \/ k / 8 = 1 \/ k / 8 = 2 \/ k / 8 = 3 \/ k / 8 = 4 \/ k / 8 = 5 \/ k / 8 = 6 \/ k / 8 = 7.
Proof. lia. Qed.

Lemma tb_shl_byte b n k i :
  n = 8 * i -> 0 <= i <= 7 -> 0 <= b < 256 -> 0 <= k < 64 ->
  Z.testbit (shl64 b n) k = (k / 8 =? i) && Z.testbit b (k mod 8).
Proof.
  intros -> Hi Hb Hk. unfold shl64.
  replace (8 * i <? 64) with true by (symmetry; apply Z.ltb_lt; lia).
  rewrite mod_pow2_bits by lia. replace (k <? 64) with true by (symmetry; apply Z.ltb_lt; lia).
  rewrite Z.shiftl_spec by lia. cbn [andb].
  destruct (Z.eqb_spec (k / 8) i) as [E|E].
  - cbn [andb]. f_equal. lia.
  - cbn [andb]. destruct (Z_lt_le_dec (k - 8 * i) 0).
    + apply Z.testbit_neg_r. lia.
    + apply byte_bits_high; lia.
Qed.

(** ** pack *)
Lemma pack_le_bits d k : valid_data d -> 0 <= k < 64 -> Z.testbit (pack_le d) k = pbit d k.
Proof.
  intros Hd Hk. destruct (valid_data_inv d Hd) as (b0&b1&b2&b3&b4&b5&b6&b7&->&?&?&?&?&?&?&?&?).
  unfold pack_le, pbit. rewrite !Z.lor_spec. byte_at_lits.
  rewrite (tb_shl_byte b0 0 k 0), (tb_shl_byte b1 8 k 1), (tb_shl_byte b2 16 k 2),
    (tb_shl_byte b3 24 k 3), (tb_shl_byte b4 32 k 4), (tb_shl_byte b5 40 k 5),
    (tb_shl_byte b6 48 k 6), (tb_shl_byte b7 56 k 7) by lia.
  destruct (oct_cases k Hk) as [E|[E|[E|[E|[E|[E|[E|E]]]]]]]; rewrite E;
    rewrite ?E0, ?E1, ?E2, ?E3, ?E4, ?E5, ?E6, ?E7; cbn;
    rewrite ?orb_false_r; reflexivity.
Qed.

Lemma pack_be_bits d p : valid_data d -> 0 <= p < 64 -> Z.testbit (pack_be d) p = pbit d (stream (63 - p)).
Proof.
  intros Hd Hk. destruct (valid_data_inv d Hd) as (b0&b1&b2&b3&b4&b5&b6&b7&->&?&?&?&?&?&?&?&?).
  assert (Hq : stream (63 - p) / 8 = 7 - p / 8) by (unfold stream; lia).
  assert (Hr : stream (63 - p) mod 8 = p mod 8) by (unfold stream; lia).
  unfold pack_be, pbit. rewrite Hq, Hr. rewrite !Z.lor_spec. byte_at_lits.
  rewrite (tb_shl_byte b0 56 p 7), (tb_shl_byte b1 48 p 6), (tb_shl_byte b2 40 p 5),
    (tb_shl_byte b3 32 p 4), (tb_shl_byte b4 24 p 3), (tb_shl_byte b5 16 p 2),
    (tb_shl_byte b6 8 p 1), (tb_shl_byte b7 0 p 0) by lia.
  destruct (oct_cases p Hk) as [E|[E|[E|[E|[E|[E|[E|E]]]]]]]; rewrite E;
    cbn [Z.sub Z.opp Z.add Z.pos_sub Pos.pred_double Z.succ_double Z.pred_double Z.double];
    rewrite ?E0, ?E1, ?E2, ?E3, ?E4, ?E5, ?E6, ?E7; cbn;
    rewrite ?orb_false_r; reflexivity.
Qed.

Lemma lor_range a b n : 0 <= n -> 0 <= a < 2 ^ n -> 0 <= b < 2 ^ n -> 0 <= Z.lor a b < 2 ^ n.
Proof.
  intros Hn Ha Hb. assert (H0 : 0 <= Z.lor a b) by (apply Z.lor_nonneg; lia).
  split; [exact H0|]. apply bounded_of_bits; [lia|exact H0|].
  intros m Hm. rewrite Z.lor_spec, (testbit_small a n m), (testbit_small b n m) by lia. reflexivity.
Qed.

Lemma shl64_range x n : 0 <= shl64 x n < 2 ^ 64.
Proof. unfold shl64. destruct (n <? 64); [apply Z.mod_pos_bound|]; lia. Qed.

Lemma pack_le_range d : 0 <= pack_le d < 2 ^ 64.
Proof. unfold pack_le. repeat apply lor_range; try lia; apply shl64_range. Qed.
Lemma pack_be_range d : 0 <= pack_be d < 2 ^ 64.
Proof. unfold pack_be. repeat apply lor_range; try lia; apply shl64_range. Qed.

(** ** unpack *)
Lemma unpack_le_valid p : valid_data (unpack_le p).
Proof.
  split; [reflexivity|]. unfold unpack_le. apply Forall_forall. intros x Hx.
  apply in_map_iff in Hx. destruct Hx as (i & <- & _). unfold u8. lia.
Qed.
Lemma unpack_be_valid p : valid_data (unpack_be p).
Proof.
  split; [reflexivity|]. unfold unpack_be. apply Forall_forall. intros x Hx.
  apply in_map_iff in Hx. destruct Hx as (i & <- & _). unfold u8. lia.
Qed.

Lemma tb_unpack_byte p n k i :
  n = 8 * i -> 0 <= i <= 7 -> k / 8 = i -> 0 <= k < 64 ->
  Z.testbit (u8 (shr64 p n)) (k mod 8) = Z.testbit p k.
Proof.
  intros -> Hi E Hk. unfold u8, shr64.
  replace (8 * i <? 64) with true by (symmetry; apply Z.ltb_lt; lia).
  change 256 with (2 ^ 8). rewrite mod_pow2_bits by lia.
  replace (k mod 8 <? 8) with true by (symmetry; apply Z.ltb_lt; lia). cbn [andb].
  rewrite Z.shiftr_spec by lia. f_equal. lia.
Qed.

Lemma byte_at_map8 (f : Z -> Z) i :
  0 <= i <= 7 -> byte_at (map f [0; 1; 2; 3; 4; 5; 6; 7]) i = f i.
Proof.
  intros Hi.
  assert (C : i = 0 \/ i = 1 \/ i = 2 \/ i = 3 \/ i = 4 \/ i = 5 \/ i = 6 \/ i = 7) by lia.
  destruct C as [->|[->|[->|[->|[->|[->|[->| ->]]]]]]]; reflexivity.
Qed.

Lemma unpack_le_bits p k : 0 <= k < 64 -> pbit (unpack_le p) k = Z.testbit p k.
Proof.
  intros Hk. unfold pbit, unpack_le. rewrite byte_at_map8 by lia.
  apply (tb_unpack_byte p _ k (k / 8)); lia.
Qed.

Lemma unpack_be_bits p k : 0 <= k < 64 -> pbit (unpack_be p) k = Z.testbit p (63 - stream k).
Proof.
  intros Hk. unfold pbit, unpack_be. rewrite byte_at_map8 by lia.
  assert (Hq : (63 - stream k) / 8 = 7 - k / 8) by (unfold stream; lia).
  assert (Hr : (63 - stream k) mod 8 = k mod 8) by (unfold stream; lia).
  assert (Hb : 0 <= 63 - stream k < 64) by (unfold stream; lia).
  rewrite <- Hr.
  apply (tb_unpack_byte p _ (63 - stream k) (7 - k / 8)); lia.
Qed.

(** two valid payloads with the same 64 bits are equal *)
Lemma byte_ext a b : 0 <= a < 256 -> 0 <= b < 256 ->
  (forall j, 0 <= j < 8 -> Z.testbit a j = Z.testbit b j) -> a = b.
Proof.
  intros Ha Hb H. apply Z.bits_inj'. intros n Hn.
  destruct (Z_lt_le_dec n 8); [apply H; lia|].
  rewrite !byte_bits_high by lia. reflexivity.
Qed.

Lemma data_ext d1 d2 :
  valid_data d1 -> valid_data d2 -> (forall k, 0 <= k < 64 -> pbit d1 k = pbit d2 k) -> d1 = d2.
Proof.
  intros H1 H2 H.
  destruct (valid_data_inv d1 H1) as (a0&a1&a2&a3&a4&a5&a6&a7&->&?&?&?&?&?&?&?&?).
  destruct (valid_data_inv d2 H2) as (b0&b1&b2&b3&b4&b5&b6&b7&->&?&?&?&?&?&?&?&?).
  assert (G : forall i, 0 <= i <= 7 ->
     byte_at [a0; a1; a2; a3; a4; a5; a6; a7] i = byte_at [b0; b1; b2; b3; b4; b5; b6; b7] i).
  { intros i Hi. apply byte_ext.
    - assert (C : i = 0 \/ i = 1 \/ i = 2 \/ i = 3 \/ i = 4 \/ i = 5 \/ i = 6 \/ i = 7) by lia.
      destruct C as [->|[->|[->|[->|[->|[->|[->| ->]]]]]]]; cbn; assumption.
    - assert (C : i = 0 \/ i = 1 \/ i = 2 \/ i = 3 \/ i = 4 \/ i = 5 \/ i = 6 \/ i = 7) by lia.
      destruct C as [->|[->|[->|[->|[->|[->|[->| ->]]]]]]]; cbn; assumption.
    - intros j Hj. specialize (H (8 * i + j) ltac:(lia)). unfold pbit in H.
      replace ((8 * i + j) / 8) with i in H by lia. replace ((8 * i + j) mod 8) with j in H by lia.
      exact H. }
  pose proof (G 0 ltac:(lia)) as G0. pose proof (G 1 ltac:(lia)) as G1.
  pose proof (G 2 ltac:(lia)) as G2. pose proof (G 3 ltac:(lia)) as G3.
  pose proof (G 4 ltac:(lia)) as G4. pose proof (G 5 ltac:(lia)) as G5.
  pose proof (G 6 ltac:(lia)) as G6. pose proof (G 7 ltac:(lia)) as G7.
  cbv in G0, G1, G2, G3, G4, G5, G6, G7. congruence.
Qed.

(** * Readers (C01) *)
Lemma mask64_ones l : 1 <= l <= 64 -> mask64 l = Z.ones l.
Proof.
  intros Hl. unfold mask64, sub64, shl64. rewrite Z.ones_equiv.
  destruct (l <? 64) eqn:E.
  - apply Z.ltb_lt in E. rewrite Z.shiftl_1_l.
    assert (0 < 2 ^ l < 2 ^ 64) by (split; [apply Z.pow_pos_nonneg|apply Z.pow_lt_mono_r]; lia).
    rewrite (Z.mod_small (2 ^ l)) by lia. rewrite Z.mod_small by lia. lia.
  - apply Z.ltb_ge in E. assert (l = 64) by lia. subst. reflexivity.
Qed.

Theorem ubits_le_bits d s l i :
  valid_data d -> 0 <= s -> 1 <= l <= 64 -> s + l <= 64 -> 0 <= i ->
  Z.testbit (ubits_le d s l) i = (i <? l) && pbit d (le_pos s i).
Proof.
  intros Hd Hs Hl Hfit Hi. unfold ubits_le, le_pos.
  rewrite mask64_ones, Z.land_ones, mod_pow2_bits by lia.
  destruct (i <? l) eqn:E; [|reflexivity]. apply Z.ltb_lt in E. cbn [andb].
  unfold shr64. replace (s <? 64) with true by (symmetry; apply Z.ltb_lt; lia).
  rewrite Z.shiftr_spec by lia. rewrite pack_le_bits by (assumption || lia). f_equal. lia.
Qed.

Lemma ubits_le_range d s l : 1 <= l <= 64 -> 0 <= ubits_le d s l < 2 ^ l.
Proof.
  intros Hl. unfold ubits_le. rewrite mask64_ones, Z.land_ones by lia.
  apply Z.mod_pos_bound. apply Z.pow_pos_nonneg; lia.
Qed.

Lemma be_lsb s l :
  0 <= s < 64 -> 1 <= l -> stream s + l <= 64 ->
  u8 (u8 (invert_endian s - l) + 1) = 64 - stream s - l.
Proof.
  intros Hs Hl Hfit. rewrite invert_endian_small by lia.
  assert (0 <= stream s < 64) by (unfold stream; lia). unfold u8. lia.
Qed.

Theorem ubits_be_bits d s l i :
  valid_data d -> 0 <= s < 64 -> 1 <= l <= 64 -> stream s + l <= 64 -> 0 <= i ->
  Z.testbit (ubits_be d s l) i = (i <? l) && pbit d (be_bitpos s l i).
Proof.
  intros Hd Hs Hl Hfit Hi. unfold ubits_be, be_bitpos. cbv zeta.
  rewrite be_lsb by lia.
  rewrite mask64_ones, Z.land_ones, mod_pow2_bits by lia.
  destruct (i <? l) eqn:E; [|reflexivity]. apply Z.ltb_lt in E. cbn [andb].
  assert (Hst : 0 <= stream s < 64) by (unfold stream; lia).
  unfold shr64. replace (64 - stream s - l <? 64) with true by (symmetry; apply Z.ltb_lt; lia).
  rewrite Z.shiftr_spec by lia. rewrite pack_be_bits by (assumption || lia).
  rewrite be_pos_closed by lia. f_equal. f_equal. lia.
Qed.

Lemma ubits_be_range d s l : 1 <= l <= 64 -> 0 <= ubits_be d s l < 2 ^ l.
Proof.
  intros Hl. unfold ubits_be. cbv zeta. rewrite mask64_ones, Z.land_ones by lia.
  apply Z.mod_pos_bound. apply Z.pow_pos_nonneg; lia.
Qed.

(** sign extension *)
Lemma sext_alt l u : 1 <= l -> 0 <= u < 2 ^ l -> sext l u = if u <? 2 ^ (l - 1) then u else u - 2 ^ l.
Proof.
  intros Hl Hu. unfold sext. rewrite testbit_top by lia.
  destruct (Z.leb_spec (2 ^ (l - 1)) u), (Z.ltb_spec u (2 ^ (l - 1))); try reflexivity; lia.
Qed.

Lemma pow2_split l : 1 <= l -> 2 ^ l = 2 * 2 ^ (l - 1).
Proof. intros. replace l with (Z.succ (l - 1)) at 1 by lia. rewrite Z.pow_succ_r by lia. reflexivity. Qed.

Theorem as_signed_sext u l : 1 <= l <= 64 -> 0 <= u < 2 ^ l -> as_signed u l = sext l u.
Proof.
  intros Hl Hu. rewrite sext_alt by lia. unfold as_signed.
  destruct (l =? 8) eqn:E8; [apply Z.eqb_eq in E8; subst; rewrite Z.mod_small by lia; reflexivity|].
  destruct (l =? 16) eqn:E16; [apply Z.eqb_eq in E16; subst; rewrite Z.mod_small by lia; reflexivity|].
  destruct (l =? 32) eqn:E32; [apply Z.eqb_eq in E32; subst; rewrite Z.mod_small by lia; reflexivity|].
  destruct (l =? 64) eqn:E64; [apply Z.eqb_eq in E64; subst; reflexivity|].
  apply Z.eqb_neq in E64.
  assert (Hl1 : 0 <= l - 1 < 63) by lia.
  assert (Hp : 0 < 2 ^ (l - 1)) by (apply Z.pow_pos_nonneg; lia).
  assert (Hp63 : 2 ^ (l - 1) <= 2 ^ 62) by (apply Z.pow_le_mono_r; lia).
  pose proof (pow2_split l ltac:(lia)) as Hsplit.
  assert (Hu8 : u8 (l - 1) = l - 1) by (unfold u8; lia). rewrite Hu8.
  assert (Hsbm : shl64 1 (l - 1) = 2 ^ (l - 1)).
  { unfold shl64. replace (l - 1 <? 64) with true by (symmetry; apply Z.ltb_lt; lia).
    rewrite Z.shiftl_1_l. apply Z.mod_small. lia. }
  rewrite Hsbm. rewrite land_pow2 by lia. rewrite testbit_top by lia.
  destruct (Z.leb_spec (2 ^ (l - 1)) u) as [Hge|Hlt].
  - replace (0 <? 2 ^ (l - 1)) with true by (symmetry; apply Z.ltb_lt; lia). cbn [negb].
    replace (u <? 2 ^ (l - 1)) with false by (symmetry; apply Z.ltb_ge; lia).
    unfold sub64, add64, not64.
    rewrite (Z.mod_small (2 ^ (l - 1) - 1)) by lia.
    replace (2 ^ (l - 1) - 1) with (Z.ones (l - 1)) by (rewrite Z.ones_equiv; lia).
    rewrite Z.land_ones by lia.
    assert (Hm : (2 ^ 64 - 1 - u) mod 2 ^ (l - 1) = 2 ^ l - 1 - u).
    { assert (E : 2 ^ 64 = 2 ^ (l - 1) * 2 ^ (64 - (l - 1))) by (rewrite <- Z.pow_add_r by lia; f_equal; lia).
      symmetry. apply Z.mod_unique with (q := 2 ^ (64 - (l - 1)) - 2); [left; lia|]. rewrite E. ring_simplify. lia. }
    rewrite Hm. rewrite (Z.mod_small (2 ^ l - 1 - u + 1)) by lia.
    unfold i64_of_u64 at 2. replace (2 ^ l - 1 - u + 1 <? 2 ^ 63) with true by (symmetry; apply Z.ltb_lt; lia).
    unfold u64, i64_of_u64.
    assert (Hneg : (- (2 ^ l - 1 - u + 1)) mod 2 ^ 64 = 2 ^ 64 + u - 2 ^ l).
    { symmetry. apply Z.mod_unique with (q := -1); [left; lia|lia]. }
    rewrite Hneg. replace (2 ^ 64 + u - 2 ^ l <? 2 ^ 63) with false by (symmetry; apply Z.ltb_ge; lia). lia.
  - replace (0 <? 0) with false by reflexivity. cbn [negb].
    replace (u <? 2 ^ (l - 1)) with true by (symmetry; apply Z.ltb_lt; lia).
    unfold i64_of_u64. replace (u <? 2 ^ 63) with true by (symmetry; apply Z.ltb_lt; lia). reflexivity.
Qed.

Theorem sbits_le_sext d s l : 1 <= l <= 64 -> sbits_le d s l = sext l (ubits_le d s l).
Proof. intros. unfold sbits_le. apply as_signed_sext; [lia|apply ubits_le_range; lia]. Qed.
Theorem sbits_be_sext d s l : 1 <= l <= 64 -> sbits_be d s l = sext l (ubits_be d s l).
Proof. intros. unfold sbits_be. apply as_signed_sext; [lia|apply ubits_be_range; lia]. Qed.

(** single bits *)
Theorem bit_spec d i : valid_data d -> 0 <= i -> bit d i = if i <=? 63 then pbit d i else false.
Proof.
  intros Hd Hi. unfold bit. destruct (Z.ltb_spec 63 i) as [H|H].
  - replace (i <=? 63) with false by (symmetry; apply Z.leb_gt; lia). reflexivity.
  - replace (i <=? 63) with true by (symmetry; apply Z.leb_le; lia).
    unfold pbit. rewrite Z.shiftl_1_l.
    assert (Hm : 0 <= i mod 8 < 8) by lia.
    assert (Hp : 2 ^ (i mod 8) < 256).
    { change 256 with (2 ^ 8). apply Z.pow_lt_mono_r; lia. }
    assert (Hp0 : 0 < 2 ^ (i mod 8)) by (apply Z.pow_pos_nonneg; lia).
    unfold u8. rewrite Z.mod_small by lia. rewrite land_pow2 by lia.
    destruct (Z.testbit (byte_at d (i / 8)) (i mod 8)); [apply Z.ltb_lt; lia|reflexivity].
Qed.

(** * Writers (C02) *)
Lemma stream_range t : 0 <= t < 64 -> 0 <= stream t < 64.
Proof. intros. unfold stream. lia. Qed.

Lemma shl64_bits x n k :
  0 <= n < 64 -> 0 <= k < 64 -> Z.testbit (shl64 x n) k = Z.testbit x (k - n).
Proof.
  intros Hn Hk. unfold shl64. replace (n <? 64) with true by (symmetry; apply Z.ltb_lt; lia).
  rewrite mod_pow2_bits by lia. replace (k <? 64) with true by (symmetry; apply Z.ltb_lt; lia).
  cbn [andb]. apply Z.shiftl_spec. lia.
Qed.

Lemma setmask_bits packed l n v p :
  0 <= packed < 2 ^ 64 -> 1 <= l <= 64 -> 0 <= n -> n + l <= 64 -> 0 <= v < 2 ^ l -> 0 <= p < 64 ->
  Z.testbit (Z.lor (Z.land packed (not64 (shl64 (mask64 l) n))) (shl64 v n)) p =
  if (n <=? p) && (p <? n + l) then Z.testbit v (p - n) else Z.testbit packed p.
Proof.
  intros Hp Hl Hn Hfit Hv Hk.
  rewrite Z.lor_spec, Z.land_spec. unfold not64.
  rewrite not_bits by (apply shl64_range || lia).
  replace (p <? 64) with true by (symmetry; apply Z.ltb_lt; lia). cbn [andb].
  rewrite !shl64_bits by lia. rewrite mask64_ones, ones_bits by lia.
  destruct (Z.leb_spec n p) as [H1|H1]; destruct (Z.ltb_spec p (n + l)) as [H2|H2]; cbn [andb].
  - replace (0 <=? p - n) with true by (symmetry; apply Z.leb_le; lia).
    replace (p - n <? l) with true by (symmetry; apply Z.ltb_lt; lia).
    cbn [andb negb]. rewrite andb_false_r. reflexivity.
  - replace (p - n <? l) with false by (symmetry; apply Z.ltb_ge; lia).
    rewrite andb_false_r. cbn [negb]. rewrite andb_true_r.
    rewrite (testbit_small v l) by lia. apply orb_false_r.
  - replace (0 <=? p - n) with false by (symmetry; apply Z.leb_gt; lia). cbn [andb negb].
    rewrite andb_true_r. rewrite (Z.testbit_neg_r v) by lia. apply orb_false_r.
  - replace (0 <=? p - n) with false by (symmetry; apply Z.leb_gt; lia). cbn [andb negb].
    rewrite andb_true_r. rewrite (Z.testbit_neg_r v) by lia. apply orb_false_r.
Qed.

Theorem set_ubits_le_bits d s l v k :
  valid_data d -> 0 <= s -> 1 <= l <= 64 -> s + l <= 64 -> 0 <= v < 2 ^ l -> 0 <= k < 64 ->
  pbit (set_ubits_le d s l v) k =
  if (s <=? k) && (k <? s + l) then Z.testbit v (k - s) else pbit d k.
Proof.
  intros Hd Hs Hl Hfit Hv Hk. unfold set_ubits_le. cbv zeta.
  rewrite unpack_le_bits by lia.
  rewrite setmask_bits by (apply pack_le_range || lia).
  rewrite pack_le_bits by (assumption || lia). reflexivity.
Qed.

Theorem set_ubits_be_bits d s l v k :
  valid_data d -> 0 <= s < 64 -> 1 <= l <= 64 -> stream s + l <= 64 -> 0 <= v < 2 ^ l -> 0 <= k < 64 ->
  pbit (set_ubits_be d s l v) k =
  let t := stream k - stream s in
  if (0 <=? t) && (t <? l) then Z.testbit v (l - 1 - t) else pbit d k.
Proof.
  intros Hd Hs Hl Hfit Hv Hk. unfold set_ubits_be. cbv zeta.
  rewrite be_lsb by lia. rewrite unpack_be_bits by lia.
  assert (Hst : 0 <= stream s < 64) by (unfold stream; lia).
  assert (Hsk : 0 <= stream k < 64) by (unfold stream; lia).
  rewrite setmask_bits by (apply pack_be_range || lia).
  rewrite pack_be_bits by (assumption || lia).
  replace (63 - (63 - stream k)) with (stream k) by lia. rewrite stream_involutive by lia.
  replace (64 - stream s - l <=? 63 - stream k) with (stream k - stream s <? l)
    by (destruct (Z.ltb_spec (stream k - stream s) l), (Z.leb_spec (64 - stream s - l) (63 - stream k)); lia || reflexivity).
  replace (63 - stream k <? 64 - stream s - l + l) with (0 <=? stream k - stream s)
    by (destruct (Z.leb_spec 0 (stream k - stream s)), (Z.ltb_spec (63 - stream k) (64 - stream s - l + l)); lia || reflexivity).
  rewrite andb_comm.
  replace (63 - stream k - (64 - stream s - l)) with (l - 1 - (stream k - stream s)) by lia.
  reflexivity.
Qed.

Lemma set_ubits_le_valid d s l v : valid_data (set_ubits_le d s l v).
Proof. apply unpack_le_valid. Qed.
Lemma set_ubits_be_valid d s l v : valid_data (set_ubits_be d s l v).
Proof. apply unpack_be_valid. Qed.

(** position form: content and frame condition *)
Corollary set_ubits_le_content d s l v i :
  valid_data d -> 0 <= s -> 1 <= l <= 64 -> s + l <= 64 -> 0 <= v < 2 ^ l -> 0 <= i < l ->
  pbit (set_ubits_le d s l v) (le_pos s i) = Z.testbit v i.
Proof.
  intros. unfold le_pos. rewrite set_ubits_le_bits by (assumption || lia).
  replace (s <=? s + i) with true by (symmetry; apply Z.leb_le; lia).
  replace (s + i <? s + l) with true by (symmetry; apply Z.ltb_lt; lia).
  cbn [andb]. f_equal. lia.
Qed.

Corollary set_ubits_le_frame d s l v k :
  valid_data d -> 0 <= s -> 1 <= l <= 64 -> s + l <= 64 -> 0 <= v < 2 ^ l -> 0 <= k < 64 ->
  (forall i, 0 <= i < l -> k <> le_pos s i) ->
  pbit (set_ubits_le d s l v) k = pbit d k.
Proof.
  intros Hd Hs Hl Hfit Hv Hk Hout. rewrite set_ubits_le_bits by (assumption || lia).
  destruct (Z.leb_spec s k) as [H1|H1]; destruct (Z.ltb_spec k (s + l)) as [H2|H2]; cbn [andb]; try reflexivity.
  exfalso. apply (Hout (k - s)); unfold le_pos; lia.
Qed.

Corollary set_ubits_be_content d s l v i :
  valid_data d -> 0 <= s < 64 -> 1 <= l <= 64 -> stream s + l <= 64 -> 0 <= v < 2 ^ l -> 0 <= i < l ->
  pbit (set_ubits_be d s l v) (be_bitpos s l i) = Z.testbit v i.
Proof.
  intros Hd Hs Hl Hfit Hv Hi. unfold be_bitpos.
  assert (Hst : 0 <= stream s < 64) by (unfold stream; lia).
  assert (Hpos : 0 <= be_pos s (l - 1 - i) < 64).
  { rewrite be_pos_closed by lia. apply stream_range. lia. }
  rewrite set_ubits_be_bits by (assumption || lia). cbv zeta. rewrite stream_be_pos by lia.
  replace (stream s + (l - 1 - i) - stream s) with (l - 1 - i) by lia.
  replace (0 <=? l - 1 - i) with true by (symmetry; apply Z.leb_le; lia).
  replace (l - 1 - i <? l) with true by (symmetry; apply Z.ltb_lt; lia).
  cbn [andb]. f_equal. lia.
Qed.

Corollary set_ubits_be_frame d s l v k :
  valid_data d -> 0 <= s < 64 -> 1 <= l <= 64 -> stream s + l <= 64 -> 0 <= v < 2 ^ l -> 0 <= k < 64 ->
  (forall j, 0 <= j < l -> k <> be_pos s j) ->
  pbit (set_ubits_be d s l v) k = pbit d k.
Proof.
  intros Hd Hs Hl Hfit Hv Hk Hout. rewrite set_ubits_be_bits by (assumption || lia). cbv zeta.
  destruct (Z.leb_spec 0 (stream k - stream s)) as [H1|H1];
    destruct (Z.ltb_spec (stream k - stream s) l) as [H2|H2]; cbn [andb]; try reflexivity.
  exfalso. apply (Hout (stream k - stream s)); [lia|].
  rewrite be_pos_closed by lia.
  replace (stream s + (stream k - stream s)) with (stream k) by lia.
  symmetry. apply stream_involutive. lia.
Qed.

(** signed writes store the low [l] two's-complement bits *)
Theorem as_unsigned_mod w l : 1 <= l <= 64 -> as_unsigned w l = w mod 2 ^ l.
Proof.
  intros Hl. unfold as_unsigned.
  destruct (l =? 8) eqn:E8; [apply Z.eqb_eq in E8; subst; reflexivity|].
  destruct (l =? 16) eqn:E16; [apply Z.eqb_eq in E16; subst; reflexivity|].
  destruct (l =? 32) eqn:E32; [apply Z.eqb_eq in E32; subst; reflexivity|].
  destruct (l =? 64) eqn:E64; [apply Z.eqb_eq in E64; subst; reflexivity|].
  apply Z.eqb_neq in E64. fold (mask64 l). rewrite mask64_ones, Z.land_ones by lia.
  unfold u64_of_i64. apply mod_mod_pow2. lia.
Qed.

Theorem set_sbits_le_eq d s l w : 1 <= l <= 64 -> set_sbits_le d s l w = set_ubits_le d s l (w mod 2 ^ l).
Proof. intros. unfold set_sbits_le. rewrite as_unsigned_mod by lia. reflexivity. Qed.
Theorem set_sbits_be_eq d s l w : 1 <= l <= 64 -> set_sbits_be d s l w = set_ubits_be d s l (w mod 2 ^ l).
Proof. intros. unfold set_sbits_be. rewrite as_unsigned_mod by lia. reflexivity. Qed.

(** read-after-write *)
Theorem ubits_le_set d s l v :
  valid_data d -> 0 <= s -> 1 <= l <= 64 -> s + l <= 64 -> 0 <= v < 2 ^ l ->
  ubits_le (set_ubits_le d s l v) s l = v.
Proof.
  intros Hd Hs Hl Hfit Hv. apply Z.bits_inj'. intros i Hi.
  rewrite ubits_le_bits by (apply set_ubits_le_valid || lia).
  destruct (Z.ltb_spec i l) as [H|H]; cbn [andb].
  - apply set_ubits_le_content; (assumption || lia).
  - symmetry. apply (testbit_small v l); lia.
Qed.

Theorem ubits_be_set d s l v :
  valid_data d -> 0 <= s < 64 -> 1 <= l <= 64 -> stream s + l <= 64 -> 0 <= v < 2 ^ l ->
  ubits_be (set_ubits_be d s l v) s l = v.
Proof.
  intros Hd Hs Hl Hfit Hv. apply Z.bits_inj'. intros i Hi.
  rewrite ubits_be_bits by (apply set_ubits_be_valid || lia).
  destruct (Z.ltb_spec i l) as [H|H]; cbn [andb].
  - apply set_ubits_be_content; (assumption || lia).
  - symmetry. apply (testbit_small v l); lia.
Qed.

Lemma mod_pow2_range w l : 0 <= l -> 0 <= w mod 2 ^ l < 2 ^ l.
Proof. intros. apply Z.mod_pos_bound. apply Z.pow_pos_nonneg; lia. Qed.

Theorem sbits_le_set d s l w :
  valid_data d -> 0 <= s -> 1 <= l <= 64 -> s + l <= 64 ->
  sbits_le (set_sbits_le d s l w) s l = sext l (w mod 2 ^ l).
Proof.
  intros. rewrite sbits_le_sext, set_sbits_le_eq by lia.
  rewrite ubits_le_set by (assumption || lia || (apply mod_pow2_range; lia)). reflexivity.
Qed.

Theorem sbits_be_set d s l w :
  valid_data d -> 0 <= s < 64 -> 1 <= l <= 64 -> stream s + l <= 64 ->
  sbits_be (set_sbits_be d s l w) s l = sext l (w mod 2 ^ l).
Proof.
  intros. rewrite sbits_be_sext, set_sbits_be_eq by lia.
  rewrite ubits_be_set by (assumption || lia || (apply mod_pow2_range; lia)). reflexivity.
Qed.

(** in-range signed values read back unchanged *)
Lemma sext_mod l w : 1 <= l -> - 2 ^ (l - 1) <= w < 2 ^ (l - 1) -> sext l (w mod 2 ^ l) = w.
Proof.
  intros Hl Hw. pose proof (pow2_split l Hl) as Hsplit.
  assert (Hp : 0 < 2 ^ (l - 1)) by (apply Z.pow_pos_nonneg; lia).
  rewrite sext_alt by (try apply mod_pow2_range; lia).
  destruct (Z_lt_le_dec w 0).
  - assert (E : w mod 2 ^ l = w + 2 ^ l) by (symmetry; apply Z.mod_unique with (q := -1); [left|]; lia).
    rewrite E. replace (w + 2 ^ l <? 2 ^ (l - 1)) with false by (symmetry; apply Z.ltb_ge; lia). lia.
  - rewrite Z.mod_small by lia. replace (w <? 2 ^ (l - 1)) with true by (symmetry; apply Z.ltb_lt; lia). reflexivity.
Qed.

(** * Histories of writes: disjoint writes commute, in any order (C02) *)
From Coq Require Import Permutation.

Record write := { w_be : bool; w_s : Z; w_l : Z; w_v : Z }.

Definition write_ok (w : write) : Prop :=
  1 <= w_l w <= 64 /\ 0 <= w_v w < 2 ^ w_l w /\
  if w_be w then 0 <= w_s w < 64 /\ stream (w_s w) + w_l w <= 64
  else 0 <= w_s w /\ w_s w + w_l w <= 64.

(** payload positions a write addresses *)
Definition covers (w : write) (k : Z) : bool :=
  if w_be w then let t := stream k - stream (w_s w) in (0 <=? t) && (t <? w_l w)
  else (w_s w <=? k) && (k <? w_s w + w_l w).

Definition wbit (w : write) (k : Z) : bool :=
  if w_be w then Z.testbit (w_v w) (w_l w - 1 - (stream k - stream (w_s w)))
  else Z.testbit (w_v w) (k - w_s w).

Definition apply_write (d : data) (w : write) : data :=
  if w_be w then set_ubits_be d (w_s w) (w_l w) (w_v w) else set_ubits_le d (w_s w) (w_l w) (w_v w).

Lemma apply_write_valid d w : valid_data (apply_write d w).
Proof. unfold apply_write. destruct (w_be w); [apply unpack_be_valid|apply unpack_le_valid]. Qed.

Lemma apply_write_bits d w k :
  valid_data d -> write_ok w -> 0 <= k < 64 ->
  pbit (apply_write d w) k = if covers w k then wbit w k else pbit d k.
Proof.
  intros Hd (Hl & Hv & Hs) Hk. unfold apply_write, covers, wbit. destruct (w_be w).
  - destruct Hs. rewrite set_ubits_be_bits by (assumption || lia). reflexivity.
  - destruct Hs. rewrite set_ubits_le_bits by (assumption || lia). reflexivity.
Qed.

Definition disjoint (w1 w2 : write) : Prop :=
  forall k, 0 <= k < 64 -> covers w1 k = true -> covers w2 k = false.

Lemma disjoint_sym w1 w2 : disjoint w1 w2 -> disjoint w2 w1.
Proof.
  intros H k Hk Hc. destruct (covers w1 k) eqn:E; [|reflexivity].
  rewrite (H k Hk E) in Hc. discriminate.
Qed.

Theorem apply_write_comm d w1 w2 :
  valid_data d -> write_ok w1 -> write_ok w2 -> disjoint w1 w2 ->
  apply_write (apply_write d w1) w2 = apply_write (apply_write d w2) w1.
Proof.
  intros Hd H1 H2 Hdis. apply data_ext; try apply apply_write_valid.
  intros k Hk. rewrite !apply_write_bits by (assumption || apply apply_write_valid).
  destruct (covers w1 k) eqn:E1; destruct (covers w2 k) eqn:E2; try reflexivity.
  rewrite (Hdis k Hk E1) in E2. discriminate.
Qed.

Lemma fold_apply_valid ws d : valid_data d -> valid_data (fold_left apply_write ws d).
Proof.
  revert d. induction ws as [|w ws IH]; cbn [fold_left]; intros d Hd; [exact Hd|].
  apply IH. apply apply_write_valid.
Qed.

Lemma ForallOrdPairs_perm (R : write -> write -> Prop) l l' :
  (forall a b, R a b -> R b a) -> Permutation l l' -> ForallOrdPairs R l -> ForallOrdPairs R l'.
Proof.
  intros Hsym Hp. induction Hp as [|x l l' Hp IH|x y l|l l' l'' Hp1 IH1 Hp2 IH2]; intros H.
  - constructor.
  - inversion H as [|? ? Hx Hl]; subst. constructor.
    + eapply Permutation_Forall; eassumption.
    + apply IH. exact Hl.
  - inversion H as [|? ? Hy Hl]; subst. inversion Hl as [|? ? Hx Hl']; subst.
    inversion Hy as [|? ? Hyx Hyl]; subst.
    constructor; [constructor; [apply Hsym; exact Hyx|exact Hx]|].
    constructor; assumption.
  - auto.
Qed.

(** any ordering of a list of pairwise-disjoint writes yields the same payload *)
Theorem writes_any_order ws ws' d :
  Permutation ws ws' -> valid_data d -> Forall write_ok ws -> ForallOrdPairs disjoint ws ->
  fold_left apply_write ws d = fold_left apply_write ws' d.
Proof.
  intros Hp. revert d.
  induction Hp as [|x l l' Hp IH|x y l|l l' l'' Hp1 IH1 Hp2 IH2]; intros d Hd Hok Hdis.
  - reflexivity.
  - cbn [fold_left]. inversion Hok; subst. inversion Hdis; subst.
    apply IH; [apply apply_write_valid|assumption|assumption].
  - cbn [fold_left]. f_equal.
    inversion Hok as [|? ? Hy Hok']; subst. inversion Hok' as [|? ? Hx Hok'']; subst.
    inversion Hdis as [|? ? Hyl ?]; subst. inversion Hyl as [|? ? Hyx ?]; subst.
    apply apply_write_comm; assumption.
  - rewrite IH1 by assumption. apply IH2; [assumption| |].
    + eapply Permutation_Forall; eassumption.
    + eapply ForallOrdPairs_perm; [exact disjoint_sym|exact Hp1|exact Hdis].
Qed.

(** the final payload, bit by bit: the bit of the (unique) covering write, else the original *)
Theorem writes_final_bits ws d k :
  valid_data d -> Forall write_ok ws -> ForallOrdPairs disjoint ws -> 0 <= k < 64 ->
  pbit (fold_left apply_write ws d) k =
  match find (fun w => covers w k) ws with Some w => wbit w k | None => pbit d k end.
Proof.
  revert d. induction ws as [|w ws IH]; intros d Hd Hok Hdis Hk; cbn [fold_left find]; [reflexivity|].
  inversion Hok as [|? ? Hw Hok']; subst. inversion Hdis as [|? ? Hwl Hdis']; subst.
  rewrite IH by (try apply apply_write_valid; assumption).
  destruct (covers w k) eqn:E.
  - assert (Hnone : find (fun w0 => covers w0 k) ws = None).
    { destruct (find (fun w0 => covers w0 k) ws) as [w'|] eqn:F; [|reflexivity].
      apply find_some in F. destruct F as [Hin Hc].
      rewrite Forall_forall in Hwl. rewrite (Hwl w' Hin k Hk E) in Hc. discriminate. }
    rewrite Hnone. rewrite apply_write_bits by assumption. rewrite E. reflexivity.
  - destruct (find (fun w0 => covers w0 k) ws); [reflexivity|].
    rewrite apply_write_bits by assumption. rewrite E. reflexivity.
Qed.

(** * Single-bit writes *)
Lemma byte_at_set_nth d n v j :
  0 <= j -> (n < length d)%nat ->
  byte_at (set_nth n v d) j = if j =? Z.of_nat n then v else byte_at d j.
Proof.
  unfold byte_at. revert n j. induction d as [|h t IH]; intros n j Hj Hn; [cbn in Hn; lia|].
  destruct n as [|n].
  - cbn [set_nth]. destruct (Z.eqb_spec j (Z.of_nat 0)) as [->|Hne]; [reflexivity|].
    destruct (Z.to_nat j) eqn:E; [lia|]. reflexivity.
  - cbn [set_nth]. destruct (Z.to_nat j) as [|j'] eqn:E.
    + replace (j =? Z.of_nat (S n)) with false by (symmetry; apply Z.eqb_neq; lia). reflexivity.
    + cbn [nth]. cbn [length] in Hn.
      specialize (IH n (Z.of_nat j') ltac:(lia) ltac:(lia)). rewrite Nat2Z.id in IH. rewrite IH.
      destruct (Z.eqb_spec (Z.of_nat j') (Z.of_nat n)), (Z.eqb_spec j (Z.of_nat (S n))); try reflexivity; lia.
Qed.

Lemma set_nth_length d n v : length (set_nth n v d) = length d.
Proof. revert n. induction d as [|h t IH]; intros [|n]; cbn; auto. Qed.

Lemma set_nth_Forall (P : Z -> Prop) d n v : Forall P d -> P v -> Forall P (set_nth n v d).
Proof.
  intros Hd Hv. revert n. induction Hd as [|h t Hh Ht IH]; intros [|n]; cbn; constructor; auto.
Qed.

Theorem set_bit_valid d i b : valid_data d -> 0 <= i -> valid_data (set_bit d i b).
Proof.
  intros [Hlen Hall] Hi. unfold set_bit. destruct (63 <? i); [split; assumption|].
  assert (Hold : 0 <= byte_at d (i / 8) < 256).
  { unfold byte_at. destruct (nth_in_or_default (Z.to_nat (i / 8)) d 0) as [Hin|E]; [|rewrite E; lia].
    rewrite Forall_forall in Hall. apply Hall. exact Hin. }
  assert (Hm : 0 <= u8 (Z.shiftl 1 (i mod 8)) < 256) by (unfold u8; lia).
  destruct b; (split; [rewrite set_nth_length; exact Hlen|]); apply set_nth_Forall; try assumption.
  - change 256 with (2 ^ 8). apply lor_range; change (2 ^ 8) with 256; lia.
  - assert (H0 : 0 <= Z.land (byte_at d (i / 8)) (255 - u8 (Z.shiftl 1 (i mod 8)))) by (apply Z.land_nonneg; lia).
    split; [exact H0|]. change 256 with (2 ^ 8). apply bounded_of_bits; [lia|exact H0|].
    intros m Hm8. rewrite Z.land_spec, (byte_bits_high (byte_at d (i / 8))) by lia. reflexivity.
Qed.

Theorem set_bit_bits d i b k :
  valid_data d -> 0 <= i -> 0 <= k < 64 ->
  pbit (set_bit d i b) k = if (i <=? 63) && (k =? i) then b else pbit d k.
Proof.
  intros Hd Hi Hk. pose proof Hd as [Hlen Hall]. unfold set_bit.
  destruct (Z.ltb_spec 63 i) as [H|H].
  - replace (i <=? 63) with false by (symmetry; apply Z.leb_gt; lia). reflexivity.
  - replace (i <=? 63) with true by (symmetry; apply Z.leb_le; lia). cbn [andb].
    assert (Hold : 0 <= byte_at d (i / 8) < 256).
    { unfold byte_at. destruct (nth_in_or_default (Z.to_nat (i / 8)) d 0) as [Hin|E]; [|rewrite E; lia].
      rewrite Forall_forall in Hall. apply Hall. exact Hin. }
    assert (Hb : 0 <= i mod 8 < 8) by lia.
    assert (Hp : 0 < 2 ^ (i mod 8) < 256).
    { split; [apply Z.pow_pos_nonneg; lia|]. change 256 with (2 ^ 8). apply Z.pow_lt_mono_r; lia. }
    assert (Hm : u8 (Z.shiftl 1 (i mod 8)) = 2 ^ (i mod 8)).
    { rewrite Z.shiftl_1_l. unfold u8. apply Z.mod_small. lia. }
    rewrite Hm. unfold pbit.
    destruct b; rewrite byte_at_set_nth by lia; rewrite Z2Nat.id by lia.
    + destruct (Z.eqb_spec (k / 8) (i / 8)) as [E|E].
      * rewrite Z.lor_spec, Z.pow2_bits_eqb by lia.
        destruct (Z.eqb_spec k i) as [->|Hne].
        -- rewrite Z.eqb_refl. apply orb_true_r.
        -- replace (i mod 8 =? k mod 8) with false by (symmetry; apply Z.eqb_neq; lia).
           rewrite orb_false_r. rewrite E. reflexivity.
      * replace (k =? i) with false by (symmetry; apply Z.eqb_neq; intros ->; lia). reflexivity.
    + destruct (Z.eqb_spec (k / 8) (i / 8)) as [E|E].
      * rewrite Z.land_spec. change 255 with (2 ^ 8 - 1). rewrite not_bits_w by lia.
        rewrite Z.pow2_bits_eqb by lia.
        replace (k mod 8 <? 8) with true by (symmetry; apply Z.ltb_lt; lia). cbn [andb].
        destruct (Z.eqb_spec k i) as [->|Hne].
        -- rewrite Z.eqb_refl. apply andb_false_r.
        -- replace (i mod 8 =? k mod 8) with false by (symmetry; apply Z.eqb_neq; lia).
           cbn [negb]. rewrite andb_true_r. rewrite E. reflexivity.
      * replace (k =? i) with false by (symmetry; apply Z.eqb_neq; intros ->; lia). reflexivity.
Qed.
