(** Lemmas about the frame record of Can/Frame.v: the boolean predicates used by the driver
    coincide with the propositional ones of the theorems; payload shape under [canonical]. *)
From Coq Require Import ZArith List Bool Lia.
From CanVerif Require Import Can.Data Can.Frame.
Import ListNotations.
Open Scope Z_scope.

Lemma data8_inv d :
  valid_data d ->
  exists b0 b1 b2 b3 b4 b5 b6 b7,
    d = [b0; b1; b2; b3; b4; b5; b6; b7] /\
    0 <= b0 < 256 /\ 0 <= b1 < 256 /\ 0 <= b2 < 256 /\ 0 <= b3 < 256 /\
    0 <= b4 < 256 /\ 0 <= b5 < 256 /\ 0 <= b6 < 256 /\ 0 <= b7 < 256.
Proof.
  intros [Hlen Hall].
  do 8 (destruct d as [|? d]; [discriminate Hlen|]). destruct d; [|discriminate Hlen].
  repeat match goal with H : Forall _ (_ :: _) |- _ => inversion H; clear H; subst end.
  do 8 eexists. split; [reflexivity|]. repeat split; lia.
Qed.

Lemma valid_datab_iff d : valid_datab d = true <-> valid_data d.
Proof.
  unfold valid_datab, valid_data. rewrite andb_true_iff, Nat.eqb_eq, forallb_forall, Forall_forall.
  split; intros [H1 H2]; split; auto; intros x Hx; specialize (H2 x Hx); lia.
Qed.

Lemma frame_wfb_spec f : frame_wfb f = true <-> frame_wf f.
Proof.
  unfold frame_wfb, frame_wf. rewrite !andb_true_iff, !Z.leb_le, !Z.ltb_lt, valid_datab_iff. tauto.
Qed.

Lemma zero_data_valid : valid_data zero_data.
Proof. split; [reflexivity|]. repeat constructor; lia. Qed.

Lemma bytes_zero_from_spec d k :
  bytes_zero_from d k = true <-> (forall i, k <= i < 8 -> 0 <= i -> byte_at d i = 0).
Proof.
  unfold bytes_zero_from. rewrite forallb_forall. split.
  - intros H i Hi H0. assert (Hin : In i [0; 1; 2; 3; 4; 5; 6; 7]) by (cbn; lia).
    specialize (H i Hin). apply orb_true_iff in H. destruct H as [H|H].
    + apply Z.ltb_lt in H. lia.
    + apply Z.eqb_eq in H. exact H.
  - intros H i Hin. assert (0 <= i < 8) by (cbn in Hin; lia).
    destruct (Z.ltb_spec i k); [reflexivity|]. cbn [orb]. apply Z.eqb_eq. apply H; lia.
Qed.

Lemma canonicalb_spec f : 0 <= f_len f -> (canonicalb f = true <-> canonical f).
Proof.
  intros Hl. unfold canonicalb, canonical. rewrite andb_true_iff, bytes_zero_from_spec.
  destruct (f_remote f); split.
  - intros [Hv Hz]. split; [exact Hv|]. split; [|discriminate]. intros _ i Hi. apply Hz; lia.
  - intros (Hv & Hr & _). split; [exact Hv|]. intros i Hi H0. apply Hr; [reflexivity|lia].
  - intros [Hv Hz]. split; [exact Hv|]. split; [discriminate|]. intros _ i Hi. apply Hz; lia.
  - intros (Hv & _ & Hd). split; [exact Hv|]. intros i Hi H0. apply Hd; [reflexivity|lia].
Qed.

Lemma validate_spec f :
  validate f = true <->
  (if f_ext f then f_id f <= max_ext_id else f_id f <= max_id) /\ f_len f <= max_data_length.
Proof.
  unfold validate. destruct (f_ext f); cbn [andb negb];
  repeat match goal with |- context [?a <? ?b] => destruct (Z.ltb_spec a b) end;
  split; try discriminate; try lia; intros; reflexivity.
Qed.

(** a payload all of whose bytes are zero is the zero payload *)
Lemma all_zero_data d :
  valid_data d -> (forall i, 0 <= i < 8 -> byte_at d i = 0) -> d = zero_data.
Proof.
  intros Hd H. destruct (data8_inv d Hd) as (b0&b1&b2&b3&b4&b5&b6&b7&->&_).
  pose proof (H 0 ltac:(lia)) as H0. pose proof (H 1 ltac:(lia)) as H1.
  pose proof (H 2 ltac:(lia)) as H2. pose proof (H 3 ltac:(lia)) as H3.
  pose proof (H 4 ltac:(lia)) as H4. pose proof (H 5 ltac:(lia)) as H5.
  pose proof (H 6 ltac:(lia)) as H6. pose proof (H 7 ltac:(lia)) as H7.
  cbv in H0, H1, H2, H3, H4, H5, H6, H7. subst. reflexivity.
Qed.

(** the first n bytes, zero padded, are the payload when the bytes from n on are zero *)
Lemma firstn_pad_data d n :
  valid_data d -> 0 <= n <= 8 -> (forall i, n <= i < 8 -> byte_at d i = 0) ->
  firstn (Z.to_nat n) d ++ repeat 0 (8 - length (firstn (Z.to_nat n) d)) = d.
Proof.
  intros Hd Hn H. destruct (data8_inv d Hd) as (b0&b1&b2&b3&b4&b5&b6&b7&->&_).
  assert (Hc : n = 0 \/ n = 1 \/ n = 2 \/ n = 3 \/ n = 4 \/ n = 5 \/ n = 6 \/ n = 7 \/ n = 8) by lia.
  assert (E0 : n <= 0 -> b0 = 0) by (intro; exact (H 0 ltac:(lia))).
  assert (E1 : n <= 1 -> b1 = 0) by (intro; exact (H 1 ltac:(lia))).
  assert (E2 : n <= 2 -> b2 = 0) by (intro; exact (H 2 ltac:(lia))).
  assert (E3 : n <= 3 -> b3 = 0) by (intro; exact (H 3 ltac:(lia))).
  assert (E4 : n <= 4 -> b4 = 0) by (intro; exact (H 4 ltac:(lia))).
  assert (E5 : n <= 5 -> b5 = 0) by (intro; exact (H 5 ltac:(lia))).
  assert (E6 : n <= 6 -> b6 = 0) by (intro; exact (H 6 ltac:(lia))).
  assert (E7 : n <= 7 -> b7 = 0) by (intro; exact (H 7 ltac:(lia))).
  clear H.
  repeat (destruct Hc as [->|Hc]; [
    try rewrite (E0 ltac:(lia)); try rewrite (E1 ltac:(lia)); try rewrite (E2 ltac:(lia));
    try rewrite (E3 ltac:(lia)); try rewrite (E4 ltac:(lia)); try rewrite (E5 ltac:(lia));
    try rewrite (E6 ltac:(lia)); try rewrite (E7 ltac:(lia)); reflexivity|]).
  subst. reflexivity.
Qed.

Lemma in_firstn {A} (x : A) : forall n l, In x (firstn n l) -> In x l.
Proof.
  induction n as [|n IH]; intros l H; [contradiction|].
  destruct l; [contradiction|]. destruct H as [->|H]; [left; reflexivity|right; apply IH, H].
Qed.

Lemma firstn_data_bytes d n : valid_data d -> Forall (fun v => 0 <= v < 256) (firstn n d).
Proof.
  intros [_ H]. apply Forall_forall. intros x Hx. apply in_firstn in Hx.
  rewrite Forall_forall in H. apply H, Hx.
Qed.

Lemma firstn_data_length d n : valid_data d -> 0 <= n <= 8 -> length (firstn (Z.to_nat n) d) = Z.to_nat n.
Proof. intros [Hl _] Hn. rewrite firstn_length, Hl. lia. Qed.

Lemma skipn_repeat {A} (x : A) : forall n k, skipn k (repeat x n) = repeat x (n - k).
Proof.
  induction n as [|n IH]; intros k; [destruct k; reflexivity|].
  destruct k; [reflexivity|]. cbn. apply IH.
Qed.

(** copy into a fresh (zero) payload = zero padding, for at most 8 source bytes *)
Lemma copy_zero_data bs : (length bs <= 8)%nat -> copy_data zero_data bs = bs ++ repeat 0 (8 - length bs).
Proof.
  intros Hl. unfold copy_data. change zero_data with (repeat 0 8) at 2. rewrite skipn_repeat.
  change (length zero_data) with 8%nat.
  rewrite firstn_all2; [reflexivity|]. rewrite app_length, repeat_length. lia.
Qed.

(** ... and truncation to 8 bytes beyond that *)
Lemma copy_zero_data_long bs : (8 <= length bs)%nat -> copy_data zero_data bs = firstn 8 bs.
Proof.
  intros Hl. unfold copy_data. change (length zero_data) with 8%nat.
  rewrite firstn_app. replace (8 - length bs)%nat with 0%nat by lia. cbn [firstn]. apply app_nil_r.
Qed.

Lemma copy_zero_data_valid bs :
  Forall (fun v => 0 <= v < 256) bs -> valid_data (copy_data zero_data bs).
Proof.
  intros Hb. destruct (Nat.le_gt_cases (length bs) 8) as [Hl|Hl].
  - rewrite copy_zero_data by exact Hl. split.
    + rewrite app_length, repeat_length. lia.
    + apply Forall_app. split; [exact Hb|]. apply Forall_forall. intros x Hx. apply repeat_spec in Hx. lia.
  - rewrite copy_zero_data_long by lia. split.
    + rewrite firstn_length. lia.
    + apply Forall_forall. intros x Hx. apply in_firstn in Hx. rewrite Forall_forall in Hb. apply Hb, Hx.
Qed.

Lemma byte_at_pad bs i :
  Z.of_nat (length bs) <= i -> byte_at (bs ++ repeat 0 (8 - length bs)) i = 0.
Proof.
  intros Hi. unfold byte_at. rewrite app_nth2 by lia.
  destruct (Nat.lt_ge_cases (Z.to_nat i - length bs) (8 - length bs)) as [Hlt|Hge].
  - apply nth_repeat.
  - apply nth_overflow. rewrite repeat_length. lia.
Qed.
