(** Specification vocabulary for the candump text form (property C15), written independently of
    the parsing algorithm of frame.go.

    The documented pattern (DESIGN.md 5.15):

        ( HEX{3} | HEX{8} ) '#' ( 'R' [0-8]? | (HEX HEX){0,8} )

    [matches_pattern]       : HEX admits both letter cases (what the parser must accept)
    [matches_pattern_upper] : HEX = 0-9 A-F                (what String() must print)
    [frame_written id tail] : the frame that the text  id # tail  denotes: ID = the number the hex
                              digits of [id] denote, extended iff 8 digits, remote iff the tail
                              starts with 'R', length = the digit after 'R' (0 if none) or the
                              number of digit pairs, data = the bytes the pairs denote, zero padded.
    Strings are [list Z] of bytes. *)
From Coq Require Import ZArith List Bool.
From CanVerif Require Import Base.Dec Base.Hex Can.Data Can.Frame.
Import ListNotations.
Open Scope Z_scope.

Section Pattern.
  Variable hexp : Z -> Prop.

  Definition id_part_ok (idp : list Z) : Prop :=
    (length idp = 3%nat \/ length idp = 8%nat) /\ Forall hexp idp.

  Definition tail_ok (tail : list Z) : Prop :=
    tail = [82] \/                                                        (* R         *)
    (exists c, tail = [82; c] /\ 48 <= c <= 56) \/                        (* R0 .. R8  *)
    (Forall hexp tail /\ exists n, length tail = (2 * n)%nat /\ (n <= 8)%nat).  (* 0..8 digit pairs *)

  Definition matches_pattern_with (s : list Z) : Prop :=
    exists idp tail, s = idp ++ 35 :: tail /\ id_part_ok idp /\ tail_ok tail.
End Pattern.

Definition matches_pattern : list Z -> Prop := matches_pattern_with is_hex.
Definition matches_pattern_upper : list Z -> Prop := matches_pattern_with is_hex_upper.

(** zero padding of up to 8 bytes to the 8-byte payload *)
Definition pad8 (bs : list Z) : data := bs ++ repeat 0 (8 - length bs).

Definition tail_remote (tail : list Z) : bool :=
  match tail with c :: _ => c =? 82 | [] => false end.

Definition frame_written (idp tail : list Z) : frame :=
  if tail_remote tail then
    mkFrame (hex_value idp) (match tail with [_; c] => c - 48 | _ => 0 end) zero_data
            true (Nat.eqb (length idp) 8)
  else
    mkFrame (hex_value idp) (Z.of_nat (length tail) / 2) (pad8 (hex_bytes tail))
            false (Nat.eqb (length idp) 8).

(** executable recogniser of the pattern (used by the driver on the implementation's output;
    sound and complete w.r.t. [matches_pattern_with]: FrameStringProofs.matches_patternb_spec) *)
Fixpoint break_at (sep : Z) (s : list Z) : option (list Z * list Z) :=
  match s with
  | [] => None
  | c :: r => if c =? sep then Some ([], r)
              else match break_at sep r with Some (a, b) => Some (c :: a, b) | None => None end
  end.

Definition tail_okb (hexb : Z -> bool) (tail : list Z) : bool :=
  match tail with
  | [] => true
  | c0 :: rest =>
    if c0 =? 82 then
      match rest with [] => true | [c] => (48 <=? c) && (c <=? 56) | _ => false end
    else forallb hexb tail && Nat.even (length tail) && Nat.leb (length tail) 16
  end.

Definition matches_patternb (upper_only : bool) (s : list Z) : bool :=
  let hexb := if upper_only then is_hex_upperb else is_hexb in
  match break_at 35 s with
  | None => false
  | Some (idp, tail) =>
    (Nat.eqb (length idp) 3 || Nat.eqb (length idp) 8) && forallb hexb idp && tail_okb hexb tail
  end.
