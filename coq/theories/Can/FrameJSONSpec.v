(** Specification vocabulary for the JSON form of a frame (property C16), written member by
    member and independently of the six-way switch of frame_json.go.

    [json_text id data ext rlen] is the text of the object with
       "id"       : the decimal number [id]                           (always)
       "data"     : the string [h]            iff [data = Some h]
       "extended" : true                      iff [ext = true]
       "remote"   : true  and  "length" : the decimal number [l]      iff [rlen = Some l]
    in this order.  [frame_json_text f] instantiates it with the member presence rules of the
    property: data present iff data frame with length > 0 (lower-case hex of the first length
    bytes), extended / remote present and true iff the flag is set, length present iff remote.

    [bytes] turns a Coq string literal into the byte list it denotes (this file is not extracted). *)
From Coq Require Import ZArith List Bool Ascii String.
From CanVerif Require Import Base.Dec Base.Hex Can.Data Can.Frame.
Import ListNotations.
Open Scope Z_scope.

Fixpoint bytes (s : string) : list Z :=
  match s with
  | EmptyString => []
  | String a r => Z.of_N (N_of_ascii a) :: bytes r
  end.

Definition json_text (id : Z) (data : option (list Z)) (ext : bool) (rlen : option Z) : list Z :=
  bytes "{""id"":" ++ itoa id
  ++ match data with Some h => bytes ",""data"":""" ++ h ++ bytes """" | None => [] end
  ++ (if ext then bytes ",""extended"":true" else [])
  ++ match rlen with Some l => bytes ",""remote"":true" ++ bytes ",""length"":" ++ itoa l | None => [] end
  ++ bytes "}".

(** data member present iff data frame with length > 0 *)
Definition data_member (f : frame) : option (list Z) :=
  if negb (f_remote f) && (0 <? f_len f)
  then Some (hex_encode (firstn (Z.to_nat (f_len f)) (f_data f)))
  else None.
(** length member present iff remote *)
Definition length_member (f : frame) : option Z := if f_remote f then Some (f_len f) else None.

Definition frame_json_text (f : frame) : list Z :=
  json_text (f_id f) (data_member f) (f_ext f) (length_member f).
