(** C17, third clause: a range that passes its check is read from / written to only
    inside the first [fl] payload bytes. Corollaries of the C01/C02 theorems. *)
From Coq Require Import ZArith List Bool Lia.
From CanVerif Require Import Base.Bits Can.Data Can.DataSpec Can.CheckProofs Can.DataProofs.
Open Scope Z_scope.
Ltac Zify.zify_post_hook ::= Z.div_mod_to_equations.

Definition agree_below (n : Z) (d d' : data) : Prop := forall k, 0 <= k < n -> pbit d k = pbit d' k.

Lemma check_le_fits fl s l :
  0 <= fl <= 8 -> 0 <= s <= 255 -> 1 <= l <= 255 -> check_le fl s l = true -> s + l <= 8 * fl.
Proof. intros Hfl Hs Hl H. apply check_le_exact in H; try lia. unfold ok_le in H. rewrite fits_le_closed in H by lia. exact H. Qed.

Lemma check_be_fits fl s l :
  0 <= fl <= 8 -> 0 <= s <= 255 -> 1 <= l <= 255 -> check_be fl s l = true -> stream s + l <= 8 * fl.
Proof. intros Hfl Hs Hl H. apply check_be_exact in H; try lia. unfold ok_be in H. rewrite fits_be_closed in H by lia. exact H. Qed.

Theorem checked_read_le fl s l d d' :
  0 <= fl <= 8 -> 0 <= s <= 255 -> 1 <= l <= 255 -> check_le fl s l = true ->
  valid_data d -> valid_data d' -> agree_below (8 * fl) d d' ->
  ubits_le d s l = ubits_le d' s l /\ sbits_le d s l = sbits_le d' s l.
Proof.
  intros Hfl Hs Hl Hc Hd Hd' Hag. pose proof (check_le_fits fl s l Hfl Hs Hl Hc) as Hfit.
  assert (E : ubits_le d s l = ubits_le d' s l).
  { apply Z.bits_inj'. intros i Hi. rewrite !ubits_le_bits by (assumption || lia).
    destruct (Z.ltb_spec i l); cbn [andb]; [|reflexivity]. apply Hag. unfold le_pos. lia. }
  split; [exact E|]. unfold sbits_le. rewrite E. reflexivity.
Qed.

Theorem checked_read_be fl s l d d' :
  0 <= fl <= 8 -> 0 <= s <= 255 -> 1 <= l <= 255 -> check_be fl s l = true ->
  valid_data d -> valid_data d' -> agree_below (8 * fl) d d' ->
  ubits_be d s l = ubits_be d' s l /\ sbits_be d s l = sbits_be d' s l.
Proof.
  intros Hfl Hs Hl Hc Hd Hd' Hag. pose proof (check_be_fits fl s l Hfl Hs Hl Hc) as Hfit.
  assert (Hst : 0 <= stream s) by (apply stream_nonneg; lia).
  assert (Hs64 : s < 64) by (unfold stream in *; lia).
  assert (E : ubits_be d s l = ubits_be d' s l).
  { apply Z.bits_inj'. intros i Hi. rewrite !ubits_be_bits by (assumption || lia).
    destruct (Z.ltb_spec i l); cbn [andb]; [|reflexivity]. apply Hag.
    unfold be_bitpos. rewrite be_pos_closed by lia.
    set (t := stream s + (l - 1 - i)). assert (0 <= t < 8 * fl) by lia. unfold stream. lia. }
  split; [exact E|]. unfold sbits_be. rewrite E. reflexivity.
Qed.

Theorem checked_write_le fl s l d v k :
  0 <= fl <= 8 -> 0 <= s <= 255 -> 1 <= l <= 255 -> check_le fl s l = true ->
  valid_data d -> 0 <= v < 2 ^ l -> 8 * fl <= k < 64 ->
  pbit (set_ubits_le d s l v) k = pbit d k.
Proof.
  intros Hfl Hs Hl Hc Hd Hv Hk. pose proof (check_le_fits fl s l Hfl Hs Hl Hc) as Hfit.
  rewrite set_ubits_le_bits by (assumption || lia).
  replace (k <? s + l) with false by (symmetry; apply Z.ltb_ge; lia). rewrite andb_false_r. reflexivity.
Qed.

Theorem checked_write_be fl s l d v k :
  0 <= fl <= 8 -> 0 <= s <= 255 -> 1 <= l <= 255 -> check_be fl s l = true ->
  valid_data d -> 0 <= v < 2 ^ l -> 8 * fl <= k < 64 ->
  pbit (set_ubits_be d s l v) k = pbit d k.
Proof.
  intros Hfl Hs Hl Hc Hd Hv Hk. pose proof (check_be_fits fl s l Hfl Hs Hl Hc) as Hfit.
  assert (Hst : 0 <= stream s) by (apply stream_nonneg; lia).
  assert (Hs64 : s < 64) by (unfold stream in *; lia).
  rewrite set_ubits_be_bits by (assumption || lia). cbv zeta.
  assert (8 * fl <= stream k) by (unfold stream; lia).
  replace (stream k - stream s <? l) with false by (symmetry; apply Z.ltb_ge; lia).
  rewrite andb_false_r. reflexivity.
Qed.
