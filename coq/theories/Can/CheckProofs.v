(** Proofs for the range/value checks (C17): the code's uint8/uint16 arithmetic decides
    exactly the specification of DataSpec, over the whole domain. *)
From Coq Require Import ZArith List Bool Lia.
From CanVerif Require Import Can.Data Can.DataSpec.
Open Scope Z_scope.

Ltac Zify.zify_post_hook ::= Z.div_mod_to_equations.

(** ** the big-endian walk in closed form *)
Lemma stream_involutive k : 0 <= k -> stream (stream k) = k.
Proof. unfold stream. intros. lia. Qed.

Lemma stream_nonneg k : 0 <= k -> 0 <= stream k.
Proof. unfold stream. lia. Qed.

Lemma stream_be_next k : 0 <= k -> stream (be_next k) = stream k + 1.
Proof.
  intros Hk. unfold be_next. destruct (k mod 8 =? 0) eqn:E.
  - apply Z.eqb_eq in E. unfold stream. lia.
  - apply Z.eqb_neq in E. unfold stream. lia.
Qed.

Lemma be_next_nonneg k : 0 <= k -> 0 <= be_next k.
Proof. intros. unfold be_next. destruct (k mod 8 =? 0) eqn:E; [lia|]. apply Z.eqb_neq in E. lia. Qed.

Lemma be_pos_nat_nonneg s j : 0 <= s -> 0 <= be_pos_nat s j.
Proof. intros. induction j; cbn [be_pos_nat]; auto using be_next_nonneg. Qed.

Lemma stream_be_pos_nat s j : 0 <= s -> stream (be_pos_nat s j) = stream s + Z.of_nat j.
Proof.
  intros Hs. induction j as [|j IH]; cbn [be_pos_nat]; [lia|].
  rewrite stream_be_next by (apply be_pos_nat_nonneg; exact Hs). lia.
Qed.

Lemma stream_be_pos s j : 0 <= s -> 0 <= j -> stream (be_pos s j) = stream s + j.
Proof. intros. unfold be_pos. rewrite stream_be_pos_nat by assumption. lia. Qed.

Lemma be_pos_closed s j : 0 <= s -> 0 <= j -> be_pos s j = stream (stream s + j).
Proof.
  intros Hs Hj. rewrite <- (stream_be_pos s j Hs Hj).
  symmetry. apply stream_involutive. unfold be_pos. apply be_pos_nat_nonneg. exact Hs.
Qed.

(** a position is inside the first [fl] bytes iff its stream index is *)
Lemma stream_lt_bytes k fl : 0 <= k -> (k < 8 * fl <-> stream k < 8 * fl).
Proof. intros. unfold stream. lia. Qed.

Lemma fits_be_closed n s l :
  0 <= s -> 1 <= l -> n mod 8 = 0 -> (fits_be n s l <-> stream s + l <= n).
Proof.
  intros Hs Hl Hn. unfold fits_be. split.
  - intros H. specialize (H (l - 1) ltac:(lia)).
    assert (Hp : 0 <= be_pos s (l - 1)) by (apply be_pos_nat_nonneg; exact Hs).
    pose proof (stream_be_pos s (l - 1) Hs ltac:(lia)) as E.
    unfold stream in E |- *. lia.
  - intros H j Hj.
    assert (Hp : 0 <= be_pos s j) by (apply be_pos_nat_nonneg; exact Hs).
    pose proof (stream_be_pos s j Hs ltac:(lia)) as E.
    unfold stream in E, H. lia.
Qed.

Lemma fits_le_closed n s l : 1 <= l -> (fits_le n s l <-> s + l <= n).
Proof.
  intros Hl. unfold fits_le, le_pos. split.
  - intros H. specialize (H (l - 1) ltac:(lia)). lia.
  - intros H i Hi. lia.
Qed.

(** ** the checks decide the specification on the complete domain *)
Theorem check_le_exact fl s l :
  0 <= fl <= 8 -> 0 <= s <= 255 -> 1 <= l <= 255 ->
  (check_le fl s l = true <-> ok_le fl s l).
Proof.
  intros Hfl Hs Hl. unfold ok_le. rewrite fits_le_closed by lia.
  unfold check_le, u16. rewrite negb_true_iff, Z.leb_gt.
  change (2 ^ 16) with 65536. lia.
Qed.

Lemma invert_endian_small s : 0 <= s < 64 -> invert_endian s = 63 - stream s.
Proof. intros. unfold invert_endian, stream, u8. lia. Qed.

Theorem check_be_exact fl s l :
  0 <= fl <= 8 -> 0 <= s <= 255 -> 1 <= l <= 255 ->
  (check_be fl s l = true <-> ok_be fl s l).
Proof.
  intros Hfl Hs Hl. unfold ok_be. rewrite fits_be_closed by lia.
  unfold check_be.
  assert (Hup : u8 (fl * 8) = 8 * fl) by (unfold u8; lia). rewrite Hup.
  destruct (8 * fl <=? s) eqn:E1.
  - apply Z.leb_le in E1. split; [discriminate|]. unfold stream. lia.
  - apply Z.leb_gt in E1.
    rewrite invert_endian_small by lia.
    assert (Hst : 0 <= stream s < 64) by (unfold stream; lia).
    assert (Hm1 : u8 (63 - stream s + 1) = 64 - stream s) by (unfold u8; lia). rewrite Hm1.
    destruct (64 - stream s <? l) eqn:E2.
    + apply Z.ltb_lt in E2. split; [discriminate|lia].
    + apply Z.ltb_ge in E2.
      assert (Hl2 : u8 (u8 (63 - stream s - l) + 1) = 64 - stream s - l) by (unfold u8; lia).
      rewrite Hl2. rewrite invert_endian_small by lia.
      rewrite negb_true_iff, Z.leb_gt. unfold stream in *. lia.
Qed.

Theorem check_value_exact v b :
  0 <= v < 2 ^ 64 -> 1 <= b <= 64 -> (check_value v b = true <-> ok_val v b).
Proof.
  intros Hv Hb. unfold check_value, ok_val.
  destruct (b <? 64) eqn:E.
  - apply Z.ltb_lt in E. rewrite negb_true_iff, Z.leb_gt.
    unfold shl64. rewrite (proj2 (Z.ltb_lt b 64) E).
    rewrite Z.shiftl_1_l.
    assert (2 ^ b < 2 ^ 64) by (apply Z.pow_lt_mono_r; lia).
    rewrite Z.mod_small by lia. reflexivity.
  - apply Z.ltb_ge in E. assert (b = 64) by lia. subst. split; [lia|reflexivity].
Qed.

(** ** the pre-fix formulas violate the specification (regression witnesses, DESIGN.md F1/F2) *)
Lemma check_le_refuted : check_le_old 8 200 57 = true /\ ~ ok_le 8 200 57.
Proof.
  split; [vm_compute; reflexivity|]. unfold ok_le. rewrite fits_le_closed by lia. lia.
Qed.

Lemma check_be_refuted : check_be_old 1 0 250 = true /\ ~ ok_be 1 0 250.
Proof.
  split; [vm_compute; reflexivity|]. unfold ok_be. rewrite fits_be_closed by lia.
  unfold stream. lia.
Qed.

Lemma check_value_refuted : check_value_old 0 64 = false /\ ok_val 0 64.
Proof. split; [vm_compute; reflexivity|unfold ok_val; lia]. Qed.
