(** Executable model of /repo/data.go and /repo/internal/reinterpret/reinterpret.go.

    Machine integers are mathematical integers with the wrap-around written out
    exactly where the Go type wraps:
      uint8  : [u8]   (mod 2^8)
      uint64 : [u64]  (mod 2^64)
      int64  : [i64]  (two's complement reading of a uint64 word)
    Go shifts by a count >= the operand width give 0 (for unsigned operands).

    DEFINITIONS ONLY - proofs live in DataProofs.v, so the model still runs when a
    proof breaks. *)
From Coq Require Import ZArith List Bool.
Import ListNotations.
Open Scope Z_scope.

(** * Machine arithmetic *)
Definition u8 (x : Z) : Z := x mod 256.
Definition u64 (x : Z) : Z := x mod 2 ^ 64.
(** reinterpretation uint64 -> int64 (Go: int64(x)) *)
Definition i64_of_u64 (x : Z) : Z := if x <? 2 ^ 63 then x else x - 2 ^ 64.
(** reinterpretation int64 -> uint64 (Go: uint64(x)) *)
Definition u64_of_i64 (x : Z) : Z := x mod 2 ^ 64.

(** [x << n] on uint64, n a uint8 shift count *)
Definition shl64 (x n : Z) : Z := if n <? 64 then (Z.shiftl x n) mod 2 ^ 64 else 0.
(** [x >> n] on uint64 *)
Definition shr64 (x n : Z) : Z := if n <? 64 then Z.shiftr x n else 0.
Definition sub64 (a b : Z) : Z := (a - b) mod 2 ^ 64.
Definition add64 (a b : Z) : Z := (a + b) mod 2 ^ 64.
Definition not64 (a : Z) : Z := 2 ^ 64 - 1 - a.
(** [(1 << n) - 1] evaluated in uint64 *)
Definition mask64 (n : Z) : Z := sub64 (shl64 1 n) 1.

(** * Payload: 8 bytes *)
Definition data := list Z.
Definition byte_at (d : data) (i : Z) : Z := nth (Z.to_nat i) d 0.
Definition valid_data (d : data) : Prop :=
  length d = 8%nat /\ Forall (fun b => 0 <= b < 256) d.
Definition valid_datab (d : data) : bool :=
  Nat.eqb (length d) 8 && forallb (fun b => (0 <=? b) && (b <? 256)) d.

(** data.go:216-227 PackLittleEndian *)
Definition pack_le (d : data) : Z :=
  Z.lor (Z.lor (Z.lor (Z.lor (Z.lor (Z.lor (Z.lor
    (shl64 (byte_at d 0) 0)
    (shl64 (byte_at d 1) 8))
    (shl64 (byte_at d 2) 16))
    (shl64 (byte_at d 3) 24))
    (shl64 (byte_at d 4) 32))
    (shl64 (byte_at d 5) 40))
    (shl64 (byte_at d 6) 48))
    (shl64 (byte_at d 7) 56).

(** data.go:230-241 PackBigEndian *)
Definition pack_be (d : data) : Z :=
  Z.lor (Z.lor (Z.lor (Z.lor (Z.lor (Z.lor (Z.lor
    (shl64 (byte_at d 0) 56)
    (shl64 (byte_at d 1) 48))
    (shl64 (byte_at d 2) 40))
    (shl64 (byte_at d 3) 32))
    (shl64 (byte_at d 4) 24))
    (shl64 (byte_at d 5) 16))
    (shl64 (byte_at d 6) 8))
    (shl64 (byte_at d 7) 0).

(** data.go:244-253 UnpackLittleEndian: d[i] = uint8(packed >> (i*8)) *)
Definition unpack_le (p : Z) : data :=
  map (fun i => u8 (shr64 p (8 * i))) [0; 1; 2; 3; 4; 5; 6; 7].
(** data.go:256-265 UnpackBigEndian *)
Definition unpack_be (p : Z) : data :=
  map (fun i => u8 (shr64 p (8 * (7 - i)))) [0; 1; 2; 3; 4; 5; 6; 7].

(** data.go:268-274 invertEndian, all in uint8 *)
Definition invert_endian (i : Z) : Z :=
  let row := i / 8 in
  let col := i mod 8 in
  let opposite_row := u8 (7 - row) in
  u8 (u8 (opposite_row * 8) + col).

(** * Readers (data.go:101-140) *)
Definition ubits_le (d : data) (start len : Z) : Z :=
  let packed := pack_le d in
  let shifted := shr64 packed start in
  Z.land shifted (mask64 len).

Definition ubits_be (d : data) (start len : Z) : Z :=
  let packed := pack_be d in
  let msb := invert_endian start in
  let lsb := u8 (u8 (msb - len) + 1) in
  let shifted := shr64 packed lsb in
  Z.land shifted (mask64 len).

(** reinterpret.go:5-31 AsSigned *)
Definition as_signed (unsigned bits : Z) : Z :=
  if bits =? 8 then let b := unsigned mod 2 ^ 8 in if b <? 2 ^ 7 then b else b - 2 ^ 8
  else if bits =? 16 then let b := unsigned mod 2 ^ 16 in if b <? 2 ^ 15 then b else b - 2 ^ 16
  else if bits =? 32 then let b := unsigned mod 2 ^ 32 in if b <? 2 ^ 31 then b else b - 2 ^ 32
  else if bits =? 64 then i64_of_u64 unsigned
  else
    let sign_bit_mask := shl64 1 (u8 (bits - 1)) in
    let is_negative := 0 <? Z.land unsigned sign_bit_mask in
    if negb is_negative then i64_of_u64 unsigned
    else
      let value_bit_mask := sub64 sign_bit_mask 1 in
      let value := add64 (Z.land (not64 unsigned) value_bit_mask) 1 in
      (* -1 * int64(value), wrapping in int64 *)
      i64_of_u64 (u64 (- (i64_of_u64 value))).

(** reinterpret.go:34-50 AsUnsigned *)
Definition as_unsigned (signed bits : Z) : Z :=
  if bits =? 8 then signed mod 2 ^ 8
  else if bits =? 16 then signed mod 2 ^ 16
  else if bits =? 32 then signed mod 2 ^ 32
  else if bits =? 64 then u64_of_i64 signed
  else Z.land (u64_of_i64 signed) (sub64 (shl64 1 bits) 1).

Definition sbits_le (d : data) (start len : Z) : Z := as_signed (ubits_le d start len) len.
Definition sbits_be (d : data) (start len : Z) : Z := as_signed (ubits_be d start len) len.

(** * Writers (data.go:143-184) *)
Definition set_ubits_le (d : data) (start len value : Z) : data :=
  let packed := pack_le d in
  let unset_mask := not64 (shl64 (mask64 len) start) in
  let set_mask := shl64 value start in
  unpack_le (Z.lor (Z.land packed unset_mask) set_mask).

Definition set_ubits_be (d : data) (start len value : Z) : data :=
  let packed := pack_be d in
  let msb := invert_endian start in
  let lsb := u8 (u8 (msb - len) + 1) in
  let unset_mask := not64 (shl64 (mask64 len) lsb) in
  let set_mask := shl64 value lsb in
  unpack_be (Z.lor (Z.land packed unset_mask) set_mask).

Definition set_sbits_le (d : data) (start len value : Z) : data :=
  set_ubits_le d start len (as_unsigned value len).
Definition set_sbits_be (d : data) (start len value : Z) : data :=
  set_ubits_be d start len (as_unsigned value len).

(** * Single bits (data.go:187-213) *)
Definition bit (d : data) (i : Z) : bool :=
  if 63 <? i then false
  else
    let byte_index := i / 8 in
    let bit_mask := u8 (Z.shiftl 1 (i mod 8)) in
    0 <? Z.land (byte_at d byte_index) bit_mask.

Fixpoint set_nth (n : nat) (v : Z) (d : data) : data :=
  match d, n with
  | [], _ => []
  | _ :: t, O => v :: t
  | h :: t, S n' => h :: set_nth n' v t
  end.

Definition set_bit (d : data) (i : Z) (value : bool) : data :=
  if 63 <? i then d
  else
    let byte_index := i / 8 in
    let bit_index := i mod 8 in
    let m := u8 (Z.shiftl 1 bit_index) in
    let old := byte_at d byte_index in
    if value then set_nth (Z.to_nat byte_index) (Z.lor old m) d
    else set_nth (Z.to_nat byte_index) (Z.land old (255 - m)) d.

(** * Range and value checks (data.go:276-309), [true] = nil error.
    These model the code AFTER the fix commits for F1/F2 (see DESIGN.md section 6);
    the pre-fix formulas are kept as [*_old] for the [_refuted] regression lemmas. *)
Definition u16 (x : Z) : Z := x mod 2 ^ 16.

Definition check_le (frame_length range_start range_length : Z) : bool :=
  let msb := u16 (u16 (range_start + range_length) - 1) in
  let upper := u16 (frame_length * 8) in
  negb (upper <=? msb).

Definition check_be (frame_length range_start range_length : Z) : bool :=
  let upper := u8 (frame_length * 8) in
  if upper <=? range_start then false
  else
    let msb := invert_endian range_start in
    if u8 (msb + 1) <? range_length then false
    else
      let lsb := u8 (u8 (msb - range_length) + 1) in
      let e := invert_endian lsb in
      negb (upper <=? e).

Definition check_value (value bits : Z) : bool :=
  if bits <? 64 then negb (shl64 1 bits <=? value) else true.

(** pre-fix versions (uint8 wrap of start+length-1; no lower-bound test; 1<<64 = 0) *)
Definition check_le_old (frame_length range_start range_length : Z) : bool :=
  let msb := u8 (u8 (range_start + range_length) - 1) in
  let upper := u8 (frame_length * 8) in
  negb (upper <=? msb).

Definition check_be_old (frame_length range_start range_length : Z) : bool :=
  let upper := u8 (frame_length * 8) in
  if upper <=? range_start then false
  else
    let msb := invert_endian range_start in
    let lsb := u8 (u8 (msb - range_length) + 1) in
    let e := invert_endian lsb in
    negb (upper <=? e).

Definition check_value_old (value bits : Z) : bool :=
  negb (shl64 1 bits <=? value).
