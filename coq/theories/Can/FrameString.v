(** Executable model of the candump text form of a frame: /repo/frame.go:60-134
    ([Frame.String], [Frame.UnmarshalString]).

    Strings are [list Z] of bytes.  Library calls are the oracle models of Base/Dec.v and
    Base/Hex.v (strconv.ParseUint / Atoi / Itoa, encoding/hex, fmt %03X / %08X, strings.ToUpper)
    and [split] below (strings.Split with a one-byte separator).

    Every Go operation that can panic at run time is written as an explicit partial operation
    ([nth_error] for indexing, [str_slice] for s[lo:hi], [slice_to] for Data[:Length]) and its
    failure is mapped to the outcome [Panic] - so "UnmarshalString never panics" is a theorem
    (FrameStringProofs.unmarshal_string_total), not a modelling decision.  [String] does panic for
    data frames with Length > 8 (Data[:Length]); the model says so.

    UnmarshalString works on a local [frame] and assigns [*f] at its three success exits only; the
    model threads the destination [dst] through and returns it unchanged at every error exit.

    DEFINITIONS ONLY (proofs: FrameStringProofs.v). *)
From Coq Require Import ZArith List Bool.
From CanVerif Require Import Base.Dec Base.Hex Can.Data Can.Frame.
Import ListNotations.
Open Scope Z_scope.

Definition ch_hash : Z := 35.  (* '#' *)
Definition ch_R : Z := 82.     (* 'R' *)

(** * String(): frame.go:68-81 *)
Inductive sres := S_ok (s : list Z) | S_panic.

Definition to_string (f : frame) : sres :=
  let id := if f_ext f then fmt_hex_upper 8 (f_id f) else fmt_hex_upper 3 (f_id f) in
  if f_remote f && (f_len f =? 0) then S_ok (id ++ [ch_hash; ch_R])
  else if f_remote f then S_ok (id ++ [ch_hash; ch_R] ++ itoa (f_len f))
  else match slice_to (f_data f) (f_len f) with
       | None => S_panic                                         (* f.Data[:f.Length], Length > 8 *)
       | Some bs => S_ok (id ++ [ch_hash] ++ ascii_upper (hex_encode bs))
       end.

(** * strings.Split(s, "#") : the pieces between separators, always at least one piece *)
Fixpoint split (sep : Z) (s : list Z) : list (list Z) :=
  match s with
  | [] => [[]]
  | c :: r =>
    if c =? sep then [] :: split sep r
    else match split sep r with
         | h :: t => (c :: h) :: t
         | [] => [[c]]            (* unreachable: split never returns [] *)
         end
  end.

(** s[lo:hi] on a string; [None] = slice bounds out of range *)
Definition str_slice (s : list Z) (lo hi : nat) : option (list Z) :=
  if (Nat.leb lo hi) && (Nat.leb hi (length s)) then Some (firstn (hi - lo) (skipn lo s)) else None.

Definition zlen (s : list Z) : Z := Z.of_nat (length s).

(** * UnmarshalString(): frame.go:84-134.  Result: outcome and the destination afterwards. *)
Definition unmarshal_string (s : list Z) (dst : frame) : outcome * frame :=
  let parts := split ch_hash s in
  if negb (Z.of_nat (length parts) =? 2) then (Error, dst)                   (* invalid frame format *)
  else
  match nth_error parts 0, nth_error parts 1 with                (* parts[0], parts[1] *)
  | Some id_part, Some data_part =>
    let frame0 := zero_frame in                                  (* var frame Frame *)
    if negb (zlen id_part =? 3) && negb (zlen id_part =? 8) then (Error, dst)   (* invalid ID length *)
    else
    let frame1 := set_ext frame0 (zlen id_part =? 8) in
    match parse_uint id_part 16 32 with
    | PU_ok id =>
      let frame2 := set_id frame1 (id mod 2 ^ 32) in             (* uint32(id) *)
      if zlen data_part =? 0 then (Ok, frame2)                   (* *f = frame *)
      else
      match nth_error data_part 0 with                           (* dataPart[0] *)
      | None => (Panic, dst)
      | Some c0 =>
        if c0 =? ch_R then
          let frame3 := set_remote frame2 true in
          if 2 <? zlen data_part then (Error, dst)               (* invalid remote length *)
          else if zlen data_part =? 2 then
            match str_slice data_part 1 2 with                   (* dataPart[1:2] *)
            | None => (Panic, dst)
            | Some sub =>
              match atoi sub with
              | None => (Error, dst)
              | Some n => (Ok, set_len frame3 (n mod 256))       (* uint8(dataLength); *f = frame *)
              end
            end
          else (Ok, frame3)                                      (* *f = frame *)
        else
          if (16 <? zlen data_part) || negb (zlen data_part mod 2 =? 0) then (Error, dst)
          else
          let frame3 := set_len frame2 ((zlen data_part / 2) mod 256) in
          match hex_decode data_part with
          | None => (Error, dst)                                 (* invalid data *)
          | Some decoded => (Ok, set_data frame3 (copy_data (f_data frame3) decoded))
          end
      end
    | _ => (Error, dst)                                          (* invalid frame ID *)
    end
  | _, _ => (Panic, dst)
  end.
