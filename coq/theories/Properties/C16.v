(** Property C16 - Frame <-> JSON: output is valid JSON that round-trips every valid frame.
    Only property theorems, each closed by [exact], each followed by [Print Assumptions].

    Model: Can/FrameJSON.v
      [to_json]        frame_json.go JSON() (= MarshalJSON), [S_panic] where Data[:Length] panics;
      [json_valid]     recogniser of the RFC 8259 grammar (tokeniser [lex] + pushdown [gram]);
      [read_doc s]     oracle model of json.Unmarshal(s, &jsonFrame{}): [None] = error, otherwise
                       the five decoded members [mkJ id data length extended remote]
                       (pointer members as options);
      [of_doc d dst]   the post-decode logic of UnmarshalJSON on destination [dst];
      [unmarshal_json s dst] = [of_doc (read_doc s) dst]: outcome and destination afterwards.
    [bytes] turns a string literal into its byte list; [itoa] is decimal printing; [hex_encode]
    lower-case hex (Base/Dec.v, Base/Hex.v).  [frame_wf f] = the fields fit the Go struct. *)
From Coq Require Import String.
From Coq Require Import ZArith List Bool.
From CanVerif Require Import Base.Dec Base.Hex Can.Data Can.Frame Can.FrameProofs
  Can.FrameString Can.FrameJSON Can.FrameJSONSpec Can.FrameJSONProofs.
Import ListNotations.
Open Scope Z_scope.

(** For every valid frame whose unused data bytes are zero, JSON() returns the text [txt] below:
    an object whose "id" is the decimal ID, whose "data" is present iff the frame is a data frame
    with length > 0 and is then the lower-case hex of the first length bytes, whose "extended" /
    "remote" members are present, and true, iff the flag is set, and whose "length" is present iff
    the frame is remote.  [txt] is syntactically valid JSON (and printable ASCII); json.Unmarshal
    of it yields exactly those members; and UnmarshalJSON of it into any destination yields the
    identical frame. *)
Theorem C16_json_form_and_round_trip : forall f,
  frame_wf f ->
  validate f = true ->
  (f_remote f = true -> forall i, 0 <= i < 8 -> byte_at (f_data f) i = 0) ->
  (f_remote f = false -> forall i, f_len f <= i < 8 -> byte_at (f_data f) i = 0) ->
  let has_data := negb (f_remote f) && (0 <? f_len f) in
  let hex := hex_encode (firstn (Z.to_nat (f_len f)) (f_data f)) in
  let txt :=
    bytes "{""id"":" ++ itoa (f_id f)
    ++ (if has_data then bytes ",""data"":""" ++ hex ++ bytes """" else [])
    ++ (if f_ext f then bytes ",""extended"":true" else [])
    ++ (if f_remote f then bytes ",""remote"":true" ++ bytes ",""length"":" ++ itoa (f_len f) else [])
    ++ bytes "}" in
  to_json f = S_ok txt /\
  json_valid txt = true /\
  Forall (fun c => 32 <= c < 127) txt /\
  value 10 (map (fun c => c - 48) (itoa (f_id f))) = f_id f /\
  read_doc txt = Some (mkJ (f_id f)
                           (if has_data then Some hex else None)
                           (if f_remote f then Some (f_len f) else None)
                           (if f_ext f then Some true else None)
                           (if f_remote f then Some true else None)) /\
  forall dst, unmarshal_json txt dst = (Ok, f).
Proof.
  intros f Hwf Hv Hr Hd. cbv zeta.
  rewrite <- frame_json_text_unfold, <- frame_jframe_unfold.
  exact (json_round_trip f Hwf (conj Hv (conj Hr Hd))).
Qed.
Print Assumptions C16_json_form_and_round_trip.

(** JSON() composes that text for every frame on which it does not panic (also for invalid IDs
    and for unused bytes that are not zero: they are simply not printed). *)
Theorem C16_json_text_of_any_frame : forall f,
  (f_remote f = true \/ 0 <= f_len f <= 8) -> to_json f = S_ok (frame_json_text f).
Proof. exact to_json_spec. Qed.
Print Assumptions C16_json_text_of_any_frame.

(** Decoding is total: whatever json.Unmarshal produced (an error or any five members), the
    post-decode logic returns Ok or Error, never Panic; for any byte string UnmarshalJSON does not
    panic; and when json.Unmarshal fails the destination is untouched. *)
Theorem C16_of_doc_total : forall d dst,
  exists o f', of_doc d dst = (o, f') /\ (o = Ok \/ o = Error).
Proof. exact of_doc_total. Qed.
Print Assumptions C16_of_doc_total.

Theorem C16_unmarshal_never_panics : forall s dst, fst (unmarshal_json s dst) <> Panic.
Proof. exact unmarshal_json_no_panic. Qed.
Print Assumptions C16_unmarshal_never_panics.

Theorem C16_unmarshal_error_untouched : forall s dst,
  read_doc s = None -> unmarshal_json s dst = (Error, dst).
Proof. exact unmarshal_json_syntax_error. Qed.
Print Assumptions C16_unmarshal_error_untouched.

(** A remote frame without a length member is rejected; conversely every remote frame that is
    returned took its length from a length member. *)
Theorem C16_remote_requires_length : forall jf dst,
  j_remote jf = Some true -> j_length jf = None -> fst (of_jframe jf dst) = Error.
Proof. exact remote_without_length_rejected. Qed.
Print Assumptions C16_remote_requires_length.

Theorem C16_remote_result_has_length : forall jf dst f,
  of_jframe jf dst = (Ok, f) -> f_remote f = true -> exists l, j_length jf = Some l /\ f_len f = l.
Proof. exact remote_result_has_length. Qed.
Print Assumptions C16_remote_result_has_length.

(** non-vacuity: the two examples of the JSON() doc comment, and documents that are not outputs *)
Example C16_nonvacuous :
  let f1 := mkFrame 32 8 [1; 2; 3; 4; 5; 6; 7; 8] false false in
  let f2 := mkFrame 32 4 zero_data true true in
  frame_wfb f1 = true /\ canonicalb f1 = true /\ frame_wfb f2 = true /\ canonicalb f2 = true /\
  to_json f1 = S_ok (bytes "{""id"":32,""data"":""0102030405060708""}") /\
  to_json f2 = S_ok (bytes "{""id"":32,""extended"":true,""remote"":true,""length"":4}") /\
  unmarshal_json (bytes "{""id"":32,""data"":""0102030405060708""}") f2 = (Ok, f1) /\
  unmarshal_json (bytes "{""id"":32,""extended"":true,""remote"":true,""length"":4}") f1 = (Ok, f2) /\
  unmarshal_json (bytes " { ""length"" : 4, ""remote"":true ,""EXTENDED"":true,""x"":[1,{}],""id"":32 } ") f1 = (Ok, f2) /\
  fst (unmarshal_json (bytes "{""id"":32,""remote"":true}") f1) = Error /\
  unmarshal_json (bytes "{""id"":4294967296}") f1 = (Error, f1) /\
  unmarshal_json (bytes "{""id"":1,}") f1 = (Error, f1) /\
  json_valid (bytes "[1,2.5e-3,""é"",{""a"":null}]") = true /\ json_valid (bytes "{""id"":01}") = false /\
  to_json (mkFrame 1 9 zero_data false false) = S_panic.
Proof. vm_compute. repeat split; congruence. Qed.
