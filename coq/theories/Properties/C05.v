(** Property C05 - compiling a DBC yields the database it denotes, in canonical order
    (internal/generate/compile.go; DESIGN.md 5.5, class 4.2).

    [compile src defs] is the model of generate.Compile after parsing (Dbc/Compile.v):
    collectDescriptors, addMetadata (with warnings), sortDescriptors with sort.Slice modelled by
    Base/Sort.v and the signal comparator of the code (start bit, then multiplexer value).
    [in_class], [denotes], [canonical], [spec_warnings], [warns], [perm42], [defs_perm] are the
    specification (Dbc/CompileSpec.v), written over the parsed definitions without reference
    to the algorithm.

    END TO END (second part of the file): [compile_text il id src text] (Dbc/CompileText.v) is
    generate.Compile as a function of the TEXT: the parser model of C04 ([parse_bytes], Dbc/Parser.v)
    followed by [compile].  The theorems C05_text_* chain the round-trip theorem of C04
    (C04_parse_print_partial) with the theorems above, so that the reference is the source text -
    the digits and strings the user wrote ([print cr ds] / [print_file cr its gend], Dbc/Printer.v) -
    and not the definitions some parser produced.  [elaborate cr ds : list def] is the denotation of the
    source (one definition per source definition, numbers = the values of the literals, positions
    = where the definition starts); it has the type [compile] consumes, no conversion is involved.

    Only property theorems, each closed by [exact], each followed by [Print Assumptions]. *)
From Coq Require Import String.
From Coq Require Import ZArith List Bool Permutation Sorted.
From CanVerif Require Import Base.Sort Dbc.Ast Descriptor.Types Dbc.Compile Dbc.CompileSpec
  Dbc.CompileLemmas Dbc.CompileProofs.
From CanVerif Require Import Dbc.Scanner Dbc.Parser Dbc.Printer Dbc.RoundTrip Dbc.Witness Dbc.CompileText Dbc.CompileTextProofs.
Import ListNotations.
Open Scope Z_scope.

(** the compiled database is denoted by the definitions (one node per declared node, one message
    per non-pseudo BO_, one signal per SG_, every field as written in the source, metadata taken
    from the resolving line), it is in canonical order, and it carries the source file name *)
Theorem C05_compile_denotes : forall src defs, in_class defs = true ->
  denotes defs (fst (compile src defs)) /\
  canonical (fst (compile src defs)) /\
  db_source_file (fst (compile src defs)) = src.
Proof. exact compile_denotes. Qed.
Print Assumptions C05_compile_denotes.

(** stronger, as an equation: compile = sort (the denoted database in source order) *)
Theorem C05_compile_eq : forall src defs, in_class defs = true ->
  compile src defs = (sort_db (denoted_db src defs), spec_warnings defs).
Proof. exact compile_eq. Qed.
Print Assumptions C05_compile_eq.

(** a warning is produced for exactly the resolved metadata lines whose node / message / signal is
    undeclared, a float32 type on a non-32-bit signal, or an unsupported value type
    ([spec_warnings], decided on the definitions alone; same order, same positions) *)
Theorem C05_warnings_exact : forall src defs, in_class defs = true ->
  snd (compile src defs) = spec_warnings defs.
Proof. exact warnings_exact. Qed.
Print Assumptions C05_warnings_exact.

(** ... and those lines are attached to nothing: removing them does not change the database *)
Theorem C05_warnings_attach_nothing : forall src defs, in_class defs = true ->
  fst (compile src (filter (fun d => negb (warns defs d)) defs)) = fst (compile src defs).
Proof. exact warnings_attach_nothing. Qed.
Print Assumptions C05_warnings_attach_nothing.

(** reordering messages among themselves, signals inside a message and resolved metadata lines
    among themselves (DESIGN.md 4.2) never changes the database; warnings are equal as multisets *)
Theorem C05_compile_perm : forall src defs defs', in_class defs = true -> perm42 defs defs' ->
  fst (compile src defs) = fst (compile src defs') /\
  Permutation (snd (compile src defs)) (snd (compile src defs')).
Proof. exact compile_perm. Qed.
Print Assumptions C05_compile_perm.

(** more generally ANY permutation of the definitions and of the signals inside the messages that
    keeps the last VERSION line the last one; the class itself is invariant *)
Theorem C05_compile_perm_general : forall src defs defs', in_class defs = true -> defs_perm defs defs' ->
  pick_last sel_version defs [] = pick_last sel_version defs' [] ->
  in_class defs' = true /\
  fst (compile src defs) = fst (compile src defs') /\
  Permutation (snd (compile src defs)) (snd (compile src defs')).
Proof. exact compile_perm_general. Qed.
Print Assumptions C05_compile_perm_general.

(** the model of sort.Slice: a permutation for every comparator; THE sorted list - hence a
    function of the multiset - when the comparator is a strict total order on distinct keys *)
Theorem C05_sort_slice_perm : forall (A : Type) (less : A -> A -> bool) (l : list A),
  Permutation l (sort_slice less l).
Proof. exact (@sort_slice_perm). Qed.
Print Assumptions C05_sort_slice_perm.

Theorem C05_sort_slice_unique : forall (A : Type) (less : A -> A -> bool) (K : Type) (key : A -> K),
  (forall a b c, less a b = true -> less b c = true -> less a c = true) ->
  (forall a b, less a b = true -> less b a = false) ->
  (forall a b, key a <> key b -> less a b = true \/ less b a = true) ->
  forall l l', NoDup (map key l) -> Permutation l l' -> sort_slice less l = sort_slice less l'.
Proof. exact (@sort_slice_perm_eq). Qed.
Print Assumptions C05_sort_slice_unique.

(** the comparator of the code is such an order on (start, multiplexer value) *)
Theorem C05_sig_less_strict_total :
  (forall a b c, sig_less a b = true -> sig_less b c = true -> sig_less a c = true) /\
  (forall a b, sig_less a b = true -> sig_less b a = false) /\
  (forall a b, (s_start a, s_mux_value a) <> (s_start b, s_mux_value b) -> sig_less a b = true \/ sig_less b a = true).
Proof. exact (conj sig_less_trans (conj sig_less_asym sig_less_total)). Qed.
Print Assumptions C05_sig_less_strict_total.

(** the predicates the correspondence driver evaluates on the implementation's output are sound *)
Theorem C05_canonical_check_sound : forall db, canonicalb db = true -> canonical db.
Proof. exact canonicalb_sound. Qed.
Print Assumptions C05_canonical_check_sound.
Theorem C05_denotes_check_sound : forall defs db,
  sort_db db = sort_db (denoted_db (db_source_file db) defs) -> denotes defs db.
Proof. exact denotes_check_sound. Qed.
Print Assumptions C05_denotes_check_sound.

(** F10 (fixed in /repo by "fix: sort compiled signals by start bit, then multiplexer value"):
    with the comparator before the fix, [if mux_j < mux_k {return true}; return start_j < start_k],
    two orders of the same two multiplexed signals compile to different signal orders;
    the comparator was not even asymmetric *)
Theorem C05_compile_perm_refuted :
  in_class wit_defs = true /\ perm42 wit_defs wit_defs' /\
  fst (compile_old [] wit_defs) <> fst (compile_old [] wit_defs') /\
  fst (compile [] wit_defs) = fst (compile [] wit_defs').
Proof. exact compile_perm_refuted. Qed.
Theorem C05_sig_less_old_refuted : exists a b, sig_less_old a b = true /\ sig_less_old b a = true.
Proof. exact sig_less_old_not_asym. Qed.

(** non-vacuity: a file of the class with two multiplexed signals sharing nothing but the message,
    a signal comment, value descriptions out of order, a send type in upper case, a cycle time and a
    comment for an undeclared node:
      BU_: N / BO_ 2147483748 M: 8 N / SG_ A m1 : 16|8@1+ .. / SG_ B m2 : 8|8@1+ ..
      CM_ SG_ 100 A "c"; VAL_ 2147483748 B 2 "t" 1 "o"; BA_ "GenMsgSendType" BO_ 100 "CYCLIC";
      BA_ "GenMsgCycleTime" BO_ 100 100; CM_ BU_ G "x";
    (metadata spells the id without the extended flag: resolution is by CAN id) *)
Definition ex_pos (l : Z) : position := {| p_line := l; p_column := 1; p_offset := 0 |}.
Definition ex_msg : message_def :=
  {| m_pos := ex_pos 2; m_id := 2147483748; m_name := [77]; m_size := 8; m_transmitter := [78];
     m_signals := [wit_sig 65 16 1; wit_sig 66 8 2] |}.
Definition ex_defs : list def :=
  [ DNodes (ex_pos 1) [[78]];
    DMessage ex_msg;
    DComment {| cm_pos := ex_pos 5; cm_object := OtSignal; cm_node := []; cm_message_id := 100;
                cm_signal := [65]; cm_envvar := []; cm_comment := [99] |};
    DValueDescriptions {| vs_pos := ex_pos 6; vs_object := OtSignal; vs_message_id := 2147483748; vs_signal := [66];
                          vs_envvar := [];
                          vs_values := [ {| vd_pos := ex_pos 6; vd_value := 4611686018427387904; vd_description := [116] |};
                                         {| vd_pos := ex_pos 6; vd_value := 4607182418800017408; vd_description := [111] |} ] |};
    DAttributeValue {| av_pos := ex_pos 7; av_name := attr_send_type; av_object := OtMessage; av_message_id := 100;
                       av_signal := []; av_node := []; av_envvar := []; av_int := 0; av_float := 0;
                       av_string := [67; 89; 67; 76; 73; 67] |};
    DAttributeValue {| av_pos := ex_pos 8; av_name := attr_cycle_time; av_object := OtMessage; av_message_id := 100;
                       av_signal := []; av_node := []; av_envvar := []; av_int := 100; av_float := 0; av_string := [] |};
    DComment {| cm_pos := ex_pos 9; cm_object := OtNode; cm_node := [71]; cm_message_id := 0;
                cm_signal := []; cm_envvar := []; cm_comment := [120] |} ].

Example C05_nonvacuous :
  in_class ex_defs = true /\
  snd (compile [] ex_defs) = [(WNoNode, ex_pos 9)] /\
  map (fun m => (msg_id m, msg_extended m, msg_send_type m, msg_cycle_time m,
                 map (fun s => (s_name s, s_description s, map vdesc_value (s_value_descriptions s))) (msg_signals m)))
      (db_messages (fst (compile [] ex_defs)))
  = [(100, true, SendCyclic, 100000000, [([66], [], [1; 2]); ([65], [99], [])])] /\
  perm42 ex_defs (nth 0 ex_defs (DNodes (ex_pos 1) []) :: nth 1 ex_defs (DNodes (ex_pos 1) []) ::
                  nth 6 ex_defs (DNodes (ex_pos 1) []) :: nth 3 ex_defs (DNodes (ex_pos 1) []) ::
                  nth 4 ex_defs (DNodes (ex_pos 1) []) :: nth 5 ex_defs (DNodes (ex_pos 1) []) ::
                  [nth 2 ex_defs (DNodes (ex_pos 1) [])]).
Proof.
  split; [vm_compute; reflexivity|]. split; [vm_compute; reflexivity|]. split; [vm_compute; reflexivity|].
  unfold ex_defs. cbn [nth].
  match goal with |- perm42 (?d0 :: ?d1 :: ?d2 :: ?d3 :: ?d4 :: ?d5 :: [?d6]) _ =>
    exact (p42_swap_metadata [d0; d1] d2 [d3; d4; d5] d6 [] eq_refl eq_refl) end.
Qed.

(** ------------------------------------------------------------------ END TO END: the text is the reference

    For every source file [ds] that is well-formed in the sense of C04's round-trip theorem
    ([wf_file], Dbc/Printer.v: every definition kind, one line per definition / signal, single
    spaces, decimal number literals with optional sign, fraction and exponent, strings over printable
    ASCII with escapes; [cr_ok cr]: every line ends with the same run [cr] of spaces / carriage
    returns before LF) and whose denotation is in the compile class (DESIGN.md 4.2), compiling the
    printed TEXT succeeds and returns exactly the sorted denoted database of the source and exactly
    the specified warnings.  [il], [id]: unicode.IsLetter / IsDigit on runes >= 128 (arbitrary). *)
Theorem C05_text_compile_eq : forall (il id : Z -> bool) (cr source : bytes) (ds : list sdef),
  cr_ok cr -> wf_file ds -> in_class (elaborate cr ds) = true ->
  compile_text il id source (print cr ds)
  = Some (sort_db (denoted_db source (elaborate cr ds)), spec_warnings (elaborate cr ds)).
Proof. exact compile_text_eq. Qed.
Print Assumptions C05_text_compile_eq.

(** the same for every layout the round-trip theorem covers: blank lines (LF or CRLF, with spaces)
    before every definition and at the end of the file ([wf_lfile]; items = (blank lines, definition)) *)
Theorem C05_text_compile_file_eq : forall (il id : Z -> bool) (cr source : bytes) (its : list item) (gend : bytes),
  wf_lfile cr its gend -> in_class (elaborate_file cr its) = true ->
  compile_text il id source (print_file cr its gend)
  = Some (sort_db (denoted_db source (elaborate_file cr its)), spec_warnings (elaborate_file cr its)).
Proof. exact compile_text_file_eq. Qed.
Print Assumptions C05_text_compile_file_eq.

(** ... in the words of the property: the database compiled from the text is denoted by the source
    (every node / message / signal field as written, metadata from the resolving line), canonically
    ordered, carries the source file name, and the warnings are exactly the specified ones *)
Theorem C05_text_compile_denotes : forall (il id : Z -> bool) (cr source : bytes) (ds : list sdef),
  cr_ok cr -> wf_file ds -> in_class (elaborate cr ds) = true ->
  exists db ws, compile_text il id source (print cr ds) = Some (db, ws) /\
    denotes (elaborate cr ds) db /\ canonical db /\ db_source_file db = source /\
    ws = spec_warnings (elaborate cr ds).
Proof. exact compile_text_denotes. Qed.
Print Assumptions C05_text_compile_denotes.

(** non-vacuity of the end-to-end hypotheses, on a concrete file ([ex_src] in Dbc/CompileTextProofs.v;
    [ex_text] is its printed text, 15 lines):
      VERSION "1.0" / BU_: N / BO_ 2147483748 M : 8 N /
      SG_ B m2 : 39 | 8 @ 0 - ( 1 , 0 ) [ 0 | 0 ] "" Vector__XXX , N /
      SG_ A : 0 | 32 @ 1 + ( 0.1 , -40 ) [ 0 | 6E+3 ] "km/h" N /
      BA_DEF_ BO_ "GenMsgCycleTime" INT 0 0 ; / BA_DEF_ SG_ "GenSigStartValue" INT ; /
      BA_DEF_ BO_ "GenMsgSendType" ENUM "None" , "Cyclic" ; /
      BA_ "GenSigStartValue" SG_ 100 A 16777217 ; / BA_ "GenMsgCycleTime" BO_ 100 20000001 ; /
      BA_ "GenMsgSendType" BO_ 2147483748 1 ; / SIG_VALTYPE_ 100 A : 1 ; / CM_ SG_ 100 A "speed" ; /
      VAL_ 2147483748 B 2 "t" -1 "o" ; / CM_ BU_ G "x" ;
    it is well-formed, in the class, and its text compiles to: one warning (the comment for the
    undeclared node G, line 15), version 1.0, node N, the extended message 100 with send type Cyclic
    (enum index 1), cycle time 20000001 ms in ns, signal A (start 0, float32, start value 16777217 =
    2^24 + 1, factor 0.1 and offset -40 as binary64 bit patterns, comment, unit) before signal B
    (start 39; value descriptions sorted by value).  Evaluated by vm_compute through the theorem. *)
Local Open Scope string_scope.
Example C05_text_nonvacuous : forall il id,
  wf_file ex_src /\ in_class (elaborate [] ex_src) = true /\ print [] ex_src = ex_text /\
  exists db, compile_text il id [] ex_text = Some (db, [(WNoNode, at_ 15 1 502)]) /\
    db = sort_db (denoted_db [] (elaborate [] ex_src)) /\
    db_version db = txt "1.0" /\ map node_name (db_nodes db) = [txt "N"] /\
    map (fun m => (msg_name m, msg_id m, msg_extended m, msg_length m, msg_send_type m, msg_cycle_time m, msg_sender m,
           map (fun s => (s_name s, s_start s, s_length s, s_float s, s_default s, s_scale s, s_offset s,
                          s_description s, s_unit s, map (fun v => (vdesc_value v, vdesc_text v)) (s_value_descriptions s)))
               (msg_signals m))) (db_messages db)
    = [(txt "M", 100, true, 8, SendCyclic, 20000001000000, txt "N",
        [(txt "A", 0, 32, true, 16777217, 4591870180066957722, 13854198353698488320, txt "speed", txt "km/h", []);
         (txt "B", 39, 8, false, 0, 4607182418800017408, 0, [], [], [(-1, txt "o"); (2, txt "t")])])].
Proof. exact ex_src_compiles. Qed.

(** ... and integer attribute values over the whole int64 range arrive as written (F12: Parser.int
    reads decimal integers exactly): two signed 64-bit signals with the start values 2^63 - 1 and
    -(2^53 + 1), neither of which is a float64, under a BA_DEF_ with the range [MinInt64, MaxInt64] *)
Example C05_text_int64_start_values : forall il id,
  wf_file ex64_src /\ in_class (elaborate [] ex64_src) = true /\ print [] ex64_src = ex64_text /\
  exists db, compile_text il id [] ex64_text = Some (db, []) /\
    map (fun m => (msg_name m, map (fun s => (s_name s, s_length s, s_signed s, s_default s)) (msg_signals m))) (db_messages db)
    = [(txt "M", [(txt "S", 64, true, 9223372036854775807)]); (txt "L", [(txt "T", 64, true, -9007199254740993)])]
    /\ map (fun d => match d with DAttribute a => [(ad_min_int a, ad_max_int a)] | _ => [] end) (elaborate [] ex64_src)
       = [[]; []; []; [(-9223372036854775808, 9223372036854775807)]; []; []].
Proof. exact ex64_src_compiles. Qed.
