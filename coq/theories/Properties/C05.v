(** Property C05 - compiling a DBC yields the database it denotes, in canonical order
    (internal/generate/compile.go; DESIGN.md 5.5, class 4.2).

    [compile src defs] is the model of generate.Compile after parsing (Dbc/Compile.v):
    collectDescriptors, addMetadata (with warnings), sortDescriptors with sort.Slice modelled by
    Base/Sort.v and the signal comparator of the code (start bit, then multiplexer value).
    [in_class], [denotes], [canonical], [spec_warnings], [warns], [perm42], [defs_perm] are the
    specification (Dbc/CompileSpec.v), written over the parsed definitions without reference
    to the algorithm.

    Only property theorems, each closed by [exact], each followed by [Print Assumptions]. *)
From Coq Require Import ZArith List Bool Permutation Sorted.
From CanVerif Require Import Base.Sort Dbc.Ast Descriptor.Types Dbc.Compile Dbc.CompileSpec
  Dbc.CompileLemmas Dbc.CompileProofs.
Import ListNotations.
Open Scope Z_scope.

(** the compiled database is denoted by the definitions (one node per declared node, one message
    per non-pseudo BO_, one signal per SG_, every field as written in the source, metadata taken
    from the resolving line), it is in canonical order, and it carries the source file name *)
Theorem C05_compile_denotes : forall src defs, in_class defs = true ->
  denotes defs (fst (compile src defs)) /\
  canonical (fst (compile src defs)) /\
  db_source_file (fst (compile src defs)) = src.
Proof. exact compile_denotes. Qed.
Print Assumptions C05_compile_denotes.

(** stronger, as an equation: compile = sort (the denoted database in source order) *)
Theorem C05_compile_eq : forall src defs, in_class defs = true ->
  compile src defs = (sort_db (denoted_db src defs), spec_warnings defs).
Proof. exact compile_eq. Qed.
Print Assumptions C05_compile_eq.

(** a warning is produced for exactly the resolved metadata lines whose node / message / signal is
    undeclared, a float32 type on a non-32-bit signal, or an unsupported value type
    ([spec_warnings], decided on the definitions alone; same order, same positions) *)
Theorem C05_warnings_exact : forall src defs, in_class defs = true ->
  snd (compile src defs) = spec_warnings defs.
Proof. exact warnings_exact. Qed.
Print Assumptions C05_warnings_exact.

(** ... and those lines are attached to nothing: removing them does not change the database *)
Theorem C05_warnings_attach_nothing : forall src defs, in_class defs = true ->
  fst (compile src (filter (fun d => negb (warns defs d)) defs)) = fst (compile src defs).
Proof. exact warnings_attach_nothing. Qed.
Print Assumptions C05_warnings_attach_nothing.

(** reordering messages among themselves, signals inside a message and resolved metadata lines
    among themselves (DESIGN.md 4.2) never changes the database; warnings are equal as multisets *)
Theorem C05_compile_perm : forall src defs defs', in_class defs = true -> perm42 defs defs' ->
  fst (compile src defs) = fst (compile src defs') /\
  Permutation (snd (compile src defs)) (snd (compile src defs')).
Proof. exact compile_perm. Qed.
Print Assumptions C05_compile_perm.

(** more generally ANY permutation of the definitions and of the signals inside the messages that
    keeps the last VERSION line the last one; the class itself is invariant *)
Theorem C05_compile_perm_general : forall src defs defs', in_class defs = true -> defs_perm defs defs' ->
  pick_last sel_version defs [] = pick_last sel_version defs' [] ->
  in_class defs' = true /\
  fst (compile src defs) = fst (compile src defs') /\
  Permutation (snd (compile src defs)) (snd (compile src defs')).
Proof. exact compile_perm_general. Qed.
Print Assumptions C05_compile_perm_general.

(** the model of sort.Slice: a permutation for every comparator; THE sorted list - hence a
    function of the multiset - when the comparator is a strict total order on distinct keys *)
Theorem C05_sort_slice_perm : forall (A : Type) (less : A -> A -> bool) (l : list A),
  Permutation l (sort_slice less l).
Proof. exact (@sort_slice_perm). Qed.
Print Assumptions C05_sort_slice_perm.

Theorem C05_sort_slice_unique : forall (A : Type) (less : A -> A -> bool) (K : Type) (key : A -> K),
  (forall a b c, less a b = true -> less b c = true -> less a c = true) ->
  (forall a b, less a b = true -> less b a = false) ->
  (forall a b, key a <> key b -> less a b = true \/ less b a = true) ->
  forall l l', NoDup (map key l) -> Permutation l l' -> sort_slice less l = sort_slice less l'.
Proof. exact (@sort_slice_perm_eq). Qed.
Print Assumptions C05_sort_slice_unique.

(** the comparator of the code is such an order on (start, multiplexer value) *)
Theorem C05_sig_less_strict_total :
  (forall a b c, sig_less a b = true -> sig_less b c = true -> sig_less a c = true) /\
  (forall a b, sig_less a b = true -> sig_less b a = false) /\
  (forall a b, (s_start a, s_mux_value a) <> (s_start b, s_mux_value b) -> sig_less a b = true \/ sig_less b a = true).
Proof. exact (conj sig_less_trans (conj sig_less_asym sig_less_total)). Qed.
Print Assumptions C05_sig_less_strict_total.

(** the predicates the correspondence driver evaluates on the implementation's output are sound *)
Theorem C05_canonical_check_sound : forall db, canonicalb db = true -> canonical db.
Proof. exact canonicalb_sound. Qed.
Print Assumptions C05_canonical_check_sound.
Theorem C05_denotes_check_sound : forall defs db,
  sort_db db = sort_db (denoted_db (db_source_file db) defs) -> denotes defs db.
Proof. exact denotes_check_sound. Qed.
Print Assumptions C05_denotes_check_sound.

(** F10 (fixed in /repo by "fix: sort compiled signals by start bit, then multiplexer value"):
    with the comparator before the fix, [if mux_j < mux_k {return true}; return start_j < start_k],
    two orders of the same two multiplexed signals compile to different signal orders;
    the comparator was not even asymmetric *)
Theorem C05_compile_perm_refuted :
  in_class wit_defs = true /\ perm42 wit_defs wit_defs' /\
  fst (compile_old [] wit_defs) <> fst (compile_old [] wit_defs') /\
  fst (compile [] wit_defs) = fst (compile [] wit_defs').
Proof. exact compile_perm_refuted. Qed.
Theorem C05_sig_less_old_refuted : exists a b, sig_less_old a b = true /\ sig_less_old b a = true.
Proof. exact sig_less_old_not_asym. Qed.

(** non-vacuity: a file of the class with two multiplexed signals sharing nothing but the message,
    a signal comment, value descriptions out of order, a send type in upper case, a cycle time and a
    comment for an undeclared node:
      BU_: N / BO_ 2147483748 M: 8 N / SG_ A m1 : 16|8@1+ .. / SG_ B m2 : 8|8@1+ ..
      CM_ SG_ 100 A "c"; VAL_ 2147483748 B 2 "t" 1 "o"; BA_ "GenMsgSendType" BO_ 100 "CYCLIC";
      BA_ "GenMsgCycleTime" BO_ 100 100; CM_ BU_ G "x";
    (metadata spells the id without the extended flag: resolution is by CAN id) *)
Definition ex_pos (l : Z) : position := {| p_line := l; p_column := 1; p_offset := 0 |}.
Definition ex_msg : message_def :=
  {| m_pos := ex_pos 2; m_id := 2147483748; m_name := [77]; m_size := 8; m_transmitter := [78];
     m_signals := [wit_sig 65 16 1; wit_sig 66 8 2] |}.
Definition ex_defs : list def :=
  [ DNodes (ex_pos 1) [[78]];
    DMessage ex_msg;
    DComment {| cm_pos := ex_pos 5; cm_object := OtSignal; cm_node := []; cm_message_id := 100;
                cm_signal := [65]; cm_envvar := []; cm_comment := [99] |};
    DValueDescriptions {| vs_pos := ex_pos 6; vs_object := OtSignal; vs_message_id := 2147483748; vs_signal := [66];
                          vs_envvar := [];
                          vs_values := [ {| vd_pos := ex_pos 6; vd_value := 4611686018427387904; vd_description := [116] |};
                                         {| vd_pos := ex_pos 6; vd_value := 4607182418800017408; vd_description := [111] |} ] |};
    DAttributeValue {| av_pos := ex_pos 7; av_name := attr_send_type; av_object := OtMessage; av_message_id := 100;
                       av_signal := []; av_node := []; av_envvar := []; av_int := 0; av_float := 0;
                       av_string := [67; 89; 67; 76; 73; 67] |};
    DAttributeValue {| av_pos := ex_pos 8; av_name := attr_cycle_time; av_object := OtMessage; av_message_id := 100;
                       av_signal := []; av_node := []; av_envvar := []; av_int := 100; av_float := 0; av_string := [] |};
    DComment {| cm_pos := ex_pos 9; cm_object := OtNode; cm_node := [71]; cm_message_id := 0;
                cm_signal := []; cm_envvar := []; cm_comment := [120] |} ].

Example C05_nonvacuous :
  in_class ex_defs = true /\
  snd (compile [] ex_defs) = [(WNoNode, ex_pos 9)] /\
  map (fun m => (msg_id m, msg_extended m, msg_send_type m, msg_cycle_time m,
                 map (fun s => (s_name s, s_description s, map vdesc_value (s_value_descriptions s))) (msg_signals m)))
      (db_messages (fst (compile [] ex_defs)))
  = [(100, true, SendCyclic, 100000000, [([66], [], [1; 2]); ([65], [99], [])])] /\
  perm42 ex_defs (nth 0 ex_defs (DNodes (ex_pos 1) []) :: nth 1 ex_defs (DNodes (ex_pos 1) []) ::
                  nth 6 ex_defs (DNodes (ex_pos 1) []) :: nth 3 ex_defs (DNodes (ex_pos 1) []) ::
                  nth 4 ex_defs (DNodes (ex_pos 1) []) :: nth 5 ex_defs (DNodes (ex_pos 1) []) ::
                  [nth 2 ex_defs (DNodes (ex_pos 1) [])]).
Proof.
  split; [vm_compute; reflexivity|]. split; [vm_compute; reflexivity|]. split; [vm_compute; reflexivity|].
  unfold ex_defs. cbn [nth].
  match goal with |- perm42 (?d0 :: ?d1 :: ?d2 :: ?d3 :: ?d4 :: ?d5 :: [?d6]) _ =>
    exact (p42_swap_metadata [d0; d1] d2 [d3; d4; d5] d6 [] eq_refl eq_refl) end.
Qed.
