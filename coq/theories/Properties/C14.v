(** Property C14 - runner protocol: requests sent exactly once, toggles never lost, clean stop.
    Only the property theorems, each closed by [exact], each followed by [Print Assumptions].
    Model: Runner/Lts.v (LTS of run.go + generated channel code, any number of threads) and
    Runner/RunModel.v (receive loop and Run's result mapping as pure functions; error texts are
    [list ascii], [txt "..."] converts a literal).
    Proofs: Runner/Protocol.v.
    Per transmitter record x: t_acc = event requests accepted, t_tk = ticks taken, t_txd = frames
    transmitted, t_ab = transmissions aborted by a failing hook / TransmitFrame (which ends the
    thread); in_x pc = pc inside the transmit closure X1..X9; t_flag = isCyclicEnabled, t_last =
    its value read most recently under the lock, t_wake = token in the wake-up channel, t_armed =
    ticker running, t_tick = tick buffered, t_stale = ticks taken since the ticker was stopped.
    Runner/RunLts.v adds (proofs: Runner/RunProofs.v)
    - a timed layer over the LTS for the send deadline: per thread t, ts_clk = the clock reading
      it saw last, ts_hr = its clock reading when its before-transmit hook returned last, ts_dl =
      the deadline of the context handed to TransmitFrame (between WithTimeout at pc X9 and the
      return of TransmitFrame); timed events TE e (an LTS event other than Transmit), TStamp t c,
      TDeadline t c (WithTimeout: deadline := c + send_timeout (cycle t)), TTransmit t f ok d;
    - the LTS of Run itself (qstep: Cancel at any time - also before Run is called or during
      Connect -, ConnectCall, ConnectRet ok, Spawn n, WorkerRet ok, Close, Return ok; q_closes =
      calls of conn.Close(), q_live / q_closer = worker goroutines / closer goroutine still running).
    PARTIAL with respect to the property text (labelled, measured by the harness only): real time
    ("frames start within a bounded number of cycle times"; that the write of a frame finishes
    within its send timeout), goroutine leaks of the real runtime.  Termination after Cancel is
    proved under fairness hypotheses that are written out as Props in the statements
    (C14_cancel_reaches_done); that the Go scheduler IS fair is not. *)
From Coq Require Import Arith Bool List String Ascii ZArith.
From CanVerif Require Import Runner.Lts Runner.RunModel Runner.LockDiscipline Runner.Protocol Runner.RunLts Runner.RunProofs.
From CanVerif Require Import Dbc.Ast Runner.Program Runner.ProgramProofs Runner.ProgramLts Runner.ProgramLtsProofs Runner.ProgramLoop Runner.ProgramLoopProofs Runner.ProgramRun Runner.ProgramRunProofs.
Import ListNotations.

(** I4 exactly-once: accepted + ticks_taken - transmitted - aborted is 1 inside transmit, else 0 *)
Theorem C14_I4_exactly_once : forall cfg s t x,
  reachable cfg s -> th s t = TTx x ->
  t_txd x + t_ab x <= t_acc x + t_tk x <= t_txd x + t_ab x + 1 /\
  (t_acc x + t_tk x = t_txd x + t_ab x + 1 <-> in_x (t_pc x) = true).
Proof. exact I4_zero_or_one. Qed.
Print Assumptions C14_I4_exactly_once.

(** no frame without a request or a tick *)
Theorem C14_no_frame_without_trigger : forall cfg s t x,
  reachable cfg s -> th s t = TTx x -> t_txd x <= t_acc x + t_tk x.
Proof. exact no_frame_without_trigger. Qed.
Print Assumptions C14_no_frame_without_trigger.

(** from inside transmit every own step (the hook body's own locking / mutating excluded) strictly
    decreases the distance to {SEL, Done}: tx_rank X1 = 11, so an accepted request is transmitted or
    aborted within 11 own steps plus the hook body *)
Theorem C14_transmit_section_progress : forall s e s' t x,
  step_fn s e = Some s' -> th s t = TTx x -> actor e = Some t -> t_pc x <> SEL ->
  (forall m v, e <> Mutate t m v) -> (t_pc x = XHU -> e <> Lock t) ->
  exists x', th s' t = TTx x' /\ tx_rank (t_pc x') < tx_rank (t_pc x).
Proof. exact own_step_decreases_rank. Qed.
Print Assumptions C14_transmit_section_progress.

(** I5 no lost toggle: whatever the loop was doing when the flag was changed, the change is still
    announced (token), about to be read (T0,S1,S2), or its sender has not finished the call *)
Theorem C14_I5_no_lost_toggle : forall cfg s t x,
  reachable cfg s -> th s t = TTx x -> t_flag x <> t_last x ->
  t_wake x = true \/ pre_read (t_pc x) = true \/
  (exists a ap, th s a = TApp ap /\ a_pc ap = AMid t).
Proof. exact I5_no_lost_toggle. Qed.
Print Assumptions C14_I5_no_lost_toggle.

(** consequently a parked transmitter with no token and nobody mid-toggle has the ticker armed
    exactly when the flag is set (and the message is cyclic with a cycle time) *)
Theorem C14_I5_parked_ticker_matches_flag : forall cfg s t x,
  reachable cfg s -> th s t = TTx x -> t_pc x = SEL -> t_wake x = false ->
  (forall a ap, th s a = TApp ap -> a_pc ap <> AMid t) ->
  t_armed x = t_flag x && t_cyclic x.
Proof. exact I5_parked_ticker_matches_flag. Qed.
Print Assumptions C14_I5_parked_ticker_matches_flag.

(** [reachable cfg] ranges over initial configurations in which a transmitter's message may ALREADY
    be enabled with NO token in its wake-up channel (role RoleTxOn: enabled before an earlier run of
    the same node, which consumed the token; run / cancel / run again).  So: cyclic transmission
    that is enabled is in force whenever the loop is parked with nothing pending - also when it was
    enabled while no runner was running *)
Theorem C14_enabled_parked_is_armed : forall cfg s t x,
  reachable cfg s -> th s t = TTx x -> t_pc x = SEL -> t_wake x = false ->
  (forall a ap, th s a = TApp ap -> a_pc ap <> AMid t) ->
  t_flag x = true -> t_cyclic x = true -> t_armed x = true.
Proof. exact enabled_parked_is_armed. Qed.
Print Assumptions C14_enabled_parked_is_armed.

(** which messages get a ticker.  The cyclic bit of a transmitter role is computed from the
    descriptor: ticker_eligible send_type cycle = (send_type = 1 (cyclic)) && (0 < cycle),
    role_of_descriptor st cyc on = RoleTx / RoleTxOn (ticker_eligible st cyc).  A ticker is armed
    only for a message that is cyclic AND has a positive cycle time; any other message - event or
    no send type with a cycle time, cyclic without one - never has a ticker, never takes a tick, and
    every frame of it answers an event request, however often cyclic transmission is enabled on it *)
Theorem C14_armed_implies_eligible : forall st cyc on cfg s t x,
  reachable cfg s -> cfg t = role_of_descriptor st cyc on -> th s t = TTx x -> t_armed x = true ->
  st = 1 /\ (0 < cyc)%Z.
Proof. exact armed_implies_eligible. Qed.
Print Assumptions C14_armed_implies_eligible.

Theorem C14_not_eligible_frames_are_requests : forall cfg s t x,
  reachable cfg s -> role_cyclic (cfg t) = Some false -> th s t = TTx x ->
  t_armed x = false /\ t_tk x = 0 /\ t_txd x <= t_acc x.
Proof. exact not_eligible_frames_are_requests. Qed.
Print Assumptions C14_not_eligible_frames_are_requests.

(** I6: after a handled disable at most one, already buffered, tick is consumed *)
Theorem C14_I6_at_most_one_stale_tick : forall cfg s t x,
  reachable cfg s -> th s t = TTx x -> t_armed x = false ->
  t_stale x + (if t_tick x then 1 else 0) <= 1.
Proof. exact I6_at_most_one_stale_tick. Qed.
Print Assumptions C14_I6_at_most_one_stale_tick.

(** I7 stop: (a) cancellation is stable; (b) a parked transmitter can return nil exactly when
    cancelled and can never return an error from SEL; (c) after Done no own step is enabled - no
    new transmission starts - and (d) nothing that happens later moves its counters;
    (e,f) a failing hook / transmit leads to TFail, whose only own step is `return err` *)
Theorem C14_I7_cancel_stable : forall s e s',
  step_fn s e = Some s' -> cancelled s = true -> cancelled s' = true.
Proof. exact cancelled_stable. Qed.
Print Assumptions C14_I7_cancel_stable.

Theorem C14_I7_parked_returns_nil_iff_cancelled : forall s t x,
  th s t = TTx x -> t_pc x = SEL ->
  ((exists s', step_fn s (Done t true) = Some s') <-> cancelled s = true) /\ step_fn s (Done t false) = None.
Proof. exact sel_returns_nil_iff_cancelled. Qed.
Print Assumptions C14_I7_parked_returns_nil_iff_cancelled.

Theorem C14_I7_done_no_own_step : forall s e t x,
  th s t = TTx x -> t_pc x = TDone -> actor e = Some t -> step_fn s e = None.
Proof. exact done_no_own_step. Qed.
Print Assumptions C14_I7_done_no_own_step.

Theorem C14_I7_done_absorbing : forall s e s' t x,
  step_fn s e = Some s' -> th s t = TTx x -> t_pc x = TDone ->
  exists x', th s' t = TTx x' /\ t_pc x' = TDone /\
             t_acc x' = t_acc x /\ t_tk x' = t_tk x /\ t_txd x' = t_txd x /\ t_ab x' = t_ab x.
Proof. exact done_absorbing. Qed.
Print Assumptions C14_I7_done_absorbing.

Theorem C14_hook_error_ends_thread : forall s t s' x,
  step_fn s (HookRet t false) = Some s' -> th s t = TTx x ->
  exists x', th s' t = TTx x' /\ t_pc x' = TFail /\ t_ab x' = S (t_ab x) /\ t_txd x' = t_txd x.
Proof. exact hook_error_leads_to_failure. Qed.
Print Assumptions C14_hook_error_ends_thread.

Theorem C14_transmit_error_ends_thread : forall s t f s' x,
  step_fn s (Transmit t f false) = Some s' -> th s t = TTx x ->
  exists x', th s' t = TTx x' /\ t_pc x' = TFail /\ t_ab x' = S (t_ab x) /\ t_txd x' = t_txd x.
Proof. exact transmit_error_leads_to_failure. Qed.
Print Assumptions C14_transmit_error_ends_thread.

Theorem C14_failure_only_returns : forall s e s' t x,
  th s t = TTx x -> t_pc x = TFail -> actor e = Some t -> step_fn s e = Some s' -> e = Done t false.
Proof. exact failure_ends_thread. Qed.
Print Assumptions C14_failure_only_returns.

(** termination after Cancel, over the whole interleaving.  [runner_steps t s tr] counts the events
    thread t performs itself along the run of tr from s, the steps of its hook BODY (application
    code: Lock / Mutate / Unlock between HookCall and HookRet) excluded; [count_ev (sel_choice t) tr] =
    how often t's select took a wake-up, an event offer or a tick (instead of ctx.Done);
    [txr] = distance to Done (txr X1 = 12, txr SEL = 1, txr TDone = 0);
    [quiescent s t] := forall e s', is_actor t e = true -> step_fn s e <> Some s'.
    (1) in EVERY run the own runner steps are bounded; *)
Theorem C14_tx_steps_bounded : forall t tr s s' x,
  run s tr = Some s' -> th s t = TTx x ->
  exists x', th s' t = TTx x' /\
    runner_steps t s tr + txr (t_pc x') <= txr (t_pc x) + 12 * count_ev (sel_choice t) tr.
Proof. exact tx_steps_bounded. Qed.
Print Assumptions C14_tx_steps_bounded.

(** (2) a cancelled transmitter that has not returned always has an enabled own step when the lock
    is free or its own: hooks return, TransmitFrame returns, the select sees ctx.Done; *)
Theorem C14_tx_progress : forall cfg s t x,
  reachable cfg s -> cancelled s = true -> th s t = TTx x -> t_pc x <> TDone ->
  (owner s = None \/ owner s = Some t) ->
  exists e s', is_actor t e = true /\ step_fn s e = Some s'.
Proof. exact tx_progress. Qed.
Print Assumptions C14_tx_progress.

(** (3) hence, with the fairness hypotheses written out - at the end of the finite run the lock
    holders have released (mutex free or t's) and t was scheduled until nothing of t is enabled -
    every transmitter has reached Done after Cancel, within txr(pc) <= 12 own runner steps plus 12
    per select choice other than ctx.Done *)
Theorem C14_cancel_reaches_done : forall cfg s tr s' t x,
  reachable cfg s -> cancelled s = true -> run s tr = Some s' -> th s t = TTx x ->
  (owner s' = None \/ owner s' = Some t) -> quiescent s' t ->
  exists x', th s' t = TTx x' /\ t_pc x' = TDone /\
             runner_steps t s tr <= txr (t_pc x) + 12 * count_ev (sel_choice t) tr.
Proof. exact tx_cancel_reaches_done. Qed.
Print Assumptions C14_cancel_reaches_done.

(** the receiver likewise (Run closes the connection on cancellation, after which Receive()
    returns false): rxr R1 = 12, 10 further steps per frame still delivered *)
Theorem C14_receiver_reaches_done : forall cfg s tr s' t p,
  reachable cfg s -> run s tr = Some s' -> th s t = TRx p ->
  (owner s' = None \/ owner s' = Some t) -> quiescent s' t ->
  th s' t = TRx RDone /\ runner_steps t s tr <= rxr p + 10 * count_ev (recv_frame t) tr.
Proof. exact rx_reaches_done. Qed.
Print Assumptions C14_receiver_reaches_done.

(** receive path: the loop equals the declarative specification (frames with known IDs, in
    arrival order; those before the first failing one applied and hooked once each; the first
    failing one applied, hooked iff its unmarshal succeeded; nothing after it; unknown IDs skipped) *)
Theorem C14_receiver_meets_spec : forall fs end_ok,
  run_receiver fs end_ok = receiver_spec fs end_ok.
Proof. exact run_receiver_meets_spec. Qed.
Print Assumptions C14_receiver_meets_spec.

Theorem C14_receiver_applies_known_in_order : forall fs end_ok,
  (forall f, In f fs -> f_unm_ok f = true /\ f_hook_ok f = true) ->
  let (a, r) := run_receiver fs end_ok in
  applies_of a = map f_id (filter f_known fs) /\ hooks_of a = map f_id (filter f_known fs) /\
  r = (if end_ok then ResNil else ResRecv).
Proof. exact receiver_applies_known_in_order. Qed.
Print Assumptions C14_receiver_applies_known_in_order.

(** the LTS receiver performs exactly that loop, with one HookCall per ActHook *)
Theorem C14_receiver_lts_accepts_loop : forall cfg t fs end_ok,
  cfg t = RoleRx -> accepts cfg (rx_trace t fs end_ok) = true.
Proof. exact rx_trace_accepted. Qed.
Print Assumptions C14_receiver_lts_accepts_loop.

Theorem C14_receiver_hook_calls : forall t fs end_ok,
  count_hookcalls (rx_trace t fs end_ok) = List.length (hooks_of (fst (run_receiver fs end_ok))).
Proof. exact rx_trace_hook_calls. Qed.
Print Assumptions C14_receiver_hook_calls.

(** Run's result: cancellation (every goroutine returns nil or a connection-"closed" error) gives nil *)
Theorem C14_run_cancel_returns_nil : forall node results,
  (forall e, In (Some e) results -> contains (txt "closed") e = true) -> run_result node results = None.
Proof. exact run_cancel_returns_nil. Qed.
Print Assumptions C14_run_cancel_returns_nil.

(** a failing hook / unmarshal / transmit whose error text does not contain "closed" is returned *)
Theorem C14_run_error_returned : forall node e rest,
  contains (txt "closed") e = false -> run_result node (Some e :: rest) = run_spec node (Some e).
Proof. exact run_error_returned. Qed.
Print Assumptions C14_run_error_returned.

(** K1 (known finding): the hypothesis on the text is necessary - a hook error "valve closed" is
    mapped to nil by Run although the property demands that error *)
Theorem C14_run_error_refuted :
  exists e node, run_result node [Some (wrap_receiver e)] = None /\
                 run_spec node (Some (wrap_receiver e)) <> None /\ e = txt "valve closed".
Proof. exact run_error_refuted. Qed.

(** send deadline: in every reachable state of the timed layer (any configuration, interleaving and
    clock readings) the deadline handed to TransmitFrame is (a clock reading taken by the
    transmitter after its before-transmit hook returned, and not after the call) + the send timeout,
    where send_timeout cycle = cycle, or one second if the message has no cycle time.  The time the
    hook (or waiting for the node lock before it) takes is therefore never charged to the send
    timeout: an accepted request / due tick is not lost to an already expired deadline *)
Theorem C14_transmit_deadline_after_hook : forall cyc cfg ts t f ok d ts',
  treachable cyc cfg ts -> tstep cyc ts (TTransmit t f ok d) = Some ts' ->
  (ts_hr ts t + send_timeout (cyc t) <= d <= ts_clk ts t + send_timeout (cyc t))%Z.
Proof. exact transmit_deadline. Qed.
Print Assumptions C14_transmit_deadline_after_hook.

(** a frame is never handed to the frame transmitter without a deadline *)
Theorem C14_transmit_has_deadline : forall cyc ts e ts' t f ok,
  tstep cyc ts e = Some ts' -> untimed e = [Transmit t f ok] ->
  exists d, e = TTransmit t f ok d /\ ts_dl ts t = Some d.
Proof. exact transmit_has_deadline. Qed.
Print Assumptions C14_transmit_has_deadline.

(** the timed layer only adds observations: forgetting time a timed run is a run of the LTS (so
    every theorem above applies to it), and every accepted trace of the LTS is the image of one *)
Theorem C14_timed_refines : forall cyc tr ts ts',
  trun cyc ts tr = Some ts' -> run (ts_s ts) (flat_map untimed tr) = Some (ts_s ts').
Proof. exact timed_refines. Qed.
Print Assumptions C14_timed_refines.

Theorem C14_accepted_can_be_timed : forall cyc cfg tr,
  accepts cfg tr = true -> exists ttr ts', flat_map untimed ttr = tr /\ trun cyc (tinit cfg) ttr = Some ts'.
Proof. exact accepted_can_be_timed. Qed.
Print Assumptions C14_accepted_can_be_timed.

(** Run: on EVERY return path after a successful Connect - cancelled before Run was called, while
    Connect was in progress, while running, or stopped by a failing goroutine - conn.Close() has
    been called (exactly once) and every goroutine of the group has returned *)
Theorem C14_run_returns_clean : forall q,
  qreachable q -> q_pc q = QReturned -> q_connected q = true ->
  q_closes q = 1 /\ q_live q = 0 /\ q_closer q = false.
Proof. exact run_returns_clean. Qed.
Print Assumptions C14_run_returns_clean.

(** in particular Run cannot return between the successful Connect and the start of the group,
    and from g.Wait() only after the closer has closed the connection and all workers returned *)
Theorem C14_run_no_early_return : forall q ok, q_pc q = QConnected -> qstep q (QReturn ok) = None.
Proof. exact connected_no_early_return. Qed.
Print Assumptions C14_run_no_early_return.

Theorem C14_run_return_needs_close : forall q ok q',
  q_pc q = QRunning -> qstep q (QReturn ok) = Some q' -> q_closer q = false /\ q_live q = 0.
Proof. exact running_return_needs_close. Qed.
Print Assumptions C14_run_return_needs_close.

(** the connection is closed only after a cancellation or a failure; if Connect failed nothing is closed *)
Theorem C14_run_close_needs_stop : forall q,
  qreachable q -> q_closes q <> 0 -> q_cancelled q || q_failed q = true.
Proof. exact close_needs_stop. Qed.
Print Assumptions C14_run_close_needs_stop.

Theorem C14_run_no_conn_no_close : forall q,
  qreachable q -> q_connected q = false -> q_closes q = 0 /\ q_live q = 0 /\ q_closer q = false.
Proof. exact run_no_conn_no_close. Qed.
Print Assumptions C14_run_no_conn_no_close.

(** once cancelled, a Run that has been called and has not returned is never stuck *)
Theorem C14_run_cancel_not_stuck : forall q,
  qreachable q -> q_cancelled q = true -> q_pc q <> QStart -> q_pc q <> QReturned ->
  exists e q', e <> QCancel /\ qstep q e = Some q'.
Proof. exact run_cancel_enabled_path. Qed.
Print Assumptions C14_run_cancel_not_stuck.

(** non-vacuity: a cyclic transmitter (2) and an application (3): enable while parked, one tick
    transmitted, disable arriving while the loop is inside the hook (the toggle is not lost: it is
    handled when the loop is back in select), one stale tick, an event request, cancel.
    The trace is accepted; in its final state the counters balance; the receiver function on a
    mixed input stops at the first failing hook *)
Definition c14_cfg := cfg_of_list [(2, RoleTx true); (3, RoleApp)].
Definition c14_trace : list event :=
  [ TxInit 2; Lock 2; Access 2 (WFlag false); Unlock 2; Apply 2; GetWake 2;
    Lock 3; SetFlag 3 2 true; WakeSend 3 2; Unlock 3;
    Wake 2; Lock 2; Access 2 (WFlag true); Unlock 2; Apply 2;
    Tick 2; TickTake 2; Lock 2; Access 2 WHook; Access 2 WTime; Unlock 2; HookCall 2;
    Lock 3; SetFlag 3 2 false; WakeSend 3 2; Unlock 3; Tick 2;
    HookRet 2 true; Lock 2; Access 2 (WFrame 0); Unlock 2; Transmit 2 0 true;
    Wake 2; Lock 2; Access 2 (WFlag false); Unlock 2; Apply 2;
    TickTake 2; Lock 2; Access 2 WHook; Access 2 WTime; Unlock 2; HookCall 2; HookRet 2 true;
    Lock 2; Access 2 (WFrame 0); Unlock 2; Transmit 2 0 true;
    Offer 3 2; Accept 2 3; Lock 2; Access 2 WHook; Access 2 WTime; Unlock 2; HookCall 2; HookRet 2 true;
    Lock 2; Access 2 (WFrame 0); Unlock 2; Transmit 2 0 true;
    Cancel; Done 2 true ].
Example C14_nonvacuous :
  accepts c14_cfg c14_trace = true /\
  (match run (init c14_cfg) c14_trace with
   | Some s => match tx_of s 2 with
               | Some x => (t_acc x, t_tk x, t_txd x, t_ab x, t_stale x, t_armed x) = (1, 2, 3, 0, 1, false)
               | None => False end
   | None => False end) /\
  accepts c14_cfg (c14_trace ++ [TickTake 2]) = false /\
  run_receiver [mkRframe 5 true true true; mkRframe 9 false true true; mkRframe 6 true true false;
                mkRframe 7 true true true] true
  = ([ActApply 5; ActHook 5; ActApply 6; ActHook 6], ResHook 6).
Proof. vm_compute. repeat split. Qed.

(** non-vacuity of the additions: an event request whose hook returns at clock 700 (the request was
    accepted at 100) on a message with cycle time 50: the deadline 760 = 710 + 50 is accepted, the
    deadline 150 = 100 + 50 (derived from the transmit time taken before the hook) is not;
    a transmitter started with the flag already set and no wake-up token reads it and arms the
    ticker, it can neither skip the read nor read "false";
    Run cancelled during Connect closes the connection before it returns, and cannot return without *)
Definition c14_tcfg := cfg_of_list [(2, RoleTx false); (3, RoleApp)].
Definition c14_ttrace (base : Z) : list tevent :=
  [ TE (TxInit 2); TE (Lock 2); TE (Access 2 (WFlag false)); TE (Unlock 2); TE (Apply 2); TE (GetWake 2);
    TE (Offer 3 2); TE (Accept 2 3); TStamp 2 100; TE (Lock 2); TE (Access 2 WHook); TE (Access 2 WTime); TE (Unlock 2);
    TE (HookCall 2); TStamp 2 700; TE (HookRet 2 true); TE (Lock 2); TE (Access 2 (WFrame 0)); TE (Unlock 2);
    TDeadline 2 base; TStamp 2 720; TTransmit 2 0 true (base + 50) ].
Example C14_additions_nonvacuous :
  (match trun (fun _ => 50%Z) (tinit c14_tcfg) (c14_ttrace 710) with Some _ => True | None => False end) /\
  trun (fun _ => 50%Z) (tinit c14_tcfg) (c14_ttrace 100) = None /\
  (match qrun qinit [QConnectCall; QCancel; QConnectRet true; QSpawn 3; QClose; QWorkerRet true; QWorkerRet false; QWorkerRet true; QReturn true] with
   | Some q => q_clean q = true /\ q_closes q = 1
   | None => False end) /\
  accepts (cfg_of_list [(2, RoleTxOn true)])
    [TxInit 2; Lock 2; Access 2 (WFlag true); Unlock 2; Apply 2; GetWake 2; Tick 2; TickTake 2] = true /\
  accepts (cfg_of_list [(2, RoleTxOn true)]) [TxInit 2; GetWake 2] = false /\
  accepts (cfg_of_list [(2, RoleTxOn true)]) [TxInit 2; Lock 2; Access 2 (WFlag false)] = false /\
  (* a failure on a TICK-triggered transmission: accepted up to the error return, nothing after it *)
  accepts (cfg_of_list [(2, role_of_descriptor 1 1 true)])
    [TxInit 2; Lock 2; Access 2 (WFlag true); Unlock 2; Apply 2; GetWake 2; Tick 2; TickTake 2;
     Lock 2; Access 2 WHook; Access 2 WTime; Unlock 2; HookCall 2; HookRet 2 false; Done 2 false] = true /\
  accepts (cfg_of_list [(2, role_of_descriptor 1 1 true)])
    [TxInit 2; Lock 2; Access 2 (WFlag true); Unlock 2; Apply 2; GetWake 2; Tick 2; TickTake 2;
     Lock 2; Access 2 WHook; Access 2 WTime; Unlock 2; HookCall 2; HookRet 2 false; Tick 2; TickTake 2] = false /\
  (* an event message with a cycle time, a cyclic message without one: enabled, never a tick *)
  accepts (cfg_of_list [(2, role_of_descriptor 2 1000000 true)])
    [TxInit 2; Lock 2; Access 2 (WFlag true); Unlock 2; Apply 2; GetWake 2; Tick 2] = false /\
  accepts (cfg_of_list [(2, role_of_descriptor 1 0 true)])
    [TxInit 2; Lock 2; Access 2 (WFlag true); Unlock 2; Apply 2; GetWake 2; Tick 2] = false /\
  qrun qinit [QCancel; QConnectCall; QConnectRet true; QReturn true] = None /\
  qrun qinit [QCancel; QConnectCall; QConnectRet true; QSpawn 3; QWorkerRet true; QWorkerRet true; QWorkerRet true; QReturn true] = None.
Proof. vm_compute. repeat split. Qed.

(** ACTION-SEQUENCE TIE (DESIGN.md 9.6; Runner/Program.v).  The reference action programs of RunMessageTransmitter, its
    closures and the generated message methods are compared node by node with the extraction of the CURRENT source on every
    run; these are the structural facts of the reference programs the protocol model (Lts.v: S1..S4, SEL, X1..X9) rests on.
    [paths p fuel pc] = all complete paths of the program graph from pc; [actions_on p path] = the classes of the lock /
    unlock / message / hook / blocking / closure-call / select nodes along a path.
    transmit closure: three complete paths, ending in node 6 (hook failed), 14 (TransmitFrame failed), 15 (return nil); the
    last two perform exactly Lock, BeforeTransmitHook(), SetTransmitTime, Unlock, hook(ctx), Lock, Frame(), Unlock,
    TransmitFrame - each once, in this order: one accepted request = one frame, marshalled after the hook returned *)
Theorem C14_prog_transmit_paths :
  forallb (fun path =>
    let acts := actions_on p_RunMessageTransmitter_transmit path in
    match last_of path with
    | 6 => clslist_eqb acts [CLock; CMsg; CMsg; CUnlock; CHook]
    | 14 | 15 => clslist_eqb acts [CLock; CMsg; CMsg; CUnlock; CHook; CLock; CMsg; CUnlock; CBlock]
    | _ => false
    end) (paths p_RunMessageTransmitter_transmit 40 0) = true
  /\ List.length (paths p_RunMessageTransmitter_transmit 40 0) = 3.
Proof. exact transmit_paths. Qed.
Print Assumptions C14_prog_transmit_paths.

(** the select (node 13) has the four arms ctx.Done -> return nil; wake-up -> setCyclicTransmission() -> select; event and
    tick -> transmit() ONCE -> error: return it | nil: select *)
Theorem C14_prog_select_arms :
  (match nth_error p_RunMessageTransmitter 13 with
   | Some n => cls_eqb (n_cls n) CSelect && natlist_eqb (n_succ n) [14; 15; 16; 19]
   | None => false end) = true
  /\ map (fun pc => match nth_error p_RunMessageTransmitter pc with Some n => (n_cls n, n_succ n) | None => (CRet, [99]) end)
         [14; 15; 16; 17; 18; 19; 20; 21]
     = [(CRet, []); (CCallFn, [13]); (CCallFn, [17]); (CTest, [18; 13]); (CRet, []); (CCallFn, [20]); (CTest, [21; 13]); (CRet, [])]
  /\ bytes_eqb (text_at p_RunMessageTransmitter 16) (text_at p_RunMessageTransmitter 19) = true
  /\ cls_at p_RunMessageTransmitter 16 = Some CCallFn /\ cls_at p_RunMessageTransmitter 15 = Some CCallFn.
Proof. exact select_arms. Qed.
Print Assumptions C14_prog_select_arms.

(** ticker: created on exactly one path of enableCyclicTransmission - the false branch of the guard (node 2:
    !isCyclic || !hasCycleTime || ticker != nil, with isCyclic / hasCycleTime defined by nodes 0 / 1 as SendType == cyclic /
    CycleTime > 0); disable: Stop and nil on exactly the non-nil path; setCyclicTransmission: Lock, flag read, Unlock, then
    exactly one of enable / disable *)
Theorem C14_prog_ticker_paths :
  paths p_RunMessageTransmitter_enableCyclicTransmission 20 0 = [[0; 1; 2; 3]; [0; 1; 2; 4; 5; 6]]
  /\ paths p_RunMessageTransmitter_disableCyclicTransmission 20 0 = [[0; 1]; [0; 2; 3; 4]]
  /\ paths p_RunMessageTransmitter_setCyclicTransmission 20 0 = [[0; 1; 2; 3; 4; 6]; [0; 1; 2; 3; 5; 6]]
  /\ map (actions_on p_RunMessageTransmitter_setCyclicTransmission) (paths p_RunMessageTransmitter_setCyclicTransmission 20 0)
     = [[CLock; CMsg; CUnlock; CCallFn]; [CLock; CMsg; CUnlock; CCallFn]].
Proof. exact ticker_paths. Qed.
Print Assumptions C14_prog_ticker_paths.

(** generated message methods other than Transmit: no Lock/Unlock, hook call, blocking action or blocking select at all
    (SetCyclicTransmissionEnabled's wake-up send is a select WITH default) *)
Theorem C14_prog_generated_methods_passive :
  forallb gen_prog_passive
    [p_gen_Tx_init; p_gen_Tx_SetBeforeTransmitHook; p_gen_Tx_BeforeTransmitHook; p_gen_Tx_TransmitTime; p_gen_Tx_SetTransmitTime;
     p_gen_Tx_IsCyclicTransmissionEnabled; p_gen_Tx_SetCyclicTransmissionEnabled; p_gen_Tx_WakeUpChan; p_gen_Tx_TransmitEventChan;
     p_gen_Rx_init; p_gen_Rx_SetAfterReceiveHook; p_gen_Rx_AfterReceiveHook; p_gen_Rx_ReceiveTime; p_gen_Rx_SetReceiveTime] = true.
Proof. exact gen_tx_progs_passive. Qed.
Print Assumptions C14_prog_generated_methods_passive.

Theorem C14_extracted_equal_is_reference : forall p q, first_diff p q = None -> p = q.
Proof. exact first_diff_none_eq. Qed.
Print Assumptions C14_extracted_equal_is_reference.

Example C14_action_programs_nonvacuous :
  cls_at p_gen_Tx_SetCyclicTransmissionEnabled 2 = Some CTrySel /\ cls_at p_gen_Tx_Transmit 1 = Some CSelect /\
  gen_prog_passive p_gen_Tx_Transmit = false /\
  first_diff p_RunMessageTransmitter_disableCyclicTransmission
             [mkNode CTest (text_at p_RunMessageTransmitter_disableCyclicTransmission 0) [1; 2];
              mkNode CRet (text_at p_RunMessageTransmitter_disableCyclicTransmission 1) [];
              mkNode CCall (text_at p_RunMessageTransmitter_disableCyclicTransmission 2) [3];
              mkNode CRet (text_at p_RunMessageTransmitter_disableCyclicTransmission 4) []] = Some 3.
Proof. vm_compute. repeat split. Qed.

(** REFINEMENT of the transmit closure's action program by the LTS (Runner/ProgramLts.v): [tx_next t x c o b] = the step of
    thread t in [p_RunMessageTransmitter_transmit] from configuration c while its transmitter record is x (node 8 `f :=
    m.Frame()` shows Access (WFrame (t_content x)), node 11 `tx.TransmitFrame` shows Transmit (t_snap x) o; WithTimeout and
    cancel() are silent); [tx_abs] maps configurations to X1..X9, XHU, XHL and, from the answer of TransmitFrame / a failed
    hook on, to SEL / TFail.  Silent steps stutter; every visible step is a transition of [step_fn] of thread t into a
    transmitter record whose pc is the abstraction of the new configuration - so I4 (exactly-once accounting), the order
    HookRet < Frame < Transmit and the "frame = content at Frame()" theorems are theorems about the closure's executions. *)
Theorem C14_transmit_program_refines_lts : forall t x c o b e c' s,
  tx_next t x c o b = Some (e, c') -> th s t = TTx x -> t_pc x = tx_abs c ->
  match e with
  | None => tx_abs c' = tx_abs c
  | Some ev => (forall u, ev = Lock u -> owner s = None) ->
      exists s', step_fn s ev = Some s' /\ (exists x', th s' t = TTx x' /\ t_pc x' = tx_abs c')
                 /\ (forall u, u <> t -> th s' u = th s u)
                 /\ owner s' = match ev with Lock _ => Some t | Unlock _ => None | _ => owner s end
  end.
Proof. exact transmit_refines. Qed.
Print Assumptions C14_transmit_program_refines_lts.

Theorem C14_transmit_program_step_reachable : forall cfg t x c o b ev c' s,
  reachable cfg s -> th s t = TTx x -> t_pc x = tx_abs c -> tx_next t x c o b = Some (Some ev, c') ->
  (forall u, ev = Lock u -> owner s = None) ->
  exists s' x', step_fn s ev = Some s' /\ reachable cfg s' /\ th s' t = TTx x' /\ t_pc x' = tx_abs c'.
Proof. exact transmit_step_reachable. Qed.
Print Assumptions C14_transmit_program_step_reachable.

Example C14_transmit_refinement_nonvacuous :
  tx_abs (mkL 0 true 0) = X1 /\
  tx_next 2 (with_content (init_tx false) 9) (mkL 8 true 0) true false
    = Some (Some (Access 2 (WFrame 9)), mkL 9 true 0) /\
  tx_next 2 (with_snap (init_tx false) 9) (mkL 11 true 0) false false
    = Some (Some (Transmit 2 9 false), mkL 12 false 0) /\
  tx_abs (mkL 12 false 0) = TFail /\ tx_abs (mkL 16 true 0) = SEL.
Proof. vm_compute. repeat split. Qed.

(** REFINEMENT of the whole transmitter (Runner/ProgramLoop.v): the five reference programs linked through their `callfn`
    nodes.  [tnext dc dt t x c o b arm a] = the step of thread t from configuration c = (function + return address, pc, ok,
    hook phase, local isCyclicTransmissionEnabled, local "ticker != nil"); dc / dt = SendType == cyclic / CycleTime > 0;
    arm = the select case taken (0 done, 1 wake-up, 2 event offered by application a, 3 tick).  [sim dc dt c x]: the LTS
    record x has pc [tabs c] (T0, S1..S4, T1, SEL, X1..X9, TFail, TDone), t_armed = the program's "ticker != nil",
    t_cyclic = dc && dt, t_gotwake = WakeUpChan() already fetched, and t_last = the flag value the program branches on.
    [enabled]: the environment's side of an event (mutex free for Lock, context cancelled for Done true, token / tick /
    offer present for the select cases).  Every silent step keeps [sim]; every visible step is a [step_fn] transition of t
    into a record that is again in [sim] - in particular the single [Apply] of the LTS (ticker armed iff flag && cyclic &&
    cycle time > 0 && not yet armed; disarmed iff not flag && armed) is exactly what the paths through enable / disable do,
    the done arm returns nil only when cancelled, wake-up re-reads the flag under the lock, the event and tick arms run the
    transmit closure once and an error ends the thread. *)
Theorem C14_transmitter_loop_refines_lts : forall dc dt t x c o b arm a e c' s,
  tnext dc dt t x c o b arm a = Some (e, c') -> th s t = TTx x -> sim dc dt c x ->
  match e with
  | None => sim dc dt c' x
  | Some ev => enabled s t x ev ->
               exists s' x', step_fn s ev = Some s' /\ th s' t = TTx x' /\ sim dc dt c' x'
  end.
Proof. exact transmitter_loop_refines. Qed.
Print Assumptions C14_transmitter_loop_refines_lts.

Example C14_transmitter_loop_nonvacuous :
  sim true true (mkT FMain 0 true 0 false false) (init_tx true) /\
  tnext true true 2 (init_tx true) (mkT FMain 10 true 0 false false) true false 0 0
    = Some (Some (TxInit 2), mkT FMain 11 true 0 false false) /\
  tnext true true 2 (init_tx true) (mkT FMain 11 true 0 false false) true false 0 0
    = Some (None, mkT (FSet true) 0 true 0 false false) /\
  tnext true true 2 (init_tx true) (mkT (FEn true) 4 true 0 true false) true false 0 0
    = Some (Some (Apply 2), mkT (FEn true) 5 true 0 true true) /\
  tnext true false 2 (init_tx false) (mkT (FEn true) 2 true 0 true false) true false 0 0
    = Some (None, mkT (FEn true) 3 true 0 true false) /\
  tnext true true 2 (init_tx true) (mkT FMain 13 true 0 false false) true false 2 7
    = Some (Some (Accept 2 7), mkT FMain 16 true 0 false false) /\
  tnext true true 2 (init_tx true) (mkT (FTx false) 15 true 0 false false) true false 0 0
    = Some (None, mkT FMain 17 true 0 false false).
Proof. vm_compute. repeat split; reflexivity. Qed.

(** WHOLE EXECUTIONS.  [own t ev] = ev is a step of thread t itself; any other event of the alphabet is the environment's
    (other runner threads, application Lock/Unlock/SetFlag/WakeSend/Offer/Mutate, the ticker's Tick, Cancel).  An
    environment transition leaves thread t's record unchanged in every field [sim] looks at (pc, armed, cyclic, gotwake,
    last-read flag) ... *)
Theorem C14_environment_keeps_sim : forall t ev s s' x,
  own t ev = false -> step_fn s ev = Some s' -> th s t = TTx x ->
  exists x', th s' t = TTx x' /\
    (t_pc x' = t_pc x /\ t_armed x' = t_armed x /\ t_cyclic x' = t_cyclic x /\ t_gotwake x' = t_gotwake x /\ t_last x' = t_last x).
Proof. exact env_keeps_sim. Qed.
Print Assumptions C14_environment_keeps_sim.

(** ... hence, by induction over the trace: ANY interleaving [texec] of silent program steps, visible program steps (taken
    when the environment enables them) and environment transitions, started in a configuration related to the LTS state by
    [sim], is a run of the LTS ([run s tr = Some s2]) and ends related by [sim] again; from a reachable state it ends in a
    reachable state - so every invariant of Protocol.v / LockDiscipline.v holds along executions of the linked programs *)
Theorem C14_transmitter_program_execution_refines_lts : forall dc dt t c s tr c2 s2,
  texec dc dt t c s tr c2 s2 -> forall x, th s t = TTx x -> sim dc dt c x ->
  run s tr = Some s2 /\ exists x2, th s2 t = TTx x2 /\ sim dc dt c2 x2.
Proof. exact transmitter_execution_refines. Qed.
Print Assumptions C14_transmitter_program_execution_refines_lts.

Theorem C14_transmitter_program_execution_reachable : forall cfg dc dt t c s tr c2 s2 x,
  reachable cfg s -> texec dc dt t c s tr c2 s2 -> th s t = TTx x -> sim dc dt c x -> reachable cfg s2.
Proof. exact transmitter_execution_reachable. Qed.
Print Assumptions C14_transmitter_program_execution_reachable.

(** Run's own action program against the Run-level LTS (Runner/ProgramRun.v): [run_next q c o] = the step of p_Run from
    configuration c = (pc, ok, inside Connect?, g.Go(go3) calls so far); [rabs] maps pcs to QStart .. QReturned; [rsim]
    additionally records, after g.Wait() returned, that the group is empty and err = nil iff no worker failed;
    [renabled]: g.Wait() (node 9) is passed only when every goroutine of the group has returned.  Silent steps keep [rsim],
    visible steps (QConnectCall, QConnectRet, QSpawn (1 + transmitters) when the range loop is left, QReturn) are [qstep]
    transitions into [rsim].  The goroutine bodies show QClose / QWorkerRet.  Granularity difference (not a behavioural
    disagreement): the LTS starts the group by one QSpawn, the program by separate g.Go nodes 4, 5, 8. *)
Theorem C14_run_program_refines_lts : forall q c o e c',
  run_next q c o = Some (e, c') -> rsim c q -> renabled c q ->
  match e with
  | None => rsim c' q
  | Some ev => exists q', qstep q ev = Some q' /\ rsim c' q'
  end.
Proof. exact run_program_refines. Qed.
Print Assumptions C14_run_program_refines_lts.

Theorem C14_run_goroutine_bodies :
  go1_next 0 = Some (None, 1) /\ go1_next 1 = Some (Some QClose, 2) /\
  (forall o, worker_next p_Run_go2 0 o = Some (None, 1) /\ worker_next p_Run_go2 1 o = Some (Some (QWorkerRet o), 2)) /\
  (forall o, worker_next p_Run_go3 0 o = Some (None, 1) /\ worker_next p_Run_go3 1 o = Some (Some (QWorkerRet o), 2)).
Proof. exact goroutine_bodies. Qed.
Print Assumptions C14_run_goroutine_bodies.

Example C14_run_program_nonvacuous :
  rsim (mkR 0 true 0 0) qinit /\
  run_next qinit (mkR 0 true 0 0) true = Some (Some QConnectCall, mkR 0 true 1 0) /\
  run_next qinit (mkR 6 true 0 2) false = Some (Some (QSpawn 3), mkR 9 true 0 2) /\
  run_next qinit (mkR 13 false 0 2) true = Some (Some (QReturn false), mkR 15 false 0 2).
Proof. vm_compute. repeat split; reflexivity. Qed.
