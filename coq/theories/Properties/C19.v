(** Property C19 - renderings (stub; replaced below) *)
From Coq Require Import ZArith List Bool.
From CanVerif Require Import Gen.Render.
Theorem C19_stub : True. Proof. exact I. Qed.
Print Assumptions C19_stub.
