(** Property C19 - text, JSON and HTTP debug renderings report exactly what is in the frame.
    Only property theorems, each closed by [exact], each followed by [Print Assumptions].

    Model: Gen/Render.v ([text_multiline_data] = cantext.Marshal, [text_compact_data] = cantext.MarshalCompact /
    MessageString / generated String(), [json_render_with uint_to_json] = canjson.Marshal (after fix F7),
    [debug_message] / [debug_page] = candebug.appendMessage / ServeMessagesHTTP), all on the payload [d] of
    m.Frame() ([text_compact m st = text_compact_data m (fr_data (frame_of m st))] etc.).
    A rendering is a list of segments; [Lit b] is literal text, [FloatG bits] / [FloatF bits] stand for
    strconv.AppendFloat(..,'g',-1,64) / FormatFloat(..,'f',-1,64) of the float64 with these bits,
    [GoJSONString b] for encoding/json's encoding of the string b, [GoDuration ns] for time.Duration.String().
    Readers: Descriptor/Signal.v [unmarshal_unsigned] / [unmarshal_signed] / [unmarshal_bool] (= the C01 reads,
    Descriptor/SignalProofs.v), physical values: Descriptor/Physical.v [to_physical] (C09 model, Flocq binary64).
    Printers: Gen/RenderNum.v [hex_u] (minimal lower-case hex), [dec_u]/[dec_s] (decimal) over Base/Dec.v, Hex.v.
    [join sep blocks] = b1 ++ sep ++ b2 ++ ... ++ bn (Gen/RenderSpec.v). *)
From Coq Require Import ZArith List Bool.
From Flocq Require Import BinarySingleNaN.
From CanVerif Require Import Base.Dec Base.Hex Can.Data Can.DataSpec.
From CanVerif Require Import Descriptor.Signal Descriptor.SignalProofs Descriptor.Physical.
From CanVerif Require Import Gen.Message Gen.RenderNum Gen.Render Gen.RenderSpec Gen.RenderProofs.
Import ListNotations.
Open Scope Z_scope.

(** * Every signal of the descriptor appears exactly once, in descriptor order *)

(** compact text: "{" b1 ", " b2 ... "}" with one block per signal of the descriptor *)
Theorem C19_compact_every_signal_once_in_order : forall m d,
  text_compact_data m d =
  [Lit t_lbrace] ++ join [Lit t_comma_sp] (map (fun s => text_compact_signal s d) (msg_signals m)) ++ [Lit t_rbrace].
Proof. exact text_compact_blocks. Qed.
Print Assumptions C19_compact_every_signal_once_in_order.

(** multi-line text: the message name, then newline + tab + block for every signal *)
Theorem C19_multiline_every_signal_once_in_order : forall m d,
  text_multiline_data m d =
  Lit (msg_name m) :: concat (map (fun s => Lit t_nl_tab :: text_signal s d) (msg_signals m)).
Proof. exact text_multiline_blocks. Qed.
Print Assumptions C19_multiline_every_signal_once_in_order.

(** JSON: "{" member "," member ... "}" with one member per signal; an error iff a member fails *)
Theorem C19_json_every_signal_once_in_order : forall uj m d,
  json_render_with uj m d =
  match all_some (map (fun s => json_member uj s d) (msg_signals m)) with
  | Some members => Some ([Lit t_lbrace] ++ join [Lit t_comma] members ++ [Lit t_rbrace])
  | None => None
  end.
Proof. exact json_render_blocks. Qed.
Print Assumptions C19_json_every_signal_once_in_order.

(** debug page, one message: header lines, then the multi-line blocks separated by newlines *)
Theorem C19_debug_every_signal_once_in_order : forall w m d,
  debug_message w m d = debug_header w m ++ join [Lit t_nl] (map (fun s => text_signal s d) (msg_signals m)).
Proof. exact debug_message_blocks. Qed.
Print Assumptions C19_debug_every_signal_once_in_order.

(** * Text blocks: raw value, physical value, unit, value description *)

(** unsigned multi-bit signal:  name ": " g(ToPhysical(float64 u)) unit " (" "0x" hex(u) ")" [" " description]
    with u the unsigned read of the signal's layout *)
Theorem C19_text_unsigned : forall s d,
  s_length s <> 1 -> s_signed s = false ->
  let u := unmarshal_unsigned s d in
  text_signal s d =
  [Lit (s_name s); Lit t_colon_sp; FloatG (bits_of_f64 (to_physical s (f64_of_Z u))); Lit (s_unit s);
   Lit t_open_paren; Lit t_0x; Lit (hex_u u); Lit t_close_paren] ++ vd_suffix s d.
Proof. exact text_signal_unsigned. Qed.
Print Assumptions C19_text_unsigned.

(** signed multi-bit signal: the raw value is printed as its 64-bit two's complement in hex *)
Theorem C19_text_signed : forall s d,
  s_length s <> 1 -> s_signed s = true ->
  let v := unmarshal_signed s d in
  text_signal s d =
  [Lit (s_name s); Lit t_colon_sp; FloatG (bits_of_f64 (to_physical s (f64_of_Z v))); Lit (s_unit s);
   Lit t_open_paren; Lit t_0x; Lit (hex_u (v mod 2 ^ 64)); Lit t_close_paren] ++ vd_suffix s d.
Proof. exact text_signal_signed. Qed.
Print Assumptions C19_text_signed.

(** 1-bit signal: "true"/"false" (no raw value and NO unit is printed for these), then the description *)
Theorem C19_text_bool : forall s d,
  s_length s = 1 ->
  text_signal s d = [Lit (s_name s); Lit t_colon_sp; Lit (bool_text (unmarshal_bool s d))] ++ vd_suffix s d.
Proof. exact text_signal_bool. Qed.
Print Assumptions C19_text_bool.

(** the printed hex parses back (strconv.ParseUint base 16, 64 bits) to the value read, full range *)
Theorem C19_text_raw_unsigned_parses_back : forall s d,
  1 <= s_length s <= 64 ->
  let u := unmarshal_unsigned s d in
  parse_uint (hex_u u) 16 64 = PU_ok u /\ 0 <= u < 2 ^ s_length s.
Proof. exact text_raw_unsigned_parse. Qed.
Print Assumptions C19_text_raw_unsigned_parses_back.

Theorem C19_text_raw_signed_parses_back : forall s d,
  1 <= s_length s <= 64 ->
  let v := unmarshal_signed s d in
  parse_uint (hex_u (v mod 2 ^ 64)) 16 64 = PU_ok (v mod 2 ^ 64) /\
  i64_of_u64 (v mod 2 ^ 64) = v /\
  v = sext (s_length s) (unmarshal_unsigned s d).
Proof. exact text_raw_signed_parse. Qed.
Print Assumptions C19_text_raw_signed_parses_back.

(** in the documented bit numbering (C01): bit i of the number the hex text denotes is payload bit
    [sig_pos s i] for i < length and 0 above *)
Theorem C19_text_raw_is_the_payload_bits : forall s d i,
  valid_data d -> sig_fits s -> 0 <= i ->
  Z.testbit (hex_value (hex_u (unmarshal_unsigned s d))) i = (i <? s_length s) && pbit d (sig_pos s i).
Proof. exact text_raw_unsigned_bits. Qed.
Print Assumptions C19_text_raw_is_the_payload_bits.

(** compact block: a matching value description replaces value AND unit; otherwise value + unit *)
Theorem C19_compact_block : forall s d,
  text_compact_signal s d =
  [Lit (s_name s); Lit t_colon_sp] ++
  match unmarshal_value_description s d with
  | Some t => [Lit t]
  | None =>
    if s_length s =? 1 then [Lit (bool_text (unmarshal_bool s d))]
    else [FloatG (bits_of_f64 (to_physical s (f64_of_Z
            (if s_signed s then unmarshal_signed s d else unmarshal_unsigned s d)))); Lit (s_unit s)]
  end.
Proof. exact text_compact_signal_spec. Qed.
Print Assumptions C19_compact_block.

(** * Value descriptions: shown iff one is defined for the value read *)
(** the key looked up is the signed read, or the unsigned read converted to int64 *)
Theorem C19_value_description_lookup : forall s d,
  unmarshal_value_description s d =
  value_description (s_value_descriptions s)
    (if s_signed s then unmarshal_signed s d else i64_of_u64 (unmarshal_unsigned s d)).
Proof. exact unmarshal_value_description_key. Qed.
Print Assumptions C19_value_description_lookup.

Theorem C19_description_suffix : forall s d,
  vd_suffix s d =
  match unmarshal_value_description s d with Some t => [Lit t_space; Lit t] | None => [] end.
Proof. exact vd_suffix_def. Qed.
Print Assumptions C19_description_suffix.

(** defined (values pairwise distinct, DESIGN.md 4.3) => the text of that definition is returned *)
Theorem C19_value_description_defined : forall vds vd,
  NoDup (map vdesc_value vds) -> In vd vds -> value_description vds (vdesc_value vd) = Some (vdesc_text vd).
Proof. exact value_description_in. Qed.
Print Assumptions C19_value_description_defined.

(** not defined <=> nothing is returned *)
Theorem C19_value_description_undefined : forall vds v,
  value_description vds v = None <-> forall vd, In vd vds -> vdesc_value vd <> v.
Proof. exact value_description_none. Qed.
Print Assumptions C19_value_description_undefined.

(** * JSON members *)
(** unsigned multi-bit signal: Raw = decimal of the unsigned read (AS UNSIGNED, up to 2^64-1),
    Physical = ToPhysical(float64 u) *)
Theorem C19_json_unsigned : forall s d,
  s_length s <> 1 -> s_signed s = false ->
  let u := unmarshal_unsigned s d in
  json_signal_value uint_to_json s d =
  (dec_u u, to_physical s (f64_of_Z u), value_description (s_value_descriptions s) (i64_of_u64 u)).
Proof. exact json_value_unsigned_key. Qed.
Print Assumptions C19_json_unsigned.

Theorem C19_json_signed : forall uj s d,
  s_length s <> 1 -> s_signed s = true ->
  let v := unmarshal_signed s d in
  json_signal_value uj s d =
  (dec_s v, to_physical s (f64_of_Z v), value_description (s_value_descriptions s) v).
Proof. exact json_value_signed_key. Qed.
Print Assumptions C19_json_signed.

Theorem C19_json_bool : forall uj s d,
  s_length s = 1 ->
  let v := if unmarshal_bool s d then 1 else 0 in
  json_signal_value uj s d =
  (dec_u v, to_physical s (f64_of_Z v), value_description (s_value_descriptions s) v).
Proof. exact json_value_bool. Qed.
Print Assumptions C19_json_bool.

(** the decimal text parses back (ParseUint base 10 / Atoi) to the value read, over the full range *)
Theorem C19_json_raw_unsigned_parses_back : forall s d,
  1 <= s_length s <= 64 ->
  parse_uint (dec_u (unmarshal_unsigned s d)) 10 64 = PU_ok (unmarshal_unsigned s d).
Proof. exact json_raw_unsigned_parse. Qed.
Print Assumptions C19_json_raw_unsigned_parses_back.

Theorem C19_json_raw_signed_parses_back : forall s d,
  1 <= s_length s <= 64 -> atoi (dec_s (unmarshal_signed s d)) = Some (unmarshal_signed s d).
Proof. exact json_raw_signed_parse. Qed.
Print Assumptions C19_json_raw_signed_parses_back.

(** the object of one signal: Raw, Physical, Unit iff the unit is non-empty, Description iff a
    (non-empty) description is defined for the value; an error iff the physical value is not finite *)
Theorem C19_json_object : forall uj s d,
  json_signal_object uj s d =
  let '(raw, phys, desc) := json_signal_value uj s d in
  if is_finite phys then
    Some ([Lit t_raw_key; Lit raw; Lit t_physical_key; FloatF (bits_of_f64 phys)] ++
          (match s_unit s with [] => [] | _ => [Lit t_unit_key; GoJSONString (s_unit s)] end) ++
          (match desc with
           | Some (c :: t) => [Lit t_description_key; GoJSONString (c :: t)]
           | _ => []
           end) ++ [Lit t_rbrace])
  else None.
Proof. exact json_signal_object_spec. Qed.
Print Assumptions C19_json_object.

Theorem C19_json_error_iff_not_finite : forall uj m d,
  (exists segs, json_render_with uj m d = Some segs) <->
  Forall (fun s => is_finite (snd (fst (json_signal_value uj s d))) = true) (msg_signals m).
Proof. exact json_render_some_iff. Qed.
Print Assumptions C19_json_error_iff_not_finite.

(** * The JSON rendering is valid JSON
    [rF], [rJ] are the texts of strconv.FormatFloat(f,'f',-1,64) and of encoding/json's string encoder;
    the two hypotheses are exactly what these library routines are trusted for (checked on every
    rendered value by the correspondence run). [json_value] is the RFC 8259 grammar (objects, strings,
    numbers, no whitespace) of Gen/RenderSpec.v; signal names must be printable without escaping
    (canjson appends them unescaped; every DBC identifier qualifies). *)
Theorem C19_json_valid : forall (rG rF : Z -> bytes) (rJ : bytes -> bytes) (rD : Z -> bytes),
  (forall p : f64, is_finite p = true -> json_number (rF (bits_of_f64 p))) ->
  (forall b, json_string (rJ b)) ->
  forall m d segs,
  Forall (fun s => json_plain_name (s_name s)) (msg_signals m) ->
  json_render_with uint_to_json m d = Some segs ->
  json_value (render rG rF rJ rD segs).
Proof. exact json_render_valid_fixed. Qed.
Print Assumptions C19_json_valid.

(** * candebug: which messages a page shows *)
(** the first message named like the last element of the URL path, alone ... *)
Theorem C19_debug_page_single : forall path pre e post,
  (forall x, In x pre -> msg_name (entry_message x) <> path_base path) ->
  msg_name (entry_message e) = path_base path ->
  debug_page path (pre ++ e :: post) = debug_message (fst (fst e)) (snd (fst e)) (snd e).
Proof. exact debug_page_single. Qed.
Print Assumptions C19_debug_page_single.

(** ... all messages in the order given, separated by two empty lines, when no name matches *)
Theorem C19_debug_page_all : forall path es,
  (forall e, In e es -> msg_name (entry_message e) <> path_base path) ->
  debug_page path es =
  join [Lit t_nl3] (map (fun e : entry => debug_message (fst (fst e)) (snd (fst e)) (snd e)) es).
Proof. exact debug_page_all. Qed.
Print Assumptions C19_debug_page_all.

(** the last path element: the text after the last slash, trailing slashes ignored *)
Theorem C19_path_base : forall dir name k,
  name <> [] -> ~ In 47 name -> path_base (dir ++ 47 :: name ++ repeat 47 k) = name.
Proof. exact path_base_last. Qed.
Print Assumptions C19_path_base.

(** * cantext.Append* only append; Marshal / MarshalCompact are such appends; renderings are values
    [append_to buf c] = the buffer the Go call [c] (AppendSignal, AppendSignalCompact, AppendID, AppendSender,
    AppendSendType, AppendCycleTime, AppendDelayTime, AppendFrame) returns for the caller's buffer [buf];
    [None] = the call panics. *)
(** the returned buffer is the caller's buffer followed by the text the call gives for an empty buffer *)
Theorem C19_append_only_appends : forall buf c r,
  append_to buf c = Some r ->
  exists t, append_to [] c = Some t /\ r = buf ++ t /\
    forall rG rF rJ rD, render rG rF rJ rD r = render rG rF rJ rD buf ++ render rG rF rJ rD t.
Proof. exact append_only_appends. Qed.
Print Assumptions C19_append_only_appends.

(** the first len(buf) bytes of the result are the caller's bytes *)
Theorem C19_append_keeps_prefix : forall buf c r rG rF rJ rD,
  append_to buf c = Some r ->
  firstn (length (render rG rF rJ rD buf)) (render rG rF rJ rD r) = render rG rF rJ rD buf.
Proof. exact append_keeps_prefix. Qed.
Print Assumptions C19_append_keeps_prefix.

(** only AppendFrame can fail (Frame.String() panics on a data frame with Length > 8), whatever the buffer *)
Theorem C19_append_fails_iff : forall buf c,
  append_to buf c = None <->
  exists f, c = CallFrame f /\ Can.FrameString.to_string (can_frame f) = Can.FrameString.S_panic.
Proof. exact append_fails_iff. Qed.
Print Assumptions C19_append_fails_iff.

(** Marshal / MarshalCompact written as the Go loops of Append calls over ONE growing buffer give the closed forms above *)
Theorem C19_marshal_is_a_chain_of_appends : forall m d,
  fold_left (fun buf s => match append_to (buf ++ [Lit t_nl_tab]) (CallSignal s d) with
                          | Some b => b
                          | None => buf
                          end)
            (msg_signals m) [Lit (msg_name m)] = text_multiline_data m d.
Proof. exact marshal_loop_spec. Qed.
Print Assumptions C19_marshal_is_a_chain_of_appends.

Theorem C19_marshal_compact_is_a_chain_of_appends : forall m d,
  marshal_compact_loop m d = text_compact_data m d.
Proof. exact marshal_compact_loop_spec. Qed.
Print Assumptions C19_marshal_compact_is_a_chain_of_appends.

(** the k-th result of rendering a sequence of items is the rendering of the k-th item alone, whatever else is
    rendered before or after (any renderer [f] of the model: a rendering is a value). That the Go functions
    return memory which no later call writes to is outside the model and observed by the correspondence run
    (retained results, 'A'/'AC' lines). *)
Theorem C19_renderings_are_values : forall (A B : Type) (f : A -> B) (items : list A) k,
  nth_error (map f items) k = option_map f (nth_error items k).
Proof. exact (@renderings_are_values). Qed.
Print Assumptions C19_renderings_are_values.

(** * F7 (DESIGN.md section 6): the pre-fix uintToJSON = strconv.Itoa(int(u)) violates the raw-value clause:
    the 64-bit unsigned signal at bit 0 with payload ff..ff holds 2^64-1 and was printed as "-1",
    which is not the decimal of the value and does not parse as an unsigned number; the fixed
    formatter prints 18446744073709551615 *)
Theorem C19_json_unsigned_refuted :
  s_signed f7_signal = false /\ s_length f7_signal = 64 /\ valid_data f7_data /\
  unmarshal_unsigned f7_signal f7_data = 2 ^ 64 - 1 /\
  fst (fst (json_signal_value uint_to_json_old f7_signal f7_data)) = [45; 49] /\
  fst (fst (json_signal_value uint_to_json_old f7_signal f7_data)) <> dec_u (unmarshal_unsigned f7_signal f7_data) /\
  parse_uint (fst (fst (json_signal_value uint_to_json_old f7_signal f7_data))) 10 64 = PU_syntax /\
  fst (fst (json_signal_value uint_to_json f7_signal f7_data)) = dec_u (2 ^ 64 - 1).
Proof. exact json_unsigned_refuted. Qed.

(** * Non-vacuity: a message with a scaled unsigned byte (unit, value description), a signed
    12-bit big-endian signal and a flag; every hypothesis used above holds and the renderings are the
    expected segment lists; the hypotheses of C19_json_valid are satisfiable *)
Definition ex_sig_a : signal :=
  {| s_name := [65]; s_start := 0; s_length := 8; s_big_endian := false; s_signed := false; s_float := false;
     s_multiplexer := false; s_multiplexed := false; s_mux_value := 0;
     s_offset := 0; s_scale := 0x3fe0000000000000 (* 0.5 *); s_min := 0; s_max := 0;
     s_unit := [86]; s_description := []; s_value_descriptions := [{| vdesc_value := 255; vdesc_text := [79; 110] |}];
     s_receivers := []; s_default := 0 |}.
Definition ex_sig_b : signal :=
  {| s_name := [66]; s_start := 15; s_length := 12; s_big_endian := true; s_signed := true; s_float := false;
     s_multiplexer := false; s_multiplexed := false; s_mux_value := 0;
     s_offset := 0; s_scale := 0x3ff0000000000000 (* 1 *); s_min := 0; s_max := 0;
     s_unit := []; s_description := []; s_value_descriptions := []; s_receivers := []; s_default := 0 |}.
Definition ex_sig_c : signal :=
  {| s_name := [67]; s_start := 63; s_length := 1; s_big_endian := false; s_signed := false; s_float := false;
     s_multiplexer := false; s_multiplexed := false; s_mux_value := 0;
     s_offset := 0; s_scale := 0x3ff0000000000000; s_min := 0; s_max := 0;
     s_unit := [37]; s_description := []; s_value_descriptions := []; s_receivers := []; s_default := 0 |}.
Definition ex_msg : message :=
  {| msg_name := [77]; msg_id := 0x123; msg_extended := false; msg_length := 8; msg_send_type := SendCyclic;
     msg_description := []; msg_signals := [ex_sig_a; ex_sig_b; ex_sig_c]; msg_sender := [78];
     msg_cycle_time := 100000000; msg_delay_time := 0 |}.
Definition ex_data : data := [255; 0x80; 0x10; 0; 0; 0; 0; 0x80].

Example C19_nonvacuous :
  valid_data ex_data /\ sig_fits ex_sig_a /\ sig_fits ex_sig_b /\
  Forall (fun s => json_plain_name (s_name s)) (msg_signals ex_msg) /\
  unmarshal_unsigned ex_sig_a ex_data = 255 /\ unmarshal_signed ex_sig_b ex_data = -2047 /\
  text_compact_data ex_msg ex_data =
    [Lit [123]; Lit [65]; Lit [58; 32]; Lit [79; 110]; Lit [44; 32];
     Lit [66]; Lit [58; 32]; FloatG 0xc09ffc0000000000 (* -2047 *); Lit []; Lit [44; 32];
     Lit [67]; Lit [58; 32]; Lit [116; 114; 117; 101]; Lit [125]] /\
  text_signal ex_sig_b ex_data =
    [Lit [66]; Lit [58; 32]; FloatG 0xc09ffc0000000000; Lit []; Lit [32; 40]; Lit [48; 120];
     Lit [102; 102; 102; 102; 102; 102; 102; 102; 102; 102; 102; 102; 102; 56; 48; 49] (* fffffffffffff801 *); Lit [41]] /\
  (exists segs, json_render_with uint_to_json ex_msg ex_data = Some segs /\
     nth 3 segs (Lit []) = Lit t_quote_colon /\ nth 5 segs (Lit []) = Lit [50; 53; 53] (* 255 *) /\
     nth 7 segs (Lit []) = FloatF 0x405fe00000000000 (* 127.5 *) /\ nth 9 segs (Lit []) = GoJSONString [86]) /\
  (exists (rF : Z -> bytes) (rJ : bytes -> bytes),
     (forall p : f64, is_finite p = true -> json_number (rF (bits_of_f64 p))) /\ (forall b, json_string (rJ b))).
Proof.
  split; [apply Can.DataProofs.valid_datab_spec; vm_compute; reflexivity|].
  split; [vm_compute; repeat split; discriminate|].
  split; [vm_compute; repeat split; discriminate|].
  split; [repeat constructor; vm_compute; try discriminate; intros E; discriminate E|].
  split; [vm_compute; reflexivity|]. split; [vm_compute; reflexivity|].
  split; [vm_compute; reflexivity|]. split; [vm_compute; reflexivity|].
  split.
  - eexists. split; [vm_compute; reflexivity|]. repeat split.
  - exists (fun _ => [48]), (fun _ => [34; 34]). split.
    + intros _ _. exists [], [48], [], [].
      split; [reflexivity|]. split; [left; reflexivity|]. split; [left; reflexivity|].
      split; left; reflexivity.
    + intros _. exists []. split; [reflexivity|constructor].
Qed.

(** the append theorems are not vacuous: AppendID onto the prefix "x" for [ex_msg]; AppendFrame fails for Length 9 *)
Example C19_append_nonvacuous :
  append_to [Lit [120]] (CallID ex_msg) =
    Some [Lit [120]; Lit [73; 68; 58; 32]; Lit [50; 57; 49]; Lit [32; 40; 48; 120]; Lit [49; 50; 51]; Lit [41]] /\
  append_to [] (CallFrame {| fr_id := 0x123; fr_length := 2; fr_data := ex_data; fr_remote := false; fr_extended := false |}) =
    Some [Lit [70; 114; 97; 109; 101]; Lit [58; 32]; Lit [49; 50; 51; 35; 70; 70; 56; 48]] (* Frame: 123#FF80 *) /\
  append_to [Lit [120]] (CallFrame {| fr_id := 1; fr_length := 9; fr_data := ex_data; fr_remote := false; fr_extended := false |}) = None.
Proof. split; [vm_compute; reflexivity|]. split; vm_compute; reflexivity. Qed.
